//go:build verif

package ethrpc

import "net/http"

// VerifHandler returns the http.Handler that Start() installs into its
// http.Server (the server object itself), without listening.
func VerifHandler(s ServerAPI) http.Handler {
	h, ok := s.(*httpServer)
	if !ok || h == nil {
		return nil
	}
	return h
}
