//go:build verif

package rpc

import "net/http"

// VerifJSONRPCHandlerCapture, when set, receives the complete JSON-RPC handler
// chain (CORS + access-control closure) that Listen is about to serve. The call
// is injected into Listen by the /verif overlay (hooks/rewrites.json "inject").
var VerifJSONRPCHandlerCapture func(j *JSONRPCServer, h http.Handler)

func verifCaptureJSONRPCHandler(j *JSONRPCServer, h http.Handler) {
	if VerifJSONRPCHandlerCapture != nil {
		VerifJSONRPCHandlerCapture(j, h)
	}
}
