//go:build verif

package rpc

import (
	"errors"
	"net/http"

	"github.com/33cn/chain33/rpc/ethrpc"
	"golang.org/x/net/context"
	"google.golang.org/grpc"
)

// VerifResetACL empties the process-global access-control tables so that
// InitCfg / New can be called again with another configuration (the shipped node
// initialises them once per process).
func VerifResetACL() {
	remoteIPWhitelist = make(map[string]bool)
	jrpcFuncWhitelist = make(map[string]bool)
	jrpcFuncBlacklist = make(map[string]bool)
	grpcFuncListLock.Lock()
	grpcFuncWhitelist = make(map[string]bool)
	grpcFuncBlacklist = make(map[string]bool)
	grpcFuncListLock.Unlock()
	rpcFilterPrintFuncBlacklist = make(map[string]bool)
}

// VerifJSONRPCHandler returns the complete handler chain (CORS + access-control
// closure) that JSONRPCServer.Listen serves. The chain only exists inside
// Listen, so Listen is called on the configured bind address (the harness
// configures 127.0.0.1:0), the chain is captured through the injected
// verifCaptureJSONRPCHandler call, and the listener is closed at once: nobody
// ever connects to it.
func (r *RPC) VerifJSONRPCHandler() (http.Handler, error) {
	if r.japi == nil {
		return nil, errors.New("no JSON-RPC server")
	}
	var got http.Handler
	old := VerifJSONRPCHandlerCapture
	VerifJSONRPCHandlerCapture = func(j *JSONRPCServer, h http.Handler) {
		if j == r.japi {
			got = h
		}
	}
	defer func() { VerifJSONRPCHandlerCapture = old }()
	_, err := r.japi.Listen()
	if r.japi.l != nil {
		_ = r.japi.l.Close()
	}
	if err != nil {
		return nil, err
	}
	if got == nil {
		return nil, errors.New("JSON-RPC handler was not captured (inject rule missing?)")
	}
	return got, nil
}

// VerifEthHandler returns the http.Handler the Ethereum-compatible HTTP server
// installs (the server object's own ServeHTTP), without listening.
func (r *RPC) VerifEthHandler() http.Handler { return ethrpc.VerifHandler(r.eapi) }

// VerifEthWSHandler is the same for the websocket endpoint object.
func (r *RPC) VerifEthWSHandler() http.Handler { return ethrpc.VerifHandler(r.ewsapi) }

// VerifGrpcAuth exposes the gRPC gate function as the interceptor calls it.
func VerifGrpcAuth(ctx context.Context, info *grpc.UnaryServerInfo) error { return auth(ctx, info) }
