//go:build verif

package blockchain

// VerifSetPostService replaces the push module's delivery endpoint (the seam the
// push code already has: the PostService interface) by a simulated subscriber.
// It returns false when push is not enabled on this node.
func (chain *BlockChain) VerifSetPostService(ps PostService) bool {
	if chain.push == nil {
		return false
	}
	chain.push.mu.Lock()
	chain.push.postService = ps
	chain.push.mu.Unlock()
	return true
}

// VerifDefaultPostService, when set, is installed as the delivery endpoint of
// every Push created afterwards, before its tasks start (a restarted node starts
// the tasks of its stored subscriptions inside newpush).
var VerifDefaultPostService PostService

func verifInitPush(push *Push) {
	if VerifDefaultPostService != nil {
		push.postService = VerifDefaultPostService
	}
}
