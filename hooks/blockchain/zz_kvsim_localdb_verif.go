//go:build verif

package blockchain

import (
	"sync"

	dbm "github.com/33cn/chain33/common/db"
	"github.com/33cn/chain33/queue"
)

// VerifKvsimLocalDBChain returns a BlockChain that holds only what the local*
// message handlers (blockchain/localdb.go) and the receive loop (ProcRecvMsg)
// use: the queue client and a block store over db. Nothing else of the chain is
// initialised, so only EventLocal* messages may be sent to it.
func VerifKvsimLocalDBChain(cli queue.Client, db dbm.DB) *BlockChain {
	chain := &BlockChain{client: cli, recvwg: &sync.WaitGroup{}}
	chain.blockStore = &BlockStore{db: db, client: cli, chain: chain}
	return chain
}

// VerifKvsimServe subscribes to the blockchain topic and starts the real receive loop.
func (chain *BlockChain) VerifKvsimServe() {
	chain.client.Sub("blockchain")
	chain.recvwg.Add(1)
	go chain.ProcRecvMsg()
}

// VerifKvsimStop closes the client and waits for the receive loop to end.
func (chain *BlockChain) VerifKvsimStop() {
	chain.client.Close()
	chain.recvwg.Wait()
}
