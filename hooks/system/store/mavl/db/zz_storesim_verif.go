//go:build verif

package mavl

import (
	"reflect"
	"sync/atomic"
)

// VerifResetGlobals puts the process-global state of this package back to what a
// freshly started process has. The simulator calls it between runs, between
// "replicas" and at every simulated process restart (one store per process is
// the production shape).
func VerifResetGlobals() {
	// let a background pruner (if any) finish before its state is cleared
	quit = true
	wg.Wait()
	quit = false
	atomic.StoreInt32(&pruningState, pruningStateEnd)
	secLvlPruningH = 0
	heightMtx.Lock()
	maxBlockHeight = 0
	heightMtx.Unlock()
	memTree = nil
	tkCloseCache = nil
}

// VerifGlobalsInfo reports the sizes of the process-global caches (probes only).
func VerifGlobalsInfo() (memTreeLen, tkCloseLen int, maxHeight int64) {
	if memTree != nil {
		memTreeLen = memTree.Len()
	}
	if tkCloseCache != nil {
		tkCloseLen = tkCloseCache.Len()
	}
	heightMtx.Lock()
	maxHeight = maxBlockHeight
	heightMtx.Unlock()
	return
}

// VerifRootIsLeaf tells whether the loaded tree consists of a single leaf (probe).
func (t *Tree) VerifRootIsLeaf() bool { return t.root != nil && t.root.height == 0 }

// VerifLocksSchedulable reports whether this package was compiled with the
// channel-based simsync locks (hooks/rewrites.json): only then may a goroutine be
// parked by the simulator while it holds ndb.mtx / heightMtx.
func VerifLocksSchedulable() bool {
	return reflect.TypeOf(&heightMtx).Elem().PkgPath() != "sync"
}

// VerifPruning reports whether a pruning pass is marked as running.
func VerifPruning() bool { return isPruning() }

// VerifWaitPrune waits for the background pruner goroutine(s) to finish.
func VerifWaitPrune() { wg.Wait() }

// VerifSetQuit sets the flag ClosePrune raises to make a running pruner stop at its
// next iteration (ClosePrune then blocks in a WaitGroup, which the simulator cannot
// schedule around; the harness raises the flag itself and lets the scheduler run
// the pruner to its exit before calling Close).
func VerifSetQuit(q bool) { quit = q }

// VerifPresetMemTree creates the two process-global mem-tree caches exactly as
// InitGlobalMem does, except that the node map gets no capacity hint. (The
// constructor's hint of 500000 entries costs 50-100 ms of allocation and clearing
// per process start, which dominated the simulation; a Go map grows on demand, so
// the behaviour is the same.) InitGlobalMem then finds the caches in place.
func VerifPresetMemTree(tkLen int32) {
	if memTree != nil {
		return
	}
	memTree = NewTreeMap(0)
	if tkLen == 0 {
		tkLen = tkCloseCacheLen
	}
	tkCloseCache = NewTreeARC(int(tkLen))
}
