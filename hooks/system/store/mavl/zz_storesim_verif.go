//go:build verif

package mavl

import (
	mavldb "github.com/33cn/chain33/system/store/mavl/db"
)

// VerifTreeCfg returns the tree configuration the store was built with, so the
// simulator can call the tree-level API of mavl/db with exactly the store's options.
func (mavls *Store) VerifTreeCfg() *mavldb.TreeConfig { return mavls.treeCfg }

// VerifPending counts the pending (MemSet, not yet committed / rolled back) updates.
func (mavls *Store) VerifPending() int {
	n := 0
	mavls.trees.Range(func(_, _ interface{}) bool { n++; return true })
	return n
}
