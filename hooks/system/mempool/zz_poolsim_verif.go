//go:build verif

package mempool

import (
	"sort"

	"github.com/33cn/chain33/types"
)

// VerifEntry is one queued item as the queue walk sees it.
type VerifEntry struct {
	Hash      string // raw hash bytes
	Tx        *types.Transaction
	EnterTime int64
}

// VerifAcc is one sender's entry in the per-sender index.
type VerifAcc struct {
	Addr   string
	Hashes []string // keys of the per-sender list are not exposed: hashes of the stored transactions, in list order
}

// VerifSHash is one entry of the short-hash lookup.
type VerifSHash struct {
	Short string
	Hash  string // hash of the stored transaction
}

// VerifView is a consistent snapshot (taken under the pool lock) of the five
// structures the bookkeeping property relates.
type VerifView struct {
	Queue      []VerifEntry
	Accounts   []VerifAcc // sorted by address
	Last       []string   // hashes of the latest-transactions list, in list order
	SHash      []VerifSHash
	CacheBytes int64
	TotalFee   int64
	Height     int64
	BlockTime  int64
	Sync       bool
	Capacity   int64
	PerAccount int64
}

// VerifInvariantView returns the snapshot. It only reads.
func (mem *Mempool) VerifInvariantView() *VerifView {
	mem.proxyMtx.Lock()
	defer mem.proxyMtx.Unlock()
	v := &VerifView{Capacity: mem.cfg.PoolCacheSize, PerAccount: mem.cfg.MaxTxNumPerAccount, Sync: mem.sync}
	if mem.header != nil {
		v.Height, v.BlockTime = mem.header.Height, mem.header.BlockTime
	}
	c := mem.cache
	c.qcache.Walk(0, func(it *Item) bool {
		v.Queue = append(v.Queue, VerifEntry{Hash: string(it.Value.Hash()), Tx: it.Value, EnterTime: it.EnterTime})
		return true
	})
	addrs := make([]string, 0, len(c.AccountTxIndex.accMap))
	for a := range c.AccountTxIndex.accMap {
		addrs = append(addrs, a)
	}
	sort.Strings(addrs)
	for _, a := range addrs {
		acc := VerifAcc{Addr: a}
		c.AccountTxIndex.accMap[a].Walk(func(val interface{}) bool {
			acc.Hashes = append(acc.Hashes, string(val.(*types.Transaction).Hash()))
			return true
		})
		v.Accounts = append(v.Accounts, acc)
	}
	c.LastTxCache.l.Walk(func(val interface{}) bool {
		v.Last = append(v.Last, string(val.(*types.Transaction).Hash()))
		return true
	})
	c.SHashTxCache.l.Walk(func(val interface{}) bool {
		h := val.(*types.Transaction).Hash()
		v.SHash = append(v.SHash, VerifSHash{Short: types.CalcTxShortHash(h), Hash: string(h)})
		return true
	})
	v.CacheBytes = c.qcache.GetCacheBytes()
	v.TotalFee = c.TotalFee()
	return v
}

// VerifSetProcessNum sets the number of parallel workers per pipeline stage
// used by pools created afterwards (the shipped value is runtime.NumCPU()) and
// returns the previous value.
func VerifSetProcessNum(n int) int {
	old := processNum
	if n > 0 {
		processNum = n
	}
	return old
}

// VerifTotalFee is the fee total the cache keeps (there is no public getter on Mempool).
func (mem *Mempool) VerifTotalFee() int64 {
	mem.proxyMtx.Lock()
	defer mem.proxyMtx.Unlock()
	return mem.cache.TotalFee()
}
