//go:build verif

package eth

import lru "github.com/hashicorp/golang-lru"

// VerifResetCaches re-creates the pubkey-to-address cache as init() does.
func VerifResetCaches() {
	var err error
	if addrCache, err = lru.New(10240); err != nil {
		panic(err)
	}
}
