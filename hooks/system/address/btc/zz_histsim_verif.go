//go:build verif

package btc

import lru "github.com/hashicorp/golang-lru"

// VerifResetCaches re-creates the pubkey-to-address caches as init() does.
func VerifResetCaches() {
	var err error
	if multiSignAddrCache, err = lru.New(10240); err != nil {
		panic(err)
	}
	if normalAddrCache, err = lru.New(10240); err != nil {
		panic(err)
	}
}
