//go:build verif

package broadcast

import (
	"container/list"
	"context"
	"errors"
	"sync"
	"time"

	"github.com/33cn/chain33/common/pubsub"
	"github.com/33cn/chain33/p2p/utils"
	net "github.com/33cn/chain33/system/p2p/dht/extension"
	"github.com/33cn/chain33/system/p2p/dht/protocol"
	"github.com/33cn/chain33/types"
	ps "github.com/libp2p/go-libp2p-pubsub"
	pb "github.com/libp2p/go-libp2p-pubsub/pb"
	"github.com/libp2p/go-libp2p/core/peer"
)

// Topic names and peer message ids, for the simulator.
const (
	SimTopicTx      = psTxTopic
	SimTopicBatchTx = psBatchTxTopic
	SimTopicBlock   = psBlockTopic
	SimTopicLtBlock = psLtBlockTopic
	SimPeerPrefix   = psPeerMsgTopicPrefix
	SimBlockReqID   = blockReqMsgID
	SimBlockRespID  = blockRespMsgID
)

// SimPublished is one message the protocol handed to the publishing side.
// (Failed: the transport refused this publish)
type SimPublished struct {
	Failed bool
	Topic  string
	Msg    types.Message
}

// Sim is the broadcast protocol built without gossipsub: the same objects and
// background loops that init() creates, except that (1) nothing is joined or
// registered on a libp2p pubsub, (2) messages are fed in by Deliver at the point
// where gossipsub would run the topic validator and hand the message to the
// subscription, (3) what the protocol publishes is collected instead of sent.
type Sim struct {
	p        *broadcastProtocol
	sub      *pubSub
	incoming chan net.SubMsg
	mu       sync.Mutex
	out      []SimPublished
	failNext int
}

// FailNextPublishes makes the next n publishes fail at the transport.
func (s *Sim) FailNextPublishes(n int) {
	s.mu.Lock()
	s.failNext = n
	s.mu.Unlock()
}

func (s *Sim) onPublish(topic string, raw []byte) error {
	var msg types.Message
	switch topic {
	case psTxTopic:
		msg = &types.Transaction{}
	case psBatchTxTopic:
		msg = &types.Transactions{}
	case psBlockTopic:
		msg = &types.Block{}
	case psLtBlockTopic:
		msg = &types.LightBlock{}
	default:
		msg = &types.PeerPubSubMsg{}
	}
	if err := s.sub.decodeMsg(raw, nil, msg); err != nil {
		msg = nil
	}
	s.mu.Lock()
	defer s.mu.Unlock()
	if s.failNext > 0 {
		s.failNext--
		s.out = append(s.out, SimPublished{Topic: topic, Msg: msg, Failed: true})
		return errors.New("simulated transport failure")
	}
	s.out = append(s.out, SimPublished{Topic: topic, Msg: msg})
	return nil
}

// NewSim mirrors broadcastProtocol.init / pubSub.init / initLightBroadcast /
// initValidator. Every goroutine is started through run(name, body) so that the
// simulator can observe a panic that reaches the top of a goroutine (which in
// the shipped program terminates the process).
func NewSim(env *protocol.P2PEnv, run func(name string, body func())) *Sim {
	p := &broadcastProtocol{}
	p.P2PEnv = env
	p.ps = pubsub.NewPubSub(1024)
	p.cfg = env.SubConfig.Broadcast
	p.setDefaultConfig()
	p.txFilter = utils.NewFilter(p.cfg.TxFilterLen)
	p.blockFilter = utils.NewFilter(p.cfg.BlockFilterLen)
	protocol.RegisterEventHandler(types.EventTxBroadcast, p.handleBroadcastSend, protocol.WithEventOptInline)
	protocol.RegisterEventHandler(types.EventBlockBroadcast, p.handleBroadcastSend, protocol.WithEventOptInline)
	protocol.RegisterEventHandler(types.EventIsSync, p.handleIsSyncEvent)
	protocol.RegisterEventHandler(types.EventAddBlock, p.handleAddBlock)

	s := &Sim{p: p}
	sub := &pubSub{broadcastProtocol: p}
	sub.peerTopic = sub.getPeerTopic(p.Host.ID())
	s.sub = sub
	s.incoming = make(chan net.SubMsg, 1024)
	outgoing := p.ps.Sub(psBroadcast)
	if !p.cfg.DisableValidation {
		val := newValidator(sub)
		sub.val = val
		run("manageDeniedPeer", val.manageDeniedPeer)
	}
	p.val = sub.val
	run("handleSubMsg", func() { sub.handleSubMsg(s.incoming) })
	// the protocol's own publishing loop runs; what it publishes is collected at
	// the transport seam (and may be made to fail there)
	net.SimPublish = s.onPublish
	run("handlePubMsg", func() { sub.handlePubMsg(outgoing) })

	l := &ltBroadcast{broadcastProtocol: p}
	l.pendBlockList = list.New()
	l.blockRequestList = list.New()
	p.ltB = l
	run("pendBlockLoop", l.pendBlockLoop)
	run("blockRequestLoop", l.blockRequestLoop)
	if !p.cfg.DisableBatchTx {
		ch := p.ps.Sub(psBatchTxTopic)
		run("handleSendBatchTx", func() { p.handleSendBatchTx(ch) })
	}
	return s
}

// SimValidation results of Deliver.
const (
	SimAccept = int(ps.ValidationAccept)
	SimReject = int(ps.ValidationReject)
	SimIgnore = int(ps.ValidationIgnore)
)

// Deliver injects one pubsub message as received from the network: data are the
// bytes on the wire (snappy-compressed protobuf), from the claimed author,
// receivedFrom the neighbour that forwarded it. The topic validator registered
// by pubSub.init runs first, in the caller's goroutine (gossipsub runs inline
// validators in its own, unprotected goroutines); an accepted message is queued
// for handleSubMsg exactly like the subscription callback does.
func (s *Sim) Deliver(topic string, data []byte, from, receivedFrom peer.ID) int {
	t := topic
	msg := &ps.Message{Message: &pb.Message{From: []byte(from), Data: data, Topic: &t}, ReceivedFrom: receivedFrom}
	res := ps.ValidationAccept
	if v := s.sub.val; v != nil {
		ctx := context.Background()
		switch topic {
		case psBlockTopic:
			res = v.validateBlock(ctx, receivedFrom, msg)
		case psTxTopic:
			res = v.validateTx(ctx, receivedFrom, msg)
		case psLtBlockTopic:
			res = v.validatePeer(ctx, receivedFrom, msg)
		case psBatchTxTopic:
			res = v.validateBatchTx(ctx, receivedFrom, msg)
		}
	}
	if res == ps.ValidationAccept {
		s.incoming <- msg
	}
	return int(res)
}

// PeerTopic is the topic on which peer id receives direct messages.
func (s *Sim) PeerTopic(id peer.ID) string { return s.p.getPeerTopic(id) }

// Encode produces the wire form of a message (what handlePubMsg publishes).
func (s *Sim) Encode(msg types.Message) []byte {
	var buf []byte
	return s.sub.encodeMsg(msg, &buf)
}

// LightBlock builds the light form of a block the way the sending side does.
func (s *Sim) LightBlock(b *types.Block) *types.LightBlock { return s.p.buildLtBlock(b) }

// TakePublished returns and clears what the protocol published so far.
func (s *Sim) TakePublished() []SimPublished {
	s.mu.Lock()
	defer s.mu.Unlock()
	o := s.out
	s.out = nil
	return o
}

// Pending reports the number of pending light blocks and block requests, or
// (-1, -1) when the lists' locks cannot be had within ten virtual seconds (a
// holder that never releases them).
func (s *Sim) Pending() (blocks, requests int) {
	l := s.p.ltB
	type res struct{ b, r int }
	ch := make(chan res, 1)
	go func() {
		var o res
		l.pdBlockLock.RLock()
		o.b = l.pendBlockList.Len()
		l.pdBlockLock.RUnlock()
		l.blockReqLock.RLock()
		o.r = l.blockRequestList.Len()
		l.blockReqLock.RUnlock()
		ch <- o
	}()
	select {
	case o := <-ch:
		return o.b, o.r
	case <-time.After(10 * time.Second):
		return -1, -1
	}
}

// Denied reports whether the validator currently shields the peer.
func (s *Sim) Denied(id peer.ID) bool {
	if s.sub.val == nil {
		return false
	}
	return s.sub.val.isDeniedPeer(id)
}
