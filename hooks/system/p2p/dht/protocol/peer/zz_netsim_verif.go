//go:build verif

package peer

import (
	"strings"
	"time"

	"github.com/33cn/chain33/common/utils"
	"github.com/33cn/chain33/system/p2p/dht/protocol"
	"github.com/33cn/chain33/types"
	core "github.com/libp2p/go-libp2p/core/peer"
)

// Stream protocol ids, for the simulator.
const (
	SimPeerInfoOld    = peerInfoOld
	SimPeerInfo       = peerInfo
	SimPeerVersionOld = peerVersionOld
	SimPeerVersion    = peerVersion
	SimStatistical    = statisticalInfo
)

// Sim is the peer protocol with every goroutine started through run(name, body),
// so that the simulator sees a panic that reaches the top of a goroutine.
type Sim struct{ p *Protocol }

// NewSim mirrors InitProtocol (same registrations, same background loops).
func NewSim(env *protocol.P2PEnv, run func(name string, body func())) *Sim {
	p := &Protocol{P2PEnv: env}
	for _, multiAddr := range p.Host.Addrs() {
		addr := multiAddr.String()
		if utils.IsPublicIP(strings.Split(addr, "/")[2]) {
			p.mutex.Lock()
			p.externalAddr = addr
			p.mutex.Unlock()
			break
		}
		if !strings.Contains(addr, "127.0.0.1") && !strings.Contains(addr, "localhost") {
			p.mutex.Lock()
			p.externalAddr = addr
			p.mutex.Unlock()
		}
	}
	protocol.RegisterStreamHandler(p.Host, peerInfoOld, p.handleStreamPeerInfoOld)
	protocol.RegisterStreamHandler(p.Host, peerInfo, p.handleStreamPeerInfo)
	protocol.RegisterStreamHandler(p.Host, peerVersionOld, p.handleStreamVersionOld)
	protocol.RegisterStreamHandler(p.Host, peerVersion, p.handleStreamVersion)
	protocol.RegisterStreamHandler(p.Host, statisticalInfo, p.handlerStreamStatistical)
	protocol.RegisterEventHandler(types.EventPeerInfo, p.handleEventPeerInfo)
	protocol.RegisterEventHandler(types.EventGetNetInfo, p.handleEventNetInfo)
	protocol.RegisterEventHandler(types.EventNetProtocols, p.handleEventNetProtocols)
	protocol.RegisterEventHandler(types.EventAddBlacklist, p.handleEventAddBlacklist)
	protocol.RegisterEventHandler(types.EventDelBlacklist, p.handleEventDelBlacklist)
	protocol.RegisterEventHandler(types.EventShowBlacklist, p.handleEventShowBlacklist)
	protocol.RegisterEventHandler(types.EventDialPeer, p.handleEventDialPeer)
	protocol.RegisterEventHandler(types.EventClosePeer, p.handleEventClosePeer)
	run("detectNodeAddr", p.detectNodeAddr)
	run("checkBlocked", p.checkBlocked)
	run("refreshSelfLoop", func() {
		ticker := time.NewTicker(time.Second * 3)
		defer ticker.Stop()
		ticker2 := time.NewTicker(time.Minute * 5)
		defer ticker2.Stop()
		ticker3 := time.NewTicker(time.Minute * 10)
		defer ticker3.Stop()
		for {
			select {
			case <-p.Ctx.Done():
				return
			case <-ticker.C:
				p.refreshSelf()
			case <-ticker2.C:
				peers := p.RoutingTable.ListPeers()
				if len(peers) <= maxPeers {
					break
				}
				p.refreshPeerInfo(peers[maxPeers:])
			case <-ticker3.C:
				p.checkOutBound(p.PeerInfoManager.Fetch(p.Host.ID()).GetHeader().GetHeight())
			}
		}
	})
	run("refreshPeerInfoLoop", func() {
		ticker1 := time.NewTicker(time.Second * 10)
		if p.ChainCfg.IsTestNet() {
			ticker1 = time.NewTicker(time.Second)
		}
		defer ticker1.Stop()
		for {
			select {
			case <-p.Ctx.Done():
				return
			case <-ticker1.C:
				peers := p.RoutingTable.ListPeers()
				if len(peers) > maxPeers {
					peers = peers[:maxPeers]
				}
				p.refreshPeerInfo(peers)
			}
		}
	})
	return &Sim{p: p}
}

// RefreshPeerInfo queries the given peers now (what the periodic loop does).
func (s *Sim) RefreshPeerInfo(peers []core.ID) { s.p.refreshPeerInfo(peers) }

// QueryVersion runs the version exchange with a peer (current protocol).
func (s *Sim) QueryVersion(id core.ID) error { return s.p.queryVersion(id) }

// ExternalAddr returns the node's idea of its own external address.
func (s *Sim) ExternalAddr() string { return s.p.getExternalAddr() }
