//go:build verif

package extension

import (
	"context"

	p2ptypes "github.com/33cn/chain33/system/p2p/dht/types"
)

// NewSimPubSub builds a PubSub without gossipsub behind it: only the topic table
// exists, so HasTopic/TryJoinTopic succeed for the given topics and nothing is
// ever sent. Used by the netsim simulator, which feeds received messages to the
// protocols directly and observes what they hand to the publishing side.
func NewSimPubSub(ctx context.Context, topics ...string) *PubSub {
	p := &PubSub{topics: make(TopicMap), ctx: ctx, config: &p2ptypes.PubSubConfig{}}
	for _, t := range topics {
		p.AddSimTopic(t)
	}
	return p
}

// AddSimTopic marks a topic as joined.
func (p *PubSub) AddSimTopic(topic string) {
	ctx, cancel := context.WithCancel(p.ctx)
	p.setTopic(topic, &topicinfo{ctx: ctx, cancel: cancel, topic: topic})
}

// SimPublish, when set, receives what Publish would hand to gossipsub (the bytes
// on the wire) and decides the result of the call.
var SimPublish func(topic string, msg []byte) error
