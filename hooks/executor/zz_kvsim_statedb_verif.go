//go:build verif

package executor

import (
	dbm "github.com/33cn/chain33/common/db"
)

// VerifKvsimEnableMVCC calls the unexported StateDB.enableMVCC (what the executor
// does after NewStateDB): it resolves the state hash to an MVCC version so that
// Get reads through SimpleMVCC.GetV.
func VerifKvsimEnableMVCC(s dbm.KV, hash []byte) {
	s.(*StateDB).enableMVCC(hash)
}
