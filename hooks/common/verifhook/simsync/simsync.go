//go:build verif

// Package simsync is a drop-in for the parts of package sync whose blocking the
// deterministic simulator must be able to see. Inside a testing/synctest bubble
// a goroutine blocked in sync.Mutex.Lock is NOT durably blocked, so a lock held
// across a scheduling point would freeze the bubble; these locks block on
// channels instead (durable blocking). Semantics are those of sync: zero values
// are ready to use, Unlock of an unlocked mutex panics, RWMutex admits many
// readers or one writer and a waiting writer blocks new readers.
//
// Selected chain33 files are compiled against this package by the /verif overlay
// (import "sync" is rewritten); nothing here is part of the shipped tree.
package simsync

import "sync"

// Aliases for the types whose blocking synctest already understands.
type (
	WaitGroup = sync.WaitGroup
	Map       = sync.Map
	Pool      = sync.Pool
	Cond      = sync.Cond
	Locker    = sync.Locker
)

// NewCond mirrors sync.NewCond.
func NewCond(l Locker) *Cond { return sync.NewCond(l) }

// OnceFunc mirrors sync.OnceFunc.
func OnceFunc(f func()) func() { return sync.OnceFunc(f) }

// Once is sync.Once whose concurrent callers block on a channel while the first
// call runs (sync.Once blocks them on a sync.Mutex, which is not durable).
type Once struct {
	m    Mutex
	done bool
}

// Do calls f if and only if Do is being called for the first time.
func (o *Once) Do(f func()) {
	o.m.Lock()
	defer o.m.Unlock()
	if !o.done {
		defer func() { o.done = true }()
		f()
	}
}

// Mutex is a mutual exclusion lock whose waiters block on a channel.
type Mutex struct {
	mu      sync.Mutex // guards the fields below; never held while blocking
	locked  bool
	waiters []chan struct{}
}

// Lock locks m.
func (m *Mutex) Lock() {
	m.mu.Lock()
	if !m.locked {
		m.locked = true
		m.mu.Unlock()
		return
	}
	ch := make(chan struct{})
	m.waiters = append(m.waiters, ch)
	m.mu.Unlock()
	<-ch // ownership is handed over by Unlock
}

// TryLock tries to lock m.
func (m *Mutex) TryLock() bool {
	m.mu.Lock()
	defer m.mu.Unlock()
	if m.locked {
		return false
	}
	m.locked = true
	return true
}

// Unlock unlocks m, handing the lock to the longest waiter (FIFO).
func (m *Mutex) Unlock() {
	m.mu.Lock()
	if !m.locked {
		m.mu.Unlock()
		panic("simsync: unlock of unlocked mutex")
	}
	if len(m.waiters) > 0 {
		ch := m.waiters[0]
		m.waiters = m.waiters[1:]
		m.mu.Unlock()
		close(ch) // stays locked, now owned by the waiter
		return
	}
	m.locked = false
	m.mu.Unlock()
}

// RWMutex is a reader/writer lock whose waiters block on channels.
type RWMutex struct {
	mu      sync.Mutex
	readers int
	writer  bool
	queue   []rwWaiter
}

type rwWaiter struct {
	write bool
	ch    chan struct{}
}

// Lock locks rw for writing.
func (rw *RWMutex) Lock() {
	rw.mu.Lock()
	if !rw.writer && rw.readers == 0 && len(rw.queue) == 0 {
		rw.writer = true
		rw.mu.Unlock()
		return
	}
	ch := make(chan struct{})
	rw.queue = append(rw.queue, rwWaiter{true, ch})
	rw.mu.Unlock()
	<-ch
}

// TryLock tries to lock rw for writing.
func (rw *RWMutex) TryLock() bool {
	rw.mu.Lock()
	defer rw.mu.Unlock()
	if !rw.writer && rw.readers == 0 && len(rw.queue) == 0 {
		rw.writer = true
		return true
	}
	return false
}

// Unlock unlocks rw for writing.
func (rw *RWMutex) Unlock() {
	rw.mu.Lock()
	if !rw.writer {
		rw.mu.Unlock()
		panic("simsync: Unlock of unlocked RWMutex")
	}
	rw.writer = false
	rw.wake()
	rw.mu.Unlock()
}

// RLock locks rw for reading.
func (rw *RWMutex) RLock() {
	rw.mu.Lock()
	if !rw.writer && len(rw.queue) == 0 {
		rw.readers++
		rw.mu.Unlock()
		return
	}
	ch := make(chan struct{})
	rw.queue = append(rw.queue, rwWaiter{false, ch})
	rw.mu.Unlock()
	<-ch
}

// TryRLock tries to lock rw for reading.
func (rw *RWMutex) TryRLock() bool {
	rw.mu.Lock()
	defer rw.mu.Unlock()
	if !rw.writer && len(rw.queue) == 0 {
		rw.readers++
		return true
	}
	return false
}

// RUnlock undoes a single RLock call.
func (rw *RWMutex) RUnlock() {
	rw.mu.Lock()
	if rw.readers <= 0 {
		rw.mu.Unlock()
		panic("simsync: RUnlock of unlocked RWMutex")
	}
	rw.readers--
	if rw.readers == 0 {
		rw.wake()
	}
	rw.mu.Unlock()
}

// wake admits the next writer, or the next run of readers. Called with mu held.
func (rw *RWMutex) wake() {
	if rw.writer || len(rw.queue) == 0 {
		return
	}
	if rw.queue[0].write {
		if rw.readers == 0 {
			w := rw.queue[0]
			rw.queue = rw.queue[1:]
			rw.writer = true
			close(w.ch)
		}
		return
	}
	for len(rw.queue) > 0 && !rw.queue[0].write {
		w := rw.queue[0]
		rw.queue = rw.queue[1:]
		rw.readers++
		close(w.ch)
	}
}

// RLocker returns a Locker whose Lock/Unlock call RLock/RUnlock.
func (rw *RWMutex) RLocker() Locker { return (*rlocker)(rw) }

type rlocker RWMutex

func (r *rlocker) Lock()   { (*RWMutex)(r).RLock() }
func (r *rlocker) Unlock() { (*RWMutex)(r).RUnlock() }
