//go:build verif

// Package verifhook is the seam between chain33 code built with the verif tag
// and the deterministic simulator: function variables that are no-ops until a
// simulation installs closures. It is overlaid into the module at check time
// and is not part of the shipped tree.
package verifhook

import "runtime"

// Yield is a scheduling point inside instrumented code.
var Yield = func(site string) {}

// Go starts a goroutine the simulator knows about.
var Go = func(f func()) { go f() }

// NumCPU is the worker-count seam.
var NumCPU = func() int { return runtime.NumCPU() }

// Probe counts that a rare branch was reached.
var Probe = func(name string) {}
