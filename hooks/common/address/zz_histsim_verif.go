//go:build verif

package address

import lru "github.com/hashicorp/golang-lru"

// VerifResetCaches re-creates the package's caches exactly as init() does, so a
// check can ask a query "in a pristine process state".
func VerifResetCaches() {
	var err error
	if execAddrCache, err = lru.New(10240); err != nil {
		panic(err)
	}
	if checkAddressCache, err = lru.New(10240); err != nil {
		panic(err)
	}
	if execPubKeyCache, err = lru.New(10240); err != nil {
		panic(err)
	}
}

// VerifDriverEnableHeights reports the configured enable height of every
// registered address driver (by driver name).
func VerifDriverEnableHeights() map[string]int64 {
	driverMutex.Lock()
	defer driverMutex.Unlock()
	out := make(map[string]int64, len(drivers))
	for _, d := range drivers {
		out[d.driver.GetName()] = d.enableHeight
	}
	return out
}
