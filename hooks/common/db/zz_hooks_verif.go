//go:build verif

package db

// VerifRegister registers a database backend (simulated disk) under a driver name.
func VerifRegister(backend string, creator func(name string, dir string, cache int) (DB, error)) {
	registerDBCreator(backend, creator, true)
}
