//go:build eng_all || eng_kvsim

package verifsim

import _ "verifsim/engines/kvsim"
