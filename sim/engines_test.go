package verifsim

import (
	_ "verifsim/engines/kvsim"
)
