package simrt

import (
	"fmt"
	"runtime/debug"
	"strings"
	"testing"
	"testing/synctest"
)

// InBubble runs f inside a testing/synctest bubble: every timer, ticker and
// time.Now inside reads a virtual clock that starts at 2000-01-01 and advances
// only when all goroutines of the bubble are durably blocked.
//
// Goroutines that are still blocked when f returns (module loops that have no
// shutdown path) make the runtime report a deadlock for the bubble; that report
// is swallowed here (leaked=true) because f has already produced its verdict.
// A panic raised by f itself is re-raised.
// LastPanicStack is the stack of the last panic InBubble re-raised.
var LastPanicStack string

func InBubble(t *testing.T, f func()) (leaked bool) {
	var fpanic interface{}
	done := false
	func() {
		defer func() {
			if r := recover(); r != nil {
				if !done && fpanic == nil {
					// panic from the bubble machinery before f completed
					s := fmt.Sprint(r)
					if strings.Contains(s, "deadlock") {
						fpanic = HarnessError{"bubble deadlock before the scenario finished: " + s}
						return
					}
					fpanic = r
					return
				}
				leaked = true
			}
		}()
		synctest.Test(t, func(t *testing.T) {
			defer func() {
				if r := recover(); r != nil {
					fpanic = r
					if _, ok := r.(HarnessError); !ok {
						// keep where it happened: the re-raise below loses the stack
						LastPanicStack = string(debug.Stack())
					}
				}
				done = true
			}()
			f()
		})
	}()
	if fpanic != nil {
		panic(fpanic)
	}
	return leaked
}

// Settle waits until every goroutine in the bubble is durably blocked.
func Settle() { synctest.Wait() }
