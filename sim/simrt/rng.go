// Package simrt is the simulator runtime: one integer (VERIF_SEED) decides every
// generated operation, fault and scheduling choice; all draws are recorded so a
// run can be replayed from its scenario file.
package simrt

import (
	"hash/fnv"
)

// RNG is SplitMix64. It is deliberately not math/rand so the stream is stable
// across Go releases.
type RNG struct{ s uint64 }

// NewRNG returns a generator seeded with seed.
func NewRNG(seed uint64) *RNG { return &RNG{s: seed} }

// Sub derives an independent stream by name, so adding a draw in one stream does
// not shift another.
func (r *RNG) Sub(name string) *RNG {
	h := fnv.New64a()
	h.Write([]byte(name))
	return &RNG{s: mix(r.s ^ h.Sum64())}
}

// SubN derives an independent stream by index.
func (r *RNG) SubN(n uint64) *RNG { return &RNG{s: mix(r.s + 0x632be59bd9b4e019*(n+1))} }

func mix(z uint64) uint64 {
	z = (z ^ (z >> 30)) * 0xbf58476d1ce4e5b9
	z = (z ^ (z >> 27)) * 0x94d049bb133111eb
	return z ^ (z >> 31)
}

// U64 returns the next 64 random bits.
func (r *RNG) U64() uint64 {
	r.s += 0x9e3779b97f4a7c15
	return mix(r.s)
}

// Intn returns a value in [0,n). n<=0 yields 0.
func (r *RNG) Intn(n int) int {
	if n <= 1 {
		return 0
	}
	return int(r.U64() % uint64(n))
}

// Range returns a value in [lo,hi].
func (r *RNG) Range(lo, hi int) int {
	if hi <= lo {
		return lo
	}
	return lo + r.Intn(hi-lo+1)
}

// I64 returns a value in [0,n).
func (r *RNG) I64(n int64) int64 {
	if n <= 1 {
		return 0
	}
	return int64(r.U64() % uint64(n))
}

// Chance returns true with probability num/den.
func (r *RNG) Chance(num, den int) bool { return r.Intn(den) < num }

// Bytes returns n random bytes.
func (r *RNG) Bytes(n int) []byte {
	b := make([]byte, n)
	for i := 0; i < n; i += 8 {
		v := r.U64()
		for j := 0; j < 8 && i+j < n; j++ {
			b[i+j] = byte(v >> (8 * j))
		}
	}
	return b
}

// Pick returns one of the strings.
func (r *RNG) Pick(ss ...string) string { return ss[r.Intn(len(ss))] }

// Weighted picks an index with the given integer weights.
func (r *RNG) Weighted(w ...int) int {
	t := 0
	for _, x := range w {
		t += x
	}
	if t <= 0 {
		return 0
	}
	v := r.Intn(t)
	for i, x := range w {
		if v < x {
			return i
		}
		v -= x
	}
	return len(w) - 1
}

// Perm returns a random permutation of 0..n-1.
func (r *RNG) Perm(n int) []int {
	p := make([]int, n)
	for i := range p {
		p[i] = i
	}
	for i := n - 1; i > 0; i-- {
		j := r.Intn(i + 1)
		p[i], p[j] = p[j], p[i]
	}
	return p
}

// Read implements io.Reader (used to replace crypto/rand.Reader in simulations).
func (r *RNG) Read(p []byte) (int, error) {
	copy(p, r.Bytes(len(p)))
	return len(p), nil
}
