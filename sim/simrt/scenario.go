package simrt

import (
	"crypto/sha256"
	"encoding/hex"
	"encoding/json"
	"fmt"
	"os"
	"sort"
	"time"
)

// Op is one generated operation, fault or delivery. It is deliberately generic
// so that replay files and delta debugging work the same for every engine.
type Op struct {
	K   string   `json:"k"`
	S   []string `json:"s,omitempty"` // string / hex-encoded byte arguments
	I   []int64  `json:"i,omitempty"` // integer arguments
	Sub []Op     `json:"sub,omitempty"`
}

// B returns the i-th string argument decoded from hex.
func (o *Op) B(i int) []byte {
	if i >= len(o.S) {
		return nil
	}
	b, err := hex.DecodeString(o.S[i])
	if err != nil {
		return []byte(o.S[i])
	}
	return b
}

// Str returns the i-th string argument or "".
func (o *Op) Str(i int) string {
	if i >= len(o.S) {
		return ""
	}
	return o.S[i]
}

// Int returns the i-th integer argument or 0.
func (o *Op) Int(i int) int64 {
	if i >= len(o.I) {
		return 0
	}
	return o.I[i]
}

// H hex-encodes bytes for Op.S.
func H(b []byte) string { return hex.EncodeToString(b) }

// Scenario is everything that determines one simulated run.
type Scenario struct {
	Property string           `json:"property"`
	Engine   string           `json:"engine"`
	Seed     uint64           `json:"seed"`
	Run      int              `json:"run"`
	Tier     string           `json:"tier"`
	Knobs    map[string]int64 `json:"knobs,omitempty"`
	Ops      []Op             `json:"ops"`
	// Tape holds the run-time choices (schedule, fault coin flips) taken during
	// execution. Empty on the first run (choices then come from the PRNG and are
	// recorded); on replay the tape is consumed and missing entries are 0.
	Tape      []uint32   `json:"tape,omitempty"`
	UseTape   bool       `json:"use_tape,omitempty"`
	Violation *Violation `json:"violation,omitempty"`
}

// Knob returns a knob value or def.
func (s *Scenario) Knob(name string, def int64) int64 {
	if v, ok := s.Knobs[name]; ok {
		return v
	}
	return def
}

// Clone deep-copies through JSON.
func (s *Scenario) Clone() *Scenario {
	b, _ := json.Marshal(s)
	var c Scenario
	_ = json.Unmarshal(b, &c)
	return &c
}

// Digest identifies the generated part of a scenario (ops and knobs).
func (s *Scenario) Digest() string {
	h := sha256.New()
	enc := json.NewEncoder(h)
	ks := make([]string, 0, len(s.Knobs))
	for k := range s.Knobs {
		ks = append(ks, k)
	}
	sort.Strings(ks)
	for _, k := range ks {
		fmt.Fprintf(h, "%s=%d;", k, s.Knobs[k])
	}
	_ = enc.Encode(s.Ops)
	return hex.EncodeToString(h.Sum(nil)[:12])
}

// Violation is a failed oracle.
type Violation struct {
	Class   string `json:"class"`            // stable class name, used to keep minimisation on the same failure
	Sig     string `json:"sig,omitempty"`    // finer signature, matched against known_findings.json
	Detail  string `json:"detail,omitempty"` // human-readable
	OpIndex int    `json:"op_index"`
	Seq     uint64 `json:"event_seq,omitempty"`
}

func (v *Violation) String() string {
	if v == nil {
		return "<none>"
	}
	return fmt.Sprintf("%s [%s] at op %d: %s", v.Class, v.Sig, v.OpIndex, v.Detail)
}

// Result of executing one scenario.
type Result struct {
	Run         int            `json:"run"`
	Seed        uint64         `json:"seed"`
	Digest      string         `json:"digest"`
	Nontrivial  bool           `json:"nontrivial"`
	Ops         int            `json:"ops"`
	Steps       int            `json:"steps"`           // scheduler decisions / executed ops
	SimTimeNs   int64          `json:"sim_ns"`          // simulated time covered
	Faults      map[string]int `json:"faults"`          // faults that actually fired, by kind
	Probes      map[string]int `json:"probes"`          // "rare condition hit" counters
	SchedDigest string         `json:"sched"`           // digest of run-time decisions (distinct interleavings)
	LogDigest   string         `json:"log"`             // digest of the event log (determinism self-test)
	States      []string       `json:"states,omitempty"` // digests of distinct model states reached
	Violation   *Violation     `json:"violation,omitempty"`
	Replay      string         `json:"replay,omitempty"`
	WallMs      int64          `json:"wall_ms"`
}

// Ctx is handed to an engine for one execution.
type Ctx struct {
	Sc      *Scenario
	rng     *RNG // run-time choice stream
	tapePos int
	tapeOut []uint32
	Faults  map[string]int
	Probes  map[string]int
	states  map[string]struct{}
	log     *logHash
	seq     uint64
	steps   int
	simNs   int64
	Verbose bool
	// CurOp is maintained by engines so violations carry an op index.
	CurOp int
	start time.Time
}

// NewCtx prepares a context for executing sc.
func NewCtx(sc *Scenario) *Ctx {
	return &Ctx{
		Sc:     sc,
		rng:    NewRNG(sc.Seed).Sub("runtime").SubN(uint64(sc.Run)),
		Faults: map[string]int{},
		Probes: map[string]int{},
		states: map[string]struct{}{},
		log:    newLogHash(),
		start:  time.Now(),
	}
}

// Choice is the only source of run-time nondeterminism an engine may use.
func (c *Ctx) Choice(n int) int {
	if n <= 1 {
		// still recorded so tapes stay aligned when n changes under minimisation
		c.tapeOut = append(c.tapeOut, 0)
		c.tapePos++
		return 0
	}
	var v uint32
	if c.Sc.UseTape {
		if c.tapePos < len(c.Sc.Tape) {
			v = c.Sc.Tape[c.tapePos]
		}
	} else {
		v = uint32(c.rng.U64() >> 33)
	}
	c.tapePos++
	r := int(v % uint32(n))
	c.tapeOut = append(c.tapeOut, uint32(r))
	return r
}

// Chance flips a recorded coin.
func (c *Ctx) Chance(num, den int) bool { return c.Choice(den) < num }

// Fault counts a fault that actually fired.
func (c *Ctx) Fault(kind string) { c.Faults[kind]++ }

// Probe counts a rare condition that was reached.
func (c *Ctx) Probe(name string) { c.Probes[name]++ }

// State records a model-state digest (distinct states reached).
func (c *Ctx) State(d string) { c.states[d] = struct{}{} }

// Step counts one executed step.
func (c *Ctx) Step() { c.steps++ }

// AddSimTime accounts simulated time.
func (c *Ctx) AddSimTime(d time.Duration) { c.simNs += int64(d) }

// Seq returns the next global event sequence number.
func (c *Ctx) Seq() uint64 { c.seq++; return c.seq }

// Logf appends to the event log (hashed; printed when verbose). It never draws
// from the PRNG and never reads a clock.
func (c *Ctx) Logf(format string, a ...interface{}) {
	s := fmt.Sprintf(format, a...)
	c.log.add(s)
	if c.Verbose {
		fmt.Fprintf(os.Stderr, "  | %s\n", s)
	}
}

// Violate builds a violation at the current op.
func (c *Ctx) Violate(class, sig, format string, a ...interface{}) *Violation {
	return &Violation{Class: class, Sig: sig, Detail: fmt.Sprintf(format, a...), OpIndex: c.CurOp, Seq: c.seq}
}

// Finish assembles the result.
func (c *Ctx) Finish(v *Violation) *Result {
	h := sha256.New()
	for _, x := range c.tapeOut {
		h.Write([]byte{byte(x), byte(x >> 8), byte(x >> 16), byte(x >> 24)})
	}
	nontrivialSched := false
	for _, x := range c.tapeOut {
		if x != 0 {
			nontrivialSched = true
			break
		}
	}
	nf := 0
	for _, n := range c.Faults {
		nf += n
	}
	sts := make([]string, 0, len(c.states))
	for s := range c.states {
		sts = append(sts, s)
	}
	sort.Strings(sts)
	if len(sts) > 64 {
		sts = sts[:64]
	}
	steps := c.steps
	if steps == 0 {
		steps = len(c.Sc.Ops)
	}
	return &Result{
		Run: c.Sc.Run, Seed: c.Sc.Seed, Digest: c.Sc.Digest(),
		Nontrivial: nf > 0 || nontrivialSched,
		Ops:        len(c.Sc.Ops), Steps: steps, SimTimeNs: c.simNs,
		Faults: c.Faults, Probes: c.Probes,
		SchedDigest: hex.EncodeToString(h.Sum(nil)[:8]),
		LogDigest:   c.log.sum(),
		States:      sts,
		Violation:   v,
		WallMs:      time.Since(c.start).Milliseconds(),
	}
}

// TapeOut returns the choices taken in this execution.
func (c *Ctx) TapeOut() []uint32 { return c.tapeOut }

type logHash struct {
	h [32]byte
	n int
}

func newLogHash() *logHash { return &logHash{} }
func (l *logHash) add(s string) {
	x := sha256.New()
	x.Write(l.h[:])
	x.Write([]byte(s))
	copy(l.h[:], x.Sum(nil))
	l.n++
}
func (l *logHash) sum() string { return fmt.Sprintf("%d:%s", l.n, hex.EncodeToString(l.h[:8])) }

// DigestOf hashes arbitrary printable values.
func DigestOf(a ...interface{}) string {
	h := sha256.New()
	fmt.Fprint(h, a...)
	return hex.EncodeToString(h.Sum(nil)[:10])
}

// WriteReplay stores a scenario (with its recorded tape and violation).
func WriteReplay(path string, sc *Scenario) error {
	b, err := json.MarshalIndent(sc, "", " ")
	if err != nil {
		return err
	}
	return os.WriteFile(path, b, 0o644)
}

// ReadReplay loads a scenario file.
func ReadReplay(path string) (*Scenario, error) {
	b, err := os.ReadFile(path)
	if err != nil {
		return nil, err
	}
	var sc Scenario
	if err := json.Unmarshal(b, &sc); err != nil {
		return nil, err
	}
	return &sc, nil
}
