package simrt

import (
	"fmt"
	"runtime/debug"
	"sort"
	"testing"
	"time"
)

// Engine generates and executes scenarios for one or more properties.
type Engine interface {
	Name() string
	// Generate builds the scenario of run number `run` from rng alone.
	Generate(prop string, rng *RNG, tier string, run int) *Scenario
	// Execute runs the scenario against the real code and evaluates the oracle.
	// It must be a deterministic function of ctx.Sc (ops, knobs and, via
	// ctx.Choice, the tape).
	Execute(t *testing.T, ctx *Ctx) *Violation
}

// Simplifier is optionally implemented by engines that know how to shrink the
// arguments of an op (smaller amounts, shorter keys ...).
type Simplifier interface {
	Simplify(sc *Scenario) []*Scenario
}

// Info describes how a property is served.
type Info struct {
	Property string
	Engine   Engine
	// Real and Stub list the components that run real code / a stand-in.
	Real, Stub []string
	FaultKinds []string
	Rule       string // what makes a run distinct and non-trivial
	// Nontrivial overrides the default rule (fault fired or non-first schedule choice).
	Nontrivial func(sc *Scenario, r *Result) bool
	Assumptions []string
	// PanicIsViolation: a Go panic escaping the SUT during Execute is a violation
	// of this property (crash-freedom), otherwise it is a harness error.
	PanicClass string
}

var registry = map[string]*Info{}

// Register adds a property.
func Register(i *Info) {
	if _, dup := registry[i.Property]; dup {
		panic("duplicate property " + i.Property)
	}
	registry[i.Property] = i
}

// Lookup finds a property.
func Lookup(prop string) *Info { return registry[prop] }

// Properties lists registered ids.
func Properties() []string {
	var s []string
	for k := range registry {
		s = append(s, k)
	}
	sort.Strings(s)
	return s
}

// HarnessError is raised (by panic) for conditions that are the harness's fault;
// the worker exits 2 instead of reporting a violation.
type HarnessError struct{ Msg string }

func (h HarnessError) Error() string { return "harness error: " + h.Msg }

// Must panics with a HarnessError when err != nil.
func Must(err error, what string) {
	if err != nil {
		panic(HarnessError{fmt.Sprintf("%s: %v", what, err)})
	}
}

// Failf raises a HarnessError.
func Failf(format string, a ...interface{}) { panic(HarnessError{fmt.Sprintf(format, a...)}) }

// RunOnce executes sc and returns the result and the tape that was taken.
func RunOnce(t *testing.T, info *Info, sc *Scenario, verbose bool) (res *Result, tape []uint32) {
	ctx := NewCtx(sc)
	ctx.Verbose = verbose
	var v *Violation
	func() {
		defer func() {
			if r := recover(); r != nil {
				if he, ok := r.(HarnessError); ok {
					panic(he)
				}
				if info.PanicClass != "" {
					v = &Violation{Class: info.PanicClass, Sig: "panic", OpIndex: ctx.CurOp,
						Detail: fmt.Sprintf("panic: %v\n%s", r, trimStack(debug.Stack()))}
					return
				}
				panic(HarnessError{fmt.Sprintf("unexpected panic in %s run %d op %d: %v\n%s\noriginal stack:\n%s", sc.Property, sc.Run, ctx.CurOp, r, debug.Stack(), LastPanicStack)})
			}
		}()
		v = info.Engine.Execute(t, ctx)
	}()
	res = ctx.Finish(v)
	if info.Nontrivial != nil {
		res.Nontrivial = info.Nontrivial(sc, res)
	}
	return res, ctx.TapeOut()
}

func trimStack(b []byte) string {
	if len(b) > 3000 {
		b = b[:3000]
	}
	return string(b)
}

// Minimise shrinks a failing scenario while the same violation class persists.
// The returned scenario carries UseTape=true and the tape of its last failing
// execution, so replaying it is a pure function of the file and the code.
func Minimise(t *testing.T, info *Info, sc *Scenario, class string, budget time.Duration) *Scenario {
	deadline := time.Now().Add(budget)
	best := sc.Clone()
	fails := func(c *Scenario) bool {
		if time.Now().After(deadline) {
			return false
		}
		r, tape := RunOnce(t, info, c, false)
		if r.Violation != nil && r.Violation.Class == class {
			c.Tape = tape
			c.UseTape = true
			c.Violation = r.Violation
			return true
		}
		return false
	}
	// pin the tape first
	if !best.UseTape {
		c := best.Clone()
		if fails(c) {
			best = c
		} else {
			return best // not reproducible in-process; caller reports as is
		}
	}
	// 1. ddmin over top-level ops
	best = ddminOps(best, fails, func(s *Scenario) *[]Op { return &s.Ops })
	// 2. ddmin inside sub-op lists
	for i := 0; i < len(best.Ops); i++ {
		if len(best.Ops[i].Sub) > 1 {
			idx := i
			best = ddminOps(best, fails, func(s *Scenario) *[]Op { return &s.Ops[idx].Sub })
		}
	}
	// 3. zero the schedule-tape suffix / whole tape
	for _, keep := range []int{0, len(best.Tape) / 4, len(best.Tape) / 2} {
		if keep >= len(best.Tape) {
			continue
		}
		c := best.Clone()
		c.Tape = append([]uint32(nil), c.Tape[:keep]...)
		if fails(c) {
			best = c
			break
		}
	}
	// 4. engine-specific argument shrinking
	if s, ok := info.Engine.(Simplifier); ok {
		for round := 0; round < 8; round++ {
			improved := false
			for _, c := range s.Simplify(best) {
				c.UseTape = true
				if fails(c) {
					best = c
					improved = true
					break
				}
			}
			if !improved {
				break
			}
		}
	}
	// 5. once more over ops (argument shrinking may have enabled removals)
	best = ddminOps(best, fails, func(s *Scenario) *[]Op { return &s.Ops })
	return best
}

func ddminOps(best *Scenario, fails func(*Scenario) bool, sel func(*Scenario) *[]Op) *Scenario {
	n := 2
	for {
		ops := *sel(best)
		if len(ops) < 2 {
			// try removing the single op
			if len(ops) == 1 {
				c := best.Clone()
				*sel(c) = nil
				if fails(c) {
					best = c
				}
			}
			return best
		}
		if n > len(ops) {
			n = len(ops)
		}
		chunk := (len(ops) + n - 1) / n
		reduced := false
		for start := 0; start < len(ops); start += chunk {
			end := start + chunk
			if end > len(ops) {
				end = len(ops)
			}
			c := best.Clone()
			cops := *sel(c)
			nops := append(append([]Op(nil), cops[:start]...), cops[end:]...)
			*sel(c) = nops
			if fails(c) {
				best = c
				if n > 2 {
					n--
				}
				reduced = true
				break
			}
		}
		if !reduced {
			if n >= len(ops) {
				return best
			}
			n *= 2
		}
	}
}
