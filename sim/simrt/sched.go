package simrt

import (
	"fmt"
	"sort"
	"sync"
	"testing/synctest"
	"time"
)

// Sched is the seeded scheduler for concurrent harness actors (and for any
// goroutine of the system under test that calls Park at a seam, e.g. the simdb
// yield hook). It must be used inside a synctest bubble.
//
// Exactly one parked task is released per decision. After a release the
// scheduler waits (synctest.Wait) until every goroutine of the bubble is durably
// blocked again — the released task parked at its next yield, finished, or is
// blocked inside the system under test — and then takes the next decision with
// ctx.Choice, so the whole interleaving is a function of the tape. When no task
// is ready but some are blocked inside the system, virtual time is advanced; if
// nothing becomes ready within the patience the run is reported as a deadlock
// (the blocked tasks are listed).
type Sched struct {
	ctx      *Ctx
	mu       sync.Mutex
	parked   []*parkedTask
	arrival  uint64
	live     int // actors started and not finished
	inflight map[string]string
	Steps    int
	// Patience is how much virtual time may pass with blocked tasks and nothing
	// ready before a deadlock is declared.
	Patience time.Duration
	// Quantum is the virtual-time step used while waiting for blocked tasks.
	Quantum time.Duration
	Log     bool
}

type parkedTask struct {
	name    string
	label   string
	arrival uint64
	grant   chan struct{}
}

// NewSched creates a scheduler bound to the run's choice tape.
func NewSched(ctx *Ctx) *Sched {
	return &Sched{ctx: ctx, inflight: map[string]string{}, Patience: 30 * time.Second, Quantum: 50 * time.Millisecond}
}

// Actor is a harness task.
type Actor struct {
	s    *Sched
	Name string
}

// Go starts an actor. Its body runs only when the scheduler grants it; it should
// call a.Yield between the operations whose interleaving matters.
func (s *Sched) Go(name string, body func(a *Actor)) {
	a := &Actor{s: s, Name: name}
	s.mu.Lock()
	s.live++
	s.mu.Unlock()
	go func() {
		a.Yield("start")
		defer func() {
			s.mu.Lock()
			s.live--
			delete(s.inflight, name)
			s.mu.Unlock()
		}()
		body(a)
	}()
}

// Yield parks the actor until the scheduler grants it again.
func (a *Actor) Yield(label string) { a.s.park(a.Name, label) }

// Park parks the calling goroutine (any goroutine, e.g. one of the system under
// test inside a seam) until granted. name should identify the logical task.
func (s *Sched) Park(name, label string) { s.park(name, label) }

func (s *Sched) park(name, label string) {
	t := &parkedTask{name: name, label: label, grant: make(chan struct{})}
	s.mu.Lock()
	s.arrival++
	t.arrival = s.arrival
	s.parked = append(s.parked, t)
	delete(s.inflight, name)
	s.mu.Unlock()
	<-t.grant
	s.mu.Lock()
	s.inflight[name] = label
	s.mu.Unlock()
}

// Run drives the tasks until all actors finished, maxSteps decisions were taken,
// or a deadlock is detected. It returns a description of the deadlock or "".
func (s *Sched) Run(maxSteps int) (deadlock string) {
	waited := time.Duration(0)
	for {
		synctest.Wait()
		s.mu.Lock()
		ready := s.parked
		live := s.live
		if len(ready) == 0 {
			s.mu.Unlock()
			if live == 0 {
				return ""
			}
			// actors are blocked inside the system under test: let timers fire
			if waited >= s.Patience {
				return s.describeBlocked()
			}
			time.Sleep(s.Quantum)
			waited += s.Quantum
			s.ctx.AddSimTime(s.Quantum)
			continue
		}
		waited = 0
		// deterministic order: by task name, then arrival
		sort.SliceStable(ready, func(i, j int) bool {
			if ready[i].name != ready[j].name {
				return ready[i].name < ready[j].name
			}
			return ready[i].arrival < ready[j].arrival
		})
		s.mu.Unlock()
		if s.Steps >= maxSteps {
			// release everything in order so the run can wind down
			s.mu.Lock()
			all := s.parked
			s.parked = nil
			s.mu.Unlock()
			for _, t := range all {
				close(t.grant)
				synctest.Wait()
			}
			continue
		}
		pick := s.ctx.Choice(len(ready))
		t := ready[pick]
		s.mu.Lock()
		for i, p := range s.parked {
			if p == t {
				s.parked = append(s.parked[:i:i], s.parked[i+1:]...)
				break
			}
		}
		s.mu.Unlock()
		s.Steps++
		s.ctx.Step()
		if s.Log || s.ctx.Verbose {
			s.ctx.Logf("sched #%d -> %s @%s (of %d ready)", s.Steps, t.name, t.label, len(ready))
		} else {
			s.ctx.log.add(fmt.Sprintf("s%d %s %s", s.Steps, t.name, t.label))
		}
		close(t.grant)
	}
}

func (s *Sched) describeBlocked() string {
	s.mu.Lock()
	defer s.mu.Unlock()
	var names []string
	for n, l := range s.inflight {
		names = append(names, n+"@"+l)
	}
	sort.Strings(names)
	return fmt.Sprintf("no task ready and nothing changed for %v of virtual time; blocked: %v", s.Patience, names)
}
