//go:build eng_all || eng_parsim

package verifsim

import (
	"os"
	"testing"

	"verifsim/engines/parsim"
)

// TestParsimChild is the body of the long-lived child processes the C18 engine
// starts under a CPU-affinity mask (the worker count of the parallel merkle root
// is runtime.NumCPU(), fixed at process start). It only runs when asked to.
func TestParsimChild(t *testing.T) {
	if os.Getenv("VERIF_PARSIM_CHILD") == "" {
		t.Skip("not a parsim child")
	}
	parsim.ChildServe(t, os.Stdin, os.NewFile(3, "results"))
}
