//go:build eng_all || eng_parsim

package verifsim

import _ "verifsim/engines/parsim"
