module verifsim

go 1.26

require (
	github.com/33cn/chain33 v0.0.0
	github.com/anishathalye/porcupine v1.3.0
	github.com/decred/base58 v1.0.3
	github.com/ethereum/go-ethereum v1.14.8
	github.com/golang/protobuf v1.5.4
	github.com/libp2p/go-libp2p v0.30.0
	github.com/libp2p/go-libp2p-kbucket v0.5.0
	github.com/multiformats/go-multiaddr v0.11.0
	golang.org/x/sys v0.20.0
	google.golang.org/grpc v1.56.3
)

require github.com/xrash/smetrics v0.0.0-20201216005158-039620a65673 // indirect

require (
	github.com/AndreasBriese/bbloom v0.0.0-20190825152654-46b345b51c96 // indirect
	github.com/BurntSushi/toml v1.3.2 // indirect
	github.com/DataDog/zstd v1.5.2 // indirect
	github.com/Microsoft/go-winio v0.6.2
	github.com/XiaoMi/pegasus-go-client v0.0.0-20210825081735-b8a75c1eac2b // indirect
	github.com/agl/ed25519 v0.0.0-20170116200512-5312a6153412 // indirect
	github.com/andreyvit/diff v0.0.0-20170406064948-c7f18ee00883
	github.com/apache/arrow/go/arrow v0.0.0-20200923215132-ac86123a3f01
	github.com/apache/arrow/go/v11 v11.0.0
	github.com/ava-labs/avalanchego v0.0.0-00010101000000-000000000000
	github.com/benbjohnson/clock v1.3.5 // indirect
	github.com/benbjohnson/immutable v0.2.1
	github.com/beorn7/perks v1.0.1 // indirect
	github.com/bits-and-blooms/bitset v1.10.0 // indirect
	github.com/btcsuite/btcd v0.24.2 // indirect
	github.com/btcsuite/btcd/btcec/v2 v2.3.4 // indirect
	github.com/btcsuite/btcd/btcutil v1.1.5 // indirect
	github.com/btcsuite/btcd/chaincfg/chainhash v1.1.0 // indirect
	github.com/btcsuite/btclog v0.0.0-20170628155309-84c8d2346e9f // indirect
	github.com/cenkalti/backoff/v4 v4.2.0 // indirect
	github.com/cespare/xxhash v1.1.0 // indirect
	github.com/cespare/xxhash/v2 v2.3.0 // indirect
	github.com/cockroachdb/errors v1.11.3 // indirect
	github.com/cockroachdb/fifo v0.0.0-20240606204812-0bbfbd93a7ce // indirect
	github.com/cockroachdb/logtags v0.0.0-20230118201751-21c54148d20b // indirect
	github.com/cockroachdb/pebble v1.1.1 // indirect
	github.com/cockroachdb/redact v1.1.5 // indirect
	github.com/cockroachdb/tokenbucket v0.0.0-20230807174530-cc333fc44b06 // indirect
	github.com/consensys/bavard v0.1.13 // indirect
	github.com/consensys/gnark-crypto v0.12.1 // indirect
	github.com/containerd/cgroups v1.1.0 // indirect
	github.com/coreos/go-systemd/v22 v22.5.0 // indirect
	github.com/cpuguy83/go-md2man/v2 v2.0.2
	github.com/crate-crypto/go-kzg-4844 v1.0.0 // indirect
	github.com/davecgh/go-spew v1.1.1
	github.com/davidlazar/go-crypto v0.0.0-20200604182044-b73af7476f6c // indirect
	github.com/deckarep/golang-set/v2 v2.6.0 // indirect
	github.com/decred/dcrd/crypto/blake256 v1.1.0 // indirect
	github.com/decred/dcrd/dcrec/edwards v1.0.0 // indirect
	github.com/decred/dcrd/dcrec/secp256k1/v4 v4.4.0 // indirect
	github.com/dgraph-io/badger v1.6.2 // indirect
	github.com/dgraph-io/ristretto v0.0.2 // indirect
	github.com/dgryski/go-farm v0.0.0-20190423205320-6a90982ecee2 // indirect
	github.com/docker/go-units v0.5.0 // indirect
	github.com/dustin/go-humanize v1.0.0 // indirect
	github.com/elastic/gosigar v0.14.2 // indirect
	github.com/ethereum/c-kzg-4844 v1.0.0
	github.com/flynn/noise v1.0.0 // indirect
	github.com/francoispqt/gojay v1.2.13 // indirect
	github.com/getamis/alice v1.0.3 // indirect
	github.com/getamis/sirius v1.1.7 // indirect
	github.com/getsentry/sentry-go v0.27.0 // indirect
	github.com/go-logr/logr v1.2.4 // indirect
	github.com/go-logr/stdr v1.2.2 // indirect
	github.com/go-ole/go-ole v1.3.0
	github.com/go-stack/stack v1.8.1 // indirect
	github.com/go-task/slim-sprig v0.0.0-20230315185526-52ccab3ef572
	github.com/godbus/dbus/v5 v5.1.0 // indirect
	github.com/gofrs/flock v0.8.1 // indirect
	github.com/gofrs/uuid v3.3.0+incompatible
	github.com/gogo/protobuf v1.3.2 // indirect
	github.com/golang-jwt/jwt/v4 v4.5.0 // indirect
	github.com/golang/mock v1.6.0
	github.com/golang/snappy v0.0.5-0.20220116011046-fa5810519dcb
	github.com/google/flatbuffers v2.0.8+incompatible
	github.com/google/go-cmp v0.5.9
	github.com/google/gopacket v1.1.19 // indirect
	github.com/google/pprof v0.0.0-20230817174616-7a8ec2ada47b
	github.com/google/uuid v1.3.0 // indirect
	github.com/googleapis/gax-go/v2 v2.12.0
	github.com/gorilla/rpc v1.2.0
	github.com/gorilla/websocket v1.5.0
	github.com/grpc-ecosystem/grpc-gateway/v2 v2.12.0
	github.com/hashicorp/errwrap v1.1.0 // indirect
	github.com/hashicorp/go-bexpr v0.1.10 // indirect
	github.com/hashicorp/go-multierror v1.1.1 // indirect
	github.com/hashicorp/golang-lru v0.5.5-0.20210104140557-80c98217689d // indirect
	github.com/hashicorp/golang-lru/v2 v2.0.5 // indirect
	github.com/holiman/uint256 v1.3.1 // indirect
	github.com/huin/goupnp v1.3.0 // indirect
	github.com/inconshreveable/mousetrap v1.0.0
	github.com/influxdata/flux v0.131.0
	github.com/influxdata/influxdb v1.9.5
	github.com/influxdata/influxql v1.1.1-0.20210223160523-b6ab99450c93
	github.com/ipfs/boxo v0.8.0 // indirect
	github.com/ipfs/go-cid v0.4.1 // indirect
	github.com/ipfs/go-datastore v0.6.0 // indirect
	github.com/ipfs/go-ipfs-util v0.0.2 // indirect
	github.com/ipfs/go-log v1.0.5 // indirect
	github.com/ipfs/go-log/v2 v2.5.1 // indirect
	github.com/ipld/go-ipld-prime v0.20.0 // indirect
	github.com/jackpal/go-nat-pmp v1.0.2 // indirect
	github.com/jbenet/go-temp-err-catcher v0.1.0 // indirect
	github.com/jbenet/goprocess v0.1.4 // indirect
	github.com/kevinms/leakybucket-go v0.0.0-20200115003610-082473db97ca // indirect
	github.com/klauspost/compress v1.16.7 // indirect
	github.com/klauspost/cpuid/v2 v2.2.5 // indirect
	github.com/koron/go-ssdp v0.0.4 // indirect
	github.com/kr/pretty v0.3.1 // indirect
	github.com/kr/text v0.2.0 // indirect
	github.com/libp2p/go-buffer-pool v0.1.0 // indirect
	github.com/libp2p/go-cidranger v1.1.0 // indirect
	github.com/libp2p/go-flow-metrics v0.1.0 // indirect
	github.com/libp2p/go-libp2p-asn-util v0.3.0 // indirect
	github.com/libp2p/go-libp2p-kad-dht v0.23.0 // indirect
	github.com/libp2p/go-libp2p-pubsub v0.9.3 // indirect
	github.com/libp2p/go-libp2p-record v0.2.0 // indirect
	github.com/libp2p/go-msgio v0.3.0 // indirect
	github.com/libp2p/go-nat v0.2.0 // indirect
	github.com/libp2p/go-netroute v0.2.1 // indirect
	github.com/libp2p/go-reuseport v0.4.0 // indirect
	github.com/libp2p/go-yamux/v4 v4.0.1 // indirect
	github.com/libp2p/zeroconf/v2 v2.2.0 // indirect
	github.com/marten-seemann/tcp v0.0.0-20210406111302-dfbc87cc63fd // indirect
	github.com/mattn/go-colorable v0.1.13 // indirect
	github.com/mattn/go-isatty v0.0.20 // indirect
	github.com/mattn/go-runewidth v0.0.13 // indirect
	github.com/matttproud/golang_protobuf_extensions v1.0.4 // indirect
	github.com/miekg/dns v1.1.55 // indirect
	github.com/mikioh/tcpinfo v0.0.0-20190314235526-30a79bb1804b // indirect
	github.com/mikioh/tcpopt v0.0.0-20190314235656-172688c1accc // indirect
	github.com/minio/blake2b-simd v0.0.0-20160723061019-3f5f724cb5b1 // indirect
	github.com/minio/sha256-simd v1.0.1 // indirect
	github.com/mitchellh/mapstructure v1.5.0 // indirect
	github.com/mitchellh/pointerstructure v1.2.0 // indirect
	github.com/mmcloughlin/addchain v0.4.0 // indirect
	github.com/mr-tron/base58 v1.2.0 // indirect
	github.com/multiformats/go-base32 v0.1.0 // indirect
	github.com/multiformats/go-base36 v0.2.0 // indirect
	github.com/multiformats/go-multiaddr-dns v0.3.1 // indirect
	github.com/multiformats/go-multiaddr-fmt v0.1.0 // indirect
	github.com/multiformats/go-multibase v0.2.0 // indirect
	github.com/multiformats/go-multicodec v0.9.0 // indirect
	github.com/multiformats/go-multihash v0.2.3 // indirect
	github.com/multiformats/go-multistream v0.4.1 // indirect
	github.com/multiformats/go-varint v0.0.7 // indirect
	github.com/nbutton23/zxcvbn-go v0.0.0-20180912185939-ae427f1e4c1d
	github.com/olekukonko/tablewriter v0.0.5 // indirect
	github.com/onsi/ginkgo/v2 v2.11.0
	github.com/opencontainers/runtime-spec v1.1.0 // indirect
	github.com/opentracing/opentracing-go v1.2.0 // indirect
	github.com/pbnjay/memory v0.0.0-20210728143218-7b4eea64cf58 // indirect
	github.com/pegasus-kv/thrift v0.13.0 // indirect
	github.com/pkg/errors v0.9.1 // indirect
	github.com/pmezard/go-difflib v1.0.0
	github.com/polydawn/refmt v0.89.0 // indirect
	github.com/prometheus/client_golang v1.14.0 // indirect
	github.com/prometheus/client_model v0.4.0 // indirect
	github.com/prometheus/common v0.42.0 // indirect
	github.com/prometheus/procfs v0.9.0 // indirect
	github.com/qianlnk/pgbar v0.0.0-20210208085217-8c19b9f2477e
	github.com/qianlnk/to v0.0.0-20191230085244-91e712717368
	github.com/quic-go/qpack v0.4.0 // indirect
	github.com/quic-go/qtls-go1-20 v0.3.2
	github.com/quic-go/quic-go v0.37.6 // indirect
	github.com/quic-go/webtransport-go v0.5.3 // indirect
	github.com/raulk/go-watchdog v1.3.0 // indirect
	github.com/rcrowley/go-metrics v0.0.0-20190826022208-cac0b30c2563 // indirect
	github.com/rivo/uniseg v0.2.0 // indirect
	github.com/rogpeppe/go-internal v1.9.0 // indirect
	github.com/rollbar/rollbar-go v1.2.0 // indirect
	github.com/rs/cors v1.7.0 // indirect
	github.com/russross/blackfriday/v2 v2.1.0
	github.com/sergi/go-diff v1.0.0
	github.com/shirou/gopsutil v3.21.11+incompatible // indirect
	github.com/shopspring/decimal v1.2.0 // indirect
	github.com/sirupsen/logrus v1.9.3 // indirect
	github.com/spaolacci/murmur3 v1.1.0 // indirect
	github.com/spf13/cobra v1.5.0 // indirect
	github.com/spf13/pflag v1.0.5 // indirect
	github.com/stretchr/objx v0.5.2
	github.com/stretchr/testify v1.9.0
	github.com/supranational/blst v0.3.11
	github.com/syndtr/goleveldb v1.0.1-0.20220614013038-64ee5596c38a // indirect
	github.com/tjfoc/gmsm v1.3.2 // indirect
	github.com/tklauser/go-sysconf v0.3.12 // indirect
	github.com/tklauser/numcpus v0.6.1 // indirect
	github.com/uber/jaeger-client-go v2.28.0+incompatible
	github.com/uber/jaeger-lib v2.4.1+incompatible
	github.com/urfave/cli/v2 v2.25.7
	github.com/whyrusleeping/go-keyspace v0.0.0-20160322163242-5b898ac5add1 // indirect
	github.com/xlab/treeprint v0.0.0-20180616005107-d6fb6747feb6
	github.com/yusufpapurcu/wmi v1.2.2
	go.opencensus.io v0.24.0 // indirect
	go.opentelemetry.io/otel v1.14.0 // indirect
	go.opentelemetry.io/otel/exporters/otlp/internal/retry v1.11.2
	go.opentelemetry.io/otel/exporters/otlp/otlptrace v1.11.2
	go.opentelemetry.io/otel/exporters/otlp/otlptrace/otlptracegrpc v1.11.2
	go.opentelemetry.io/otel/exporters/otlp/otlptrace/otlptracehttp v1.11.2
	go.opentelemetry.io/otel/sdk v1.11.2
	go.opentelemetry.io/otel/trace v1.14.0 // indirect
	go.opentelemetry.io/proto/otlp v0.19.0
	go.uber.org/atomic v1.11.0
	go.uber.org/dig v1.17.0 // indirect
	go.uber.org/fx v1.20.0 // indirect
	go.uber.org/mock v0.2.0
	go.uber.org/multierr v1.11.0 // indirect
	go.uber.org/zap v1.25.0 // indirect
	golang.org/x/crypto v0.22.0 // indirect
	golang.org/x/exp v0.0.0-20231110203233-9a3e6036ecaa // indirect
	golang.org/x/mod v0.17.0
	golang.org/x/net v0.24.0 // indirect
	golang.org/x/sync v0.7.0 // indirect
	golang.org/x/term v0.19.0
	golang.org/x/text v0.14.0 // indirect
	golang.org/x/tools v0.20.0
	golang.org/x/xerrors v0.0.0-20220907171357-04be3eba64a2
	gonum.org/v1/gonum v0.11.0 // indirect
	google.golang.org/api v0.128.0
	google.golang.org/genproto v0.0.0-20230530153820-e85fd2cbaebc
	google.golang.org/genproto/googleapis/api v0.0.0-20230530153820-e85fd2cbaebc
	google.golang.org/genproto/googleapis/rpc v0.0.0-20230530153820-e85fd2cbaebc // indirect
	google.golang.org/protobuf v1.34.2 // indirect
	gopkg.in/check.v1 v1.0.0-20201130134442-10cb98267c6c
	gopkg.in/go-playground/webhooks.v5 v5.2.0
	gopkg.in/natefinch/lumberjack.v2 v2.2.1 // indirect
	gopkg.in/tomb.v2 v2.0.0-20161208151619-d5d1b5820637 // indirect
	gopkg.in/yaml.v3 v3.0.1
	k8s.io/apimachinery v0.17.5 // indirect
	lukechampine.com/blake3 v1.2.1 // indirect
	rsc.io/tmplfunc v0.0.3 // indirect
)

replace github.com/33cn/chain33 => /repo

replace github.com/ava-labs/avalanchego => github.com/33cn/avalanchego v1.10.10-0.20240529041529-ada691598153
