module verifsim

go 1.26

require (
	github.com/33cn/chain33 v0.0.0
	github.com/anishathalye/porcupine v1.3.0
)

require (
	github.com/AndreasBriese/bbloom v0.0.0-20190825152654-46b345b51c96 // indirect
	github.com/BurntSushi/toml v1.3.2 // indirect
	github.com/XiaoMi/pegasus-go-client v0.0.0-20210825081735-b8a75c1eac2b // indirect
	github.com/bits-and-blooms/bitset v1.10.0 // indirect
	github.com/btcsuite/btcd v0.24.2 // indirect
	github.com/btcsuite/btcd/btcec/v2 v2.3.4 // indirect
	github.com/btcsuite/btcd/chaincfg/chainhash v1.1.0 // indirect
	github.com/cenkalti/backoff/v4 v4.2.0 // indirect
	github.com/cespare/xxhash v1.1.0 // indirect
	github.com/consensys/bavard v0.1.13 // indirect
	github.com/consensys/gnark-crypto v0.12.1 // indirect
	github.com/crate-crypto/go-kzg-4844 v1.0.0 // indirect
	github.com/decred/base58 v1.0.3 // indirect
	github.com/decred/dcrd/crypto/blake256 v1.1.0 // indirect
	github.com/decred/dcrd/dcrec/secp256k1/v4 v4.4.0 // indirect
	github.com/dgraph-io/badger v1.6.2 // indirect
	github.com/dgraph-io/ristretto v0.0.2 // indirect
	github.com/dustin/go-humanize v1.0.0 // indirect
	github.com/ethereum/go-ethereum v1.14.8 // indirect
	github.com/go-stack/stack v1.8.1 // indirect
	github.com/golang/protobuf v1.5.4 // indirect
	github.com/golang/snappy v0.0.5-0.20220116011046-fa5810519dcb // indirect
	github.com/hashicorp/golang-lru v0.5.5-0.20210104140557-80c98217689d // indirect
	github.com/holiman/uint256 v1.3.1 // indirect
	github.com/mattn/go-colorable v0.1.13 // indirect
	github.com/mattn/go-isatty v0.0.20 // indirect
	github.com/mmcloughlin/addchain v0.4.0 // indirect
	github.com/pegasus-kv/thrift v0.13.0 // indirect
	github.com/pkg/errors v0.9.1 // indirect
	github.com/rcrowley/go-metrics v0.0.0-20190826022208-cac0b30c2563 // indirect
	github.com/shopspring/decimal v1.2.0 // indirect
	github.com/sirupsen/logrus v1.9.3 // indirect
	github.com/syndtr/goleveldb v1.0.1-0.20220614013038-64ee5596c38a // indirect
	github.com/tjfoc/gmsm v1.3.2 // indirect
	golang.org/x/crypto v0.22.0 // indirect
	golang.org/x/net v0.24.0 // indirect
	golang.org/x/sync v0.7.0 // indirect
	golang.org/x/sys v0.20.0 // indirect
	golang.org/x/text v0.14.0 // indirect
	google.golang.org/genproto/googleapis/rpc v0.0.0-20230530153820-e85fd2cbaebc // indirect
	google.golang.org/grpc v1.56.3 // indirect
	google.golang.org/protobuf v1.34.2 // indirect
	gopkg.in/natefinch/lumberjack.v2 v2.2.1 // indirect
	gopkg.in/tomb.v2 v2.0.0-20161208151619-d5d1b5820637 // indirect
	k8s.io/apimachinery v0.17.5 // indirect
	rsc.io/tmplfunc v0.0.3 // indirect
)

replace github.com/33cn/chain33 => /repo

replace github.com/ava-labs/avalanchego => github.com/33cn/avalanchego v1.10.10-0.20240529041529-ada691598153
