//go:build eng_all || eng_execsim

package verifsim

import (
	"os"
	"testing"

	"verifsim/engines/execsim"
)

// TestExecsimChild is the body of the one-shot fresh processes the C13 engine
// starts to see a genesis block executed by a process with no history. It only
// runs when asked to.
func TestExecsimChild(t *testing.T) {
	if os.Getenv("VERIF_EXECSIM_CHILD") == "" {
		t.Skip("not an execsim child")
	}
	execsim.ChildMain(t, os.Stdin, os.NewFile(3, "answers"))
}
