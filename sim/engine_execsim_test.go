//go:build eng_all || eng_execsim

package verifsim

import _ "verifsim/engines/execsim"
