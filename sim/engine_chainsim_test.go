//go:build eng_all || eng_chainsim

package verifsim

import _ "verifsim/engines/chainsim"
