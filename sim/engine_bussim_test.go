//go:build eng_all || eng_bussim

package verifsim

import _ "verifsim/engines/bussim"
