// Package simnode builds a complete chain33 node (real queue, store/mavl,
// executor, blockchain, mempool, solo consensus; stub p2p/wallet/rpc sinks) on a
// simulated disk, meant to run inside a testing/synctest bubble so that every
// timer and ticker of the node reads the simulator's virtual clock.
package simnode

import (
	"fmt"
	"strings"
	"sync"
	"time"

	"github.com/33cn/chain33/blockchain"
	"github.com/33cn/chain33/client"
	"github.com/33cn/chain33/common/address"
	"github.com/33cn/chain33/common/crypto"
	cryptocli "github.com/33cn/chain33/common/crypto/client"
	"github.com/33cn/chain33/common/log"
	"github.com/33cn/chain33/consensus"
	"github.com/33cn/chain33/executor"
	"github.com/33cn/chain33/mempool"
	"github.com/33cn/chain33/queue"
	"github.com/33cn/chain33/store"
	_ "github.com/33cn/chain33/system" // register dapps, stores, consensus, mempool, crypto, address drivers
	"github.com/33cn/chain33/types"

	"verifsim/simdb"
	"verifsim/simrt"
)

// BubbleEpoch is the instant a synctest bubble's clock starts at.
var BubbleEpoch = time.Date(2000, 1, 1, 0, 0, 0, 0, time.UTC)

// GenesisTime is the configured genesis block time: shortly before the bubble
// epoch, so that block times taken from the virtual clock are never "before
// genesis" nor "in the future".
const GenesisTime = 946684800 - 3600

// GenesisKeyHex is the well-known test key of the default genesis address
// 14KEKbYtKKQm4wMthSK9J4La4nAiidGozt.
const GenesisKeyHex = "CC38546E9E659D15E6B4893F0AB32A06D103931A8230B0BDE71459D2B27D6944"

func init() { log.SetLogLevel("crit") }

// Opts configures a node.
type Opts struct {
	ID   string      // disk id (dbPath of every module)
	Disk *simdb.Disk // reuse an existing disk (restart); nil creates a fresh one
	// EditToml edits the configuration text before parsing.
	EditToml func(s string) string
	// MempoolTx makes the stub mempool answer EventCheckTxsExist and
	// EventTxListByHash like a pool that holds the transactions it returns
	// (nil function or nil result: not pooled).
	MempoolTx func(txHash []byte) *types.Transaction
	// EditCfg edits the parsed configuration.
	EditCfg func(cfg *types.Chain33Config)
	// StubMempool replaces the real mempool by a sink that returns no
	// transactions (the node then never produces blocks by itself).
	StubMempool bool
	// NoConsensus leaves the consensus topic to the caller.
	NoConsensus bool
	// NoMempool leaves the mempool topic to the caller.
	NoMempool bool
	// GenesisTime overrides the genesis block time (0: GenesisTime constant).
	GenesisTime int64
	// P2P handles messages sent to the p2p topic (nil: default sink).
	P2P func(msg *queue.Message)
}

// Node is a running node.
type Node struct {
	Opts   Opts
	Cfg    *types.Chain33Config
	Q      queue.Queue
	Client queue.Client
	API    client.QueueProtocolAPI
	Disk   *simdb.Disk
	Chain  *blockchain.BlockChain
	Exec   *executor.Executor
	Store  queue.Module
	Mem    queue.Module
	Cs     queue.Module
	crypto queue.Module
	stubs  []queue.Client
	closed bool
	mu     sync.Mutex
	// CloseHung is set when a shutdown had to be abandoned.
	CloseHung bool
	// P2PLog records what the node sent to its p2p module.
	P2PLog []P2PMsg
}

// P2PMsg is a message the node sent to p2p.
type P2PMsg struct {
	Ty   int64
	Data interface{}
}

var cfgMu sync.Mutex

// BaseToml returns the default configuration adapted to the simulator.
func BaseToml(id string) string {
	s := types.GetDefaultCfgstring()
	s = strings.ReplaceAll(s, `driver="leveldb"`, `driver="`+simdb.Backend+`"`)
	s = strings.ReplaceAll(s, `dbPath="datadir/addrbook"`, `dbPath="`+id+`"`)
	s = strings.ReplaceAll(s, `dbPath="datadir/mavltree"`, `dbPath="`+id+`"`)
	s = strings.ReplaceAll(s, `dbPath="datadir"`, `dbPath="`+id+`"`)
	s = strings.ReplaceAll(s, `dbPath="wallet"`, `dbPath="`+id+`"`)
	s = strings.ReplaceAll(s, `genesisBlockTime=1514533394`, fmt.Sprintf("genesisBlockTime=%d", GenesisTime))
	s = strings.ReplaceAll(s, `disableShard=false`, `disableShard=true`)
	s = strings.ReplaceAll(s, `waitTxMs=1`, `waitTxMs=1000`)
	s = strings.ReplaceAll(s, `singleMode=true`, "singleMode=true\ndisableClockDriftCheck=true")
	return s
}

// New starts a node. Must be called inside the bubble that will run it.
func New(o Opts) *Node {
	n := &Node{Opts: o}
	if o.Disk != nil {
		n.Disk = o.Disk
		o.ID = o.Disk.ID
	} else {
		n.Disk = simdb.NewDisk(o.ID)
	}
	toml := BaseToml(o.ID)
	if o.GenesisTime != 0 {
		toml = strings.ReplaceAll(toml, fmt.Sprintf("genesisBlockTime=%d", GenesisTime), fmt.Sprintf("genesisBlockTime=%d", o.GenesisTime))
	}
	if o.EditToml != nil {
		toml = o.EditToml(toml)
	}
	cfgMu.Lock()
	cfg := types.NewChain33Config(toml)
	cfgMu.Unlock()
	if o.EditCfg != nil {
		o.EditCfg(cfg)
	}
	n.Cfg = cfg
	mcfg := cfg.GetModuleConfig()
	q := queue.New("channel")
	q.SetConfig(cfg)
	n.Q = q
	address.Init(mcfg.Address)
	n.crypto = cryptocli.New()
	n.crypto.SetQueueClient(q.Client())

	// sinks for modules that are not part of the simulation
	n.stub("wallet", func(msg *queue.Message) {})
	n.stub("rpc", func(msg *queue.Message) {})
	p2p := o.P2P
	n.stub("p2p", func(msg *queue.Message) {
		n.mu.Lock()
		n.P2PLog = append(n.P2PLog, P2PMsg{Ty: msg.Ty, Data: msg.Data})
		n.mu.Unlock()
		if p2p != nil {
			p2p(msg)
			return
		}
		switch msg.Ty {
		case types.EventPeerInfo:
			msg.Reply(n.Client.NewMessage("p2p", types.EventPeerList, &types.PeerList{}))
		case types.EventGetNetInfo:
			msg.Reply(n.Client.NewMessage("p2p", types.EventPeerList, &types.NodeNetInfo{}))
		case types.EventTxBroadcast, types.EventBlockBroadcast, types.EventAddBlock:
		default:
			msg.ReplyErr("p2p stub", types.ErrNotSupport)
		}
	})
	n.Client = q.Client()

	n.Exec = executor.New(cfg)
	n.Exec.SetQueueClient(q.Client())
	n.Store = store.New(cfg)
	n.Store.SetQueueClient(q.Client())
	n.Chain = blockchain.New(cfg)
	n.Chain.SetQueueClient(q.Client())
	if !o.NoConsensus {
		n.Cs = consensus.New(cfg)
		n.Cs.SetQueueClient(q.Client())
	}
	switch {
	case o.NoMempool:
	case o.StubMempool:
		n.stub("mempool", func(msg *queue.Message) {
			switch msg.Ty {
			case types.EventTxList:
				msg.Reply(n.Client.NewMessage("consensus", types.EventReplyTxList, &types.ReplyTxList{}))
			case types.EventCheckTxsExist:
				req := msg.GetData().(*types.ReqCheckTxsExist)
				rep := &types.ReplyCheckTxsExist{ExistFlags: make([]bool, len(req.TxHashes))}
				if o.MempoolTx != nil {
					for i, h := range req.TxHashes {
						if o.MempoolTx(h) != nil {
							rep.ExistFlags[i] = true
							rep.ExistCount++
						}
					}
				}
				msg.Reply(n.Client.NewMessage("", 0, rep))
			case types.EventTxListByHash:
				req := msg.GetData().(*types.ReqTxHashList)
				rep := &types.ReplyTxList{}
				for _, h := range req.Hashes {
					var tx *types.Transaction
					if o.MempoolTx != nil && !req.IsShortHash {
						tx = o.MempoolTx([]byte(h))
					}
					rep.Txs = append(rep.Txs, tx)
				}
				msg.Reply(n.Client.NewMessage("", types.EventReplyTxList, rep))
			case types.EventGetMempoolSize:
				msg.Reply(n.Client.NewMessage("", 0, &types.MempoolSize{}))
			case types.EventAddBlock, types.EventDelBlock:
			default:
				msg.ReplyErr("mempool stub", types.ErrNotSupport)
			}
		})
	default:
		n.Mem = mempool.New(cfg)
		n.Mem.SetQueueClient(q.Client())
		n.Mem.Wait()
	}
	api, err := client.New(q.Client(), nil)
	simrt.Must(err, "client.New")
	n.API = api
	return n
}

func (n *Node) stub(topic string, h func(msg *queue.Message)) {
	c := n.Q.Client()
	c.Sub(topic)
	n.stubs = append(n.stubs, c)
	go func() {
		for msg := range c.Recv() {
			h(msg)
		}
	}()
}

// Close stops all modules (a clean shutdown). A shutdown that does not finish
// within two virtual minutes (a module waiting for a goroutine that will never
// exit) is abandoned, so that the run's verdict is not lost in the clean-up; the
// goroutines left behind stay durably blocked and end with the bubble.
func (n *Node) Close() {
	if n.closed {
		return
	}
	n.closed = true
	done := make(chan struct{})
	go func() {
		n.closeNow()
		close(done)
	}()
	select {
	case <-done:
	case <-time.After(2 * time.Minute):
		n.CloseHung = true
	}
}

func (n *Node) closeNow() {
	if n.Mem != nil {
		n.Mem.Close()
	}
	n.Exec.Close()
	if n.Cs != nil {
		n.Cs.Close()
	}
	n.Chain.Close()
	n.Store.Close()
	n.crypto.Close()
	for _, c := range n.stubs {
		c.Close()
	}
	n.Client.Close()
	n.Q.Close()
}

// Key derives a deterministic secp256k1 key and its address.
type Key struct {
	Priv crypto.PrivKey
	Addr string
}

// GenesisKey returns the key that owns the genesis coins.
func GenesisKey() *Key { return keyFromHex(GenesisKeyHex) }

// AccountKey returns the i-th deterministic account.
func AccountKey(i int) *Key {
	return keyFromHex(fmt.Sprintf("%064x", 0x1000+i))
}

func keyFromHex(h string) *Key {
	c, err := crypto.Load(types.GetSignName("", types.SECP256K1), -1)
	simrt.Must(err, "crypto.Load")
	b := make([]byte, 32)
	_, err = fmt.Sscanf(h, "%x", &b)
	simrt.Must(err, "hex key")
	priv, err := c.PrivKeyFromBytes(b)
	simrt.Must(err, "PrivKeyFromBytes")
	return &Key{Priv: priv, Addr: address.PubKeyToAddr(address.DefaultID, priv.PubKey().Bytes())}
}
