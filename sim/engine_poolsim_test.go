//go:build eng_all || eng_poolsim

package verifsim

import _ "verifsim/engines/poolsim"
