//go:build eng_all || eng_acctsim

package verifsim

import _ "verifsim/engines/acctsim"
