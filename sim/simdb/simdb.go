// Package simdb is the simulated disk: a dbm.DB implementation over chain33's own
// GoMemDB (goleveldb memdb + the iterator wrapper the LevelDB backend uses) with
// a global write sequence, a write journal (for crash points), injected write
// errors and yield points.
package simdb

import (
	"bytes"
	"errors"
	"fmt"
	"sort"
	"sync"

	dbm "github.com/33cn/chain33/common/db"
)

// Backend is the driver name modules are configured with.
const Backend = "verifsim"

// ErrInjected is returned by writes the simulator decided to fail.
var ErrInjected = errors.New("simdb: injected write error (disk full)")

// KV is one journaled write; V == nil is a delete.
type KV struct{ K, V []byte }

// WriteRec is one durable write (a point write or an atomic batch).
type WriteRec struct {
	Seq   int
	DB    string
	Batch bool
	KVs   []KV
}

// Hooks let an engine observe and perturb disk operations.
type Hooks struct {
	// Yield is called before every operation (a scheduling point).
	Yield func(site string)
	// WriteFault may return an error to inject for the write about to happen.
	WriteFault func(db string, seq int, batch bool, n int) error
	// AfterWrite is called after a write became durable.
	AfterWrite func(rec *WriteRec)
}

// Disk is the durable state of one simulated node: a set of named databases.
type Disk struct {
	ID string
	mu sync.Mutex
	// data holds the durable content per database name.
	data    map[string]*dbm.GoMemDB
	base    map[string][]KV // content when journaling started
	Journal []WriteRec
	journal bool
	seq     int
	Hooks   Hooks
	// SnapshotIters makes iterators operate on a point-in-time copy, as LevelDB
	// iterators do. (GoMemDB iterators are live views.)
	SnapshotIters bool
	// StableIterSlices turns off the emulation of LevelDB's "valid until the
	// iterator moves" rule for Key()/Value() slices.
	StableIterSlices bool
	Reads, Writes, Iters int
}

var (
	regMu sync.Mutex
	disks = map[string]*Disk{}
	once  sync.Once
)

func register() {
	once.Do(func() {
		dbm.VerifRegister(Backend, func(name, dir string, cache int) (dbm.DB, error) {
			regMu.Lock()
			d := disks[dir]
			regMu.Unlock()
			if d == nil {
				return nil, fmt.Errorf("simdb: no disk %q", dir)
			}
			return d.Open(name), nil
		})
	})
}

// NewDisk creates and registers an empty disk; modules reach it with
// driver=Backend, dbPath=id.
func NewDisk(id string) *Disk {
	register()
	d := &Disk{ID: id, data: map[string]*dbm.GoMemDB{}}
	regMu.Lock()
	disks[id] = d
	regMu.Unlock()
	return d
}

// Remove unregisters the disk.
func (d *Disk) Remove() {
	regMu.Lock()
	delete(disks, d.ID)
	regMu.Unlock()
}

func (d *Disk) store(name string) *dbm.GoMemDB {
	s := d.data[name]
	if s == nil {
		s, _ = dbm.NewGoMemDB(name, "", 0)
		d.data[name] = s
	}
	return s
}

// Open returns a handle on the named database (created when absent).
func (d *Disk) Open(name string) *DB {
	d.mu.Lock()
	defer d.mu.Unlock()
	d.store(name)
	return &DB{disk: d, name: name}
}

// StartJournal begins recording writes; the current content becomes the base.
func (d *Disk) StartJournal() {
	d.mu.Lock()
	defer d.mu.Unlock()
	d.base = map[string][]KV{}
	for name, s := range d.data {
		d.base[name] = dumpMem(s)
	}
	d.Journal = nil
	d.journal = true
}

// Seq is the number of durable writes so far.
func (d *Disk) Seq() int { d.mu.Lock(); defer d.mu.Unlock(); return d.seq }

func dumpMem(s *dbm.GoMemDB) []KV {
	var out []KV
	it := s.DB().NewIterator(nil)
	for it.Next() {
		out = append(out, KV{append([]byte(nil), it.Key()...), append([]byte(nil), it.Value()...)})
	}
	it.Release()
	return out
}

// Dump returns the sorted content of one database.
func (d *Disk) Dump(name string) []KV {
	d.mu.Lock()
	defer d.mu.Unlock()
	return dumpMem(d.store(name))
}

// Names lists the databases on the disk.
func (d *Disk) Names() []string {
	d.mu.Lock()
	defer d.mu.Unlock()
	var n []string
	for k := range d.data {
		n = append(n, k)
	}
	sort.Strings(n)
	return n
}

// Clone copies the current durable content into a new registered disk.
func (d *Disk) Clone(id string) *Disk {
	n := NewDisk(id)
	d.mu.Lock()
	defer d.mu.Unlock()
	for name, s := range d.data {
		t := n.store(name)
		for _, kv := range dumpMem(s) {
			_ = t.Set(kv.K, kv.V)
		}
	}
	return n
}

// CloneAt builds the durable content as of just after the first k journaled
// writes (k=0: the base) as a new registered disk: "the process stopped there".
func (d *Disk) CloneAt(k int, id string) *Disk {
	n := NewDisk(id)
	d.mu.Lock()
	defer d.mu.Unlock()
	if !d.journal {
		panic("simdb: CloneAt without journal")
	}
	for name, kvs := range d.base {
		t := n.store(name)
		for _, kv := range kvs {
			_ = t.Set(kv.K, kv.V)
		}
	}
	for i := 0; i < k && i < len(d.Journal); i++ {
		rec := &d.Journal[i]
		t := n.store(rec.DB)
		for _, kv := range rec.KVs {
			if kv.V == nil {
				_ = t.Delete(kv.K)
			} else {
				_ = t.Set(kv.K, kv.V)
			}
		}
	}
	return n
}

func (d *Disk) yield(site string) {
	if y := d.Hooks.Yield; y != nil {
		y(site)
	}
}

// apply performs one durable write.
func (d *Disk) apply(name string, batch bool, kvs []KV) error {
	d.yield("db.write:" + name)
	d.mu.Lock()
	seq := d.seq
	if f := d.Hooks.WriteFault; f != nil {
		if err := f(name, seq, batch, len(kvs)); err != nil {
			d.mu.Unlock()
			return err
		}
	}
	s := d.store(name)
	for _, kv := range kvs {
		if kv.V == nil {
			_ = s.Delete(kv.K)
		} else {
			_ = s.Set(kv.K, kv.V)
		}
	}
	d.seq++
	d.Writes++
	var rec *WriteRec
	if d.journal {
		d.Journal = append(d.Journal, WriteRec{Seq: seq, DB: name, Batch: batch, KVs: kvs})
		rec = &d.Journal[len(d.Journal)-1]
	} else if d.Hooks.AfterWrite != nil {
		rec = &WriteRec{Seq: seq, DB: name, Batch: batch, KVs: kvs}
	}
	d.mu.Unlock()
	if rec != nil && d.Hooks.AfterWrite != nil {
		d.Hooks.AfterWrite(rec)
	}
	return nil
}

// DB is a handle on one database of a Disk. It implements dbm.DB.
type DB struct {
	dbm.BaseDB
	disk   *Disk
	name   string
	closed bool
}

var _ dbm.DB = (*DB)(nil)

func clone(b []byte) []byte {
	c := make([]byte, len(b))
	copy(c, b)
	return c
}

// Get implements dbm.DB.
func (db *DB) Get(key []byte) ([]byte, error) {
	db.disk.yield("db.get:" + db.name)
	db.disk.mu.Lock()
	db.disk.Reads++
	s := db.disk.store(db.name)
	db.disk.mu.Unlock()
	return s.Get(key)
}

// Set implements dbm.DB.
func (db *DB) Set(key, value []byte) error {
	return db.disk.apply(db.name, false, []KV{{clone(key), clone(value)}})
}

// SetSync implements dbm.DB.
func (db *DB) SetSync(key, value []byte) error { return db.Set(key, value) }

// Delete implements dbm.DB.
func (db *DB) Delete(key []byte) error {
	return db.disk.apply(db.name, false, []KV{{clone(key), nil}})
}

// DeleteSync implements dbm.DB.
func (db *DB) DeleteSync(key []byte) error { return db.Delete(key) }

// Begin implements dbm.KV (no-op like the LevelDB backend).
func (db *DB) Begin() {}

// Commit implements dbm.KV.
func (db *DB) Commit() error { return nil }

// Rollback implements dbm.KV.
func (db *DB) Rollback() {}

// Close implements dbm.DB.
func (db *DB) Close() { db.closed = true }

// Print implements dbm.DB.
func (db *DB) Print() {}

// Stats implements dbm.DB.
func (db *DB) Stats() map[string]string { return nil }

// CompactRange implements dbm.DB.
func (db *DB) CompactRange(start, limit []byte) error { return nil }

// BeginTx is not provided by the production LevelDB default path used here.
func (db *DB) BeginTx() (dbm.TxKV, error) { return nil, errors.New("simdb: BeginTx not supported") }

// Iterator implements dbm.DB with the semantics of the LevelDB wrapper.
func (db *DB) Iterator(start, end []byte, reverse bool) dbm.Iterator {
	db.disk.yield("db.iter:" + db.name)
	db.disk.mu.Lock()
	db.disk.Iters++
	s := db.disk.store(db.name)
	snap := db.disk.SnapshotIters
	db.disk.mu.Unlock()
	if snap {
		c, _ := dbm.NewGoMemDB(db.name, "", 0)
		for _, kv := range dumpMem(s) {
			_ = c.Set(kv.K, kv.V)
		}
		s = c
	}
	var it dbm.Iterator = s.Iterator(start, end, reverse)
	if !db.disk.StableIterSlices {
		it = &aliasIt{Iterator: it}
	}
	if db.disk.Hooks.Yield != nil {
		return &yieldIt{Iterator: it, d: db.disk, site: "db.next:" + db.name}
	}
	return it
}

// aliasIt gives Key() and Value() the validity goleveldb's iterator gives them:
// the iterator owns one key and one value buffer which it refills in place each
// time it lands on an entry, so a slice kept from before the move now shows the
// new entry (goleveldb: "contents may change on the next call to any seek
// method"). The memdb iterator underneath returns stable slices, which would
// hide code that keeps Key()/Value() without copying. Nothing is overwritten
// when the iterator is exhausted or closed, exactly as with goleveldb.
type aliasIt struct {
	dbm.Iterator
	kbuf, vbuf []byte
}

func (a *aliasIt) land(ok bool) bool {
	if ok && a.Iterator.Valid() {
		a.kbuf = append(a.kbuf[:0], a.Iterator.Key()...)
		a.vbuf = append(a.vbuf[:0], a.Iterator.Value()...)
	}
	return ok
}
func (a *aliasIt) Next() bool         { return a.land(a.Iterator.Next()) }
func (a *aliasIt) Rewind() bool       { return a.land(a.Iterator.Rewind()) }
func (a *aliasIt) Seek(k []byte) bool { return a.land(a.Iterator.Seek(k)) }
func (a *aliasIt) Key() []byte {
	if !a.Iterator.Valid() {
		return a.Iterator.Key()
	}
	if a.kbuf == nil || !bytes.Equal(a.kbuf, a.Iterator.Key()) { // positioned without a move call
		a.kbuf = append(a.kbuf[:0], a.Iterator.Key()...)
		a.vbuf = append(a.vbuf[:0], a.Iterator.Value()...)
	}
	return a.kbuf
}
func (a *aliasIt) Value() []byte {
	if !a.Iterator.Valid() {
		return a.Iterator.Value()
	}
	a.Key()
	return a.vbuf
}

type yieldIt struct {
	dbm.Iterator
	d    *Disk
	site string
}

func (y *yieldIt) Next() bool { y.d.yield(y.site); return y.Iterator.Next() }

// NewBatch implements dbm.DB. A batch is atomic, as in LevelDB.
func (db *DB) NewBatch(sync bool) dbm.Batch { return &batch{db: db} }

type batch struct {
	db   *DB
	kvs  []KV
	size int
	n    int
}

func (b *batch) Set(key, value []byte) {
	b.kvs = append(b.kvs, KV{clone(key), clone(value)})
	b.size += len(key) + len(value)
	b.n += len(value)
}
func (b *batch) Delete(key []byte) {
	b.kvs = append(b.kvs, KV{clone(key), nil})
	b.size += len(key)
	b.n++
}
func (b *batch) Write() error {
	kvs := make([]KV, len(b.kvs))
	copy(kvs, b.kvs)
	return b.db.disk.apply(b.db.name, true, kvs)
}
func (b *batch) ValueSize() int          { return b.size }
func (b *batch) ValueLen() int           { return b.n }
func (b *batch) Reset()                  { b.kvs = b.kvs[:0]; b.size = 0; b.n = 0 }
func (b *batch) UpdateWriteSync(bool)    {}

// EqualDumps compares two sorted dumps.
func EqualDumps(a, b []KV) bool {
	if len(a) != len(b) {
		return false
	}
	for i := range a {
		if !bytes.Equal(a[i].K, b[i].K) || !bytes.Equal(a[i].V, b[i].V) {
			return false
		}
	}
	return true
}

// Seq0 is the number of journaled writes since StartJournal.
func (d *Disk) Seq0() int { d.mu.Lock(); defer d.mu.Unlock(); return len(d.Journal) }
