//go:build eng_all || eng_rpcsim

package verifsim

import _ "verifsim/engines/rpcsim"
