//go:debug randseednop=0
package verifsim

import (
	"encoding/json"
	"fmt"
	"os"
	"path/filepath"
	"strconv"
	"strings"
	"testing"
	"time"

	"verifsim/simrt"
)

type outLine struct {
	Type     string          `json:"type"`
	Run      int             `json:"run"`
	Result   *simrt.Result   `json:"result,omitempty"`
	Scenario *simrt.Scenario `json:"scenario,omitempty"`
	Msg      string          `json:"msg,omitempty"`
}

func envInt(name string, def int64) int64 {
	if s := os.Getenv(name); s != "" {
		v, err := strconv.ParseInt(s, 10, 64)
		if err == nil {
			return v
		}
	}
	return def
}

// TestWorker is the simulation worker. It is driven entirely by environment
// variables set by bin/check; run without them it does nothing.
func TestWorker(t *testing.T) {
	prop := os.Getenv("VERIF_PROP")
	if prop == "" {
		t.Skip("VERIF_PROP not set")
	}
	info := simrt.Lookup(prop)
	if info == nil {
		fmt.Fprintf(os.Stderr, "unknown property %s (have %v)\n", prop, simrt.Properties())
		os.Exit(2)
	}
	out := os.Stdout
	if p := os.Getenv("VERIF_OUT"); p != "" {
		f, err := os.OpenFile(p, os.O_CREATE|os.O_WRONLY|os.O_APPEND, 0o644)
		if err != nil {
			fmt.Fprintln(os.Stderr, err)
			os.Exit(2)
		}
		defer f.Close()
		out = f
	}
	emit := func(l outLine) {
		b, _ := json.Marshal(l)
		out.Write(append(b, '\n'))
	}
	defer func() {
		if r := recover(); r != nil {
			if he, ok := r.(simrt.HarnessError); ok {
				emit(outLine{Type: "harness_error", Msg: he.Msg})
				fmt.Fprintln(os.Stderr, he.Error())
				out.Sync()
				os.Exit(2)
			}
			panic(r)
		}
	}()
	verbose := os.Getenv("VERIF_VERBOSE") != ""

	if rp := os.Getenv("VERIF_REPLAY"); rp != "" {
		sc, err := simrt.ReadReplay(rp)
		simrt.Must(err, "read replay")
		if sc.Property != prop {
			simrt.Failf("replay file is for %s, not %s", sc.Property, prop)
		}
		res, _ := simrt.RunOnce(t, info, sc, verbose)
		emit(outLine{Type: "result", Run: sc.Run, Result: res})
		emit(outLine{Type: "done"})
		return
	}

	seed := uint64(envInt("VERIF_SEED", 1))
	tier := os.Getenv("VERIF_TIER")
	if tier == "" {
		tier = "quick"
	}
	lo, hi := 0, 1
	if r := os.Getenv("VERIF_RUNS"); r != "" {
		parts := strings.SplitN(r, ":", 2)
		a, _ := strconv.Atoi(parts[0])
		b, _ := strconv.Atoi(parts[1])
		lo, hi = a, b
	}
	stride := int(envInt("VERIF_STRIDE", 1))
	deadline := time.Unix(envInt("VERIF_DEADLINE", time.Now().Add(24*time.Hour).Unix()), 0)
	samples := int(envInt("VERIF_SAMPLES", 0))
	minBudget := time.Duration(envInt("VERIF_MIN_BUDGET_S", 60)) * time.Second
	replayDir := os.Getenv("VERIF_REPLAY_DIR")
	if replayDir == "" {
		replayDir = os.TempDir()
	}
	dumpOnly := os.Getenv("VERIF_DUMP") != ""
	violations := 0
	known := loadKnown(os.Getenv("VERIF_KNOWN_FILE"))
	base := simrt.NewRNG(seed).Sub(prop)
	for run := lo; run < hi; run += stride {
		if time.Now().After(deadline) {
			emit(outLine{Type: "deadline", Run: run})
			break
		}
		rng := base.SubN(uint64(run))
		sc := info.Engine.Generate(prop, rng, tier, run)
		sc.Property, sc.Engine, sc.Seed, sc.Run, sc.Tier = prop, info.Engine.Name(), seed, run, tier
		if dumpOnly {
			p := filepath.Join(replayDir, fmt.Sprintf("%s-seed%d-run%d.scenario.json", prop, seed, run))
			simrt.Must(simrt.WriteReplay(p, sc), "dump")
			emit(outLine{Type: "dump", Run: run, Msg: p})
			continue
		}
		emit(outLine{Type: "begin", Run: run})
		out.Sync()
		res, tape := simrt.RunOnce(t, info, sc, verbose)
		if samples > 0 {
			samples--
			emit(outLine{Type: "sample", Run: run, Scenario: truncated(sc)})
		}
		if res.Violation != nil && known.match(prop, res.Violation) {
			// a recorded known finding: reported by the supervisor as KNOWN-FINDING;
			// no minimisation, and the worker keeps going
			emit(outLine{Type: "result", Run: run, Result: res})
			continue
		}
		if res.Violation != nil {
			violations++
			// must reproduce twice from its tape
			fc := sc.Clone()
			fc.Tape, fc.UseTape = tape, true
			ok := true
			for i := 0; i < 2; i++ {
				r2, _ := simrt.RunOnce(t, info, fc, false)
				if r2.Violation == nil || r2.Violation.Class != res.Violation.Class {
					ok = false
				}
			}
			if !ok && os.Getenv("VERIF_NONREPRO_STRICT") == "" {
				// The oracle saw a violation in a real execution, but re-executing the
				// scenario from its tape did not show it again: the run contains
				// choices the simulator cannot pin (the Go runtime's pick among
				// several ready select cases, wake-up order of racing goroutines).
				// It is reported with the unminimised scenario and says so; it is
				// not turned into a harness error, which would hide a real defect.
				p := filepath.Join(replayDir, fmt.Sprintf("%s-seed%d-run%d.replay.json", prop, seed, run))
				res.Violation.Detail += "\n(did not reproduce on an immediate in-process replay of its tape: the run contains runtime select choices outside the simulator's control; the replay file is the unminimised scenario)"
				fc.Violation = res.Violation
				simrt.Must(simrt.WriteReplay(p, fc), "write replay")
				res.Replay = p
				emit(outLine{Type: "result", Run: run, Result: res})
				continue
			}
			if !ok {
				p := filepath.Join(replayDir, fmt.Sprintf("%s-seed%d-run%d.nonrepro.json", prop, seed, run))
				fc.Violation = res.Violation
				_ = simrt.WriteReplay(p, fc)
				simrt.Failf("violation %s in run %d did not reproduce from its tape (file %s): %s", res.Violation.Class, run, p, res.Violation.Detail)
			}
			min := simrt.Minimise(t, info, fc, res.Violation.Class, minBudget)
			if min.Violation == nil {
				min.Violation = res.Violation
			}
			p := filepath.Join(replayDir, fmt.Sprintf("%s-seed%d-run%d.replay.json", prop, seed, run))
			simrt.Must(simrt.WriteReplay(p, min), "write replay")
			res.Replay = p
			res.Violation = min.Violation
		}
		emit(outLine{Type: "result", Run: run, Result: res})
		if violations >= 2 {
			break
		}
	}
	emit(outLine{Type: "done"})
}

// truncated limits the size of a scenario written as an evidence sample.
func truncated(sc *simrt.Scenario) *simrt.Scenario {
	c := sc.Clone()
	if len(c.Ops) > 12 {
		n := len(c.Ops)
		c.Ops = append(c.Ops[:12:12], simrt.Op{K: fmt.Sprintf("... %d more ops", n-12)})
	}
	for i := range c.Ops {
		if len(c.Ops[i].Sub) > 6 {
			n := len(c.Ops[i].Sub)
			c.Ops[i].Sub = append(c.Ops[i].Sub[:6:6], simrt.Op{K: fmt.Sprintf("... %d more", n-6)})
		}
		for j := range c.Ops[i].S {
			if len(c.Ops[i].S[j]) > 200 {
				c.Ops[i].S[j] = c.Ops[i].S[j][:200] + "..."
			}
		}
	}
	c.Tape = nil
	return c
}

type knownFinding struct {
	Property string `json:"property"`
	Class    string `json:"class"`
	Sig      string `json:"sig"`
	Status   string `json:"status"`
}
type knownList []knownFinding

func loadKnown(path string) knownList {
	if path == "" {
		return nil
	}
	b, err := os.ReadFile(path)
	if err != nil {
		return nil
	}
	var f struct {
		Findings []knownFinding `json:"findings"`
	}
	if json.Unmarshal(b, &f) != nil {
		return nil
	}
	return f.Findings
}

func (k knownList) match(prop string, v *simrt.Violation) bool {
	for _, f := range k {
		if f.Status == "known" && f.Property == prop && f.Class == v.Class && glob(f.Sig, v.Sig) {
			return true
		}
	}
	return false
}

// glob matches pattern p against s where '*' matches any run of characters.
func glob(p, s string) bool {
	if p == "" {
		return s == ""
	}
	if p[0] == '*' {
		for i := 0; i <= len(s); i++ {
			if glob(p[1:], s[i:]) {
				return true
			}
		}
		return false
	}
	return s != "" && p[0] == s[0] && glob(p[1:], s[1:])
}
