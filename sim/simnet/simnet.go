// Package simnet provides in-memory stand-ins for the libp2p interfaces the
// chain33 DHT p2p protocols program against (host.Host, network.Network,
// network.Stream, network.Conn) and for chain33's own IPeerInfoManager /
// IConnManager / blacklist, for use inside a testing/synctest bubble. Streams are
// net.Pipe pairs (blocking on them is durable, deadlines use the virtual clock);
// remote peers are behaviour scripts supplied by the engine. Real
// libp2p/gossipsub transport is NOT simulated.
//
// Every method chain33 does not use raises a harness error (never a nil
// dereference), so that crash-freedom properties cannot mistake a hole in the
// fake for a panic of the system under test.
package simnet

import (
	"context"
	"crypto/ed25519"
	"crypto/sha256"
	"encoding/binary"
	"fmt"
	"net"
	"sort"
	"sync"
	"time"

	"github.com/33cn/chain33/types"
	"github.com/libp2p/go-libp2p/core/connmgr"
	ic "github.com/libp2p/go-libp2p/core/crypto"
	"github.com/libp2p/go-libp2p/core/event"
	"github.com/libp2p/go-libp2p/core/metrics"
	"github.com/libp2p/go-libp2p/core/network"
	"github.com/libp2p/go-libp2p/core/peer"
	"github.com/libp2p/go-libp2p/core/peerstore"
	"github.com/libp2p/go-libp2p/core/protocol"
	"github.com/libp2p/go-libp2p/p2p/host/peerstore/pstoremem"
	ma "github.com/multiformats/go-multiaddr"

	"verifsim/simrt"
)

// ---------------------------------------------------------------------------
// deterministic identities

type ident struct {
	id   peer.ID
	priv ic.PrivKey
	pub  ic.PubKey
}

var (
	identMu sync.Mutex
	idents  = map[int]*ident{}
)

func identOf(i int) *ident {
	identMu.Lock()
	defer identMu.Unlock()
	if x, ok := idents[i]; ok {
		return x
	}
	var seed [8]byte
	binary.BigEndian.PutUint64(seed[:], uint64(i)+0x6e657473696d)
	h := sha256.Sum256(seed[:])
	sk := ed25519.NewKeyFromSeed(h[:])
	priv, err := ic.UnmarshalEd25519PrivateKey(sk)
	simrt.Must(err, "ed25519 key")
	id, err := peer.IDFromPublicKey(priv.GetPublic())
	simrt.Must(err, "peer id")
	x := &ident{id: id, priv: priv, pub: priv.GetPublic()}
	idents[i] = x
	return x
}

// PeerID returns the i-th deterministic peer identity (a pure function of i).
func PeerID(i int) peer.ID { return identOf(i).id }

// PeerKey returns the private key of PeerID(i).
func PeerKey(i int) ic.PrivKey { return identOf(i).priv }

// Addr returns a deterministic public-looking multiaddr for peer i.
func Addr(i int) ma.Multiaddr {
	a, err := ma.NewMultiaddr(fmt.Sprintf("/ip4/10.%d.%d.%d/tcp/13802", (i>>16)&255, (i>>8)&255, i&255))
	simrt.Must(err, "multiaddr")
	return a
}

// ---------------------------------------------------------------------------
// host

// Dialer decides what happens when the system under test opens a stream to a
// remote peer: return an error (refused) or the local end of a stream whose
// remote end is driven by a behaviour script.
type Dialer func(ctx context.Context, h *Host, p peer.ID, proto protocol.ID) (network.Stream, error)

// Host is a fake host.Host.
type Host struct {
	idx      int
	id       peer.ID
	ps       peerstore.Peerstore
	addrs    []ma.Multiaddr
	mu       sync.Mutex
	handlers map[protocol.ID]network.StreamHandler
	net      *Network
	cm       connmgr.ConnManager
	Dial     Dialer
	streamN  int
	// ClosedPeers records Network().ClosePeer calls.
	ClosedPeers []peer.ID
}

// Peerstore wraps the real in-memory peerstore; LatencyEWMA is scripted.
type Peerstore struct {
	peerstore.Peerstore
	mu      sync.Mutex
	Latency map[peer.ID]time.Duration
	// OnLatency is called for every LatencyEWMA query (a seam: chain33's download
	// protocol asks once per peer when it builds a job list).
	OnLatency func(p peer.ID)
}

// LatencyEWMA returns the scripted latency.
func (p *Peerstore) LatencyEWMA(id peer.ID) time.Duration {
	p.mu.Lock()
	d := p.Latency[id]
	f := p.OnLatency
	p.mu.Unlock()
	if f != nil {
		f(id)
	}
	return d
}

// NewHost creates the host of the node under test with identity PeerID(idx).
func NewHost(idx int) *Host {
	ps, err := pstoremem.NewPeerstore()
	simrt.Must(err, "pstoremem")
	x := identOf(idx)
	simrt.Must(ps.AddPrivKey(x.id, x.priv), "AddPrivKey")
	simrt.Must(ps.AddPubKey(x.id, x.pub), "AddPubKey")
	h := &Host{idx: idx, id: x.id, handlers: map[protocol.ID]network.StreamHandler{}, cm: &ConnMgrTags{}}
	h.ps = &Peerstore{Peerstore: ps, Latency: map[peer.ID]time.Duration{}}
	h.addrs = []ma.Multiaddr{Addr(idx)}
	h.net = &Network{h: h}
	return h
}

// Store returns the scripted peerstore wrapper.
func (h *Host) Store() *Peerstore { return h.ps.(*Peerstore) }

func (h *Host) ID() peer.ID                      { return h.id }
func (h *Host) Peerstore() peerstore.Peerstore   { return h.ps }
func (h *Host) Addrs() []ma.Multiaddr            { return h.addrs }
func (h *Host) Network() network.Network         { return h.net }
func (h *Host) ConnManager() connmgr.ConnManager { return h.cm }
func (h *Host) Mux() protocol.Switch             { simrt.Failf("simnet.Host.Mux not simulated"); return nil }
func (h *Host) EventBus() event.Bus              { simrt.Failf("simnet.Host.EventBus not simulated"); return nil }
func (h *Host) Close() error                     { return nil }
func (h *Host) Connect(ctx context.Context, pi peer.AddrInfo) error {
	return fmt.Errorf("simnet: dial %s: no route", pi.ID)
}
func (h *Host) SetStreamHandler(pid protocol.ID, handler network.StreamHandler) {
	h.mu.Lock()
	h.handlers[pid] = handler
	h.mu.Unlock()
}
func (h *Host) SetStreamHandlerMatch(pid protocol.ID, _ func(protocol.ID) bool, handler network.StreamHandler) {
	h.SetStreamHandler(pid, handler)
}
func (h *Host) RemoveStreamHandler(pid protocol.ID) {
	h.mu.Lock()
	delete(h.handlers, pid)
	h.mu.Unlock()
}

// Protocols lists the registered stream protocols (sorted).
func (h *Host) Protocols() []string {
	h.mu.Lock()
	defer h.mu.Unlock()
	var s []string
	for p := range h.handlers {
		s = append(s, string(p))
	}
	sort.Strings(s)
	return s
}

// NewStream asks the Dialer.
func (h *Host) NewStream(ctx context.Context, p peer.ID, pids ...protocol.ID) (network.Stream, error) {
	if len(pids) == 0 {
		return nil, fmt.Errorf("simnet: no protocol")
	}
	if err := ctx.Err(); err != nil {
		return nil, err
	}
	if h.Dial == nil {
		return nil, fmt.Errorf("simnet: dial %s: no route", p)
	}
	return h.Dial(ctx, h, p, pids[0])
}

// Pipe creates a connected stream pair between the host (local) and remote
// peer `remote` for protocol proto. dir is the direction seen by the host.
func (h *Host) Pipe(remote peer.ID, remoteIdx int, proto protocol.ID, dir network.Direction) (local, far *Stream) {
	a, b := net.Pipe()
	h.mu.Lock()
	h.streamN++
	n := h.streamN
	h.mu.Unlock()
	lc := &Conn{local: h.id, remote: remote, remoteIdx: remoteIdx, laddr: h.addrs[0], raddr: Addr(remoteIdx), dir: dir}
	other := network.DirInbound
	if dir == network.DirInbound {
		other = network.DirOutbound
	}
	rc := &Conn{local: remote, remote: h.id, remoteIdx: h.idx, laddr: Addr(remoteIdx), raddr: h.addrs[0], dir: other}
	local = &Stream{c: a, conn: lc, proto: proto, id: fmt.Sprintf("s%d", n)}
	far = &Stream{c: b, conn: rc, proto: proto, id: fmt.Sprintf("r%d", n)}
	lc.stream, rc.stream = local, far
	return local, far
}

// Inbound delivers a new inbound stream of protocol proto from remote peer
// remoteIdx to the handler the node registered, exactly as libp2p does after
// protocol negotiation: the handler runs in its own goroutine. It returns the
// remote end and a channel closed when the handler returned; ok=false when no
// handler is registered.
func (h *Host) Inbound(remoteIdx int, proto protocol.ID, run func(name string, f func())) (far *Stream, done chan struct{}, ok bool) {
	h.mu.Lock()
	hd := h.handlers[proto]
	h.mu.Unlock()
	if hd == nil {
		return nil, nil, false
	}
	local, far := h.Pipe(PeerID(remoteIdx), remoteIdx, proto, network.DirInbound)
	done = make(chan struct{})
	run("stream:"+string(proto), func() {
		defer close(done)
		hd(local)
	})
	return far, done, true
}

// ---------------------------------------------------------------------------
// network

// Network is a fake network.Network: only what chain33's protocols call.
type Network struct{ h *Host }

func (n *Network) Peerstore() peerstore.Peerstore { return n.h.ps }
func (n *Network) LocalPeer() peer.ID             { return n.h.id }
func (n *Network) DialPeer(context.Context, peer.ID) (network.Conn, error) {
	return nil, fmt.Errorf("simnet: no route")
}
func (n *Network) ClosePeer(p peer.ID) error {
	n.h.mu.Lock()
	n.h.ClosedPeers = append(n.h.ClosedPeers, p)
	n.h.mu.Unlock()
	return nil
}
func (n *Network) Connectedness(peer.ID) network.Connectedness { return network.NotConnected }
func (n *Network) Peers() []peer.ID                            { return nil }
func (n *Network) Conns() []network.Conn                       { return nil }
func (n *Network) ConnsToPeer(p peer.ID) []network.Conn        { return nil }
func (n *Network) Notify(network.Notifiee)                     {}
func (n *Network) StopNotify(network.Notifiee)                 {}
func (n *Network) Close() error                                { return nil }
func (n *Network) SetStreamHandler(network.StreamHandler)      {}
func (n *Network) NewStream(context.Context, peer.ID) (network.Stream, error) {
	return nil, fmt.Errorf("simnet: no route")
}
func (n *Network) Listen(...ma.Multiaddr) error         { return nil }
func (n *Network) ListenAddresses() []ma.Multiaddr      { return n.h.addrs }
func (n *Network) InterfaceListenAddresses() ([]ma.Multiaddr, error) { return n.h.addrs, nil }
func (n *Network) ResourceManager() network.ResourceManager {
	return &network.NullResourceManager{}
}

// ---------------------------------------------------------------------------
// stream and conn

// Stream is one end of an in-memory stream.
type Stream struct {
	c     net.Conn
	conn  *Conn
	proto protocol.ID
	id    string
	mu    sync.Mutex
	// OnClose, when set, is called (once) at the first Close/Reset of this end,
	// before the pipe is closed. It is a scheduling seam for engines.
	OnClose func()
	closed  bool
	// BytesIn/BytesOut count traffic of this end.
	BytesIn, BytesOut int
}

func (s *Stream) Read(p []byte) (int, error) {
	n, err := s.c.Read(p)
	s.mu.Lock()
	s.BytesIn += n
	s.mu.Unlock()
	return n, err
}
func (s *Stream) Write(p []byte) (int, error) {
	n, err := s.c.Write(p)
	s.mu.Lock()
	s.BytesOut += n
	s.mu.Unlock()
	return n, err
}
func (s *Stream) closeOnce() {
	s.mu.Lock()
	f := s.OnClose
	was := s.closed
	s.closed = true
	s.mu.Unlock()
	if !was && f != nil {
		f()
	}
}
func (s *Stream) Close() error                        { s.closeOnce(); return s.c.Close() }
func (s *Stream) CloseWrite() error                   { s.closeOnce(); return s.c.Close() }
func (s *Stream) CloseRead() error                    { return nil }
func (s *Stream) Reset() error                        { s.closeOnce(); return s.c.Close() }
func (s *Stream) SetDeadline(t time.Time) error       { return s.c.SetDeadline(t) }
func (s *Stream) SetReadDeadline(t time.Time) error   { return s.c.SetReadDeadline(t) }
func (s *Stream) SetWriteDeadline(t time.Time) error  { return s.c.SetWriteDeadline(t) }
func (s *Stream) ID() string                          { return s.id }
func (s *Stream) Protocol() protocol.ID               { return s.proto }
func (s *Stream) SetProtocol(id protocol.ID) error    { s.proto = id; return nil }
func (s *Stream) Stat() network.Stats                 { return network.Stats{Direction: s.conn.dir} }
func (s *Stream) Conn() network.Conn                  { return s.conn }
func (s *Stream) Scope() network.StreamScope          { return &network.NullScope{} }

// Conn is the connection a stream belongs to.
type Conn struct {
	local, remote peer.ID
	remoteIdx     int
	laddr, raddr  ma.Multiaddr
	dir           network.Direction
	stream        *Stream
	mu            sync.Mutex
	closed        bool
}

func (c *Conn) Close() error {
	c.mu.Lock()
	c.closed = true
	c.mu.Unlock()
	if c.stream != nil {
		return c.stream.c.Close()
	}
	return nil
}
func (c *Conn) LocalPeer() peer.ID  { return c.local }
func (c *Conn) RemotePeer() peer.ID { return c.remote }
func (c *Conn) RemotePublicKey() ic.PubKey {
	return identOf(c.remoteIdx).pub
}
func (c *Conn) ConnState() network.ConnectionState { return network.ConnectionState{} }
func (c *Conn) LocalMultiaddr() ma.Multiaddr       { return c.laddr }
func (c *Conn) RemoteMultiaddr() ma.Multiaddr      { return c.raddr }
func (c *Conn) Stat() network.ConnStats {
	return network.ConnStats{Stats: network.Stats{Direction: c.dir}, NumStreams: 1}
}
func (c *Conn) Scope() network.ConnScope { return &network.NullScope{} }
func (c *Conn) ID() string               { return "c-" + c.stream.id }
func (c *Conn) NewStream(context.Context) (network.Stream, error) {
	return nil, fmt.Errorf("simnet: Conn.NewStream not simulated")
}
func (c *Conn) GetStreams() []network.Stream { return []network.Stream{c.stream} }
func (c *Conn) IsClosed() bool {
	c.mu.Lock()
	defer c.mu.Unlock()
	return c.closed
}

// ---------------------------------------------------------------------------
// libp2p connection manager (tags/protection only)

// ConnMgrTags is a connmgr.ConnManager that records protections. OnUnprotect is
// a seam for engines.
type ConnMgrTags struct {
	connmgr.NullConnMgr
	mu          sync.Mutex
	prot        map[string]bool
	OnUnprotect func(p peer.ID, tag string)
}

func (c *ConnMgrTags) Protect(p peer.ID, tag string) {
	c.mu.Lock()
	if c.prot == nil {
		c.prot = map[string]bool{}
	}
	c.prot[string(p)+"/"+tag] = true
	c.mu.Unlock()
}
func (c *ConnMgrTags) Unprotect(p peer.ID, tag string) bool {
	c.mu.Lock()
	delete(c.prot, string(p)+"/"+tag)
	f := c.OnUnprotect
	c.mu.Unlock()
	if f != nil {
		f(p, tag)
	}
	return false
}
func (c *ConnMgrTags) IsProtected(p peer.ID, tag string) bool {
	c.mu.Lock()
	defer c.mu.Unlock()
	return c.prot[string(p)+"/"+tag]
}

// ---------------------------------------------------------------------------
// chain33 interfaces: IPeerInfoManager, IConnManager, blacklist

// PeerInfo is a scripted IPeerInfoManager.
type PeerInfo struct {
	mu    sync.Mutex
	infos map[string]*types.Peer
	max   int64
	// Refreshed counts Refresh calls per peer name.
	Refreshed map[string]int
}

// NewPeerInfo creates an empty table.
func NewPeerInfo() *PeerInfo {
	return &PeerInfo{infos: map[string]*types.Peer{}, Refreshed: map[string]int{}}
}

// SetHeight scripts the announced height of a peer (-1 removes the peer).
func (p *PeerInfo) SetHeight(id peer.ID, h int64) {
	p.mu.Lock()
	defer p.mu.Unlock()
	if h < 0 {
		delete(p.infos, id.Pretty())
		return
	}
	p.infos[id.Pretty()] = &types.Peer{Name: id.Pretty(), Header: &types.Header{Height: h}}
}
func (p *PeerInfo) Refresh(info *types.Peer) {
	if info == nil {
		return
	}
	p.mu.Lock()
	defer p.mu.Unlock()
	p.infos[info.GetName()] = info
	p.Refreshed[info.GetName()]++
	if h := info.GetHeader().GetHeight(); h > p.max {
		p.max = h
	}
}
func (p *PeerInfo) Fetch(id peer.ID) *types.Peer {
	p.mu.Lock()
	defer p.mu.Unlock()
	return p.infos[id.Pretty()]
}
func (p *PeerInfo) FetchAll() []*types.Peer {
	p.mu.Lock()
	defer p.mu.Unlock()
	names := make([]string, 0, len(p.infos))
	for n := range p.infos {
		names = append(names, n)
	}
	sort.Strings(names)
	var out []*types.Peer
	for _, n := range names {
		out = append(out, p.infos[n])
	}
	return out
}
func (p *PeerInfo) PeerHeight(id peer.ID) int64 {
	p.mu.Lock()
	defer p.mu.Unlock()
	info, ok := p.infos[id.Pretty()]
	if !ok || info.GetHeader() == nil {
		return -1
	}
	return info.GetHeader().GetHeight()
}
func (p *PeerInfo) PeerMaxHeight() int64 {
	p.mu.Lock()
	defer p.mu.Unlock()
	return p.max
}

// ConnMgr is a scripted chain33 IConnManager.
type ConnMgr struct {
	Peers []peer.ID
}

func (c *ConnMgr) FetchConnPeers() []peer.ID    { return append([]peer.ID(nil), c.Peers...) }
func (c *ConnMgr) BoundSize() (in int, out int) { return 0, len(c.Peers) }
func (c *ConnMgr) GetNetRate() metrics.Stats    { return metrics.Stats{} }
func (c *ConnMgr) BandTrackerByProtocol() *types.NetProtocolInfos {
	return &types.NetProtocolInfos{}
}
func (c *ConnMgr) RateCalculate(float64) string { return "0 KB/s" }

// BlackList is the connection blacklist of P2PEnv.
type BlackList struct {
	mu    sync.Mutex
	until map[string]time.Time
	// Added records every Add call in order.
	Added []string
}

// NewBlackList creates an empty blacklist.
func NewBlackList() *BlackList { return &BlackList{until: map[string]time.Time{}} }

func (b *BlackList) Add(s string, d time.Duration) {
	b.mu.Lock()
	defer b.mu.Unlock()
	b.until[s] = time.Now().Add(d)
	b.Added = append(b.Added, s)
}
func (b *BlackList) Has(s string) bool {
	b.mu.Lock()
	defer b.mu.Unlock()
	t, ok := b.until[s]
	return ok && time.Now().Before(t)
}
func (b *BlackList) List() *types.Blacklist {
	b.mu.Lock()
	defer b.mu.Unlock()
	names := make([]string, 0, len(b.until))
	for n := range b.until {
		names = append(names, n)
	}
	sort.Strings(names)
	out := &types.Blacklist{}
	for _, n := range names {
		out.Blackinfo = append(out.Blackinfo, &types.BlackInfo{PeerName: n})
	}
	return out
}
