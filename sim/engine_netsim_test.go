//go:build eng_all || eng_netsim

package verifsim

import _ "verifsim/engines/netsim"
