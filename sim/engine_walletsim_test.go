//go:build eng_all || eng_walletsim

package verifsim

import _ "verifsim/engines/walletsim"
