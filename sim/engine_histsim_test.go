//go:build eng_all || eng_histsim

package verifsim

import _ "verifsim/engines/histsim"
