//go:build eng_all || eng_histsim

package verifsim

import (
	"os"
	"testing"

	"verifsim/engines/histsim"
)

// TestHistsimChild is the body of the one-shot fresh processes the C19 engine
// starts to obtain answers from a process with no history. It only runs when asked to.
func TestHistsimChild(t *testing.T) {
	if os.Getenv("VERIF_HISTSIM_CHILD") == "" {
		t.Skip("not a histsim child")
	}
	histsim.ChildMain(os.Stdin, os.NewFile(3, "answers"))
}
