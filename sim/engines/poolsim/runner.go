package poolsim

import (
	"fmt"
	"sort"
	"strings"
	"time"

	mem "github.com/33cn/chain33/system/mempool"
	"github.com/33cn/chain33/types"
	"github.com/golang/protobuf/proto"

	"verifsim/simrt"
)

// runner executes pool scenarios. Which oracle is evaluated depends on the property.
type runner struct {
	prop string
	ctx  *simrt.Ctx
	w    *world
	open bool // scenario exercises shapes recorded as known findings
}

func knobOpts(sc *simrt.Scenario) poolOpts {
	return poolOpts{
		capacity:   sc.Knob("cap", 4),
		perAccount: sc.Knob("peracc", 2),
		maxLast:    sc.Knob("maxlast", 3),
		levelFee:   sc.Knob("levelfee", 0) == 1,
		maxTxNum:   sc.Knob("maxtx", 20),
		procNum:    int(sc.Knob("procs", 2)),
		height:     sc.Knob("height", 1000),
		blFork:     sc.Knob("blfork", 0),
	}
}

// blacklistOf reads the "blacklist" op (must be the first op to have effect).
func blacklistOf(sc *simrt.Scenario) (addrs []string, ids map[ident]bool) {
	ids = map[ident]bool{}
	for i := range sc.Ops {
		if sc.Ops[i].K != "blacklist" {
			continue
		}
		for _, e := range sc.Ops[i].Sub {
			a := acc(e.Int(0))
			addr, form := spell(a, e.Int(1))
			if mod(e.Int(1), nSpellings) == spEthBare || mod(e.Int(1), nSpellings) == spEth0X {
				// the list itself is written in the two canonical forms only
				addr, form = spell(a, spEthLower)
			}
			if !ids[ident{a.idx, form}] {
				ids[ident{a.idx, form}] = true
				addrs = append(addrs, addr)
			}
		}
	}
	return addrs, ids
}

func (r *runner) run() *simrt.Violation {
	sc := r.ctx.Sc
	o := knobOpts(sc)
	var blocked map[ident]bool
	o.blacklist, blocked = blacklistOf(sc)
	r.open = sc.Knob("open", 0) == 1
	w := newWorld(r.ctx, o)
	r.w = w
	defer w.close()
	tStart := time.Now()
	defer func() { r.ctx.AddSimTime(time.Since(tStart)) }()
	for i := range sc.Ops {
		op := &sc.Ops[i]
		r.ctx.CurOp = i
		r.ctx.Step()
		if v := r.exec(op, blocked); v != nil {
			return v
		}
	}
	return nil
}

// exec runs one top-level op and evaluates the oracles at quiescence.
func (r *runner) exec(op *simrt.Op, blocked map[ident]bool) *simrt.Violation {
	w := r.w
	tBefore := time.Now().Unix()
	pre := r.snapshotPre()
	var submitted *built
	var accepted bool
	var listReply *listQuery
	switch op.K {
	case "blacklist":
		return nil
	case "forge":
		// The body of an earlier, honestly signed transaction that is neither pooled
		// nor on the chain any more, now carrying another account's public key and
		// junk signature bytes. The transaction hash does not cover the signature, so
		// this copy has the hash the pool has seen (and verified) before.
		of := w.ref(op.Int(0))
		if of == nil || of.group || len(of.members) != 1 || !of.members[0].sigOK || of.entry.GetSignature() == nil {
			return nil
		}
		w.mu.Lock()
		chained := w.onChain[of.hash] > 0
		w.mu.Unlock()
		if w.inPool[of.hash] || chained {
			return nil
		}
		f := types.Clone(of.entry).(*types.Transaction)
		victim := acc(op.Int(1))
		junk := make([]byte, 65)
		for i := range junk {
			junk[i] = byte(37*i + int(op.Int(1)) + 1)
		}
		f.Signature = &types.Signature{Ty: of.entry.Signature.Ty, Pubkey: victim.btcPriv.PubKey().Bytes(), Signature: junk}
		if string(f.Hash()) != of.hash {
			simrt.Failf("the forged copy has another hash")
		}
		ok, msg := w.submit(f)
		r.ctx.Probe("forged_copy_of_departed_tx_submitted")
		r.ctx.Logf("forged copy of #%d -> %v %s", of.id, ok, msg)
		_, appeared, _ := w.observe(tBefore)
		for _, h := range appeared {
			if h == of.hash {
				return r.ctx.Violate("admitted-unacceptable", "signature/same-body-other-signature", "object #%d %s had left the pool; a copy of its body carrying the public key of %s and junk signature bytes (same transaction hash) was submitted, answered ok=%v %q, and is in the pool now", of.id, hx(of.hash), victim.btcAddr, ok, msg)
			}
		}
		if ok {
			return r.ctx.Violate("admitted-unacceptable", "signature/same-body-other-signature/reply-ok", "a copy of object #%d %s with another public key and junk signature bytes was answered OK", of.id, hx(of.hash))
		}
		return nil
	case "tx", "group", "twin":
		b := w.buildOp(op)
		if b == nil {
			return nil
		}
		if b.twin {
			r.ctx.Probe("twin_group_submitted")
		}
		submitted = b
		var msg string
		accepted, msg = w.submit(b.entry)
		r.ctx.Logf("submit #%d %s -> %v %s", b.id, describe(b), accepted, msg)
	case "resub":
		b := w.ref(op.Int(0))
		if b == nil {
			return nil
		}
		submitted = b
		var msg string
		accepted, msg = w.submit(b.entry)
		r.ctx.Probe("resubmit")
		r.ctx.Logf("resubmit #%d -> %v %s", b.id, accepted, msg)
	case "addblk":
		objs := r.pickObjs(op.Sub, true)
		blk := w.addBlock(objs, mod(op.Int(0), 1200))
		r.ctx.Logf("addblock h=%d txs=%d", blk.Height, len(blk.Txs))
	case "reorg":
		depth := int(1 + mod(op.Int(0), 3))
		var objs [][]*built
		for i := range op.Sub {
			if op.Sub[i].K == "nb" {
				objs = append(objs, r.pickObjs(op.Sub[i].Sub, false))
			}
		}
		popped, added := w.reorg(depth, objs, mod(op.Int(1), 600))
		if len(popped) >= 2 {
			r.ctx.Probe("reorg_depth_2plus_before_notifications")
		}
		r.ctx.Fault("reorg_completed_before_notifications")
		r.ctx.Logf("reorg: %d blocks off, %d on, tip now %d", len(popped), len(added), w.hdr.height)
	case "delblk":
		blk := w.delBlock()
		if blk != nil {
			r.ctx.Probe("rollback")
			r.ctx.Logf("delblock h=%d txs=%d", blk.Height, len(blk.Txs))
		}
	case "rm":
		var hashes [][]byte
		for i := range op.Sub {
			e := &op.Sub[i]
			switch e.K {
			case "pick":
				if len(w.content) > 0 {
					hashes = append(hashes, []byte(w.content[int(mod(e.Int(0), int64(len(w.content))))]))
				}
			case "ref":
				if b := w.ref(e.Int(0)); b != nil {
					hashes = append(hashes, []byte(b.hash))
				}
			case "rand":
				hashes = append(hashes, []byte(fmt.Sprintf("absent-hash-%022d", e.Int(0))))
			}
		}
		resp := w.call(types.EventDelTxList, &types.TxHashList{Hashes: hashes})
		rep, _ := resp.GetData().(*types.Reply)
		r.ctx.Logf("remove %d hashes -> ok=%v", len(hashes), rep.GetIsOk())
		if len(hashes) == 0 {
			r.ctx.Probe("remove_empty_list")
		}
	case "sleep":
		d := time.Duration(mod(op.Int(0), 20*60*1000)) * time.Millisecond
		time.Sleep(d)
		r.ctx.Logf("sleep %v", d)
	case "setnonce":
		a := acc(op.Int(0))
		w.mu.Lock()
		w.evmNonce[a.ethAddr] = mod(op.Int(1), 1000)
		w.mu.Unlock()
	case "oracle":
		w.mu.Lock()
		w.oracleMode = int(mod(op.Int(0), 3))
		w.mu.Unlock()
	case "execbad":
		if b := w.ref(op.Int(0)); b != nil {
			w.mu.Lock()
			w.execBad[b.hash] = op.Int(1) == 1
			w.mu.Unlock()
		}
	case "mark":
		// the chain reports this hash as already included (another node mined it)
		if b := w.ref(op.Int(0)); b != nil {
			m := b.members[int(mod(op.Int(1), int64(len(b.members))))]
			w.mu.Lock()
			if op.Int(2) == 1 {
				delete(w.onChain, m.hash)
			} else {
				w.onChain[m.hash] = 1
			}
			w.mu.Unlock()
		}
	case "delay":
		if len(op.Sub) == 0 {
			return nil
		}
		b := w.buildOp(&op.Sub[0])
		if b == nil || b.group {
			return nil
		}
		if op.Int(2) == 1 {
			// committed inside a block: the pool picks it up from EventAddBlock
			relT, relH := 1+mod(op.Int(0), 40), int64(0)
			if op.Int(1) == 1 {
				relT, relH = 0, 1+mod(op.Int(0), 3)
			}
			blk := w.addBlock([]*built{w.carrier(b.entry, relT, relH)}, 1+mod(op.Int(0), 7))
			r.ctx.Probe("delay_tx_in_block")
			r.ctx.Logf("delaytx #%d committed in block h=%d rel time %d height %d", b.id, blk.Height, relT, relH)
			break
		}
		end := w.hdr.blockTime + 1 + mod(op.Int(0), 40)
		if op.Int(1) == 1 {
			end = w.hdr.height + 1 + mod(op.Int(0), 3)
		}
		resp := w.call(types.EventAddDelayTx, &types.DelayTx{Tx: b.entry, EndDelayTime: end})
		rep, _ := resp.GetData().(*types.Reply)
		r.ctx.Probe("delay_tx_submitted")
		r.ctx.Logf("delaytx #%d end=%d -> %v %s", b.id, end, rep.GetIsOk(), rep.GetMsg())
	case "q":
		listReply = r.query(op)
	case "conc":
		if v := r.concurrent(op); v != nil {
			return v
		}
	default:
		return nil
	}
	// delayed transactions are pushed by a pool goroutine through its own
	// EventTx; let the second-granular retry ticker and pipeline settle
	v, appeared, gone := w.observe(tBefore)
	r.ctx.State(simrt.DigestOf(len(w.content), w.hdr.height-w.opts.height, len(appeared), len(gone)))
	r.coverage(op, submitted, accepted, appeared, gone, listReply)
	switch r.prop {
	case "C21":
		if viol := r.checkBook(v, op); viol != nil {
			return viol
		}
	case "C22":
		if viol := r.checkAdmission(pre, submitted, accepted, appeared, blocked, op); viol != nil {
			return viol
		}
	case "C23":
		if listReply != nil {
			if viol := r.checkList(listReply, v); viol != nil {
				return viol
			}
		}
	}
	return nil
}

// preState is the world as it was when the operation started: admission
// conditions are judged against it.
type preState struct {
	inPool    map[string]bool
	memberIn  map[string]string // member hash -> entry hash, for pooled objects
	count     map[string]int    // sender -> entries
	onChain   map[string]bool
	height    int64
	blockTime int64
	rate      int64
	evmNonce  map[string]int64
	oracle    int
	pending   map[string]map[int64]bool // eth-signed sender -> nonces pending in the pool
}

func (r *runner) snapshotPre() *preState {
	w := r.w
	p := &preState{inPool: map[string]bool{}, memberIn: map[string]string{}, count: map[string]int{}, onChain: map[string]bool{}, evmNonce: map[string]int64{}, pending: map[string]map[int64]bool{}}
	for _, h := range w.content {
		p.inPool[h] = true
		if b := w.byHash[h]; b != nil {
			p.count[b.head().from]++
			for _, m := range b.members {
				p.memberIn[m.hash] = h
			}
			if hd := b.head(); hd.ethSign {
				if p.pending[hd.from] == nil {
					p.pending[hd.from] = map[int64]bool{}
				}
				p.pending[hd.from][hd.spec.nonce] = true
			}
		}
	}
	wv := w.view()
	p.rate = wv.rate
	w.mu.Lock()
	for h := range w.onChain {
		p.onChain[h] = true
	}
	for a, n := range w.evmNonce {
		p.evmNonce[a] = n
	}
	p.height, p.blockTime, p.oracle = w.hdr.height, w.hdr.blockTime, w.oracleMode
	w.mu.Unlock()
	return p
}

func describe(b *built) string {
	var s []string
	for _, m := range b.members {
		sp := m.spec
		s = append(s, fmt.Sprintf("from=%s to=%d/%d exec=%d exp=%d fee=%d sig=%d nonce=%d", m.fromID, sp.toKind, sp.toAcc, sp.exec, sp.exp, sp.fee, sp.sig, sp.nonce))
	}
	return "[" + strings.Join(s, "; ") + "]"
}

// pickObjs resolves block / removal content: "pick" = an object now in the pool,
// "ref" = any known object, "tx"/"group" = a fresh object. With skipChain,
// objects with a member already on the chain are left out (a valid block cannot
// repeat them).
func (r *runner) pickObjs(sub []simrt.Op, skipChain bool) []*built {
	w := r.w
	var out []*built
	have := map[string]bool{}
	for i := range sub {
		e := &sub[i]
		var b *built
		switch e.K {
		case "pick":
			if len(w.content) > 0 {
				b = w.byHash[w.content[int(mod(e.Int(0), int64(len(w.content))))]]
			}
		case "ref":
			b = w.ref(e.Int(0))
		case "tx", "group":
			b = w.buildOp(e)
		}
		if b == nil || have[b.hash] {
			continue
		}
		if skipChain {
			dup := false
			w.mu.Lock()
			for _, m := range b.members {
				if w.onChain[m.hash] > 0 {
					dup = true
				}
			}
			w.mu.Unlock()
			if dup {
				continue
			}
		}
		have[b.hash] = true
		out = append(out, b)
	}
	return out
}

// ---------------------------------------------------------------------------
// queries

type listQuery struct {
	count    int64
	excluded map[string]bool
	txs      []*types.Transaction
	errReply bool
	at       int64
	oracle   int
	nonces   map[string]int64
	height   int64
	blockTm  int64
}

func (r *runner) query(op *simrt.Op) *listQuery {
	w := r.w
	switch mod(op.Int(0), 8) {
	case 0: // the producer's request
		count := op.Int(1)
		lq := &listQuery{count: count, excluded: map[string]bool{}}
		var ex [][]byte
		for i := range op.Sub {
			e := &op.Sub[i]
			switch e.K {
			case "pick":
				if len(w.content) > 0 {
					h := w.content[int(mod(e.Int(0), int64(len(w.content))))]
					ex = append(ex, []byte(h))
					lq.excluded[h] = true
				}
			case "rand":
				ex = append(ex, []byte(fmt.Sprintf("absent-hash-%022d", e.Int(0))))
			}
		}
		nEth := 0
		for _, h := range w.content {
			if b := w.byHash[h]; b != nil && b.head().ethSign {
				nEth++
			}
		}
		w.avoidTick(time.Duration(2*nEth+3) * time.Second)
		w.mu.Lock()
		lq.oracle = w.oracleMode
		lq.nonces = map[string]int64{}
		for a, n := range w.evmNonce {
			lq.nonces[a] = n
		}
		lq.height, lq.blockTm = w.hdr.height, w.hdr.blockTime
		w.mu.Unlock()
		lq.at = time.Now().Unix() // the pool filters when the request arrives
		resp := w.call(types.EventTxList, &types.TxHashList{Hashes: ex, Count: count})
		if rep, ok := resp.GetData().(*types.ReplyTxList); ok {
			lq.txs = rep.Txs
		} else {
			lq.errReply = true
		}
		r.ctx.Logf("txlist count=%d excluded=%d -> %d txs err=%v", count, len(ex), len(lq.txs), lq.errReply)
		return lq
	case 1:
		w.avoidTick(20 * time.Second)
		resp := w.call(types.EventGetMempool, &types.ReqGetMempool{IsAll: op.Int(1) == 1})
		rep, _ := resp.GetData().(*types.ReplyTxList)
		r.ctx.Logf("getmempool all=%v -> %d", op.Int(1) == 1, len(rep.GetTxs()))
	case 2:
		resp := w.call(types.EventGetLastMempool, nil)
		rep, _ := resp.GetData().(*types.ReplyTxList)
		r.ctx.Logf("getlast -> %d", len(rep.GetTxs()))
	case 3:
		a := acc(op.Int(1))
		resp := w.call(types.EventGetAddrTxs, &types.ReqAddrs{Addrs: []string{a.btcAddr, a.ethAddr}})
		rep, _ := resp.GetData().(*types.TransactionDetails)
		r.ctx.Logf("addrtxs acc%d -> %d", a.idx, len(rep.GetTxs()))
	case 4:
		resp := w.call(types.EventGetProperFee, &types.ReqProperFee{TxCount: int32(mod(op.Int(1), 30)), TxSize: int32(mod(op.Int(2), 5000))})
		rep, _ := resp.GetData().(*types.ReplyProperFee)
		r.ctx.Logf("properfee -> %d", rep.GetProperFee())
	case 5:
		resp := w.call(types.EventGetMempoolSize, nil)
		rep, _ := resp.GetData().(*types.MempoolSize)
		r.ctx.Logf("size -> %d", rep.GetSize())
	case 6:
		var hs [][]byte
		for _, b := range w.all {
			hs = append(hs, []byte(b.hash))
		}
		resp := w.call(types.EventCheckTxsExist, &types.ReqCheckTxsExist{TxHashes: hs})
		rep, _ := resp.GetData().(*types.ReplyCheckTxsExist)
		r.ctx.Logf("exist -> %d of %d", rep.GetExistCount(), len(hs))
	case 7:
		resp := w.call(types.EventTxList, &types.TxHashList{Count: 0})
		_, isList := resp.GetData().(*types.ReplyTxList)
		r.ctx.Logf("txlist count=0 -> list=%v", isList)
	}
	return nil
}

// ---------------------------------------------------------------------------
// C21: bookkeeping invariants

func (r *runner) checkBook(v *mem.VerifView, op *simrt.Op) *simrt.Violation {
	w := r.w
	ctx := r.ctx
	cur := map[string]bool{}
	var bytes, fee int64
	bySender := map[string][]string{}
	memberOf := map[string]string{}
	for _, e := range v.Queue {
		if cur[e.Hash] {
			return ctx.Violate("duplicate-hash", "queue", "after %s the queue holds hash %s twice", op.K, hx(e.Hash))
		}
		cur[e.Hash] = true
		bytes += int64(proto.Size(e.Tx))
		fee += e.Tx.Fee
		b := w.byHash[e.Hash]
		if b == nil {
			return ctx.Violate("unknown-entry", "queue", "after %s the pool holds %s which was never submitted", op.K, hx(e.Hash))
		}
		bySender[b.head().from] = append(bySender[b.head().from], e.Hash)
		for _, m := range b.members {
			if other, dup := memberOf[m.hash]; dup && other != e.Hash {
				return ctx.Violate("duplicate-hash", "group-member-in-two-entries", "after %s transaction %s is held twice, as a member of pool entries %s and %s", op.K, hx(m.hash), hx(other), hx(e.Hash))
			}
			memberOf[m.hash] = e.Hash
		}
	}
	n := len(v.Queue)
	if int64(n) > w.opts.capacity {
		return ctx.Violate("over-capacity", "queue", "after %s the pool holds %d transactions, capacity is %d", op.K, n, w.opts.capacity)
	}
	if s := w.pool.Size(); s != n {
		return ctx.Violate("size-mismatch", "Size", "after %s Size()=%d but the queue holds %d", op.K, s, n)
	}
	if rep, ok := w.call(types.EventGetMempoolSize, nil).GetData().(*types.MempoolSize); !ok || rep.Size != int64(n) {
		return ctx.Violate("size-mismatch", "EventGetMempoolSize", "after %s EventGetMempoolSize=%v but the queue holds %d", op.K, rep, n)
	}
	// per-sender index
	senders := map[string]bool{}
	for _, a := range accounts() {
		senders[a.btcAddr], senders[a.ethAddr] = true, true
	}
	for _, a := range v.Accounts {
		senders[a.Addr] = true
	}
	idx := map[string][]string{}
	for _, a := range v.Accounts {
		idx[a.Addr] = a.Hashes
	}
	names := make([]string, 0, len(senders))
	for s := range senders {
		names = append(names, s)
	}
	sort.Strings(names)
	for _, s := range names {
		want := bySender[s]
		if int64(len(want)) > w.opts.perAccount {
			return ctx.Violate("over-sender-limit", "queue", "after %s sender %s has %d pooled transactions, limit is %d", op.K, s, len(want), w.opts.perAccount)
		}
		if got := w.pool.TxNumOfAccount(s); got != int64(len(want)) {
			return ctx.Violate("sender-index-mismatch", "TxNumOfAccount", "after %s TxNumOfAccount(%s)=%d but the pool holds %d transactions of that sender", op.K, s, got, len(want))
		}
		if !sameSet(idx[s], want) {
			return ctx.Violate("sender-index-mismatch", "index-content", "after %s the index lists %d transactions for %s, the pool holds %d (%s vs %s)", op.K, len(idx[s]), s, len(want), hxs(idx[s]), hxs(want))
		}
		det := w.pool.GetAccTxs(&types.ReqAddrs{Addrs: []string{s}})
		var got []string
		for _, d := range det.GetTxs() {
			got = append(got, string(d.Tx.Hash()))
		}
		if !sameSet(got, want) {
			return ctx.Violate("sender-index-mismatch", "GetAccTxs", "after %s GetAccTxs(%s) returns %s, the pool holds %s", op.K, s, hxs(got), hxs(want))
		}
	}
	// latest list
	seen := map[string]bool{}
	for _, tx := range w.pool.GetLatestTx() {
		h := string(tx.Hash())
		if !cur[h] {
			return ctx.Violate("latest-not-in-pool", "GetLatestTx", "after %s the latest-transactions list holds %s which is not in the pool", op.K, hx(h))
		}
		if seen[h] {
			return ctx.Violate("latest-not-in-pool", "duplicate", "after %s the latest-transactions list holds %s twice", op.K, hx(h))
		}
		seen[h] = true
	}
	for _, h := range v.Last {
		if !cur[h] {
			return ctx.Violate("latest-not-in-pool", "view", "after %s the latest-transactions list holds %s which is not in the pool", op.K, hx(h))
		}
	}
	// short-hash lookup: exactly the pool's transactions
	if len(v.SHash) != n {
		return ctx.Violate("short-hash-mismatch", "entry-count", "after %s the short-hash lookup has %d entries, the pool %d transactions", op.K, len(v.SHash), n)
	}
	for _, e := range v.SHash {
		if !cur[e.Hash] {
			return ctx.Violate("short-hash-mismatch", "stale-entry", "after %s the short-hash lookup still maps %s to %s which is not in the pool", op.K, e.Short, hx(e.Hash))
		}
	}
	var shorts, fulls []string
	for _, b := range w.all {
		shorts = append(shorts, types.CalcTxShortHash([]byte(b.hash)))
		fulls = append(fulls, b.hash)
	}
	if len(w.all) > 0 {
		for pass, hs := range [][]string{shorts, fulls} {
			rep, ok := w.call(types.EventTxListByHash, &types.ReqTxHashList{Hashes: hs, IsShortHash: pass == 0}).GetData().(*types.ReplyTxList)
			if !ok || len(rep.Txs) != len(hs) {
				return ctx.Violate("short-hash-mismatch", "reply-shape", "after %s EventTxListByHash(short=%v) answered %d entries for %d hashes", op.K, pass == 0, len(rep.GetTxs()), len(hs))
			}
			for i, tx := range rep.Txs {
				b := w.all[i]
				found := tx != nil && len(tx.Execer)+len(tx.Payload) > 0
				sig := "short-lookup"
				if pass == 1 {
					sig = "hash-lookup"
				}
				if found != cur[b.hash] {
					return ctx.Violate("short-hash-mismatch", sig, "after %s lookup of %s (short=%v) found=%v but in pool=%v", op.K, hx(b.hash), pass == 0, found, cur[b.hash])
				}
				if found && string(tx.Hash()) != b.hash {
					return ctx.Violate("short-hash-mismatch", sig+"-wrong-tx", "after %s lookup of %s returned transaction %s", op.K, hx(b.hash), hx(string(tx.Hash())))
				}
			}
		}
		var hs [][]byte
		for _, b := range w.all {
			hs = append(hs, []byte(b.hash))
		}
		rep, ok := w.call(types.EventCheckTxsExist, &types.ReqCheckTxsExist{TxHashes: hs}).GetData().(*types.ReplyCheckTxsExist)
		if !ok || len(rep.ExistFlags) != len(hs) {
			return ctx.Violate("exist-mismatch", "reply-shape", "after %s EventCheckTxsExist answered %d flags for %d hashes", op.K, len(rep.GetExistFlags()), len(hs))
		}
		for i, f := range rep.ExistFlags {
			if f != cur[w.all[i].hash] {
				return ctx.Violate("exist-mismatch", "flag", "after %s EventCheckTxsExist says %v for %s, in pool=%v", op.K, f, hx(w.all[i].hash), cur[w.all[i].hash])
			}
		}
	}
	// byte size and fee total
	if got := w.pool.GetTotalCacheBytes(); got != bytes {
		return ctx.Violate("bytes-mismatch", "GetTotalCacheBytes", "after %s GetTotalCacheBytes()=%d, the contents sum to %d", op.K, got, bytes)
	}
	if v.CacheBytes != bytes {
		return ctx.Violate("bytes-mismatch", "view", "after %s cache bytes %d, the contents sum to %d", op.K, v.CacheBytes, bytes)
	}
	if v.TotalFee != fee {
		return ctx.Violate("fee-mismatch", "TotalFee", "after %s TotalFee()=%d, the contents' fees sum to %d", op.K, v.TotalFee, fee)
	}
	// transactions of added blocks are gone
	w.mu.Lock()
	defer w.mu.Unlock()
	for _, e := range v.Queue {
		b := w.byHash[e.Hash]
		for i, m := range b.members {
			if w.onChain[m.hash] > 0 {
				sig := b.shape(i)
				if w.memberObjs[m.hash] > 1 {
					// the transaction is a member of two generated groups (open scenarios)
					sig += "/shared-members"
				}
				if op.K == "conc" {
					sig += "/concurrent"
					if r.open {
						sig += "-open"
					}
				}
				return ctx.Violate("block-tx-still-pooled", sig, "after %s transaction %s (%s of pool entry %s) is in a block of the chain and still in the pool", op.K, hx(m.hash), b.shape(i), hx(e.Hash))
			}
		}
	}
	return nil
}

func sameSet(a, b []string) bool {
	if len(a) != len(b) {
		return false
	}
	x := append([]string(nil), a...)
	y := append([]string(nil), b...)
	sort.Strings(x)
	sort.Strings(y)
	for i := range x {
		if x[i] != y[i] {
			return false
		}
	}
	return true
}

func hxs(hs []string) string {
	var s []string
	for _, h := range hs {
		s = append(s, hx(h))
	}
	sort.Strings(s)
	return "{" + strings.Join(s, ",") + "}"
}

// coverage counts what happened (evidence and the non-triviality rules).
func (r *runner) coverage(op *simrt.Op, submitted *built, accepted bool, appeared, gone []string, lq *listQuery) {
	w := r.w
	p := r.ctx.Probe
	if submitted != nil {
		if accepted {
			p("admit")
			if submitted.group {
				p("admit_group")
			}
			if submitted.head().ethSign {
				p("admit_eth_signed")
			}
		} else {
			p("push_refused")
		}
	}
	switch op.K {
	case "addblk":
		if len(gone) > 0 {
			p("blk_removed")
		}
		if len(appeared) > 0 {
			p("delayed_tx_pushed")
		}
	case "rm":
		if len(gone) > 0 {
			p("rm_removed")
		}
	case "sleep":
		if len(gone) > 0 {
			p("swept")
		}
	case "delblk":
		if len(appeared) > 0 {
			p("rollback_reinsert")
		}
	}
	if int64(len(w.content)) == w.opts.capacity {
		p("pool_full")
	}
	for _, a := range accounts() {
		if int64(w.senderCount(a.btcAddr)) == w.opts.perAccount || int64(w.senderCount(a.ethAddr)) == w.opts.perAccount {
			p("sender_at_limit")
			break
		}
	}
	if lq != nil {
		if len(lq.txs) > 0 {
			p("list_nonempty")
		}
		for h := range lq.excluded {
			if w.inPool[h] {
				p("list_excluded_pooled")
				break
			}
		}
	}
}
