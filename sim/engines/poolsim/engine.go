package poolsim

import (
	"testing"

	"verifsim/simrt"
)

type poolEngine struct{}

func (poolEngine) Name() string { return "poolsim" }

func (poolEngine) Generate(prop string, r *simrt.RNG, tier string, run int) *simrt.Scenario {
	switch prop {
	case "C21":
		return genC21(r, tier)
	case "C22":
		return genC22(r, tier)
	case "C23":
		return genC23(r, tier)
	case "C30":
		return genC30(r, tier, run)
	}
	return &simrt.Scenario{}
}

// Simplify proposes smaller scenarios beyond what the generic minimiser tries:
// deletion of single operations two levels down (an actor's step inside a
// concurrent phase, a member inside a group of a block or list).
func (poolEngine) Simplify(sc *simrt.Scenario) []*simrt.Scenario {
	var out []*simrt.Scenario
	for i := range sc.Ops {
		for j := range sc.Ops[i].Sub {
			n := len(sc.Ops[i].Sub[j].Sub)
			for k := 0; k < n && len(out) < 150; k++ {
				c := sc.Clone()
				sub := c.Ops[i].Sub[j].Sub
				c.Ops[i].Sub[j].Sub = append(sub[:k:k], sub[k+1:]...)
				out = append(out, c)
			}
		}
	}
	return out
}

func (poolEngine) Execute(t *testing.T, ctx *simrt.Ctx) *simrt.Violation {
	var viol *simrt.Violation
	simrt.InBubble(t, func() {
		if ctx.Sc.Property == "C30" {
			viol = runC30(ctx)
			return
		}
		r := &runner{prop: ctx.Sc.Property, ctx: ctx}
		viol = r.run()
	})
	return viol
}

func init() {
	e := poolEngine{}
	simrt.Register(&simrt.Info{Property: "C21", Engine: e,
		Rule: "non-trivial = at least 2 admissions, at least one refused push and at least one removal path (block, explicit removal, expiry sweep or rollback re-insertion) took effect",
		Nontrivial: func(sc *simrt.Scenario, r *simrt.Result) bool {
			p := r.Probes
			return p["admit"] >= 2 && p["push_refused"] >= 1 && p["blk_removed"]+p["rm_removed"]+p["swept"]+p["rollback_reinsert"] >= 1
		}})
	simrt.Register(&simrt.Info{Property: "C22", Engine: e,
		Rule: "non-trivial = at least one object admitted and checked and at least two refused",
		Nontrivial: func(sc *simrt.Scenario, r *simrt.Result) bool {
			return r.Probes["admission_checked"] >= 1 && r.Probes["refused"] >= 2
		}})
	simrt.Register(&simrt.Info{Property: "C23", Engine: e,
		Rule: "non-trivial = at least one non-empty list was checked and a filter or the ordering had work to do (aged, eth-signed, excluded or count-limited)",
		Nontrivial: func(sc *simrt.Scenario, r *simrt.Result) bool {
			p := r.Probes
			return p["list_nonempty"] >= 1 && p["list_skipped_aged"]+p["list_skipped_eth"]+p["list_excluded_pooled"]+p["list_full"]+p["list_eth_sender"] >= 1
		}})
	simrt.Register(&simrt.Info{Property: "C30", Engine: e,
		Rule: "non-trivial = at least one block/list where a limit, a group, a blacklisted or an expired member decided the outcome",
		Nontrivial: func(sc *simrt.Scenario, r *simrt.Result) bool {
			p := r.Probes
			return p["count_limit_hit"]+p["size_limit_hit"]+p["blacklist_skipped"]+p["expired_group_dropped"]+p["group_taken"] >= 1
		}})
}
