// Package poolsim checks the transaction pool and the block producer's
// transaction selection: C21 (pool bookkeeping), C22 (admission), C23 (lists
// handed to producers) run the real system/mempool module (timeline queue) on the
// real queue inside a synctest bubble against scripted blockchain / execs / rpc /
// p2p subscribers that answer from the harness's own world state; C30 runs the
// real solo consensus client (producer loop and AddTxsToBlock / CheckTxExpire)
// against a stub pool that returns generated lists.
package poolsim

import (
	"encoding/hex"
	"fmt"
	"strings"
	"sync"

	"github.com/33cn/chain33/common/address"
	"github.com/33cn/chain33/common/crypto"
	ecommon "github.com/ethereum/go-ethereum/common"
	"github.com/golang/protobuf/proto"

	_ "github.com/33cn/chain33/system" // register dapps, crypto, address drivers, mempool, consensus
	"github.com/33cn/chain33/system/address/eth"
	"github.com/33cn/chain33/system/crypto/secp256k1eth"
	cty "github.com/33cn/chain33/system/dapp/coins/types"
	"github.com/33cn/chain33/types"

	"verifsim/simrt"
)

// NAcc is the number of accounts the generators draw from.
const NAcc = 8

// account is one key with its two address forms. A base58 address and a 0x
// address derived from one key are two independent accounts for chain33.
type account struct {
	idx     int
	btcPriv crypto.PrivKey // secp256k1
	ethPriv crypto.PrivKey // secp256k1eth
	btcAddr string
	ethAddr string // lower-case 0x form
}

var (
	accOnce sync.Once
	accs    []*account
)

func accounts() []*account {
	accOnce.Do(func() {
		cb, err := crypto.Load(types.GetSignName("", types.SECP256K1), -1)
		simrt.Must(err, "load secp256k1")
		ce, err := crypto.Load(types.GetSignName("", types.SECP256K1ETH), -1)
		simrt.Must(err, "load secp256k1eth")
		for i := 0; i < NAcc; i++ {
			b, _ := hex.DecodeString(fmt.Sprintf("%064x", 0x7100+i*17))
			a := &account{idx: i}
			a.btcPriv, err = cb.PrivKeyFromBytes(b)
			simrt.Must(err, "btc key")
			a.ethPriv, err = ce.PrivKeyFromBytes(b)
			simrt.Must(err, "eth key")
			a.btcAddr = address.PubKeyToAddr(0, a.btcPriv.PubKey().Bytes())
			a.ethAddr = strings.ToLower(address.PubKeyToAddr(eth.ID, a.ethPriv.PubKey().Bytes()))
			accs = append(accs, a)
		}
	})
	return accs
}

func acc(i int64) *account {
	a := accounts()
	n := int(i) % len(a)
	if n < 0 {
		n += len(a)
	}
	return a[n]
}

// sign modes
const (
	signBtc    = 0 // secp256k1, base58 sender address
	signEth    = 1 // secp256k1eth + eth address id: "eth-signed"
	signBtcEth = 2 // secp256k1 signature with the eth address id: 0x sender, not eth-signed
	nSignModes = 3
)

// address forms (an identity is an account in one form)
const (
	formBtc = 0
	formEth = 1
)

type ident struct {
	acc  int
	form int
}

func (id ident) String() string {
	if id.form == formBtc {
		return fmt.Sprintf("acc%d/base58", id.acc)
	}
	return fmt.Sprintf("acc%d/0x", id.acc)
}

// spellings of an account's address
const (
	spBtc      = 0 // base58
	spEthLower = 1 // 0x + lower-case hex
	spEthUpper = 2 // 0x + upper-case hex digits
	spEthMixed = 3 // EIP-55 mixed case
	spEth0X    = 4 // "0X" prefix
	spEthBare  = 5 // no prefix
	nSpellings = 6
)

var spellingNames = []string{"base58", "0x-lower", "0x-upper", "0x-mixed", "0X-prefix", "no-prefix"}

func spell(a *account, sp int64) (addr string, form int) {
	switch sp % nSpellings {
	case spBtc:
		return a.btcAddr, formBtc
	case spEthLower:
		return a.ethAddr, formEth
	case spEthUpper:
		return "0x" + strings.ToUpper(a.ethAddr[2:]), formEth
	case spEthMixed:
		return ecommon.HexToAddress(a.ethAddr).Hex(), formEth
	case spEth0X:
		return "0X" + a.ethAddr[2:], formEth
	default:
		return a.ethAddr[2:], formEth
	}
}

// recipient kinds
const (
	toAccount   = 0 // an account, spelled as given
	toExec      = 1 // the execer's contract address
	toGarbage   = 2 // not an address at all
	toBadSum    = 3 // base58 address with one character changed
	toShortHex  = 4 // 0x + 38 hex digits
	toEmpty     = 5
	toBadPrefix = 6 // base58 payload with a foreign version byte
	nToKinds    = 7
)

// exec kinds
const (
	exCoins    = 0 // coins transfer to the recipient
	exNone     = 1 // "none" executor
	exEvmCall  = 2 // evm call: contract address = target account
	exEvmXfer  = 3 // evm pure transfer: 20-byte raw target in para
	exParaEvm  = 4 // user.p.pool.evm call (parachain execer seen by a main-chain node)
	exUserData = 5 // user.write style opaque payload
	nExecKinds = 6
)

// expire kinds (resolved against the world when the transaction is built)
const (
	expNone      = 0
	expHeightOK  = 1 // height > next height
	expHeightOld = 2 // height <= next height: expired for the next block
	expTimeOK    = 3 // time comfortably in the future
	expTimeOld   = 4 // time <= last block time: expired for the next block
	expTimeSoon  = 5 // after the last block time but within a minute from now (the pool may refuse; not certainly expired)
	expTxHOK     = 6 // tx-height form, next height inside the allowed window
	expTxHEarly  = 7 // tx-height form, window not yet open
	expTxHLate   = 8 // tx-height form, window already closed
	nExpKinds    = 9
)

// fee modes
const (
	feeExact    = 0 // exactly the required fee at the rate in force when built
	feeGenerous = 1 // enough at the highest tier
	feeLowBy1   = 2 // one unit below the required fee
	feeBaseOnly = 3 // exact at the base rate (too low when a higher tier is in force)
	feeZero     = 4
	nFeeModes   = 5
)

// signature defects
const (
	sigOK       = 0
	sigFlip     = 1 // one signature byte changed
	sigNil      = 2 // no signature at all
	sigStale    = 3 // content changed after signing
	sigOtherKey = 4 // public key of another account
	sigEmptySig = 5 // signature bytes missing, public key present
	nSigDefects = 6
)

// op layout of a transaction spec: K="tx", I as below.
const (
	fFrom = iota
	fSign
	fToKind
	fToAcc
	fToSpell
	fNonce
	fFee
	fExp
	fExpArg
	fSig
	fExec
	fTarget
	fTargetSpell
	fPad
	nFields
)

type txSpec struct {
	from, sign                int64
	toKind, toAcc, toSpell    int64
	nonce                     int64
	fee                       int64
	exp, expArg               int64
	sig                       int64
	exec, target, targetSpell int64
	pad                       int64
}

func (s *txSpec) op() simrt.Op {
	return simrt.Op{K: "tx", I: []int64{s.from, s.sign, s.toKind, s.toAcc, s.toSpell, s.nonce, s.fee, s.exp, s.expArg, s.sig, s.exec, s.target, s.targetSpell, s.pad}}
}

func specOf(op *simrt.Op) *txSpec {
	return &txSpec{from: op.Int(fFrom), sign: mod(op.Int(fSign), nSignModes), toKind: mod(op.Int(fToKind), nToKinds), toAcc: op.Int(fToAcc), toSpell: mod(op.Int(fToSpell), nSpellings),
		nonce: op.Int(fNonce), fee: mod(op.Int(fFee), nFeeModes), exp: mod(op.Int(fExp), nExpKinds), expArg: op.Int(fExpArg), sig: mod(op.Int(fSig), nSigDefects),
		exec: mod(op.Int(fExec), nExecKinds), target: op.Int(fTarget), targetSpell: mod(op.Int(fTargetSpell), nSpellings), pad: op.Int(fPad)}
}

func mod(v, n int64) int64 {
	v %= n
	if v < 0 {
		v += n
	}
	return v
}

// involved is an account a transaction touches, with where and how it is spelled.
type involved struct {
	id       ident
	position string // from / to / evm-contract / evm-para
	spelling string
}

// member is the harness's knowledge about one transaction (a single one or a
// member of a group), all of it by construction, none of it asked from chain33.
type member struct {
	tx       *types.Transaction
	spec     *txSpec
	hash     string
	from     string // sender address as the pool keys it
	fromID   ident
	ethSign  bool // eth-signed sender (nonce rules apply)
	paraExec bool // parachain execer
	sigOK    bool
	toValid  bool
	touches  []involved
	expire   int64
}

// built is a submitted object: a single transaction or a group.
type built struct {
	id      int
	members []*member
	entry   *types.Transaction // what is sent to the pool and what the pool stores
	hash    string             // hash of the entry (= hash of the first member)
	group   bool
	feeMode int64
	feeRate int64 // rate the fee was computed for
	parses  bool  // group whose header hash parses as a protobuf message
	twin    bool  // group sharing its non-head members with another group
}

func (b *built) head() *member { return b.members[0] }

func (b *built) shape(i int) string {
	if !b.group {
		return "single"
	}
	if i == 0 {
		return "group-head"
	}
	return "group-member"
}

// worldView is what building a transaction needs to know about the world.
type worldView struct {
	chainID   int32
	height    int64 // last block height
	blockTime int64 // last block time
	now       int64
	minRate   int64 // base fee rate
	rate      int64 // rate in force (tiered)
	maxRate   int64 // highest tier
}

const paraTitle = "user.p.pool."

func execName(kind int64) string {
	switch kind {
	case exCoins:
		return "coins"
	case exNone:
		return "none"
	case exEvmCall, exEvmXfer:
		return "evm"
	case exParaEvm:
		return paraTitle + "evm"
	default:
		return "user.write"
	}
}

// makeUnsigned builds the unsigned transaction of a spec and records what it
// touches. Fee, group fields and signature are set by the caller.
func makeUnsigned(s *txSpec, w *worldView) *member {
	m := &member{spec: s, sigOK: s.sig == sigOK, toValid: true}
	a := acc(s.from)
	exec := execName(s.exec)
	tx := &types.Transaction{Execer: []byte(exec), Nonce: s.nonce, ChainID: w.chainID}
	// recipient
	var toID *involved
	switch s.toKind {
	case toAccount:
		addr, form := spell(acc(s.toAcc), s.toSpell)
		tx.To = addr
		toID = &involved{id: ident{acc(s.toAcc).idx, form}, position: "to", spelling: spellingNames[s.toSpell]}
	case toExec:
		tx.To = address.ExecAddress(exec)
	case toGarbage:
		tx.To = "not-an-address-" + fmt.Sprint(s.toAcc)
		m.toValid = false
	case toBadSum:
		b := []byte(acc(s.toAcc).btcAddr)
		i := 3 + int(mod(s.toSpell, 20))
		if b[i] == 'x' {
			b[i] = 'y'
		} else {
			b[i] = 'x'
		}
		tx.To = string(b)
		m.toValid = false
	case toShortHex:
		tx.To = acc(s.toAcc).ethAddr[:40]
		m.toValid = false
	case toEmpty:
		tx.To = ""
		m.toValid = false
	case toBadPrefix:
		// a well-formed base58check string whose version byte is neither the normal
		// nor the multi-signature one
		tx.To = foreignVersionAddr(acc(s.toAcc))
		m.toValid = false
	}
	// payload
	pad := make([]byte, int(s.pad))
	for i := range pad {
		pad[i] = byte(int64(i)*7 + s.nonce)
	}
	switch s.exec {
	case exCoins:
		v := &cty.CoinsAction_Transfer{Transfer: &types.AssetsTransfer{Amount: 1 + mod(s.nonce, 1000), To: tx.To, Note: pad}}
		tx.Payload = types.Encode(&cty.CoinsAction{Value: v, Ty: cty.CoinsActionTransfer})
	case exEvmCall, exParaEvm:
		addr, form := spell(acc(s.target), s.targetSpell)
		act := &types.EVMContractAction4Chain33{Amount: 0, GasLimit: 100000, GasPrice: 1, Para: append([]byte{0xa9, 0x05, 0x9c, 0xbb}, pad...), ContractAddr: addr}
		tx.Payload = types.Encode(act)
		m.touches = append(m.touches, involved{id: ident{acc(s.target).idx, form}, position: "evm-contract", spelling: spellingNames[s.targetSpell]})
	case exEvmXfer:
		raw := ecommon.HexToAddress(acc(s.target).ethAddr).Bytes()
		act := &types.EVMContractAction4Chain33{Amount: 5, GasLimit: 100000, GasPrice: 1, Para: raw, ContractAddr: address.ExecAddress(exec)}
		tx.Payload = types.Encode(act)
		m.touches = append(m.touches, involved{id: ident{acc(s.target).idx, formEth}, position: "evm-para", spelling: "raw20"})
	default:
		tx.Payload = append([]byte(fmt.Sprintf("data-%d-", s.nonce)), pad...)
	}
	if toID != nil {
		m.touches = append(m.touches, *toID)
	}
	// expiry
	arg := mod(s.expArg, 50)
	next := w.height + 1
	switch s.exp {
	case expNone:
	case expHeightOK:
		tx.Expire = next + 1 + arg
	case expHeightOld:
		tx.Expire = next - arg
		if tx.Expire < 1 {
			tx.Expire = 1
		}
	case expTimeOK:
		tx.Expire = w.now + 120 + arg*30
	case expTimeOld:
		tx.Expire = w.blockTime - arg
	case expTimeSoon:
		tx.Expire = w.blockTime + 1 + mod(arg, 50)
	case expTxHOK:
		tx.Expire = types.TxHeightFlag + next + arg - 20
	case expTxHEarly:
		tx.Expire = types.TxHeightFlag + next + types.LowAllowPackHeight + 1 + arg
	case expTxHLate:
		h := next - types.HighAllowPackHeight - 1 - arg
		if h < 1 {
			h = 1
		}
		tx.Expire = types.TxHeightFlag + h
	}
	m.expire = tx.Expire
	m.paraExec = strings.HasPrefix(exec, "user.p.")
	// sender identity
	switch s.sign {
	case signBtc:
		m.fromID = ident{a.idx, formBtc}
		m.from = a.btcAddr
	default:
		m.fromID = ident{a.idx, formEth}
		m.from = a.ethAddr
		m.ethSign = s.sign == signEth
	}
	m.touches = append(m.touches, involved{id: m.fromID, position: "from", spelling: []string{"secp256k1", "secp256k1eth", "secp256k1+0x"}[s.sign]})
	m.tx = tx
	return m
}

func foreignVersionAddr(a *account) string {
	// re-encode the hash160 of the account under version byte 0x30
	ba, err := address.NewBtcAddress(a.btcAddr)
	simrt.Must(err, "NewBtcAddress")
	x := &address.Address{Version: 0x30}
	x.SetBytes(ba.Hash160[:])
	return x.String()
}

func signTy(mode int64) int32 {
	switch mode {
	case signBtc:
		return types.SECP256K1
	case signEth:
		return types.EncodeSignID(secp256k1eth.ID, eth.ID)
	default:
		return types.EncodeSignID(types.SECP256K1, eth.ID)
	}
}

// signMember signs m.tx and then applies the spec's signature defect.
func signMember(m *member) {
	s := m.spec
	a := acc(s.from)
	priv := a.btcPriv
	if s.sign == signEth {
		priv = a.ethPriv
	}
	tx := m.tx
	tx.Sign(signTy(s.sign), priv)
	switch s.sig {
	case sigFlip:
		b := append([]byte(nil), tx.Signature.Signature...)
		b[len(b)/2] ^= 0x21
		tx.Signature = &types.Signature{Ty: tx.Signature.Ty, Pubkey: tx.Signature.Pubkey, Signature: b}
	case sigNil:
		// keep the public key so the sender is still defined; a transaction
		// without any Signature object is a separate defect kind
		tx.Signature = &types.Signature{Ty: tx.Signature.Ty, Pubkey: tx.Signature.Pubkey}
	case sigEmptySig:
		tx.Signature = &types.Signature{Ty: tx.Signature.Ty, Pubkey: tx.Signature.Pubkey, Signature: []byte{}}
	case sigStale:
		// signed content differs from the final content
		orig := tx.Payload
		tx.Payload = append(append([]byte(nil), orig...), 0x7f)
		tx.Sign(signTy(s.sign), priv)
		tx.Payload = orig
	case sigOtherKey:
		o := acc(s.from + 1)
		opriv := o.btcPriv
		if s.sign == signEth {
			opriv = o.ethPriv
		}
		// signature made by the right key, public key field of another account:
		// the sender becomes that other account
		tx.Signature = &types.Signature{Ty: tx.Signature.Ty, Pubkey: opriv.PubKey().Bytes(), Signature: tx.Signature.Signature}
		if s.sign == signBtc {
			m.from, m.fromID = o.btcAddr, ident{o.idx, formBtc}
		} else {
			m.from, m.fromID = o.ethAddr, ident{o.idx, formEth}
		}
		m.touches[len(m.touches)-1].id = m.fromID
	}
	m.hash = string(tx.Hash())
}

func kb(size int) int64 { return int64(size/1000 + 1) }

// requiredFee is the harness's own statement of the minimum fee: the rate per
// started 1000 bytes of every member.
func requiredFee(ms []*member, rate int64) int64 {
	var t int64
	for _, m := range ms {
		t += kb(proto.Size(m.tx)) * rate
	}
	return t
}

func wantFee(mode int64, ms []*member, w *worldView) int64 {
	switch mode {
	case feeExact:
		return requiredFee(ms, w.rate)
	case feeGenerous:
		return requiredFee(ms, w.maxRate) + 1000
	case feeLowBy1:
		return requiredFee(ms, w.rate) - 1
	case feeBaseOnly:
		return requiredFee(ms, w.minRate)
	default:
		return 0
	}
}

// buildSingle builds and signs one transaction.
func buildSingle(s *txSpec, w *worldView) *built {
	m := makeUnsigned(s, w)
	// first guess: the payload dominates the size
	m.tx.Fee = kb(len(m.tx.Payload)+220) * w.rate
	for i := 0; ; i++ {
		signMember(m)
		f := wantFee(s.fee, []*member{m}, w)
		if f == m.tx.Fee || i == 4 {
			break
		}
		m.tx.Fee = f
	}
	return &built{members: []*member{m}, entry: m.tx, hash: m.hash, feeMode: s.fee, feeRate: w.rate}
}

// headerParses reports whether a group's 32-byte header (the hash of its first
// member, carried by every member of the expanded group) happens to be a
// well-formed protobuf encoding of a Transactions message (about 0.2 % of all
// hashes are).
func headerParses(h []byte) bool {
	var t types.Transactions
	return types.Decode(h, &t) == nil
}

// buildGroup builds a signed transaction group from member specs (2..20). The
// fee mode is the first member's. wantParse selects whether the group's header
// hash parses as a protobuf message (see headerParses): the payload nonce of the
// first member that is not eth-signed is adjusted until it does / does not.
func buildGroup(specs []*txSpec, w *worldView, wantParse bool) *built {
	b := &built{group: true, feeMode: specs[0].fee, feeRate: w.rate}
	g := &types.Transactions{}
	for _, s := range specs {
		m := makeUnsigned(s, w)
		m.tx.GroupCount = int32(len(specs))
		b.members = append(b.members, m)
		g.Txs = append(g.Txs, m.tx)
	}
	for _, m := range b.members {
		g.Txs[0].Fee += kb(len(m.tx.Payload)+260) * w.rate
	}
	var adj *member
	for _, m := range b.members {
		if !m.ethSign {
			adj = m
			break
		}
	}
	settle := func() {
		g.RebuiltGroup()
		for tries := 0; adj != nil && tries < 100000 && headerParses(g.Txs[0].Header) != wantParse; tries++ {
			adj.tx.Nonce += 1000003
			g.RebuiltGroup()
		}
	}
	for i := 0; ; i++ {
		settle()
		for _, m := range b.members {
			signMember(m)
		}
		f := wantFee(b.feeMode, b.members, w)
		if f == g.Txs[0].Fee || i == 4 {
			break
		}
		g.Txs[0].Fee = f
	}
	b.parses = headerParses(g.Txs[0].Header)
	b.entry = g.Tx()
	b.hash = string(b.entry.Hash())
	return b
}

// buildTwin builds a second group that shares every member but the first with
// an existing group: the shared members are the same transactions (same hashes),
// re-signed because a member's signature covers the group header.
func buildTwin(of *built, head *txSpec, w *worldView) *built {
	if !of.group {
		return nil
	}
	b := &built{group: true, feeMode: feeGenerous, feeRate: w.rate}
	g := &types.Transactions{}
	hm := makeUnsigned(head, w)
	hm.tx.GroupCount = int32(len(of.members))
	b.members = append(b.members, hm)
	g.Txs = append(g.Txs, hm.tx)
	for _, om := range of.members[1:] {
		c := *om
		c.tx = types.CloneTx(om.tx)
		c.tx.Signature = nil
		c.touches = append([]involved(nil), om.touches...)
		b.members = append(b.members, &c)
		g.Txs = append(g.Txs, c.tx)
	}
	g.Txs[0].Fee = requiredFee(of.members, w.maxRate) + 200*w.maxRate
	g.RebuiltGroup()
	for tries := 0; !hm.ethSign && tries < 100000 && headerParses(g.Txs[0].Header); tries++ {
		hm.tx.Nonce += 1000003
		g.RebuiltGroup()
	}
	for _, m := range b.members {
		signMember(m)
	}
	b.entry = g.Tx()
	b.hash = string(b.entry.Hash())
	b.twin = true
	return b
}

func hx(h string) string {
	if len(h) > 6 {
		h = h[:6]
	}
	return hex.EncodeToString([]byte(h))
}
