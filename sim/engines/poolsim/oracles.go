package poolsim

import (
	"fmt"
	"sort"
	"time"

	mem "github.com/33cn/chain33/system/mempool"
	"github.com/33cn/chain33/types"
	"github.com/golang/protobuf/proto"

	"verifsim/simrt"
)

// ---------------------------------------------------------------------------
// C22: entered the pool => every admission condition held

func (r *runner) checkAdmission(pre *preState, submitted *built, accepted bool, appeared []string, blocked map[ident]bool, op *simrt.Op) *simrt.Violation {
	w := r.w
	ctx := r.ctx
	direct := op.K == "tx" || op.K == "group" || op.K == "resub" || op.K == "twin"
	if submitted != nil {
		for _, m := range submitted.members {
			for _, t := range m.touches {
				if blocked[t.id] && !accepted {
					ctx.Probe("blacklisted_refused")
					if !w.cfg.IsFork(pre.height+1, types.ForkAccountBlacklist) {
						ctx.Probe("blacklisted_refused_before_fork_height")
					}
				}
			}
		}
		in := false
		for _, h := range appeared {
			if h == submitted.hash {
				in = true
			}
		}
		switch {
		case accepted && in:
			ctx.Probe("admitted")
		case accepted && !in && pre.inPool[submitted.hash] && time.Now().Unix()-w.enterLo[submitted.hash] >= poolMaxAge:
			// the pooled copy had outlived its life time: the sweep may have removed it
			// while this submission was being checked, and the new copy took its place
			ctx.Probe("resubmitted_after_lifetime_of_pooled_copy")
		case accepted && !in && pre.inPool[submitted.hash]:
			// the reply says accepted, the object was already pooled: a second copy?
			return ctx.Violate("admitted-unacceptable", "already-in-pool/"+submitted.shape(0)+"/reply-ok", "object #%d %s was already in the pool and its resubmission was answered OK", submitted.id, hx(submitted.hash))
		case accepted && !in:
			ctx.Probe("reply_ok_but_absent")
		case !accepted && in:
			ctx.Probe("reply_err_but_present")
		default:
			ctx.Probe("refused")
		}
	}
	// a second copy of a pooled hash
	v := w.pool.VerifInvariantView()
	cnt := map[string]int{}
	for _, e := range v.Queue {
		cnt[e.Hash]++
		if cnt[e.Hash] == 2 {
			return ctx.Violate("admitted-unacceptable", "already-in-pool/queue-holds-two", "the pool holds %s twice after %s", hx(e.Hash), op.K)
		}
	}
	for _, h := range appeared {
		b := w.byHash[h]
		if b == nil {
			return ctx.Violate("admitted-unacceptable", "unknown-object", "the pool holds %s which the harness never built", hx(h))
		}
		// (direct: the object this operation submitted; everything else that shows up
		// was released by the pool itself or was still in flight, and was checked
		// against the pool state of an earlier moment)
		direct := direct && (submitted == nil || h == submitted.hash)
		how := ""
		if !direct {
			// not the object this operation submitted: released by the pool itself
			// (delayed transaction, retry) or an admission that was still in flight
			how = "/indirect"
			ctx.Probe("indirect_admission")
		}
		bad := func(clause string, i int, format string, a ...interface{}) *simrt.Violation {
			return ctx.Violate("admitted-unacceptable", clause+"/"+b.shape(i)+how, "object #%d %s entered the pool during %s although "+format+" ; object: %s", append([]interface{}{b.id, hx(b.hash), op.K}, append(a, describe(b))...)...)
		}
		w.mu.Lock()
		height, blockTime := w.hdr.height, w.hdr.blockTime
		chain := map[string]bool{}
		for _, m := range b.members {
			if w.onChain[m.hash] > 0 {
				chain[m.hash] = true
			}
		}
		w.mu.Unlock()
		for i, m := range b.members {
			if !m.sigOK {
				return bad("signature", i, "the signature of member %d does not verify (defect kind %d)", i, m.spec.sig)
			}
			if other, dup := pre.memberIn[m.hash]; dup && other != b.hash {
				return bad("already-in-pool", i, "member %d %s is already in the pool inside entry %s", i, hx(m.hash), hx(other))
			}
			if chain[m.hash] {
				return bad("on-chain", i, "member %d %s is already on the chain", i, hx(m.hash))
			}
			if expiredFor(m.expire, height, blockTime) {
				return bad("expired", i, "member %d has expire=%d which is expired for the block after height %d / time %d", i, m.expire, height, blockTime)
			}
			if !m.toValid {
				return bad("recipient", i, "the recipient %q of member %d is not a valid address (kind %d)", m.tx.To, i, m.spec.toKind)
			}
			for _, t := range m.touches {
				if blocked[t.id] {
					if !w.cfg.IsFork(height+1, types.ForkAccountBlacklist) {
						ctx.Probe("blacklisted_admitted_before_fork_height")
					}
					return ctx.Violate("admitted-unacceptable", "blacklist/"+t.position+"/"+t.spelling+"/"+b.shape(i)+how, "object #%d %s entered the pool although member %d touches blacklisted %s as %s spelled %s; object: %s", b.id, hx(b.hash), i, t.id, t.position, t.spelling, describe(b))
				}
			}
			if m.ethSign && !m.paraExec {
				cur, known := pre.evmNonce[m.from], pre.oracle == oracleAnswers
				if known && m.spec.nonce < cur {
					return bad("eth-nonce-low", i, "member %d is eth-signed by %s with nonce %d below the sender's current nonce %d", i, m.from, m.spec.nonce, cur)
				}
				if !known && m.spec.nonce < cur {
					ctx.Probe("low_nonce_admitted_oracle_unavailable")
				}
				pend := pre.pending[m.from][m.spec.nonce]
				if pend && !direct {
					// the operation (a block) may have removed the transaction that held the
					// nonce before this one was released into the pool: judge by what is in
					// the pool together with it now
					pend = false
					for _, oh := range w.content {
						if ob := w.byHash[oh]; ob != nil && oh != h {
							if hd := ob.head(); hd.ethSign && hd.from == m.from && hd.spec.nonce == m.spec.nonce {
								pend = true
							}
						}
					}
					if !pend {
						ctx.Probe("nonce_holder_left_with_the_block")
					}
				}
				if pend {
					return bad("eth-nonce-pending", i, "member %d is eth-signed by %s with nonce %d which is already pending in the pool", i, m.from, m.spec.nonce)
				}
			}
		}
		rate := pre.rate
		clause := "fee"
		if !direct {
			rate = w.cfg.GetMinTxFeeRate()
		} else if rate > w.cfg.GetMinTxFeeRate() {
			if b.entry.Fee >= requiredFee(b.members, w.cfg.GetMinTxFeeRate()) {
				clause = "fee-tier"
			}
		}
		if need := requiredFee(b.members, rate); b.entry.Fee < need {
			return bad(clause, 0, "its fee %d is below the minimum %d (rate %d per started 1000 bytes)", b.entry.Fee, need, rate)
		}
		if direct && len(appeared) == 1 {
			if c := pre.count[b.head().from]; int64(c) >= w.opts.perAccount {
				return bad("sender-limit", 0, "its sender %s already had %d pooled transactions (limit %d)", b.head().from, c, w.opts.perAccount)
			}
		}
		ctx.Probe("admission_checked")
	}
	return nil
}

// ---------------------------------------------------------------------------
// C23: lists handed to block producers

func (r *runner) checkList(lq *listQuery, v *mem.VerifView) *simrt.Violation {
	w := r.w
	ctx := r.ctx
	if lq.count <= 0 {
		ctx.Probe("list_nonpositive_count")
		if len(lq.txs) > 0 {
			return ctx.Violate("list-too-long", "nonpositive-count", "EventTxList(count=%d) returned %d transactions", lq.count, len(lq.txs))
		}
		return nil
	}
	if lq.errReply {
		ctx.Probe("list_error_reply")
		return nil
	}
	ctx.Probe("list_checked")
	if int64(len(lq.txs)) > lq.count {
		return ctx.Violate("list-too-long", "count", "EventTxList(count=%d) returned %d transactions", lq.count, len(lq.txs))
	}
	if int64(len(lq.txs)) == lq.count {
		ctx.Probe("list_full")
	}
	seen := map[string]bool{}
	lastArr := 0
	type ethRun struct {
		nonces []int64
	}
	eth := map[string]*ethRun{}
	var ethOrder []string
	for pos, tx := range lq.txs {
		h := string(tx.Hash())
		if seen[h] {
			return ctx.Violate("list-duplicate", "hash", "the list holds %s twice", hx(h))
		}
		seen[h] = true
		if lq.excluded[h] {
			return ctx.Violate("list-has-excluded", "hash", "the list holds %s which the caller excluded", hx(h))
		}
		b := w.byHash[h]
		if b == nil || !w.inPool[h] {
			return ctx.Violate("list-unknown-tx", "not-pooled", "the list holds %s at position %d which is not a pooled object", hx(h), pos)
		}
		for i, m := range b.members {
			if expiredFor(m.expire, lq.height, lq.blockTm) {
				kind := "height"
				if m.expire > types.TxHeightFlag {
					kind = "tx-height"
				} else if m.expire > 1000000000 {
					kind = "block-time"
				}
				return ctx.Violate("list-has-expired", kind+"/"+b.shape(i), "the list holds object #%d whose member %d has expire=%d, expired for the block after height %d / time %d", b.id, i, m.expire, lq.height, lq.blockTm)
			}
		}
		if age := lq.at - w.enterHi[h]; age >= poolMaxAge {
			return ctx.Violate("list-has-expired", "pool-age/"+b.shape(0), "the list holds object #%d which entered the pool at least %d s ago (life time %d s)", b.id, age, poolMaxAge)
		}
		hd := b.head()
		if hd.ethSign && !hd.paraExec {
			e := eth[hd.from]
			if e == nil {
				e = &ethRun{}
				eth[hd.from] = e
				ethOrder = append(ethOrder, hd.from)
			}
			e.nonces = append(e.nonces, hd.spec.nonce)
			continue
		}
		if a := w.arrival[h]; a < lastArr {
			return ctx.Violate("list-order", "arrival", "object #%d (arrival %d) is listed after an object that arrived later (%d)", b.id, a, lastArr)
		} else {
			lastArr = a
		}
	}
	sort.Strings(ethOrder)
	for _, from := range ethOrder {
		e := eth[from]
		ctx.Probe("list_eth_sender")
		for i := 1; i < len(e.nonces); i++ {
			if e.nonces[i] != e.nonces[i-1]+1 {
				return ctx.Violate("list-order", "eth-nonce-sequence", "eth-signed sender %s: nonces listed as %v, not consecutive ascending", from, e.nonces)
			}
		}
		if len(e.nonces) > 1 {
			ctx.Probe("list_eth_run_longer_than_1")
		}
		if lq.oracle == oracleAnswers {
			if cur := lq.nonces[from]; e.nonces[0] != cur {
				return ctx.Violate("list-order", "eth-nonce-start", "eth-signed sender %s: listed nonces %v do not start at the sender's current nonce %d", from, e.nonces, cur)
			}
		} else {
			ctx.Probe("list_eth_oracle_unavailable")
		}
	}
	// coverage: did the filter have something to do?
	for _, e := range v.Queue {
		if seen[e.Hash] {
			continue
		}
		if b := w.byHash[e.Hash]; b != nil {
			if lq.at-w.enterLo[e.Hash] >= poolMaxAge {
				ctx.Probe("list_skipped_aged")
			}
			if hd := b.head(); hd.ethSign && !hd.paraExec {
				ctx.Probe("list_skipped_eth")
			}
		}
	}
	return nil
}

// ---------------------------------------------------------------------------
// concurrent phase (C21)

// concurrent runs the actor scripts of a "conc" op under the seeded scheduler.
// Every actor step and every answer of the blockchain stub (duplicate check) -
// in open scenarios also of the execs stub - is one scheduling decision; between
// two decisions the pool's own goroutines run until everything is blocked.
func (r *runner) concurrent(op *simrt.Op) *simrt.Violation {
	w := r.w
	ctx := r.ctx
	s := simrt.NewSched(ctx)
	w.mu.Lock()
	saved := w.oracleMode
	w.oracleMode = oracleAnswers
	w.sched = s
	w.parkExec = r.open
	w.mu.Unlock()
	var viol *simrt.Violation
	nActors := 0
	for ai := range op.Sub {
		script := op.Sub[ai].Sub
		if op.Sub[ai].K != "actor" {
			continue
		}
		nActors++
		name := fmt.Sprintf("actor%02d", ai)
		s.Go(name, func(a *simrt.Actor) {
			for i := range script {
				if i > 0 {
					a.Yield(script[i].K)
				}
				// the call may return while other goroutines are running (several
				// timers can fire at one virtual instant): shared harness state is
				// touched again only after the scheduler has granted this actor
				line := r.concOp(&script[i])
				a.Yield("returned")
				if line != "" {
					ctx.Logf("  %s: %s", name, line)
				}
			}
		})
	}
	if nActors == 0 {
		w.mu.Lock()
		w.sched, w.oracleMode = nil, saved
		w.mu.Unlock()
		return nil
	}
	// an observer that looks at the pool's structures at scheduling points
	s.Go("observer", func(a *simrt.Actor) {
		for k := 0; k < 4*nActors && viol == nil; k++ {
			if v := r.checkStructure(w.pool.VerifInvariantView(), "a scheduling point of conc"); v != nil {
				viol = v
				return
			}
			ctx.Probe("observer_looked")
			a.Yield("look")
		}
	})
	dead := s.Run(4000)
	w.mu.Lock()
	w.sched, w.oracleMode = nil, saved
	w.mu.Unlock()
	simrt.Settle()
	if dead != "" {
		simrt.Failf("concurrent phase did not finish: %s", dead)
	}
	if nActors > 1 {
		ctx.Probe("concurrent_phase")
	}
	return viol
}

// live returns the pool's current entry hashes (used while the model is stale).
func (r *runner) live() []string {
	var out []string
	for _, e := range r.w.pool.VerifInvariantView().Queue {
		out = append(out, e.Hash)
	}
	return out
}

func (r *runner) concOp(op *simrt.Op) (line string) {
	w := r.w
	switch op.K {
	case "tx", "group", "twin":
		if b := w.buildOp(op); b != nil {
			ok, msg := w.submit(b.entry)
			return fmt.Sprintf("submit #%d %s -> %v %s", b.id, hx(b.hash), ok, msg)
		}
	case "resub":
		if b := w.ref(op.Int(0)); b != nil {
			ok, msg := w.submit(b.entry)
			return fmt.Sprintf("resubmit #%d %s -> %v %s", b.id, hx(b.hash), ok, msg)
		}
	case "addblk":
		var objs []*built
		have := map[string]bool{}
		cur := r.live()
		for i := range op.Sub {
			e := &op.Sub[i]
			var b *built
			switch e.K {
			case "pick":
				if len(cur) > 0 {
					b = w.byHash[cur[int(mod(e.Int(0), int64(len(cur))))]]
				}
			case "ref":
				if r.open { // a block may hold an object whose submission is still in flight
					b = w.ref(e.Int(0))
				}
			case "tx", "group":
				b = w.buildOp(e)
			}
			if b == nil || have[b.hash] {
				continue
			}
			dup := false
			w.mu.Lock()
			for _, m := range b.members {
				if w.onChain[m.hash] > 0 {
					dup = true
				}
			}
			w.mu.Unlock()
			if !dup {
				have[b.hash] = true
				objs = append(objs, b)
			}
		}
		blk := w.addBlock(objs, mod(op.Int(0), 1200))
		var ids []int
		for _, b := range objs {
			ids = append(ids, b.id)
		}
		return fmt.Sprintf("addblock h=%d objects %v", blk.Height, ids)
	case "rm":
		var hashes [][]byte
		cur := r.live()
		for i := range op.Sub {
			e := &op.Sub[i]
			switch e.K {
			case "pick":
				if len(cur) > 0 {
					hashes = append(hashes, []byte(cur[int(mod(e.Int(0), int64(len(cur))))]))
				}
			case "rand":
				hashes = append(hashes, []byte(fmt.Sprintf("absent-hash-%022d", e.Int(0))))
			}
		}
		w.call(types.EventDelTxList, &types.TxHashList{Hashes: hashes})
		return fmt.Sprintf("remove %d hashes", len(hashes))
	case "q":
		switch mod(op.Int(0), 4) {
		case 0:
			w.call(types.EventTxList, &types.TxHashList{Count: 1 + mod(op.Int(1), 6)})
		case 1:
			w.call(types.EventGetLastMempool, nil)
		case 2:
			w.call(types.EventGetMempoolSize, nil)
		case 3:
			a := acc(op.Int(1))
			w.call(types.EventGetAddrTxs, &types.ReqAddrs{Addrs: []string{a.btcAddr, a.ethAddr}})
		}
		return "query"
	}
	return ""
}

// checkStructure is the part of the bookkeeping invariants that can be read off
// one consistent snapshot (no messages): used at scheduling points.
func (r *runner) checkStructure(v *mem.VerifView, when string) *simrt.Violation {
	w := r.w
	ctx := r.ctx
	cur := map[string]bool{}
	var bytes, fee int64
	bySender := map[string][]string{}
	for _, e := range v.Queue {
		if cur[e.Hash] {
			return ctx.Violate("duplicate-hash", "queue", "at %s the queue holds hash %s twice", when, hx(e.Hash))
		}
		cur[e.Hash] = true
		bytes += int64(proto.Size(e.Tx))
		fee += e.Tx.Fee
		b := w.byHash[e.Hash]
		if b == nil {
			return ctx.Violate("unknown-entry", "queue", "at %s the pool holds %s which was never submitted", when, hx(e.Hash))
		}
		bySender[b.head().from] = append(bySender[b.head().from], e.Hash)
	}
	if int64(len(v.Queue)) > w.opts.capacity {
		return ctx.Violate("over-capacity", "queue", "at %s the pool holds %d transactions, capacity is %d", when, len(v.Queue), w.opts.capacity)
	}
	idx := map[string][]string{}
	for _, a := range v.Accounts {
		idx[a.Addr] = a.Hashes
		if _, ok := bySender[a.Addr]; !ok && len(a.Hashes) > 0 {
			return ctx.Violate("sender-index-mismatch", "index-content", "at %s the index lists %d transactions for %s, the pool holds none", when, len(a.Hashes), a.Addr)
		}
	}
	senders := make([]string, 0, len(bySender))
	for s := range bySender {
		senders = append(senders, s)
	}
	sort.Strings(senders)
	for _, s := range senders {
		if int64(len(bySender[s])) > w.opts.perAccount {
			return ctx.Violate("over-sender-limit", "queue", "at %s sender %s has %d pooled transactions, limit is %d", when, s, len(bySender[s]), w.opts.perAccount)
		}
		if !sameSet(idx[s], bySender[s]) {
			return ctx.Violate("sender-index-mismatch", "index-content", "at %s the index lists %s for %s, the pool holds %s", when, hxs(idx[s]), s, hxs(bySender[s]))
		}
	}
	for _, h := range v.Last {
		if !cur[h] {
			return ctx.Violate("latest-not-in-pool", "view", "at %s the latest-transactions list holds %s which is not in the pool", when, hx(h))
		}
	}
	if len(v.SHash) != len(v.Queue) {
		return ctx.Violate("short-hash-mismatch", "entry-count", "at %s the short-hash lookup has %d entries, the pool %d transactions", when, len(v.SHash), len(v.Queue))
	}
	for _, e := range v.SHash {
		if !cur[e.Hash] {
			return ctx.Violate("short-hash-mismatch", "stale-entry", "at %s the short-hash lookup maps %s to %s which is not in the pool", when, e.Short, hx(e.Hash))
		}
	}
	if v.CacheBytes != bytes {
		return ctx.Violate("bytes-mismatch", "view", "at %s cache bytes %d, the contents sum to %d", when, v.CacheBytes, bytes)
	}
	if v.TotalFee != fee {
		return ctx.Violate("fee-mismatch", "TotalFee", "at %s TotalFee()=%d, the contents' fees sum to %d", when, v.TotalFee, fee)
	}
	return nil
}
