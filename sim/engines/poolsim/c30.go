package poolsim

import (
	"fmt"
	"strings"
	"sync"
	"time"

	"github.com/33cn/chain33/common/address"
	"github.com/33cn/chain33/common/crypto"
	"github.com/33cn/chain33/consensus"
	"github.com/33cn/chain33/queue"
	"github.com/33cn/chain33/system/consensus/solo"
	"github.com/33cn/chain33/types"

	"verifsim/simnode"
	"verifsim/simrt"
)

// C30: blocks assembled by the real solo client from lists a stub pool hands it.

const c30Forks = `
[fork.system]
ForkChainParamV1=%d
ForkChainParamV2=0
ForkCheckTxDup=0
ForkBlockHash=1
ForkMinerTime=0
ForkTransferExec=0
ForkExecKey=0
ForkWithdraw=0
ForkTxGroup=0
ForkResetTx0=0
ForkExecRollback=0
ForkTxHeight=0
ForkCheckBlockTime=0
ForkMultiSignAddress=0
ForkStateDBSet=0
ForkBlockCheck=0
ForkLocalDBAccess=0
ForkTxGroupPara=0
ForkBase58AddressCheck=0
ForkEnableParaRegExec=0
ForkCacheDriver=0
ForkTicketFundAddrV1=0
ForkRootHash=1
ForkFormatAddressKey=0
ForkEthAddressFormat=0
ForkCheckEthTxSort=0
ForkProxyExec=0
ForkMaxTxFeeV1=0
ForkParaFee=-1
ForkAccountBlacklist=%d
ForkTxChainIDStrict=-1
[fork.sub.none]
ForkUseTimeDelay=0
[fork.sub.coins]
Enable=0
ForkFriendExecer=0
[fork.sub.manage]
Enable=0
ForkManageExec=0
ForkManageAutonomyEnable=-1
`

type c30World struct {
	ctx     *simrt.Ctx
	cfg     *types.Chain33Config
	maxA    int64 // transaction limit below the fork height
	maxB    int64 // ... from the fork height on
	forkH   int64
	blackH  int64 // -1: the blacklist rule never activates
	blocked map[ident]bool
	objs    map[string]*built // by member hash
}

func (w *c30World) limit(h int64) int64 {
	if h >= w.forkH {
		return w.maxB
	}
	return w.maxA
}

func (w *c30World) blacklistActive(h int64) bool { return w.blackH >= 0 && h >= w.blackH }

func c30Config(sc *simrt.Scenario) (*types.Chain33Config, *c30World) {
	w := &c30World{maxA: sc.Knob("maxA", 10), maxB: sc.Knob("maxB", 6), forkH: sc.Knob("forkH", 20), blackH: sc.Knob("blackH", -1), objs: map[string]*built{}}
	var addrs []string
	addrs, w.blocked = blacklistOf(sc)
	s := simnode.BaseToml("poolsim-c30")
	rep := func(old, new string) {
		if !strings.Contains(s, old) {
			simrt.Failf("config text %q not found", old)
		}
		s = strings.Replace(s, old, new, 1)
	}
	rep(`Title="local"`, "Title=\"poolsim\"\nDisableForkCheck=true")
	rep("[mver.consensus]\nfundKeyAddr = \"1BQXS6TxaYYG5mADaWij4AxhZZUTpw95a5\"\npowLimitBits = \"0x1f00ffff\"\nmaxTxNumber = 10000",
		fmt.Sprintf("[mver.consensus]\nfundKeyAddr = \"1BQXS6TxaYYG5mADaWij4AxhZZUTpw95a5\"\npowLimitBits = \"0x1f00ffff\"\nmaxTxNumber = %d", w.maxA))
	rep("[mver.consensus.ForkChainParamV1]\nmaxTxNumber = 10000", fmt.Sprintf("[mver.consensus.ForkChainParamV1]\nmaxTxNumber = %d", w.maxB))
	rep("[address.enableHeight]\neth=-2", "[address.enableHeight]\neth=0")
	if len(addrs) > 0 {
		q := make([]string, len(addrs))
		for i, a := range addrs {
			q[i] = fmt.Sprintf("%q", a)
		}
		rep("[address]", "[blacklist]\naccountBlacklist=["+strings.Join(q, ",")+"]\n\n[address]")
	}
	s += fmt.Sprintf(c30Forks, w.forkH, w.blackH)
	cfgMu.Lock()
	types.SetBlockedAccountsForTest(nil)
	cfg := types.NewChain33Config(s)
	cfgMu.Unlock()
	mcfg := cfg.GetModuleConfig()
	address.Init(mcfg.Address)
	address.VerifResetCaches()
	crypto.Init(mcfg.Crypto, cfg.GetSubConfig().Crypto)
	w.cfg = cfg
	// the configuration must say what the knobs say, otherwise the oracle is wrong
	for _, h := range []int64{0, w.forkH - 1, w.forkH, w.forkH + 5} {
		if h < 0 {
			continue
		}
		if got := cfg.GetP(h).MaxTxNumber; got != w.limit(h) {
			simrt.Failf("configuration: MaxTxNumber(%d)=%d, knobs say %d", h, got, w.limit(h))
		}
	}
	if w.blackH >= 0 && (!cfg.IsFork(w.blackH, types.ForkAccountBlacklist) || (w.blackH > 0 && cfg.IsFork(w.blackH-1, types.ForkAccountBlacklist))) {
		simrt.Failf("configuration: blacklist fork is not at %d", w.blackH)
	}
	return cfg, w
}

// entries builds the objects of a list op. viewH is the height of the block
// being assembled.
func (w *c30World) entries(sub []simrt.Op, h, blockTime int64) []*built {
	v := &worldView{chainID: w.cfg.GetChainID(), height: h - 1, blockTime: blockTime, now: time.Now().Unix(), minRate: 100000, rate: 100000, maxRate: 100000}
	var out []*built
	seen := map[string]bool{}
	for i := range sub {
		op := &sub[i]
		var b *built
		switch op.K {
		case "tx":
			b = buildSingle(specOf(op), v)
		case "group":
			var specs []*txSpec
			for j := range op.Sub {
				if op.Sub[j].K == "tx" {
					specs = append(specs, specOf(&op.Sub[j]))
				}
			}
			if len(specs) > 20 {
				specs = specs[:20]
			}
			if len(specs) >= 2 {
				b = buildGroup(specs, v, op.Int(0) == 1)
			} else if len(specs) == 1 {
				b = buildSingle(specs[0], v)
			}
		}
		if b == nil || seen[b.hash] {
			continue
		}
		dupMember := false
		for _, m := range b.members {
			if seen[m.hash] {
				dupMember = true
			}
		}
		if dupMember {
			continue
		}
		for _, m := range b.members {
			seen[m.hash] = true
			w.objs[m.hash] = b
		}
		out = append(out, b)
	}
	return out
}

func (w *c30World) touchesBlocked(b *built) (bool, string) {
	for i, m := range b.members {
		for _, t := range m.touches {
			if w.blocked[t.id] {
				return true, t.position + "/" + t.spelling + "/" + b.shape(i)
			}
		}
	}
	return false, ""
}

// checkTaken is the oracle on an assembled block: pre are the transactions the
// block held before, given the entries offered (in order), got the block's
// transactions afterwards.
func (w *c30World) checkTaken(mode string, h int64, pre int, given []*built, blk *types.Block) *simrt.Violation {
	ctx := w.ctx
	got := blk.Txs
	if int64(len(got)) > w.limit(h) {
		return ctx.Violate("over-tx-limit", mode, "block at height %d holds %d transactions, the limit for that height is %d (limits %d below / %d from fork height %d)", h, len(got), w.limit(h), w.maxA, w.maxB, w.forkH)
	}
	if sz := blk.Size(); sz > types.MaxBlockSize {
		return ctx.Violate("over-block-size", mode, "block at height %d has size %d, bound %d", h, sz, types.MaxBlockSize)
	}
	if len(got) < pre {
		return ctx.Violate("lost-transactions", mode, "block held %d transactions before and %d after", pre, len(got))
	}
	tail := got[pre:]
	gi := 0
	taken := 0
	for pos := 0; pos < len(tail); {
		hsh := string(tail[pos].Hash())
		b := w.objs[hsh]
		if b == nil {
			return ctx.Violate("foreign-transaction", mode, "block position %d holds a transaction that was not offered", pre+pos)
		}
		if b.members[0].hash != hsh {
			return ctx.Violate("group-split", mode+"/starts-inside", "block position %d holds member %s of a group of %d without the group's preceding members", pre+pos, hx(hsh), len(b.members))
		}
		// find b in the remaining given entries
		found := -1
		for k := gi; k < len(given); k++ {
			if given[k] == b {
				found = k
				break
			}
		}
		if found < 0 {
			for k := 0; k < gi; k++ {
				if given[k] == b {
					return ctx.Violate("order-changed", mode, "block position %d holds entry %d of the list after later entries", pre+pos, k)
				}
			}
			return ctx.Violate("foreign-transaction", mode, "block position %d holds an object that is not in this list", pre+pos)
		}
		gi = found + 1
		for i, m := range b.members {
			if pos+i >= len(tail) || string(tail[pos+i].Hash()) != m.hash {
				return ctx.Violate("group-split", fmt.Sprintf("%s/partial", mode), "group of %d starting at block position %d: member %d is missing or out of place (block has %d transactions)", len(b.members), pre+pos, i, len(got))
			}
		}
		if w.blacklistActive(h) {
			if hit, where := w.touchesBlocked(b); hit {
				return ctx.Violate("blacklisted-in-block", where, "block at height %d (blacklist active from %d) holds an object touching a blacklisted account: %s", h, w.blackH, describe(b))
			}
		}
		if b.group {
			ctx.Probe("group_taken")
		}
		pos += len(b.members)
		taken++
	}
	// coverage: why were the others not taken?
	if taken < len(given) {
		cnt := int64(pre)
		size := 0
		for _, b := range given {
			if hit, _ := w.touchesBlocked(b); hit && w.blacklistActive(h) {
				ctx.Probe("blacklist_skipped")
				continue
			}
			cnt += int64(len(b.members))
			for _, m := range b.members {
				size += m.tx.Size()
			}
		}
		if cnt > w.limit(h) {
			ctx.Probe("count_limit_hit")
		}
		if size > types.MaxBlockSize-200000 {
			ctx.Probe("size_limit_hit")
		}
	}
	for _, b := range given {
		if hit, _ := w.touchesBlocked(b); hit && !w.blacklistActive(h) {
			ctx.Probe("blacklisted_before_activation")
		}
	}
	return nil
}

func newSolo(cfg *types.Chain33Config) *solo.Client {
	m := consensus.New(cfg)
	c, ok := m.(*solo.Client)
	if !ok {
		simrt.Failf("consensus module is %T", m)
	}
	return c
}

func runC30(ctx *simrt.Ctx) *simrt.Violation {
	if d := time.Until(time.Unix(worldEpoch, 0)); d > 0 {
		time.Sleep(d)
	}
	cfg, w := c30Config(ctx.Sc)
	w.ctx = ctx
	defer types.SetBlockedAccountsForTest(nil)
	if ctx.Sc.Knob("loop", 0) == 1 {
		return w.runLoop(cfg)
	}
	return w.runDirect(cfg)
}

// runDirect calls AddTxsToBlock / CheckTxExpire on a real solo client object.
func (w *c30World) runDirect(cfg *types.Chain33Config) *simrt.Violation {
	ctx := w.ctx
	q := queue.New("channel")
	q.SetConfig(cfg)
	defer q.Close()
	cs := newSolo(cfg)
	cs.InitClient(q.Client(), func() {})
	var cur *types.Block
	var curGiven []*built
	var curPre int
	for i := range ctx.Sc.Ops {
		op := &ctx.Sc.Ops[i]
		ctx.CurOp = i
		ctx.Step()
		switch op.K {
		case "add":
			h := op.Int(0)
			if h < 1 {
				h = 1
			}
			bt := time.Now().Unix()
			given := w.entries(op.Sub, h, bt)
			var list []*types.Transaction
			for _, b := range given {
				list = append(list, b.entry)
			}
			if op.Int(2) == 1 && cur != nil && cur.Height == h {
				// a second fill of the same block
				ctx.Probe("second_fill")
				curGiven = append(curGiven, given...)
			} else {
				cur = &types.Block{Height: h, ParentHash: []byte("parent"), BlockTime: bt}
				// transactions the block holds before the call (e.g. a miner transaction)
				preObjs := w.entries(preOps(op.Int(1), h), h, bt)
				for _, b := range preObjs {
					if int64(len(cur.Txs)+len(b.members)) > w.limit(h) {
						break // a block never starts out above its limit
					}
					for _, m := range b.members {
						cur.Txs = append(cur.Txs, m.tx)
					}
				}
				curPre = len(cur.Txs)
				curGiven = given
			}
			before := len(cur.Txs)
			added := cs.AddTxsToBlock(cur, list)
			ctx.Logf("add h=%d pre=%d offered=%d -> block %d txs (+%d)", h, curPre, len(given), len(cur.Txs), len(cur.Txs)-before)
			ctx.State(simrt.DigestOf(len(cur.Txs), len(given), h >= w.forkH, w.blacklistActive(h)))
			if v := w.checkTaken("direct", h, curPre, curGiven, cur); v != nil {
				return v
			}
			if len(added) != len(cur.Txs)-before {
				return ctx.Violate("return-mismatch", "direct", "AddTxsToBlock returned %d added transactions, the block grew by %d", len(added), len(cur.Txs)-before)
			}
		case "expire":
			h := op.Int(0)
			bt := time.Now().Unix() - op.Int(1)%1000
			given := w.entries(op.Sub, h, bt)
			var flat []*types.Transaction
			for _, b := range given {
				for _, m := range b.members {
					flat = append(flat, m.tx)
				}
			}
			in := append([]*types.Transaction(nil), flat...)
			out := cs.CheckTxExpire(in, h, bt)
			ctx.Logf("expire h=%d bt=%d in=%d -> %d", h, bt, len(flat), len(out))
			if v := w.checkExpire(h, bt, given, out); v != nil {
				return v
			}
		}
	}
	return nil
}

// preOps makes n plain transactions a block holds before it is filled.
func preOps(n, h int64) []simrt.Op {
	var ops []simrt.Op
	for i := int64(0); i < mod(n, 4); i++ {
		s := &txSpec{from: 4, nonce: 900000 + h*10 + i, exec: exNone, toKind: toExec}
		ops = append(ops, s.op())
	}
	return ops
}

func (w *c30World) checkExpire(h, bt int64, given []*built, out []*types.Transaction) *simrt.Violation {
	ctx := w.ctx
	pos := 0
	for gi, b := range given {
		exp := false
		for _, m := range b.members {
			if h > 0 && bt > 0 && expiredFor(m.expire, h-1, bt) {
				exp = true
			}
		}
		present := 0
		for i, m := range b.members {
			if pos+present < len(out) && string(out[pos+present].Hash()) == m.hash {
				present++
			} else if present > 0 || i > 0 {
				// not all members follow each other
				break
			}
		}
		shape := "single"
		if b.group {
			shape = fmt.Sprintf("group")
		}
		switch {
		case present == 0:
			if !exp {
				// it may still appear later (order changed) - look for it
				for _, tx := range out[pos:] {
					if string(tx.Hash()) == b.members[0].hash {
						return ctx.Violate("order-changed", "expire/"+shape, "CheckTxExpire: entry %d appears after later entries", gi)
					}
				}
				return ctx.Violate("unexpired-dropped", "expire/"+shape, "CheckTxExpire(height=%d, time=%d) dropped entry %d which has no expired member: %s", h, bt, gi, describe(b))
			}
			if b.group {
				ctx.Probe("expired_group_dropped")
			} else {
				ctx.Probe("expired_single_dropped")
			}
		case present < len(b.members):
			return ctx.Violate("group-split", "expire/partial", "CheckTxExpire(height=%d, time=%d) kept %d of the %d members of group entry %d (expired member present: %v)", h, bt, present, len(b.members), gi, exp)
		default:
			if exp && b.group && b.parses {
				return ctx.Violate("expired-kept", "expire/group/header-parses", "CheckTxExpire(height=%d, time=%d) kept group entry %d which has an expired member; the group's header %x (hash of its first member, carried by every member) is a well-formed protobuf message: %s", h, bt, gi, b.members[0].tx.Header, describe(b))
			}
			if exp {
				return ctx.Violate("expired-kept", "expire/"+shape, "CheckTxExpire(height=%d, time=%d) kept entry %d which has an expired member: %s", h, bt, gi, describe(b))
			}
			pos += present
		}
	}
	if pos != len(out) {
		return ctx.Violate("foreign-transaction", "expire", "CheckTxExpire returned %d transactions, %d of them are the offered ones in order", len(out), pos)
	}
	return nil
}

// ---------------------------------------------------------------------------
// the producer loop

type loopList struct {
	given  []*built
	reject bool            // the chain refuses the block
	dups   map[string]bool // entries the chain reports as already included
	dropN  int             // transactions the chain's execution drops from the accepted block
}

func (w *c30World) runLoop(cfg *types.Chain33Config) *simrt.Violation {
	ctx := w.ctx
	q := queue.New("channel")
	q.SetConfig(cfg)
	var mu sync.Mutex
	h0 := ctx.Sc.Knob("height", 1)
	tip := &types.Block{Height: h0 - 1, BlockTime: time.Now().Unix() - 3, StateHash: []byte("s"), ParentHash: []byte("p"), Txs: []*types.Transaction{{Execer: []byte("none"), Payload: []byte("tip")}}}
	var lists []simrt.Op
	for i := range ctx.Sc.Ops {
		if ctx.Sc.Ops[i].K == "list" {
			lists = append(lists, ctx.Sc.Ops[i])
		}
	}
	next := 0 // next list to hand out
	var pending *loopList
	var pendingIdx int
	var viol *simrt.Violation
	blocks := 0
	served := 0
	var clients []queue.Client
	stub := func(topic string, hdl func(c queue.Client, msg *queue.Message)) {
		c := q.Client()
		c.Sub(topic)
		clients = append(clients, c)
		go func() {
			for msg := range c.Recv() {
				hdl(c, msg)
			}
		}()
	}
	stub("mempool", func(c queue.Client, msg *queue.Message) {
		switch msg.Ty {
		case types.EventTxList:
			req := msg.GetData().(*types.TxHashList)
			mu.Lock()
			var txs []*types.Transaction
			if viol == nil && next < len(lists) {
				op := &lists[next]
				h := tip.Height + 1
				ll := &loopList{given: w.entries(op.Sub, h, time.Now().Unix()), reject: op.Int(0) == 1, dropN: int(mod(op.Int(2), 3))}
				if int64(len(ll.given)) > req.Count {
					// a pool returns at most the requested number of entries
					ll.given = ll.given[:req.Count]
				}
				if req.Count == w.limit(h) {
					ctx.Probe("request_count_is_height_limit")
				}
				ll.dups = map[string]bool{}
				for k := 0; k < int(mod(op.Int(1), 3)) && len(ll.given) > 0; k++ {
					ll.dups[ll.given[int(mod(op.Int(1)/3+int64(k)*5, int64(len(ll.given))))].hash] = true
				}
				for _, b := range ll.given {
					txs = append(txs, b.entry)
				}
				pending, pendingIdx = ll, next
				if len(txs) == 0 {
					pending = nil
				}
				ctx.CurOp = next
				next++
				served++
			} else {
				pending = nil
			}
			mu.Unlock()
			msg.Reply(c.NewMessage("consensus", types.EventReplyTxList, &types.ReplyTxList{Txs: txs}))
		case types.EventDelTxList:
			msg.Reply(c.NewMessage("", types.EventReply, &types.Reply{IsOk: true}))
		default:
			msg.Reply(c.NewMessage("", msg.Ty, types.ErrNotSupport))
		}
	})
	stub("blockchain", func(c queue.Client, msg *queue.Message) {
		switch msg.Ty {
		case types.EventGetLastBlock:
			mu.Lock()
			b := tip
			mu.Unlock()
			msg.Reply(c.NewMessage("", 0, b))
		case types.EventIsSync:
			msg.Reply(c.NewMessage("", types.EventReplyIsSync, &types.IsCaughtUp{Iscaughtup: true}))
		case types.EventTxHashList:
			req := msg.GetData().(*types.TxHashList)
			var dups [][]byte
			mu.Lock()
			if pending != nil {
				isDup := pending.dups
				for _, hsh := range req.Hashes {
					if isDup[string(hsh)] {
						dups = append(dups, hsh)
					}
				}
				// the producer must not pack what the chain reports as included
				var keep []*built
				for _, b := range pending.given {
					if !isDup[b.hash] {
						keep = append(keep, b)
					}
				}
				if len(keep) < len(pending.given) {
					ctx.Fault("chain_reports_duplicates")
				}
				pending.given = keep
			}
			mu.Unlock()
			msg.Reply(c.NewMessage("", types.EventTxHashListReply, &types.TxHashList{Hashes: dups}))
		case types.EventAddBlockDetail:
			bd := msg.GetData().(*types.BlockDetail)
			blk := bd.Block
			mu.Lock()
			blocks++
			ll := pending
			pending = nil
			var v *simrt.Violation
			if ll == nil {
				v = ctx.Violate("foreign-transaction", "loop/no-list", "the producer handed over a block at height %d without having been given a list", blk.Height)
			} else {
				ctx.CurOp = pendingIdx
				if blk.Height != tip.Height+1 {
					v = ctx.Violate("wrong-height", "loop", "block at height %d on tip %d", blk.Height, tip.Height)
				} else {
					ctx.Logf("loop block h=%d txs=%d offered=%d", blk.Height, len(blk.Txs), len(ll.given))
					ctx.State(simrt.DigestOf(len(blk.Txs), len(ll.given), blk.Height >= w.forkH, w.blacklistActive(blk.Height)))
					v = w.checkTaken("loop", blk.Height, 0, ll.given, blk)
				}
			}
			if v != nil && viol == nil {
				viol = v
			}
			if ll == nil || ll.reject || v != nil {
				if ll != nil && ll.reject {
					ctx.Fault("chain_rejects_block")
				}
				mu.Unlock()
				msg.Reply(c.NewMessage("", types.EventAddBlockDetail, types.ErrBlockExist))
				return
			}
			out := types.Clone(blk).(*types.Block)
			// execution may drop transactions (whole objects from the end)
			for d := 0; d < ll.dropN && len(out.Txs) > 1; d++ {
				last := w.objs[string(out.Txs[len(out.Txs)-1].Hash())]
				if last == nil || len(last.members) >= len(out.Txs) {
					break
				}
				out.Txs = out.Txs[:len(out.Txs)-len(last.members)]
				ctx.Fault("execution_drops_txs")
			}
			out.StateHash = []byte(fmt.Sprintf("s%d", out.Height))
			tip = out
			mu.Unlock()
			msg.Reply(c.NewMessage("", types.EventAddBlockDetail, &types.BlockDetail{Block: out}))
		default:
			msg.Reply(c.NewMessage("", msg.Ty, types.ErrNotSupport))
		}
	})
	cs := newSolo(cfg)
	cs.SetQueueClient(q.Client())
	t0 := time.Now()
	idle := 0
	for step := 0; step < 40*(len(lists)+2); step++ {
		time.Sleep(500 * time.Millisecond)
		simrt.Settle()
		mu.Lock()
		if next >= len(lists) {
			idle++
		}
		done := viol != nil || (next >= len(lists) && (pending == nil || idle > 8))
		mu.Unlock()
		if done {
			break
		}
	}
	time.Sleep(1500 * time.Millisecond)
	simrt.Settle()
	ctx.AddSimTime(time.Since(t0))
	cs.GetBaseClient().Close()
	for _, c := range clients {
		c.Close()
	}
	q.Close()
	mu.Lock()
	defer mu.Unlock()
	if viol == nil && served < len(lists) {
		simrt.Failf("producer loop consumed %d of %d lists (blocks %d)", served, len(lists), blocks)
	}
	ctx.CurOp = len(ctx.Sc.Ops)
	return viol
}
