package poolsim

import (
	"verifsim/simrt"
)

// gen carries what the generators remember while they build a scenario.
type gen struct {
	r         *simrt.RNG
	nonce     int64       // unique payload nonce for non-eth transactions
	senders   int         // transactions come from accounts 0..senders-1
	blocked   []int       // blacklisted account indexes (distinct from the usual senders)
	ethNonce  [NAcc]int64 // the senders' current nonces as the scenario sets them
	ethNext   [NAcc]int64 // next unused nonce per sender
	pDefect   int         // chance (percent) that a generated transaction violates one admission condition
	eth       bool
	open      bool
	nObjs     int
	lastGroup int // 1-based index of the most recent group object
}

func (g *gen) clean(from int64) *txSpec {
	r := g.r
	g.nonce++
	s := &txSpec{from: from, nonce: g.nonce, fee: feeExact}
	if r.Chance(1, 3) {
		s.fee = feeGenerous
	}
	if g.eth {
		switch r.Weighted(70, 22, 8) {
		case 1:
			s.sign = signEth
		case 2:
			s.sign = signBtcEth
		}
	}
	if s.sign == signEth {
		// evm nonces: at or shortly after the sender's current nonce
		a := mod(from, NAcc)
		if g.ethNext[a] < g.ethNonce[a] {
			g.ethNext[a] = g.ethNonce[a]
		}
		switch r.Weighted(70, 15, 15) {
		case 0: // the next consecutive nonce
			s.nonce = g.ethNext[a]
		case 1: // leave a gap
			s.nonce = g.ethNext[a] + int64(r.Range(1, 2))
		case 2: // somewhere at or after the current nonce (may be pending already)
			s.nonce = g.ethNonce[a] + int64(r.Intn(4))
		}
		if s.nonce >= g.ethNext[a] {
			g.ethNext[a] = s.nonce + 1
		}
	}
	s.toKind = toAccount
	if r.Chance(1, 8) {
		s.toKind = toExec
	}
	s.toAcc = int64(r.Intn(5))
	if r.Chance(1, 2) {
		s.toSpell = int64(r.Range(1, nSpellings-1))
	}
	switch r.Weighted(55, 12, 11, 8, 6, 8) {
	case 1:
		s.exec = exNone
	case 2:
		s.exec = exEvmCall
	case 3:
		s.exec = exEvmXfer
	case 4:
		s.exec = exParaEvm
	case 5:
		s.exec = exUserData
	}
	s.target = int64(r.Intn(5))
	s.targetSpell = int64(r.Intn(nSpellings))
	switch r.Weighted(60, 12, 10, 8, 10) {
	case 1:
		s.exp = expHeightOK
	case 2:
		s.exp = expTimeOK
	case 3:
		s.exp = expTxHOK
	case 4:
		s.exp = expTimeSoon
	}
	s.expArg = int64(r.Intn(50))
	switch r.Weighted(70, 20, 8, 2) {
	case 0:
		s.pad = int64(r.Intn(200))
	case 1:
		s.pad = int64(r.Range(700, 1200)) // around the 1000-byte fee step
	case 2:
		s.pad = int64(r.Range(1800, 4200))
	case 3:
		s.pad = int64(r.Range(9000, 21000))
	}
	return s
}

// defect makes the spec violate one admission condition (name returned).
func (g *gen) defect(s *txSpec) string {
	r := g.r
	kinds := []string{"sig", "expired", "fee", "recipient", "blacklist", "nonce"}
	k := kinds[r.Intn(len(kinds))]
	switch k {
	case "sig":
		s.sig = int64(r.Range(1, nSigDefects-1))
	case "expired":
		s.exp = []int64{expHeightOld, expTimeOld, expTxHEarly, expTxHLate}[r.Intn(4)]
		s.expArg = int64(r.Intn(6))
	case "fee":
		s.fee = []int64{feeLowBy1, feeLowBy1, feeBaseOnly, feeZero}[r.Intn(4)]
	case "recipient":
		s.toKind = int64(r.Range(toGarbage, nToKinds-1))
	case "blacklist":
		if len(g.blocked) == 0 {
			s.sig = sigFlip
			return "sig"
		}
		b := int64(g.blocked[r.Intn(len(g.blocked))])
		switch r.Intn(4) {
		case 0:
			s.from = b
			if g.eth {
				s.sign = int64(r.Intn(nSignModes))
			}
			if s.sign == signEth {
				s.nonce = g.ethNonce[mod(b, NAcc)]
			}
		case 1:
			s.toKind, s.toAcc, s.toSpell = toAccount, b, int64(r.Intn(nSpellings))
		case 2:
			s.exec = []int64{exEvmCall, exParaEvm}[r.Intn(2)]
			s.target, s.targetSpell = b, int64(r.Intn(nSpellings))
		case 3:
			s.exec, s.target = exEvmXfer, b
		}
	case "nonce":
		if !g.eth {
			s.exp, s.expArg = expHeightOld, 0
			return "expired"
		}
		s.sign = signEth
		cur := g.ethNonce[mod(s.from, NAcc)]
		if cur > 0 && r.Chance(1, 2) {
			s.nonce = cur - 1 - int64(r.Intn(int(cur)))
			if s.nonce < 0 {
				s.nonce = 0
			}
		} else {
			s.nonce = cur // likely pending already when another one with it was admitted
		}
	}
	return k
}

func (g *gen) spec() *txSpec {
	s := g.clean(int64(g.r.Intn(g.senders)))
	if g.r.Intn(100) < g.pDefect {
		g.defect(s)
		if g.r.Chance(1, 12) {
			g.defect(s)
		}
	}
	return s
}

func (g *gen) txOp() simrt.Op {
	g.nObjs++
	return g.spec().op()
}

func (g *gen) groupOp(maxN int) simrt.Op {
	g.nObjs++
	g.lastGroup = g.nObjs
	n := g.r.Range(2, maxN)
	op := simrt.Op{K: "group"}
	bad := -1
	if g.r.Intn(100) < g.pDefect {
		bad = g.r.Intn(n)
	}
	for i := 0; i < n; i++ {
		s := g.clean(int64(g.r.Intn(g.senders)))
		if i > 0 && s.sign == signEth && !g.open {
			// eth-signed senders behind the head of a group: the pool looks at the
			// head's nonce only; generated in open scenarios
			s.sign = signBtcEth
			g.nonce++
			s.nonce = g.nonce
		}
		if i == bad {
			k := g.defect(s)
			if i > 0 && s.sign == signEth && !g.open {
				s.sign = signBtcEth
			}
			if k == "fee" && i > 0 {
				// the group's fee is decided by its first member's mode
				s.fee = feeExact
				s.sig = sigFlip
			}
		}
		op.Sub = append(op.Sub, s.op())
	}
	return op
}

// twinOp: a group that shares its non-head members with the most recent group
// (open scenarios only).
func (g *gen) twinOp() simrt.Op {
	save := g.pDefect
	g.pDefect = 0
	s := g.clean(int64(g.r.Intn(g.senders)))
	g.pDefect = save
	s.sign = signBtc
	g.nonce++
	s.nonce = g.nonce
	s.fee = feeGenerous
	ref := int64(g.nObjs)
	if g.lastGroup > 0 {
		ref = int64(g.lastGroup - 1)
	}
	g.nObjs++
	return simrt.Op{K: "twin", I: []int64{ref}, Sub: []simrt.Op{s.op()}}
}

func (g *gen) blacklistOp(min int) (simrt.Op, bool) {
	n := g.r.Range(min, 2)
	if n == 0 {
		return simrt.Op{}, false
	}
	op := simrt.Op{K: "blacklist"}
	for i := 0; i < n; i++ {
		a := 5 + g.r.Intn(NAcc-5)
		sp := g.r.Intn(4) // base58, 0x lower, 0x upper, 0x mixed
		op.Sub = append(op.Sub, simrt.Op{K: "id", I: []int64{int64(a), int64(sp)}})
		g.blocked = append(g.blocked, a)
		if g.r.Chance(1, 3) { // both forms of the same key
			op.Sub = append(op.Sub, simrt.Op{K: "id", I: []int64{int64(a), int64((sp + 1) % 2)}})
		}
	}
	return op, true
}

func (g *gen) picks(n int, withRef, withRand bool) []simrt.Op {
	var out []simrt.Op
	for i := 0; i < n; i++ {
		switch {
		case withRand && g.r.Chance(1, 4):
			out = append(out, simrt.Op{K: "rand", I: []int64{int64(g.r.Intn(1000))}})
		case withRef && g.r.Chance(1, 4):
			out = append(out, simrt.Op{K: "ref", I: []int64{int64(g.r.Intn(g.nObjs + 1))}})
		default:
			out = append(out, simrt.Op{K: "pick", I: []int64{int64(g.r.Intn(64))}})
		}
	}
	return out
}

func (g *gen) addblk(fresh bool, withRef bool) simrt.Op {
	op := simrt.Op{K: "addblk", I: []int64{int64(g.r.Weighted(40, 40, 20) * g.r.Range(1, 200))}}
	op.Sub = g.picks(g.r.Range(0, 4), withRef, false)
	if fresh && g.r.Chance(1, 2) {
		save := g.pDefect
		g.pDefect = 0
		if g.r.Chance(1, 4) {
			op.Sub = append(op.Sub, g.groupOp(4))
		} else {
			op.Sub = append(op.Sub, g.txOp())
		}
		g.pDefect = save
	}
	return op
}

func (g *gen) sleep() simrt.Op {
	var ms int
	switch g.r.Weighted(45, 30, 15, 10) {
	case 0:
		ms = g.r.Range(1, 20000)
	case 1:
		ms = g.r.Range(20000, 130000)
	case 2:
		ms = g.r.Range(400000, 700000)
	case 3:
		ms = g.r.Range(540000, 660000)
	}
	return simrt.Op{K: "sleep", I: []int64{int64(ms)}}
}

func (g *gen) setnonce() simrt.Op {
	a := g.r.Intn(g.senders)
	n := g.ethNonce[a] + int64(g.r.Range(0, 3))
	if g.r.Chance(1, 5) {
		n = int64(g.r.Intn(6))
	}
	g.ethNonce[a] = n
	return simrt.Op{K: "setnonce", I: []int64{int64(a), n}}
}

func baseKnobs(r *simrt.RNG, sc *simrt.Scenario) {
	sc.Knobs["cap"] = int64(r.Range(1, 8))
	sc.Knobs["peracc"] = int64(r.Range(1, 3))
	sc.Knobs["maxlast"] = int64(r.Range(1, 4))
	sc.Knobs["maxtx"] = []int64{10, 20, 40}[r.Intn(3)]
	sc.Knobs["procs"] = int64(r.Range(1, 4))
	sc.Knobs["height"] = int64(r.Range(700, 5000))
	if r.Chance(1, 4) {
		sc.Knobs["levelfee"] = 1
	}
}

// ---------------------------------------------------------------------------

func genC21(r *simrt.RNG, tier string) *simrt.Scenario {
	sc := &simrt.Scenario{Knobs: map[string]int64{}}
	baseKnobs(r, sc)
	g := &gen{r: r, nonce: 1000, senders: r.Range(2, 5), pDefect: 12, eth: r.Chance(2, 3)}
	if r.Chance(1, 3) {
		sc.Knobs["open"] = 1
		g.open = true
	}
	if op, ok := g.blacklistOp(0); ok {
		sc.Ops = append(sc.Ops, op)
	}
	n := r.Range(20, 45)
	if tier != "quick" {
		n = r.Range(30, 80)
	}
	concLeft := r.Weighted(40, 40, 20)
	for i := 0; i < n; i++ {
		switch r.Weighted(34, 9, 7, 13, 5, 8, 9, 8, 3, 1, 3) {
		case 0:
			sc.Ops = append(sc.Ops, g.txOp())
		case 1:
			sc.Ops = append(sc.Ops, g.groupOp(5))
		case 2:
			sc.Ops = append(sc.Ops, simrt.Op{K: "resub", I: []int64{int64(r.Intn(g.nObjs + 1))}})
			if g.open && r.Chance(1, 3) {
				sc.Ops = append(sc.Ops, g.twinOp())
			}
		case 3:
			sc.Ops = append(sc.Ops, g.addblk(true, true))
		case 4:
			if r.Chance(1, 3) {
				// a reorganisation the blockchain has finished before the pool sees any of it
				ro := simrt.Op{K: "reorg", I: []int64{int64(r.Intn(3)), int64(r.Intn(600))}}
				for k, nb := 0, r.Range(1, 3); k < nb; k++ {
					ro.Sub = append(ro.Sub, simrt.Op{K: "nb", Sub: g.picks(r.Range(0, 3), false, false)})
				}
				sc.Ops = append(sc.Ops, ro)
				break
			}
			sc.Ops = append(sc.Ops, simrt.Op{K: "delblk"})
			if r.Chance(1, 3) {
				sc.Ops = append(sc.Ops, simrt.Op{K: "delblk"})
			}
		case 5:
			sc.Ops = append(sc.Ops, simrt.Op{K: "rm", Sub: g.picks(r.Range(0, 3), true, true)})
		case 6:
			sc.Ops = append(sc.Ops, g.sleep())
		case 7:
			sc.Ops = append(sc.Ops, simrt.Op{K: "q", I: []int64{int64(r.Intn(8)), int64(r.Intn(10)), int64(r.Intn(5000))}, Sub: g.picks(r.Range(0, 2), false, true)})
		case 8:
			sc.Ops = append(sc.Ops, g.setnonce())
		case 9:
			sc.Ops = append(sc.Ops, simrt.Op{K: "oracle", I: []int64{int64(r.Weighted(60, 30, 10))}})
		case 10:
			if concLeft > 0 {
				concLeft--
				sc.Ops = append(sc.Ops, g.conc())
			}
		}
	}
	if concLeft > 0 {
		sc.Ops = append(sc.Ops, g.conc())
	}
	return sc
}

// conc generates a concurrent phase: 2..4 actors with short scripts.
func (g *gen) conc() simrt.Op {
	r := g.r
	op := simrt.Op{K: "conc"}
	na := r.Range(2, 4)
	for a := 0; a < na; a++ {
		act := simrt.Op{K: "actor"}
		for i, n := 0, r.Range(2, 5); i < n; i++ {
			switch r.Weighted(45, 10, 10, 15, 10, 10) {
			case 0:
				act.Sub = append(act.Sub, g.txOp())
			case 1:
				act.Sub = append(act.Sub, g.groupOp(4))
			case 2:
				act.Sub = append(act.Sub, simrt.Op{K: "resub", I: []int64{int64(r.Intn(g.nObjs + 1))}})
			case 3:
				act.Sub = append(act.Sub, g.addblk(false, g.open))
			case 4:
				act.Sub = append(act.Sub, simrt.Op{K: "rm", Sub: g.picks(r.Range(1, 2), false, true)})
			case 5:
				act.Sub = append(act.Sub, simrt.Op{K: "q", I: []int64{int64(r.Intn(4)), int64(r.Intn(8))}})
			}
		}
		op.Sub = append(op.Sub, act)
	}
	return op
}

func genC22(r *simrt.RNG, tier string) *simrt.Scenario {
	sc := &simrt.Scenario{Knobs: map[string]int64{}}
	baseKnobs(r, sc)
	sc.Knobs["cap"] = int64(r.Range(2, 8))
	if r.Chance(2, 5) {
		sc.Knobs["levelfee"] = 1
	} else {
		delete(sc.Knobs, "levelfee")
	}
	g := &gen{r: r, nonce: 1000, senders: r.Range(2, 5), pDefect: 55, eth: r.Chance(3, 4)}
	if r.Chance(1, 3) {
		sc.Knobs["open"] = 1
		g.open = true
	}
	if op, ok := g.blacklistOp(1); ok {
		sc.Ops = append(sc.Ops, op)
	}
	sc.Knobs["blfork"] = int64(r.Intn(3))
	n := r.Range(25, 50)
	if tier != "quick" {
		n = r.Range(40, 90)
	}
	for i := 0; i < n; i++ {
		if r.Chance(1, 12) {
			// an honest transaction comes, is removed from the pool unmined, and its
			// body comes back under a forged signature
			save := g.pDefect
			g.pDefect = 0
			t := g.txOp()
			g.pDefect = save
			ref := int64(-1) // the object registered last
			sc.Ops = append(sc.Ops, t, simrt.Op{K: "rm", Sub: []simrt.Op{{K: "ref", I: []int64{ref}}}}, simrt.Op{K: "forge", I: []int64{ref, int64(r.Intn(NAcc))}})
			continue
		}
		switch r.Weighted(46, 14, 9, 6, 7, 3, 4, 2, 2, 4, 3) {
		case 0:
			sc.Ops = append(sc.Ops, g.txOp())
		case 1:
			sc.Ops = append(sc.Ops, g.groupOp([]int{4, 10, 20}[r.Weighted(70, 20, 10)]))
		case 2:
			sc.Ops = append(sc.Ops, simrt.Op{K: "resub", I: []int64{int64(r.Intn(g.nObjs + 1))}})
			if g.open && r.Chance(1, 3) {
				sc.Ops = append(sc.Ops, g.twinOp())
			}
		case 3:
			sc.Ops = append(sc.Ops, simrt.Op{K: "mark", I: []int64{int64(r.Intn(g.nObjs + 1)), int64(r.Intn(20)), int64(r.Weighted(85, 15))}})
			if r.Chance(2, 3) {
				sc.Ops = append(sc.Ops, simrt.Op{K: "resub", I: []int64{sc.Ops[len(sc.Ops)-1].I[0]}})
			}
		case 4:
			sc.Ops = append(sc.Ops, g.addblk(false, true))
		case 5:
			sc.Ops = append(sc.Ops, g.sleep())
		case 6:
			sc.Ops = append(sc.Ops, g.setnonce())
		case 7:
			sc.Ops = append(sc.Ops, simrt.Op{K: "oracle", I: []int64{int64(r.Weighted(60, 25, 15))}})
		case 8:
			sc.Ops = append(sc.Ops, simrt.Op{K: "execbad", I: []int64{int64(r.Intn(g.nObjs + 1)), 1}})
		case 9:
			g.nObjs++
			sc.Ops = append(sc.Ops, simrt.Op{K: "delay", I: []int64{int64(r.Intn(40)), int64(r.Intn(2)), int64(r.Weighted(60, 40))}, Sub: []simrt.Op{g.spec().op()}})
		case 10:
			sc.Ops = append(sc.Ops, simrt.Op{K: "rm", Sub: g.picks(r.Range(1, 3), false, false)})
		}
	}
	return sc
}

func genC23(r *simrt.RNG, tier string) *simrt.Scenario {
	sc := &simrt.Scenario{Knobs: map[string]int64{}}
	baseKnobs(r, sc)
	sc.Knobs["cap"] = int64(r.Range(4, 14))
	sc.Knobs["peracc"] = int64(r.Range(2, 6))
	delete(sc.Knobs, "levelfee")
	g := &gen{r: r, nonce: 1000, senders: r.Range(2, 5), pDefect: 6, eth: r.Chance(4, 5)}
	n := r.Range(25, 50)
	if tier != "quick" {
		n = r.Range(40, 90)
	}
	list := func() simrt.Op {
		count := int64(r.Range(1, int(sc.Knobs["cap"])+2))
		if r.Chance(1, 25) {
			count = int64(r.Range(-1, 0))
		}
		return simrt.Op{K: "q", I: []int64{0, count}, Sub: g.picks(r.Weighted(50, 25, 15, 10), false, true)}
	}
	for i := 0; i < n; i++ {
		if g.eth && r.Chance(1, 9) {
			// a burst of eth-signed transactions of one sender with consecutive
			// nonces (sometimes submitted out of order, sometimes with one missing)
			a := int64(r.Intn(g.senders))
			if g.ethNext[a] < g.ethNonce[a] {
				g.ethNext[a] = g.ethNonce[a]
			}
			k := r.Range(2, 4)
			order := r.Perm(k)
			if r.Chance(1, 2) {
				for j := range order {
					order[j] = j
				}
			}
			skip := -1
			if r.Chance(1, 4) {
				skip = r.Intn(k)
			}
			base := g.ethNext[a]
			for _, j := range order {
				if j == skip {
					continue
				}
				s := g.clean(a)
				s.sign, s.nonce, s.exp, s.fee = signEth, base+int64(j), expNone, feeGenerous
				if s.exec == exParaEvm {
					s.exec = exEvmCall
				}
				g.nObjs++
				sc.Ops = append(sc.Ops, s.op())
			}
			g.ethNext[a] = base + int64(k)
			continue
		}
		switch r.Weighted(40, 8, 20, 12, 8, 5, 2, 3, 2) {
		case 0:
			s := g.spec()
			if s.exp == expHeightOK {
				s.expArg = int64(r.Intn(3)) // expires within a few blocks
			}
			if s.exp == expTimeOK {
				s.expArg = int64(r.Intn(4))
			}
			g.nObjs++
			sc.Ops = append(sc.Ops, s.op())
		case 1:
			sc.Ops = append(sc.Ops, g.groupOp(4))
		case 2:
			sc.Ops = append(sc.Ops, list())
		case 3:
			sc.Ops = append(sc.Ops, g.sleep())
			if r.Chance(1, 2) {
				sc.Ops = append(sc.Ops, list())
			}
		case 4:
			sc.Ops = append(sc.Ops, g.addblk(false, false))
		case 5:
			sc.Ops = append(sc.Ops, g.setnonce())
		case 6:
			sc.Ops = append(sc.Ops, simrt.Op{K: "oracle", I: []int64{int64(r.Weighted(60, 25, 15))}})
		case 7:
			sc.Ops = append(sc.Ops, simrt.Op{K: "rm", Sub: g.picks(r.Range(1, 2), false, false)})
		case 8:
			sc.Ops = append(sc.Ops, simrt.Op{K: "delblk"})
		}
	}
	sc.Ops = append(sc.Ops, list())
	return sc
}

// ---------------------------------------------------------------------------
// C30

func (g *gen) c30Entry(loop bool, big bool, pExpired, pBlack int) simrt.Op {
	r := g.r
	mk := func() *txSpec {
		s := g.clean(int64(r.Intn(5)))
		s.sign = int64(r.Weighted(75, 15, 10))
		g.nonce++
		s.nonce = g.nonce
		s.fee = feeExact
		if loop && s.exec == exParaEvm {
			s.exec = exEvmCall
		}
		s.exp = []int64{expNone, expNone, expHeightOK, expTimeOK, expTxHOK}[r.Intn(5)]
		if r.Intn(100) < pExpired {
			s.exp = []int64{expHeightOld, expTimeOld, expTxHEarly, expTxHLate}[r.Intn(4)]
			s.expArg = int64(r.Intn(4))
		}
		if len(g.blocked) > 0 && r.Intn(100) < pBlack {
			b := int64(g.blocked[r.Intn(len(g.blocked))])
			switch r.Intn(4) {
			case 0:
				s.from = b
			case 1:
				s.toKind, s.toAcc, s.toSpell = toAccount, b, int64(r.Intn(nSpellings))
			case 2:
				s.exec, s.target, s.targetSpell = exEvmCall, b, int64(r.Intn(nSpellings))
			case 3:
				s.exec, s.target = exEvmXfer, b
			}
		}
		s.pad = int64(r.Intn(120))
		if big {
			s.pad = int64(r.Range(96000, 98500))
			if s.exec == exEvmXfer && s.target < 5 {
				s.exec = exUserData // the pure-transfer shape carries no padding
			}
		}
		return s
	}
	gs := 0
	if big {
		if r.Chance(1, 10) {
			gs = r.Range(2, 5)
		}
	} else {
		switch r.Weighted(60, 25, 10, 5) {
		case 1:
			gs = r.Range(2, 4)
		case 2:
			gs = r.Range(5, 12)
		case 3:
			gs = r.Range(13, 20)
		}
	}
	if gs == 0 {
		return mk().op()
	}
	op := simrt.Op{K: "group"}
	for i := 0; i < gs; i++ {
		op.Sub = append(op.Sub, mk().op())
	}
	if g.open && pExpired > 0 && r.Chance(1, 5) {
		op.I = []int64{1} // header hash that parses as a protobuf message
	}
	return op
}

func opTxCount(op *simrt.Op) int {
	if op.K == "group" {
		return len(op.Sub)
	}
	return 1
}

func genC30(r *simrt.RNG, tier string, run int) *simrt.Scenario {
	sc := &simrt.Scenario{Knobs: map[string]int64{}}
	g := &gen{r: r, nonce: 5000, eth: true}
	big := r.Chance(1, 20)
	loop := r.Chance(2, 5)
	if r.Chance(1, 3) {
		g.open = true
		sc.Knobs["open"] = 1
	}
	maxA, maxB := int64(r.Range(2, 30)), int64(r.Range(2, 30))
	forkH := int64(r.Range(4, 40))
	blackH := int64(-1)
	if r.Chance(3, 4) {
		blackH = forkH + int64(r.Range(-3, 3))
		if blackH < 1 {
			blackH = 1
		}
	}
	if big {
		maxA, maxB = 1000, 600
		sc.Knobs["big"] = 1
	}
	sc.Knobs["maxA"], sc.Knobs["maxB"], sc.Knobs["forkH"], sc.Knobs["blackH"] = maxA, maxB, forkH, blackH
	if op, ok := g.blacklistOp(1); ok {
		sc.Ops = append(sc.Ops, op)
	}
	limit := func(h int64) int64 {
		if h >= forkH {
			return maxB
		}
		return maxA
	}
	pick := func() int64 {
		c := []int64{forkH - 2, forkH - 1, forkH, forkH + 1, forkH + 3}
		if blackH > 0 {
			c = append(c, blackH-1, blackH, blackH+1)
		}
		h := c[r.Intn(len(c))]
		if h < 1 {
			h = 1
		}
		return h
	}
	fill := func(h int64, pExp, pBlack int) []simrt.Op {
		var ops []simrt.Op
		if big {
			// total payload around the block size bound
			n := r.Range(200, 224)
			for i := 0; i < n; {
				e := g.c30Entry(loop, true, 0, pBlack/4)
				i += opTxCount(&e)
				ops = append(ops, e)
			}
			return ops
		}
		target := int(limit(h)) + r.Range(-3, 4)
		if r.Chance(1, 6) {
			target = int(limit(h)) / 2
		}
		if target < 1 {
			target = 1
		}
		for n := 0; n < target; {
			e := g.c30Entry(loop, false, pExp, pBlack)
			n += opTxCount(&e)
			ops = append(ops, e)
		}
		return ops
	}
	if loop {
		sc.Knobs["loop"] = 1
		h := forkH - int64(r.Range(1, 4))
		if blackH > 0 && blackH < forkH && r.Chance(1, 2) {
			h = blackH - int64(r.Range(1, 2))
		}
		if h < 1 {
			h = 1
		}
		sc.Knobs["height"] = h
		n := r.Range(3, 8)
		if big {
			n = r.Range(1, 2)
		}
		for i := 0; i < n; i++ {
			op := simrt.Op{K: "list", I: []int64{int64(r.Weighted(88, 12)), int64(r.Weighted(70, 15, 15) * r.Range(1, 50)), int64(r.Weighted(80, 10, 10))}}
			op.Sub = fill(h, 0, 15)
			sc.Ops = append(sc.Ops, op)
			if op.I[0] == 0 {
				h++
			}
		}
		return sc
	}
	n := r.Range(4, 10)
	if big {
		n = r.Range(1, 2)
	}
	for i := 0; i < n; i++ {
		h := pick()
		if !big && r.Chance(1, 3) {
			op := simrt.Op{K: "expire", I: []int64{h, int64(r.Intn(100))}}
			if r.Chance(1, 12) {
				op.I[0] = 0 // height 0: nothing is treated as expired
			}
			op.Sub = fill(h, 25, 0)
			sc.Ops = append(sc.Ops, op)
			continue
		}
		op := simrt.Op{K: "add", I: []int64{h, int64(r.Weighted(60, 25, 10, 5)), 0}}
		op.Sub = fill(h, 0, 15)
		sc.Ops = append(sc.Ops, op)
		if r.Chance(1, 5) {
			op2 := simrt.Op{K: "add", I: []int64{h, 0, 1}}
			op2.Sub = fill(h, 0, 15)
			if len(op2.Sub) > 4 {
				op2.Sub = op2.Sub[:4]
			}
			sc.Ops = append(sc.Ops, op2)
		}
	}
	return sc
}
