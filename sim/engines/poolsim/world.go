package poolsim

import (
	"fmt"
	"sort"
	"strings"
	"sync"
	"time"

	"github.com/33cn/chain33/common"
	"github.com/33cn/chain33/common/address"
	"github.com/33cn/chain33/common/crypto"
	"github.com/33cn/chain33/mempool"
	"github.com/33cn/chain33/queue"
	nty "github.com/33cn/chain33/system/dapp/none/types"
	mem "github.com/33cn/chain33/system/mempool"
	"github.com/33cn/chain33/types"
	"github.com/golang/protobuf/proto"

	"verifsim/simnode"
	"verifsim/simrt"
)

// worldEpoch is the virtual instant the scenarios start at. The bubble clock
// starts in 2000, before the boundary (1e9) from which chain33 reads an expiry
// value as a time, so every run first sleeps to this epoch.
const worldEpoch = 1100000000

// poolMaxAge is the documented life time of a pooled transaction (ten minutes).
const poolMaxAge = 600

// oracle modes of the rpc nonce stub
const (
	oracleAnswers = 0
	oracleError   = 1 // replies with an error object (what rpc does when the query fails)
	oracleSilent  = 2 // never replies: the pool's two-second timeout decides
)

type poolOpts struct {
	capacity   int64
	perAccount int64
	maxLast    int64
	levelFee   bool
	maxTxNum   int64 // per-block transaction limit of the chain (drives the fee tiers)
	procNum    int
	height     int64
	blacklist  []string
	blFork     int64 // 0: blacklist fork active from height 0, 1: activates two blocks above the start height, 2: never
}

type header struct {
	height    int64
	blockTime int64
	stateHash []byte
}

// world is the scripted environment of one pool plus the harness's model.
type world struct {
	ctx  *simrt.Ctx
	opts poolOpts
	cfg  *types.Chain33Config
	q    queue.Queue
	cli  queue.Client
	pool *mem.Mempool
	subs []queue.Client

	mu         sync.Mutex
	hdr        header
	hdrStack   []header // headers below the current one (for rollbacks)
	reorgs     int
	blocks     []*types.Block // blocks added in this run, oldest first
	onChain    map[string]int // tx hash -> number of chain blocks holding it
	execBad    map[string]bool
	evmNonce   map[string]int64
	oracleMode int
	p2pTx      []string
	lastQuery  map[string]int
	oracleHits [3]int       // nonce queries that met the oracle in each mode since the last flush
	sched      *simrt.Sched // set during a concurrent phase: the blockchain stub parks before answering
	parkExec   bool         // ... and the execs stub too
	parkN      int

	t0 time.Time // pool creation instant (its minute ticker is aligned to it)

	// universe of generated objects
	all        []*built
	byHash     map[string]*built
	member     map[string]*built // member hash -> object
	memberObjs map[string]int    // member hash -> number of objects holding it

	// model of the pool as last observed
	content []string // entry hashes in queue order
	inPool  map[string]bool
	enterLo map[string]int64 // unix second bounds of the admission instant
	enterHi map[string]int64
	arrival map[string]int // admission sequence number
	arrSeq  int
}

func editToml(s string, o poolOpts) string {
	rep := func(old, new string) {
		if !strings.Contains(s, old) {
			simrt.Failf("config text %q not found", old)
		}
		s = strings.Replace(s, old, new, 1)
	}
	m := fmt.Sprintf("poolCacheSize=%d", o.capacity)
	rep("poolCacheSize=102400", m)
	rep("maxTxNumPerAccount=100000", fmt.Sprintf("maxTxNumPerAccount=%d\nmaxTxLast=%d\nisLevelFee=%v\nmaxTxFeeRate=10000000\nmaxTxFee=1000000000", o.perAccount, o.maxLast, o.levelFee))
	rep("[mver.consensus]\nfundKeyAddr = \"1BQXS6TxaYYG5mADaWij4AxhZZUTpw95a5\"\npowLimitBits = \"0x1f00ffff\"\nmaxTxNumber = 10000",
		fmt.Sprintf("[mver.consensus]\nfundKeyAddr = \"1BQXS6TxaYYG5mADaWij4AxhZZUTpw95a5\"\npowLimitBits = \"0x1f00ffff\"\nmaxTxNumber = %d", o.maxTxNum))
	rep("[mver.consensus.ForkChainParamV1]\nmaxTxNumber = 10000", fmt.Sprintf("[mver.consensus.ForkChainParamV1]\nmaxTxNumber = %d", o.maxTxNum))
	rep("[address.enableHeight]\neth=-2", "[address.enableHeight]\neth=0")
	if len(o.blacklist) > 0 {
		q := make([]string, len(o.blacklist))
		for i, a := range o.blacklist {
			q[i] = fmt.Sprintf("%q", a)
		}
		rep("[address]", "[blacklist]\naccountBlacklist=["+strings.Join(q, ",")+"]\n\n[address]")
	}
	return s
}

var cfgMu sync.Mutex

// newWorld builds the queue, the stubs and the real pool. Must run inside a bubble.
func newWorld(ctx *simrt.Ctx, o poolOpts) *world {
	if d := time.Until(time.Unix(worldEpoch, 0)); d > 0 {
		time.Sleep(d)
	}
	w := &world{ctx: ctx, opts: o, onChain: map[string]int{}, execBad: map[string]bool{}, evmNonce: map[string]int64{},
		byHash: map[string]*built{}, member: map[string]*built{}, memberObjs: map[string]int{}, inPool: map[string]bool{}, enterLo: map[string]int64{}, enterHi: map[string]int64{},
		arrival: map[string]int{}, lastQuery: map[string]int{}}
	toml := editToml(simnode.BaseToml("poolsim"), o)
	cfgMu.Lock()
	types.SetBlockedAccountsForTest(nil) // previous run's list must not leak in
	w.cfg = types.NewChain33Config(toml)
	cfgMu.Unlock()
	// the consensus-level blacklist fork; the pool is required to refuse at every height
	switch o.blFork {
	case 1:
		w.cfg.SetFork(types.ForkAccountBlacklist, o.height+2)
	case 2:
		w.cfg.SetFork(types.ForkAccountBlacklist, types.MaxHeight)
	}
	mcfg := w.cfg.GetModuleConfig()
	address.Init(mcfg.Address)
	address.VerifResetCaches()
	crypto.Init(mcfg.Crypto, w.cfg.GetSubConfig().Crypto)
	w.q = queue.New("channel")
	w.q.SetConfig(w.cfg)
	w.hdr = header{height: o.height, blockTime: time.Now().Unix() - 5, stateHash: []byte("state-0")}
	w.stub("blockchain", w.onBlockchain)
	w.stub("execs", w.onExecs)
	w.stub("rpc", w.onRPC)
	w.stub("p2p", w.onP2P)
	w.cli = w.q.Client()
	// (not restored afterwards: the pool's goroutines read the value while they
	// run, and every world sets it before it creates its pool)
	mem.VerifSetProcessNum(o.procNum)
	m := mempool.New(w.cfg)
	m.SetQueueClient(w.q.Client())
	p, ok := m.(*mem.Mempool)
	if !ok {
		simrt.Failf("mempool module is %T", m)
	}
	w.pool = p
	w.t0 = time.Now()
	p.Wait()
	simrt.Settle()
	return w
}

func (w *world) close() {
	w.pool.Close()
	for _, c := range w.subs {
		c.Close()
	}
	w.cli.Close()
	w.q.Close()
	types.SetBlockedAccountsForTest(nil)
}

func (w *world) stub(topic string, h func(c queue.Client, msg *queue.Message)) {
	c := w.q.Client()
	c.Sub(topic)
	w.subs = append(w.subs, c)
	go func() {
		for msg := range c.Recv() {
			h(c, msg)
		}
	}()
}

// parkIf makes a stub answer a scheduling decision during a concurrent phase:
// the answer is computed and sent by a separate task that the scheduler
// releases, so answers can overtake each other and other actors' operations.
func (w *world) parkIf(what string, f func()) {
	w.mu.Lock()
	s := w.sched
	if what == "exec" && !w.parkExec {
		s = nil
	}
	w.parkN++
	n := w.parkN
	w.mu.Unlock()
	if s == nil {
		f()
		return
	}
	go func() {
		s.Park(fmt.Sprintf("stub-%05d-%s", n, what), what)
		f()
	}()
}

func (w *world) onBlockchain(c queue.Client, msg *queue.Message) {
	switch msg.Ty {
	case types.EventGetLastHeader:
		w.mu.Lock()
		h := &types.Header{Height: w.hdr.height, BlockTime: w.hdr.blockTime, StateHash: w.hdr.stateHash}
		w.mu.Unlock()
		msg.Reply(c.NewMessage("", types.EventHeader, h))
	case types.EventIsSync:
		msg.Reply(c.NewMessage("", types.EventReplyIsSync, &types.IsCaughtUp{Iscaughtup: true}))
	case types.EventTxHashList:
		req := msg.GetData().(*types.TxHashList)
		hashes := append([][]byte(nil), req.Hashes...)
		w.parkIf("dup", func() {
			// answered from the world as it is when the answer is produced
			var dups [][]byte
			w.mu.Lock()
			for _, h := range hashes {
				if w.onChain[string(h)] > 0 {
					dups = append(dups, h)
				}
			}
			w.mu.Unlock()
			if w.ctx.Verbose {
				w.ctx.Logf("    chain stub: duplicate query for %d hashes (first %s) -> %d on chain", len(hashes), hx(string(hashes[0])), len(dups))
			}
			msg.Reply(c.NewMessage("", types.EventTxHashListReply, &types.TxHashList{Hashes: dups}))
		})
	default:
		msg.Reply(c.NewMessage("", msg.Ty, types.ErrNotSupport))
	}
}

func (w *world) onExecs(c queue.Client, msg *queue.Message) {
	if msg.Ty != types.EventCheckTx {
		msg.Reply(c.NewMessage("", msg.Ty, types.ErrNotSupport))
		return
	}
	req := msg.GetData().(*types.ExecTxList)
	var hs []string
	for _, tx := range req.Txs {
		hs = append(hs, string(tx.Hash()))
	}
	w.parkIf("exec", func() {
		res := &types.ReceiptCheckTxList{}
		w.mu.Lock()
		for _, h := range hs {
			if w.execBad[h] {
				res.Errs = append(res.Errs, "ErrExecRefused")
			} else {
				res.Errs = append(res.Errs, "")
			}
		}
		w.mu.Unlock()
		msg.Reply(c.NewMessage("", types.EventReceiptCheckTx, res))
	})
}

func (w *world) onRPC(c queue.Client, msg *queue.Message) {
	if msg.Ty != types.EventGetEvmNonce {
		return
	}
	req := msg.GetData().(*types.ReqEvmAccountNonce)
	w.mu.Lock()
	mode := w.oracleMode
	n := w.evmNonce[strings.ToLower(req.Addr)]
	w.lastQuery["nonce"]++
	w.oracleHits[mode]++
	w.mu.Unlock()
	switch mode {
	case oracleAnswers:
		msg.Reply(c.NewMessage("", types.EventGetEvmNonce, &types.EvmAccountNonce{Nonce: n, Addr: req.Addr}))
	case oracleError:
		msg.Reply(c.NewMessage("", types.EventGetEvmNonce, &types.Reply{IsOk: false, Msg: []byte("query failed")}))
	default:
	}
}

func (w *world) onP2P(c queue.Client, msg *queue.Message) {
	if msg.Ty == types.EventTxBroadcast {
		if tx, ok := msg.GetData().(*types.Transaction); ok {
			w.mu.Lock()
			w.p2pTx = append(w.p2pTx, string(tx.Hash()))
			w.mu.Unlock()
		}
	}
}

// ---------------------------------------------------------------------------
// requests

func (w *world) call(ty int64, data interface{}) *queue.Message {
	msg := w.cli.NewMessage("mempool", ty, data)
	simrt.Must(w.cli.Send(msg, true), "send to mempool")
	resp, err := w.cli.Wait(msg)
	if err != nil && resp == nil {
		simrt.Failf("wait mempool reply for %s: %v", types.GetEventName(int(ty)), err)
	}
	return resp
}

// send without waiting for the reply (AddBlock / DelBlock have none).
func (w *world) cast(ty int64, data interface{}) {
	msg := w.cli.NewMessage("mempool", ty, data)
	simrt.Must(w.cli.Send(msg, true), "send to mempool")
}

// submit sends a transaction and returns (accepted, error text).
func (w *world) submit(tx *types.Transaction) (bool, string) {
	resp := w.call(types.EventTx, tx)
	r, ok := resp.GetData().(*types.Reply)
	if !ok {
		return false, fmt.Sprintf("%T %v", resp.Data, resp.Data)
	}
	return r.IsOk, string(r.Msg)
}

// ---------------------------------------------------------------------------
// world state

func (w *world) view() *worldView {
	w.mu.Lock()
	defer w.mu.Unlock()
	v := &worldView{chainID: w.cfg.GetChainID(), height: w.hdr.height, blockTime: w.hdr.blockTime, now: time.Now().Unix(), minRate: w.cfg.GetMinTxFeeRate(), maxRate: w.cfg.GetMinTxFeeRate()}
	v.rate = v.minRate
	if w.opts.levelFee {
		v.maxRate = 100 * v.minRate
		v.rate = v.minRate * w.tier()
	}
	return v
}

// tier is the fee multiplier the documentation of the tiered fee describes:
// x100 when the pool holds a twentieth of the block size or half of a block's
// transaction count, x10 at a hundredth / a tenth, else x1.
func (w *world) tier() int64 {
	var bytes int64
	for _, h := range w.content {
		if b := w.byHash[h]; b != nil {
			bytes += int64(proto.Size(b.entry))
		}
	}
	n := int64(len(w.content))
	switch {
	case bytes >= int64(types.MaxBlockSize/20) || n >= w.opts.maxTxNum/2:
		return 100
	case bytes >= int64(types.MaxBlockSize/100) || n >= w.opts.maxTxNum/10:
		return 10
	}
	return 1
}

func (w *world) register(b *built) *built {
	if old := w.byHash[b.hash]; old != nil {
		return old // the same content generated twice is the same object
	}
	b.id = len(w.all)
	w.all = append(w.all, b)
	w.byHash[b.hash] = b
	for _, m := range b.members {
		if _, dup := w.member[m.hash]; !dup {
			w.member[m.hash] = b
		}
		w.memberObjs[m.hash]++
	}
	return b
}

func (w *world) ref(i int64) *built {
	if len(w.all) == 0 {
		return nil
	}
	return w.all[int(mod(i, int64(len(w.all))))]
}

// buildOp builds (and registers) the object of a "tx" or "group" op.
func (w *world) buildOp(op *simrt.Op) *built {
	v := w.view()
	switch op.K {
	case "tx":
		return w.register(buildSingle(specOf(op), v))
	case "twin":
		// I=[ref], Sub=[head spec]: a group sharing the non-head members of an earlier group
		of := w.ref(op.Int(0))
		if of == nil || !of.group || len(op.Sub) == 0 || op.Sub[0].K != "tx" {
			return nil
		}
		if t := buildTwin(of, specOf(&op.Sub[0]), v); t != nil {
			return w.register(t)
		}
		return nil
	case "group":
		var specs []*txSpec
		for i := range op.Sub {
			if op.Sub[i].K == "tx" {
				specs = append(specs, specOf(&op.Sub[i]))
			}
		}
		if len(specs) == 0 {
			return nil
		}
		if len(specs) == 1 {
			return w.register(buildSingle(specs[0], v))
		}
		if len(specs) > 20 {
			specs = specs[:20]
		}
		return w.register(buildGroup(specs, v, op.Int(0) == 1))
	}
	return nil
}

// addBlock connects a block holding txs on top of the world chain (the world is
// updated first, as the chain is when the pool gets the event) and tells the pool.
func (w *world) addBlock(objs []*built, dt int64) *types.Block {
	w.mu.Lock()
	w.hdrStack = append(w.hdrStack, w.hdr)
	nh := header{height: w.hdr.height + 1, blockTime: w.hdr.blockTime + dt, stateHash: []byte(fmt.Sprintf("state-%d-%d", w.hdr.height+1, len(w.blocks)))}
	if now := time.Now().Unix(); nh.blockTime > now {
		nh.blockTime = now
	}
	if nh.blockTime < w.hdr.blockTime {
		nh.blockTime = w.hdr.blockTime
	}
	blk := &types.Block{Height: nh.height, BlockTime: nh.blockTime, StateHash: nh.stateHash, ParentHash: []byte(fmt.Sprintf("parent-%d", w.hdr.height))}
	seen := map[string]bool{}
	for _, b := range objs {
		if seen[b.hash] {
			continue
		}
		seen[b.hash] = true
		for _, m := range b.members {
			blk.Txs = append(blk.Txs, m.tx)
			w.onChain[m.hash]++
		}
	}
	w.hdr = nh
	w.blocks = append(w.blocks, blk)
	w.mu.Unlock()
	w.cast(types.EventAddBlock, &types.BlockDetail{Block: blk})
	return blk
}

// carrier wraps tx into a "none" executor transaction that commits it as a
// delayed transaction (the block-embedded way of handing the pool a delayed
// transaction).
func (w *world) carrier(tx *types.Transaction, relTime, relHeight int64) *built {
	act := &nty.NoneAction{Ty: nty.TyCommitDelayTxAction, Value: &nty.NoneAction_CommitDelayTx{CommitDelayTx: &nty.CommitDelayTx{
		DelayTx: common.ToHex(types.Encode(tx)), RelativeDelayTime: relTime, RelativeDelayHeight: relHeight}}}
	c := &types.Transaction{Execer: []byte(nty.NoneX), Payload: types.Encode(act), Fee: 1000000, To: address.ExecAddress(nty.NoneX), Nonce: tx.Nonce + 7, ChainID: w.cfg.GetChainID()}
	c.Sign(types.SECP256K1, acc(4).btcPriv)
	return &built{id: -1, members: []*member{{tx: c, hash: string(c.Hash()), spec: &txSpec{}, sigOK: true, toValid: true}}, entry: c, hash: string(c.Hash())}
}

// delBlock disconnects the tip block added in this run, if any.
func (w *world) delBlock() *types.Block {
	w.mu.Lock()
	if len(w.blocks) == 0 {
		w.mu.Unlock()
		return nil
	}
	blk := w.blocks[len(w.blocks)-1]
	w.blocks = w.blocks[:len(w.blocks)-1]
	for _, tx := range blk.Txs {
		h := string(tx.Hash())
		if w.onChain[h]--; w.onChain[h] <= 0 {
			delete(w.onChain, h)
		}
	}
	w.hdr = w.hdrStack[len(w.hdrStack)-1]
	w.hdrStack = w.hdrStack[:len(w.hdrStack)-1]
	w.mu.Unlock()
	w.cast(types.EventDelBlock, &types.BlockDetail{Block: blk})
	return blk
}

// reorg models a reorganisation the blockchain has already completed when the
// pool gets to the first of its notifications: `depth` tip blocks are taken off
// and the given new blocks connected in the world first; only then are the
// EventDelBlock and EventAddBlock messages handed to the pool, in chain order.
// A header query of the pool in between already sees the final tip.
func (w *world) reorg(depth int, newObjs [][]*built, dt int64) (popped, added []*types.Block) {
	w.mu.Lock()
	for d := 0; d < depth && len(w.blocks) > 0; d++ {
		blk := w.blocks[len(w.blocks)-1]
		w.blocks = w.blocks[:len(w.blocks)-1]
		for _, tx := range blk.Txs {
			h := string(tx.Hash())
			if w.onChain[h]--; w.onChain[h] <= 0 {
				delete(w.onChain, h)
			}
		}
		w.hdr = w.hdrStack[len(w.hdrStack)-1]
		w.hdrStack = w.hdrStack[:len(w.hdrStack)-1]
		popped = append(popped, blk)
	}
	w.reorgs++
	for _, objs := range newObjs {
		w.hdrStack = append(w.hdrStack, w.hdr)
		nh := header{height: w.hdr.height + 1, blockTime: w.hdr.blockTime + dt, stateHash: []byte(fmt.Sprintf("state-%d-%d-r%d", w.hdr.height+1, len(w.blocks), w.reorgs))}
		if now := time.Now().Unix(); nh.blockTime > now {
			nh.blockTime = now
		}
		if nh.blockTime < w.hdr.blockTime {
			nh.blockTime = w.hdr.blockTime
		}
		blk := &types.Block{Height: nh.height, BlockTime: nh.blockTime, StateHash: nh.stateHash, ParentHash: []byte(fmt.Sprintf("parent-%d-r%d", w.hdr.height, w.reorgs))}
		for _, b := range objs {
			dup := false
			for _, m := range b.members {
				if w.onChain[m.hash] > 0 {
					dup = true
				}
			}
			if dup {
				continue
			}
			for _, m := range b.members {
				blk.Txs = append(blk.Txs, m.tx)
				w.onChain[m.hash]++
			}
		}
		w.hdr = nh
		w.blocks = append(w.blocks, blk)
		added = append(added, blk)
	}
	w.mu.Unlock()
	for _, blk := range popped {
		w.cast(types.EventDelBlock, &types.BlockDetail{Block: blk})
	}
	for _, blk := range added {
		w.cast(types.EventAddBlock, &types.BlockDetail{Block: blk})
	}
	return popped, added
}

// avoidTick keeps an operation that may wait on a virtual timeout while the pool
// lock is held (the nonce oracle's two seconds, per eth sender) away from the
// pool's minute ticker: a goroutine blocked on a sync.Mutex is not durably
// blocked, so the bubble's clock could not advance past the timeout and the run
// would hang. Sleeps to just after the next tick when too close.
func (w *world) avoidTick(margin time.Duration) {
	since := time.Since(w.t0) % time.Minute
	if time.Minute-since <= margin {
		d := time.Minute - since + 50*time.Millisecond
		time.Sleep(d)
		w.ctx.AddSimTime(d)
		simrt.Settle()
	}
}

// expiredFor reports whether a member with this expire value is certainly
// expired for the block after the current tip.
func expiredFor(expire, tipHeight, tipTime int64) bool {
	next := tipHeight + 1
	switch {
	case expire == 0:
		return false
	case expire <= 1000000000: // a height
		return expire <= next
	case expire > types.TxHeightFlag: // tx-height form: packable only inside its window
		th := expire - types.TxHeightFlag
		return next < th-types.LowAllowPackHeight || next > th+types.HighAllowPackHeight
	default: // a time: the next block cannot be earlier than the tip
		return expire <= tipTime
	}
}

func (w *world) expired(b *built) (bool, int) {
	w.mu.Lock()
	defer w.mu.Unlock()
	for i, m := range b.members {
		if expiredFor(m.expire, w.hdr.height, w.hdr.blockTime) {
			return true, i
		}
	}
	return false, 0
}

// ---------------------------------------------------------------------------
// observation

// flushFaults reports injected faults that actually fired (the nonce oracle
// failing or staying silent when the pool asked) to the run's counters.
func (w *world) flushFaults() {
	w.mu.Lock()
	h := w.oracleHits
	w.oracleHits = [3]int{}
	w.mu.Unlock()
	for i := 0; i < h[oracleError]; i++ {
		w.ctx.Fault("nonce_oracle_error")
	}
	for i := 0; i < h[oracleSilent]; i++ {
		w.ctx.Fault("nonce_oracle_silent")
	}
}

// observe reads the pool's contents (invariant view) and updates the model:
// which entries appeared and disappeared since the last observation.
func (w *world) observe(tBefore int64) (v *mem.VerifView, appeared, gone []string) {
	simrt.Settle()
	w.flushFaults()
	v = w.pool.VerifInvariantView()
	now := time.Now().Unix()
	cur := map[string]bool{}
	var content []string
	for _, e := range v.Queue {
		content = append(content, e.Hash)
		if cur[e.Hash] {
			continue
		}
		cur[e.Hash] = true
		if !w.inPool[e.Hash] {
			appeared = append(appeared, e.Hash)
			w.enterLo[e.Hash], w.enterHi[e.Hash] = tBefore, now
			w.arrSeq++
			w.arrival[e.Hash] = w.arrSeq
		}
	}
	for _, h := range w.content {
		if !cur[h] {
			gone = append(gone, h)
		}
	}
	sort.Strings(gone)
	w.content = content
	w.inPool = cur
	return v, appeared, gone
}

func (w *world) senderCount(addr string) int {
	n := 0
	for _, h := range w.content {
		if b := w.byHash[h]; b != nil && b.head().from == addr {
			n++
		}
	}
	return n
}
