// Package acctsim is the engine for C15: asset conservation of account.DB.
// The simulator owns the operation history, the spelling of every address
// argument (base58, and hex in lower / upper / checksum / 0X spellings of the
// same account, also inside one call), the amounts (0, 1, per-operation limit,
// balance limit, exact balance +-1) and the transaction boundaries of the
// underlying transactional KV (begin / commit / rollback the way an executor
// treats one transaction).
package acctsim

import (
	"fmt"
	"math"
	"math/big"
	"sort"
	"strings"
	"sync"
	"testing"

	"github.com/33cn/chain33/account"
	"github.com/33cn/chain33/common/address"
	dbm "github.com/33cn/chain33/common/db"
	_ "github.com/33cn/chain33/system/address" // register the btc / eth address drivers
	"github.com/33cn/chain33/types"
	ethcommon "github.com/ethereum/go-ethereum/common"

	"verifsim/simrt"
)

func init() {
	simrt.Register(&simrt.Info{
		Property: "C15", Engine: &c15{},
		Real: []string{"account.DB (coins ledger and a token ledger) — account.go, execaccount.go, genesis.go", "common/address FormatAddrKey + system/address btc and eth drivers", "common/db LocalDB (transactional KV: Begin/Commit/Rollback) over GoMemDB"},
		Stub: []string{"the executor is replaced by the harness: it opens a KV transaction per operation, commits on success, rolls back on error or panic, and applies receipt KVs to a replica"},
		Rule: "one case = one generated history of account operations over a pool of 9 accounts (3 base58, 3 hex with 4 spellings each, 3 executor addresses) on two ledgers; distinct = distinct history digest; non-trivial = at least 6 ops of which at least 3 succeeded and at least one was refused",
		Nontrivial: func(sc *simrt.Scenario, r *simrt.Result) bool {
			return len(sc.Ops) >= 6 && r.Probes["op_ok"] >= 3 && r.Probes["op_refused"] >= 1
		},
	})
}

type c15 struct{}

func (c15) Name() string { return "acctsim" }

// ---------------------------------------------------------------------------
// address pool

type acct struct {
	canon     string   // canonical identity (the lower-case spelling for hex)
	spellings []string // all spellings that must denote the same account
	exec      bool
	miner     bool // executor allowed to issue coins
}

var (
	poolOnce sync.Once
	pool     []*acct // 0..5 users, 6..8 executors
	cfg      *types.Chain33Config
)

const (
	nUsers = 6
	nExecs = 3
	nPool  = nUsers + nExecs
)

func hexSpellings(lower string) []string {
	body := lower[2:]
	return []string{
		lower,
		"0x" + strings.ToUpper(body),
		ethcommon.HexToAddress(lower).Hex(), // mixed-case checksum spelling
		"0X" + strings.ToUpper(body[:20]) + body[20:],
	}
}

func setup() {
	poolOnce.Do(func() {
		cfg = types.NewChain33Config(types.GetDefaultCfgstring())
		for i := 0; i < 3; i++ {
			pk := make([]byte, 33)
			pk[0] = 2
			for j := 1; j < 33; j++ {
				pk[j] = byte(17*i + j)
			}
			a := address.PubKeyToAddr(0, pk)
			pool = append(pool, &acct{canon: a, spellings: []string{a}})
		}
		for _, h := range []string{
			"0xabcdef0123456789abcdef0123456789abcdefab",
			"0x00a1b2c3d4e5f60718293a4b5c6d7e8f9aabbccd",
			"0xdeadbeefdeadbeefdeadbeefdeadbeefdeadbeef",
		} {
			pool = append(pool, &acct{canon: h, spellings: hexSpellings(h)})
		}
		t := address.ExecAddress("ticket")
		pool = append(pool, &acct{canon: t, spellings: []string{t}, exec: true, miner: true})
		tr := address.ExecAddress("trade")
		pool = append(pool, &acct{canon: tr, spellings: []string{tr}, exec: true})
		ev, err := address.GetExecAddress("evm", 2)
		simrt.Must(err, "eth exec address")
		ev = strings.ToLower(ev)
		pool = append(pool, &acct{canon: ev, spellings: hexSpellings(ev), exec: true})
		if len(pool) != nPool {
			simrt.Failf("pool size")
		}
		for _, a := range pool {
			for _, s := range a.spellings {
				if err := address.CheckAddress(s, -1); err != nil {
					simrt.Failf("pool address %q is not a valid address: %v", s, err)
				}
			}
		}
	})
}

func canonOf(s string) string {
	if len(s) == 42 && (s[:2] == "0x" || s[:2] == "0X") {
		return strings.ToLower(s)
	}
	return s
}

// ---------------------------------------------------------------------------
// generation

// op layout: K=kind, I = [ledger, a, sa, b, sb, x, sx, amode, aval]
//
//	a, b : pool index of the first / second account argument, sa, sb : spelling index
//	x    : pool index of the executor argument (execs are 6..8), sx its spelling
//	amode: 0 absolute amount aval; 1 = what the source can spend + aval;
//	       2 = room left under the balance limit at the destination + aval;
//	       3 = aval/8 of what the source can spend; 4 = min(aval, what the source can spend)
var kinds = []string{
	"transfer", "toexec", "withdraw", "frozen", "active", "exectransfer", "exectransferfrozen",
	"execdeposit", "execwithdraw", "execdepositfrozen", "execissue", "mint", "burn", "genesis", "genesisexec",
}

const perOpLimit = int64(1e17) // MaxCoin * coin precision: the largest "amount" + 1

func genAmount(r *simrt.RNG, spends bool) (mode, val int64) {
	w := []int{10, 3, 2, 2, 3, 2, 3, 0, 0}
	if spends {
		w = []int{2, 2, 1, 1, 6, 3, 2, 5, 12}
	}
	switch r.Weighted(w...) {
	case 0:
		return 0, int64(r.Range(1, 1000)) * 1e5
	case 1:
		return 0, []int64{0, 1, 2}[r.Intn(3)]
	case 2:
		return 0, perOpLimit + int64(r.Range(-2, 1))
	case 3:
		return 0, []int64{types.MaxTokenBalance, types.MaxTokenBalance - 1, types.MaxTokenBalance + 1, math.MaxInt64, types.MaxTokenBalance - perOpLimit + 1}[r.Intn(5)]
	case 4:
		return 1, int64(r.Range(-1, 1)) // exactly what is there, one less, one more
	case 5:
		return 1, -int64(r.Range(2, 5000))
	case 6:
		return 2, int64(r.Range(-1, 1))
	case 7:
		return 3, int64(r.Range(1, 7)) // k/8 of what is there
	default:
		return 4, int64(r.Range(1, 2000)) * 1e5 // a modest amount, capped by what is there
	}
}

var spendKinds = map[string]bool{"transfer": true, "toexec": true, "withdraw": true, "frozen": true, "active": true,
	"exectransfer": true, "exectransferfrozen": true, "execwithdraw": true, "burn": true}

func kindIndex(k string) int {
	for i, x := range kinds {
		if x == k {
			return i
		}
	}
	return 0
}

func (c15) Generate(prop string, r *simrt.RNG, tier string, run int) *simrt.Scenario {
	sc := &simrt.Scenario{Knobs: map[string]int64{}}
	// STRICT / OPEN. A mixed-case spelling of a hex EXECUTOR address addresses a
	// separate set of sub-accounts (execAccountKey uses the string as given): a
	// recorded known finding. STRICT scenarios (70 %) never spell an executor
	// address argument in anything but its canonical form, so whatever they report
	// is something else; OPEN scenarios (knob xcase=1) do, and every violation that
	// involves such a spelling carries "executor-in-other-spelling" in its sig.
	if r.Chance(3, 10) {
		sc.Knobs["xcase"] = 1
	}
	// twosp: one call may name the same account twice in two different spellings
	twosp := r.Chance(1, 3)
	if twosp {
		sc.Knobs["twosp"] = 1
	}
	nops := r.Range(4, 40)
	// a focus (ledger, executor, three accounts) makes operations meet funded accounts
	fl := 0
	if r.Chance(1, 4) {
		fl = 1
	}
	fx := nUsers + r.Intn(nExecs)
	fu := []int{r.Intn(nUsers), r.Intn(nUsers), r.Intn(nPool)}
	if twosp {
		fu[0] = 3 + r.Intn(3) // a hex account
	}
	pickUser := func() int {
		if r.Chance(4, 5) {
			return fu[r.Weighted(3, 2, 1)]
		}
		return r.Intn(nPool)
	}
	var script []int // funding prologue
	if r.Chance(5, 6) {
		script = []int{kindIndex("genesisexec"), kindIndex("genesis"), kindIndex("genesisexec"), kindIndex("frozen")}
		if r.Chance(1, 2) {
			script = []int{kindIndex("genesis"), kindIndex("toexec"), kindIndex("frozen"), kindIndex("mint")}
		}
	}
	for i := 0; i < nops; i++ {
		var k int
		if i < len(script) {
			k = script[i]
		} else {
			k = r.Weighted(8, 8, 6, 6, 6, 8, 8, 3, 3, 3, 2, 3, 3, 2, 3)
		}
		kind := kinds[k]
		a := pickUser()
		b := pickUser()
		if spendKinds[kind] && r.Chance(1, 2) {
			a = fu[r.Weighted(3, 1)] // the accounts the prologue funded
		}
		if i < len(script) {
			a = fu[0]
			if i == 2 {
				a = fu[1]
			}
		}
		spA, spB := r.Intn(4), r.Intn(4)
		if r.Chance(1, 6) {
			b = a // same account named twice
			if twosp && r.Chance(1, 2) {
				a, b = fu[0], fu[0]
			}
		}
		if a == b && !twosp {
			spB = spA
		}
		x := fx
		if r.Chance(1, 8) {
			x = nUsers + r.Intn(nExecs)
		}
		if (kind == "execdepositfrozen" || kind == "execissue") && r.Chance(2, 3) {
			x = nUsers // the miner executor: the only one allowed to issue
		}
		if r.Chance(1, 40) {
			x = r.Intn(nUsers) // any address string can be passed as executor address
		}
		ledger := fl
		if r.Chance(1, 10) {
			ledger = 1 - fl
		}
		mode, val := genAmount(r, spendKinds[kind])
		if kind == "genesis" || kind == "genesisexec" {
			if i < len(script) || r.Chance(1, 2) {
				mode, val = 0, []int64{5e8, perOpLimit - 1, 3e15, types.MaxTokenBalance - 7, types.MaxTokenBalance}[r.Intn(5)]
				if kind == "genesisexec" && (i < len(script) || r.Chance(3, 4)) {
					val = []int64{5e8, perOpLimit - 1, 3e15, 77}[r.Intn(4)]
				}
			}
		}
		sc.Ops = append(sc.Ops, simrt.Op{K: kind, I: []int64{int64(ledger), int64(a), int64(spA), int64(b), int64(spB), int64(x), int64(r.Intn(4)), mode, val}})
	}
	return sc
}

// ---------------------------------------------------------------------------
// model

type bal struct{ b, f int64 }

type ledgerModel struct {
	plain map[string]*bal            // canonical address -> account
	sub   map[string]map[string]*bal // canonical executor -> canonical address -> account
}

func newLedgerModel() *ledgerModel {
	return &ledgerModel{plain: map[string]*bal{}, sub: map[string]map[string]*bal{}}
}
func (m *ledgerModel) p(a string) *bal {
	if m.plain[a] == nil {
		m.plain[a] = &bal{}
	}
	return m.plain[a]
}
func (m *ledgerModel) s(x, a string) *bal {
	if m.sub[x] == nil {
		m.sub[x] = map[string]*bal{}
	}
	if m.sub[x][a] == nil {
		m.sub[x][a] = &bal{}
	}
	return m.sub[x][a]
}

// delta is one exact change of one field; applied with overflow detection.
type delta struct {
	field *int64
	d     int64 // signed
	what  string
}

// ---------------------------------------------------------------------------
// KV

// trackKV remembers which keys were ever written so that the complete content
// can be dumped through the KV's own Get.
type trackKV struct {
	dbm.KV
	keys map[string]struct{}
}

func (t *trackKV) Set(k, v []byte) error {
	t.keys[string(k)] = struct{}{}
	return t.KV.Set(k, v)
}

func (t *trackKV) dump() map[string]string {
	out := make(map[string]string, len(t.keys))
	for k := range t.keys {
		v, err := t.KV.Get([]byte(k))
		if err == nil {
			out[k] = string(v)
		}
	}
	return out
}

func sameDump(a, b map[string]string) (string, bool) {
	for k, v := range a {
		if w, ok := b[k]; !ok || w != v {
			return k, false
		}
	}
	for k := range b {
		if _, ok := a[k]; !ok {
			return k, false
		}
	}
	return "", true
}

// realState is the ledger content parsed from the raw KV dump.
type realState struct {
	plain map[string]*types.Account            // canonical -> record
	sub   map[string]map[string]*types.Account // canonical exec -> canonical addr -> record
}

type env struct {
	ctx     *simrt.Ctx
	kv      *trackKV
	dbs     [2]*account.DB
	prefix  [2]string
	models  [2]*ledgerModel
	replica map[string]string
	xcase   bool
}

func (e *env) parse(d map[string]string) ([2]*realState, *simrt.Violation) {
	var out [2]*realState
	for l := 0; l < 2; l++ {
		out[l] = &realState{plain: map[string]*types.Account{}, sub: map[string]map[string]*types.Account{}}
	}
	keys := make([]string, 0, len(d))
	for k := range d {
		keys = append(keys, k)
	}
	sort.Strings(keys)
	for _, k := range keys {
		l := -1
		for i := 0; i < 2; i++ {
			if strings.HasPrefix(k, e.prefix[i]) {
				l = i
			}
		}
		if l < 0 {
			return out, e.ctx.Violate("stray-key", "outside-ledger-prefix", "key %q written outside the ledgers' prefixes", k)
		}
		var a types.Account
		if err := types.Decode([]byte(d[k]), &a); err != nil {
			return out, e.ctx.Violate("stray-key", "undecodable-record", "key %q holds an undecodable account: %v", k, err)
		}
		rest := k[len(e.prefix[l]):]
		if strings.HasPrefix(rest, "exec-") {
			parts := strings.SplitN(rest[5:], ":", 2)
			if len(parts) != 2 {
				return out, e.ctx.Violate("stray-key", "malformed-exec-key", "key %q", k)
			}
			x, ad := canonOf(parts[0]), canonOf(parts[1])
			if out[l].sub[x] == nil {
				out[l].sub[x] = map[string]*types.Account{}
			}
			if out[l].sub[x][ad] != nil {
				sig := "executor-sub-account"
				if parts[0] != x {
					sig += "/executor-in-other-spelling-in-key"
				}
				if parts[1] != ad {
					sig += "/address-spelling-in-key"
				}
				return out, e.ctx.Violate("duplicate-record", sig, "two stored records for account %s under executor %s (second key %q)", ad, x, k)
			}
			out[l].sub[x][ad] = &a
			if canonOf(a.Addr) != ad {
				return out, e.ctx.Violate("record-names-other-account", "executor-sub-account", "key %q holds a record for address %q", k, a.Addr)
			}
		} else {
			ad := canonOf(rest)
			if out[l].plain[ad] != nil {
				return out, e.ctx.Violate("duplicate-record", "account/address-spelling-in-key", "two stored records for account %s (second key %q)", ad, k)
			}
			out[l].plain[ad] = &a
			if canonOf(a.Addr) != ad {
				return out, e.ctx.Violate("record-names-other-account", "account", "key %q holds a record for address %q", k, a.Addr)
			}
		}
	}
	return out, nil
}

// sums are exact (math/big): a ledger can hold several balances near the limit.
func sumPlain(s *realState) *big.Int {
	w := new(big.Int)
	for _, k := range sortedKeys(s.plain) {
		w.Add(w, big.NewInt(s.plain[k].Balance))
		w.Add(w, big.NewInt(s.plain[k].Frozen))
	}
	return w
}
func sumSub(s *realState, x string) *big.Int {
	w := new(big.Int)
	for _, k := range sortedKeys(s.sub[x]) {
		w.Add(w, big.NewInt(s.sub[x][k].Balance))
		w.Add(w, big.NewInt(s.sub[x][k].Frozen))
	}
	return w
}
func sumAllSub(s *realState) *big.Int {
	w := new(big.Int)
	for x := range s.sub {
		w.Add(w, sumSub(s, x))
	}
	return w
}
func sortedKeys(m map[string]*types.Account) []string {
	ks := make([]string, 0, len(m))
	for k := range m {
		ks = append(ks, k)
	}
	sort.Strings(ks)
	return ks
}

// wdiff returns a-b as int64 and whether it is representable.
func wdiff(a, b *big.Int) (int64, bool) {
	d := new(big.Int).Sub(a, b)
	if !d.IsInt64() {
		return 0, false
	}
	return d.Int64(), true
}

// ---------------------------------------------------------------------------

func (c15) Execute(t *testing.T, ctx *simrt.Ctx) *simrt.Violation {
	setup()
	sc := ctx.Sc
	mem, err := dbm.NewGoMemDB("c15", "", 16)
	simrt.Must(err, "memdb")
	defer mem.Close()
	e := &env{ctx: ctx, kv: &trackKV{KV: dbm.NewLocalDB(mem, false), keys: map[string]struct{}{}}, replica: map[string]string{}, xcase: sc.Knob("xcase", 0) == 1}
	e.dbs[0] = account.NewCoinsAccount(cfg).SetDB(e.kv)
	tok, err := account.NewAccountDB(cfg, "token", "TKN", e.kv)
	simrt.Must(err, "token ledger")
	e.dbs[1] = tok
	e.prefix[0] = "mavl-" + cfg.GetCoinExec() + "-" + cfg.GetCoinSymbol() + "-"
	e.prefix[1] = "mavl-token-TKN-"
	e.models[0], e.models[1] = newLedgerModel(), newLedgerModel()

	for i := range sc.Ops {
		ctx.CurOp = i
		ctx.Step()
		if v := e.step(&sc.Ops[i]); v != nil {
			return v
		}
	}
	return nil
}

func spelling(a *acct, idx int64) string {
	return a.spellings[int(idx)%len(a.spellings)]
}

func (e *env) step(op *simrt.Op) *simrt.Violation {
	ctx := e.ctx
	kind := op.K
	known := false
	for _, k := range kinds {
		if k == kind {
			known = true
		}
	}
	if !known {
		return nil
	}
	l := int(op.Int(0)) & 1
	A := pool[int(uint64(op.Int(1))%nPool)]
	B := pool[int(uint64(op.Int(3))%nPool)]
	X := pool[int(uint64(op.Int(5))%nPool)]
	sa, sb := spelling(A, op.Int(2)), spelling(B, op.Int(4))
	sx := X.spellings[0]
	if e.xcase {
		sx = spelling(X, op.Int(6))
	}
	db, m := e.dbs[l], e.models[l]

	// what the model says the operation does when it is accepted
	var ds []delta
	var supplyPlain, supplySub int64 // expected supply changes, in units of amount
	keepsExecInvariant := false      // flows for which D(executor) must not move
	twoAccounts := false             // the op names two account arguments
	var srcAvail, dstBal *int64
	switch kind {
	case "transfer":
		srcAvail, dstBal = &m.p(A.canon).b, &m.p(B.canon).b
		twoAccounts = true
	case "toexec":
		srcAvail, dstBal = &m.p(A.canon).b, &m.p(X.canon).b
	case "withdraw":
		srcAvail, dstBal = &m.s(X.canon, A.canon).b, &m.p(A.canon).b
	case "frozen":
		srcAvail, dstBal = &m.s(X.canon, A.canon).b, &m.s(X.canon, A.canon).f
	case "active":
		srcAvail, dstBal = &m.s(X.canon, A.canon).f, &m.s(X.canon, A.canon).b
	case "exectransfer":
		srcAvail, dstBal = &m.s(X.canon, A.canon).b, &m.s(X.canon, B.canon).b
		twoAccounts = true
	case "exectransferfrozen":
		srcAvail, dstBal = &m.s(X.canon, A.canon).f, &m.s(X.canon, B.canon).b
		twoAccounts = true
	case "execdeposit", "genesisexec":
		dstBal = &m.s(X.canon, A.canon).b
	case "execwithdraw":
		srcAvail = &m.s(X.canon, A.canon).b
	case "execdepositfrozen":
		dstBal = &m.p(X.canon).b
	case "execissue":
		dstBal = &m.p(X.canon).b
	case "mint", "genesis":
		dstBal = &m.p(A.canon).b
	case "burn":
		srcAvail = &m.p(A.canon).b
	}
	amount := op.Int(8)
	switch op.Int(7) {
	case 1:
		if srcAvail != nil {
			amount = *srcAvail + op.Int(8)
		} else {
			amount = 1000 + op.Int(8)
		}
	case 2:
		if dstBal != nil {
			amount = types.MaxTokenBalance - *dstBal + op.Int(8)
		} else {
			amount = types.MaxTokenBalance + op.Int(8)
		}
	case 3:
		if srcAvail != nil {
			amount = *srcAvail / 8 * (op.Int(8) & 7)
		} else {
			amount = 1000 * (op.Int(8) & 7)
		}
	case 4:
		amount = op.Int(8)
		if srcAvail != nil && *srcAvail < amount {
			amount = *srcAvail
		}
	}
	if amount < 0 {
		amount = 0 // negative amounts are outside the property's quantifier
	}
	switch kind {
	case "transfer":
		ds = []delta{{&m.p(A.canon).b, -amount, "sender balance"}, {&m.p(B.canon).b, amount, "receiver balance"}}
	case "toexec":
		ds = []delta{{&m.p(A.canon).b, -amount, "sender balance"}, {&m.p(X.canon).b, amount, "executor own balance"}, {&m.s(X.canon, A.canon).b, amount, "sub-account balance"}}
		supplySub = 1
		keepsExecInvariant = true
	case "withdraw":
		ds = []delta{{&m.s(X.canon, A.canon).b, -amount, "sub-account balance"}, {&m.p(X.canon).b, -amount, "executor own balance"}, {&m.p(A.canon).b, amount, "receiver balance"}}
		supplySub = -1
		keepsExecInvariant = true
	case "frozen":
		ds = []delta{{&m.s(X.canon, A.canon).b, -amount, "sub-account balance"}, {&m.s(X.canon, A.canon).f, amount, "sub-account frozen"}}
		keepsExecInvariant = true
	case "active":
		ds = []delta{{&m.s(X.canon, A.canon).f, -amount, "sub-account frozen"}, {&m.s(X.canon, A.canon).b, amount, "sub-account balance"}}
		keepsExecInvariant = true
	case "exectransfer":
		ds = []delta{{&m.s(X.canon, A.canon).b, -amount, "sender sub-account balance"}, {&m.s(X.canon, B.canon).b, amount, "receiver sub-account balance"}}
		keepsExecInvariant = true
	case "exectransferfrozen":
		ds = []delta{{&m.s(X.canon, A.canon).f, -amount, "sender sub-account frozen"}, {&m.s(X.canon, B.canon).b, amount, "receiver sub-account balance"}}
		keepsExecInvariant = true
	case "execdeposit":
		ds = []delta{{&m.s(X.canon, A.canon).b, amount, "sub-account balance"}}
		supplySub = 1
	case "execwithdraw":
		ds = []delta{{&m.s(X.canon, A.canon).b, -amount, "sub-account balance"}}
		supplySub = -1
	case "execdepositfrozen":
		ds = []delta{{&m.p(X.canon).b, amount, "executor own balance"}, {&m.s(X.canon, A.canon).f, amount, "sub-account frozen"}}
		supplyPlain, supplySub = 1, 1
		keepsExecInvariant = true
	case "execissue":
		ds = []delta{{&m.p(X.canon).b, amount, "executor own balance"}}
		supplyPlain = 1
	case "mint":
		ds = []delta{{&m.p(A.canon).b, amount, "balance"}}
		supplyPlain = 1
	case "burn":
		ds = []delta{{&m.p(A.canon).b, -amount, "balance"}}
		supplyPlain = -1
	case "genesis":
		ds = []delta{{&m.p(A.canon).b, amount, "balance"}}
		supplyPlain = 1
	case "genesisexec":
		ds = []delta{{&m.p(X.canon).b, amount, "executor own balance"}, {&m.s(X.canon, A.canon).b, amount, "sub-account balance"}}
		supplyPlain, supplySub = 1, 1
		keepsExecInvariant = true
	}
	shape := ""
	if twoAccounts {
		switch {
		case A == B && sa != sb:
			shape = "/one-account-two-spellings"
			ctx.Probe("same_account_two_spellings_in_one_call")
		case A == B:
			shape = "/same-spelling-twice"
		}
	}
	if sx != X.canon {
		shape += "/executor-in-other-spelling"
	}
	sig := kind + shape

	before := e.kv.dump()
	stBefore, v := e.parse(before)
	if v != nil {
		return v
	}

	// run it the way an executor runs one transaction
	e.kv.Begin()
	var rc *types.Receipt
	var opErr error
	panicked := func() (p interface{}) {
		defer func() { p = recover() }()
		switch kind {
		case "transfer":
			rc, opErr = db.Transfer(sa, sb, amount)
		case "toexec":
			rc, opErr = db.TransferToExec(sa, sx, amount)
		case "withdraw":
			rc, opErr = db.TransferWithdraw(sa, sx, amount)
		case "frozen":
			rc, opErr = db.ExecFrozen(sa, sx, amount)
		case "active":
			rc, opErr = db.ExecActive(sa, sx, amount)
		case "exectransfer":
			rc, opErr = db.ExecTransfer(sa, sb, sx, amount)
		case "exectransferfrozen":
			rc, opErr = db.ExecTransferFrozen(sa, sb, sx, amount)
		case "execdeposit":
			rc, opErr = db.ExecDeposit(sa, sx, amount)
		case "execwithdraw":
			rc, opErr = db.ExecWithdraw(sx, sa, amount)
		case "execdepositfrozen":
			rc, opErr = db.ExecDepositFrozen(sa, sx, amount)
		case "execissue":
			rc, opErr = db.ExecIssueCoins(sx, amount)
		case "mint":
			rc, opErr = db.Mint(sa, amount)
		case "burn":
			rc, opErr = db.Burn(sa, amount)
		case "genesis":
			rc, opErr = db.GenesisInit(sa, amount)
		case "genesisexec":
			rc, opErr = db.GenesisInitExec(sa, amount, sx)
		}
		return nil
	}()
	if ctx.Verbose {
		ctx.Logf("%s ledger=%d a=%s b=%s x=%s amount=%d -> err=%v panic=%v", kind, l, sa, sb, sx, amount, opErr, panicked)
	}
	if panicked != nil {
		// the executor recovers a panicking transaction and rolls its writes back
		e.kv.Rollback()
		ctx.Probe("op_panicked_and_rolled_back")
		ctx.Probe("panic/" + kind)
		return nil
	}
	if opErr != nil {
		after := e.kv.dump() // still inside the transaction: sees its writes
		if k, same := sameDump(before, after); !same {
			return ctx.Violate("error-changed-state", sig, "%s(%s, %s, exec %s, %d) returned %v but key %q changed (before %x, after %x)", kind, sa, sb, sx, amount, opErr, k, before[k], after[k])
		}
		e.kv.Rollback()
		ctx.Probe("op_refused")
		ctx.Probe("refused/" + kind)
		return nil
	}
	simrt.Must(e.kv.Commit(), "commit")
	ctx.Probe("op_ok")
	ctx.Probe("ok/" + kind)
	if rc != nil {
		for _, kv := range rc.KV {
			e.replica[string(kv.Key)] = string(kv.Value)
		}
	}

	// 1. the accepted operation must not drive any field out of range
	for _, d := range ds {
		nv, ok := addExact(*d.field, d.d)
		if !ok || nv < 0 || nv > types.MaxTokenBalance {
			return ctx.Violate("negative-or-overflow", sig+"/accepted", "%s(%s, %s, exec %s, %d) was accepted although it takes the %s from %d by %+d (outside [0, balance limit])", kind, sa, sb, sx, amount, d.what, *d.field, d.d)
		}
		*d.field = nv
	}

	after := e.kv.dump()
	st, v := e.parse(after)
	if v != nil {
		v.Sig = sig + "/" + v.Sig
		return v
	}
	// 2. no stored field negative or above the limit
	for ll := 0; ll < 2; ll++ {
		for _, k := range sortedKeys(st[ll].plain) {
			a := st[ll].plain[k]
			if a.Balance < 0 || a.Frozen < 0 || a.Balance > types.MaxTokenBalance || a.Frozen > types.MaxTokenBalance {
				return ctx.Violate("negative-or-overflow", sig+"/stored", "after %s: account %s holds balance %d frozen %d", kind, k, a.Balance, a.Frozen)
			}
		}
		xs := make([]string, 0)
		for x := range st[ll].sub {
			xs = append(xs, x)
		}
		sort.Strings(xs)
		for _, x := range xs {
			for _, k := range sortedKeys(st[ll].sub[x]) {
				a := st[ll].sub[x][k]
				if a.Balance < 0 || a.Frozen < 0 || a.Balance > types.MaxTokenBalance || a.Frozen > types.MaxTokenBalance {
					return ctx.Violate("negative-or-overflow", sig+"/stored", "after %s: account %s under executor %s holds balance %d frozen %d", kind, k, x, a.Balance, a.Frozen)
				}
			}
		}
	}
	// 3. supply moves only by minted / burned / issued / granted amounts
	for ll := 0; ll < 2; ll++ {
		wantP, wantS := int64(0), int64(0)
		if ll == l {
			wantP, wantS = supplyPlain*amount, supplySub*amount
		}
		if got, ok := wdiff(sumPlain(st[ll]), sumPlain(stBefore[ll])); !ok || got != wantP {
			return ctx.Violate("supply-changed", sig, "%s(%s, %s, exec %s, %d) on ledger %d: total of all accounts on ledger %d moved by %d, expected %d", kind, sa, sb, sx, amount, l, ll, got, wantP)
		}
		if got, ok := wdiff(sumAllSub(st[ll]), sumAllSub(stBefore[ll])); !ok || got != wantS {
			return ctx.Violate("supply-changed", sig+"/executor-sub-accounts", "%s(%s, %s, exec %s, %d) on ledger %d: total held in executor sub-accounts on ledger %d moved by %d, expected %d", kind, sa, sb, sx, amount, l, ll, got, wantS)
		}
	}
	// 4. executor own balance - sum(sub-accounts) is preserved by the flows the
	//    statement names (both sides are moved together or not at all)
	if keepsExecInvariant && A != X && !(twoAccounts && B == X) {
		// (an executor address that is itself the paying / receiving account of
		// this call is moved on one side only, by definition)
		{
			x := X.canon
			ownB, ownA := int64(0), int64(0)
			if r := stBefore[l].plain[x]; r != nil {
				ownB = r.Balance
			}
			if r := st[l].plain[x]; r != nil {
				ownA = r.Balance
			}
			dOwn := ownA - ownB
			dSub, ok := wdiff(sumSub(st[l], x), sumSub(stBefore[l], x))
			if !ok || dOwn != dSub {
				return ctx.Violate("executor-balance-mismatch", sig, "%s(%s, %s, exec %s, %d): executor %s own balance moved by %d but the accounts held under it by %d", kind, sa, sb, sx, amount, x, dOwn, dSub)
			}
		}
	}
	// 5. every stored record equals the model (keyed by canonical address)
	if v := e.compareModel(st, sig, kind); v != nil {
		return v
	}
	// 6. every spelling loads the same record
	if v := e.compareSpellings(sig); v != nil {
		return v
	}
	// 7. the receipts' KVs describe the state completely (what a node stores)
	if k, same := sameDump(after, e.replica); !same {
		return ctx.Violate("receipt-kv-mismatch", kind, "after %s: key %q is %x in the state but %x when the receipts' KV sets are applied", kind, k, after[k], e.replica[k])
	}
	// invariant in the clean case: histories that only used invariant-keeping
	// flows have D == 0 (counted, the check itself is 4.)
	ctx.State(simrt.DigestOf(modelDigest(e.models[0]), modelDigest(e.models[1])))
	return nil
}

func addExact(a, d int64) (int64, bool) {
	s := a + d
	if (d > 0 && s < a) || (d < 0 && s > a) {
		return 0, false
	}
	return s, true
}

func modelDigest(m *ledgerModel) string {
	var sb strings.Builder
	ks := make([]string, 0, len(m.plain))
	for k := range m.plain {
		ks = append(ks, k)
	}
	sort.Strings(ks)
	for _, k := range ks {
		fmt.Fprintf(&sb, "%s=%d/%d;", k[:6], m.plain[k].b, m.plain[k].f)
	}
	xs := make([]string, 0, len(m.sub))
	for x := range m.sub {
		xs = append(xs, x)
	}
	sort.Strings(xs)
	for _, x := range xs {
		as := make([]string, 0, len(m.sub[x]))
		for a := range m.sub[x] {
			as = append(as, a)
		}
		sort.Strings(as)
		for _, a := range as {
			fmt.Fprintf(&sb, "%s:%s=%d/%d;", x[:6], a[:6], m.sub[x][a].b, m.sub[x][a].f)
		}
	}
	return sb.String()
}

func (e *env) compareModel(st [2]*realState, sig, kind string) *simrt.Violation {
	for l := 0; l < 2; l++ {
		m := e.models[l]
		for _, a := range pool {
			want := m.plain[a.canon]
			got := st[l].plain[a.canon]
			var wb, wf, gb, gf int64
			if want != nil {
				wb, wf = want.b, want.f
			}
			if got != nil {
				gb, gf = got.Balance, got.Frozen
			}
			if wb != gb || wf != gf {
				return e.ctx.Violate("ledger-mismatch", sig, "after %s: ledger %d account %s holds balance %d frozen %d, the ledger model says %d / %d", kind, l, a.canon, gb, gf, wb, wf)
			}
			for _, x := range pool {
				var wb, wf, gb, gf int64
				if m.sub[x.canon] != nil && m.sub[x.canon][a.canon] != nil {
					wb, wf = m.sub[x.canon][a.canon].b, m.sub[x.canon][a.canon].f
				}
				if st[l].sub[x.canon] != nil && st[l].sub[x.canon][a.canon] != nil {
					gb, gf = st[l].sub[x.canon][a.canon].Balance, st[l].sub[x.canon][a.canon].Frozen
				}
				if wb != gb || wf != gf {
					return e.ctx.Violate("ledger-mismatch", sig+"/executor-sub-account", "after %s: ledger %d account %s under executor %s holds balance %d frozen %d, the ledger model says %d / %d", kind, l, a.canon, x.canon, gb, gf, wb, wf)
				}
			}
		}
		// nothing outside the pool may exist
		for _, k := range sortedKeys(st[l].plain) {
			if !inPool(k) {
				return e.ctx.Violate("stray-key", "unknown-account", "ledger %d holds a record for %s which no operation named", l, k)
			}
		}
	}
	return nil
}

func inPool(canon string) bool {
	for _, a := range pool {
		if a.canon == canon {
			return true
		}
	}
	return false
}

func (e *env) compareSpellings(sig string) *simrt.Violation {
	for l := 0; l < 2; l++ {
		db, m := e.dbs[l], e.models[l]
		for _, a := range pool {
			var wb, wf int64
			if w := m.plain[a.canon]; w != nil {
				wb, wf = w.b, w.f
			}
			for _, s := range a.spellings {
				r := db.LoadAccount(s)
				if r.Balance != wb || r.Frozen != wf {
					return e.ctx.Violate("spelling-loads-other-record", sig+"/LoadAccount", "ledger %d: LoadAccount(%q) = balance %d frozen %d, account %s holds %d / %d", l, s, r.Balance, r.Frozen, a.canon, wb, wf)
				}
				if canonOf(r.Addr) != a.canon {
					return e.ctx.Violate("record-names-other-account", "LoadAccount", "LoadAccount(%q) returned a record for %q", s, r.Addr)
				}
			}
			for _, x := range pool {
				var wb, wf int64
				if m.sub[x.canon] != nil && m.sub[x.canon][a.canon] != nil {
					wb, wf = m.sub[x.canon][a.canon].b, m.sub[x.canon][a.canon].f
				}
				xsp := x.spellings[:1]
				if e.xcase {
					xsp = x.spellings
				}
				for _, xs := range xsp {
					for _, s := range a.spellings {
						r := db.LoadExecAccount(s, xs)
						if r.Balance != wb || r.Frozen != wf {
							which := "/LoadExecAccount"
							if xs != x.canon {
								which += "/executor-in-other-spelling"
							}
							return e.ctx.Violate("spelling-loads-other-record", sig+which, "ledger %d: LoadExecAccount(%q, %q) = balance %d frozen %d, account %s under %s holds %d / %d", l, s, xs, r.Balance, r.Frozen, a.canon, x.canon, wb, wf)
						}
					}
				}
			}
		}
	}
	return nil
}
