// Package rpcsim is the C39 engine: a simulated population of RPC clients with
// arbitrary remote addresses served by the real JSON-RPC handler chain, the real
// gRPC server (interceptor included) on an in-memory listener, and the real
// Ethereum-compatible ServeHTTP, under generated access-control configurations.
package rpcsim

import (
	"bytes"
	"compress/gzip"
	"context"
	"encoding/base64"
	"errors"
	"fmt"
	"io"
	"net"
	"net/http"
	"net/http/httptest"
	"sort"
	"strings"
	"sync"
	"testing"
	"time"

	"github.com/33cn/chain33/client"
	"github.com/33cn/chain33/common/log"
	"github.com/33cn/chain33/queue"
	"github.com/33cn/chain33/rpc"
	_ "github.com/33cn/chain33/system"
	"github.com/33cn/chain33/types"
	gethrpc "github.com/ethereum/go-ethereum/rpc"
	"github.com/gorilla/websocket"
	"google.golang.org/grpc"
	"google.golang.org/grpc/credentials/insecure"
	"google.golang.org/grpc/test/bufconn"

	"verifsim/simrt"
)

func init() {
	log.SetLogLevel("crit")
	simrt.Register(&simrt.Info{
		Property: "C39", Engine: &c39{},
		Rule: "one case = one generated access-control configuration (IP whitelist under either key, method white/blacklists for JSON-RPC and gRPC, basic auth) plus 60-140 client requests with generated remote addresses and request shapes against the three endpoints; non-trivial = at least one non-loopback request ran a method, at least one was refused, and the configuration restricts something (IP list, method list or auth)",
		Nontrivial: func(sc *simrt.Scenario, r *simrt.Result) bool {
			return r.Probes["ran_nonloopback"] > 0 && r.Probes["refused_nonloopback"] > 0 && r.Probes["restrictive_config"] > 0
		},
	})
}

type c39 struct{}

func (c39) Name() string { return "rpcsim" }

// registered method names per endpoint
var (
	jMethods = []string{"Version", "IsSync", "GetLastHeader", "IsNtpClockSync", "GetProperFee", "Lock", "GetSeed", "DumpPrivkey", "GetPeerInfo", "GetNetInfo"}
	gMethods = []string{"Version", "IsSync", "GetLastHeader", "IsNtpClockSync", "GetProperFee", "Lock", "GetSeed", "DumpPrivkey", "GetPeerInfo", "NetInfo"}
	sMethods = []string{"Echo", "Version", "Admin"} // the harness's own service "Sim"
)

// ---------------------------------------------------------------------------
// generation

func ipPool(r *simrt.RNG) []string {
	var p []string
	p = append(p, fmt.Sprintf("10.%d.%d.%d", r.Intn(256), r.Intn(256), 1+r.Intn(254)))
	p = append(p, fmt.Sprintf("192.168.%d.%d", r.Intn(256), 1+r.Intn(254)))
	p = append(p, fmt.Sprintf("%d.%d.%d.%d", []int{8, 52, 101, 203}[r.Intn(4)], r.Intn(256), r.Intn(256), 1+r.Intn(254)))
	p = append(p, fmt.Sprintf("2001:db8::%x", 1+r.Intn(0xfffe)))
	p = append(p, fmt.Sprintf("fd00:%x::%x:%x", r.Intn(0xffff), r.Intn(0xffff), 1+r.Intn(0xfffe)))
	return p
}

// spell returns one of the textual forms of an IP.
func spell(r *simrt.RNG, ip string, plainBias int) string {
	p := net.ParseIP(ip)
	if p == nil || r.Intn(10) < plainBias {
		return ip
	}
	if v4 := p.To4(); v4 != nil {
		switch r.Intn(3) {
		case 0:
			return "::ffff:" + v4.String()
		case 1:
			return fmt.Sprintf("::ffff:%02x%02x:%02x%02x", v4[0], v4[1], v4[2], v4[3])
		default:
			return fmt.Sprintf("0:0:0:0:0:ffff:%02x%02x:%02x%02x", v4[0], v4[1], v4[2], v4[3])
		}
	}
	switch r.Intn(3) {
	case 0:
		return strings.ToUpper(ip)
	case 1:
		p16 := p.To16()
		var parts []string
		for i := 0; i < 16; i += 2 {
			parts = append(parts, fmt.Sprintf("%x", int(p16[i])<<8|int(p16[i+1])))
		}
		return strings.Join(parts, ":")
	default:
		p16 := p.To16()
		var parts []string
		for i := 0; i < 16; i += 2 {
			parts = append(parts, fmt.Sprintf("%04x", int(p16[i])<<8|int(p16[i+1])))
		}
		return strings.Join(parts, ":")
	}
}

func subset(r *simrt.RNG, names []string, lo, hi int) []string {
	n := r.Range(lo, hi)
	var out []string
	for _, i := range r.Perm(len(names)) {
		if len(out) >= n {
			break
		}
		out = append(out, names[i])
	}
	return out
}

func caseVariant(r *simrt.RNG, s string) string {
	switch r.Intn(4) {
	case 0:
		return strings.ToLower(s)
	case 1:
		return strings.ToUpper(s)
	case 2:
		return strings.ToLower(s[:1]) + s[1:]
	default:
		return s + " "
	}
}

func (c39) Generate(prop string, r *simrt.RNG, tier string, run int) *simrt.Scenario {
	sc := &simrt.Scenario{Knobs: map[string]int64{}}
	pool := ipPool(r)
	var ops []simrt.Op
	streams := r.Chance(1, 3)
	// --- IP whitelist
	listOf := func() []string {
		var l []string
		for _, ip := range subset(r, pool, 1, 3) {
			l = append(l, spell(r, ip, 8))
		}
		if r.Chance(1, 4) {
			l = append(l, "127.0.0.1")
		}
		return l
	}
	switch r.Weighted(2, 1, 1, 4, 4, 3, 1, 1) {
	case 0: // not configured
	case 1:
		ops = append(ops, simrt.Op{K: "wl", S: []string{"*"}, I: []int64{0}})
	case 2:
		ops = append(ops, simrt.Op{K: "wl", S: []string{"*"}, I: []int64{1}})
	case 3:
		ops = append(ops, simrt.Op{K: "wl", S: listOf(), I: []int64{0}})
	case 4:
		ops = append(ops, simrt.Op{K: "wl", S: listOf(), I: []int64{1}})
	case 5: // both keys
		a, b := listOf(), listOf()
		if r.Chance(1, 4) {
			b = []string{"*"}
		} else if r.Chance(1, 4) {
			a = []string{"*"}
		}
		ops = append(ops, simrt.Op{K: "wl", S: a, I: []int64{0}}, simrt.Op{K: "wl", S: b, I: []int64{1}})
	case 6:
		ops = append(ops, simrt.Op{K: "wl", S: []string{"0.0.0.0"}, I: []int64{int64(r.Intn(2))}})
	case 7:
		ops = append(ops, simrt.Op{K: "wl", S: append([]string{"*"}, listOf()...), I: []int64{int64(r.Intn(2))}})
	}
	// --- method lists
	methodList := func(names []string) []string {
		l := subset(r, append(append([]string(nil), names...), sMethods...), 1, 6)
		if r.Chance(1, 5) {
			l = append(l, caseVariant(r, names[r.Intn(len(names))]))
		}
		if r.Chance(1, 8) {
			l = append(l, "Chain33."+names[r.Intn(len(names))])
		}
		return l
	}
	for _, k := range []struct {
		key   string
		names []string
	}{{"jw", jMethods}, {"jb", jMethods}, {"gw", gMethods}, {"gb", gMethods}} {
		switch r.Weighted(4, 1, 5) {
		case 1:
			if k.key[1] == 'w' {
				ops = append(ops, simrt.Op{K: k.key, S: []string{"*"}})
			}
		case 2:
			ops = append(ops, simrt.Op{K: k.key, S: methodList(k.names)})
		}
	}
	// --- basic auth
	user, pass := "", ""
	switch r.Weighted(4, 4, 1, 1) {
	case 1:
		user, pass = "rpcuser", []string{"s3cret", "pa:ss:word", "p w", "x"}[r.Intn(4)]
	case 2:
		user = "onlyuser"
	case 3:
		pass = "onlypass"
	}
	if user != "" || pass != "" {
		ops = append(ops, simrt.Op{K: "auth", S: []string{user, pass}})
	}
	// --- requests
	authHeader := func() string {
		b64 := func(s string) string { return base64.StdEncoding.EncodeToString([]byte(s)) }
		switch r.Weighted(6, 2, 1, 1, 1, 1, 1, 1, 1, 1, 1, 1) {
		case 8: // a prefix of the password
			return "Basic " + b64(user+":"+pass[:len(pass)/2])
		case 9: // a prefix of the user name
			return "Basic " + b64(user[:len(user)/2]+":"+pass)
		case 10: // other letter case
			return "Basic " + b64(strings.ToUpper(user)+":"+strings.ToUpper(pass))
		case 11: // swapped
			return "Basic " + b64(pass+":"+user)
		case 0:
			return "Basic " + b64(user+":"+pass)
		case 1:
			return ""
		case 2:
			return "Basic " + b64(user+":"+pass+"x")
		case 3:
			return "Basic " + b64("x"+user+":"+pass)
		case 4:
			return "Basic !!!" + b64(user+":"+pass)
		case 5:
			return "Basic" + b64(user+":"+pass)
		case 6:
			return "basic " + b64(user+":"+pass)
		default:
			return "Basic " + b64(user+pass)
		}
	}
	var listed []string
	for _, o := range ops {
		if o.K == "wl" {
			for _, e := range o.S {
				if p := net.ParseIP(e); p != nil && !p.IsLoopback() && !p.IsUnspecified() {
					listed = append(listed, p.String())
				}
			}
		}
	}
	addr := func() string {
		var ip string
		wListed := 0
		if len(listed) > 0 {
			wListed = 6
		}
		switch r.Weighted(4, 1, 2, wListed) {
		case 3:
			ip = spell(r, listed[r.Intn(len(listed))], 7)
		case 0:
			ip = spell(r, pool[r.Intn(len(pool))], 5)
		case 1:
			ip = []string{"127.0.0.1", "::1", "127.8.9.10", "::ffff:127.0.0.1"}[r.Intn(4)]
		default:
			ip = spell(r, ipPool(r)[r.Intn(5)], 6)
		}
		port := 1024 + r.Intn(60000)
		if strings.Contains(ip, ":") {
			return fmt.Sprintf("[%s]:%d", ip, port)
		}
		return fmt.Sprintf("%s:%d", ip, port)
	}
	jName := func() string {
		m := jMethods[r.Intn(len(jMethods))]
		svc := "Chain33"
		if r.Chance(1, 4) {
			svc, m = "Sim", sMethods[r.Intn(len(sMethods))]
		}
		switch r.Weighted(10, 1, 1, 1, 1, 1, 1, 1, 1) {
		case 0:
			return svc + "." + m
		case 1:
			return strings.ToLower(svc) + "." + m
		case 2:
			return svc + "." + caseVariant(r, m)
		case 3:
			return m
		case 4:
			return svc + ".." + m
		case 5:
			return "X." + svc + "." + m
		case 6:
			return svc + "." + m + "."
		case 7:
			return " " + svc + "." + m
		default:
			return svc + "." + jMethods[r.Intn(len(jMethods))] + "." + m
		}
	}
	gName := func() string {
		m := gMethods[r.Intn(len(gMethods))]
		svc := "types.chain33"
		if r.Chance(1, 4) {
			svc, m = "sim.Sim", sMethods[r.Intn(len(sMethods))]
		}
		if streams && r.Chance(1, 6) {
			return "/types.chain33/SubEvent" // server-streaming method
		}
		switch r.Weighted(10, 1, 1, 1, 1, 1) {
		case 0:
			return "/" + svc + "/" + m
		case 1:
			return "/" + svc + "/" + caseVariant(r, m)
		case 2:
			return "/" + strings.ToUpper(svc) + "/" + m
		case 3:
			return "/" + svc + "/" + m + "/"
		case 4:
			return "//" + svc + "/" + m
		default:
			return "/" + svc + "/x/" + m
		}
	}
	n := r.Range(60, 140)
	for i := 0; i < n; i++ {
		switch r.Weighted(6, 3, 1) {
		case 0:
			path := "/"
			if r.Chance(1, 12) {
				path = []string{"//", "/rpc", "/?a=1", "/Chain33", "/./"}[r.Intn(5)]
			}
			verb := int64(0)
			if r.Chance(1, 15) {
				verb = int64(r.Range(1, 2))
			}
			ops = append(ops, simrt.Op{K: "req", S: []string{"jrpc", addr(), jName(), authHeader(), path, "Chain33." + jMethods[r.Intn(len(jMethods))]},
				I: []int64{int64(r.Weighted(12, 2, 2, 1, 1, 1, 1, 1, 1, 1, 1, 1, 1, 1, 1, 1, 1, 1)), verb, int64(r.Weighted(4, 1, 1, 1))}})
		case 1:
			ops = append(ops, simrt.Op{K: "req", S: []string{"grpc", addr(), gName()}, I: []int64{int64(r.Weighted(4, 1))}})
		default:
			ops = append(ops, simrt.Op{K: "req", S: []string{"eth", addr(), []string{"net_peerCount", "web3_clientVersion", "net_PeerCount"}[r.Intn(3)]}, I: []int64{int64(r.Weighted(6, 1))}})
		}
	}
	sc.Ops = ops
	return sc
}

// ---------------------------------------------------------------------------
// instrumented API: records which node function an RPC handler reached

type stubAPI struct {
	client.QueueProtocolAPI // nil: only the methods below may be reached
	cfg                     *types.Chain33Config
	mu                      sync.Mutex
	calls                   []string
}

func (s *stubAPI) rec(name string) {
	s.mu.Lock()
	s.calls = append(s.calls, name)
	s.mu.Unlock()
}
func (s *stubAPI) take() []string {
	s.mu.Lock()
	defer s.mu.Unlock()
	c := s.calls
	s.calls = nil
	return c
}
func (s *stubAPI) Close()                          {}
func (s *stubAPI) GetConfig() *types.Chain33Config { return s.cfg }
func (s *stubAPI) Version() (*types.VersionInfo, error) {
	s.rec("Version")
	return &types.VersionInfo{Title: "sim"}, nil
}
func (s *stubAPI) IsSync() (*types.Reply, error) {
	s.rec("IsSync")
	return &types.Reply{IsOk: true}, nil
}
func (s *stubAPI) IsNtpClockSync() (*types.Reply, error) {
	s.rec("IsNtpClockSync")
	return &types.Reply{IsOk: true}, nil
}
func (s *stubAPI) GetLastHeader() (*types.Header, error) {
	s.rec("GetLastHeader")
	return &types.Header{Height: 7}, nil
}
func (s *stubAPI) GetProperFee(*types.ReqProperFee) (*types.ReplyProperFee, error) {
	s.rec("GetProperFee")
	return &types.ReplyProperFee{ProperFee: 1}, nil
}
func (s *stubAPI) PeerInfo(*types.P2PGetPeerReq) (*types.PeerList, error) {
	s.rec("PeerInfo")
	return &types.PeerList{}, nil
}
func (s *stubAPI) GetNetInfo(*types.P2PGetNetInfoReq) (*types.NodeNetInfo, error) {
	s.rec("GetNetInfo")
	return &types.NodeNetInfo{}, nil
}
func (s *stubAPI) ExecWalletFunc(driver, fn string, p types.Message) (types.Message, error) {
	s.rec("Exec:" + fn)
	switch fn {
	case "GetSeed":
		return &types.ReplySeed{}, nil
	case "DumpPrivkey":
		return &types.ReplyString{}, nil
	}
	return &types.Reply{IsOk: true}, nil
}
func (s *stubAPI) AddPushSubscribe(*types.PushSubscribeReq) (*types.ReplySubscribePush, error) {
	s.rec("AddPushSubscribe")
	return nil, errors.New("sim: no push service")
}
func (s *stubAPI) CloseQueue() (*types.Reply, error) {
	s.rec("CloseQueue")
	return &types.Reply{IsOk: true}, nil
}

// handlerOf maps what the API saw back to the RPC method that ran.
func handlerOf(endpoint, call string) string {
	if strings.HasPrefix(call, "sim:") {
		return call[4:]
	}
	switch call {
	case "Exec:WalletLock":
		return "Lock"
	case "Exec:GetSeed":
		return "GetSeed"
	case "Exec:DumpPrivkey":
		return "DumpPrivkey"
	case "PeerInfo":
		if endpoint == "eth" {
			return "net_peerCount"
		}
		return "GetPeerInfo"
	case "GetNetInfo":
		if endpoint == "grpc" {
			return "NetInfo"
		}
		return "GetNetInfo"
	case "AddPushSubscribe":
		return "SubEvent"
	}
	return call
}

// Sim is the harness's own JSON-RPC service (registered like a plugin's).
type Sim struct{ api *stubAPI }

func (s *Sim) Echo(in *types.ReqNil, out *interface{}) error {
	s.api.rec("sim:Echo")
	*out = "ok"
	return nil
}
func (s *Sim) Version(in *types.ReqNil, out *interface{}) error {
	s.api.rec("sim:Version")
	*out = "ok"
	return nil
}
func (s *Sim) Admin(in *types.ReqNil, out *interface{}) error {
	s.api.rec("sim:Admin")
	*out = "ok"
	return nil
}

// the same as a gRPC service, wired through the server's interceptor exactly as
// generated code does
type simGrpc interface {
	do(name string) (*types.Reply, error)
}

func (s *Sim) do(name string) (*types.Reply, error) {
	s.api.rec("sim:" + name)
	return &types.Reply{IsOk: true}, nil
}

func simMethod(name string) grpc.MethodDesc {
	return grpc.MethodDesc{MethodName: name, Handler: func(srv interface{}, ctx context.Context, dec func(interface{}) error, ic grpc.UnaryServerInterceptor) (interface{}, error) {
		in := new(types.ReqNil)
		if err := dec(in); err != nil {
			return nil, err
		}
		if ic == nil {
			return srv.(simGrpc).do(name)
		}
		info := &grpc.UnaryServerInfo{Server: srv, FullMethod: "/sim.Sim/" + name}
		return ic(ctx, in, info, func(ctx context.Context, req interface{}) (interface{}, error) { return srv.(simGrpc).do(name) })
	}}
}

var simDesc = grpc.ServiceDesc{ServiceName: "sim.Sim", HandlerType: (*simGrpc)(nil),
	Methods: []grpc.MethodDesc{simMethod("Echo"), simMethod("Version"), simMethod("Admin")}, Metadata: "sim.proto"}

// ---------------------------------------------------------------------------
// simulated transport for gRPC: in-memory connections whose peer address is
// whatever the harness says

type strAddr string

func (a strAddr) Network() string { return "tcp" }
func (a strAddr) String() string  { return string(a) }

type addrConn struct {
	net.Conn
	remote net.Addr
}

func (c *addrConn) RemoteAddr() net.Addr { return c.remote }

type simListener struct {
	*bufconn.Listener
	mu   sync.Mutex
	next []net.Addr
}

func (l *simListener) Accept() (net.Conn, error) {
	c, err := l.Listener.Accept()
	if err != nil {
		return nil, err
	}
	l.mu.Lock()
	var a net.Addr = strAddr("0.0.0.0:0")
	if len(l.next) > 0 {
		a, l.next = l.next[0], l.next[1:]
	}
	l.mu.Unlock()
	return &addrConn{Conn: c, remote: a}, nil
}

func (l *simListener) dialFrom(addr string) (*grpc.ClientConn, error) {
	ctx, cancel := context.WithTimeout(context.Background(), 10*time.Second)
	defer cancel()
	return grpc.DialContext(ctx, "passthrough:///sim",
		grpc.WithContextDialer(func(ctx context.Context, _ string) (net.Conn, error) {
			l.mu.Lock()
			l.next = append(l.next, strAddr(addr))
			l.mu.Unlock()
			return l.Listener.DialContext(ctx)
		}),
		grpc.WithTransportCredentials(insecure.NewCredentials()), grpc.WithBlock())
}

// ---------------------------------------------------------------------------
// reference access control, straight from the property statement

type aclCfg struct {
	wl, wl2        []string // whitelist under "whitelist" / under "whitlist"
	jw, jb, gw, gb []string
	user, pass     string
}

func isLoopback(host string) bool {
	ip := net.ParseIP(host)
	return ip != nil && ip.IsLoopback()
}

func hostOf(addr string) string {
	h, _, err := net.SplitHostPort(addr)
	if err != nil {
		return addr
	}
	return h
}

// ipOnList: the address is on the configured whitelist, or the whitelist is a
// wildcard ("*"; "0.0.0.0" is accepted as the wildcard's other spelling).
// With both keys configured the more permissive reading is used (the statement
// does not rank them), so an implementation that honours either is accepted.
func (c *aclCfg) ipOnList(host string) bool {
	ip := net.ParseIP(host)
	for _, e := range append(append([]string(nil), c.wl...), c.wl2...) {
		if e == "*" || e == "0.0.0.0" {
			return true
		}
		if p := net.ParseIP(e); p != nil && ip != nil && p.Equal(ip) {
			return true
		}
		if e == host {
			return true
		}
	}
	return false
}

func methodOK(white, black []string, m string) (bool, string) {
	for _, b := range black {
		if b == m {
			return false, "method-blacklisted"
		}
	}
	if len(white) == 0 {
		return true, ""
	}
	for _, w := range white {
		if w == "*" || w == m {
			return true, ""
		}
	}
	return false, "method-not-whitelisted"
}

// authOK: basic authentication succeeds (the scheme token is not compared: the
// statement says nothing about its spelling).
func (c *aclCfg) authOK(header string) bool {
	if c.user == "" && c.pass == "" {
		return true
	}
	parts := strings.SplitN(header, " ", 2)
	if len(parts) != 2 {
		return false
	}
	b, err := base64.StdEncoding.DecodeString(strings.TrimSpace(parts[1]))
	if err != nil {
		return false
	}
	return string(b) == c.user+":"+c.pass
}

// allowed: may method m run for this request? ("" = yes, else the failed clause)
func (c *aclCfg) allowed(endpoint, host, m, auth string) string {
	if !c.ipOnList(host) {
		return "ip-not-whitelisted"
	}
	switch endpoint {
	case "jrpc":
		if ok, why := methodOK(c.jw, c.jb, m); !ok {
			return why
		}
		if !c.authOK(auth) {
			return "auth-failed"
		}
	case "grpc":
		if ok, why := methodOK(c.gw, c.gb, m); !ok {
			return why
		}
	}
	return ""
}

// ---------------------------------------------------------------------------
// execution

func tomlList(l []string) string {
	var q []string
	for _, s := range l {
		q = append(q, fmt.Sprintf("%q", s))
	}
	return "[" + strings.Join(q, ",") + "]"
}

const rpcSection = "[rpc]\njrpcBindAddr=\"localhost:0\"\ngrpcBindAddr=\"localhost:0\"\nwhitelist=[\"127.0.0.1\"]\njrpcFuncWhitelist=[\"*\"]\ngrpcFuncWhitelist=[\"*\"]\n[rpc.sub.eth]\nenable=false\n"

func (c *aclCfg) toml() string {
	base := types.GetDefaultCfgstring()
	if !strings.Contains(base, rpcSection) {
		simrt.Failf("rpcsim: default configuration's [rpc] section changed; update rpcSection")
	}
	var b strings.Builder
	b.WriteString("[rpc]\njrpcBindAddr=\"127.0.0.1:0\"\ngrpcBindAddr=\"127.0.0.1:0\"\n")
	if c.wl != nil {
		b.WriteString("whitelist=" + tomlList(c.wl) + "\n")
	}
	if c.wl2 != nil {
		b.WriteString("whitlist=" + tomlList(c.wl2) + "\n")
	}
	for _, kv := range []struct {
		k string
		v []string
	}{{"jrpcFuncWhitelist", c.jw}, {"jrpcFuncBlacklist", c.jb}, {"grpcFuncWhitelist", c.gw}, {"grpcFuncBlacklist", c.gb}} {
		if kv.v != nil {
			b.WriteString(kv.k + "=" + tomlList(kv.v) + "\n")
		}
	}
	if c.user != "" {
		b.WriteString(fmt.Sprintf("jrpcUserName=%q\n", c.user))
	}
	if c.pass != "" {
		b.WriteString(fmt.Sprintf("jrpcUserPasswd=%q\n", c.pass))
	}
	b.WriteString("[rpc.sub.eth]\nenable=false\nhttpApi=[\"web3\",\"net\"]\nwsApi=[\"web3\"]\n")
	return strings.Replace(base, rpcSection, b.String(), 1)
}

type world struct {
	ctx   *simrt.Ctx
	acl   aclCfg
	api   *stubAPI
	r     *rpc.RPC
	jh    http.Handler
	eh    http.Handler
	ewsh  http.Handler // the Ethereum-compatible websocket endpoint object
	wsl   *simListener
	lis   *simListener
	conns map[string]*grpc.ClientConn
	id    int
}

func (c39) Execute(t *testing.T, ctx *simrt.Ctx) *simrt.Violation {
	w := &world{ctx: ctx, conns: map[string]*grpc.ClientConn{}}
	return w.run()
}

func (w *world) run() *simrt.Violation {
	ctx := w.ctx
	sc := ctx.Sc
	for i := range sc.Ops {
		op := &sc.Ops[i]
		switch op.K {
		case "wl":
			l := append([]string{}, op.S...)
			if op.Int(0) == 0 {
				w.acl.wl = l
			} else {
				w.acl.wl2 = l
			}
		case "jw":
			w.acl.jw = append([]string{}, op.S...)
		case "jb":
			w.acl.jb = append([]string{}, op.S...)
		case "gw":
			w.acl.gw = append([]string{}, op.S...)
		case "gb":
			w.acl.gb = append([]string{}, op.S...)
		case "auth":
			w.acl.user, w.acl.pass = op.Str(0), op.Str(1)
		}
	}
	a := &w.acl
	if len(a.wl)+len(a.wl2) > 0 && !a.ipOnList("203.0.113.77") || len(a.jw)+len(a.jb)+len(a.gw)+len(a.gb) > 0 || a.user != "" || a.pass != "" {
		ctx.Probe("restrictive_config")
	}
	if len(a.wl2) > 0 && len(a.wl) == 0 {
		ctx.Probe("cfg_whitlist_key_only")
	}
	if len(a.wl2) > 0 && len(a.wl) > 0 {
		ctx.Probe("cfg_both_keys")
	}
	// --- the real servers under this configuration
	cfg := types.NewChain33Config(a.toml())
	q := queue.New("channel")
	q.SetConfig(cfg)
	w.api = &stubAPI{cfg: cfg}
	rpc.VerifResetACL()
	r := rpc.New(cfg)
	r.SetAPI(w.api)
	r.SetQueueClientNoListen(q.Client())
	w.r = r
	sim := &Sim{api: w.api}
	simrt.Must(r.JRPC().RegisterName("Sim", sim), "register Sim on JSON-RPC")
	r.GRPC().RegisterService(&simDesc, sim)
	jh, err := r.VerifJSONRPCHandler()
	simrt.Must(err, "JSON-RPC handler")
	w.jh = jh
	w.eh = r.VerifEthHandler()
	if w.eh == nil {
		simrt.Failf("rpcsim: no ethrpc handler")
	}
	w.ewsh = r.VerifEthWSHandler()
	if w.ewsh == nil {
		simrt.Failf("rpcsim: no ethrpc websocket handler")
	}
	w.wsl = &simListener{Listener: bufconn.Listen(1 << 16)}
	wsSrv := &http.Server{Handler: w.ewsh, ReadHeaderTimeout: 5 * time.Second}
	go func() { _ = wsSrv.Serve(w.wsl) }()
	defer wsSrv.Close()
	w.lis = &simListener{Listener: bufconn.Listen(1 << 16)}
	go func() { _ = r.GRPC().Serve(w.lis) }()
	defer func() {
		for _, c := range w.conns {
			_ = c.Close()
		}
		r.GRPC().Stop()
		r.Close()
		q.Close()
		rpc.VerifResetACL()
	}()

	clients := map[string]bool{}
	var deferred *simrt.Violation
	for i := range sc.Ops {
		op := &sc.Ops[i]
		if op.K != "req" {
			continue
		}
		ctx.CurOp = i
		ctx.Step()
		host := hostOf(op.Str(1))
		if !isLoopback(host) && len(clients) < 10 {
			clients[host] = true
		}
		var ran []string
		shape := "plain"
		switch op.Str(0) {
		case "jrpc":
			ran, shape = w.doJSON(op)
		case "grpc":
			ran, shape = w.doGRPC(op)
		case "eth":
			ran = w.doEth(op.Str(1), op.Str(2), op.Int(0) == 1)
		}
		ctx.Logf("%s %s %q [%s] -> ran %v", op.Str(0), op.Str(1), op.Str(2), shape, ran)
		if isLoopback(host) {
			if len(ran) > 0 {
				ctx.Probe("ran_loopback")
			}
			continue
		}
		if len(ran) == 0 {
			ctx.Probe("refused_nonloopback")
			// why, by the reference's lights (coverage only)
			m := op.Str(2)
			if i := strings.LastIndexAny(m, "./"); i >= 0 {
				m = m[i+1:]
			}
			if why := a.allowed(op.Str(0), host, m, op.Str(3)); why != "" {
				ctx.Probe("refused:" + why)
			} else if op.Str(0) != "eth" {
				ctx.Probe("refused:shape-or-stricter")
			}
		} else {
			ctx.Probe("ran:" + op.Str(0))
			if shape != "plain" {
				ctx.Probe("ran_odd_shape")
			}
		}
		for _, call := range ran {
			m := handlerOf(op.Str(0), call)
			ctx.Probe("ran_nonloopback")
			if op.Str(0) == "eth" {
				continue // the ethrpc clause is the admission comparison below
			}
			if why := a.allowed(op.Str(0), host, m, op.Str(3)); why != "" {
				kind := "unary"
				if m == "SubEvent" {
					kind = "stream"
					// streaming methods are reported last, so that the rest of the
					// run (all other oracles) is still evaluated
					if deferred != nil {
						continue
					}
				}
				v := ctx.Violate("acl-bypass", fmt.Sprintf("%s/%s/%s/%s", op.Str(0), why, kind, shape),
					"%s method %s ran for client %s although the configured access control forbids it (%s); request method %q auth %q path %q; config: whitelist=%q whitlist=%q jrpcFuncWhitelist=%q jrpcFuncBlacklist=%q grpcFuncWhitelist=%q grpcFuncBlacklist=%q user=%q pass=%q",
					op.Str(0), m, op.Str(1), why, op.Str(2), op.Str(3), op.Str(4), a.wl, a.wl2, a.jw, a.jb, a.gw, a.gb, a.user, a.pass)
				if kind == "stream" {
					deferred = v
					ctx.Probe("stream_bypass_seen")
					continue
				}
				return v
			}
		}
	}
	ctx.CurOp = len(sc.Ops)

	// --- second clause: with a non-empty whitelist under either key, ethrpc
	// admits exactly the client addresses the other two endpoints admit
	if len(a.wl)+len(a.wl2) > 0 {
		keys := "whitelist-key"
		if len(a.wl) == 0 {
			keys = "whitlist-key"
		} else if len(a.wl2) > 0 {
			keys = "both-keys"
		}
		var hosts []string
		for h := range clients {
			hosts = append(hosts, h)
		}
		for _, e := range append(append([]string(nil), a.wl...), a.wl2...) {
			if net.ParseIP(e) != nil && !isLoopback(e) && e != "0.0.0.0" && !clients[e] {
				hosts = append(hosts, e)
			}
		}
		sort.Strings(hosts)
		jm := pickAllowed(a.jw, a.jb, jMethods)
		gm := pickAllowed(a.gw, a.gb, gMethods)
		auth := "Basic " + base64.StdEncoding.EncodeToString([]byte(a.user+":"+a.pass))
		for _, h := range hosts {
			addr := net.JoinHostPort(h, "40000")
			eth := len(w.doEth(addr, "net_peerCount", false)) > 0
			ctx.Logf("admission of %s: ethrpc=%v (jsonrpc probe %q, grpc probe %q)", h, eth, jm, gm)
			fam := "ipv6"
			if ip := net.ParseIP(h); ip != nil && ip.To4() != nil {
				fam = "ipv4"
			}
			cmp := func(name string, other bool) *simrt.Violation {
				if other == eth {
					return nil
				}
				dir := "eth-admits-" + name + "-refuses"
				if !eth {
					dir = "eth-refuses-" + name + "-admits"
				}
				return ctx.Violate("ethrpc-whitelist-differs", keys+"/"+dir+"/"+fam,
					"client %s: ethrpc admits=%v but %s admits=%v; config: whitelist=%q whitlist=%q", h, eth, name, other, a.wl, a.wl2)
			}
			// the websocket endpoint of the same server admits the same clients
			ctx.Probe("ws_admission_compared")
			if v := cmp("eth-websocket", w.doEthWS(addr, "web3_clientVersion")); v != nil {
				return v
			}
			if jm != "" {
				body := []byte(fmt.Sprintf(`{"jsonrpc":"2.0","method":"Chain33.%s","params":[{}],"id":1}`, jm))
				j := len(w.serveJSON("POST", "/", addr, auth, body, false, false)) > 0
				ctx.Probe("admission_compared")
				if v := cmp("jsonrpc", j); v != nil {
					return v
				}
			}
			if gm != "" {
				g := len(w.invokeGRPC(addr, "/types.chain33/"+gm, false)) > 0
				if v := cmp("grpc", g); v != nil {
					return v
				}
			}
		}
	}
	ctx.State(simrt.DigestOf(len(a.wl), len(a.wl2), len(a.jw), len(a.jb), len(a.gw), len(a.gb), a.user != "", a.pass != ""))
	return deferred
}

// pickAllowed returns a registered method the method lists allow ("" if none).
func pickAllowed(white, black, names []string) string {
	for _, m := range names {
		if ok, _ := methodOK(white, black, m); ok && m != "CloseQueue" {
			return m
		}
	}
	return ""
}

var shapeNames = []string{"plain", "dup-method-last-wins", "dup-method-decoy-last", "key-case", "key-case-dup", "extra-fields", "params-object",
	"params-empty", "params-null", "params-two", "two-values", "batch", "id-string", "leading-ws", "unicode-escape", "method-non-string", "nested-method", "id-odd"}

func jsonBody(shape int64, method, decoy string, id int) []byte {
	q := func(s string) string { return fmt.Sprintf("%q", s) }
	switch shape {
	case 1:
		return []byte(fmt.Sprintf(`{"jsonrpc":"2.0","method":%s,"method":%s,"params":[{}],"id":%d}`, q(decoy), q(method), id))
	case 2:
		return []byte(fmt.Sprintf(`{"jsonrpc":"2.0","method":%s,"params":[{}],"id":%d,"method":%s}`, q(method), id, q(decoy)))
	case 3:
		return []byte(fmt.Sprintf(`{"jsonrpc":"2.0","Method":%s,"Params":[{}],"ID":%d}`, q(method), id))
	case 4:
		return []byte(fmt.Sprintf(`{"METHOD":%s,"method":%s,"mEthod":%s,"params":[{}],"id":%d}`, q(decoy), q(decoy), q(method), id))
	case 5:
		return []byte(fmt.Sprintf(`{"jsonrpc":"2.0","method":%s,"params":[{}],"id":%d,"extra":{"method":%s},"auth":"x","remote":"127.0.0.1"}`, q(method), id, q(decoy)))
	case 6:
		return []byte(fmt.Sprintf(`{"method":%s,"params":{},"id":%d}`, q(method), id))
	case 7:
		return []byte(fmt.Sprintf(`{"method":%s,"params":[],"id":%d}`, q(method), id))
	case 8:
		return []byte(fmt.Sprintf(`{"method":%s,"params":[null],"id":%d}`, q(method), id))
	case 9:
		return []byte(fmt.Sprintf(`{"method":%s,"params":[{},{"method":%s}],"id":%d}`, q(method), q(decoy), id))
	case 10:
		return []byte(fmt.Sprintf(`{"method":%s,"params":[{}],"id":%d}{"method":%s,"params":[{}],"id":%d}`, q(decoy), id, q(method), id+1))
	case 11:
		return []byte(fmt.Sprintf(`[{"method":%s,"params":[{}],"id":%d}]`, q(method), id))
	case 12:
		return []byte(fmt.Sprintf(`{"method":%s,"params":[{}],"id":"%d"}`, q(method), id))
	case 13:
		return []byte(fmt.Sprintf("\n\t  {\"method\":%s,\n\"params\":[{}],\"id\":%d}\n\n", q(method), id))
	case 14:
		var esc strings.Builder
		for i, c := range method {
			if i%2 == 0 && c < 128 {
				esc.WriteString(fmt.Sprintf("\\u%04x", c))
			} else {
				esc.WriteRune(c)
			}
		}
		return []byte(fmt.Sprintf(`{"method":"%s","params":[{}],"id":%d}`, esc.String(), id))
	case 15:
		return []byte(fmt.Sprintf(`{"method":[%s],"params":[{}],"id":%d}`, q(method), id))
	case 16:
		return []byte(fmt.Sprintf(`{"params":[{"method":%s}],"id":%d,"method":%s}`, q(decoy), id, q(method)))
	case 17:
		return []byte(fmt.Sprintf(`{"method":%s,"params":[{}],"id":-%d.5}`, q(method), id))
	}
	return []byte(fmt.Sprintf(`{"jsonrpc":"2.0","method":%s,"params":[{}],"id":%d}`, q(method), id))
}

// serveJSON hands one request to the real JSON-RPC handler chain and returns the
// API functions the invoked method reached.
func (w *world) serveJSON(verb, path, addr, auth string, body []byte, gzBody, gzAccept bool) []string {
	if gzBody {
		var b bytes.Buffer
		zw := gzip.NewWriter(&b)
		_, _ = zw.Write(body)
		_ = zw.Close()
		body = b.Bytes()
	}
	req := httptest.NewRequest(verb, "http://node.example"+path, bytes.NewReader(body))
	req.RemoteAddr = addr
	req.Header.Set("Content-Type", "application/json")
	if auth != "" {
		req.Header.Set("Authorization", auth)
	}
	if gzBody {
		req.Header.Set("Content-Encoding", "gzip")
	}
	if gzAccept {
		req.Header.Set("Accept-Encoding", "gzip")
	}
	w.api.take()
	rec := httptest.NewRecorder()
	w.jh.ServeHTTP(rec, req)
	_, _ = io.Copy(io.Discard, rec.Body)
	return w.api.take()
}

func (w *world) doJSON(op *simrt.Op) ([]string, string) {
	w.id++
	shape := op.Int(0)
	if shape < 0 || int(shape) >= len(shapeNames) {
		shape = 0
	}
	verb := []string{"POST", "GET", "PUT"}[int(op.Int(1))%3]
	gz := op.Int(2)
	body := jsonBody(shape, op.Str(2), op.Str(5), w.id)
	name := shapeNames[shape]
	if gz == 1 || gz == 3 {
		name += "+gzip-body"
	}
	if op.Str(4) != "/" {
		name += "+path"
	}
	return w.serveJSON(verb, op.Str(4), op.Str(1), op.Str(3), body, gz == 1 || gz == 3, gz >= 2), name
}

func (w *world) conn(addr string) *grpc.ClientConn {
	if c := w.conns[addr]; c != nil {
		return c
	}
	c, err := w.lis.dialFrom(addr)
	simrt.Must(err, "in-memory gRPC dial")
	w.conns[addr] = c
	return c
}

// invokeGRPC performs one call on the real gRPC server over the simulated
// transport, as a client whose peer address is addr.
func (w *world) invokeGRPC(addr, method string, compress bool) []string {
	c := w.conn(addr)
	w.api.take()
	ctx, cancel := context.WithTimeout(context.Background(), 10*time.Second)
	defer cancel()
	var opts []grpc.CallOption
	if compress {
		opts = append(opts, grpc.UseCompressor("gzip"))
	}
	if strings.HasSuffix(method, "/SubEvent") {
		st, err := c.NewStream(ctx, &grpc.StreamDesc{ServerStreams: true}, method, opts...)
		if err == nil {
			if err = st.SendMsg(&types.ReqSubscribe{Name: "sim", Type: 0}); err == nil {
				_ = st.CloseSend()
				_ = st.RecvMsg(&types.PushData{})
			}
		}
		return w.api.take()
	}
	var out types.Reply
	_ = c.Invoke(ctx, method, &types.ReqNil{}, &out, opts...)
	return w.api.take()
}

func (w *world) doGRPC(op *simrt.Op) ([]string, string) {
	shape := "plain"
	if op.Int(0) == 1 {
		shape = "gzip"
	}
	return w.invokeGRPC(op.Str(1), op.Str(2), op.Int(0) == 1), shape
}

// doEthWS opens a real websocket connection to the Ethereum-compatible websocket
// endpoint object as a client whose peer address is addr and calls one method.
func (w *world) doEthWS(addr, method string) bool {
	d := websocket.Dialer{HandshakeTimeout: 5 * time.Second, NetDialContext: func(ctx context.Context, _, _ string) (net.Conn, error) {
		w.wsl.mu.Lock()
		w.wsl.next = append(w.wsl.next, strAddr(addr))
		w.wsl.mu.Unlock()
		return w.wsl.Listener.DialContext(ctx)
	}}
	ctx, cancel := context.WithTimeout(context.Background(), 10*time.Second)
	defer cancel()
	c, err := gethrpc.DialOptions(ctx, "ws://node.example", gethrpc.WithWebsocketDialer(d))
	if err != nil {
		return false // the upgrade was refused
	}
	defer c.Close()
	var out string
	if err := c.CallContext(ctx, &out, method); err != nil {
		return false
	}
	return out != ""
}

func (w *world) doEth(addr, method string, ws bool) []string {
	w.id++
	body := fmt.Sprintf(`{"jsonrpc":"2.0","method":%q,"params":[],"id":%d}`, method, w.id)
	req := httptest.NewRequest("POST", "http://node.example/", strings.NewReader(body))
	req.RemoteAddr = addr
	req.Header.Set("Content-Type", "application/json")
	w.api.take()
	rec := httptest.NewRecorder()
	w.eh.ServeHTTP(rec, req)
	calls := w.api.take()
	if method == "web3_clientVersion" && rec.Code == http.StatusOK && strings.Contains(rec.Body.String(), `"result"`) {
		calls = append(calls, "web3_clientVersion")
	}
	return calls
}
