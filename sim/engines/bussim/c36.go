// Package bussim is C36: the in-process message bus (queue package) under a
// seeded scheduler. Harness actors (requesters, responders, closers) are
// scheduled one step at a time, and the queue package itself carries
// verifhook.Yield points (injected by the overlay, see hooks/rewrites.json) at
// the places where its own synchronisation decides an interleaving, so goroutines
// of the bus park there and are released by the same scheduler.
package bussim

import (
	"fmt"
	"sync"
	"sync/atomic"
	"testing"
	"time"

	"github.com/33cn/chain33/common/verifhook"
	"github.com/33cn/chain33/queue"
	"github.com/33cn/chain33/types"

	"verifsim/simrt"
)

func init() {
	queue.DisableLog()
	simrt.Register(&simrt.Info{Property: "C36", Engine: &busEngine{}, PanicClass: "bus-panic",
		Nontrivial: func(sc *simrt.Scenario, r *simrt.Result) bool {
			return r.Probes["replies_checked"] > 0 && (r.Faults["client_close"]+r.Faults["queue_close_midway"]+r.Faults["reply_withheld"]+r.Faults["timeout_fired"]) > 0
		}})
}

type busEngine struct{}

func (busEngine) Name() string { return "bussim" }

const (
	nTopics = 3
)

type payload struct {
	ReqID int64 // unique per request: makes cross-talk attributable
	From  string
}

// Requester op kinds
const (
	opSync        = iota // Send(wait) ; Wait
	opSyncTimeout        // SendTimeout ; WaitTimeout(t)
	opAsync              // Send(no wait)
)

func (busEngine) Generate(prop string, r *simrt.RNG, tier string, run int) *simrt.Scenario {
	sc := &simrt.Scenario{Knobs: map[string]int64{}}
	nreq := r.Range(2, 4)
	// responders: one per topic; behaviour per received message: 0 reply, 1 reply late, 2 never reply
	for t := 0; t < nTopics; t++ {
		op := simrt.Op{K: "responder", I: []int64{int64(t)}}
		for k, n := 0, r.Range(4, 12); k < n; k++ {
			op.I = append(op.I, int64(r.Weighted(6, 2, 1)))
		}
		sc.Ops = append(sc.Ops, op)
	}
	for q := 0; q < nreq; q++ {
		op := simrt.Op{K: "requester", I: []int64{int64(q)}}
		for k, n := 0, r.Range(2, 6); k < n; k++ {
			// sub-op: I=[kind, topic, timeout ms, recycle]
			op.Sub = append(op.Sub, simrt.Op{K: "req", I: []int64{int64(r.Weighted(6, 3, 2)), int64(r.Intn(nTopics)), int64(r.Range(1, 3000)), int64(r.Intn(2))}})
		}
		sc.Ops = append(sc.Ops, op)
	}
	if r.Chance(1, 3) {
		sc.Knobs["stalled"] = 1
	}
	// closers: I=[what (0 responder client, 1 whole queue), topic, twice]
	for k, n := 0, r.Range(0, 2); k < n; k++ {
		sc.Ops = append(sc.Ops, simrt.Op{K: "closer", I: []int64{int64(r.Weighted(3, 1)), int64(r.Intn(nTopics)), int64(r.Intn(2))}})
	}
	return sc
}

func (e busEngine) Execute(t *testing.T, ctx *simrt.Ctx) *simrt.Violation {
	var viol *simrt.Violation
	simrt.InBubble(t, func() { viol = e.run(ctx) })
	return viol
}

type world struct {
	ctx    *simrt.Ctx
	mu     sync.Mutex
	viol   *simrt.Violation
	nextID int64
	seen   map[string]map[int64]int // responder -> message id -> count
	stop   chan struct{}
}

func (w *world) fail(v *simrt.Violation) {
	w.mu.Lock()
	if w.viol == nil {
		w.viol = v
	}
	w.mu.Unlock()
}

func (busEngine) run(ctx *simrt.Ctx) *simrt.Violation {
	sc := ctx.Sc
	q := queue.New("channel")
	preClient := q.Client() // used only after the final close (phase 4)
	w := &world{ctx: ctx, seen: map[string]map[int64]int{}, stop: make(chan struct{})}
	sched := simrt.NewSched(ctx)
	sched.Patience = 20 * time.Second
	var active int32 = 1
	var finalClose int32
	oldYield := verifhook.Yield
	verifhook.Yield = func(site string) {
		if atomic.LoadInt32(&active) == 1 {
			sched.Park("bus:"+site, site)
		}
	}
	defer func() { verifhook.Yield = oldYield }()
	topic := func(i int64) string { return fmt.Sprintf("topic%d", ((i%nTopics)+nTopics)%nTopics) }

	respClients := map[int64]queue.Client{}
	var respMu sync.Mutex
	var queueClosed int32
	// closing[t] is set BEFORE the responder client of topic t starts closing, so
	// a "closed" error seen while neither it nor queueClosed is set was produced
	// for nothing this requester did
	closing := map[int64]bool{}
	closedErr := func(err error) bool {
		return err == types.ErrChannelClosed || err == queue.ErrIsQueueClosed
	}
	spurious := func(name string, id int64, tp int64, what string, err error) {
		respMu.Lock()
		c := closing[tp%nTopics]
		respMu.Unlock()
		if closedErr(err) && !c && atomic.LoadInt32(&queueClosed) == 0 && atomic.LoadInt32(&finalClose) == 0 {
			w.fail(ctx.Violate("wrong-reply", "closed-error-without-close", "%s request %d on %s: %s returned %v although neither that topic's client nor the queue had been closed", name, id, topic(tp), what, err))
		}
	}

	for i := range sc.Ops {
		op := sc.Ops[i]
		switch op.K {
		case "responder":
			tp := op.Int(0) % nTopics
			name := fmt.Sprintf("resp%d", tp)
			if _, dup := w.seen[name]; dup {
				continue
			}
			w.seen[name] = map[int64]int{}
			c := q.Client()
			c.Sub(topic(tp))
			respMu.Lock()
			respClients[tp] = c
			respMu.Unlock()
			behaviours := op.I[1:]
			sched.Go(name, func(a *simrt.Actor) {
				n := 0
				for {
					var msg *queue.Message
					var ok bool
					select {
					case msg, ok = <-c.Recv():
					case <-w.stop:
						return
					}
					if !ok {
						return
					}
					a.Yield("got-message")
					w.mu.Lock()
					w.seen[name][msg.ID]++
					cnt := w.seen[name][msg.ID]
					w.mu.Unlock()
					if cnt > 1 {
						w.fail(ctx.Violate("duplicate-delivery", "subscriber-saw-message-twice", "%s received message id %d %d times", name, msg.ID, cnt))
					}
					p, isP := msg.Data.(*payload)
					if !isP {
						continue // close marker / foreign data
					}
					b := int64(0)
					if n < len(behaviours) {
						b = behaviours[n]
					}
					n++
					switch b {
					case 2:
						w.mu.Lock()
						ctx.Faults["reply_withheld"]++
						w.mu.Unlock()
						continue
					case 1:
						a.Yield("reply-late-1")
						time.Sleep(time.Duration(500) * time.Millisecond)
						a.Yield("reply-late-2")
					}
					msg.Reply(c.NewMessage("", msg.Ty, &payload{ReqID: p.ReqID, From: name}))
					a.Yield("replied")
				}
			})
		case "requester":
			name := fmt.Sprintf("req%d", op.Int(0))
			subs := op.Sub
			c := q.Client()
			sched.Go(name, func(a *simrt.Actor) {
				for _, s := range subs {
					kind, tp, tmo, recycle := s.Int(0), s.Int(1), time.Duration(s.Int(2))*time.Millisecond, s.Int(3) == 1
					w.mu.Lock()
					w.nextID++
					id := w.nextID
					w.mu.Unlock()
					msg := c.NewMessage(topic(tp), 1000+kind, &payload{ReqID: id, From: name})
					a.Yield("send")
					var err error
					switch kind {
					case opAsync:
						err = c.Send(msg, false)
						_ = err
						continue
					case opSync:
						err = c.Send(msg, true)
					default:
						err = c.SendTimeout(msg, true, tmo)
					}
					if err != nil {
						spurious(name, id, tp, "Send", err)
						continue // refused (closed / full / timeout): an error, not a block
					}
					a.Yield("wait")
					var reply *queue.Message
					if kind == opSync {
						reply, err = c.Wait(msg)
					} else {
						reply, err = c.WaitTimeout(msg, tmo)
						if err == queue.ErrQueueTimeout {
							w.mu.Lock()
							ctx.Faults["timeout_fired"]++
							w.mu.Unlock()
						}
					}
					if err != nil {
						spurious(name, id, tp, "Wait", err)
						continue
					}
					rp, isP := reply.GetData().(*payload)
					if !isP {
						w.fail(ctx.Violate("wrong-reply", "not-a-reply-payload", "%s request %d got a reply carrying %T", name, id, reply.GetData()))
						continue
					}
					w.mu.Lock()
					ctx.Probes["replies_checked"]++
					w.mu.Unlock()
					if rp.ReqID != id {
						w.fail(ctx.Violate("wrong-reply", "other-requests-reply", "%s sent request %d on %s and received the reply produced for request %d (by %s)", name, id, topic(tp), rp.ReqID, rp.From))
					}
					if recycle {
						// recycle only what nobody references any more: the answered
						// request and its reply
						c.FreeMessage(msg, reply)
						w.mu.Lock()
						ctx.Probes["recycled"]++
						w.mu.Unlock()
					}
					a.Yield("next")
				}
			})
		case "closer":
			what, tp, twice := op.Int(0), op.Int(1)%nTopics, op.Int(2) == 1
			name := fmt.Sprintf("closer%d", i)
			sched.Go(name, func(a *simrt.Actor) {
				// let some traffic happen first: a few scheduling turns
				for k := 0; k < 3; k++ {
					a.Yield("idle")
				}
				if what == 0 {
					// one closer per client: concurrent Close calls on the SAME client
					// object are outside the property (it speaks about sends and waits
					// after a close); a second, sequential Close is still exercised
					respMu.Lock()
					c := respClients[tp]
					delete(respClients, tp)
					if c != nil {
						closing[tp] = true
					}
					respMu.Unlock()
					if c != nil {
						w.mu.Lock()
						ctx.Faults["client_close"]++
						w.mu.Unlock()
						c.Close()
						if twice {
							a.Yield("close-again")
							c.Close()
						}
					}
				} else {
					w.mu.Lock()
					ctx.Faults["queue_close_midway"]++
					w.mu.Unlock()
					atomic.StoreInt32(&queueClosed, 1)
					q.Close()
					if twice {
						a.Yield("close-again")
						q.Close()
					}
				}
			})
		}
	}
	// A subscriber that stopped reading while its topic keeps receiving: both of
	// the topic's buffers fill up. Nothing else on the bus may be affected, and
	// the final queue.Close must still return.
	if sc.Knob("stalled", 0) == 1 {
		stall := q.Client()
		stall.Sub("stalled-topic")
		var flooded int32
		fc := q.Client()
		sched.Go("flooder", func(a *simrt.Actor) {
			full := 0
			for k := 0; k < 200 && full < 6; k++ {
				m := fc.NewMessage("stalled-topic", 2000, &payload{ReqID: -int64(k) - 1, From: "flooder"})
				var err error
				if k%2 == 0 {
					err = fc.SendTimeout(m, true, 0)
				} else {
					err = fc.Send(m, false)
				}
				if err != nil {
					full++
				}
				if k%16 == 0 {
					a.Yield("flood")
				}
			}
			w.mu.Lock()
			ctx.Faults["subscriber_stalled_buffers_full"]++
			w.mu.Unlock()
			atomic.StoreInt32(&flooded, 1)
			// The stalled subscriber's own client is closed now, by a goroutine that
			// is not one of the scheduled tasks: Close waits for the subscriber's pump
			// and the pump waits for a reader, so this call may legitimately never
			// return. What must not happen is that it takes the rest of the bus with it.
			go stall.Close()
		})
	}
	// phase 1: run the traffic
	dead := sched.Run(4000)
	// Requests whose responder withheld the reply (or was slow) may legitimately
	// still be waiting. Phase 2: the whole queue is closed; now EVERY send and wait
	// must return (an error) instead of blocking forever.
	if dead != "" {
		ctx.Probe("blocked_before_final_close")
	}
	closed := make(chan struct{})
	atomic.StoreInt32(&finalClose, 1)
	go func() {
		q.Close()
		close(closed)
	}()
	// responders are harness loops waiting for messages: tell them to leave
	close(w.stop)
	dead2 := sched.Run(8000)
	simrt.Settle()
	select {
	case <-closed:
	default:
		// q.Close itself parked at a yield or blocked: release and look again
	}
	atomic.StoreInt32(&active, 0)
	dead3 := sched.Run(12000)
	w.mu.Lock()
	v := w.viol
	w.mu.Unlock()
	if v != nil {
		return v
	}
	if dead2 != "" || dead3 != "" {
		d := dead2
		if d == "" {
			d = dead3
		}
		return ctx.Violate("blocks-after-close", "requester-or-closer-stuck", "after the queue was closed some tasks never returned: %s", d)
	}
	// phase 4: the queue is closed. A client that turns to a topic nobody has
	// used before (topics are created on first use) must be refused as well:
	// the send or the wait returns an error, nothing blocks.
	select {
	case <-closed:
	case <-time.After(20 * time.Second):
		return ctx.Violate("blocks-after-close", "queue-close-stuck", "queue.Close did not return within 20 virtual seconds after every task had returned")
	}
	for k, late := range []queue.Client{preClient, q.Client()} {
		tpc := fmt.Sprintf("never-used-%d-%d", sc.Run%5, k)
		res := make(chan string, 1)
		go func() {
			msg := late.NewMessage(tpc, 77, "late")
			if err := late.Send(msg, true); err != nil {
				res <- ""
				return
			}
			if _, err := late.Wait(msg); err != nil {
				res <- ""
				return
			}
			res <- "a synchronous request to " + tpc + " after queue.Close was accepted and answered"
		}()
		select {
		case bad := <-res:
			if bad != "" {
				return ctx.Violate("wrong-reply", "reply-after-queue-close", "%s", bad)
			}
			ctx.Probe("late_request_to_unused_topic_refused")
		case <-time.After(30 * time.Second):
			return ctx.Violate("blocks-after-close", "send-or-wait-on-unused-topic", "after queue.Close a synchronous request to topic %q (never used before) was accepted and its wait did not return within 30 virtual seconds (client created %s the close)", tpc, []string{"before", "after"}[k])
		}
	}
	return nil
}
