package storesim

import (
	"fmt"
	"testing"
	"time"

	mavldb "github.com/33cn/chain33/system/store/mavl/db"

	"verifsim/simdb"
	"verifsim/simrt"
)

// C05 — state pruning never deletes live state.
//
// The store runs with enableMavlPrune and a small prune interval. The simulator
// owns the per-height commit history of one chain (linear growth; roll back k
// heights and re-commit different or identical content at the same heights;
// heights with no state change; sparse heights that cross the second- and
// third-level thresholds of the pruner), the way a height is committed (Set, or
// MemSet then Commit), when pruning runs (explicit PruningTree at any tip height,
// and the store's own background trigger), the interleaving of the background
// pruner's disk operations with the chain's following commits (seeded scheduler:
// every disk operation of the pruner, and of a commit, is a scheduling decision),
// and the process lifetime (clean restart, close while the pruner runs, crash in
// the middle of a pruning pass: the disk is cloned at that point and a new
// process boots from the clone).
//
// Model: current chain position -> (height, root); root -> content.
// Oracle: after every completed pruning pass, at explicit check points (also while
// the pruner is in the middle of a pass), after every restart and at the end: for
// the tip and every current-chain state whose height is within the prune
// interval below the highest height ever committed, every model key reads back
// its value and full iteration matches. Data that no such state references may
// or may not survive.

func init() {
	simrt.Register(&simrt.Info{
		Property: "C05", Engine: &c05{},
		Real:       []string{"system/store/mavl/db prune.go (pruningTree, first/second/third level, deleteNode, deleteOldNode), tree.go Save trigger, isRemoveLeafCountKey/DelLeafCountKV/RemoveLeafCountKey/saveRootHash, SaveNode leaf version index", "system/store/mavl Store (New, Set, MemSet, Commit, Get, IterateRangeByStateHash, Close/ClosePrune)", "the background pruner goroutine started by Tree.Save", "common/db GoMemDB + iterator wrapper under simdb (snapshot iterators)"},
		Stub:       []string{"disk: simdb (atomic batches; a crash is a clone of the durable content at that point)", "chain: one scripted harness actor under the seeded scheduler"},
		FaultKinds: []string{"close_reopen", "close_while_pruning", "crash_restart", "crash_mid_prune", "rollback_recommit", "explicit_prune", "background_prune"},
		Rule:       "one case = one per-height commit script (growth, rollbacks with different/identical re-commits, empty heights, height jumps across the pruner's level thresholds, explicit prunes, checks, restarts) under one prune interval and one scheduler tape; distinct = distinct scenario digest + schedule digest; non-trivial = at least 6 heights committed, at least one pruning pass completed that deleted at least one record, and at least one retained non-tip state was verified after it",
		Nontrivial: func(sc *simrt.Scenario, r *simrt.Result) bool {
			return r.Probes["height_committed"] >= 6 && r.Probes["prune_deleted_records"] > 0 && r.Probes["retained_non_tip_state_verified"] > 0
		},
	})
}

type c05 struct{}

func (c05) Name() string { return "storesim" }

func (c05) Generate(prop string, r *simrt.RNG, tier string, run int) *simrt.Scenario {
	sc := &simrt.Scenario{Knobs: map[string]int64{}}
	bits := int64(BitPrune)
	if r.Chance(1, 2) {
		bits |= BitPrefix // redundant with prune (the constructor forces it) but a distinct config path
	}
	// strict / open: the recorded known mem-tree defect needs the mem-tree; strict runs keep it off
	if r.Chance(3, 10) {
		sc.Knobs["open"] = 1
		if r.Chance(1, 2) {
			bits |= BitMemTree
			if r.Chance(1, 2) {
				bits |= BitMemVal
			}
			if r.Chance(1, 12) {
				sc.Knobs["realmeminit"] = 1
			}
		}
	}
	sc.Knobs["cfg"] = bits
	sc.Knobs["pruneheight"] = int64(r.Range(2, 8))
	sc.Knobs["cache"] = int64([]int{0, 0, 2, 16}[r.Intn(4)])
	if r.Chance(1, 3) {
		sc.Knobs["chainparks"] = 1 // commits' disk operations are scheduling points too
	}
	space := r.Range(6, 40)
	key := func() []byte { return []byte(fmt.Sprintf("mavl-acc-%03d", r.Intn(space))) }
	uniq := 0
	kvs := func() []simrt.Op {
		n := r.Range(1, 12)
		if r.Chance(1, 10) {
			n = 0 // a height with no state change
		}
		var subs []simrt.Op
		for i := 0; i < n; i++ {
			k := key()
			subs = append(subs, KVOp(k, GenValue(r, &uniq, k)))
		}
		return subs
	}
	nops := r.Range(10, 60)
	if tier == "thorough" {
		nops = r.Range(10, 80)
	}
	jumpy := r.Chance(1, 4) // runs that cross the level thresholds
	for i := 0; i < nops; i++ {
		switch r.Weighted(30, 4, 3, 5, 6, 2, 1, 1, 2) {
		case 0:
			jump := int64(0)
			if r.Chance(1, 12) {
				jump = 1 // small gap
			}
			if jumpy && r.Chance(1, 5) {
				jump = int64(r.Range(2, 5)) // around 500000 / 1000000 / 1500000 / 2000000
			}
			sc.Ops = append(sc.Ops, simrt.Op{K: "commit", I: []int64{int64(r.Intn(2)), jump, int64(r.Intn(20))}, Sub: kvs()})
		case 1: // roll back k heights; the following commits re-use the heights with different content
			sc.Ops = append(sc.Ops, simrt.Op{K: "rollback", I: []int64{int64(r.Range(1, 8))}})
		case 2: // roll back k heights and re-commit identical content at the same heights
			sc.Ops = append(sc.Ops, simrt.Op{K: "recommit", I: []int64{int64(r.Range(1, 8)), int64(r.Intn(2))}})
		case 3:
			sc.Ops = append(sc.Ops, simrt.Op{K: "prune"})
		case 4:
			sc.Ops = append(sc.Ops, simrt.Op{K: "check", I: []int64{int64(r.Intn(16))}})
		case 5:
			sc.Ops = append(sc.Ops, simrt.Op{K: "settle"})
		case 6:
			sc.Ops = append(sc.Ops, simrt.Op{K: "reopen", I: []int64{int64(r.Intn(2))}})
		case 7:
			sc.Ops = append(sc.Ops, simrt.Op{K: "crash"})
		case 8: // a burst of plain growth so that the background trigger fires and has work
			for j := r.Range(3, 10); j > 0; j-- {
				sc.Ops = append(sc.Ops, simrt.Op{K: "commit", I: []int64{int64(r.Intn(2)), 0, 0}, Sub: kvs()})
			}
		}
	}
	return sc
}

type chainPos struct {
	height int64
	root   []byte
	batch  []simrt.Op // the writes that produced it from its predecessor
	mode   int64
}

type c05World struct {
	ctx   *simrt.Ctx
	n     *Node
	cfg   Config
	ph    int64
	chain []chainPos // current chain; chain[0] is the empty genesis state
	// heights ever used above the current tip (re-used after a rollback)
	future   []int64
	content  map[string]*State
	maxH     int64
	passMax  int64 // greatest height a pruning pass was run (or may have been started) for
	viol     *simrt.Violation
	sched    *simrt.Sched
	chainGID uint64
	parks    bool // the chain's own disk operations are scheduling points right now
	actor    *simrt.Actor
	// pruning pass bookkeeping
	sawPruning   bool
	pendingCheck bool
	nodesBefore  int
	prunerParked int
	open         bool
	// shapes of recorded known defects that occurred in this run (for attribution)
	shapeEmptyMemSetRecommit bool
	shapeSingleLeafAbandoned bool
	shapeTwiceAbandoned      bool
	shapeIdenticalRecommit   bool
	shapeIdenticalRewrite    bool
	padSeq                   int
	abandoned                map[int64]int // height -> how often a block at that height was abandoned
}

func (w *c05World) fail(v *simrt.Violation) {
	if v != nil && w.viol == nil {
		shape := ""
		if w.shapeEmptyMemSetRecommit {
			shape += "+empty-memset-recommit-at-reused-height"
		}
		if w.shapeSingleLeafAbandoned {
			shape += "+abandoned-single-leaf-state"
		}
		if w.shapeTwiceAbandoned {
			shape += "+height-abandoned-twice"
		}
		if w.shapeIdenticalRecommit {
			shape += "+identical-recommit-at-reused-height"
		}
		if w.shapeIdenticalRewrite {
			shape += "+height-rewrites-identical-values"
		}
		if shape == "" {
			shape = "no-known-shape"
		}
		v.Sig += "|" + w.cfg.String() + "|" + shape
		w.viol = v
	}
}

func (c05) Execute(t *testing.T, ctx *simrt.Ctx) *simrt.Violation {
	w := &c05World{ctx: ctx, content: map[string]*State{}, abandoned: map[int64]int{}}
	simrt.InBubble(t, func() { w.run() })
	return w.viol
}

func (w *c05World) installHooks() {
	d := w.n.Disk
	d.SnapshotIters = true // LevelDB iterators read a snapshot
	d.Hooks.Yield = func(site string) {
		if goid() == w.chainGID {
			if w.parks {
				w.sched.Park("chain", site)
			}
			return
		}
		w.prunerParked++
		w.sched.Park("pruner", site)
		w.prunerParked--
	}
}

// prunerAlive: a pruning pass is marked as running, or a pruner goroutine is parked
// at one of its disk operations.
func (w *c05World) prunerAlive() bool {
	if !mavldb.VerifPruning() && w.prunerParked > 0 {
		w.ctx.Probe("pruner_parked_but_flag_clear")
	}
	return mavldb.VerifPruning() || w.prunerParked > 0
}

func (w *c05World) run() {
	ctx := w.ctx
	sc := ctx.Sc
	w.cfg = ConfigFromKnobs(sc)
	w.cfg.Prune = true
	w.cfg.MVCC = false
	if w.cfg.PruneHeight < 2 {
		w.cfg.PruneHeight = 2
	}
	w.ph = int64(w.cfg.PruneHeight)
	w.open = sc.Knob("open", 0) == 1
	w.n = NewNode("c05", w.cfg)
	defer func() { w.n.Destroy() }()
	w.chain = []chainPos{{height: 0, root: nil}}
	w.content[""] = NewState()
	w.sched = simrt.NewSched(ctx)
	before := len(ctx.TapeOut())
	w.sched.Go("chain", func(a *simrt.Actor) {
		w.actor = a
		w.chainGID = goid()
		w.installHooks()
		for i := range sc.Ops {
			if w.viol != nil {
				break
			}
			a.Yield(sc.Ops[i].K)
			ctx.CurOp = i
			w.do(&sc.Ops[i])
			w.afterOp()
		}
		if w.viol == nil {
			ctx.CurOp = len(sc.Ops)
			w.drain()
			w.checkRetained("final")
		}
		// let a still running pruner finish on its own before the node is torn down
		w.n.Disk.Hooks.Yield = nil
	})
	dl := w.sched.Run(2000000)
	if dl != "" {
		simrt.Failf("C05: scheduler reports a deadlock: %s", dl)
	}
	for _, x := range ctx.TapeOut()[before:] {
		if x != 0 {
			ctx.Probe("sched_nonfirst")
			break
		}
	}
}

func (w *c05World) tip() chainPos { return w.chain[len(w.chain)-1] }

// nextHeight picks the height of the next commit: a height that was used before
// (after a rollback), or a new one.
func (w *c05World) nextHeight(jump int64) int64 {
	if len(w.future) > 0 {
		h := w.future[0]
		w.future = w.future[1:]
		return h
	}
	t := w.tip().height
	switch jump {
	case 0:
		return t + 1
	case 1:
		return t + 3
	case 2:
		return t + 499990
	case 3:
		return t + 500003
	case 4:
		return t + 1000001
	default:
		return t + 1500002
	}
}

func (w *c05World) commit(mode int64, h int64, batch []simrt.Op, how string) {
	ctx := w.ctx
	parent := w.tip()
	pst := w.content[string(parent.root)]
	if !w.open && pst.Len() < 2 && len(batch) > 0 {
		// strict runs: no single-key states (a tree that is one leaf is stored without
		// height prefix, which the re-commit clean-up cannot find: recorded known shape)
		batch = append(append([]simrt.Op(nil), batch...), KVOp([]byte("mavl-acc-pad1"), []byte("p1")), KVOp([]byte("mavl-acc-pad2"), []byte("p2")))
	}
	child := applyModel(pst, batch)
	if len(batch) > 0 && child.Equal(pst) {
		// Every write of this height equals the current value: the state root is the
		// parent's, but the touched leaves are stored again under the new height.
		// Recorded known shape (a later pass deletes nodes the unchanged root still
		// references). Strict runs add one fresh key so that the state does change.
		if w.open {
			w.shapeIdenticalRewrite = true
			ctx.Probe("height_rewrites_identical_values")
		} else {
			w.padSeq++
			batch = append(append([]simrt.Op(nil), batch...), KVOp([]byte(fmt.Sprintf("mavl-acc-rw%03d", w.padSeq)), []byte(fmt.Sprintf("w%d", w.padSeq))))
			child = applyModel(pst, batch)
		}
	}
	kvs := KVs(batch)
	if len(kvs) == 0 && mode == 1 && h <= w.maxH {
		// A height that was used before is re-committed without any state change
		// through MemSet+Commit: the store then writes nothing at all. Recorded known
		// shape (stale version-index entries of the abandoned block survive); strict
		// runs take the Set path for it instead.
		if w.open {
			w.shapeEmptyMemSetRecommit = true
			ctx.Probe("empty_memset_recommit_at_reused_height")
		} else {
			mode = 0
		}
	}
	w.parks = ctx.Sc.Knob("chainparks", 0) == 1
	var root []byte
	var err error
	var pnc interface{}
	api := "store.Set"
	if mode == 0 {
		root, err, pnc = w.n.StoreSet(parent.root, kvs, h)
	} else {
		api = "store.MemSet+Commit"
		var r1 []byte
		r1, err, pnc = w.n.MemSet(parent.root, kvs, h)
		if pnc == nil && err == nil {
			root, err, pnc = w.n.Commit(r1)
		}
	}
	w.parks = false
	if pnc != nil {
		w.fail(ctx.Violate("commit-panic", api+"/"+how, "%s(parent=%x at height %d, %d kvs, height=%d) panicked: %v", api, parent.root, parent.height, len(kvs), h, pnc))
		return
	}
	if err != nil {
		if len(kvs) == 0 && len(parent.root) == 0 {
			// nothing to commit on the empty state
			root = nil
		} else {
			w.fail(ctx.Violate("commit-failed", api+"/"+how, "%s(parent=%x, %d kvs, height=%d) returned %v", api, parent.root, len(kvs), h, err))
			return
		}
	}
	if old, ok := w.content[string(root)]; ok && !old.Equal(child) {
		w.fail(ctx.Violate("root-aliasing", api, "%s returned root %x which identifies different content", api, root))
		return
	}
	w.content[string(root)] = child
	w.chain = append(w.chain, chainPos{height: h, root: root, batch: batch, mode: mode})
	if h > w.maxH {
		w.maxH = h
	}
	// the store's own trigger: a pass for height h may have been started by this commit
	if w.ph > 0 && h%w.ph == 0 && h/w.ph > 1 && h > w.passMax {
		w.passMax = h
	}
	ctx.Probe("height_committed")
	if len(kvs) == 0 {
		ctx.Probe("height_without_state_change")
	}
	if h >= 1000000 {
		ctx.Probe("height_beyond_second_level_threshold")
	}
	if h >= 2000000 {
		ctx.Probe("height_beyond_third_level_threshold")
	}
	ctx.State(child.Digest())
	ctx.Logf("commit %s h=%d root=%x keys=%d", how, h, root, child.Len())
}

// rollback moves the tip back by k positions, never below the lowest height the
// property still protects (prune interval below the highest height ever committed).
func (w *c05World) rollback(k int64) (dropped []chainPos) {
	for ; k > 0 && len(w.chain) > 1; k-- {
		prev := w.chain[len(w.chain)-2]
		if prev.height < w.maxH-w.ph || len(w.chain) == 2 {
			break
		}
		last := w.chain[len(w.chain)-1]
		if w.abandoned[last.height] >= 1 {
			// A height whose block was abandoned before is abandoned again: the
			// re-commit clean-up then walks the first abandoned root, which pruning may
			// have thinned out meanwhile (recorded known shape). Strict runs stop here.
			if !w.open {
				break
			}
			w.shapeTwiceAbandoned = true
			w.ctx.Probe("height_abandoned_twice")
		}
		w.abandoned[last.height]++
		if w.content[string(last.root)].Len() == 1 {
			w.shapeSingleLeafAbandoned = true
			w.ctx.Probe("abandoned_single_leaf_state")
		}
		w.chain = w.chain[:len(w.chain)-1]
		w.future = append([]int64{last.height}, w.future...)
		dropped = append([]chainPos{last}, dropped...)
	}
	return
}

func (w *c05World) do(op *simrt.Op) {
	ctx := w.ctx
	switch op.K {
	case "commit":
		w.commit(op.Int(0)&1, w.nextHeight(op.Int(1)), op.Sub, "grow")
	case "rollback":
		if d := w.rollback(op.Int(0)); len(d) > 0 {
			ctx.Fault("rollback_recommit")
			ctx.Logf("rollback %d heights to h=%d", len(d), w.tip().height)
		}
	case "recommit":
		d := w.rollback(op.Int(0))
		if len(d) > 0 {
			ctx.Fault("rollback_recommit")
			ctx.Probe("recommit_identical_content")
		}
		for _, p := range d {
			if w.viol != nil {
				return
			}
			mode := p.mode
			if op.Int(1) == 1 {
				mode = 1 - mode
			}
			batch, how := p.batch, "recommit-identical"
			if w.open {
				// Identical content at a used height: every node is already stored, so
				// the store deletes that height's version-index entries (fork clean-up)
				// and writes nothing back. Recorded known shape (a later pass can then
				// delete leaves the tip still references).
				w.shapeIdenticalRecommit = true
			} else {
				// strict runs re-commit the same writes plus one fresh key
				w.padSeq++
				batch = append(append([]simrt.Op(nil), batch...), KVOp([]byte(fmt.Sprintf("mavl-acc-re%03d", w.padSeq)), []byte(fmt.Sprintf("r%d", w.padSeq))))
				how = "recommit-plus-one-key"
			}
			w.commit(mode, w.nextHeight(0), batch, how)
		}
	case "prune":
		// explicit pruning pass at the current tip height (only one pass at a time)
		w.drain()
		if w.viol != nil {
			return
		}
		cur := w.tip().height
		if cur > w.passMax {
			w.passMax = cur
		}
		w.nodesBefore = w.dbSize()
		ctx.Fault("explicit_prune")
		w.parks = ctx.Sc.Knob("chainparks", 0) == 1
		pnc := Guard(func() { mavldb.PruningTree(w.n.DB(), cur, w.n.TreeCfg()) })
		w.parks = false
		if pnc != nil {
			w.fail(ctx.Violate("prune-panic", "PruningTree", "PruningTree(height=%d) panicked: %v", cur, pnc))
			return
		}
		if w.dbSize() < w.nodesBefore {
			ctx.Probe("prune_deleted_records")
		}
		ctx.Logf("explicit prune at h=%d db %d -> %d", cur, w.nodesBefore, w.dbSize())
		w.checkRetained("after-explicit-prune")
	case "check":
		if mavldb.VerifPruning() {
			ctx.Probe("check_while_pruner_mid_pass")
		}
		w.checkRetained("check")
	case "settle":
		w.drain()
	case "reopen":
		if op.Int(0) == 1 && mavldb.VerifPruning() {
			// Close while the pruner is in the middle of a pass: ClosePrune asks it to quit and waits
			ctx.Fault("close_while_pruning")
			mavldb.VerifSetQuit(true)
		}
		w.drain()
		if w.viol != nil {
			return
		}
		ctx.Fault("close_reopen")
		w.n.Reopen()
		w.installHooks()
		w.sawPruning, w.pendingCheck = false, false
		w.checkRetained("after-reopen")
	case "crash":
		ctx.Fault("crash_restart")
		w.crash()
		if w.viol == nil {
			w.checkRetained("after-crash")
		}
	}
}

// crash: the durable content at this very point (possibly in the middle of a
// pruning pass) becomes the disk of a new process. The old process - including
// its pruner - keeps running on the old disk, which nobody looks at any more.
func (w *c05World) crash() {
	if mavldb.VerifPruning() {
		w.ctx.Fault("crash_mid_prune")
	}
	old := w.n.Disk
	oldID := w.n.ID
	old.Hooks = simdb.Hooks{}
	clone := old.Clone(oldID + "-c")
	// let the abandoned process finish its pruning pass on the abandoned disk
	for i := 0; i < 1000000; i++ {
		time.Sleep(time.Millisecond)
		if !w.prunerAlive() {
			break
		}
	}
	old.Remove()
	scMu.Lock()
	delete(scDisks, oldID)
	scDisks[clone.ID] = clone
	scMu.Unlock()
	w.n.Disk = clone
	w.n.ID = clone.ID
	w.n.Crash()
	w.installHooks()
	w.sawPruning, w.pendingCheck = false, false
}

// drain lets a running background pruner finish its pass.
func (w *c05World) drain() {
	// yield first: a pruner goroutine that Save has just started must get the chance
	// to mark the pass as running before the flag is looked at
	// (the chain sleeps in virtual time instead of yielding: while it sleeps the
	// pruner is the only task the scheduler can release, so it cannot be starved)
	for i := 0; i < 1000000; i++ {
		time.Sleep(time.Millisecond)
		if !w.prunerAlive() {
			break
		}
		w.sawPruning = true
	}
	w.afterOp()
}

// afterOp notices a completed background pruning pass and verifies the retained states after it.
func (w *c05World) afterOp() {
	if w.viol != nil {
		return
	}
	if mavldb.VerifPruning() {
		if !w.sawPruning {
			w.sawPruning = true
			w.nodesBefore = w.dbSize()
			w.ctx.Fault("background_prune")
		}
		return
	}
	if w.sawPruning {
		w.sawPruning = false
		w.ctx.Probe("background_prune_completed")
		if w.dbSize() < w.nodesBefore {
			w.ctx.Probe("prune_deleted_records")
		}
		w.checkRetained("after-background-prune")
	}
}

func (w *c05World) dbSize() int { return len(w.n.Disk.Dump("store")) }

// checkRetained verifies the states the property protects.
func (w *c05World) checkRetained(tag string) {
	if w.viol != nil {
		return
	}
	ctx := w.ctx
	tipH := w.tip().height
	// Protected: the states of the current chain within the prune interval below
	// the tip, except those a pruning pass that really ran (explicit, or started by
	// the store at a multiple of the interval) at a greater height may legitimately
	// have thinned out before the chain was rolled back. The highest height ever
	// committed does not matter by itself.
	lower := tipH - w.ph
	if w.passMax-w.ph > lower {
		lower = w.passMax - w.ph
	}
	for i := len(w.chain) - 1; i >= 1; i-- {
		p := w.chain[i]
		if p.height < lower && i != len(w.chain)-1 {
			break
		}
		st := w.content[string(p.root)]
		where := "tip"
		if i != len(w.chain)-1 {
			where = "retained-below-tip"
		}
		if v := CheckFull(ctx, w.n, p.root, st, tag+"/"+where); v != nil {
			v.Detail += fmt.Sprintf(" [state of height %d; tip height %d; highest height ever committed %d; greatest pruning pass height %d; prune interval %d]", p.height, tipH, w.maxH, w.passMax, w.ph)
			w.fail(v)
			return
		}
		if i != len(w.chain)-1 && st.Len() > 0 {
			ctx.Probe("retained_non_tip_state_verified")
		}
	}
}
