package storesim

import (
	"bytes"
	"fmt"
	"testing"

	mavldb "github.com/33cn/chain33/system/store/mavl/db"
	"github.com/33cn/chain33/types"

	"verifsim/simrt"
)

// C03 — state proofs are complete, sound and crash-free.
//
// Thin simulator dimension, stated honestly: the simulator contributes (a) the
// states — trees reached by C01-style histories (forks, overwrites, batches that
// force rebalancing, pending-then-commit) under a drawn prefix / prune /
// mem-tree configuration, before and after process restarts — and (b) a
// corrupting channel between a proving node (GetKVPairProof, Tree.Proof,
// Tree.ConstructProof) and a verifying light client (VerifyKVPairProof,
// Proof.Verify). There is no concurrency and no timing in this property.
//
// Oracle:
//   * the untouched message (root, key, value, proof) verifies;
//   * a message in which exactly one of key, value (nil and empty are the same
//     value) or root differs from the proven one does not verify;
//   * whatever was done to the proof bytes, verification does not panic; bytes
//     that do not decode as a proof fail; and, for every message whatsoever, if
//     verification succeeds then the model confirms that (key,value) is in the
//     state of that root. (A mutated proof that still decodes to an equivalent
//     proof may verify: protobuf is malleable and the property does not forbid it.)

func init() {
	simrt.Register(&simrt.Info{
		Property: "C03", Engine: &c03{},
		Real:       []string{"system/store/mavl/db GetKVPairProof, Tree.Proof, Tree.ConstructProof, VerifyKVPairProof, ReadProof, Proof.Verify, InnerNodeProofHash", "types LeafNode/InnerNode hashing, MAVLProof decoding (golang/protobuf)", "system/store/mavl Store building the states (Set, MemSet, Commit, Close/New)", "common/db GoMemDB under simdb"},
		Stub:       []string{"disk: simdb", "network between prover and verifier: a corrupting channel in the harness (field replacement, bit flips, truncation, extension, random bytes)"},
		FaultKinds: []string{"close_reopen", "crash_restart", "msg_key", "msg_value", "msg_root", "msg_proof"},
		Rule:       "one case = one generated history plus a set of proof requests (root, key) each sent through the corrupting channel several times; distinct = distinct scenario digest; non-trivial = at least one honest proof of a tree with an inner node was verified and at least 5 corrupted messages were judged",
		Nontrivial: func(sc *simrt.Scenario, r *simrt.Result) bool {
			return r.Probes["honest_proof_with_path"] > 0 && r.Probes["corrupted_message_judged"] >= 5
		},
	})
}

type c03 struct{}

func (c03) Name() string { return "storesim" }

// mutation fields
const (
	mutNone = iota
	mutKey
	mutValue
	mutRoot
	mutProof
)

func (c03) Generate(prop string, r *simrt.RNG, tier string, run int) *simrt.Scenario {
	sc := &simrt.Scenario{Knobs: map[string]int64{}}
	// every prefix/prune configuration; mem-tree options as extra variety; values must be readable (no MVCC elision)
	DrawConfigKnobs(r.Sub("knobs"), sc, false)
	poolSize := []int{4, 10, 40, 200}[r.Intn(4)]
	g := newHistoryGen(r, poolSize, r.Chance(1, 2))
	g.maxRoots = 14
	// the states are built without MemSet under a mem-tree configuration (the
	// recorded known C01 defect could otherwise block building a state)
	g.noMemSet = sc.Knobs["cfg"]&BitMemTree != 0
	nsets := r.Range(1, 12)
	nprove := r.Range(4, 30)
	total := nsets + nprove
	setsLeft := nsets
	for i := 0; i < total; i++ {
		if setsLeft > 0 && (i < 2 || r.Chance(nsets, total)) {
			setsLeft--
			sc.Ops = append(sc.Ops, g.opSet(false))
			continue
		}
		if r.Chance(1, 12) {
			if r.Chance(1, 2) {
				sc.Ops = append(sc.Ops, simrt.Op{K: "reopen"})
			} else {
				sc.Ops = append(sc.Ops, simrt.Op{K: "crash"})
			}
			continue
		}
		sc.Ops = append(sc.Ops, genProve(r, g))
	}
	return sc
}

func genProve(r *simrt.RNG, g *historyGen) simrt.Op {
	ri := g.readRoot()
	if len(g.states[ri].keys) == 0 {
		ri = len(g.states) - 1
	}
	op := simrt.Op{K: "prove", I: []int64{int64(ri), int64(r.Intn(1 << 20)), int64(r.Intn(3))}}
	op.Sub = append(op.Sub, simrt.Op{K: "mut", I: []int64{mutNone, 0, 0, 0}})
	nm := r.Range(3, 14)
	for j := 0; j < nm; j++ {
		field := int64(r.Weighted(0, 3, 3, 3, 6))
		m := simrt.Op{K: "mut", I: []int64{field, int64(r.Intn(8)), int64(r.Intn(1 << 20)), int64(r.Intn(1 << 20))}}
		if field == mutProof || r.Chance(1, 3) {
			m.S = []string{simrt.H(r.Bytes(r.Range(0, 80)))}
		}
		op.Sub = append(op.Sub, m)
	}
	return op
}

func flipBit(b []byte, pos int64) []byte {
	c := append([]byte(nil), b...)
	if len(c) == 0 {
		return []byte{0x01}
	}
	p := int(pos % int64(len(c)*8))
	c[p/8] ^= 1 << uint(p%8)
	return c
}

// sameVal: nil and empty denote the same value.
func sameVal(a, b []byte) bool { return bytes.Equal(a, b) }

type proofMsg struct {
	root, key, value, proof []byte
}

// verify is the light client.
func verifyMsg(n *Node, m proofMsg) (ok bool, pnc interface{}) {
	pnc = Guard(func() {
		ok = mavldb.VerifyKVPairProof(n.DB(), m.root, &types.KeyValue{Key: m.key, Value: m.value}, m.proof)
	})
	return
}

func (c03) Execute(t *testing.T, ctx *simrt.Ctx) *simrt.Violation {
	sc := ctx.Sc
	w := newWorld(ctx, ConfigFromKnobs(sc), "c03")
	w.checks = false // C01 owns the read oracles; here the history only builds states
	defer w.n.Destroy()
	for i := range sc.Ops {
		op := &sc.Ops[i]
		ctx.CurOp = i
		ctx.Step()
		switch op.K {
		case "set", "reopen", "crash":
			if op.K != "set" {
				// restarts here only drop caches; no full re-verification (C01 does that)
				if op.K == "reopen" {
					ctx.Fault("close_reopen")
					w.n.Reopen()
				} else {
					ctx.Fault("crash_restart")
					w.n.Crash()
				}
				continue
			}
			if v := w.execWrite(op); v != nil {
				// Building the state failed. That is a verdict of C01 (which runs the
				// same histories with its own oracle), not of the proof property:
				// the run ends here without a C03 verdict.
				ctx.Probe("history_blocked_" + v.Class)
				ctx.Logf("history op failed: %s %s", v.Class, v.Sig)
				return nil
			}
		case "prove":
			if v := c03Prove(ctx, w, op); v != nil {
				return v
			}
		}
	}
	return nil
}

func c03Prove(ctx *simrt.Ctx, w *c01World, op *simrt.Op) *simrt.Violation {
	n, vm := w.n, w.vm
	root := vm.Root(op.Int(0))
	st := vm.State(root)
	if st.Len() == 0 {
		// nothing to prove at an empty state; an absent key must not get a usable proof
		ctx.Probe("prove_at_empty_state")
		return nil
	}
	if len(root) != 32 {
		simrt.Failf("C03 history produced a root of %d bytes", len(root))
	}
	key := []byte(st.Keys()[int(op.Int(1))%st.Len()])
	value, _ := st.Get(key)
	api := op.Int(2) % 3
	cfgs := n.Cfg.String()

	// --- the prover ---
	var proof []byte
	var perr error
	var pval []byte
	var exists = true
	var structProof *mavldb.Proof
	pnc := Guard(func() {
		switch api {
		case 0:
			proof, perr = mavldb.GetKVPairProof(n.DB(), root, key, n.TreeCfg())
		default:
			tree := mavldb.NewTree(n.DB(), true, n.TreeCfg())
			if perr = tree.Load(root); perr != nil {
				return
			}
			if api == 1 {
				pval, proof, exists = tree.Proof(key)
			} else {
				pval, structProof = tree.ConstructProof(key)
				exists = structProof != nil
				if exists {
					proof = types.Encode(&types.MAVLProof{InnerNodes: structProof.InnerNodes})
				}
			}
		}
	})
	apiName := []string{"GetKVPairProof", "Tree.Proof", "Tree.ConstructProof"}[api]
	if pnc != nil {
		return ctx.Violate("prove-panic", apiName, "%s(root=%x, key=%x) panicked: %v", apiName, root, key, pnc)
	}
	if perr != nil {
		return ctx.Violate("no-proof-for-present-key", apiName+"/error", "%s(root=%x, key=%x) returned %v for a key present at a committed root", apiName, root, key, perr)
	}
	if !exists {
		return ctx.Violate("no-proof-for-present-key", apiName+"/not-found", "%s(root=%x, key=%x) says the key does not exist; the model has it", apiName, root, key)
	}
	if api != 0 && !sameVal(pval, value) {
		return ctx.Violate("proof-value-mismatch", apiName, "%s(root=%x, key=%x) returned value %x; model %x", apiName, root, key, pval, value)
	}
	if w.n.Restarts > w.rootEpoch[string(root)] {
		ctx.Probe("proof_for_root_committed_before_restart")
	}
	var decoded types.MAVLProof
	if err := types.Decode(proof, &decoded); err != nil {
		return ctx.Violate("honest-proof-rejected", apiName+"/undecodable", "%s produced proof bytes that do not decode: %v", apiName, err)
	}
	pathLen := len(decoded.InnerNodes)
	ctx.Logf("proof %s root=%x key=%x path=%d bytes=%d", apiName, root, key, pathLen, len(proof))
	if structProof != nil {
		// the tree's own Proof object verifies directly, too
		var ok bool
		pnc := Guard(func() { ok = structProof.Verify(key, value, root) && bytes.Equal(structProof.Root(), root) })
		if pnc != nil {
			return ctx.Violate("verify-panic", "Proof.Verify/honest", "Proof.Verify(key=%x) panicked: %v", key, pnc)
		}
		if !ok {
			return ctx.Violate("honest-proof-rejected", "Proof.Verify/"+cfgs, "Proof.Verify rejects the tree's own proof for key %x value %x root %x (path length %d)", key, value, root, pathLen)
		}
		var bad bool
		pnc = Guard(func() { bad = structProof.Verify(key, append(append([]byte(nil), value...), 'x'), root) })
		if pnc != nil {
			return ctx.Violate("verify-panic", "Proof.Verify/value", "Proof.Verify panicked: %v", pnc)
		}
		if bad {
			return ctx.Violate("forged-proof-accepted", "Proof.Verify/value", "Proof.Verify accepts a different value for key %x", key)
		}
		// verification is a pure check: the same proof object verifies again
		pnc = Guard(func() { ok = structProof.Verify(key, value, root) && bytes.Equal(structProof.Root(), root) })
		if pnc != nil {
			return ctx.Violate("verify-panic", "Proof.Verify/honest-again", "second Proof.Verify(key=%x) panicked: %v", key, pnc)
		}
		if !ok {
			return ctx.Violate("honest-proof-rejected", "Proof.Verify/second-verification/"+cfgs, "Proof.Verify accepted the tree's own proof for key %x once and rejects the same proof object the second time (path length %d)", key, pathLen)
		}
	}
	// a decoded proof is verified as often as its holder likes
	{
		leaf := types.LeafNode{Key: key, Value: value, Height: 0, Size: 1}
		var rp *mavldb.Proof
		var rerr error
		pnc := Guard(func() { rp, rerr = mavldb.ReadProof(root, leaf.Hash(), proof) })
		if pnc != nil {
			return ctx.Violate("verify-panic", "ReadProof/honest", "ReadProof of the store's own proof for key %x panicked: %v", key, pnc)
		}
		if rerr == nil && rp != nil {
			for round := 1; round <= 3; round++ {
				var ok bool
				pnc := Guard(func() { ok = rp.Verify(key, value, root) })
				if pnc != nil {
					return ctx.Violate("verify-panic", "Proof.Verify/decoded", "Proof.Verify of a decoded proof for key %x panicked in round %d: %v", key, round, pnc)
				}
				if !ok {
					return ctx.Violate("honest-proof-rejected", fmt.Sprintf("Proof.Verify/decoded-round-%d/%s", round, cfgs), "the decoded proof (%s) for key %x value %x root %x is rejected in verification round %d of the same object (path length %d)", apiName, key, value, root, round, pathLen)
				}
			}
			ctx.Probe("decoded_proof_reverified")
		}
	}

	// --- the channel and the verifier ---
	honest := proofMsg{root: root, key: key, value: value, proof: proof}
	for mi := range op.Sub {
		m := &op.Sub[mi]
		if m.K != "mut" {
			continue
		}
		field, kind, a1, a2 := m.Int(0), m.Int(1), m.Int(2), m.Int(3)
		msg := honest
		mutName := "none"
		// mustFail: exactly one of key/value/root was replaced by something different
		mustFail := false
		switch field {
		case mutKey:
			var nk []byte
			switch kind % 6 {
			case 0: // another key of the same state
				nk = []byte(st.Keys()[int(a1)%st.Len()])
				mutName = "key/other-present-key"
			case 1:
				nk = flipBit(key, a1)
				mutName = "key/bit-flip"
			case 2:
				nk = append(append([]byte(nil), key...), byte(a1))
				mutName = "key/extended"
			case 3:
				if len(key) > 0 {
					nk = key[:int(a1)%len(key)]
				} else {
					nk = []byte{byte(a1)}
				}
				mutName = "key/truncated"
			case 4:
				nk = m.B(0)
				mutName = "key/random"
			case 5: // a key of another committed state
				o := vm.State(vm.Root(a2))
				if o.Len() > 0 {
					nk = []byte(o.Keys()[int(a1)%o.Len()])
				} else {
					nk = []byte("absent")
				}
				mutName = "key/key-of-other-root"
			}
			msg.key = nk
			mustFail = !bytes.Equal(nk, key)
			ctx.Fault("msg_key")
		case mutValue:
			var nv []byte
			switch kind % 6 {
			case 0: // the value of another key
				nv, _ = st.Get([]byte(st.Keys()[int(a1)%st.Len()]))
				mutName = "value/other-keys-value"
			case 1:
				nv = flipBit(value, a1)
				mutName = "value/bit-flip"
			case 2:
				nv = append(append([]byte(nil), value...), 0x00)
				mutName = "value/extended-with-zero"
			case 3:
				if len(value) > 0 {
					nv = value[:int(a1)%len(value)]
				} else {
					nv = []byte{0}
				}
				mutName = "value/truncated"
			case 4:
				nv = m.B(0)
				mutName = "value/random"
			case 5: // the same key's value at another committed root (an older / newer version)
				o := vm.State(vm.Root(a2))
				nv, _ = o.Get(key)
				mutName = "value/same-key-other-version"
			}
			msg.value = nv
			mustFail = !sameVal(nv, value)
			if !mustFail {
				ctx.Probe("value_mutation_equal_to_original")
			}
			ctx.Fault("msg_value")
		case mutRoot:
			var nr []byte
			switch kind % 6 {
			case 0, 1: // another committed root
				nr = vm.Root(a1)
				mutName = "root/other-committed-root"
			case 2:
				nr = flipBit(root, a1)
				mutName = "root/bit-flip"
			case 3:
				nr = root[:int(a1)%len(root)]
				mutName = "root/truncated"
			case 4:
				nr = append(append([]byte(nil), root...), byte(a1))
				mutName = "root/extended"
			case 5:
				nr = append([]byte("_mh_-0000000001-"), root...)
				mutName = "root/height-prefixed"
			}
			msg.root = nr
			mustFail = !bytes.Equal(nr, root)
			ctx.Fault("msg_root")
		case mutProof:
			var np []byte
			switch kind % 8 {
			case 0:
				if len(proof) > 0 {
					np = proof[:int(a1)%len(proof)]
				}
				mutName = "proof/truncated"
			case 1:
				np = append(append([]byte(nil), proof...), m.B(0)...)
				mutName = "proof/extended"
			case 2:
				np = flipBit(proof, a1)
				mutName = "proof/bit-flip"
			case 3:
				np = m.B(0)
				mutName = "proof/random-bytes"
			case 4:
				np = nil
				mutName = "proof/empty"
			case 5: // the proof of another key of the same state
				ok2 := []byte(st.Keys()[int(a1)%st.Len()])
				var e error
				if p := Guard(func() { np, e = mavldb.GetKVPairProof(n.DB(), root, ok2, n.TreeCfg()) }); p != nil || e != nil {
					return ctx.Violate("prove-panic", "GetKVPairProof/other-key", "GetKVPairProof(root=%x, key=%x): err=%v panic=%v", root, ok2, e, p)
				}
				mutName = "proof/other-keys-proof"
			case 6: // the proof of the same key at another root
				or := vm.Root(a2)
				var e error
				if p := Guard(func() { np, e = mavldb.GetKVPairProof(n.DB(), or, key, n.TreeCfg()) }); p != nil || e != nil {
					return ctx.Violate("prove-panic", "GetKVPairProof/other-root", "GetKVPairProof(root=%x, key=%x): err=%v panic=%v", or, key, e, p)
				}
				mutName = "proof/same-key-other-root"
			case 7: // drop / duplicate a path element, re-encoded
				d := types.MAVLProof{}
				d.InnerNodes = append(d.InnerNodes, decoded.InnerNodes...)
				if len(d.InnerNodes) > 0 && a2%2 == 0 {
					j := int(a1) % len(d.InnerNodes)
					d.InnerNodes = append(d.InnerNodes[:j:j], d.InnerNodes[j+1:]...)
					mutName = "proof/path-element-dropped"
				} else if len(d.InnerNodes) > 0 {
					j := int(a1) % len(d.InnerNodes)
					d.InnerNodes = append(d.InnerNodes, d.InnerNodes[j])
					mutName = "proof/path-element-duplicated"
				} else {
					d.InnerNodes = append(d.InnerNodes, &types.InnerNode{Height: 1, Size: 2, RightHash: root})
					mutName = "proof/path-element-invented"
				}
				np = types.Encode(&d)
			}
			msg.proof = np
			ctx.Fault("msg_proof")
		}

		ok, pnc := verifyMsg(n, msg)
		if pnc != nil {
			return ctx.Violate("verify-panic", mutName, "VerifyKVPairProof(root=%x, key=%x, value=%x, proof=%x) [%s] panicked: %v", msg.root, msg.key, msg.value, msg.proof, mutName, pnc)
		}
		if field == mutNone {
			if !ok {
				return ctx.Violate("honest-proof-rejected", apiName+"/"+cfgs, "VerifyKVPairProof rejects the honest message: root=%x key=%x value=%x proof(%s)=%x (path length %d)", root, key, value, apiName, proof, pathLen)
			}
			if pathLen > 0 {
				ctx.Probe("honest_proof_with_path")
			} else {
				ctx.Probe("honest_proof_single_leaf")
			}
			if pathLen >= 5 {
				ctx.Probe("honest_proof_path_ge_5")
			}
			continue
		}
		ctx.Probe("corrupted_message_judged")
		if mustFail && ok {
			return ctx.Violate("forged-message-accepted", mutName, "VerifyKVPairProof accepts a message whose %s differs from the proven one: proven (root=%x key=%x value=%x), sent (root=%x key=%x value=%x), proof=%x", mutName, root, key, value, msg.root, msg.key, msg.value, msg.proof)
		}
		if field == mutProof {
			var d types.MAVLProof
			decodes := types.Decode(msg.proof, &d) == nil
			if !decodes {
				ctx.Probe("undecodable_proof_judged")
				if ok {
					return ctx.Violate("malformed-proof-accepted", mutName, "VerifyKVPairProof accepts proof bytes that do not decode: %x", msg.proof)
				}
			} else if ok {
				ctx.Probe("mutated_proof_still_verifies")
			} else {
				ctx.Probe("decodable_mutated_proof_rejected")
			}
		}
		// universal soundness: whatever verified must be true in the model
		if ok {
			ms := vm.State(msg.root)
			var mv []byte
			present := false
			if ms != nil {
				mv, present = ms.Get(msg.key)
			}
			if ms == nil || !present || !sameVal(mv, msg.value) {
				return ctx.Violate("false-statement-verified", mutName, "VerifyKVPairProof accepts (root=%x key=%x value=%x) [%s] but the state of that root does not contain this pair (model: present=%v value=%x)", msg.root, msg.key, msg.value, mutName, present, mv)
			}
		}
	}
	return nil
}
