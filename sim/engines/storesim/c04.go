package storesim

import (
	"bytes"
	"fmt"
	"runtime"
	"sync"
	"testing"

	"github.com/33cn/chain33/queue"
	mavldb "github.com/33cn/chain33/system/store/mavl/db"
	"github.com/33cn/chain33/types"

	"verifsim/simrt"
)

// C04 — pending state updates never leak into committed state.
//
// The store runs as a module on the REAL queue (system/store BaseStore: one
// goroutine per request). K client actors send EventStoreMemSet / Commit /
// Rollback / Set / Get / List. The simulator owns: what every client asks for
// (competing pending updates on the same parent and height, updates that are
// never resolved, commits and rollbacks of other clients' updates), the
// interleaving of the clients' requests (seeded scheduler, one request released
// per decision; optionally every disk operation of a handler is a decision too),
// and the process lifetime (clean restart, crash with pending updates lost).
//
// Model: committed root -> content; pending slots (root -> content).
// Oracle (from the statement):
//   * a positive reply to Commit(h) (or Set) implies h is readable with exactly its
//     content (point reads of all keys + listing), checked at once over the queue;
//   * reads at committed roots during the concurrent phase equal the model;
//   * at every quiescent point (end of a phase, after a restart, end of run) every
//     key of every committed root equals the model and full iteration matches:
//     rolled-back, never-committed and competing updates changed nothing;
//   * a request handler never dies (the store process would die with it).

func init() {
	simrt.Register(&simrt.Info{
		Property: "C04", Engine: &c04{},
		Real:       []string{"queue (real message queue, clients, topic subscription)", "system/store BaseStore.processMessage handlers (one goroutine per request), StorelistQuery", "system/store/mavl Store (MemSet, Commit, Rollback, Set, Get, IterateRangeByStateHash, pending trees map)", "system/store/mavl/db Tree/Node/nodeDB, mem-tree caches, prune bookkeeping (pruner off)", "common/db GoMemDB under simdb"},
		Stub:       []string{"disk: simdb", "clients: scripted harness actors under the seeded scheduler", "a recover shim between BaseStore's handlers and the mavl Store turns a handler panic into a recorded event instead of ending the worker process"},
		FaultKinds: []string{"close_reopen", "crash_restart", "pending_never_resolved", "pending_rolled_back", "competing_pending"},
		Rule:       "one case = one request script for 2-4 concurrent clients (pending updates on shared parents/heights, commits, rollbacks, direct sets, reads, listings, barriers, restarts) under one storage configuration, executed under one scheduler tape; distinct = distinct scenario digest + schedule digest; non-trivial = at least one update committed, at least one pending update rolled back or left unresolved, and at least one non-first scheduling decision",
		Nontrivial: func(sc *simrt.Scenario, r *simrt.Result) bool {
			return r.Probes["commit_ok"]+r.Probes["set_ok"] > 0 && r.Faults["pending_never_resolved"]+r.Faults["pending_rolled_back"] > 0 && r.Probes["sched_nonfirst"] > 0
		},
	})
}

type c04 struct{}

func (c04) Name() string { return "storesim" }

func (c04) Generate(prop string, r *simrt.RNG, tier string, run int) *simrt.Scenario {
	sc := &simrt.Scenario{Knobs: map[string]int64{}}
	DrawConfigKnobs(r.Sub("knobs"), sc, false)
	// strict / open: the recorded known defect (mem-tree cache fed by uncommitted
	// MemSets) is exactly in this property's territory; strict runs keep the
	// mem-tree off so that everything they report is new, open runs draw any config.
	if r.Chance(3, 10) {
		sc.Knobs["open"] = 1
	} else {
		sc.Knobs["cfg"] &^= BitMemTree | BitMemVal
		delete(sc.Knobs, "tklen")
	}
	if r.Chance(1, 2) {
		sc.Knobs["yields"] = 1 // disk operations are scheduling points (only if the locks allow it)
	}
	nact := r.Range(2, 4)
	sc.Knobs["actors"] = int64(nact)
	pool := NewKeyPool(r, []int{4, 8, 20, 60}[r.Intn(4)], r.Chance(1, 3))
	uniq := 0
	nreq := r.Range(8, 50)
	kvs := func() []simrt.Op {
		n := r.Range(1, 5)
		if r.Chance(1, 6) {
			n = r.Range(5, 30)
		}
		if r.Chance(1, 25) {
			n = 0
		}
		var subs []simrt.Op
		for i := 0; i < n; i++ {
			k := pool.Pick(r)
			subs = append(subs, KVOp(k, GenValue(r, &uniq, k)))
		}
		return subs
	}
	recency := func() int64 { return int64(r.Weighted(6, 3, 1, 1)) } // mostly the newest: competition
	for i := 0; i < nreq; i++ {
		a := int64(r.Intn(nact))
		switch r.Weighted(10, 6, 3, 3, 6, 3, 2, 1, 1) {
		case 0:
			sc.Ops = append(sc.Ops, simrt.Op{K: "memset", I: []int64{a, recency(), int64(r.Weighted(8, 1, 1))}, Sub: kvs()})
		case 1:
			sc.Ops = append(sc.Ops, simrt.Op{K: "commit", I: []int64{a, int64(r.Intn(4)), 0}})
		case 2:
			sc.Ops = append(sc.Ops, simrt.Op{K: "rollback", I: []int64{a, int64(r.Intn(4))}})
		case 3:
			sc.Ops = append(sc.Ops, simrt.Op{K: "set", I: []int64{a, recency(), int64(r.Weighted(8, 1, 1))}, Sub: kvs()})
		case 4:
			op := simrt.Op{K: "get", I: []int64{a, int64(r.Intn(6))}}
			for j := r.Range(1, 6); j > 0; j-- {
				op.S = append(op.S, simrt.H(pool.Pick(r)))
			}
			sc.Ops = append(sc.Ops, op)
		case 5:
			x, y := pool.Pick(r), pool.Pick(r)
			if bytes.Compare(x, y) > 0 {
				x, y = y, x
			}
			sc.Ops = append(sc.Ops, simrt.Op{K: "list", I: []int64{a, int64(r.Intn(6)), int64(r.Range(1, 40))}, S: []string{simrt.H(x), simrt.H(append(append([]byte(nil), y...), 0))}})
		case 6:
			sc.Ops = append(sc.Ops, simrt.Op{K: "barrier"})
		case 7:
			sc.Ops = append(sc.Ops, simrt.Op{K: "crash"})
			if r.Chance(1, 2) { // try to commit an update that was pending when the process died
				sc.Ops = append(sc.Ops, simrt.Op{K: "commit", I: []int64{a, int64(r.Intn(4)), 1}})
			}
		case 8:
			sc.Ops = append(sc.Ops, simrt.Op{K: "reopen"})
		}
	}
	return sc
}

type c04World struct {
	ctx *simrt.Ctx
	n   *Node
	vm  *VModel
	mu  sync.Mutex
	// contentOf: model content of every root a MemSet/Set ever returned
	contentOf map[string]*State
	heightOf  map[string]int64
	// slots: pending updates the store should currently hold (root -> exists), in creation order
	slots      map[string]bool
	slotList   [][]byte
	slotParent map[string][]byte
	slotHeight map[string]int64
	// lost: roots that were pending when a process died
	lost   [][]byte
	violMu sync.Mutex
	violV  *simrt.Violation
	// overlap tracking (only relevant when handlers can interleave)
	inflight int
	invokes  int
	// resolving: commit / rollback requests in flight per root
	resolving       map[string]int
	sawSameRootRace bool // two requests resolved the same pending root at the same time (open runs only)
	open            bool
	yields          bool
	cfgs            string
}

func (w *c04World) fail(v *simrt.Violation) {
	w.violMu.Lock()
	defer w.violMu.Unlock()
	if v != nil && w.violV == nil {
		v.Sig += "|" + w.cfgs
		w.violV = v
	}
}

// getViol: actors waiting in the store run beside the scheduled one, so the
// verdict field is read and written under a lock.
func (w *c04World) getViol() *simrt.Violation {
	w.violMu.Lock()
	defer w.violMu.Unlock()
	return w.violV
}

func (c04) Execute(t *testing.T, ctx *simrt.Ctx) *simrt.Violation {
	w := &c04World{ctx: ctx, vm: NewVModel(), contentOf: map[string]*State{}, heightOf: map[string]int64{}, slots: map[string]bool{}, slotParent: map[string][]byte{}, slotHeight: map[string]int64{}, resolving: map[string]int{}}
	simrt.InBubble(t, func() { w.run() })
	return w.getViol()
}

func goid() uint64 {
	var buf [64]byte
	n := runtime.Stack(buf[:], false)
	b := bytes.TrimPrefix(buf[:n], []byte("goroutine "))
	var id uint64
	for _, c := range b {
		if c < '0' || c > '9' {
			break
		}
		id = id*10 + uint64(c-'0')
	}
	return id
}

func (w *c04World) run() {
	ctx := w.ctx
	sc := ctx.Sc
	cfg := ConfigFromKnobs(sc)
	w.cfgs = cfg.String()
	w.open = sc.Knob("open", 0) == 1
	w.n = NewNodeOpts("c04", cfg, true)
	defer w.n.Destroy()
	w.yields = sc.Knob("yields", 0) == 1 && mavldb.VerifLocksSchedulable()
	if sc.Knob("yields", 0) == 1 && !w.yields {
		ctx.Probe("yields_requested_but_locks_not_schedulable")
	}
	// split into segments at barrier / crash / reopen
	start := 0
	for i := 0; i <= len(sc.Ops) && w.getViol() == nil; i++ {
		end := i == len(sc.Ops)
		if !end {
			k := sc.Ops[i].K
			if k != "barrier" && k != "crash" && k != "reopen" {
				continue
			}
		}
		w.segment(start, i)
		start = i + 1
		if w.getViol() != nil {
			break
		}
		ctx.CurOp = i
		tag := "end"
		if !end {
			tag = sc.Ops[i].K
		}
		// quiescent point: nothing pending, rolled back or competing has changed any committed read
		if v := CheckAllRoots(ctx, w.n, w.vm, "quiescent-"+tag); v != nil {
			w.fail(v)
			break
		}
		if end {
			break
		}
		switch sc.Ops[i].K {
		case "crash", "reopen":
			for _, r := range w.slotList {
				if w.slots[string(r)] {
					w.lost = append(w.lost, r)
					ctx.Fault("pending_never_resolved")
				}
			}
			if len(w.lost) > 0 {
				ctx.Probe("restart_with_pending_updates")
			}
			w.slots, w.slotList = map[string]bool{}, nil
			if sc.Ops[i].K == "crash" {
				ctx.Fault("crash_restart")
				w.n.Crash()
			} else {
				ctx.Fault("close_reopen")
				w.n.Reopen()
			}
			if v := CheckAllRoots(ctx, w.n, w.vm, "after-"+sc.Ops[i].K); v != nil {
				w.fail(v)
			}
		}
	}
	if w.getViol() == nil {
		for _, r := range w.slotList {
			if w.slots[string(r)] {
				ctx.Fault("pending_never_resolved")
			}
		}
	}
}

// segment runs ops[lo:hi] concurrently: one actor per client id.
func (w *c04World) segment(lo, hi int) {
	ctx := w.ctx
	sc := ctx.Sc
	byActor := map[int64][]int{}
	var ids []int64
	nact := sc.Knob("actors", 3)
	if nact < 1 {
		nact = 1
	}
	for i := lo; i < hi; i++ {
		a := sc.Ops[i].Int(0) % nact
		if a < 0 {
			a = -a
		}
		if _, ok := byActor[a]; !ok {
			ids = append(ids, a)
		}
		byActor[a] = append(byActor[a], i)
	}
	if len(ids) == 0 {
		return
	}
	s := simrt.NewSched(ctx)
	names := map[uint64]string{}
	var nmu sync.Mutex
	if w.yields {
		bg := 0
		w.n.Disk.Hooks.Yield = func(site string) {
			id := goid()
			nmu.Lock()
			nm, ok := names[id]
			if !ok {
				nm = fmt.Sprintf("handler%03d", bg)
				bg++
				names[id] = nm
			}
			nmu.Unlock()
			s.Park(nm, site)
		}
	}
	before := len(ctx.TapeOut())
	for _, a := range ids {
		idxs := byActor[a]
		s.Go(fmt.Sprintf("client%d", a), func(act *simrt.Actor) {
			nmu.Lock()
			names[goid()] = act.Name
			nmu.Unlock()
			c := w.n.Q.Client()
			for _, i := range idxs {
				act.Yield(sc.Ops[i].K)
				if w.getViol() != nil {
					return
				}
				w.do(c, i)
			}
		})
	}
	dl := s.Run(200000)
	w.n.Disk.Hooks.Yield = nil
	if dl != "" {
		simrt.Failf("C04: scheduler reports a deadlock: %s", dl)
	}
	for _, x := range ctx.TapeOut()[before:] {
		if x != 0 {
			ctx.Probe("sched_nonfirst")
			break
		}
	}
	if len(ids) > 1 {
		ctx.Probe("concurrent_segment")
	}
}

func pickRecent(list [][]byte, rec int64) []byte {
	if len(list) == 0 {
		return nil
	}
	if rec < 0 {
		rec = -rec
	}
	return list[len(list)-1-int(rec%int64(len(list)))]
}

// call performs one request and reports whether another request overlapped it.
func (w *c04World) call(c queue.Client, ty int64, data interface{}) (reply interface{}, err error, overlapped bool) {
	w.mu.Lock()
	w.invokes++
	mine := w.invokes
	overlapped = w.inflight > 0
	w.inflight++
	w.mu.Unlock()
	reply, err = w.n.Call(c, ty, data)
	w.mu.Lock()
	w.inflight--
	if w.invokes != mine {
		overlapped = true
	}
	w.mu.Unlock()
	return
}

// avoidRace (strict runs only): do not resolve a pending update that another
// request is resolving right now - two concurrent Commit/Rollback requests for the
// same root are a recorded known shape; pick another unresolved update instead.
// Called with w.mu held.
func (w *c04World) avoidRace(root []byte) []byte {
	if w.open || root == nil || w.resolving[string(root)] == 0 {
		return root
	}
	for _, r := range w.liveSlots() {
		if w.resolving[string(r)] == 0 {
			return r
		}
	}
	return nil
}

// handlerPanics turns recorded handler panics into a violation.
func (w *c04World) handlerPanics(op string) bool { return w.handlerPanicsRace(op, false) }

func (w *c04World) handlerPanicsRace(op string, race bool) bool {
	ps := w.n.Shim.TakePanics()
	if len(ps) == 0 {
		return false
	}
	w.mu.Lock()
	for _, n := range w.resolving {
		if n > 1 {
			race = true
		}
	}
	if w.sawSameRootRace {
		race = true
	}
	w.mu.Unlock()
	sig := ps[0].Op
	if race {
		sig += "/same-root-resolved-concurrently"
	}
	w.fail(w.ctx.Violate("handler-panic", sig, "the store's %s handler panicked while serving %s (the store process would have died): %s", ps[0].Op, op, ps[0].Val))
	return true
}

func (w *c04World) do(c queue.Client, i int) {
	ctx := w.ctx
	op := &ctx.Sc.Ops[i]
	w.mu.Lock()
	ctx.CurOp = i
	w.mu.Unlock()
	switch op.K {
	case "memset", "set":
		w.mu.Lock()
		parent := pickRecent(w.vm.Roots(), op.Int(1))
		pst := w.vm.State(parent)
		h := w.heightOf[string(parent)] + 1 + op.Int(2)
		w.mu.Unlock()
		kvs := KVs(op.Sub)
		child := applyModel(pst, op.Sub)
		ty := int64(types.EventStoreMemSet)
		if op.K == "set" {
			ty = types.EventStoreSet
		}
		lent := lend(kvs)
		reply, err, _ := w.call(c, ty, &types.StoreSetWithSync{Storeset: &types.StoreSet{StateHash: parent, KV: lent, Height: h}, Sync: true})
		recycle(lent)
		if w.handlerPanics(op.K) {
			return
		}
		if err != nil {
			w.fail(ctx.Violate("request-failed", op.K, "%s(parent=%x, %d kvs, height=%d) on a committed parent was answered with error %v", op.K, parent, len(kvs), h, err))
			return
		}
		rh, ok := reply.(*types.ReplyHash)
		if !ok {
			w.fail(ctx.Violate("request-failed", op.K+"/reply-type", "%s was answered with %T", op.K, reply))
			return
		}
		root := rh.Hash
		w.mu.Lock()
		if old, ok := w.contentOf[string(root)]; ok && !old.Equal(child) {
			w.mu.Unlock()
			w.fail(ctx.Violate("root-aliasing", op.K, "%s returned root %x which already identifies different content", op.K, root))
			return
		}
		w.contentOf[string(root)] = child
		ctx.Logf("%s by client%d parent=%x h=%d -> %x", op.K, op.Int(0), parent, h, root)
		if op.K == "set" {
			if _, seen := w.heightOf[string(root)]; !seen {
				w.heightOf[string(root)] = h
			}
			w.vm.Add(root, child)
			ctx.State(child.Digest())
			w.mu.Unlock()
			ctx.Probe("set_ok")
			w.verifyCommitted(c, root, child, "set")
			return
		}
		if len(kvs) == 0 {
			// an empty update is answered with the parent's root: nothing new is pending
			w.mu.Unlock()
			ctx.Probe("empty_pending_update")
			return
		}
		// competing pending update: another unresolved slot was computed from the same parent at the same height
		for _, r := range w.slotList {
			if w.slots[string(r)] && !bytes.Equal(r, root) && w.slotHeight[string(r)] == h && bytes.Equal(w.slotParent[string(r)], parent) {
				ctx.Fault("competing_pending")
				break
			}
		}
		if !w.slots[string(root)] {
			w.slots[string(root)] = true
			w.slotList = append(w.slotList, append([]byte(nil), root...))
		}
		w.slotHeight[string(root)] = h
		w.slotParent[string(root)] = parent
		w.mu.Unlock()
		ctx.Probe("memset_ok")

	case "commit":
		w.mu.Lock()
		var root []byte
		lostOne := op.Int(2) == 1
		if lostOne {
			root = pickRecent(w.lost, op.Int(1))
		} else {
			root = pickRecent(w.liveSlots(), op.Int(1))
		}
		if !lostOne {
			root = w.avoidRace(root)
		}
		had := root != nil && w.slots[string(root)]
		race := root != nil && w.resolving[string(root)] > 0
		if root != nil {
			w.resolving[string(root)]++
		}
		if race {
			// (sticky: the handler that dies may be reported to whichever client
			// returns first, after the other one has left again)
			w.sawSameRootRace = true
		}
		w.mu.Unlock()
		if root == nil || len(root) == 0 {
			return
		}
		reply, err, overlapped := w.call(c, types.EventStoreCommit, &types.ReqHash{Hash: root})
		w.mu.Lock()
		w.resolving[string(root)]--
		w.mu.Unlock()
		if w.handlerPanicsRace("commit", race) {
			return
		}
		rh, _ := reply.(*types.ReplyHash)
		if err != nil || rh == nil {
			if had && !(w.yields && overlapped) {
				w.fail(ctx.Violate("commit-failed", "pending-slot-existed", "Commit(%x) of a pending update nobody had resolved was answered with %v", root, err))
				return
			}
			if lostOne {
				ctx.Probe("commit_of_update_lost_in_restart_rejected")
			}
			ctx.Logf("commit %x refused: %v", root, err)
			return
		}
		if !bytes.Equal(rh.Hash, root) {
			w.fail(ctx.Violate("commit-root-mismatch", "store.Commit", "Commit(%x) was answered with root %x", root, rh.Hash))
			return
		}
		w.mu.Lock()
		st := w.contentOf[string(root)]
		w.slots[string(root)] = false
		if _, seen := w.heightOf[string(root)]; !seen {
			w.heightOf[string(root)] = w.slotHeight[string(root)]
		}
		w.vm.Add(root, st)
		ctx.State(st.Digest())
		// are there unresolved siblings of this update?
		for _, r := range w.slotList {
			if w.slots[string(r)] && bytes.Equal(w.slotParent[string(r)], w.slotParent[string(root)]) {
				ctx.Probe("commit_with_unresolved_sibling")
				break
			}
		}
		w.mu.Unlock()
		ctx.Probe("commit_ok")
		if lostOne {
			ctx.Probe("commit_of_update_lost_in_restart_accepted")
		}
		ctx.Logf("commit by client%d %x", op.Int(0), root)
		w.verifyCommitted(c, root, st, "commit")

	case "rollback":
		w.mu.Lock()
		root := pickRecent(w.liveSlots(), op.Int(1))
		root = w.avoidRace(root)
		had := root != nil && w.slots[string(root)]
		race := root != nil && w.resolving[string(root)] > 0
		if root != nil {
			w.resolving[string(root)]++
		}
		if race {
			// (sticky: the handler that dies may be reported to whichever client
			// returns first, after the other one has left again)
			w.sawSameRootRace = true
		}
		w.mu.Unlock()
		if root == nil {
			return
		}
		reply, err, overlapped := w.call(c, types.EventStoreRollback, &types.ReqHash{Hash: root})
		w.mu.Lock()
		w.resolving[string(root)]--
		w.mu.Unlock()
		if w.handlerPanicsRace("rollback", race) {
			return
		}
		rh, _ := reply.(*types.ReplyHash)
		if err != nil || rh == nil {
			if had && !(w.yields && overlapped) {
				w.fail(ctx.Violate("rollback-failed", "pending-slot-existed", "Rollback(%x) of a pending update nobody had resolved was answered with %v", root, err))
			}
			return
		}
		w.mu.Lock()
		w.slots[string(root)] = false
		w.mu.Unlock()
		ctx.Fault("pending_rolled_back")
		ctx.Logf("rollback by client%d %x", op.Int(0), root)

	case "get":
		w.mu.Lock()
		root := pickRecent(w.vm.Roots(), op.Int(1))
		st := w.vm.State(root)
		w.mu.Unlock()
		var keys [][]byte
		for j := range op.S {
			keys = append(keys, op.B(j))
		}
		w.getOverQueue(c, root, st, keys, "concurrent-get")

	case "list":
		w.mu.Lock()
		root := pickRecent(w.vm.Roots(), op.Int(1))
		st := w.vm.State(root)
		w.mu.Unlock()
		w.listOverQueue(c, root, st, op.B(0), op.B(1), op.Int(2), "concurrent-list")
	}
}

func (w *c04World) liveSlots() [][]byte {
	var out [][]byte
	for _, r := range w.slotList {
		if w.slots[string(r)] {
			out = append(out, r)
		}
	}
	return out
}

// getOverQueue: EventStoreGet at a committed root must equal the model.
func (w *c04World) getOverQueue(c queue.Client, root []byte, st *State, keys [][]byte, tag string) {
	ctx := w.ctx
	reply, err, _ := w.call(c, types.EventStoreGet, &types.StoreGet{StateHash: root, Keys: keys})
	if w.handlerPanics(tag) {
		return
	}
	rv, _ := reply.(*types.StoreReplyValue)
	if err != nil || rv == nil || len(rv.Values) != len(keys) {
		w.fail(ctx.Violate("committed-read-wrong", tag+"/reply", "EventStoreGet(root=%x, %d keys) was answered with %T / %v", root, len(keys), reply, err))
		return
	}
	for j, k := range keys {
		want, ok := st.Get(k)
		if !bytes.Equal(rv.Values[j], want) {
			w.fail(ctx.Violate("committed-read-wrong", tag, "EventStoreGet(root=%x, key=%x) = %x; model %x (present=%v)", root, k, rv.Values[j], want, ok))
			return
		}
	}
}

// listOverQueue: EventStoreList [start,end) at a committed root must list exactly the model's keys (first count of them).
func (w *c04World) listOverQueue(c queue.Client, root []byte, st *State, start, end []byte, count int64, tag string) {
	ctx := w.ctx
	if count < 1 {
		count = 1
	}
	if start == nil {
		start = []byte{}
	}
	if end == nil {
		end = []byte{}
	}
	reply, err, _ := w.call(c, types.EventStoreList, &types.StoreList{StateHash: root, Start: start, End: end, Count: count, Mode: 1})
	if w.handlerPanics(tag) {
		return
	}
	lr, _ := reply.(*types.StoreListReply)
	if err != nil || lr == nil {
		w.fail(ctx.Violate("committed-read-wrong", tag+"/reply", "EventStoreList(root=%x) was answered with %T / %v", root, reply, err))
		return
	}
	want := st.Range(start, end, false, false, false, true)
	if int64(len(want)) > count {
		want = want[:count]
	}
	if len(lr.Keys) != len(want) || len(lr.Values) != len(want) {
		w.fail(ctx.Violate("committed-read-wrong", tag+"/count", "EventStoreList(root=%x, [%x,%x), count=%d) listed %d keys; model %d", root, start, end, count, len(lr.Keys), len(want)))
		return
	}
	for j := range want {
		wv, _ := st.Get([]byte(want[j]))
		if string(lr.Keys[j]) != want[j] || !bytes.Equal(lr.Values[j], wv) {
			w.fail(ctx.Violate("committed-read-wrong", tag+"/entry", "EventStoreList(root=%x) entry %d = (%x,%x); model (%x,%x)", root, j, lr.Keys[j], lr.Values[j], want[j], wv))
			return
		}
	}
	if len(want) > 0 {
		ctx.Probe("list_nonempty")
	}
}

// verifyCommitted: a positive reply to Commit / Set implies the state is readable
// with exactly its content, right now, over the queue.
func (w *c04World) verifyCommitted(c queue.Client, root []byte, st *State, how string) {
	if w.getViol() != nil {
		return
	}
	keys := make([][]byte, 0, st.Len()+1)
	for _, k := range st.Keys() {
		keys = append(keys, []byte(k))
	}
	keys = append(keys, []byte("zz-absent"))
	w.getOverQueue(c, root, st, keys, "after-"+how+"-reply")
	if w.getViol() != nil || st.Len() == 0 {
		return
	}
	lo := []byte(st.Keys()[0])
	hi := append([]byte(st.Keys()[st.Len()-1]), 0)
	w.listOverQueue(c, root, st, lo, hi, int64(st.Len()+5), "after-"+how+"-reply")
}
