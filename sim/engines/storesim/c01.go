package storesim

import (
	"bytes"
	"fmt"
	"testing"

	mavldb "github.com/33cn/chain33/system/store/mavl/db"
	"github.com/33cn/chain33/types"

	"verifsim/simrt"
)

// C01 — the state tree behaves as a persistent versioned map.
//
// The simulator owns the write history (which committed root each batch extends,
// forks, overwrites, batch shape), the way a batch is committed (one step, or
// pending then committed, possibly with other commits in between), tree-level
// removals, which committed root every read addresses, and the process lifetime:
// clean restart, crash without Close, and a disk write error that kills the
// process in the middle of a commit. The storage sub-options are drawn per run.

func init() {
	simrt.Register(&simrt.Info{
		Property: "C01", Engine: &c01{},
		Real:       []string{"system/store/mavl Store (constructor, Set, MemSet, Commit, Rollback, Get, IterateRangeByStateHash, Close)", "system/store BaseStore (db handle, node cache)", "system/store/mavl/db Tree/Node/nodeDB (set, remove, balance, save, load, traverse), mem-tree caches, prune bookkeeping (pruner itself off)", "common/db GoMemDB + LevelDB iterator wrapper under simdb"},
		Stub:       []string{"disk: simdb (in-memory, atomic batches, process-stop crash model)"},
		FaultKinds: []string{"close_reopen", "crash_restart", "write_error_crash"},
		Rule:       "one case = one generated history (batches on any committed root, pending/commit/rollback, removals, point and range reads at any committed root, restarts) under one drawn storage configuration; distinct = distinct scenario digest; non-trivial = at least 2 committed batches and at least one read at a root that is not the newest or a read after a restart",
		Nontrivial: func(sc *simrt.Scenario, r *simrt.Result) bool {
			if r.Probes["committed_batch"] < 2 {
				return false
			}
			return r.Probes["old_root_read"] > 0 || r.Faults["close_reopen"]+r.Faults["crash_restart"]+r.Faults["write_error_crash"] > 0
		},
	})
}

type c01 struct{}

func (c01) Name() string { return "storesim" }

// genState is the generator's shadow of one committed state: its key list
// (exact as long as no op is deleted by the minimiser).
type genState struct {
	keys   map[string]string // key -> hex of the current value
	height int64
}

func (g *genState) clone() *genState {
	c := &genState{keys: make(map[string]string, len(g.keys)), height: g.height}
	for k, v := range g.keys {
		c.keys[k] = v
	}
	return c
}

// sortedKeys returns the shadow's keys in a deterministic order.
func (g *genState) sortedKeys() [][]byte {
	out := make([][]byte, 0, len(g.keys))
	for k := range g.keys {
		out = append(out, []byte(k))
	}
	return sortedCopy(out)
}

// historyGen generates C01-style histories; C03 reuses it.
type historyGen struct {
	r        *simrt.RNG
	pool     *KeyPool
	uniq     int
	states   []*genState // index = model root index (0,1 = the two empty spellings)
	pending  []*genState
	nkeys    int
	maxRoots int
	big      bool
	seq      int // running counter for ordered-run keys
	// noMemSet: never generate a MemSet (strict runs under a mem-tree configuration:
	// the recorded known defect "memTree fed from uncommitted trees" needs one)
	noMemSet bool
}

func newHistoryGen(r *simrt.RNG, poolSize int, allowEmpty bool) *historyGen {
	g := &historyGen{r: r, pool: NewKeyPool(r, poolSize, allowEmpty), maxRoots: 40}
	g.states = []*genState{{keys: map[string]string{}}, {keys: map[string]string{}}}
	return g
}

// pickRoot prefers the newest root but regularly forks from old ones.
func (g *historyGen) pickRoot() int {
	n := len(g.states)
	switch g.r.Weighted(6, 3, 1) {
	case 0:
		return n - 1
	case 1:
		return g.r.Intn(n)
	default:
		return g.r.Intn(2) // an empty root
	}
}

// batch draws the key/values of one write batch against the parent shadow.
func (g *historyGen) batch(parent *genState) []simrt.Op {
	r := g.r
	var n int
	switch r.Weighted(10, 6, 2) {
	case 0:
		n = r.Range(1, 6)
	case 1:
		n = r.Range(5, 40)
	default:
		if g.big {
			n = r.Range(60, 300)
		} else {
			n = r.Range(20, 80)
		}
	}
	if g.nkeys+n > 2000 {
		n = r.Range(1, 4)
	}
	var subs []simrt.Op
	existing := parent.sortedKeys()
	switch r.Weighted(8, 2, 2, 2, 1, 1) {
	case 5: // idempotent rewrite: existing keys get the value they already have
		if len(existing) == 0 {
			k := g.pool.Pick(r)
			subs = append(subs, KVOp(k, GenValue(r, &g.uniq, k)))
		}
		if n > 6 {
			n = r.Range(1, 6)
		}
		for i := 0; i < n && len(existing) > 0; i++ {
			k := existing[r.Intn(len(existing))]
			subs = append(subs, simrt.Op{K: "kv", S: []string{simrt.H(k), parent.keys[string(k)]}})
		}
	case 0: // random pool keys (overwrites frequent with a small pool)
		for i := 0; i < n; i++ {
			k := g.pool.Pick(r)
			if len(existing) > 0 && r.Chance(1, 4) {
				k = existing[r.Intn(len(existing))]
			}
			subs = append(subs, KVOp(k, GenValue(r, &g.uniq, k)))
		}
	case 1: // ascending run above everything seen so far (drives left rotations)
		for i := 0; i < n; i++ {
			g.seq++
			k := []byte(fmt.Sprintf("r%06d", 500000+g.seq))
			subs = append(subs, KVOp(k, GenValue(r, &g.uniq, k)))
		}
	case 2: // descending run below everything seen so far (drives right rotations)
		for i := 0; i < n; i++ {
			g.seq++
			k := []byte(fmt.Sprintf("r%06d", 500000-g.seq))
			subs = append(subs, KVOp(k, GenValue(r, &g.uniq, k)))
		}
	case 3: // zig-zag between two fronts (drives double rotations)
		for i := 0; i < n; i++ {
			g.seq++
			var k []byte
			if i%2 == 0 {
				k = []byte(fmt.Sprintf("z%06d", 100000+g.seq))
			} else {
				k = []byte(fmt.Sprintf("z%06d", 900000-g.seq))
			}
			subs = append(subs, KVOp(k, GenValue(r, &g.uniq, k)))
		}
	case 4: // overwrite only: every key exists in the parent
		if len(existing) == 0 {
			k := g.pool.Pick(r)
			subs = append(subs, KVOp(k, GenValue(r, &g.uniq, k)))
		}
		for i := 0; i < n && len(existing) > 0; i++ {
			k := existing[r.Intn(len(existing))]
			subs = append(subs, KVOp(k, GenValue(r, &g.uniq, k)))
		}
	}
	return subs
}

func applyShadow(parent *genState, subs []simrt.Op) *genState {
	c := parent.clone()
	for i := range subs {
		switch subs[i].K {
		case "kv":
			c.keys[string(subs[i].B(0))] = subs[i].Str(1)
		case "rm":
			delete(c.keys, string(subs[i].B(0)))
		}
	}
	return c
}

func (g *historyGen) nextHeight(parent *genState) int64 {
	switch g.r.Weighted(8, 1, 1) {
	case 0:
		return parent.height + 1
	case 1:
		return parent.height // a competing block at the parent's height + 0 (re-commit at same height)
	default:
		if parent.height > 1 {
			return parent.height - 1
		}
		return parent.height + 2
	}
}

// opSet generates a committed write batch.
func (g *historyGen) opSet(allowFault bool) simrt.Op {
	pi := g.pickRoot()
	parent := g.states[pi]
	subs := g.batch(parent)
	h := g.nextHeight(parent)
	mode := int64(g.r.Intn(2))
	if g.noMemSet {
		mode = 0
	}
	fault := int64(0)
	if allowFault && g.r.Chance(1, 25) {
		// fail the first disk write of the op (the commit batch, or with prune
		// bookkeeping enabled possibly an index write before it)
		fault = 1
	}
	if fault == 0 {
		child := applyShadow(parent, subs)
		child.height = h
		g.states = append(g.states, child)
		g.nkeys += len(subs)
	} else {
		g.pending = nil // the process dies with the failed write
	}
	return simrt.Op{K: "set", I: []int64{int64(pi), h, mode, fault}, Sub: subs}
}

// opRemove generates a tree-level removal batch.
func (g *historyGen) opRemove() simrt.Op {
	r := g.r
	pi := g.pickRoot()
	parent := g.states[pi]
	existing := parent.sortedKeys()
	api := int64(r.Intn(2))
	n := r.Range(1, 12)
	if r.Chance(1, 8) {
		n = len(existing) + 1 // remove (nearly) everything
	}
	var subs []simrt.Op
	for i := 0; i < n; i++ {
		switch {
		case api == 1 && r.Chance(1, 3):
			k := g.pool.Pick(r)
			subs = append(subs, KVOp(k, GenValue(r, &g.uniq, k)))
		case len(existing) > 0 && r.Chance(4, 5):
			subs = append(subs, simrt.Op{K: "rm", S: []string{simrt.H(existing[r.Intn(len(existing))])}})
		default:
			subs = append(subs, simrt.Op{K: "rm", S: []string{simrt.H(g.pool.Pick(r))}})
		}
	}
	h := g.nextHeight(parent)
	var child *genState
	if api == 0 {
		var rms []simrt.Op
		for _, s := range subs {
			if s.K == "rm" {
				rms = append(rms, s)
			}
		}
		child = applyShadow(parent, rms)
		child.height = 0
	} else {
		child = applyShadow(parent, subs)
		child.height = h
	}
	g.states = append(g.states, child)
	return simrt.Op{K: "remove", I: []int64{int64(pi), h, api}, Sub: subs}
}

// keysFor draws keys to read at a state: present ones, near misses and pool keys.
func (g *historyGen) keysFor(st *genState, n int) []string {
	r := g.r
	existing := st.sortedKeys()
	var out []string
	for i := 0; i < n; i++ {
		var k []byte
		switch {
		case len(existing) > 0 && r.Chance(3, 5):
			k = existing[r.Intn(len(existing))]
			if r.Chance(1, 6) {
				k = nearKey(r, k)
			}
		default:
			k = g.pool.Pick(r)
		}
		out = append(out, simrt.H(k))
	}
	return out
}

// nearKey perturbs a key into a close neighbour in byte order.
func nearKey(r *simrt.RNG, k []byte) []byte {
	c := append([]byte(nil), k...)
	switch r.Intn(4) {
	case 0:
		return append(c, 0x00)
	case 1:
		if len(c) > 0 {
			return c[:len(c)-1]
		}
		return c
	case 2:
		if len(c) > 0 {
			c[len(c)-1]++
		}
		return c
	default:
		if len(c) > 0 {
			c[len(c)-1]--
		}
		return c
	}
}

func (g *historyGen) opGet() simrt.Op {
	ri := g.readRoot()
	return simrt.Op{K: "get", I: []int64{int64(ri), int64(g.r.Intn(3))}, S: g.keysFor(g.states[ri], g.r.Range(1, 12))}
}

func (g *historyGen) readRoot() int {
	n := len(g.states)
	if g.r.Chance(1, 3) {
		return n - 1
	}
	return g.r.Intn(n)
}

func (g *historyGen) opIter() simrt.Op {
	r := g.r
	ri := g.readRoot()
	st := g.states[ri]
	existing := st.sortedKeys()
	bound := func() []byte {
		switch {
		case len(existing) > 0 && r.Chance(3, 5):
			k := existing[r.Intn(len(existing))]
			if r.Chance(1, 3) {
				k = nearKey(r, k)
			}
			return k
		case r.Chance(1, 8):
			return []byte{}
		default:
			return g.pool.Pick(r)
		}
	}
	a, b := bound(), bound()
	if bytes.Compare(a, b) > 0 && r.Chance(9, 10) {
		a, b = b, a
	}
	var startNil, endNil, stop int64
	if r.Chance(1, 10) {
		startNil = 1
	}
	if r.Chance(1, 10) {
		endNil = 1
	}
	if r.Chance(1, 5) {
		stop = int64(r.Range(1, 5))
	}
	return simrt.Op{K: "iter", I: []int64{int64(ri), int64(r.Intn(2)), int64(r.Intn(4)), startNil, endNil, stop}, S: []string{simrt.H(a), simrt.H(b)}}
}

func (c01) Generate(prop string, r *simrt.RNG, tier string, run int) *simrt.Scenario {
	sc := &simrt.Scenario{Knobs: map[string]int64{}}
	DrawConfigKnobs(r.Sub("knobs"), sc, false)
	poolSize := []int{6, 12, 40, 150, 600}[r.Intn(5)]
	g := newHistoryGen(r, poolSize, r.Chance(2, 3))
	g.big = r.Chance(1, 6)
	if tier == "thorough" {
		g.big = r.Chance(1, 3)
	}
	nops := r.Range(6, 60)
	if g.big && tier != "thorough" {
		nops = r.Range(6, 25)
	}
	sc.Knobs["pool"] = int64(poolSize)
	// strict / open: open runs (30 %) generate everything, including the shape of the
	// recorded known defect (mem-tree configuration + a MemSet); strict runs never
	// generate it, so every oracle stays active for the whole run and anything they
	// report is new.
	if r.Chance(3, 10) {
		sc.Knobs["open"] = 1
	} else if sc.Knobs["cfg"]&BitMemTree != 0 {
		g.noMemSet = true
	}
	for i := 0; i < nops; i++ {
		canWrite := len(g.states) < g.maxRoots+2
		w := []int{10, 3, 3, 4, 8, 10, 2, 2, 1}
		if !canWrite {
			w[0], w[1], w[3] = 0, 0, 0
		}
		if g.noMemSet {
			w[0] += w[1]
			w[1], w[2] = 0, 0
		}
		switch r.Weighted(w...) {
		case 0:
			sc.Ops = append(sc.Ops, g.opSet(true))
		case 1: // pending update, resolved by a later op (or never)
			pi := g.pickRoot()
			parent := g.states[pi]
			subs := g.batch(parent)
			h := g.nextHeight(parent)
			child := applyShadow(parent, subs)
			child.height = h
			g.pending = append(g.pending, child)
			sc.Ops = append(sc.Ops, simrt.Op{K: "pend", I: []int64{int64(pi), h}, Sub: subs})
		case 2:
			idx := r.Intn(8)
			act := int64(r.Weighted(3, 1))
			if len(g.pending) > 0 {
				j := idx % len(g.pending)
				if act == 0 {
					g.states = append(g.states, g.pending[j])
				}
				g.pending = append(g.pending[:j], g.pending[j+1:]...)
			}
			sc.Ops = append(sc.Ops, simrt.Op{K: "resolve", I: []int64{int64(idx), act}})
		case 3:
			sc.Ops = append(sc.Ops, g.opRemove())
		case 4:
			sc.Ops = append(sc.Ops, g.opGet())
		case 5:
			sc.Ops = append(sc.Ops, g.opIter())
		case 6: // tree-level reads: Size, GetByIndex
			ri := g.readRoot()
			op := simrt.Op{K: "tree", I: []int64{int64(ri)}}
			for j := 0; j < 4; j++ {
				op.I = append(op.I, int64(r.Intn(1000)))
			}
			sc.Ops = append(sc.Ops, op)
		case 7:
			g.pending = nil
			sc.Ops = append(sc.Ops, simrt.Op{K: "reopen"})
		case 8:
			g.pending = nil
			sc.Ops = append(sc.Ops, simrt.Op{K: "crash"})
		}
	}
	return sc
}

// pendingUpd is a MemSet that has not been committed or rolled back.
type pendingUpd struct {
	root []byte
	st   *State
}

// c01World is the execution state shared by the C01 op interpreter (C03 reuses it).
type c01World struct {
	ctx  *simrt.Ctx
	n    *Node
	vm   *VModel
	pend []pendingUpd
	// rootEpoch: number of restarts the node had seen when the root was first committed
	rootEpoch map[string]int
	checks    bool // run the C01 oracles after each op
	// pendSeen: number of MemSets in the current process that were not (yet) committed
	// when they were computed and stayed pending for at least one other op
	pendSeen int
	// pendEarlier: the same, in earlier processes of this node (before the last restart)
	pendEarlier int
}

func newWorld(ctx *simrt.Ctx, cfg Config, tag string) *c01World {
	return &c01World{ctx: ctx, n: NewNode(tag, cfg), vm: NewVModel(), rootEpoch: map[string]int{}, checks: true}
}

func applyModel(parent *State, subs []simrt.Op) *State {
	c := parent.Clone()
	for i := range subs {
		switch subs[i].K {
		case "kv":
			c.Set(subs[i].B(0), subs[i].B(1))
		case "rm":
			c.Del(subs[i].B(0))
		}
	}
	return c
}

// commitState records a newly committed root and runs the post-commit oracle.
func (w *c01World) commitState(root []byte, st *State, how string) *simrt.Violation {
	ctx := w.ctx
	known, same := w.vm.Add(root, st)
	if known && !same {
		return ctx.Violate("root-aliasing", how, "%s returned root %x which already identifies a committed state with different content (%d keys vs %d keys)", how, root, w.vm.State(root).Len(), st.Len())
	}
	if known {
		ctx.Probe("root_seen_twice")
	} else {
		w.rootEpoch[string(root)] = w.n.Restarts
		ctx.State(st.Digest())
	}
	ctx.Probe("committed_batch")
	if len(root) > 32 {
		ctx.Probe("prefixed_root_after_remove")
	}
	if _, ok := st.Get([]byte{}); ok {
		ctx.Probe("empty_key_present")
	}
	ctx.Logf("commit %s root=%x keys=%d", how, root, st.Len())
	if !w.checks {
		return nil
	}
	// the new version reads back in full
	if v := CheckFull(ctx, w.n, root, st, "post-commit"); v != nil {
		return v
	}
	// and an older version is unchanged by it
	if w.vm.N() > 3 {
		oi := 2 + ctx.Choice(w.vm.N()-2)
		or := w.vm.Root(int64(oi))
		if !bytes.Equal(or, root) {
			ctx.Probe("old_root_read")
			if v := CheckFull(ctx, w.n, or, w.vm.State(or), "old-root-after-commit"); v != nil {
				return v
			}
		}
	}
	return nil
}

func (w *c01World) afterRestart(tag string) *simrt.Violation {
	w.pend = nil
	w.pendEarlier += w.pendSeen
	w.pendSeen = 0
	if w.vm.N() > 2 {
		w.ctx.Probe(tag + "_then_old_root_read")
	}
	return CheckAllRoots(w.ctx, w.n, w.vm, "after-"+tag)
}

// execWrite interprets set / pend / resolve / remove / reopen / crash.
func (w *c01World) execWrite(op *simrt.Op) *simrt.Violation {
	ctx, n, vm := w.ctx, w.n, w.vm
	switch op.K {
	case "set":
		parent := vm.Root(op.Int(0))
		pst := vm.State(parent)
		child := applyModel(pst, op.Sub)
		kvs := KVs(op.Sub)
		h, mode, faultAt := op.Int(1), op.Int(2), op.Int(3)
		if vm.Index(op.Int(0)) < vm.N()-1 && vm.N() > 2 {
			ctx.Probe("fork_from_old_root")
		}
		w.probeBatch(pst, op.Sub)
		var disarm func() bool
		if faultAt > 0 {
			disarm = n.FailWrite(faultAt)
		}
		var root []byte
		var err error
		var pnc interface{}
		how := "store.Set"
		if mode == 0 {
			root, err, pnc = n.StoreSet(parent, kvs, h)
		} else {
			how = "store.MemSet+Commit"
			var r1 []byte
			r1, err, pnc = n.MemSet(parent, kvs, h)
			if pnc == nil && err == nil {
				// the store keeps pending updates in one slot per root: this MemSet
				// replaces an older pending update with the same root, and the
				// Commit below consumes the slot
				for i := range w.pend {
					if bytes.Equal(w.pend[i].root, r1) {
						w.pend = append(w.pend[:i], w.pend[i+1:]...)
						ctx.Probe("pending_slot_shared_by_equal_roots")
						break
					}
				}
				w.pendSeen++ // uncommitted until the Commit below returns
				root, err, pnc = n.Commit(r1)
				if pnc == nil && err == nil && !bytes.Equal(root, r1) {
					if disarm != nil {
						disarm()
					}
					return ctx.Violate("commit-root-mismatch", "store.Commit", "Commit(%x) returned %x", r1, root)
				}
			}
		}
		fired := false
		if disarm != nil {
			fired = disarm()
		}
		if fired && pnc != nil {
			// the process died on a disk error in the middle of the commit
			ctx.Fault("write_error_crash")
			ctx.Logf("write fault fired in %s", how)
			n.Crash()
			return w.afterRestart("crash")
		}
		if pnc != nil {
			return ctx.Violate("write-panic", how, "%s(parent=%x, %d kvs, height=%d) panicked: %v", how, parent, len(kvs), h, pnc)
		}
		if err != nil {
			return ctx.Violate("write-error", how, "%s(parent=%x, %d kvs, height=%d) on a committed parent returned %v", how, parent, len(kvs), h, err)
		}
		return w.commitState(root, child, how)

	case "pend":
		parent := vm.Root(op.Int(0))
		child := applyModel(vm.State(parent), op.Sub)
		r1, err, pnc := n.MemSet(parent, KVs(op.Sub), op.Int(1))
		if pnc != nil {
			return ctx.Violate("write-panic", "store.MemSet", "MemSet(parent=%x) panicked: %v", parent, pnc)
		}
		if err != nil {
			return ctx.Violate("write-error", "store.MemSet", "MemSet(parent=%x) on a committed parent returned %v", parent, err)
		}
		// a second pending update with the same root replaces the first in the store
		for i := range w.pend {
			if bytes.Equal(w.pend[i].root, r1) {
				w.pend = append(w.pend[:i], w.pend[i+1:]...)
				break
			}
		}
		w.pend = append(w.pend, pendingUpd{root: r1, st: child})
		w.pendSeen++
		ctx.Logf("pend root=%x", r1)

	case "resolve":
		if len(w.pend) == 0 {
			return nil
		}
		j := int(op.Int(0)) % len(w.pend)
		if j < 0 {
			j = -j
		}
		pu := w.pend[j]
		w.pend = append(w.pend[:j], w.pend[j+1:]...)
		if op.Int(1) == 0 {
			out, err, pnc := n.Commit(pu.root)
			if pnc != nil {
				return ctx.Violate("write-panic", "store.Commit", "Commit(%x) panicked: %v", pu.root, pnc)
			}
			if err != nil {
				return ctx.Violate("write-error", "store.Commit", "Commit(%x) of a pending update returned %v", pu.root, err)
			}
			if !bytes.Equal(out, pu.root) {
				return ctx.Violate("commit-root-mismatch", "store.Commit", "Commit(%x) returned %x", pu.root, out)
			}
			ctx.Probe("pending_commit_later")
			return w.commitState(pu.root, pu.st, "store.Commit(pending)")
		}
		_, err, pnc := n.Rollback(pu.root)
		if pnc != nil {
			return ctx.Violate("write-panic", "store.Rollback", "Rollback(%x) panicked: %v", pu.root, pnc)
		}
		if err != nil {
			return ctx.Violate("write-error", "store.Rollback", "Rollback(%x) of a pending update returned %v", pu.root, err)
		}
		ctx.Probe("pending_rollback")
		ctx.Logf("rollback root=%x", pu.root)

	case "remove":
		parent := vm.Root(op.Int(0))
		pst := vm.State(parent)
		h, api := op.Int(1), op.Int(2)
		if api == 0 {
			var keys [][]byte
			child := pst.Clone()
			var wantVals [][]byte
			for i := range op.Sub {
				if op.Sub[i].K != "rm" {
					continue
				}
				k := op.Sub[i].B(0)
				keys = append(keys, k)
				v, ok := child.Del(k)
				if ok {
					ctx.Probe("remove_existing")
				}
				wantVals = append(wantVals, v)
			}
			var root []byte
			var vals [][]byte
			var err error
			pnc := Guard(func() {
				root, vals, err = mavldb.DelKVPair(n.DB(), &types.StoreGet{StateHash: parent, Keys: keys}, n.TreeCfg())
			})
			if pnc != nil {
				return ctx.Violate("write-panic", "mavldb.DelKVPair", "DelKVPair(parent=%x, %d keys) panicked: %v", parent, len(keys), pnc)
			}
			if err != nil {
				return ctx.Violate("write-error", "mavldb.DelKVPair", "DelKVPair(parent=%x) on a committed parent returned %v", parent, err)
			}
			for i := range keys {
				if i < len(vals) && !bytes.Equal(vals[i], wantVals[i]) {
					return ctx.Violate("remove-mismatch", "mavldb.DelKVPair/value", "DelKVPair(parent=%x) reported value %x for removed key %x; model %x", parent, vals[i], keys[i], wantVals[i])
				}
			}
			if child.Len() == 0 && pst.Len() > 0 {
				ctx.Probe("remove_to_empty")
			}
			if v := w.commitState(root, child, "mavldb.DelKVPair"); v != nil {
				return v
			}
			return w.checkTouched(root, child, keys)
		}
		// tree-level mixed batch: Set and Remove interleaved on one tree, then Save
		child := pst.Clone()
		var root []byte
		var viol *simrt.Violation
		pnc := Guard(func() {
			tree := mavldb.NewTree(n.DB(), true, n.TreeCfg())
			tree.SetBlockHeight(h)
			if err := tree.Load(parent); err != nil {
				viol = ctx.Violate("write-error", "tree.Load", "Tree.Load(%x) of a committed parent returned %v", parent, err)
				return
			}
			for i := range op.Sub {
				s := &op.Sub[i]
				switch s.K {
				case "kv":
					existed := child.Set(s.B(0), s.B(1))
					if upd := tree.Set(s.B(0), s.B(1)); upd != existed {
						viol = ctx.Violate("remove-mismatch", "tree.Set/updated", "Tree.Set(%x) reported updated=%v; model: key existed=%v", s.B(0), upd, existed)
						return
					}
				case "rm":
					wv, existed := child.Del(s.B(0))
					if existed {
						ctx.Probe("remove_existing")
					}
					val, removed := tree.Remove(s.B(0))
					if removed != existed || !bytes.Equal(val, wv) {
						viol = ctx.Violate("remove-mismatch", "tree.Remove", "Tree.Remove(%x) = %x, removed=%v; model: %x, existed=%v", s.B(0), val, removed, wv, existed)
						return
					}
				}
			}
			root = tree.Save()
		})
		if pnc != nil {
			return ctx.Violate("write-panic", "tree.Set/Remove/Save", "tree-level batch on parent %x panicked: %v", parent, pnc)
		}
		if viol != nil {
			return viol
		}
		if child.Len() == 0 && pst.Len() > 0 {
			ctx.Probe("remove_to_empty")
		}
		if v := w.commitState(root, child, "tree.Set/Remove/Save"); v != nil {
			return v
		}
		var touched [][]byte
		for i := range op.Sub {
			touched = append(touched, op.Sub[i].B(0))
		}
		return w.checkTouched(root, child, touched)

	case "reopen":
		ctx.Fault("close_reopen")
		n.Reopen()
		return w.afterRestart("reopen")

	case "crash":
		ctx.Fault("crash_restart")
		if len(w.pend) > 0 {
			ctx.Probe("crash_with_pending_updates")
		}
		n.Crash()
		return w.afterRestart("crash")
	}
	return nil
}

// checkTouched reads every key a removal batch touched at the new root: removed
// keys must be gone (by every point-read API), the others present.
func (w *c01World) checkTouched(root []byte, st *State, keys [][]byte) *simrt.Violation {
	if !w.checks || len(keys) == 0 {
		return nil
	}
	if v := CheckGet(w.ctx, w.n, root, st, keys, APIStoreGet, "post-remove"); v != nil {
		return v
	}
	return CheckGet(w.ctx, w.n, root, st, keys, APITreeGet, "post-remove")
}

// probeBatch counts the batch shapes that force rebalancing.
func (w *c01World) probeBatch(pst *State, subs []simrt.Op) {
	ctx := w.ctx
	if len(subs) == 0 {
		ctx.Probe("empty_batch")
		return
	}
	if len(subs) >= 100 {
		ctx.Probe("batch_ge_100")
	}
	asc, desc, over := 0, 0, 0
	var prev []byte
	for i := range subs {
		k := subs[i].B(0)
		if _, ok := pst.Get(k); ok {
			over++
		}
		if i > 0 {
			c := bytes.Compare(k, prev)
			if c > 0 {
				asc++
			} else if c < 0 {
				desc++
			}
		}
		prev = k
	}
	if over > 0 {
		ctx.Probe("overwrite_existing")
	}
	// a strictly monotonic run of >=3 new keys cannot stay balanced without rotations
	if len(subs) >= 3 && over == 0 {
		if asc == len(subs)-1 {
			ctx.Probe("rotation_left_forced")
		}
		if desc == len(subs)-1 {
			ctx.Probe("rotation_right_forced")
		}
	}
}

func (c01) Execute(t *testing.T, ctx *simrt.Ctx) *simrt.Violation {
	sc := ctx.Sc
	w := newWorld(ctx, ConfigFromKnobs(sc), "c01")
	defer w.n.Destroy()
	for i := range sc.Ops {
		op := &sc.Ops[i]
		ctx.CurOp = i
		ctx.Step()
		var v *simrt.Violation
		switch op.K {
		case "set", "pend", "resolve", "remove", "reopen", "crash":
			v = w.execWrite(op)
		case "get":
			v = w.execGet(op)
		case "iter":
			v = w.execIter(op)
		case "tree":
			v = w.execTree(op)
		}
		if v != nil {
			return w.diagnose(v)
		}
	}
	ctx.CurOp = len(sc.Ops)
	return w.diagnose(CheckAllRoots(ctx, w.n, w.vm, "final"))
}

// diagnose refines the signature of a failed read (or a write that panicked): which storage configuration,
// whether an uncommitted MemSet had been computed in this process, and whether
// a process restart makes every committed root readable again (damage in process
// memory) or not (damage on disk). The verdict itself is not changed.
func (w *c01World) diagnose(v *simrt.Violation) *simrt.Violation {
	switch {
	case v == nil:
		return nil
	case v.Class == "read-panic" || v.Class == "write-panic" || v.Class == "get-mismatch" || v.Class == "iter-mismatch" || v.Class == "size-mismatch":
	default:
		return v
	}
	pend := "no-uncommitted-memset"
	if w.pendSeen > 0 {
		pend = "uncommitted-memset-in-this-process"
	} else if w.pendEarlier > 0 {
		pend = "uncommitted-memset-before-restart"
	}
	heals := "persists-after-restart"
	op := w.ctx.CurOp
	var again *simrt.Violation
	p := Guard(func() {
		w.n.Crash()
		again = CheckAllRoots(w.ctx, w.n, w.vm, "diagnose")
	})
	w.ctx.CurOp = op
	if p == nil && again == nil {
		heals = "heals-on-restart"
	}
	v.Sig = v.Sig + "|" + w.n.Cfg.String() + "|" + pend + "|" + heals
	v.Detail += " [diagnosis: config " + w.n.Cfg.String() + "; " + pend + "; " + heals + "]"
	return v
}

func (w *c01World) readTag(root []byte) string {
	tag := "newest-root"
	if !bytes.Equal(root, w.vm.Root(int64(w.vm.N()-1))) {
		tag = "old-root"
		w.ctx.Probe("old_root_read")
	}
	if ep, ok := w.rootEpoch[string(root)]; ok && ep < w.n.Restarts {
		w.ctx.Probe("read_root_committed_before_restart")
	}
	return tag
}

func (w *c01World) execGet(op *simrt.Op) *simrt.Violation {
	root := w.vm.Root(op.Int(0))
	st := w.vm.State(root)
	var keys [][]byte
	for i := range op.S {
		keys = append(keys, op.B(i))
	}
	api := int(op.Int(1)) % 3
	w.ctx.Logf("get root=%x keys=%d api=%d", root, len(keys), api)
	return CheckGet(w.ctx, w.n, root, st, keys, api, w.readTag(root))
}

func (w *c01World) execIter(op *simrt.Op) *simrt.Violation {
	root := w.vm.Root(op.Int(0))
	st := w.vm.State(root)
	sp := IterSpec{Start: op.B(0), End: op.B(1), Asc: op.Int(1) == 1, API: int(op.Int(2)) % 4,
		StartNil: op.Int(3) == 1, EndNil: op.Int(4) == 1, StopAfter: int(op.Int(5))}
	if !sp.StartNil && !sp.EndNil && bytes.Compare(sp.Start, sp.End) > 0 {
		w.ctx.Probe("iter_inverted_range")
	}
	return CheckIter(w.ctx, w.n, root, st, sp, w.readTag(root))
}

// execTree: Tree.Size and the positional reads after Load.
func (w *c01World) execTree(op *simrt.Op) *simrt.Violation {
	ctx := w.ctx
	root := w.vm.Root(op.Int(0))
	st := w.vm.State(root)
	tag := w.readTag(root)
	if v := CheckSize(ctx, w.n, root, st, tag); v != nil {
		return v
	}
	if st.Len() == 0 {
		return nil
	}
	tree, err, pnc := w.n.LoadTree(root)
	if pnc != nil || err != nil {
		return ctx.Violate("get-mismatch", "tree.Load/"+tag+"/root-unreadable", "Tree.Load(%x): err=%v panic=%v", root, err, pnc)
	}
	for j := 1; j < len(op.I); j++ {
		idx := int(op.I[j]) % st.Len()
		if idx < 0 {
			idx = -idx
		}
		var k, val []byte
		var rank int32
		var exists bool
		pnc := Guard(func() {
			k, val = tree.GetByIndex(int32(idx))
			rank, _, exists = tree.Get([]byte(st.Keys()[idx]))
		})
		if pnc != nil {
			return ctx.Violate("read-panic", "tree.GetByIndex/"+tag, "Tree.GetByIndex(root=%x, %d of %d) panicked: %v", root, idx, st.Len(), pnc)
		}
		wk := st.Keys()[idx]
		wv, _ := st.Get([]byte(wk))
		if string(k) != wk || !bytes.Equal(val, wv) {
			return ctx.Violate("index-mismatch", "tree.GetByIndex/"+tag, "Tree.GetByIndex(root=%x, %d) = key %x value %x; the %d-th key of the model is %x value %x", root, idx, k, val, idx, wk, wv)
		}
		if !exists || int(rank) != idx {
			return ctx.Violate("index-mismatch", "tree.Get-index/"+tag, "Tree.Get(root=%x, key=%x) = index %d exists=%v; model rank %d", root, wk, rank, exists, idx)
		}
	}
	return nil
}
