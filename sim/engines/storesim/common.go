// Package storesim holds the state-store engines: C01 (versioned map), C02 (root
// determinism), C03 (proofs) and — later — C04 (pending updates) and C05
// (pruning). The system under test is the real mavl store
// (system/store/mavl + system/store/mavl/db + system/store BaseStore) built by
// its real constructor over a simulated disk (simdb).
//
// This file holds what all storesim engines share: store construction over
// simdb, configuration variants, simulated process restart, guarded calls into
// the store, the versioned-map reference model and key/value generators.
package storesim

import (
	"bytes"
	"encoding/json"
	"fmt"
	"sort"
	"sync"
	"sync/atomic"

	dbm "github.com/33cn/chain33/common/db"
	"github.com/33cn/chain33/common/log/log15"
	"github.com/33cn/chain33/queue"
	drivers "github.com/33cn/chain33/system/store"
	mavlstore "github.com/33cn/chain33/system/store/mavl"
	mavldb "github.com/33cn/chain33/system/store/mavl/db"
	"github.com/33cn/chain33/system/store/mavl/db/ticket"
	"github.com/33cn/chain33/types"

	"verifsim/simdb"
	"verifsim/simrt"
)

// ---------------------------------------------------------------------------
// logging

var quietOnce sync.Once

// Quiet discards chain33's log output (the store logs every call).
func Quiet() {
	quietOnce.Do(func() { log15.Root().SetHandler(log15.DiscardHandler()) })
}

// ---------------------------------------------------------------------------
// configuration variants

// Config is one storage configuration of the mavl store (its sub-options plus
// the node-cache size of the database handle).
type Config struct {
	Prefix  bool // enableMavlPrefix
	Prune   bool // enableMavlPrune (the constructor forces Prefix on)
	MemTree bool // enableMemTree
	MemVal  bool // enableMemVal
	MVCC    bool // enableMVCC: leaf values are not written to the node records
	// PruneHeight is the prune interval. 0 keeps the background pruner off;
	// C01..C03 never let it run (pruning legitimately deletes old versions; C05
	// owns it).
	PruneHeight int32
	TkLen       int32 // tkCloseCacheLen (0 = store default)
	Cache       int   // node cache entries of the db handle; 0 = the store's default
	// RealMemInit: let the constructor allocate the mem-tree map itself (500000-entry
	// capacity hint, 50-100 ms per process start). Otherwise the harness pre-creates
	// the same caches without the hint (hook VerifPresetMemTree) before calling New.
	RealMemInit bool
}

// Config bit positions for ConfigFromBits / Bits.
const (
	BitPrefix = 1 << iota
	BitPrune
	BitMemTree
	BitMemVal
	BitMVCC
	NumConfigBits = 5
)

// ConfigFromBits decodes a flag combination.
func ConfigFromBits(b int64) Config {
	return Config{
		Prefix:  b&BitPrefix != 0,
		Prune:   b&BitPrune != 0,
		MemTree: b&BitMemTree != 0,
		MemVal:  b&BitMemVal != 0,
		MVCC:    b&BitMVCC != 0,
	}
}

// Bits encodes the flag combination.
func (c Config) Bits() int64 {
	var b int64
	if c.Prefix {
		b |= BitPrefix
	}
	if c.Prune {
		b |= BitPrune
	}
	if c.MemTree {
		b |= BitMemTree
	}
	if c.MemVal {
		b |= BitMemVal
	}
	if c.MVCC {
		b |= BitMVCC
	}
	return b
}

func b2i(b bool) int {
	if b {
		return 1
	}
	return 0
}

// String is a stable short descriptor used in violation signatures.
func (c Config) String() string {
	return fmt.Sprintf("prefix%d-prune%d-memtree%d-memval%d-mvcc%d", b2i(c.Prefix), b2i(c.Prune), b2i(c.MemTree), b2i(c.MemVal), b2i(c.MVCC))
}

// SubJSON renders the store's sub-configuration exactly as a chain33 config file
// section would deliver it to the constructor.
func (c Config) SubJSON() []byte {
	m := map[string]interface{}{
		"enableMavlPrefix": c.Prefix,
		"enableMVCC":       c.MVCC,
		"enableMavlPrune":  c.Prune,
		"pruneHeight":      c.PruneHeight,
		"enableMemTree":    c.MemTree,
		"enableMemVal":     c.MemVal,
		"tkCloseCacheLen":  c.TkLen,
	}
	b, err := json.Marshal(m)
	simrt.Must(err, "marshal sub config")
	return b
}

// ---------------------------------------------------------------------------
// small-cache driver: same simulated disk, but the db handle carries a node
// cache of the configured size (the store otherwise installs 102400 entries).

const smallCacheBackend = "verifsim_sc"

var (
	scMu    sync.Mutex
	scDisks = map[string]*simdb.Disk{}
	scOnce  sync.Once
	diskSeq uint64
)

func registerSmallCache() {
	scOnce.Do(func() {
		dbm.VerifRegister(smallCacheBackend, func(name, dir string, cache int) (dbm.DB, error) {
			scMu.Lock()
			d := scDisks[dir]
			scMu.Unlock()
			if d == nil {
				return nil, fmt.Errorf("storesim: no disk %q", dir)
			}
			db := d.Open(name)
			if cache > 0 {
				db.SetCacheSize(cache)
			}
			return db, nil
		})
	})
}

// ---------------------------------------------------------------------------
// a simulated node: one disk + one store process

// Node is one simulated node: a simulated disk and the store "process" on it.
type Node struct {
	ID       string
	Disk     *simdb.Disk
	Cfg      Config
	Store    *mavlstore.Store
	Restarts int
	// UseQueue: the store runs as a module on a real queue (BaseStore's message
	// handlers, one goroutine per request). Must then live inside a bubble.
	UseQueue bool
	Q        queue.Queue
	Shim     *GuardChild
	// dead holds the process-side objects of crashed processes; they are shut down
	// quietly when the node is destroyed so their goroutines do not accumulate.
	dead []deadProc
}

type deadProc struct {
	store *mavlstore.Store
	q     queue.Queue
}

// NewNode creates an empty disk and starts a store process over it. Process
// globals of mavl/db are reset first: a node is a fresh process.
func NewNode(tag string, cfg Config) *Node { return NewNodeOpts(tag, cfg, false) }

// NewNodeOpts is NewNode with the choice of running the store on a real queue.
func NewNodeOpts(tag string, cfg Config, useQueue bool) *Node {
	Quiet()
	id := fmt.Sprintf("storesim-%s-%d", tag, atomic.AddUint64(&diskSeq, 1))
	n := &Node{ID: id, Disk: simdb.NewDisk(id), Cfg: cfg, UseQueue: useQueue}
	registerSmallCache()
	scMu.Lock()
	scDisks[id] = n.Disk
	scMu.Unlock()
	mavldb.VerifResetGlobals()
	n.open()
	return n
}

func (n *Node) open() {
	cfg := &types.Store{Name: "mavl", Driver: simdb.Backend, DbPath: n.ID, DbCache: 16}
	if n.Cfg.Cache > 0 {
		cfg.Driver = smallCacheBackend
		cfg.DbCache = int32(n.Cfg.Cache)
	}
	if n.Cfg.MemTree && !n.Cfg.RealMemInit {
		mavldb.VerifPresetMemTree(n.Cfg.TkLen)
	}
	m := mavlstore.New(cfg, n.Cfg.SubJSON(), nil)
	st, ok := m.(*mavlstore.Store)
	if !ok {
		simrt.Failf("mavl.New returned %T", m)
	}
	n.Store = st
	if n.UseQueue {
		n.Q = queue.New("storesim")
		n.Shim = &GuardChild{inner: st}
		st.SetChild(n.Shim)
		st.SetQueueClient(n.Q.Client())
	}
}

// GuardChild sits between BaseStore's message handlers and the mavl Store. Every
// handler runs in its own goroutine; a panic there would end the process (and
// with it the simulation worker). The shim turns such a panic into a recorded
// event - "the store process would have died here" - and an error reply.
type GuardChild struct {
	inner  *mavlstore.Store
	mu     sync.Mutex
	Panics []HandlerPanic
}

// HandlerPanic is one recovered panic of a request handler.
type HandlerPanic struct {
	Op  string
	Val string
}

var errHandlerPanicked = fmt.Errorf("storesim: handler panicked")

func (g *GuardChild) guard(op string, f func()) (panicked bool) {
	if p := Guard(f); p != nil {
		g.mu.Lock()
		g.Panics = append(g.Panics, HandlerPanic{Op: op, Val: fmt.Sprint(p)})
		g.mu.Unlock()
		return true
	}
	return false
}

// TakePanics returns and clears the recorded handler panics.
func (g *GuardChild) TakePanics() []HandlerPanic {
	g.mu.Lock()
	defer g.mu.Unlock()
	p := g.Panics
	g.Panics = nil
	return p
}

var _ drivers.SubStore = (*GuardChild)(nil)

// Set implements SubStore.
func (g *GuardChild) Set(d *types.StoreSet, sync bool) (h []byte, err error) {
	if g.guard("Set", func() { h, err = g.inner.Set(d, sync) }) {
		return nil, errHandlerPanicked
	}
	return
}

// Get implements SubStore.
func (g *GuardChild) Get(d *types.StoreGet) (v [][]byte) {
	if g.guard("Get", func() { v = g.inner.Get(d) }) {
		return make([][]byte, len(d.Keys))
	}
	return
}

// MemSet implements SubStore.
func (g *GuardChild) MemSet(d *types.StoreSet, sync bool) (h []byte, err error) {
	if g.guard("MemSet", func() { h, err = g.inner.MemSet(d, sync) }) {
		return nil, errHandlerPanicked
	}
	return
}

// Commit implements SubStore.
func (g *GuardChild) Commit(r *types.ReqHash) (h []byte, err error) {
	if g.guard("Commit", func() { h, err = g.inner.Commit(r) }) {
		return nil, errHandlerPanicked
	}
	return
}

// Rollback implements SubStore.
func (g *GuardChild) Rollback(r *types.ReqHash) (h []byte, err error) {
	if g.guard("Rollback", func() { h, err = g.inner.Rollback(r) }) {
		return nil, errHandlerPanicked
	}
	return
}

// Del implements SubStore.
func (g *GuardChild) Del(r *types.StoreDel) ([]byte, error) { return g.inner.Del(r) }

// IterateRangeByStateHash implements SubStore.
func (g *GuardChild) IterateRangeByStateHash(statehash, start, end []byte, ascending bool, fn func(key, value []byte) bool) {
	g.guard("IterateRangeByStateHash", func() { g.inner.IterateRangeByStateHash(statehash, start, end, ascending, fn) })
}

// ProcEvent implements SubStore.
func (g *GuardChild) ProcEvent(msg *queue.Message) { g.inner.ProcEvent(msg) }

// MemSetUpgrade implements SubStore.
func (g *GuardChild) MemSetUpgrade(d *types.StoreSet, sync bool) ([]byte, error) {
	return g.inner.MemSetUpgrade(d, sync)
}

// CommitUpgrade implements SubStore.
func (g *GuardChild) CommitUpgrade(r *types.ReqHash) ([]byte, error) { return g.inner.CommitUpgrade(r) }

// Call sends one request to the store module over the queue and waits for the reply.
func (n *Node) Call(c queue.Client, ty int64, data interface{}) (interface{}, error) {
	msg := c.NewMessage("store", ty, data)
	if err := c.Send(msg, true); err != nil {
		return nil, err
	}
	resp, err := c.Wait(msg)
	if err != nil {
		return nil, err
	}
	return resp.GetData(), nil
}

// DB is the store's database handle.
func (n *Node) DB() dbm.DB { return n.Store.GetDB() }

// TreeCfg is the tree configuration the store itself uses.
func (n *Node) TreeCfg() *mavldb.TreeConfig { return n.Store.VerifTreeCfg() }

// Reopen is a clean process restart: Close, new process (globals reset), New over
// the same disk. All node caches and pending updates are gone.
func (n *Node) Reopen() {
	n.Store.Close()
	if n.Q != nil {
		n.Q.Close()
		n.Q = nil
	}
	n.Store = nil
	mavldb.VerifResetGlobals()
	n.Restarts++
	n.open()
}

// Crash is a process stop without Close: the process-side objects are dropped,
// every completed disk write survives.
func (n *Node) Crash() {
	if n.UseQueue {
		n.dead = append(n.dead, deadProc{n.Store, n.Q})
		n.Q = nil
	}
	n.Store = nil
	mavldb.VerifResetGlobals()
	n.Restarts++
	n.open()
}

// Destroy ends the node and unregisters its disk.
func (n *Node) Destroy() {
	if n.Store != nil {
		func() {
			defer func() { _ = recover() }()
			n.Store.Close()
		}()
		n.Store = nil
	}
	if n.Q != nil {
		n.Q.Close()
		n.Q = nil
	}
	n.Disk.Hooks = simdb.Hooks{}
	for _, d := range n.dead {
		func() {
			defer func() { _ = recover() }()
			d.store.Close()
			d.q.Close()
		}()
	}
	n.dead = nil
	mavldb.VerifResetGlobals()
	n.Disk.Hooks = simdb.Hooks{}
	n.Disk.Remove()
	scMu.Lock()
	delete(scDisks, n.ID)
	scMu.Unlock()
}

// FailWrite arms the disk: the k-th write from now on (k>=1) returns an error.
// The returned function disarms it and reports whether the fault fired.
func (n *Node) FailWrite(k int64) (disarm func() bool) {
	var cnt int64
	fired := false
	n.Disk.Hooks.WriteFault = func(db string, seq int, batch bool, cntKV int) error {
		cnt++
		if cnt == k {
			fired = true
			return simdb.ErrInjected
		}
		return nil
	}
	return func() bool {
		n.Disk.Hooks.WriteFault = nil
		return fired
	}
}

// ---------------------------------------------------------------------------
// guarded calls

// Guard runs f and returns the recovered panic value (nil when f returned).
// Harness errors pass through.
func Guard(f func()) (p interface{}) {
	defer func() {
		if r := recover(); r != nil {
			if he, ok := r.(simrt.HarnessError); ok {
				panic(he)
			}
			p = r
		}
	}()
	f()
	return nil
}

// KVs converts "kv" sub-ops into store key/values.
func KVs(subs []simrt.Op) []*types.KeyValue {
	var out []*types.KeyValue
	for i := range subs {
		if subs[i].K == "kv" {
			out = append(out, &types.KeyValue{Key: subs[i].B(0), Value: subs[i].B(1)})
		}
	}
	return out
}

// lend returns a private copy of a batch to hand to the store; recycle overwrites
// it once the call has returned, the way a caller that pools its request buffers
// would: the store must not depend on the caller's buffers after it answered.
func lend(kvs []*types.KeyValue) []*types.KeyValue {
	out := make([]*types.KeyValue, len(kvs))
	for i, kv := range kvs {
		out[i] = &types.KeyValue{Key: append([]byte(nil), kv.Key...), Value: append([]byte(nil), kv.Value...)}
	}
	return out
}

func recycle(kvs []*types.KeyValue) {
	for _, kv := range kvs {
		for i := range kv.Key {
			kv.Key[i] = 0xEE
		}
		for i := range kv.Value {
			kv.Value[i] = 0xEE
		}
	}
}

// StoreSet applies a batch in one step.
func (n *Node) StoreSet(parent []byte, kvs []*types.KeyValue, height int64) (root []byte, err error, pnc interface{}) {
	lent := lend(kvs)
	pnc = Guard(func() {
		root, err = n.Store.Set(&types.StoreSet{StateHash: parent, KV: lent, Height: height}, true)
	})
	recycle(lent)
	return
}

// MemSet computes a pending update.
func (n *Node) MemSet(parent []byte, kvs []*types.KeyValue, height int64) (root []byte, err error, pnc interface{}) {
	lent := lend(kvs)
	pnc = Guard(func() {
		root, err = n.Store.MemSet(&types.StoreSet{StateHash: parent, KV: lent, Height: height}, true)
	})
	recycle(lent)
	return
}

// Commit commits a pending update.
func (n *Node) Commit(root []byte) (out []byte, err error, pnc interface{}) {
	pnc = Guard(func() { out, err = n.Store.Commit(&types.ReqHash{Hash: root}) })
	return
}

// Rollback drops a pending update.
func (n *Node) Rollback(root []byte) (out []byte, err error, pnc interface{}) {
	pnc = Guard(func() { out, err = n.Store.Rollback(&types.ReqHash{Hash: root}) })
	return
}

// ---------------------------------------------------------------------------
// reference model: versioned sorted map

// State is the content of one version: a sorted map.
type State struct {
	keys []string
	m    map[string][]byte
}

// NewState returns the empty state.
func NewState() *State { return &State{m: map[string][]byte{}} }

// Clone copies the state.
func (s *State) Clone() *State {
	c := &State{keys: append([]string(nil), s.keys...), m: make(map[string][]byte, len(s.m))}
	for _, k := range s.keys {
		c.m[k] = s.m[k]
	}
	return c
}

// Len is the number of keys.
func (s *State) Len() int { return len(s.keys) }

// Keys returns the sorted key list (do not modify).
func (s *State) Keys() []string { return s.keys }

// Get reads a key.
func (s *State) Get(k []byte) ([]byte, bool) { v, ok := s.m[string(k)]; return v, ok }

// Set writes a key; it reports whether the key existed.
func (s *State) Set(k, v []byte) bool {
	ks := string(k)
	_, ok := s.m[ks]
	if !ok {
		i := sort.SearchStrings(s.keys, ks)
		s.keys = append(s.keys, "")
		copy(s.keys[i+1:], s.keys[i:])
		s.keys[i] = ks
	}
	s.m[ks] = append([]byte{}, v...)
	return ok
}

// Del removes a key; it reports the old value and whether the key existed.
func (s *State) Del(k []byte) ([]byte, bool) {
	ks := string(k)
	v, ok := s.m[ks]
	if !ok {
		return nil, false
	}
	delete(s.m, ks)
	i := sort.SearchStrings(s.keys, ks)
	s.keys = append(s.keys[:i], s.keys[i+1:]...)
	return v, true
}

// Rank is the number of keys smaller than k.
func (s *State) Rank(k []byte) int { return sort.SearchStrings(s.keys, string(k)) }

// Range lists the keys inside the bounds in the requested order. A nil bound
// (startNil / endNil) is "unbounded on that side".
func (s *State) Range(start, end []byte, startNil, endNil, inclusive, asc bool) []string {
	var out []string
	for _, k := range s.keys {
		kb := []byte(k)
		if !startNil && bytes.Compare(kb, start) < 0 {
			continue
		}
		if !endNil {
			c := bytes.Compare(kb, end)
			if c > 0 || (c == 0 && !inclusive) {
				continue
			}
		}
		out = append(out, k)
	}
	if !asc {
		for i, j := 0, len(out)-1; i < j; i, j = i+1, j-1 {
			out[i], out[j] = out[j], out[i]
		}
	}
	return out
}

// Equal compares two states (nil and empty values are the same).
func (s *State) Equal(o *State) bool {
	if len(s.keys) != len(o.keys) {
		return false
	}
	for i, k := range s.keys {
		if o.keys[i] != k || !bytes.Equal(s.m[k], o.m[k]) {
			return false
		}
	}
	return true
}

// Digest identifies the content.
func (s *State) Digest() string {
	parts := make([]interface{}, 0, 2*len(s.keys))
	for _, k := range s.keys {
		parts = append(parts, k, "=", string(s.m[k]), ";")
	}
	return simrt.DigestOf(parts...)
}

// VModel maps every committed root to its content, in order of first commit.
type VModel struct {
	order [][]byte
	st    map[string]*State
}

// EmptyRoot32 is the all-zero root that also denotes the empty state.
var EmptyRoot32 = make([]byte, 32)

// NewVModel knows the two spellings of the empty state (nil and 32 zero bytes).
func NewVModel() *VModel {
	m := &VModel{st: map[string]*State{}}
	m.Add(nil, NewState())
	m.Add(EmptyRoot32, NewState())
	return m
}

// Add records root → state. known: the root was recorded before; same: with equal content.
func (m *VModel) Add(root []byte, s *State) (known, same bool) {
	if old, ok := m.st[string(root)]; ok {
		return true, old.Equal(s)
	}
	m.st[string(root)] = s
	m.order = append(m.order, append([]byte(nil), root...))
	return false, true
}

// N is the number of committed roots (including the two empty spellings).
func (m *VModel) N() int { return len(m.order) }

// Root picks a committed root by index modulo what exists.
func (m *VModel) Root(i int64) []byte {
	if i < 0 {
		i = -i
	}
	return m.order[int(i%int64(len(m.order)))]
}

// Index normalises an op's root index.
func (m *VModel) Index(i int64) int {
	if i < 0 {
		i = -i
	}
	return int(i % int64(len(m.order)))
}

// State returns the content of a committed root.
func (m *VModel) State(root []byte) *State { return m.st[string(root)] }

// Roots lists the committed roots in commit order.
func (m *VModel) Roots() [][]byte { return m.order }

// ---------------------------------------------------------------------------
// read checks shared by the engines

// Read APIs.
const (
	APIStoreGet  = iota // Store.Get(StoreGet)
	APITreeGet          // mavl/db NewTree + Load + Tree.Get / Has
	APIGetKVPair        // mavl/db GetKVPair
)

// Iteration APIs.
const (
	ItStore     = iota // Store.IterateRangeByStateHash   [start,end)
	ItTreeRange        // Tree.IterateRange               [start,end)
	ItTreeIncl         // Tree.IterateRangeInclusive      [start,end]
	ItFunc             // mavl/db IterateRangeByStateHash [start,end)
)

var itNames = []string{"store.IterateRangeByStateHash", "tree.IterateRange", "tree.IterateRangeInclusive", "mavldb.IterateRangeByStateHash"}
var getNames = []string{"store.Get", "tree.Get", "mavldb.GetKVPair"}

// LoadTree loads a committed root with the tree-level API.
func (n *Node) LoadTree(root []byte) (tree *mavldb.Tree, err error, pnc interface{}) {
	pnc = Guard(func() {
		tree = mavldb.NewTree(n.DB(), true, n.TreeCfg())
		err = tree.Load(root)
	})
	return
}

// CheckGet compares point reads of keys at root with the model state.
// tag names the situation (post-op, old-root, after-reopen ...) and is part of the signature.
func CheckGet(ctx *simrt.Ctx, n *Node, root []byte, st *State, keys [][]byte, api int, tag string) *simrt.Violation {
	name := getNames[api]
	switch api {
	case APIStoreGet, APIGetKVPair:
		var vals [][]byte
		var err error
		p := Guard(func() {
			if api == APIStoreGet {
				vals = n.Store.Get(&types.StoreGet{StateHash: root, Keys: keys})
			} else {
				vals, err = mavldb.GetKVPair(n.DB(), &types.StoreGet{StateHash: root, Keys: keys}, n.TreeCfg())
			}
		})
		if p != nil {
			return ctx.Violate("read-panic", name+"/"+tag, "%s(root=%x, %d keys) panicked: %v", name, root, len(keys), p)
		}
		if err != nil {
			return ctx.Violate("get-mismatch", name+"/"+tag+"/root-unreadable", "%s(root=%x) returned error %v for a committed root", name, root, err)
		}
		if len(vals) != len(keys) {
			return ctx.Violate("get-mismatch", name+"/"+tag+"/count", "%s(root=%x) returned %d values for %d keys", name, root, len(vals), len(keys))
		}
		for i, k := range keys {
			want, ok := st.Get(k)
			if !bytes.Equal(vals[i], want) {
				shape := "value"
				if !ok {
					shape = "absent-key-has-value"
				} else if len(vals[i]) == 0 {
					shape = "present-key-missing"
				}
				return ctx.Violate("get-mismatch", name+"/"+tag+"/"+shape, "%s(root=%x, key=%x) = %x; model: %x (present=%v)", name, root, k, vals[i], want, ok)
			}
		}
	case APITreeGet:
		tree, err, p := n.LoadTree(root)
		if p != nil {
			return ctx.Violate("read-panic", "tree.Load/"+tag, "Tree.Load(%x) panicked: %v", root, p)
		}
		if err != nil {
			return ctx.Violate("get-mismatch", "tree.Load/"+tag+"/root-unreadable", "Tree.Load(%x) returned %v for a committed root", root, err)
		}
		for _, k := range keys {
			var val []byte
			var exists, has bool
			p := Guard(func() {
				_, val, exists = tree.Get(k)
				has = tree.Has(k)
			})
			if p != nil {
				return ctx.Violate("read-panic", name+"/"+tag, "Tree.Get/Has(root=%x, key=%x) panicked: %v", root, k, p)
			}
			want, ok := st.Get(k)
			if exists != ok || !bytes.Equal(val, want) {
				return ctx.Violate("get-mismatch", name+"/"+tag, "Tree.Get(root=%x, key=%x) = %x, exists=%v; model: %x, present=%v", root, k, val, exists, want, ok)
			}
			if has != ok {
				return ctx.Violate("get-mismatch", "tree.Has/"+tag, "Tree.Has(root=%x, key=%x) = %v; model present=%v", root, k, has, ok)
			}
		}
	}
	return nil
}

// IterSpec is one range read.
type IterSpec struct {
	Start, End       []byte
	StartNil, EndNil bool
	Asc              bool
	API              int
	StopAfter        int // >0: the callback asks to stop after that many keys
}

// CheckIter runs one range iteration at root and compares the visited sequence
// with the model: exactly the state's keys inside the bounds, each once, in the
// requested order, with their values.
func CheckIter(ctx *simrt.Ctx, n *Node, root []byte, st *State, sp IterSpec, tag string) *simrt.Violation {
	name := itNames[sp.API]
	start, end := sp.Start, sp.End
	if sp.StartNil {
		start = nil
	} else if start == nil {
		start = []byte{}
	}
	if sp.EndNil {
		end = nil
	} else if end == nil {
		end = []byte{}
	}
	want := st.Range(start, end, sp.StartNil, sp.EndNil, sp.API == ItTreeIncl, sp.Asc)
	full := len(want)
	if sp.StopAfter > 0 && sp.StopAfter < len(want) {
		want = want[:sp.StopAfter]
	}
	type kv struct{ k, v []byte }
	var got []kv
	fn := func(k, v []byte) bool {
		got = append(got, kv{append([]byte(nil), k...), append([]byte(nil), v...)})
		return sp.StopAfter > 0 && len(got) >= sp.StopAfter
	}
	var lerr error
	p := Guard(func() {
		switch sp.API {
		case ItStore:
			n.Store.IterateRangeByStateHash(root, start, end, sp.Asc, fn)
		case ItFunc:
			mavldb.IterateRangeByStateHash(n.DB(), root, start, end, sp.Asc, n.TreeCfg(), fn)
		case ItTreeRange, ItTreeIncl:
			tree := mavldb.NewTree(n.DB(), true, n.TreeCfg())
			if lerr = tree.Load(root); lerr != nil {
				return
			}
			if sp.API == ItTreeRange {
				tree.IterateRange(start, end, sp.Asc, fn)
			} else {
				tree.IterateRangeInclusive(start, end, sp.Asc, fn)
			}
		}
	})
	if p != nil {
		return ctx.Violate("read-panic", name+"/"+tag, "%s(root=%x, start=%x, end=%x, asc=%v) panicked: %v", name, root, start, end, sp.Asc, p)
	}
	if lerr != nil {
		return ctx.Violate("iter-mismatch", "tree.Load/"+tag+"/root-unreadable", "Tree.Load(%x) returned %v for a committed root", root, lerr)
	}
	bound := "bounded"
	if sp.StartNil || sp.EndNil {
		bound = "nil-bound"
	}
	dir := "asc"
	if !sp.Asc {
		dir = "desc"
	}
	sig := name + "/" + tag + "/" + bound + "/" + dir
	desc := func() string {
		return fmt.Sprintf("%s(root=%x, start=%x nil=%v, end=%x nil=%v, asc=%v, stopAfter=%d)", name, root, start, sp.StartNil, end, sp.EndNil, sp.Asc, sp.StopAfter)
	}
	seen := map[string]bool{}
	for i, g := range got {
		if seen[string(g.k)] {
			return ctx.Violate("iter-mismatch", sig+"/duplicate", "%s visited key %x twice (visit %d)", desc(), g.k, i)
		}
		seen[string(g.k)] = true
		if i >= len(want) {
			shape := "extra-key"
			if _, ok := st.Get(g.k); !ok {
				shape = "foreign-key"
			} else if sp.StopAfter > 0 && i >= sp.StopAfter {
				shape = "ignored-stop"
			}
			return ctx.Violate("iter-mismatch", sig+"/"+shape, "%s visited %d keys, model has %d in range; extra key %x", desc(), len(got), len(want), g.k)
		}
		if string(g.k) != want[i] {
			shape := "wrong-key"
			if _, ok := st.Get(g.k); !ok {
				shape = "foreign-key"
			} else {
				// is it a key of the range at the wrong position, a skipped key, or out of bounds?
				inr := false
				for _, w := range want {
					if w == string(g.k) {
						inr = true
					}
				}
				if !inr {
					shape = "out-of-bounds-key"
				} else {
					shape = "skipped-or-misordered"
				}
			}
			return ctx.Violate("iter-mismatch", sig+"/"+shape, "%s visit %d: key %x, model expects %x (model range has %d keys)", desc(), i, g.k, want[i], full)
		}
		if wv, _ := st.Get(g.k); !bytes.Equal(g.v, wv) {
			return ctx.Violate("iter-mismatch", sig+"/value", "%s visit %d: key %x value %x, model %x", desc(), i, g.k, g.v, wv)
		}
	}
	if len(got) < len(want) {
		return ctx.Violate("iter-mismatch", sig+"/missing-key", "%s visited %d keys, model expects %d; first missing %x", desc(), len(got), len(want), want[len(got)])
	}
	if full > 0 {
		ctx.Probe("iter_range_nonempty")
	} else {
		ctx.Probe("iter_range_empty")
	}
	if sp.StopAfter > 0 && sp.StopAfter < full {
		ctx.Probe("iter_early_stop")
	}
	return nil
}

// CheckFull verifies everything the model knows about one root: all keys and a
// few absent ones by point read, Size, and full ascending and descending
// iteration with explicit bounds.
func CheckFull(ctx *simrt.Ctx, n *Node, root []byte, st *State, tag string) *simrt.Violation {
	keys := make([][]byte, 0, st.Len()+4)
	for _, k := range st.Keys() {
		keys = append(keys, []byte(k))
	}
	// absent probes derived from present keys
	for i, k := range st.Keys() {
		if i >= 3 {
			break
		}
		c := append([]byte(k), 0x01)
		if _, ok := st.Get(c); !ok {
			keys = append(keys, c)
		}
	}
	if _, ok := st.Get([]byte("zz-absent")); !ok {
		keys = append(keys, []byte("zz-absent"))
	}
	if n.Cfg.MVCC {
		// value elision: the node records carry no values; only the key set is observable
		return checkKeysOnly(ctx, n, root, st, tag)
	}
	if v := CheckGet(ctx, n, root, st, keys, APIStoreGet, tag); v != nil {
		return v
	}
	if v := CheckSize(ctx, n, root, st, tag); v != nil {
		return v
	}
	if st.Len() == 0 {
		return CheckIter(ctx, n, root, st, IterSpec{Start: []byte{}, End: []byte{0xff, 0xff, 0xff, 0xff, 0xff, 0xff, 0xff, 0xff, 0xff, 0xff}, Asc: true, API: ItStore}, tag)
	}
	lo := []byte(st.Keys()[0])
	hi := []byte(st.Keys()[st.Len()-1])
	hiX := append(append([]byte(nil), hi...), 0x00) // smallest key greater than hi
	if v := CheckIter(ctx, n, root, st, IterSpec{Start: lo, End: hiX, Asc: true, API: ItStore}, tag); v != nil {
		return v
	}
	return CheckIter(ctx, n, root, st, IterSpec{Start: lo, End: hi, Asc: false, API: ItTreeIncl}, tag)
}

func checkKeysOnly(ctx *simrt.Ctx, n *Node, root []byte, st *State, tag string) *simrt.Violation {
	tree, err, p := n.LoadTree(root)
	if p != nil {
		return ctx.Violate("read-panic", "tree.Load/"+tag, "Tree.Load(%x) panicked: %v", root, p)
	}
	if err != nil {
		return ctx.Violate("get-mismatch", "tree.Load/"+tag+"/root-unreadable", "Tree.Load(%x) returned %v for a committed root", root, err)
	}
	var got []string
	p = Guard(func() {
		tree.Iterate(func(k, v []byte) bool { got = append(got, string(k)); return false })
	})
	if p != nil {
		return ctx.Violate("read-panic", "tree.Iterate/"+tag, "Tree.Iterate(root=%x) panicked: %v", root, p)
	}
	if len(got) != st.Len() {
		return ctx.Violate("iter-mismatch", "tree.Iterate/"+tag+"/count", "Tree.Iterate(root=%x) visited %d keys, model has %d", root, len(got), st.Len())
	}
	for i, k := range st.Keys() {
		if got[i] != k {
			return ctx.Violate("iter-mismatch", "tree.Iterate/"+tag+"/key", "Tree.Iterate(root=%x) visit %d: key %x, model %x", root, i, got[i], k)
		}
	}
	return nil
}

// CheckSize compares Tree.Size after Load with the number of keys.
func CheckSize(ctx *simrt.Ctx, n *Node, root []byte, st *State, tag string) *simrt.Violation {
	tree, err, p := n.LoadTree(root)
	if p != nil {
		return ctx.Violate("read-panic", "tree.Load/"+tag, "Tree.Load(%x) panicked: %v", root, p)
	}
	if err != nil {
		return ctx.Violate("get-mismatch", "tree.Load/"+tag+"/root-unreadable", "Tree.Load(%x) returned %v for a committed root", root, err)
	}
	if int(tree.Size()) != st.Len() {
		return ctx.Violate("size-mismatch", "tree.Size/"+tag, "Tree.Size(root=%x) = %d; model has %d keys", root, tree.Size(), st.Len())
	}
	h := tree.Height()
	switch {
	case h >= 8:
		ctx.Probe("tree_height_ge_8")
	case h >= 5:
		ctx.Probe("tree_height_ge_5")
	}
	return nil
}

// CheckAllRoots fully verifies every committed root (used after restarts and at the end).
func CheckAllRoots(ctx *simrt.Ctx, n *Node, vm *VModel, tag string) *simrt.Violation {
	for _, r := range vm.Roots() {
		if v := CheckFull(ctx, n, r, vm.State(r), tag); v != nil {
			return v
		}
	}
	return nil
}

// ---------------------------------------------------------------------------
// generators

// KeyPool is a per-scenario key universe: small, with shared prefixes, the empty
// key, binary bytes, and runs of ordered keys (rotation drivers).
type KeyPool struct {
	Keys [][]byte
}

var keyAlphabet = []byte{0x00, 'a', 'b', '.', 0xfe, 0xff}

// NewKeyPool draws n distinct keys.
func NewKeyPool(r *simrt.RNG, n int, allowEmpty bool) *KeyPool {
	seen := map[string]bool{}
	p := &KeyPool{}
	add := func(k []byte) {
		if !seen[string(k)] {
			seen[string(k)] = true
			p.Keys = append(p.Keys, k)
		}
	}
	if allowEmpty {
		add([]byte{})
	}
	prefixes := []string{"mavl-coins-bty-", "mavl-coins-bty-exec-", "mavl-", "m", string(ticket.TicketPrefix)}
	for tries := 0; len(p.Keys) < n && tries < 20*n+100; tries++ {
		switch r.Weighted(5, 4, 2, 2, 3) {
		case 0: // short words over a tiny alphabet: many shared prefixes
			l := r.Range(1, 5)
			k := make([]byte, l)
			for i := range k {
				k[i] = keyAlphabet[r.Intn(len(keyAlphabet))]
			}
			add(k)
		case 1: // realistic prefixed keys
			pre := prefixes[r.Intn(len(prefixes))]
			l := r.Range(0, 3)
			k := []byte(pre)
			for i := 0; i < l; i++ {
				k = append(k, "0123abcx"[r.Intn(8)])
			}
			add(k)
		case 2: // binary
			add(r.Bytes(r.Range(1, 9)))
		case 3: // long key
			add(append([]byte("long-"), bytes.Repeat([]byte{byte('a' + r.Intn(3))}, r.Range(40, 120))...))
		case 4: // ordered numeric keys
			add([]byte(fmt.Sprintf("k%05d", r.Intn(4*n+10))))
		}
	}
	return p
}

// Pick returns a pool key.
func (p *KeyPool) Pick(r *simrt.RNG) []byte { return p.Keys[r.Intn(len(p.Keys))] }

// GenValue draws a value: mostly short and unique, sometimes empty, sometimes
// large, and for ticket keys sometimes an encoded closed ticket (the mem-tree
// routes those into a separate cache).
func GenValue(r *simrt.RNG, uniq *int, key []byte) []byte {
	*uniq++
	if bytes.HasPrefix(key, ticket.TicketPrefix) && r.Chance(1, 2) {
		st := int32(ticket.StatusCloseTicket)
		if r.Chance(1, 3) {
			st = 1
		}
		return types.Encode(&ticket.Ticket{TicketId: fmt.Sprintf("t%d", *uniq), Status: st})
	}
	switch r.Weighted(12, 1, 1, 1) {
	case 1:
		return []byte{}
	case 2:
		// sizes on both sides of the thresholds a cache or an encoder might have
		n := r.Range(100, 400)
		if r.Chance(1, 4) {
			n = []int{4095, 4096, 4097, 5000, 16384, 65536 + 7}[r.Intn(6)]
		}
		return bytes.Repeat([]byte{byte(*uniq)}, n)
	case 3:
		return []byte("same") // repeated value: overwrite with identical content
	}
	return []byte(fmt.Sprintf("v%d", *uniq))
}

// KVOp builds a "kv" sub-op.
func KVOp(k, v []byte) simrt.Op { return simrt.Op{K: "kv", S: []string{simrt.H(k), simrt.H(v)}} }

// sortedCopy returns the keys sorted ascending.
func sortedCopy(keys [][]byte) [][]byte {
	out := append([][]byte(nil), keys...)
	sort.Slice(out, func(i, j int) bool { return bytes.Compare(out[i], out[j]) < 0 })
	return out
}

// ConfigFromKnobs reads the storage configuration of a scenario.
func ConfigFromKnobs(sc *simrt.Scenario) Config {
	c := ConfigFromBits(sc.Knob("cfg", 0))
	c.Cache = int(sc.Knob("cache", 0))
	c.TkLen = int32(sc.Knob("tklen", 0))
	c.PruneHeight = int32(sc.Knob("pruneheight", 0))
	c.RealMemInit = sc.Knob("realmeminit", 0) == 1
	return c
}

// DrawConfigKnobs draws a storage configuration into the scenario's knobs.
// withMVCC: include value elision (only sensible where values are not read back).
func DrawConfigKnobs(r *simrt.RNG, sc *simrt.Scenario, withMVCC bool) {
	bits := int64(r.Intn(1 << NumConfigBits))
	if !withMVCC {
		bits &^= BitMVCC
	}
	sc.Knobs["cfg"] = bits
	sc.Knobs["cache"] = int64([]int{0, 0, 1, 2, 8, 64}[r.Intn(6)])
	if bits&BitMemTree != 0 {
		sc.Knobs["tklen"] = int64([]int{0, 1, 4}[r.Intn(3)])
		if r.Chance(1, 12) {
			sc.Knobs["realmeminit"] = 1 // the constructor's own (slow) cache allocation
		}
	}
	// A prune interval that can never fire (heights stay far below it): the code
	// paths that depend on PruneHeight != 0 run, the pruner itself does not.
	if bits&BitPrune != 0 && r.Chance(1, 2) {
		sc.Knobs["pruneheight"] = 1 << 30
	}
}
