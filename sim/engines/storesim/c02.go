package storesim

import (
	"bytes"
	"fmt"
	"testing"

	"github.com/33cn/chain33/types"

	"verifsim/simrt"
)

// C02 — the state root depends only on the prior root and the ordered writes.
//
// One logical history H of write batches (a tree of states: every batch extends
// the root of an earlier batch or the empty state) is fed to a set of replicas.
// A replica plays the role of a node: its own disk, its own process (globals
// reset), its own storage configuration (prefix / prune / memtree / memval /
// MVCC value elision), its own way of applying a batch (Set, or MemSet then
// Commit), its own node-cache size, its own block-height labelling, and its own
// noise history interleaved with H: unrelated pending updates on other parents,
// rollbacks, commits of other branches, a pending copy of the very next batch
// that is rolled back, cache-warming reads, process restarts.
//
// Oracle (replica divergence): for every logical batch all replicas report the
// same root; Commit returns the root MemSet returned; replaying H after a
// restart of the same replica gives the same roots again.

func init() {
	simrt.Register(&simrt.Info{
		Property: "C02", Engine: &c02{},
		Real:       []string{"system/store/mavl Store (constructor, Set, MemSet, Commit, Rollback, Get, IterateRangeByStateHash, Close)", "system/store/mavl/db Tree/Node hashing, height prefix, mem-tree caches (process-global), prune bookkeeping (pruner itself off)", "types LeafNode/InnerNode hashing", "common/db GoMemDB under simdb"},
		Stub:       []string{"disk: simdb", "replicas run one after another in one OS process with the mavl/db globals reset in between (one store per process is the production shape)"},
		FaultKinds: []string{"close_reopen", "crash_restart", "noise_pending", "noise_rollback", "noise_commit_other_branch", "noise_read"},
		Rule:       "one case = one logical history of batches applied by several replicas (distinct storage configurations x {Set, MemSet+Commit}, each with its own noise history, height labelling and restarts) and replayed after a restart; distinct = distinct scenario digest; non-trivial = at least 2 batches, at least 2 replicas with different configuration or mode, and at least one noise action or restart actually happened",
		Nontrivial: func(sc *simrt.Scenario, r *simrt.Result) bool {
			nf := 0
			for _, n := range r.Faults {
				nf += n
			}
			return r.Probes["logical_batch"] >= 2 && r.Probes["replica_pairs_compared"] >= 1 && nf > 0
		},
	})
}

type c02 struct{}

func (c02) Name() string { return "storesim" }

func (c02) Generate(prop string, r *simrt.RNG, tier string, run int) *simrt.Scenario {
	sc := &simrt.Scenario{Knobs: map[string]int64{}}
	// how many replicas: all 64 combinations with a short history, or a sample with a longer one
	var nrep, nbatch, maxKV int
	switch r.Weighted(1, 3, 4) {
	case 0:
		nrep, nbatch, maxKV = 64, r.Range(2, 10), 12
	case 1:
		nrep, nbatch, maxKV = 16, r.Range(3, 20), 40
	default:
		nrep, nbatch, maxKV = 6, r.Range(4, 30), 120
	}
	sc.Knobs["replicas"] = int64(nrep)
	if r.Chance(1, 3) {
		sc.Knobs["altheight"] = 1
	}
	// strict / open: open runs (30 %) generate everything; in strict runs a replica
	// with the mem-tree option never computes a MemSet (it applies H with Set and its
	// noise has no pending updates), which is the shape of the recorded known defect.
	open := r.Chance(3, 10)
	if open {
		sc.Knobs["open"] = 1
	}
	poolSize := []int{6, 20, 80, 400}[r.Intn(4)]
	pool := NewKeyPool(r, poolSize, r.Chance(2, 3))
	uniq, seq := 0, 0
	// H
	for i := 0; i < nbatch; i++ {
		parent := int64(0)
		if i > 0 {
			switch r.Weighted(6, 2, 1) {
			case 0:
				parent = int64(i) // extend the previous batch
			case 1:
				parent = int64(r.Range(0, i)) // fork
			default:
				parent = 0 // from the empty state
			}
		}
		n := r.Range(1, 8)
		if r.Chance(1, 3) {
			n = r.Range(4, maxKV)
		}
		if r.Chance(1, 30) {
			n = 0 // empty batch
		}
		op := simrt.Op{K: "batch", I: []int64{parent, int64(i + 1), int64(r.Range(1, 40))}}
		shape := r.Weighted(6, 2, 2)
		for j := 0; j < n; j++ {
			var k []byte
			switch shape {
			case 0:
				k = pool.Pick(r)
			case 1:
				seq++
				k = []byte(fmt.Sprintf("r%06d", 500000+seq))
			default:
				seq++
				k = []byte(fmt.Sprintf("r%06d", 500000-seq))
			}
			op.Sub = append(op.Sub, KVOp(k, GenValue(r, &uniq, k)))
		}
		sc.Ops = append(sc.Ops, op)
	}
	// noise key universe travels with the scenario
	nk := simrt.Op{K: "noisekeys"}
	for i := 0; i < 12; i++ {
		nk.S = append(nk.S, simrt.H(pool.Pick(r)))
	}
	sc.Ops = append(sc.Ops, nk)
	// replicas
	var combos []int
	if nrep == 64 {
		for c := 0; c < 64; c++ {
			combos = append(combos, c)
		}
	} else {
		perm := r.Perm(64)
		combos = perm[:nrep]
	}
	for _, c := range combos {
		bits := int64(c >> 1)
		mode := int64(c & 1)
		cache := int64([]int{0, 0, 1, 4, 32}[r.Intn(5)])
		hOff := int64([]int{0, 0, 1, 7, 1000, 123456}[r.Intn(6)])
		// 0: every batch at the same height (rare: with prune bookkeeping every commit then
		// walks all earlier roots of that height, which is quadratic)
		hStride := int64([]int{1, 1, 2, 1, 1, 2, 1, 1, 2, 1, 1, 0}[r.Intn(12)])
		noiseRate := int64([]int{0, 2, 5, 8}[r.Intn(4)]) // out of 10
		replay := int64(r.Intn(3))                       // 0 reopen, 1 crash, 2 reopen and flip the mode
		pruneH := int64(0)
		if r.Chance(1, 2) {
			pruneH = 1 << 30
		}
		tk := int64([]int{0, 1, 4}[r.Intn(3)])
		noMemSet := int64(0)
		if !open && bits&BitMemTree != 0 {
			noMemSet, mode = 1, 0
			if replay == 2 {
				replay = 0
			}
		}
		realMem := int64(0)
		if bits&BitMemTree != 0 && r.Chance(1, 24) {
			realMem = 1
		}
		sc.Ops = append(sc.Ops, simrt.Op{K: "replica", I: []int64{bits, mode, cache, hOff, hStride, int64(r.U64() >> 1), noiseRate, replay, pruneH, tk, noMemSet, realMem}})
	}
	return sc
}

type replicaSpec struct {
	cfg                  Config
	mode                 int64
	hOff, hStride        int64
	noiseSeed, noiseRate int64
	replay               int64
	noMemSet             bool
	desc                 string
}

func specOf(op *simrt.Op) replicaSpec {
	cfg := ConfigFromBits(op.Int(0))
	cfg.Cache = int(op.Int(2))
	cfg.PruneHeight = int32(op.Int(8))
	cfg.TkLen = int32(op.Int(9))
	cfg.RealMemInit = op.Int(11) == 1
	s := replicaSpec{cfg: cfg, mode: op.Int(1) & 1, hOff: op.Int(3), hStride: op.Int(4), noiseSeed: op.Int(5), noiseRate: op.Int(6), replay: op.Int(7), noMemSet: op.Int(10) == 1}
	m := "set"
	if s.mode == 1 {
		m = "memset-commit"
	}
	s.desc = cfg.String() + "/" + m
	return s
}

// replicaRun is one replica executing H.
type replicaRun struct {
	ctx       *simrt.Ctx
	spec      replicaSpec
	n         *Node
	batches   []*simrt.Op
	noiseKeys [][]byte
	roots     [][]byte // root per logical batch (this pass)
	committed [][]byte // every root committed on this replica (logical and noise)
	pending   [][]byte // noise pending roots
	uniq      int
	// altHeight: the rolled-back / abandoned pending copy of the next batch may carry a
	// neighbouring block height (a competing block) instead of the batch's own
	altHeight bool
	// pendSeen: uncommitted MemSets computed in the current process
	pendSeen int
	// pendEarlier: the same, in earlier processes of this replica (before its last restart)
	pendEarlier int
}

func (rr *replicaRun) pendTag() string {
	if rr.pendSeen > 0 {
		return "uncommitted-memset-in-this-process"
	}
	if rr.pendEarlier > 0 {
		return "uncommitted-memset-before-restart"
	}
	return "no-uncommitted-memset"
}

func (rr *replicaRun) height(b *simrt.Op) int64 { return rr.spec.hOff + b.Int(2)*rr.spec.hStride }

func (rr *replicaRun) parentRoot(i int) []byte {
	p := rr.batches[i].Int(0)
	if p < 0 {
		p = -p
	}
	p %= int64(i + 1)
	if p == 0 {
		return nil
	}
	return rr.roots[p-1]
}

func (rr *replicaRun) noiseKVs(r *simrt.RNG) []*types.KeyValue {
	n := r.Range(1, 6)
	var kvs []*types.KeyValue
	for i := 0; i < n; i++ {
		var k []byte
		if len(rr.noiseKeys) > 0 && r.Chance(3, 4) {
			k = rr.noiseKeys[r.Intn(len(rr.noiseKeys))]
		} else {
			k = []byte(fmt.Sprintf("noise-%d", r.Intn(50)))
		}
		rr.uniq++
		kvs = append(kvs, &types.KeyValue{Key: k, Value: []byte(fmt.Sprintf("n%d-%d", rr.spec.noiseSeed%1000, rr.uniq))})
	}
	return kvs
}

func (rr *replicaRun) someRoot(r *simrt.RNG) []byte {
	if len(rr.committed) == 0 || r.Chance(1, 8) {
		return nil
	}
	return rr.committed[r.Intn(len(rr.committed))]
}

// noise performs 0..3 unrelated actions. next is the upcoming logical batch (may be -1).
// allowRestart: a process restart is allowed here (not between MemSet and Commit of H).
func (rr *replicaRun) noise(r *simrt.RNG, next int, allowRestart bool) *simrt.Violation {
	ctx, n := rr.ctx, rr.n
	if int64(r.Intn(10)) >= rr.spec.noiseRate {
		return nil
	}
	for k := r.Range(1, 3); k > 0; k-- {
		var pnc interface{}
		what := ""
		kind := r.Weighted(4, 2, 2, 3, 2, 2, 2, 1)
		if rr.spec.noMemSet && (kind == 0 || kind == 1 || kind == 2 || kind == 5) {
			kind = 3 + kind%2 // reads instead
		}
		switch kind {
		case 0: // unrelated pending update on some committed root
			what = "MemSet"
			var root []byte
			var err error
			root, err, pnc = n.MemSet(rr.someRoot(r), rr.noiseKVs(r), int64(r.Range(0, 60)))
			if pnc == nil && err == nil {
				rr.pending = append(rr.pending, root)
				rr.pendSeen++
				ctx.Fault("noise_pending")
			}
		case 1: // roll a pending update back
			what = "Rollback"
			if len(rr.pending) > 0 {
				j := r.Intn(len(rr.pending))
				_, _, pnc = n.Rollback(rr.pending[j])
				rr.pending = append(rr.pending[:j], rr.pending[j+1:]...)
				ctx.Fault("noise_rollback")
			}
		case 2: // commit another branch
			what = "Commit"
			if len(rr.pending) > 0 {
				j := r.Intn(len(rr.pending))
				var out []byte
				var err error
				out, err, pnc = n.Commit(rr.pending[j])
				if pnc == nil && err == nil {
					rr.committed = append(rr.committed, out)
				}
				rr.pending = append(rr.pending[:j], rr.pending[j+1:]...)
				ctx.Fault("noise_commit_other_branch")
			}
		case 3: // cache-warming point reads
			what = "Get"
			root := rr.someRoot(r)
			var keys [][]byte
			for i := 0; i < 4 && len(rr.noiseKeys) > 0; i++ {
				keys = append(keys, rr.noiseKeys[r.Intn(len(rr.noiseKeys))])
			}
			pnc = Guard(func() { n.Store.Get(&types.StoreGet{StateHash: root, Keys: keys}) })
			ctx.Fault("noise_read")
		case 4: // cache-warming scan
			what = "IterateRangeByStateHash"
			root := rr.someRoot(r)
			cnt := 0
			pnc = Guard(func() {
				n.Store.IterateRangeByStateHash(root, []byte{}, []byte{0xff, 0xff, 0xff, 0xff}, r.Chance(1, 2), func(k, v []byte) bool { cnt++; return cnt > 200 })
			})
			ctx.Fault("noise_read")
		case 5: // a pending copy of the very next logical batch, rolled back before the real one
			what = "MemSet(next)+Rollback"
			if next >= 0 {
				b := rr.batches[next]
				var root []byte
				var err error
				// ... at the batch's own height or at a neighbouring one (a competing block)
				h := rr.height(b)
				if rr.altHeight {
					h += int64([]int{0, 1, -1, 17}[r.Intn(4)])
				}
				root, err, pnc = n.MemSet(rr.parentRoot(next), KVs(b.Sub), h)
				if pnc == nil && err == nil {
					rr.pendSeen++
					if r.Chance(3, 4) {
						_, _, pnc = n.Rollback(root)
						ctx.Fault("noise_rollback")
						ctx.Probe("next_batch_pended_then_rolled_back")
					} else {
						// never resolved: stays pending for the rest of the process
						ctx.Fault("noise_pending")
						ctx.Probe("next_batch_pended_and_left")
					}
				}
			}
		case 6: // direct commit of an unrelated batch on another parent at another height
			what = "Set"
			var root []byte
			var err error
			root, err, pnc = n.StoreSet(rr.someRoot(r), rr.noiseKVs(r), int64(r.Range(0, 60)))
			if pnc == nil && err == nil {
				rr.committed = append(rr.committed, root)
				ctx.Fault("noise_commit_other_branch")
			}
		case 7: // process restart in the middle of the history
			what = "restart"
			if allowRestart {
				if r.Chance(1, 2) {
					n.Reopen()
					ctx.Fault("close_reopen")
				} else {
					n.Crash()
					ctx.Fault("crash_restart")
				}
				rr.pending = nil
				rr.pendEarlier += rr.pendSeen
				rr.pendSeen = 0
			}
		}
		if pnc != nil {
			return ctx.Violate("panic", "noise/"+what+"|"+rr.spec.cfg.String()+"|"+rr.pendTag(), "replica %s: %s panicked: %v", rr.spec.desc, what, pnc)
		}
	}
	return nil
}

// pass applies H once. mode: 0 Set, 1 MemSet then Commit.
func (rr *replicaRun) pass(mode int64, passNo int, onRoot func(i int, root []byte) *simrt.Violation) *simrt.Violation {
	ctx, n := rr.ctx, rr.n
	rr.roots = make([][]byte, len(rr.batches))
	for i, b := range rr.batches {
		nr := simrt.NewRNG(uint64(rr.spec.noiseSeed)).SubN(uint64(b.Int(1))*4 + uint64(passNo)*2)
		if v := rr.noise(nr, i, true); v != nil {
			return v
		}
		parent := rr.parentRoot(i)
		kvs := KVs(b.Sub)
		h := rr.height(b)
		var root []byte
		var err error
		var pnc interface{}
		how := "store.Set"
		if mode == 0 {
			root, err, pnc = n.StoreSet(parent, kvs, h)
		} else {
			how = "store.MemSet"
			var r1 []byte
			r1, err, pnc = n.MemSet(parent, kvs, h)
			if pnc == nil && err == nil {
				rr.pendSeen++ // pending until the Commit below
				nr2 := simrt.NewRNG(uint64(rr.spec.noiseSeed)).SubN(uint64(b.Int(1))*4 + uint64(passNo)*2 + 1)
				if v := rr.noise(nr2, -1, false); v != nil {
					return v
				}
				how = "store.Commit"
				root, err, pnc = n.Commit(r1)
				if pnc == nil && err == nil && !bytes.Equal(root, r1) {
					return ctx.Violate("commit-root-mismatch", rr.spec.cfg.String(), "replica %s batch %d: MemSet returned %x, Commit returned %x", rr.spec.desc, i, r1, root)
				}
			}
		}
		if pnc != nil {
			return ctx.Violate("panic", how+"|"+rr.spec.cfg.String()+"|"+rr.pendTag(), "replica %s batch %d: %s(parent=%x, %d kvs, height=%d) panicked: %v", rr.spec.desc, i, how, parent, len(kvs), h, pnc)
		}
		if err != nil {
			return ctx.Violate("write-error", how, "replica %s batch %d: %s(parent=%x, %d kvs, height=%d) returned %v", rr.spec.desc, i, how, parent, len(kvs), h, err)
		}
		rr.roots[i] = root
		rr.committed = append(rr.committed, root)
		if v := onRoot(i, root); v != nil {
			return v
		}
	}
	return nil
}

func (c02) Execute(t *testing.T, ctx *simrt.Ctx) *simrt.Violation {
	sc := ctx.Sc
	var batches []*simrt.Op
	var reps []*simrt.Op
	var noiseKeys [][]byte
	for i := range sc.Ops {
		switch sc.Ops[i].K {
		case "batch":
			batches = append(batches, &sc.Ops[i])
		case "replica":
			reps = append(reps, &sc.Ops[i])
		case "noisekeys":
			for j := range sc.Ops[i].S {
				noiseKeys = append(noiseKeys, sc.Ops[i].B(j))
			}
		}
	}
	for range batches {
		ctx.Probe("logical_batch")
	}
	var ref [][]byte
	var refSpec replicaSpec
	opIndex := func(p *simrt.Op) int {
		for i := range sc.Ops {
			if &sc.Ops[i] == p {
				return i
			}
		}
		return 0
	}
	for ri, rop := range reps {
		ctx.CurOp = opIndex(rop)
		ctx.Step()
		spec := specOf(rop)
		rr := &replicaRun{ctx: ctx, spec: spec, batches: batches, noiseKeys: noiseKeys, altHeight: sc.Knob("altheight", 0) == 1}
		rr.n = NewNode(fmt.Sprintf("c02-r%d", ri), spec.cfg)
		v := func() *simrt.Violation {
			defer rr.n.Destroy()
			first := ri == 0
			if !first && (spec.cfg.Bits() != refSpec.cfg.Bits() || spec.mode != refSpec.mode) {
				ctx.Probe("replica_pairs_compared")
			}
			// pass 1: apply H, compare with the reference replica batch by batch
			if v := rr.pass(spec.mode, 0, func(i int, root []byte) *simrt.Violation {
				if first {
					return nil
				}
				if !bytes.Equal(root, ref[i]) {
					return ctx.Violate("root-divergence", refSpec.desc+" vs "+spec.desc,
						"logical batch %d (op %d, %d kvs): replica [%s] reports root %x, replica [%s] reports %x",
						i, opIndex(batches[i]), len(batches[i].Sub), refSpec.desc, ref[i], spec.desc, root)
				}
				return nil
			}); v != nil {
				return v
			}
			first1 := rr.roots
			if first {
				ref, refSpec = first1, spec
				for i, r := range ref {
					ctx.Logf("batch %d root=%x", i, r)
				}
				if len(ref) > 0 {
					ctx.State(simrt.DigestOf(fmt.Sprintf("%x", ref)))
				}
			}
			// pass 2: restart the replica's process and replay H from the start
			mode2 := spec.mode
			switch spec.replay {
			case 0:
				rr.n.Reopen()
				ctx.Fault("close_reopen")
			case 1:
				rr.n.Crash()
				ctx.Fault("crash_restart")
			default:
				rr.n.Reopen()
				ctx.Fault("close_reopen")
				mode2 = 1 - spec.mode
			}
			rr.pending = nil
			rr.pendEarlier += rr.pendSeen
			rr.pendSeen = 0
			return rr.pass(mode2, 1, func(i int, root []byte) *simrt.Violation {
				if !bytes.Equal(root, first1[i]) {
					return ctx.Violate("replay-divergence", spec.desc,
						"replica [%s]: logical batch %d gave root %x before the restart and %x when replayed after it", spec.desc, i, first1[i], root)
				}
				return nil
			})
		}()
		if v != nil {
			return v
		}
		ctx.Probe("cfg_" + spec.cfg.String())
	}
	return nil
}
