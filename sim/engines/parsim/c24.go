// Package parsim holds the engines for pure data-structure properties whose
// hidden inputs are owned by the simulator: C18 (transaction merkle root: leaf
// count, worker count, goroutine parallelism) and C24 (score-ordered queue: op
// history and the skip list's own randomness).
package parsim

import (
	"fmt"
	"math"
	"math/rand"
	"testing"

	"github.com/33cn/chain33/common/skiplist"

	"verifsim/simrt"
)

func init() {
	simrt.Register(&simrt.Info{
		Property: "C24", Engine: &c24{},
		Real: []string{"common/skiplist Queue", "common/skiplist SkipList (random levels from the seeded global math/rand)"},
		Stub: []string{"Scorer items (score, hash, byte size, tie-break weight) are harness objects"},
		Rule: "one case = one generated Push/Remove/Walk/First/Last/Exist/GetItem/Size/GetCacheBytes history on a queue of capacity 1..5 with a scenario-chosen math/rand seed; distinct = distinct (history, capacity, seed) digest; non-trivial = at least 6 ops and at least one Push that met a full queue (evicted or was refused)",
		Nontrivial: func(sc *simrt.Scenario, r *simrt.Result) bool {
			return len(sc.Ops) >= 6 && r.Probes["push_full_evict"]+r.Probes["push_full_reject"] > 0
		},
	})
}

type c24 struct{}

func (c24) Name() string { return "parsim" }

const c24Hashes = 12

var c24Scores = []int64{-7, -1, -1, 0, 0, 1, 1, 2, 2, 3, 5, 5, 9}

func (c24) Generate(prop string, r *simrt.RNG, tier string, run int) *simrt.Scenario {
	sc := &simrt.Scenario{Knobs: map[string]int64{}}
	sc.Knobs["cap"] = int64(r.Range(1, 5))
	if r.Chance(1, 12) {
		sc.Knobs["cap"] = int64(r.Range(6, 9))
	}
	sc.Knobs["seed"] = int64(r.Intn(1 << 30))
	// tie: 0 = items compare Equal when their scores are equal (as the package's
	// own test scorer does); 1 = items carry a tie-break weight
	sc.Knobs["tie"] = int64(r.Intn(2))
	nscores := r.Range(1, len(c24Scores)) // few distinct scores => many ties
	nops := r.Range(4, 60)
	h := func() string { return fmt.Sprintf("h%d", r.Intn(c24Hashes)) }
	for i := 0; i < nops; i++ {
		switch r.Weighted(12, 5, 2, 1, 1, 1) {
		case 0:
			score := c24Scores[r.Intn(nscores)]
			if r.Chance(1, 40) {
				score = math.MaxInt64
			} else if r.Chance(1, 40) {
				score = math.MinInt64
			}
			sc.Ops = append(sc.Ops, simrt.Op{K: "push", S: []string{h()}, I: []int64{score, int64(r.Intn(4)) * 100, int64(r.Intn(3))}})
		case 1:
			sc.Ops = append(sc.Ops, simrt.Op{K: "remove", S: []string{h()}})
		case 2:
			sc.Ops = append(sc.Ops, simrt.Op{K: "walk", I: []int64{int64(r.Range(-1, 6)), int64(r.Intn(5))}})
		case 3:
			sc.Ops = append(sc.Ops, simrt.Op{K: "removefirst"})
		case 4:
			sc.Ops = append(sc.Ops, simrt.Op{K: "removelast"})
		case 5:
			sc.Ops = append(sc.Ops, simrt.Op{K: "drain"})
		}
	}
	return sc
}

// qitem is the harness Scorer.
type qitem struct {
	hash   string
	score  int64
	size   int64
	weight int64
	useW   bool
	serial int
}

func (q *qitem) GetScore() int64 { return q.score }
func (q *qitem) Hash() []byte    { return []byte(q.hash) }
func (q *qitem) ByteSize() int64 { return q.size }

// Compare is the interface's tie-break "for equal scores".
func (q *qitem) Compare(o skiplist.Scorer) int {
	if !q.useW {
		return skiplist.Equal
	}
	ow := o.(*qitem).weight
	switch {
	case q.weight > ow:
		return skiplist.Big
	case q.weight < ow:
		return skiplist.Small
	}
	return skiplist.Equal
}
func (q *qitem) String() string {
	return fmt.Sprintf("%s#%d(score=%d,w=%d,size=%d)", q.hash, q.serial, q.score, q.weight, q.size)
}

// qmodel is the reference: a slice ordered by (score desc, arrival asc).
type qmodel struct {
	items []*qitem
	cap   int
}

func (m *qmodel) find(hash string) int {
	for i, it := range m.items {
		if it.hash == hash {
			return i
		}
	}
	return -1
}
func (m *qmodel) removeAt(i int) { m.items = append(m.items[:i], m.items[i+1:]...) }
func (m *qmodel) insert(it *qitem) {
	pos := len(m.items)
	for i, x := range m.items {
		if x.score < it.score {
			pos = i
			break
		}
	}
	m.items = append(m.items, nil)
	copy(m.items[pos+1:], m.items[pos:])
	m.items[pos] = it
}

// push returns whether the statement admits the item, and whether an eviction happens.
func (m *qmodel) push(it *qitem) (admit, evict bool, why string) {
	if m.find(it.hash) >= 0 {
		return false, false, "duplicate"
	}
	if len(m.items) >= m.cap {
		tail := m.items[len(m.items)-1]
		better := it.score > tail.score || (it.score == tail.score && it.Compare(tail) == skiplist.Big)
		if !better {
			return false, false, "full"
		}
		m.removeAt(len(m.items) - 1)
		evict = true
	}
	m.insert(it)
	return true, evict, ""
}

func (c24) Execute(t *testing.T, ctx *simrt.Ctx) *simrt.Violation {
	sc := ctx.Sc
	capacity := int(sc.Knob("cap", 3))
	if capacity < 1 {
		capacity = 1
	}
	useW := sc.Knob("tie", 0) == 1
	rand.Seed(sc.Knob("seed", 1)) // the skip list draws its node levels from the global source
	q := skiplist.NewQueue(int64(capacity))
	m := &qmodel{cap: capacity}
	serial := 0
	for i := range sc.Ops {
		op := &sc.Ops[i]
		ctx.CurOp = i
		ctx.Step()
		switch op.K {
		case "push":
			serial++
			it := &qitem{hash: op.Str(0), score: op.Int(0), size: op.Int(1), weight: op.Int(2), useW: useW, serial: serial}
			wasFull := len(m.items) >= m.cap
			admit, evict, why := m.push(it)
			var err error
			if p := guard(func() { err = q.Push(it) }); p != nil {
				return ctx.Violate("queue-panicked", "push", "Push(%v) panicked: %v; model before=%v", it, p, m.items)
			}
			switch {
			case admit && err != nil:
				return ctx.Violate("queue-mismatch", "push/refused-but-admissible", "Push(%v) returned %v; model admits it (full=%v evict=%v) model=%v", it, err, wasFull, evict, m.items)
			case !admit && err == nil:
				return ctx.Violate("queue-mismatch", "push/admitted-but-"+why, "Push(%v) succeeded; model refuses it (%s) model=%v", it, why, m.items)
			}
			if wasFull {
				if evict {
					ctx.Probe("push_full_evict")
					if len(m.items) > 0 && m.items[len(m.items)-1] == it {
						ctx.Probe("push_full_evict_by_tiebreak_or_tail")
					}
				} else if why == "full" {
					ctx.Probe("push_full_reject")
				}
			}
			if why == "duplicate" {
				ctx.Probe("push_duplicate_hash")
			}
		case "remove", "removefirst", "removelast":
			hash := op.Str(0)
			if op.K != "remove" {
				if len(m.items) == 0 {
					continue
				}
				if op.K == "removefirst" {
					hash = m.items[0].hash
				} else {
					hash = m.items[len(m.items)-1].hash
				}
			}
			idx := m.find(hash)
			var err error
			if p := guard(func() { err = q.Remove(hash) }); p != nil {
				return ctx.Violate("queue-panicked", "remove", "Remove(%s) panicked: %v; model=%v", hash, p, m.items)
			}
			if idx >= 0 {
				if err != nil {
					return ctx.Violate("queue-mismatch", "remove/failed-for-member", "Remove(%s) returned %v but the item is a member; model=%v", hash, err, m.items)
				}
				m.removeAt(idx)
				ctx.Probe("remove_member")
			} else {
				if err == nil {
					return ctx.Violate("queue-mismatch", "remove/ok-for-absent", "Remove(%s) returned nil for an absent hash; model=%v", hash, m.items)
				}
				ctx.Probe("remove_absent")
			}
		case "drain":
			for len(m.items) > 0 {
				var f skiplist.Scorer
				var err error
				if p := guard(func() { f = q.First(); err = q.Remove(m.items[0].hash) }); p != nil {
					return ctx.Violate("queue-panicked", "drain", "First/Remove(%s) panicked: %v; model=%v", m.items[0].hash, p, m.items)
				}
				if f == nil || f.(*qitem) != m.items[0] {
					return ctx.Violate("queue-mismatch", "first", "drain: First()=%v model first=%v", f, m.items[0])
				}
				if err != nil {
					return ctx.Violate("queue-mismatch", "remove/failed-for-member", "drain: Remove(%s) = %v", m.items[0].hash, err)
				}
				m.removeAt(0)
				if v := c24Compare(ctx, q, m, capacity); v != nil {
					return v
				}
			}
		case "walk":
			count, stopAt := int(op.Int(0)), int(op.Int(1))
			var got []*qitem
			calls := 0
			if p := guard(func() {
				q.Walk(count, func(v skiplist.Scorer) bool {
					calls++
					got = append(got, v.(*qitem))
					return stopAt == 0 || calls < stopAt
				})
			}); p != nil {
				return ctx.Violate("queue-panicked", "walk", "Walk(%d) panicked: %v; model=%v", count, p, m.items)
			}
			want := len(m.items)
			if count > 0 && count < want {
				want = count
			}
			if stopAt > 0 && stopAt < want {
				want = stopAt
			}
			if len(got) != want {
				return ctx.Violate("queue-mismatch", "walk/count", "Walk(count=%d, stop after %d) visited %d items, expected %d; model=%v", count, stopAt, len(got), want, m.items)
			}
			for j := range got {
				if got[j] != m.items[j] {
					return ctx.Violate("queue-mismatch", "walk/order", "Walk(count=%d) item %d = %v, model %v; model=%v", count, j, got[j], m.items[j], m.items)
				}
			}
		}
		if v := c24Compare(ctx, q, m, capacity); v != nil {
			return v
		}
		ctx.State(simrt.DigestOf(fmt.Sprint(m.items)))
	}
	return nil
}

// guard runs calls into the queue and reports a panic instead of propagating it.
func guard(f func()) (p interface{}) {
	defer func() { p = recover() }()
	f()
	return nil
}

// qobs is everything the queue lets a caller observe.
type qobs struct {
	size        int
	bytes       int64
	first, last skiplist.Scorer
	walk        []*qitem
	exist       [c24Hashes]bool
	item        [c24Hashes]skiplist.Scorer
	itemErr     [c24Hashes]error
}

func observe(q *skiplist.Queue) (o qobs, p interface{}) {
	p = guard(func() {
		o.size = q.Size()
		o.bytes = q.GetCacheBytes()
		o.first, o.last = q.First(), q.Last()
		q.Walk(0, func(v skiplist.Scorer) bool { o.walk = append(o.walk, v.(*qitem)); return true })
		for h := 0; h < c24Hashes; h++ {
			hash := fmt.Sprintf("h%d", h)
			o.exist[h] = q.Exist(hash)
			o.item[h], o.itemErr[h] = q.GetItem(hash)
		}
	})
	return
}

// c24Compare compares every observable of the queue with the model.
func c24Compare(ctx *simrt.Ctx, q *skiplist.Queue, m *qmodel, capacity int) *simrt.Violation {
	o, p := observe(q)
	if p != nil {
		return ctx.Violate("queue-panicked", "observe", "Size/GetCacheBytes/First/Last/Walk/Exist/GetItem panicked: %v; model=%v", p, m.items)
	}
	if o.size > capacity {
		return ctx.Violate("queue-mismatch", "capacity-exceeded", "Size()=%d > capacity %d", o.size, capacity)
	}
	if o.size != len(m.items) {
		return ctx.Violate("queue-mismatch", "size", "Size()=%d model %d; model=%v", o.size, len(m.items), m.items)
	}
	var bytes int64
	for _, it := range m.items {
		bytes += it.size
	}
	if o.bytes != bytes {
		return ctx.Violate("queue-mismatch", "bytes", "GetCacheBytes()=%d, sum of member sizes %d; model=%v", o.bytes, bytes, m.items)
	}
	f, l := o.first, o.last
	if len(m.items) == 0 {
		if f != nil || l != nil {
			return ctx.Violate("queue-mismatch", "first-last/empty", "empty queue: First()=%v Last()=%v", f, l)
		}
	} else {
		if f == nil || f.(*qitem) != m.items[0] {
			return ctx.Violate("queue-mismatch", "first", "First()=%v model %v; model=%v", f, m.items[0], m.items)
		}
		if l == nil || l.(*qitem) != m.items[len(m.items)-1] {
			return ctx.Violate("queue-mismatch", "last", "Last()=%v model %v; model=%v", l, m.items[len(m.items)-1], m.items)
		}
	}
	got := o.walk
	if len(got) != len(m.items) {
		return ctx.Violate("queue-mismatch", "walk/length", "full walk yields %v; model=%v", got, m.items)
	}
	ties := 1
	for j := range got {
		if got[j] != m.items[j] {
			return ctx.Violate("queue-mismatch", "walk/order", "full walk yields %v; model=%v", got, m.items)
		}
		if j > 0 && got[j].score == got[j-1].score {
			ties++
			if ties == 3 {
				ctx.Probe("three_equal_scores_in_queue")
			}
		} else {
			ties = 1
		}
	}
	for h := 0; h < c24Hashes; h++ {
		hash := fmt.Sprintf("h%d", h)
		idx := m.find(hash)
		if o.exist[h] != (idx >= 0) {
			return ctx.Violate("queue-mismatch", "exist", "Exist(%s)=%v, model member=%v; model=%v", hash, o.exist[h], idx >= 0, m.items)
		}
		it, err := o.item[h], o.itemErr[h]
		if idx >= 0 {
			if err != nil || it == nil || it.(*qitem) != m.items[idx] {
				return ctx.Violate("queue-mismatch", "getitem", "GetItem(%s)=%v,%v model %v", hash, it, err, m.items[idx])
			}
		} else if err == nil {
			return ctx.Violate("queue-mismatch", "getitem/absent", "GetItem(%s)=%v,nil for an absent hash", hash, it)
		}
	}
	return nil
}
