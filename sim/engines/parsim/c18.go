package parsim

import (
	"bufio"
	"bytes"
	"crypto/sha256"
	"encoding/binary"
	"encoding/json"
	"fmt"
	"io"
	"os"
	"os/exec"
	"runtime"
	"sort"
	"strings"
	"sync"
	"sync/atomic"
	"testing"
	"time"

	"github.com/33cn/chain33/common/merkle"
	"github.com/33cn/chain33/queue"
	"github.com/33cn/chain33/types"
	"github.com/33cn/chain33/util"
	"golang.org/x/sys/unix"

	"verifsim/simrt"
)

// C18 — transaction merkle root.
//
// What the simulator owns:
//   * the leaf count (stratified by run index so that a batch covers every count),
//   * the worker count of the parallel root: merkle.GetMerkleRoot sizes its chunks
//     by runtime.NumCPU(), which is fixed at process start, so the scenario is
//     executed in a CHILD worker process started under a CPU-affinity mask of
//     exactly `ncpu` CPUs (knob "ncpu"; 0 = run in this process),
//   * GOMAXPROCS (knob "gmp"): how many of the chunk goroutines really run in
//     parallel and in which order they finish.

func init() {
	simrt.Register(&simrt.Info{
		Property: "C18", Engine: &c18{},
		Real: []string{"common/merkle GetMerkleRoot (parallel, chunked by runtime.NumCPU of a child process pinned to ncpu CPUs)", "common/merkle Computation / GetMerkleBranch / GetMerkleRootFromBranch / GetMerkleRootAndBranch", "common/merkle CalcMerkleRoot / CalcMerkleRootCache / CalcMultiLayerMerkleInfo", "types.TransactionSort, Transaction.Hash/FullHash", "blockchain getTxFullHashProofs-equivalent composition of per-chain proofs (query_tx.go getMultiLayerProofs needs a node and is re-composed from CalcMultiLayerMerkleInfo output)"},
		Stub: []string{"leaf hashes are generated 32-byte values; transactions are unsigned generated transactions"},
		Rule: "one case = one scenario (worker count ncpu, GOMAXPROCS, and a list of checks: parallel-vs-sequential roots for a stratified set of leaf counts, all/sampled inclusion branches, a mixed main/parachain list with child roots and two-level proofs, duplicated-tail lists); distinct = distinct scenario digest; non-trivial = at least one root check with more than 80 leaves under ncpu >= 2 (the parallel path) or a multi-chain list with >= 2 chains",
		Nontrivial: func(sc *simrt.Scenario, r *simrt.Result) bool {
			return r.Probes["parallel_path"] > 0 || r.Probes["multi_chains>=2"] > 0
		},
	})
}

type c18 struct{}

func (c18) Name() string { return "parsim" }

const c18Stride = 100

var c18NCPU = []int64{1, 2, 3, 4, 5, 6, 7, 8, 10, 12, 16}

func (c18) Generate(prop string, r *simrt.RNG, tier string, run int) *simrt.Scenario {
	sc := &simrt.Scenario{Knobs: map[string]int64{}}
	sc.Knobs["ncpu"] = c18NCPU[r.Intn(len(c18NCPU))]
	sc.Knobs["gmp"] = []int64{1, 2, 4, 8}[r.Intn(4)]
	maxN := 3000
	if tier == "thorough" {
		maxN = 6000
	}
	seed := func() int64 { return int64(r.Intn(1 << 30)) }
	// (1) stratified root checks: every count n == run (mod stride), so any
	// window of `stride` consecutive runs covers every count up to maxN
	var ns []int64
	for n := run%c18Stride + 1; n <= maxN+c18Stride; n += c18Stride {
		ns = append(ns, int64(n))
	}
	// counts around powers of two and around the chunking thresholds
	// (80 leaves; count/ncpu crossing a power of two; chunk cap 256)
	ncpu := int(sc.Knobs["ncpu"])
	for k := 0; k < 4; k++ {
		var n int
		switch r.Intn(4) {
		case 0:
			n = (1 << uint(r.Range(1, 12))) + r.Range(-2, 2)
		case 1:
			n = 80 + r.Range(-2, 3)
		case 2:
			n = ncpu*(1<<uint(r.Range(1, 9))) + r.Range(-2, 2)
		default:
			n = 256*r.Range(1, 12) + r.Range(-2, 2)
		}
		if n < 1 {
			n = 1
		}
		if n > maxN+c18Stride {
			n = maxN
		}
		ns = append(ns, int64(n))
	}
	for _, n := range ns {
		sc.Ops = append(sc.Ops, simrt.Op{K: "root", I: []int64{n, seed()}})
	}
	// (2) branches: every index of a small list (all counts <= 130 over a window
	// of 130 runs), sampled indices of a large one
	sc.Ops = append(sc.Ops, simrt.Op{K: "branch", I: []int64{int64(run%130 + 1), seed(), 0}})
	sc.Ops = append(sc.Ops, simrt.Op{K: "branch", I: []int64{int64(r.Range(131, maxN)), seed(), 24}})
	// (3) mixed main / parachain list
	{
		op := simrt.Op{K: "multi", I: []int64{seed(), int64(r.Intn(2)), int64(r.Range(0, 3))}}
		nchains := r.Range(0, 5)
		hasMain := r.Chance(3, 4)
		if hasMain {
			op.Sub = append(op.Sub, simrt.Op{K: "chain", S: []string{""}, I: []int64{int64(c18ChainLen(r))}})
		}
		for j := 0; j < nchains; j++ {
			title := fmt.Sprintf("user.p.%s.", []string{"a", "b", "game", "x1", "zz", "a2"}[r.Intn(6)])
			op.Sub = append(op.Sub, simrt.Op{K: "chain", S: []string{title}, I: []int64{int64(c18ChainLen(r))}})
		}
		sc.Ops = append(sc.Ops, op)
	}
	// (4) duplicated-tail lists and near misses
	for k := 0; k < 2; k++ {
		lvl := r.Range(0, 5)
		m := 2*r.Range(1, 12) + 1 // odd >= 3
		if r.Chance(1, 6) {
			m = 2 * r.Range(1, 12) // even: a near miss, must NOT collide
		}
		sc.Ops = append(sc.Ops, simrt.Op{K: "dup", I: []int64{int64(lvl), int64(m), seed(), int64(r.Intn(4))}})
	}
	// (5) the root a produced block carries when some transactions fail outright
	for k := 0; k < 3; k++ {
		op := simrt.Op{K: "produce", I: []int64{0, seed(), int64(r.Intn(2))}}
		for j, m := 0, r.Range(1, 9); j < m; j++ {
			op.Sub = append(op.Sub, simrt.Op{K: "r", I: []int64{int64([]int32{types.ExecOk, types.ExecOk, types.ExecPack, types.ExecErr}[r.Intn(4)])}})
		}
		sc.Ops = append(sc.Ops, op)
	}
	return sc
}

func c18ChainLen(r *simrt.RNG) int {
	switch r.Intn(4) {
	case 0:
		return r.Range(1, 3)
	case 1:
		return r.Range(4, 40)
	case 2:
		return r.Range(79, 90)
	default:
		return r.Range(1, 300)
	}
}

// ---------------------------------------------------------------------------
// reference tree (structure from the statement; node hash = the package primitive)

func c18Leaves(n int, seed int64) [][]byte {
	out := make([][]byte, n)
	var buf [16]byte
	binary.LittleEndian.PutUint64(buf[:8], uint64(seed))
	for i := range out {
		binary.LittleEndian.PutUint64(buf[8:], uint64(i))
		h := sha256.Sum256(buf[:])
		out[i] = h[:]
	}
	return out
}

func nodeHash(l, r []byte) []byte {
	return merkle.GetHashFromTwoHash(make([]byte, 64), l, r)
}

// refTree returns the root, whether two identical real siblings were ever
// combined (the duplicated-tail signature), and the sibling path of index pos.
func refTree(leaves [][]byte, pos int) (root []byte, mutated bool, path [][]byte) {
	level := make([][]byte, len(leaves))
	copy(level, leaves)
	for len(level) > 1 {
		next := make([][]byte, 0, (len(level)+1)/2)
		for i := 0; i < len(level); i += 2 {
			l := level[i]
			r := l // odd tail: paired with itself
			if i+1 < len(level) {
				r = level[i+1]
				if bytes.Equal(l, r) {
					mutated = true
				}
			}
			if pos == i {
				path = append(path, r)
			} else if pos == i+1 {
				path = append(path, l)
			}
			next = append(next, nodeHash(l, r))
		}
		pos /= 2
		level = next
	}
	if len(level) == 0 {
		return nil, false, nil
	}
	return level[0], mutated, path
}

func refFold(path [][]byte, leaf []byte, idx int) []byte {
	h := leaf
	for _, s := range path {
		if idx&1 == 1 {
			h = nodeHash(s, h)
		} else {
			h = nodeHash(h, s)
		}
		idx >>= 1
	}
	return h
}

func cloneList(l [][]byte) [][]byte {
	c := make([][]byte, len(l))
	copy(c, l)
	return c
}

// ---------------------------------------------------------------------------

var (
	c18cfgOnce sync.Once
	c18cfg     *types.Chain33Config
)

const c18ForkHeight = 100

func c18Config() *types.Chain33Config {
	c18cfgOnce.Do(func() {
		c18cfg = types.NewChain33Config(types.GetDefaultCfgstring())
		c18cfg.SetFork("ForkRootHash", c18ForkHeight)
	})
	return c18cfg
}

func (e c18) Execute(t *testing.T, ctx *simrt.Ctx) *simrt.Violation {
	sc := ctx.Sc
	ncpu := int(sc.Knob("ncpu", 0))
	if ncpu != 0 && ncpu != runtime.NumCPU() && os.Getenv("VERIF_PARSIM_CHILD") == "" {
		return c18RunChild(ctx, ncpu)
	}
	if gmp := int(sc.Knob("gmp", 1)); gmp > 0 {
		if gmp > runtime.NumCPU() {
			gmp = runtime.NumCPU()
		}
		old := runtime.GOMAXPROCS(gmp)
		defer runtime.GOMAXPROCS(old)
	}
	workers := runtime.NumCPU()
	for i := range sc.Ops {
		op := &sc.Ops[i]
		ctx.CurOp = i
		ctx.Step()
		var v *simrt.Violation
		p := func() (p interface{}) {
			defer func() {
				if p = recover(); p != nil {
					if _, harness := p.(simrt.HarnessError); harness {
						panic(p)
					}
				}
			}()
			v = c18Op(ctx, op, workers)
			return nil
		}()
		if p != nil {
			return ctx.Violate("merkle-panicked", op.K, "%s %v panicked: %v", op.K, op.I, p)
		}
		if v != nil {
			return v
		}
	}
	return nil
}

func c18Op(ctx *simrt.Ctx, op *simrt.Op, workers int) (v *simrt.Violation) {
	{
		switch op.K {
		case "root":
			v = c18Root(ctx, int(op.Int(0)), op.Int(1), workers)
		case "branch":
			v = c18Branch(ctx, int(op.Int(0)), op.Int(1), int(op.Int(2)))
		case "multi":
			v = c18Multi(ctx, op)
		case "dup":
			v = c18Dup(ctx, int(op.Int(0)), int(op.Int(1)), op.Int(2), int(op.Int(3)))
		case "produce":
			v = c18Produce(ctx, op)
		}
	}
	return v
}

func c18Root(ctx *simrt.Ctx, n int, seed int64, workers int) *simrt.Violation {
	if n < 1 {
		return nil
	}
	leaves := c18Leaves(n, seed)
	par := merkle.GetMerkleRoot(cloneList(leaves)) // works in place: give it its own slice
	seq, mut, _ := merkle.Computation(cloneList(leaves), 1, 0)
	ref, _, _ := refTree(leaves, -1)
	if n > 80 && workers > 1 {
		ctx.Probe("parallel_path")
		if n%2 == 1 {
			ctx.Probe("parallel_path_odd_count")
		}
	} else {
		ctx.Probe("sequential_path")
	}
	if !bytes.Equal(par, seq) {
		return ctx.Violate("root-mismatch", "parallel-vs-sequential", "leaves=%d workers(NumCPU)=%d GOMAXPROCS=%d: GetMerkleRoot=%x Computation=%x reference=%x", n, workers, runtime.GOMAXPROCS(0), par, seq, ref)
	}
	if !bytes.Equal(seq, ref) {
		return ctx.Violate("root-mismatch", "sequential-vs-reference", "leaves=%d: Computation=%x reference tree=%x", n, seq, ref)
	}
	if mut {
		return ctx.Violate("mutated-flag", "false-positive", "leaves=%d all distinct, Computation reports mutated", n)
	}
	return nil
}

func c18Branch(ctx *simrt.Ctx, n int, seed int64, sample int) *simrt.Violation {
	if n < 1 {
		return nil
	}
	leaves := c18Leaves(n, seed)
	root, _, _ := refTree(leaves, -1)
	var idxs []int
	if sample <= 0 || sample >= n {
		for i := 0; i < n; i++ {
			idxs = append(idxs, i)
		}
		ctx.Probe("branch_all_indices")
	} else {
		set := map[int]bool{0: true, n - 1: true, n - 2: true, n / 2: true}
		for p := 1; p < n; p <<= 1 {
			set[p] = true
			set[p-1] = true
		}
		rng := simrt.NewRNG(uint64(seed)).Sub("idx") // not ctx.Choice: the case may run in a child process
		for len(set) < sample && len(set) < n {
			set[rng.Intn(n)] = true
		}
		for i := range set {
			if i >= 0 && i < n {
				idxs = append(idxs, i)
			}
		}
		sort.Ints(idxs)
		ctx.Probe("branch_sampled_indices")
	}
	for _, idx := range idxs {
		br := merkle.GetMerkleBranch(cloneList(leaves), uint32(idx))
		got := merkle.GetMerkleRootFromBranch(br, leaves[idx], uint32(idx))
		if !bytes.Equal(got, root) {
			return ctx.Violate("branch-does-not-verify", "GetMerkleBranch", "leaves=%d index=%d: branch of %d hashes folds to %x, root is %x", n, idx, len(br), got, root)
		}
		if own := refFold(br, leaves[idx], idx); !bytes.Equal(own, root) {
			return ctx.Violate("branch-does-not-verify", "GetMerkleRootFromBranch", "leaves=%d index=%d: GetMerkleRootFromBranch=%x but an independent fold of the same branch gives %x (root %x)", n, idx, got, own, root)
		}
		r2, br2 := merkle.GetMerkleRootAndBranch(cloneList(leaves), uint32(idx))
		if !bytes.Equal(r2, root) {
			return ctx.Violate("root-mismatch", "GetMerkleRootAndBranch", "leaves=%d index=%d: root %x, expected %x", n, idx, r2, root)
		}
		if !bytes.Equal(merkle.GetMerkleRootFromBranch(br2, leaves[idx], uint32(idx)), root) {
			return ctx.Violate("branch-does-not-verify", "GetMerkleRootAndBranch", "leaves=%d index=%d: branch from GetMerkleRootAndBranch does not fold to the root", n, idx)
		}
		// binding: the same branch must not prove a different leaf or position
		if n > 1 {
			other := (idx + 1) % n
			if bytes.Equal(merkle.GetMerkleRootFromBranch(br, leaves[other], uint32(idx)), root) {
				return ctx.Violate("branch-not-binding", "other-leaf", "leaves=%d: branch of index %d also proves leaf %d", n, idx, other)
			}
		}
	}
	return nil
}

// c18Txs builds the transactions of one chain.
func c18Txs(title string, n int, seed int64, serial *int64) []*types.Transaction {
	txs := make([]*types.Transaction, n)
	for i := range txs {
		*serial++
		var p [16]byte
		binary.LittleEndian.PutUint64(p[:8], uint64(seed))
		binary.LittleEndian.PutUint64(p[8:], uint64(*serial))
		txs[i] = &types.Transaction{Execer: []byte(title + "none"), Payload: p[:], Nonce: *serial, Fee: 1,
			Signature: &types.Signature{Ty: 1, Pubkey: p[:8], Signature: p[8:]}}
	}
	return txs
}

func c18Multi(ctx *simrt.Ctx, op *simrt.Op) *simrt.Violation {
	cfg := c18Config()
	seed, shuffle, extra := op.Int(0), op.Int(1) == 1, int(op.Int(2))
	var serial int64
	var all []*types.Transaction
	titles := map[string]bool{}
	for _, ch := range op.Sub {
		n := int(ch.Int(0))
		if n < 1 {
			n = 1
		}
		t := ch.Str(0)
		titles[t] = true
		all = append(all, c18Txs(t, n, seed, &serial)...)
	}
	if len(all) == 0 {
		// empty list: both forms answer the all-zero root
		z := make([]byte, 32)
		if r := merkle.CalcMerkleRoot(cfg, c18ForkHeight+1, nil); !bytes.Equal(r, z) {
			return ctx.Violate("root-mismatch", "empty-list", "CalcMerkleRoot(no txs) = %x", r)
		}
		return nil
	}
	rng := simrt.NewRNG(uint64(seed)).Sub("multi") // not ctx.Choice: the case may run in a child process
	if shuffle {
		// interleave the chains; the block layout is what TransactionSort produces
		for i := len(all) - 1; i > 0; i-- {
			j := rng.Intn(i + 1)
			all[i], all[j] = all[j], all[i]
		}
	}
	_ = extra
	txs := types.TransactionSort(all)
	if len(txs) != len(all) {
		return ctx.Violate("multi-layer", "sort-lost-txs", "TransactionSort returned %d of %d txs", len(txs), len(all))
	}
	// before the fork: single tree over tx.Hash(), same via the cache form
	{
		hashes := make([][]byte, len(txs))
		caches := make([]*types.TransactionCache, len(txs))
		for i, tx := range txs {
			hashes[i] = tx.Hash()
			caches[i] = types.NewTransactionCache(tx)
		}
		ref, _, _ := refTree(hashes, -1)
		if r := merkle.CalcMerkleRoot(cfg, c18ForkHeight-1, txs); !bytes.Equal(r, ref) {
			return ctx.Violate("root-mismatch", "CalcMerkleRoot/pre-fork", "%d txs: CalcMerkleRoot=%x reference over tx hashes=%x", len(txs), r, ref)
		}
		if r := merkle.CalcMerkleRootCache(caches); !bytes.Equal(r, ref) {
			return ctx.Violate("root-mismatch", "CalcMerkleRootCache", "%d txs: CalcMerkleRootCache=%x reference=%x", len(txs), r, ref)
		}
		if r, cc := merkle.CalcMultiLayerMerkleInfo(cfg, c18ForkHeight-1, txs); r != nil || cc != nil {
			return ctx.Violate("multi-layer", "pre-fork-info", "CalcMultiLayerMerkleInfo before the fork returned %x / %d chains", r, len(cc))
		}
	}
	root, chains := merkle.CalcMultiLayerMerkleInfo(cfg, c18ForkHeight+1, txs)
	if r := merkle.CalcMerkleRoot(cfg, c18ForkHeight+1, txs); !bytes.Equal(r, root) {
		return ctx.Violate("root-mismatch", "CalcMerkleRoot-vs-CalcMultiLayerMerkleInfo", "%d txs: %x vs %x", len(txs), r, root)
	}
	if len(chains) != len(titles) {
		return ctx.Violate("multi-layer", "chain-count", "%d distinct titles but %d child chains reported", len(titles), len(chains))
	}
	if len(chains) >= 2 {
		ctx.Probe("multi_chains>=2")
	} else {
		ctx.Probe("multi_single_chain")
	}
	// every child chain: contiguous, covers the list, child root = tree over FullHash
	childRoots := make([][]byte, len(chains))
	next := int32(0)
	for ci, ch := range chains {
		if ch.StartIndex != next || ch.TxCount < 1 || int(ch.StartIndex+ch.TxCount) > len(txs) {
			return ctx.Violate("multi-layer", "chain-range", "child %d (%q) start=%d count=%d, expected start %d (total %d)", ci, ch.Title, ch.StartIndex, ch.TxCount, next, len(txs))
		}
		next = ch.StartIndex + ch.TxCount
		sub := txs[ch.StartIndex : ch.StartIndex+ch.TxCount]
		fh := make([][]byte, len(sub))
		for i, tx := range sub {
			fh[i] = tx.FullHash()
			title, ok := types.GetParaExecTitleName(string(tx.Execer))
			if !ok {
				title = types.MainChainName
			}
			if title != ch.Title {
				return ctx.Violate("multi-layer", "chain-membership", "tx %d of child %q belongs to %q", i, ch.Title, title)
			}
		}
		ref, _, _ := refTree(fh, -1)
		if !bytes.Equal(ch.ChildHash, ref) {
			return ctx.Violate("root-mismatch", "child-root", "child %d (%q, %d txs): ChildHash=%x reference=%x", ci, ch.Title, len(sub), ch.ChildHash, ref)
		}
		childRoots[ci] = ch.ChildHash
		// proof of a tx inside its chain, composed as query_tx.go does
		for _, ti := range []int{0, len(sub) - 1, len(sub) / 2, rng.Intn(len(sub))} {
			br := merkle.GetMerkleBranch(cloneList(fh), uint32(ti))
			if got := merkle.GetMerkleRootFromBranch(br, fh[ti], uint32(ti)); !bytes.Equal(got, ch.ChildHash) {
				return ctx.Violate("branch-does-not-verify", "tx-in-child", "child %q (%d txs) tx %d: folds to %x, ChildHash %x", ch.Title, len(sub), ti, got, ch.ChildHash)
			}
		}
	}
	if int(next) != len(txs) {
		return ctx.Violate("multi-layer", "chain-range", "child chains cover %d of %d txs", next, len(txs))
	}
	if len(chains) == 1 {
		if !bytes.Equal(root, childRoots[0]) {
			return ctx.Violate("root-mismatch", "single-chain-root", "one chain: root %x child root %x", root, childRoots[0])
		}
		return nil
	}
	refRoot, _, _ := refTree(childRoots, -1)
	if !bytes.Equal(root, refRoot) {
		return ctx.Violate("root-mismatch", "root-over-child-roots", "%d chains: root %x, tree over child roots %x", len(chains), root, refRoot)
	}
	for ci := range chains {
		br := merkle.GetMerkleBranch(cloneList(childRoots), uint32(ci))
		if got := merkle.GetMerkleRootFromBranch(br, childRoots[ci], uint32(ci)); !bytes.Equal(got, root) {
			return ctx.Violate("branch-does-not-verify", "child-in-block", "child %d of %d: folds to %x, root %x", ci, len(chains), got, root)
		}
	}
	return nil
}

// c18Dup: a list of m*2^lvl distinct leaves and the list with its last 2^lvl
// leaves repeated. For odd m >= 3 that is the duplicated-tail pattern (same root,
// must be flagged); otherwise the roots must differ.
func c18Dup(ctx *simrt.Ctx, lvl, m int, seed int64, variant int) *simrt.Violation {
	if lvl < 0 || lvl > 8 || m < 1 {
		return nil
	}
	blk := 1 << uint(lvl)
	base := c18Leaves(m*blk, seed)
	dup := append(cloneList(base), base[len(base)-blk:]...)
	rootA, mutA, _ := merkle.Computation(cloneList(base), 1, 0)
	rootB, mutB, _ := merkle.Computation(cloneList(dup), 1, 0)
	parB := merkle.GetMerkleRoot(cloneList(dup))
	refB, refMutB, _ := refTree(dup, -1)
	if !bytes.Equal(rootB, refB) || !bytes.Equal(parB, refB) {
		return ctx.Violate("root-mismatch", "duplicated-tail-list", "list of %d+%d leaves: Computation=%x GetMerkleRoot=%x reference=%x", len(base), blk, rootB, parB, refB)
	}
	if mutA {
		return ctx.Violate("mutated-flag", "false-positive", "%d distinct leaves flagged mutated", len(base))
	}
	same := bytes.Equal(rootA, rootB)
	pattern := m%2 == 1 && m >= 3
	switch {
	case pattern && !same:
		return ctx.Violate("root-mismatch", "duplicated-tail-should-collide", "m=%d blk=%d: the reference pattern did not collide (%x vs %x): harness or tree shape wrong", m, blk, rootA, rootB)
	case same && !mutB:
		return ctx.Violate("mutated-flag", "collision-not-flagged", "lists of %d and %d leaves share root %x but the longer one is not flagged mutated", len(base), len(dup), rootA)
	case !pattern && same:
		return ctx.Violate("root-collision", "outside-duplicated-tail-pattern", "m=%d blk=%d: lists of %d and %d leaves share root %x", m, blk, len(base), len(dup), rootA)
	}
	if refMutB != mutB {
		return ctx.Violate("mutated-flag", "differs-from-reference", "list of %d leaves with repeated tail of %d: Computation mutated=%v, identical real siblings combined=%v", len(dup), blk, mutB, refMutB)
	}
	if pattern {
		ctx.Probe("dup_tail_collision_flagged")
	} else {
		ctx.Probe("dup_tail_near_miss")
	}
	// near misses derived from the base list must not collide with it
	var near [][]byte
	switch variant {
	case 0: // last leaf repeated once
		near = append(cloneList(base), base[len(base)-1])
	case 1: // two leaves swapped
		near = cloneList(base)
		if len(near) > 1 {
			near[0], near[len(near)-1] = near[len(near)-1], near[0]
		}
	case 2: // last leaf dropped
		near = cloneList(base[:len(base)-1])
	default: // first block repeated at the end
		near = append(cloneList(base), base[:blk]...)
	}
	if len(near) == 0 || len(near) == len(base) && len(base) == 1 {
		return nil
	}
	rootN, mutN, _ := merkle.Computation(cloneList(near), 1, 0)
	if bytes.Equal(rootN, rootA) && !mutN {
		// (variant 0 with an odd count IS the pattern at level 0 and is then flagged)
		return ctx.Violate("root-collision", "near-miss-unflagged", "variant %d: lists of %d and %d leaves share root %x without the mutated flag", variant, len(base), len(near), rootA)
	}
	return nil
}

// ---------------------------------------------------------------------------
// child processes pinned to ncpu CPUs
//
// A worker keeps one long-lived child per worker count (starting the test binary
// costs more than a scenario). The child is this same test binary running
// TestParsimChild (engine_parsim_test.go) -> ChildServe: it reads scenarios from
// stdin, executes them in-process (its runtime.NumCPU() is the size of the
// affinity mask it was started under) and writes results to fd 3.

type childProc struct {
	cmd  *exec.Cmd
	in   io.WriteCloser
	out  *bufio.Reader
	have int // CPUs actually granted
	errb *bytes.Buffer
}

var children = map[int]*childProc{}

func startChild(ncpu int) *childProc {
	var cur unix.CPUSet
	simrt.Must(unix.SchedGetaffinity(0, &cur), "sched_getaffinity")
	var want unix.CPUSet
	var avail []int
	for cpu := 0; cpu < 1024; cpu++ {
		if cur.IsSet(cpu) {
			avail = append(avail, cpu)
		}
	}
	have := 0
	// which CPUs does not matter for the result, only how many: spread the
	// children of concurrently running workers over the machine
	for k := 0; k < len(avail) && have < ncpu; k++ {
		want.Set(avail[(os.Getpid()+ncpu+k)%len(avail)])
		have++
	}
	self, err := os.Executable()
	simrt.Must(err, "os.Executable")
	cmd := exec.Command(self, "-test.run", "^TestParsimChild$", "-test.timeout", "0", "-test.count", "1")
	env := []string{}
	for _, kv := range os.Environ() {
		if strings.HasPrefix(kv, "VERIF_") || strings.HasPrefix(kv, "GOMAXPROCS=") {
			continue
		}
		env = append(env, kv)
	}
	cmd.Env = append(env, "VERIF_PARSIM_CHILD=1", "VERIF_SCRATCH_DIR="+os.Getenv("VERIF_SCRATCH_DIR"))
	stdin, err := cmd.StdinPipe()
	simrt.Must(err, "stdin pipe")
	pr, pw, err := os.Pipe()
	simrt.Must(err, "result pipe")
	cmd.ExtraFiles = []*os.File{pw} // fd 3 in the child
	errb := &bytes.Buffer{}
	cmd.Stdout, cmd.Stderr = errb, errb
	// the affinity mask is inherited from the forking thread
	runtime.LockOSThread()
	simrt.Must(unix.SchedSetaffinity(0, &want), "sched_setaffinity")
	err = cmd.Start()
	simrt.Must(unix.SchedSetaffinity(0, &cur), "restore affinity")
	runtime.UnlockOSThread()
	simrt.Must(err, "start child worker")
	pw.Close()
	return &childProc{cmd: cmd, in: stdin, out: bufio.NewReaderSize(pr, 1<<20), have: have, errb: errb}
}

type childReply struct {
	NumCPU int           `json:"numcpu"`
	Result *simrt.Result `json:"result"`
	Err    string        `json:"err,omitempty"`
}

// ChildServe is the body of the child process.
func ChildServe(t *testing.T, in io.Reader, out io.Writer) {
	rd := bufio.NewReaderSize(in, 1<<20)
	for {
		line, err := rd.ReadBytes('\n')
		if len(line) > 1 {
			var sc simrt.Scenario
			rep := childReply{NumCPU: runtime.NumCPU()}
			if e := json.Unmarshal(line, &sc); e != nil {
				rep.Err = "bad scenario: " + e.Error()
			} else if info := simrt.Lookup(sc.Property); info == nil {
				rep.Err = "unknown property " + sc.Property
			} else {
				func() {
					defer func() {
						if r := recover(); r != nil {
							rep.Err = fmt.Sprint(r)
						}
					}()
					rep.Result, _ = simrt.RunOnce(t, info, &sc, false)
				}()
			}
			b, _ := json.Marshal(rep)
			out.Write(append(b, '\n'))
		}
		if err != nil {
			return
		}
	}
}

func c18RunChild(ctx *simrt.Ctx, ncpu int) *simrt.Violation {
	ch := children[ncpu]
	if ch == nil {
		ch = startChild(ncpu)
		children[ncpu] = ch
	}
	if ch.have < ncpu {
		ctx.Probe("ncpu_clamped_to_host")
	}
	child := ctx.Sc.Clone()
	child.Violation = nil
	b, err := json.Marshal(child)
	simrt.Must(err, "marshal scenario")
	_, err = ch.in.Write(append(b, '\n'))
	if err != nil {
		delete(children, ncpu)
		simrt.Failf("C18 child (ncpu=%d): write: %v\n%s", ncpu, err, tail(ch.errb.String(), 2000))
	}
	line, err := ch.out.ReadBytes('\n')
	if err != nil {
		delete(children, ncpu)
		if ch.cmd != nil {
			_ = ch.cmd.Wait() // stderr is complete once the process is gone
		}
		et := ch.errb.String()
		if i := strings.Index(et, "panic:"); i >= 0 && strings.Contains(et[i:], "chain33/common/merkle") {
			// the child process died inside the root computation: an unrecovered panic
			// in one of its goroutines (not a harness fault)
			return ctx.Violate("root-computation-crash", "common/merkle", "[child with %d CPUs] the process computing the roots of this scenario died: %s", ch.have, tail(et[i:], 1800))
		}
		simrt.Failf("C18 child (ncpu=%d): read: %v\n%s", ncpu, err, tail(et, 2000))
	}
	var rep childReply
	simrt.Must(json.Unmarshal(line, &rep), "child reply")
	if rep.Err != "" || rep.Result == nil {
		simrt.Failf("C18 child (ncpu=%d): %s", ncpu, rep.Err)
	}
	if rep.NumCPU != ch.have {
		simrt.Failf("C18 child was pinned to %d CPUs but its runtime.NumCPU() is %d", ch.have, rep.NumCPU)
	}
	res := rep.Result
	names := make([]string, 0, len(res.Probes))
	for k := range res.Probes {
		names = append(names, k)
	}
	sort.Strings(names)
	for _, k := range names {
		for j := 0; j < res.Probes[k]; j++ {
			ctx.Probe(k)
		}
	}
	ctx.Probe("child_process_runs")
	if v := res.Violation; v != nil {
		ctx.CurOp = v.OpIndex
		return ctx.Violate(v.Class, v.Sig, "[child with runtime.NumCPU()=%d] %s", rep.NumCPU, v.Detail)
	}
	return nil
}

func tail(s string, n int) string {
	if len(s) > n {
		return s[len(s)-n:]
	}
	return s
}

// ---------------------------------------------------------------------------
// the root a produced block carries (util.PreExecBlock)

// stubBus answers what util.PreExecBlock asks of the other modules: no
// duplicates on the chain, the scripted receipts from the executor, a fixed
// state hash from the store.
type stubBus struct {
	queue.Client // nil: any other call is a harness error (panics)
	cfg          *types.Chain33Config
	receipts     []*types.Receipt
	id           int64
}

func (c *stubBus) GetConfig() *types.Chain33Config { return c.cfg }
func (c *stubBus) NewMessage(topic string, ty int64, data interface{}) *queue.Message {
	// (PreExecBlock's duplicate check runs on its own goroutine)
	return queue.NewMessage(atomic.AddInt64(&c.id, 1), topic, ty, data)
}
func (c *stubBus) FreeMessage(...*queue.Message)                         {}
func (c *stubBus) Send(*queue.Message, bool) error                       { return nil }
func (c *stubBus) SendTimeout(*queue.Message, bool, time.Duration) error { return nil }
func (c *stubBus) WaitTimeout(m *queue.Message, _ time.Duration) (*queue.Message, error) {
	return c.Wait(m)
}
func (c *stubBus) Wait(in *queue.Message) (*queue.Message, error) {
	switch in.Ty {
	case types.EventTxHashList:
		return &queue.Message{Data: &types.TxHashList{}}, nil
	case types.EventExecTxList:
		return &queue.Message{Data: &types.Receipts{Receipts: c.receipts}}, nil
	case types.EventStoreMemSet, types.EventStoreRollback, types.EventStoreCommit:
		return &queue.Message{Data: &types.ReplyHash{Hash: bytes.Repeat([]byte{7}, 32)}}, nil
	case types.EventCheckBlock:
		return &queue.Message{Data: &types.Reply{IsOk: true}}, nil
	}
	return &queue.Message{Data: &types.Reply{IsOk: true}}, nil
}

var (
	c18CfgOnce           sync.Once
	c18CfgNew, c18CfgOld *types.Chain33Config
)

// c18Produce: I=[n, seed, oldRules]; Sub "r" ops give each transaction's receipt
// type. The node produces a block from n transactions of which some fail
// outright (and are dropped): the root written into the block must be the root
// of the transactions that stay, under the rules before and after ForkRootHash.
func c18Produce(ctx *simrt.Ctx, op *simrt.Op) *simrt.Violation {
	c18CfgOnce.Do(func() {
		c18CfgNew = types.NewChain33Config(types.GetDefaultCfgstring())
		c18CfgOld = types.NewChain33Config(types.GetDefaultCfgstring())
		c18CfgOld.SetFork("ForkRootHash", 1<<40)
	})
	cfg := c18CfgNew
	rules := "after-ForkRootHash"
	if op.Int(2) == 1 {
		cfg, rules = c18CfgOld, "before-ForkRootHash"
	}
	n := len(op.Sub)
	if n == 0 {
		return nil
	}
	bus := &stubBus{cfg: cfg}
	var txs []*types.Transaction
	var keep []*types.Transaction
	rng := simrt.NewRNG(uint64(op.Int(1)))
	for i := 0; i < n; i++ {
		exec := "none"
		if rng.Chance(1, 4) {
			exec = fmt.Sprintf("user.p.%s.none", []string{"a", "b"}[rng.Intn(2)])
		}
		tx := &types.Transaction{Execer: []byte(exec), Payload: []byte(fmt.Sprintf("p-%d-%d", op.Int(1), i)), Nonce: op.Int(1) + int64(i), Fee: 100000, To: "1DeAdBeEf"}
		tx.Signature = &types.Signature{Ty: 1, Pubkey: []byte{2, byte(i)}, Signature: []byte{byte(i), 9}}
		ty := int32(op.Sub[i].Int(0))
		bus.receipts = append(bus.receipts, &types.Receipt{Ty: ty})
		txs = append(txs, tx)
		if ty != types.ExecErr {
			keep = append(keep, tx)
		}
	}
	if cfg.IsFork(10, "ForkRootHash") {
		txs = types.TransactionSort(txs)
		// (receipts are positional: re-derive which stay after the sort)
		keep = keep[:0]
		for i, tx := range txs {
			_ = tx
			if bus.receipts[i].Ty != types.ExecErr {
				keep = append(keep, txs[i])
			}
		}
	}
	block := &types.Block{Height: 10, Txs: txs}
	detail, _, err := util.PreExecBlock(bus, nil, block, false, true, false)
	if err != nil {
		if len(keep) == 0 {
			return nil
		}
		return ctx.Violate("produced-root", "PreExecBlock-error/"+rules, "producing a block of %d transactions (%d stay) failed: %v", n, len(keep), err)
	}
	ctx.Probe("produced_block_root_checked")
	if len(keep) < n {
		ctx.Probe("produced_block_with_dropped_tx")
	}
	if len(detail.Block.Txs) != len(keep) {
		return ctx.Violate("produced-root", "kept-transactions/"+rules, "%d transactions stay in the produced block, expected %d", len(detail.Block.Txs), len(keep))
	}
	want := merkle.CalcMerkleRoot(cfg, 10, detail.Block.Txs)
	if !bytes.Equal(want, detail.Block.TxHash) {
		return ctx.Violate("produced-root", "root-of-other-list/"+rules, "the produced block (%d of %d transactions stay, receipt types %v) carries transaction root %x, the root of the transactions in it is %x", len(keep), n, receiptTypes(bus.receipts), detail.Block.TxHash, want)
	}
	return nil
}

func receiptTypes(rs []*types.Receipt) []int32 {
	var o []int32
	for _, r := range rs {
		o = append(o, r.Ty)
	}
	return o
}
