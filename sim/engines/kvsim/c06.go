// Package kvsim holds the key/value engines: C06 (backends vs ordered-map
// model), C07 (paged listing), C08 (LocalDB), C09 (MVCC), C10 (tables).
// These engines are single-task: the simulator owns the operation history, the
// object lifetime (close / reopen / rebuild) and, for LevelDB and Badger, real
// disk I/O in scratch directories.
package kvsim

import (
	"bytes"
	"fmt"
	"os"
	"path/filepath"
	"sort"
	"testing"

	dbm "github.com/33cn/chain33/common/db"
	"github.com/33cn/chain33/types"

	"verifsim/simrt"
)

func init() {
	simrt.Register(&simrt.Info{
		Property: "C06", Engine: &c06{},
		Real:       []string{"common/db GoMemDB", "common/db GoLevelDB (real files in a scratch dir)", "common/db GoBadgerDB (real files, 0xff-free histories)", "goleveldb", "badger"},
		Stub:       []string{},
		FaultKinds: []string{"close_reopen"},
		Rule:       "one case = one generated operation script (point ops, batches, iterator scripts, close/reopen) run on every backend and the sorted-map model; distinct = distinct script digest; non-trivial = script contains at least one iterator script or batch and at least 5 ops",
		Nontrivial: func(sc *simrt.Scenario, r *simrt.Result) bool {
			if len(sc.Ops) < 5 {
				return false
			}
			for _, o := range sc.Ops {
				if o.K == "iter" || o.K == "batch" {
					return true
				}
			}
			return false
		},
	})
}

type c06 struct{}

func (c06) Name() string { return "kvsim" }

var alphabet = []byte{0x00, 'a', 'b', '.', 0xfe, 0xff}

func genKey(r *simrt.RNG, noFF bool, minLen int) []byte {
	n := r.Range(minLen, 4)
	k := make([]byte, n)
	for i := range k {
		for {
			k[i] = alphabet[r.Intn(len(alphabet))]
			if !noFF || k[i] != 0xff {
				break
			}
		}
	}
	return k
}

func genVal(r *simrt.RNG, uniq *int) []byte {
	*uniq++
	if r.Chance(1, 8) {
		return []byte{} // empty value
	}
	return []byte(fmt.Sprintf("v%d", *uniq))
}

func (c06) Generate(prop string, r *simrt.RNG, tier string, run int) *simrt.Scenario {
	sc := &simrt.Scenario{Knobs: map[string]int64{}}
	noFF := r.Chance(1, 3) // badger-compatible histories
	if noFF {
		sc.Knobs["noff"] = 1
	}
	nops := r.Range(3, 40)
	uniq := 0
	minLen := 0
	if noFF {
		minLen = 1 // badger rejects the empty key
	}
	for i := 0; i < nops; i++ {
		switch r.Weighted(6, 2, 3, 1, 3, 4, 8, 1) {
		case 0:
			sc.Ops = append(sc.Ops, simrt.Op{K: "set", S: []string{simrt.H(genKey(r, noFF, minLen)), simrt.H(genVal(r, &uniq))}})
		case 1:
			sc.Ops = append(sc.Ops, simrt.Op{K: "setsync", S: []string{simrt.H(genKey(r, noFF, minLen)), simrt.H(genVal(r, &uniq))}})
		case 2:
			sc.Ops = append(sc.Ops, simrt.Op{K: "del", S: []string{simrt.H(genKey(r, noFF, minLen))}})
		case 3:
			sc.Ops = append(sc.Ops, simrt.Op{K: "delsync", S: []string{simrt.H(genKey(r, noFF, minLen))}})
		case 4:
			b := simrt.Op{K: "batch", I: []int64{int64(r.Intn(2))}}
			n := r.Range(1, 12)
			var pool [][]byte
			for j := 0; j < n; j++ {
				var k []byte
				if len(pool) > 0 && r.Chance(1, 3) {
					k = pool[r.Intn(len(pool))] // repeated key inside one batch
				} else {
					k = genKey(r, noFF, minLen)
					pool = append(pool, k)
				}
				if r.Chance(2, 3) {
					b.Sub = append(b.Sub, simrt.Op{K: "set", S: []string{simrt.H(k), simrt.H(genVal(r, &uniq))}})
				} else {
					b.Sub = append(b.Sub, simrt.Op{K: "del", S: []string{simrt.H(k)}})
				}
			}
			sc.Ops = append(sc.Ops, b)
		case 5:
			sc.Ops = append(sc.Ops, simrt.Op{K: "get", S: []string{simrt.H(genKey(r, noFF, minLen))}})
		case 6:
			// iterator: mode 0 prefix (end=nil), 1 explicit [start,end), 2 end=EmptyValue
			mode := r.Intn(3)
			start := genKey(r, noFF, 0)
			if len(start) > 2 {
				start = start[:2]
			}
			end := genKey(r, noFF, minLen)
			it := simrt.Op{K: "iter", S: []string{simrt.H(start), simrt.H(end)}, I: []int64{int64(mode), int64(r.Intn(2))}}
			nsteps := r.Range(1, 10)
			positioned := false
			for j := 0; j < nsteps; j++ {
				switch {
				case !positioned || r.Chance(1, 6):
					if r.Chance(1, 2) {
						it.Sub = append(it.Sub, simrt.Op{K: "rewind"})
					} else {
						it.Sub = append(it.Sub, simrt.Op{K: "seek", S: []string{simrt.H(genKey(r, noFF, minLen))}})
					}
					positioned = true
				default:
					it.Sub = append(it.Sub, simrt.Op{K: "next"})
				}
			}
			if r.Chance(1, 3) { // full scan
				it.Sub = append(it.Sub, simrt.Op{K: "rewind"}, simrt.Op{K: "scan"})
			}
			sc.Ops = append(sc.Ops, it)
		case 7:
			sc.Ops = append(sc.Ops, simrt.Op{K: "reopen"})
		}
	}
	return sc
}

// ---------------------------------------------------------------------------
// model

type sortedMap struct {
	keys []string
	m    map[string][]byte
}

func newSortedMap() *sortedMap { return &sortedMap{m: map[string][]byte{}} }
func (s *sortedMap) set(k, v []byte) {
	ks := string(k)
	if _, ok := s.m[ks]; !ok {
		i := sort.SearchStrings(s.keys, ks)
		s.keys = append(s.keys, "")
		copy(s.keys[i+1:], s.keys[i:])
		s.keys[i] = ks
	}
	s.m[ks] = append([]byte{}, v...)
}
func (s *sortedMap) del(k []byte) {
	ks := string(k)
	if _, ok := s.m[ks]; !ok {
		return
	}
	delete(s.m, ks)
	i := sort.SearchStrings(s.keys, ks)
	s.keys = append(s.keys[:i], s.keys[i+1:]...)
}

// inRange lists the model's keys inside an iterator range, ascending.
// mode 0: all keys with prefix start; 1: [start,end); 2: [start, +inf).
func (s *sortedMap) inRange(start, end []byte, mode int64) []string {
	var out []string
	for _, k := range s.keys {
		kb := []byte(k)
		switch mode {
		case 0:
			if bytes.HasPrefix(kb, start) {
				out = append(out, k)
			}
		case 1:
			if bytes.Compare(kb, start) >= 0 && bytes.Compare(kb, end) < 0 {
				out = append(out, k)
			}
		case 2:
			if bytes.Compare(kb, start) >= 0 {
				out = append(out, k)
			}
		}
	}
	return out
}

// modelIt is the reference iterator: a position in the in-range key list.
type modelIt struct {
	keys    []string
	pos     int // index, -1 or len = invalid
	reverse bool
}

func (m *modelIt) valid() bool { return m.pos >= 0 && m.pos < len(m.keys) }
func (m *modelIt) rewind() {
	if m.reverse {
		m.pos = len(m.keys) - 1
	} else {
		m.pos = 0
	}
}
func (m *modelIt) seek(k []byte) {
	ks := string(k)
	if m.reverse { // last key <= k
		i := sort.Search(len(m.keys), func(i int) bool { return m.keys[i] > ks })
		m.pos = i - 1
	} else { // first key >= k
		m.pos = sort.SearchStrings(m.keys, ks)
	}
}
func (m *modelIt) next() {
	if m.reverse {
		m.pos--
	} else {
		m.pos++
	}
}

// ---------------------------------------------------------------------------

type backend struct {
	name   string
	driver string
	dir    string
	db     dbm.DB
}

func scratchDir() string {
	d := os.Getenv("VERIF_SCRATCH_DIR")
	if d == "" {
		d = os.TempDir()
	}
	return d
}

func (c06) Execute(t *testing.T, ctx *simrt.Ctx) *simrt.Violation {
	sc := ctx.Sc
	noFF := sc.Knob("noff", 0) == 1
	dir, err := os.MkdirTemp(scratchDir(), "c06-")
	simrt.Must(err, "mkdir")
	defer os.RemoveAll(dir)
	bes := []*backend{
		{name: "memdb", driver: "memdb"},
		{name: "goleveldb", driver: "goleveldb", dir: filepath.Join(dir, "ldb")},
	}
	if noFF {
		bes = append(bes, &backend{name: "gobadgerdb", driver: "gobadgerdb", dir: filepath.Join(dir, "bdg")})
	}
	for _, b := range bes {
		if b.dir != "" {
			simrt.Must(os.MkdirAll(b.dir, 0o755), "mkdir")
		}
		b.db = dbm.NewDB("kv", b.driver, b.dir, 16)
	}
	defer func() {
		for _, b := range bes {
			b.db.Close()
		}
	}()
	model := newSortedMap()
	for i := range sc.Ops {
		op := &sc.Ops[i]
		ctx.CurOp = i
		ctx.Step()
		switch op.K {
		case "set", "setsync":
			k, v := op.B(0), op.B(1)
			model.set(k, v)
			for _, b := range bes {
				var err error
				if op.K == "set" {
					err = b.db.Set(k, v)
				} else {
					err = b.db.SetSync(k, v)
				}
				if err != nil {
					return ctx.Violate("write-failed", b.name+"/"+op.K, "%s %s(%x) returned %v", b.name, op.K, k, err)
				}
			}
		case "del", "delsync":
			k := op.B(0)
			model.del(k)
			for _, b := range bes {
				var err error
				if op.K == "del" {
					err = b.db.Delete(k)
				} else {
					err = b.db.DeleteSync(k)
				}
				// The error returned for deleting an absent key differs between
				// backends (memdb reports not-found); the property is about what
				// reads observe, so it is not compared.
				_ = err
			}
		case "batch":
			hasDel := false // memdb's batch reports the not-found of a delete of an absent key
			for _, s := range op.Sub {
				if s.K == "set" {
					model.set(s.B(0), s.B(1))
				} else {
					hasDel = true
					model.del(s.B(0))
				}
			}
			for _, b := range bes {
				bt := b.db.NewBatch(op.Int(0) == 1)
				// The caller fills a batch through one scratch key buffer and one
				// scratch value buffer and recycles them before Write (memdb and
				// LevelDB batches copy what they are given; Badger's transaction API
				// documents that it keeps the caller's slices until commit, so it gets
				// stable copies: a documented limitation like its 0xff one).
				var kbuf, vbuf []byte
				recycle := b.name != "gobadgerdb"
				for _, s := range op.Sub {
					k, v := s.B(0), s.B(1)
					if recycle {
						kbuf = append(kbuf[:0], k...)
						k = kbuf
						if v != nil {
							vbuf = append(vbuf[:0], v...)
							v = vbuf
						}
					}
					if s.K == "set" {
						bt.Set(k, v)
					} else {
						bt.Delete(k)
					}
				}
				if recycle {
					for i := range kbuf[:cap(kbuf)] {
						kbuf[:cap(kbuf)][i] = 0xEE
					}
					for i := range vbuf[:cap(vbuf)] {
						vbuf[:cap(vbuf)][i] = 0xEE
					}
					ctx.Fault("batch_buffers_recycled_before_write")
				}
				if err := bt.Write(); err != nil && !(b.name == "memdb" && hasDel) {
					return ctx.Violate("write-failed", b.name+"/batch", "%s batch write returned %v", b.name, err)
				}
			}
		case "get":
			k := op.B(0)
			want, ok := model.m[string(k)]
			for _, b := range bes {
				got, err := b.db.Get(k)
				if ok {
					if err != nil || !bytes.Equal(got, want) {
						return ctx.Violate("get-mismatch", b.name, "%s Get(%x) = %x,%v; model %x", b.name, k, got, err, want)
					}
				} else if err != types.ErrNotFound {
					return ctx.Violate("get-mismatch", b.name+"/absent", "%s Get(%x) = %x,%v; model: not found", b.name, k, got, err)
				}
			}
		case "reopen":
			ctx.Fault("close_reopen")
			for _, b := range bes {
				if b.dir == "" {
					continue // memdb has no persistence to test
				}
				b.db.Close()
				b.db = dbm.NewDB("kv", b.driver, b.dir, 16)
			}
		case "iter":
			if v := c06Iter(ctx, op, model, bes); v != nil {
				return v
			}
		}
		ctx.State(simrt.DigestOf(model.keys))
	}
	// final full comparison
	ctx.CurOp = len(sc.Ops)
	for _, b := range bes {
		it := b.db.Iterator(nil, types.EmptyValue, false)
		var got []string
		for ok := it.Rewind(); ok; ok = it.Next() {
			got = append(got, string(it.Key()))
			if !bytes.Equal(it.Value(), model.m[string(it.Key())]) {
				it.Close()
				return ctx.Violate("final-scan-mismatch", b.name+"/value", "%s final scan key %x value %x model %x", b.name, it.Key(), it.Value(), model.m[string(it.Key())])
			}
		}
		it.Close()
		if fmt.Sprint(got) != fmt.Sprint(model.keys) {
			return ctx.Violate("final-scan-mismatch", b.name+"/keys", "%s final scan keys %q model %q", b.name, got, model.keys)
		}
	}
	return nil
}

func c06Iter(ctx *simrt.Ctx, op *simrt.Op, model *sortedMap, bes []*backend) *simrt.Violation {
	start, end := op.B(0), op.B(1)
	mode, reverse := op.Int(0), op.Int(1) == 1
	var endArg []byte
	switch mode {
	case 0:
		endArg = nil
	case 1:
		endArg = end
	case 2:
		endArg = types.EmptyValue
	}
	if mode == 1 && bytes.Compare(start, end) > 0 {
		// an inverted explicit range is outside what the interface defines
		ctx.Probe("iter_inverted_range_skipped")
		return nil
	}
	keys := model.inRange(start, end, mode)
	if len(keys) > 0 {
		ctx.Probe("iter_nonempty_range")
	}
	for _, b := range bes {
		if b.name == "gobadgerdb" && (bytes.IndexByte(start, 0xff) >= 0 || bytes.IndexByte(end, 0xff) >= 0) {
			continue
		}
		it := b.db.Iterator(start, endArg, reverse)
		mi := &modelIt{keys: keys, reverse: reverse, pos: -1}
		positioned := false
		check := func(what string, ret, hasRet bool) *simrt.Violation {
			v := it.Valid()
			if v != mi.valid() {
				return ctx.Violate("iter-mismatch", b.name+"/valid", "%s iterator(start=%x end=%x mode=%d rev=%v) after %s: Valid=%v model=%v (model range %q pos %d)", b.name, start, end, mode, reverse, what, v, mi.valid(), keys, mi.pos)
			}
			if hasRet && ret != v {
				return ctx.Violate("iter-mismatch", b.name+"/return", "%s iterator %s returned %v but Valid()=%v", b.name, what, ret, v)
			}
			if v {
				wk := mi.keys[mi.pos]
				if string(it.Key()) != wk {
					return ctx.Violate("iter-mismatch", b.name+"/key", "%s iterator(start=%x end=%x mode=%d rev=%v) after %s: key %x model %x", b.name, start, end, mode, reverse, what, it.Key(), wk)
				}
				if !bytes.Equal(it.Value(), model.m[wk]) || !bytes.Equal(it.ValueCopy(), model.m[wk]) {
					return ctx.Violate("iter-mismatch", b.name+"/value", "%s iterator key %x value %x model %x", b.name, wk, it.Value(), model.m[wk])
				}
			}
			return nil
		}
		for _, s := range op.Sub {
			var viol *simrt.Violation
			switch s.K {
			case "rewind":
				r := it.Rewind()
				mi.rewind()
				positioned = true
				viol = check("Rewind", r, true)
			case "seek":
				k := s.B(0)
				if b.name == "gobadgerdb" && bytes.IndexByte(k, 0xff) >= 0 {
					continue
				}
				// a seek target outside the iterator's own range is left open by
				// the interface (LevelDB clamps, Badger lands outside): not compared
				inr := false
				switch mode {
				case 0:
					inr = bytes.HasPrefix(k, start)
				case 1:
					inr = bytes.Compare(k, start) >= 0 && bytes.Compare(k, end) < 0
				case 2:
					inr = bytes.Compare(k, start) >= 0
				}
				if !inr {
					ctx.Probe("seek_out_of_range_skipped")
					positioned = false
					continue
				}
				ctx.Probe("seek_in_range")
				r := it.Seek(k)
				mi.seek(k)
				positioned = true
				viol = check(fmt.Sprintf("Seek(%x)", k), r, true)
			case "next":
				if !positioned || !mi.valid() {
					continue // Next on an unpositioned / exhausted iterator is undefined
				}
				r := it.Next()
				mi.next()
				viol = check("Next", r, true)
			case "scan":
				n := 0
				for mi.valid() {
					r := it.Next()
					mi.next()
					if viol = check("Next(scan)", r, true); viol != nil {
						break
					}
					n++
				}
			}
			if viol != nil {
				it.Close()
				return viol
			}
		}
		it.Close()
	}
	return nil
}
