package kvsim

import (
	"bytes"
	"fmt"
	"os"
	"path/filepath"
	"testing"

	dbm "github.com/33cn/chain33/common/db"
	"github.com/33cn/chain33/types"

	"verifsim/simrt"
)

// C07 — paged listing. The simulator owns the state history (base writes with
// tombstones and physical deletes, a LocalDB overlay with and without an open
// transaction, read-through copies) and the paging client: List(prefix, lastKey,
// count, direction|flags) repeated until an empty page, for every page size, on
// a plain DB (memdb and goleveldb) and on LocalDBs layered over them.

func init() {
	simrt.Register(&simrt.Info{
		Property: "C07", Engine: &c07{},
		Real:       []string{"common/db ListHelper", "common/db mergedIterator", "common/db LocalDB", "common/db GoMemDB", "common/db GoLevelDB (real files in a scratch dir)", "goleveldb"},
		Stub:       []string{},
		FaultKinds: []string{},
		Rule:       "one case = one generated state history (base sets / tombstones / deletes, LocalDB overlay ops, open or closed transaction) plus paging sessions (prefix, direction, encoding), each session run with every page size 1..n+1 and unlimited on 4 targets; distinct = distinct scenario digest; non-trivial = at least one session whose prefix holds >= 2 live entries (so some page size needs a continuation request)",
		Nontrivial: func(sc *simrt.Scenario, r *simrt.Result) bool { return r.Probes["session_needs_continuation"] > 0 },
	})
}

type c07 struct{}

func (c07) Name() string { return "kvsim" }

// genOverlayOps appends LocalDB overlay operations (shared with C08's generator shape).
func genOverlayOp(r *simrt.RNG, pool [][]byte, uniq *int, intx *bool) simrt.Op {
	switch r.Weighted(3, 2, 2, 8, 3, 3) {
	case 0:
		*intx = true
		return simrt.Op{K: "lbegin"}
	case 1:
		*intx = false
		return simrt.Op{K: "lcommit"}
	case 2:
		*intx = false
		return simrt.Op{K: "lrollback"}
	case 3:
		return simrt.Op{K: "lset", S: []string{simrt.H(pickKey(r, pool)), simrt.H(uniqVal(uniq))}}
	case 4:
		return simrt.Op{K: "lset", S: []string{simrt.H(pickKey(r, pool)), ""}} // tombstone
	default:
		return simrt.Op{K: "lget", S: []string{simrt.H(pickKey(r, pool))}}
	}
}

func genSessionGroup(r *simrt.RNG, pool [][]byte) []simrt.Op {
	p := simrt.H(pickPrefix(r, pool))
	ops := []simrt.Op{{K: "count", S: []string{p}}}
	for dir := int64(0); dir < 2; dir++ {
		for enc := int64(0); enc < 3; enc++ {
			ops = append(ops, simrt.Op{K: "page", S: []string{p}, I: []int64{dir, enc}})
		}
	}
	return ops
}

func (c07) Generate(prop string, r *simrt.RNG, tier string, run int) *simrt.Scenario {
	sc := &simrt.Scenario{Knobs: map[string]int64{}}
	pool := keyPool(r, r.Range(4, 14))
	uniq := 0
	// phase A: the base database
	nb := r.Range(2, 22)
	for i := 0; i < nb; i++ {
		switch r.Weighted(7, 2, 2) {
		case 0:
			sc.Ops = append(sc.Ops, simrt.Op{K: "bset", S: []string{simrt.H(pickKey(r, pool)), simrt.H(uniqVal(&uniq))}})
		case 1:
			sc.Ops = append(sc.Ops, simrt.Op{K: "bset", S: []string{simrt.H(pickKey(r, pool)), ""}}) // tombstone
		case 2:
			sc.Ops = append(sc.Ops, simrt.Op{K: "bdel", S: []string{simrt.H(pickKey(r, pool))}})
		}
	}
	if r.Chance(1, 3) {
		sc.Ops = append(sc.Ops, genSessionGroup(r, pool)...)
	}
	// phase B: the overlay
	no := r.Range(0, 16)
	intx := false
	for i := 0; i < no; i++ {
		sc.Ops = append(sc.Ops, genOverlayOp(r, pool, &uniq, &intx))
		if r.Chance(1, 8) {
			sc.Ops = append(sc.Ops, genSessionGroup(r, pool)...)
		}
	}
	ng := r.Range(1, 2)
	for i := 0; i < ng; i++ {
		sc.Ops = append(sc.Ops, genSessionGroup(r, pool)...)
	}
	return sc
}

type c07target struct {
	name    string
	layered bool
	list    func(prefix, key []byte, count, dir int32) [][]byte
	count   func(prefix []byte) int64
}

var c07EncName = []string{"value", "withkey", "keyonly"}
var c07DirName = []string{"desc", "asc"}

func (c07) Execute(t *testing.T, ctx *simrt.Ctx) *simrt.Violation {
	sc := ctx.Sc
	dir, err := os.MkdirTemp(scratchDir(), "c07-")
	simrt.Must(err, "mkdir")
	defer os.RemoveAll(dir)
	simrt.Must(os.MkdirAll(filepath.Join(dir, "ldb"), 0o755), "mkdir")
	mem := dbm.NewDB("kv", "memdb", "", 16)
	ldb := dbm.NewDB("kv", "goleveldb", filepath.Join(dir, "ldb"), 16)
	defer mem.Close()
	defer ldb.Close()
	bases := []dbm.DB{mem, ldb}
	locals := []dbm.KVDB{dbm.NewLocalDB(mem, false), dbm.NewLocalDB(ldb, false)}
	hm, hl := dbm.NewListHelper(mem), dbm.NewListHelper(ldb)
	mkLocal := func(i int) func(prefix, key []byte, count, dir int32) [][]byte {
		return func(prefix, key []byte, count, dir int32) [][]byte {
			vals, err := locals[i].List(prefix, key, count, dir)
			if err != nil {
				return nil
			}
			return vals
		}
	}
	targets := []*c07target{
		{name: "plain-memdb", list: hm.List, count: hm.PrefixCount},
		{name: "plain-goleveldb", list: hl.List, count: hl.PrefixCount},
		{name: "local-memdb", layered: true, list: mkLocal(0), count: func(p []byte) int64 { return locals[0].PrefixCount(p) }},
		{name: "local-goleveldb", layered: true, list: mkLocal(1), count: func(p []byte) int64 { return locals[1].PrefixCount(p) }},
	}
	model := newLayered()
	overlayStarted := false
	for i := range sc.Ops {
		op := &sc.Ops[i]
		ctx.CurOp = i
		ctx.Step()
		switch op.K {
		case "bset", "bdel":
			if overlayStarted {
				// the base of a LocalDB is fixed for the LocalDB's lifetime
				ctx.Probe("base_write_after_overlay_skipped")
				continue
			}
			k := op.B(0)
			if len(k) == 0 {
				continue
			}
			for _, b := range bases {
				if op.K == "bset" {
					simrt.Must(b.Set(k, op.B(1)), "base set")
				} else {
					_ = b.Delete(k) // memdb reports not-found for an absent key
				}
			}
			if op.K == "bset" {
				model.base[string(k)] = append([]byte{}, op.B(1)...)
			} else {
				delete(model.base, string(k))
			}
		case "lbegin":
			if model.intx {
				ctx.Probe("begin_while_open_skipped") // call order the interface leaves open
				continue
			}
			overlayStarted = true
			model.begin()
			for _, l := range locals {
				l.Begin()
			}
		case "lcommit":
			overlayStarted = true
			model.commit()
			for _, l := range locals {
				simrt.Must(l.Commit(), "commit")
			}
		case "lrollback":
			overlayStarted = true
			model.rollback()
			for _, l := range locals {
				l.Rollback()
			}
		case "lset":
			k := op.B(0)
			if len(k) == 0 {
				continue
			}
			overlayStarted = true
			if _, src := model.lookup(string(k)); src == "base" && len(op.B(1)) == 0 {
				ctx.Probe("overlay_tombstone_hides_base")
			}
			model.set(k, op.B(1))
			for _, l := range locals {
				simrt.Must(l.Set(k, op.B(1)), "local set")
			}
		case "lget":
			// a point read copies a base value into the overlay (read-through)
			overlayStarted = true
			for _, l := range locals {
				_, _ = l.Get(op.B(0))
			}
		case "count":
			prefix := op.B(0)
			for _, tg := range targets {
				want := int64(len(model.live(prefix, !tg.layered)))
				got := tg.count(prefix)
				ctx.Logf("count %s %x = %d", tg.name, prefix, got)
				if got != want {
					return ctx.Violate("count-mismatch", tg.name, "%s PrefixCount(%x) = %d, live entries under the prefix: %d", tg.name, prefix, got, want)
				}
			}
		case "page":
			if v := c07Session(ctx, model, targets, op); v != nil {
				return v
			}
		}
		ctx.State(model.digest())
	}
	return nil
}

func c07Session(ctx *simrt.Ctx, model *layered, targets []*c07target, op *simrt.Op) *simrt.Violation {
	prefix := op.B(0)
	dirI, enc := op.Int(0)&1, op.Int(1)%3
	flags := int32(dirI) // ListASC = 1, ListDESC = 0
	switch enc {
	case 1:
		flags |= dbm.ListWithKey
	case 2:
		flags |= dbm.ListKeyOnly
	}
	if len(prefix) > 0 && prefix[len(prefix)-1] == 0xff {
		ctx.Probe("prefix_ends_ff")
	}
	for _, tg := range targets {
		want := model.live(prefix, !tg.layered)
		if dirI == 0 {
			want = reversePairs(want)
		}
		owner := map[string]string{} // value -> key (values are unique per key)
		for _, p := range want {
			owner[string(p.v)] = p.k
		}
		// entries the listing must not show, for classification
		if len(want) >= 2 {
			ctx.Probe("session_needs_continuation")
		}
		if tg.layered {
			if model.intx && len(model.tx) > 0 {
				ctx.Probe("session_with_open_tx_writes")
			}
			for _, k := range model.allKeys(false) {
				if !bytes.HasPrefix([]byte(k), prefix) {
					continue
				}
				_, src := model.lookup(k)
				bv := model.base[k]
				switch {
				case (src == "tx-tombstone" || src == "overlay-tombstone") && len(bv) > 0:
					ctx.Probe("session_tombstone_over_live_base")
				case (src == "tx" || src == "overlay") && len(bv) > 0:
					ctx.Probe("session_overlay_shadows_base")
				case src == "tx" && len(model.over[k]) == 0 && model.over[k] != nil:
					ctx.Probe("session_tx_revives_tombstone")
				}
			}
		} else {
			for k, v := range model.base {
				if len(v) == 0 && bytes.HasPrefix([]byte(k), prefix) {
					ctx.Probe("session_base_tombstone_under_prefix")
					break
				}
			}
		}
		sigBase := fmt.Sprintf("%s/%s/%s", tg.name, c07DirName[dirI], c07EncName[enc])
		for size := 0; size <= len(want)+1; size++ {
			var got []kvPair
			var last []byte
			pages := 0
			for {
				if pages > len(want)+3 {
					return ctx.Violate("paging-mismatch", sigBase+"/no-termination", "%s List(prefix=%x, count=%d, flags=%d): still returning entries after %d pages for %d live entries", tg.name, prefix, size, flags, pages, len(want))
				}
				page := tg.list(prefix, last, int32(size), flags)
				pages++
				if len(page) == 0 {
					break
				}
				if size > 0 && len(page) > size {
					return ctx.Violate("paging-mismatch", sigBase+"/page-overfull", "%s List(prefix=%x, key=%x, count=%d, flags=%d) returned %d entries", tg.name, prefix, last, size, flags, len(page))
				}
				for _, raw := range page {
					var p kvPair
					switch enc {
					case 0:
						k, ok := owner[string(raw)]
						if !ok {
							return ctx.Violate("paging-mismatch", sigBase+"/"+c07Classify(model, tg, prefix, "", raw), "%s List(prefix=%x, key=%x, count=%d, flags=%d) returned value %q which no live entry under the prefix holds (expected sequence %s)", tg.name, prefix, last, size, flags, raw, fmtPairs(want))
						}
						p = kvPair{k, raw}
					case 1:
						var kv types.KeyValue
						if err := types.Decode(raw, &kv); err != nil {
							return ctx.Violate("paging-mismatch", sigBase+"/undecodable", "%s ListWithKey entry %x does not decode: %v", tg.name, raw, err)
						}
						p = kvPair{string(kv.Key), kv.Value}
					case 2:
						p = kvPair{k: string(raw)}
					}
					got = append(got, p)
					last = []byte(p.k)
				}
				if size == 0 {
					break // unlimited: one request returns everything
				}
				if len(got) > len(want)+size {
					break // already wrong; stop before looping forever
				}
			}
			if pages > 2 {
				ctx.Probe("multi_page_session")
			}
			if kind, detail := c07Compare(model, tg, prefix, enc, got, want); kind != "" {
				return ctx.Violate("paging-mismatch", sigBase+"/"+kind, "%s paging prefix=%x count=%d flags=%d (%s, %s): %s\n got  %s\n want %s", tg.name, prefix, size, flags, c07DirName[dirI], c07EncName[enc], detail, fmtPairs(got), fmtPairs(want))
			}
			if size == 1 {
				ctx.Logf("page %s %x f=%d n=%d %s", tg.name, prefix, flags, len(got), simrt.DigestOf(fmtPairs(got)))
			}
		}
		// A request may continue after a key whose entry is gone by now (removed
		// between two page requests): the page then starts at the next live entry in
		// the direction of the listing. Continuation keys that exist in no layer,
		// one in every gap of the listing.
		if enc != 0 {
			for i := range want {
				K := want[i].k + "\x00"
				if _, src := model.lookup(K); src != "" && src != "absent" {
					continue
				}
				if _, inBase := model.base[K]; inBase {
					continue
				}
				var exp []kvPair
				for _, p := range want {
					if (dirI == 1 && p.k > K) || (dirI == 0 && p.k < K) {
						exp = append(exp, p)
					}
				}
				for _, size := range []int{1, 2, 0} {
					page := tg.list(prefix, []byte(K), int32(size), flags)
					e := exp
					if size > 0 && len(e) > size {
						e = e[:size]
					}
					var got []kvPair
					for _, raw := range page {
						if enc == 1 {
							var kv types.KeyValue
							if err := types.Decode(raw, &kv); err != nil {
								return ctx.Violate("paging-mismatch", sigBase+"/undecodable", "%s ListWithKey entry %x does not decode: %v", tg.name, raw, err)
							}
							got = append(got, kvPair{string(kv.Key), kv.Value})
						} else {
							got = append(got, kvPair{k: string(raw)})
						}
					}
					ok := len(got) == len(e)
					for j := 0; ok && j < len(e); j++ {
						ok = got[j].k == e[j].k && (enc != 1 || bytes.Equal(got[j].v, e[j].v))
					}
					if !ok {
						return ctx.Violate("paging-mismatch", sigBase+"/continuation-after-absent-key", "%s List(prefix=%x, key=%x (an entry that exists in no layer), count=%d, flags=%d):\n got  %s\n want %s", tg.name, prefix, K, size, flags, fmtPairs(got), fmtPairs(e))
					}
					ctx.Probe("continuation_after_absent_key")
				}
			}
		}
	}
	return nil
}

func fmtPairs(p []kvPair) string {
	var b bytes.Buffer
	b.WriteByte('[')
	for i, x := range p {
		if i > 0 {
			b.WriteByte(' ')
		}
		fmt.Fprintf(&b, "%x=%s", x.k, x.v)
	}
	b.WriteByte(']')
	return b.String()
}

// c07Classify names what is wrong with one returned entry.
func c07Classify(model *layered, tg *c07target, prefix []byte, key string, val []byte) string {
	if key == "" {
		// value-only encoding: find which entry holds the value at all
		for _, k := range model.allKeys(false) {
			for _, layer := range []map[string][]byte{model.tx, model.over, model.base} {
				if v, ok := layer[k]; ok && len(val) > 0 && bytes.Equal(v, val) {
					key = k
				}
			}
		}
		if key == "" {
			return "unknown-value"
		}
	}
	if !bytes.HasPrefix([]byte(key), prefix) {
		return "outside-prefix"
	}
	var v []byte
	var present bool
	if tg.layered {
		var src string
		v, src = model.lookup(key)
		present = src != "absent"
	} else {
		v, present = model.base[key]
	}
	if !present {
		return "phantom-key"
	}
	if len(v) == 0 {
		return "deleted-entry-returned"
	}
	return "stale-value"
}

func c07Compare(model *layered, tg *c07target, prefix []byte, enc int64, got, want []kvPair) (kind, detail string) {
	wantSet := map[string][]byte{}
	for _, p := range want {
		wantSet[p.k] = p.v
	}
	seen := map[string]int{}
	for _, p := range got {
		wv, ok := wantSet[p.k]
		if !ok {
			return c07Classify(model, tg, prefix, p.k, p.v), fmt.Sprintf("entry %x is not a live entry under the prefix", p.k)
		}
		if enc != 2 && !bytes.Equal(wv, p.v) {
			return "stale-value", fmt.Sprintf("entry %x carries value %q, visible value is %q", p.k, p.v, wv)
		}
		seen[p.k]++
		if seen[p.k] > 1 {
			return "duplicate", fmt.Sprintf("entry %x returned more than once", p.k)
		}
	}
	for _, p := range want {
		if seen[p.k] == 0 {
			return "missing", fmt.Sprintf("live entry %x never returned", p.k)
		}
	}
	for i := range want {
		if got[i].k != want[i].k {
			return "order", fmt.Sprintf("position %d is %x, key order demands %x", i, got[i].k, want[i].k)
		}
	}
	return "", ""
}
