package kvsim

import (
	"bytes"
	"fmt"
	"os"
	"path/filepath"
	"sort"
	"testing"

	dbm "github.com/33cn/chain33/common/db"
	"github.com/33cn/chain33/executor"
	"github.com/33cn/chain33/types"

	"verifsim/simrt"
)

// C09 — MVCC. History: AddMVCC for consecutive versions, DelMVCC of the top
// version, re-add with other content, Trash (destructive on the live database,
// and a non-destructive sweep of every cut point on clones). After each step
// GetV(k, v) is read for every key and every version 0..top+1, directly and
// through executor.StateDB with MVCC enabled.
//
// Model (from the statement): version -> writes. GetV(k, v) = value of the most
// recent write to k at a version <= v, or not-found; never a value written
// under another key. DelMVCC(top) drops the top version's writes. Trash(cut)
// may remove, per key, writes at versions <= cut other than the key's newest
// write; it must not remove the newest write of a key nor a write above cut.
// A read whose determining write was collectable may return that write, an
// older write of the same key that survived, or not-found.

func init() {
	simrt.Register(&simrt.Info{
		Property: "C09", Engine: &c09{},
		Real:       []string{"common/db SimpleMVCC / MVCCHelper / MVCCIter", "common/db KVDBList + ListHelper (ListSeek)", "common/db GoMemDB", "common/db GoLevelDB (real files, 1/6 of runs)", "executor.StateDB.Get with MVCC enabled"},
		Stub:       []string{"the caller that writes the returned KV lists to the database (batch: nil value = delete, as blockchain does for local KVs)"},
		FaultKinds: []string{"reorg_del_top"},
		Rule:       "one case = one generated version history (add / delete-top / re-add / trash / all-cut-points sweep) over a key set with prefix relations, with all keys x all versions read after every step; distinct = distinct scenario digest; non-trivial = at least 3 versions added and at least one delete-top or trash step",
		Nontrivial: func(sc *simrt.Scenario, r *simrt.Result) bool {
			return r.Probes["version_added"] >= 3 && r.Faults["reorg_del_top"]+r.Probes["trash"]+r.Probes["trash_sweep_cut"] > 0
		},
	})
}

type c09 struct{}

func (c09) Name() string { return "kvsim" }

func pad20(n int) string { return fmt.Sprintf("%020d", n) }

// c09Keys builds a key set in which keys are prefixes of other keys followed by
// the separator, digits, 20-digit runs, or bytes that sort below the separator.
func c09Keys(r *simrt.RNG, plain bool) [][]byte {
	stems := []string{"a", "b", "acc", "k", "mavl-coins-x"}
	var keys []string
	if plain {
		n := r.Range(2, 5)
		for i := 0; i < n; i++ {
			keys = append(keys, fmt.Sprintf("%c%c", 'a'+byte(r.Intn(4)), 'a'+byte(r.Intn(4))))
		}
	} else {
		ns := r.Range(1, 2)
		for i := 0; i < ns; i++ {
			keys = append(keys, stems[r.Intn(len(stems))])
		}
		n := r.Range(2, 6)
		below := []string{" ", "!", "#", "-", ",", "\x01", "+"}
		for i := 0; i < n; i++ {
			b := keys[r.Intn(len(keys))]
			switch r.Weighted(3, 3, 3, 4, 1, 1, 1, 1, 1) {
			case 0:
				keys = append(keys, b+"."+fmt.Sprint(r.Intn(12)))
			case 1:
				keys = append(keys, b+"."+pad20(r.Intn(6)))
			case 2:
				keys = append(keys, b+"."+string(rune('a'+r.Intn(3))))
			case 3:
				keys = append(keys, b+below[r.Intn(len(below))])
			case 4:
				keys = append(keys, b+below[r.Intn(len(below))]+"x")
			case 5:
				keys = append(keys, b+"/") // sorts just above the separator
			case 6:
				keys = append(keys, b+fmt.Sprint(r.Intn(10))) // digit directly after the key
			case 7:
				keys = append(keys, b+".")
			case 8:
				keys = append(keys, string(rune('p'+r.Intn(4)))) // unrelated
			}
		}
	}
	seen := map[string]bool{}
	var out [][]byte
	for _, k := range keys {
		if !seen[k] {
			seen[k] = true
			out = append(out, []byte(k))
		}
	}
	return out
}

func (c09) Generate(prop string, r *simrt.RNG, tier string, run int) *simrt.Scenario {
	sc := &simrt.Scenario{Knobs: map[string]int64{}}
	plain := r.Chance(1, 8)
	if plain {
		sc.Knobs["plainkeys"] = 1
	}
	if r.Chance(1, 6) {
		sc.Knobs["ldb"] = 1
	}
	if r.Chance(1, 3) {
		sc.Knobs["iter"] = 1 // drive MVCCIter's AddMVCC / DelMVCC
	}
	keys := c09Keys(r, plain)
	uniq := 0
	n := r.Range(3, 26)
	for i := 0; i < n; i++ {
		switch r.Weighted(7, 2, 1, 1) {
		case 0:
			op := simrt.Op{K: "add"}
			nk := r.Range(1, 4)
			for j := 0; j < nk; j++ {
				uniq++
				op.Sub = append(op.Sub, simrt.Op{K: "kv", S: []string{simrt.H(keys[r.Intn(len(keys))]), simrt.H([]byte(fmt.Sprintf("val%d", uniq)))}})
			}
			sc.Ops = append(sc.Ops, op)
		case 1:
			sc.Ops = append(sc.Ops, simrt.Op{K: "del"})
		case 2:
			sc.Ops = append(sc.Ops, simrt.Op{K: "trash", I: []int64{int64(r.Intn(16))}})
		case 3:
			sc.Ops = append(sc.Ops, simrt.Op{K: "trashall"})
		}
	}
	if r.Chance(2, 3) {
		sc.Ops = append(sc.Ops, simrt.Op{K: "trashall"})
	}
	return sc
}

type c09write struct {
	ver int64
	val []byte
}

type c09owner struct {
	key string
	ver int64
}

type c09model struct {
	top    int64
	writes map[string][]c09write     // ascending version
	maybe  map[string]map[int64]bool // writes a past Trash was allowed to remove
	owner  map[string]c09owner       // value -> who wrote it
	hashes [][]byte                  // per version
}

func (m *c09model) clone() *c09model {
	c := &c09model{top: m.top, writes: map[string][]c09write{}, maybe: map[string]map[int64]bool{}, owner: m.owner, hashes: m.hashes}
	for k, w := range m.writes {
		c.writes[k] = append([]c09write(nil), w...)
	}
	for k, s := range m.maybe {
		c.maybe[k] = map[int64]bool{}
		for v := range s {
			c.maybe[k][v] = true
		}
	}
	return c
}

// latest returns the most recent write to k at a version <= v.
func (m *c09model) latest(k string, v int64) (c09write, bool) {
	ws := m.writes[k]
	for i := len(ws) - 1; i >= 0; i-- {
		if ws[i].ver <= v {
			return ws[i], true
		}
	}
	return c09write{}, false
}

func (m *c09model) trash(cut int64) {
	for k, ws := range m.writes {
		for i, w := range ws {
			if w.ver <= cut && i != len(ws)-1 {
				if m.maybe[k] == nil {
					m.maybe[k] = map[int64]bool{}
				}
				m.maybe[k][w.ver] = true
			}
		}
	}
}

func (m *c09model) digest() string {
	var ks []string
	for k := range m.writes {
		ks = append(ks, k)
	}
	sort.Strings(ks)
	var b bytes.Buffer
	for _, k := range ks {
		fmt.Fprintf(&b, "%x:", k)
		for _, w := range m.writes[k] {
			fmt.Fprintf(&b, "%d=%s,", w.ver, w.val)
		}
	}
	return simrt.DigestOf(b.String(), m.top)
}

// c09Relation describes how key `other` relates to key `k` (for signatures).
func c09Relation(k, other string) string {
	suffixClass := func(s string) string {
		allDigits := func(x string) bool {
			if x == "" {
				return false
			}
			for _, c := range []byte(x) {
				if c < '0' || c > '9' {
					return false
				}
			}
			return true
		}
		switch {
		case s[0] == '.':
			rest := s[1:]
			switch {
			case rest == "":
				return "'.'"
			case allDigits(rest) && len(rest) == 20:
				return "'.'+20digits"
			case allDigits(rest):
				return "'.'+digits"
			case rest[0] >= '0' && rest[0] <= '9':
				return "'.'+digit.."
			default:
				return "'.'+other"
			}
		case s[0] < '.':
			return "byte<'.'"
		case s[0] >= '0' && s[0] <= '9':
			return "digit"
		default:
			return "byte>'.'"
		}
	}
	switch {
	case k == other:
		return "same-key"
	case len(other) > len(k) && other[:len(k)] == k:
		return "other=key+" + suffixClass(other[len(k):])
	case len(k) > len(other) && k[:len(other)] == other:
		return "key=other+" + suffixClass(k[len(other):])
	default:
		return "unrelated"
	}
}

type c09mvcc interface {
	AddMVCC(kvs []*types.KeyValue, hash []byte, prevHash []byte, version int64) ([]*types.KeyValue, error)
	DelMVCC(hash []byte, version int64, strict bool) ([]*types.KeyValue, error)
	GetV(key []byte, version int64) ([]byte, error)
	Trash(version int64) error
}

func c09Apply(db dbm.DB, kvs []*types.KeyValue) {
	b := db.NewBatch(true)
	hasDel := false
	for _, kv := range kvs {
		if kv.Value == nil {
			hasDel = true
			b.Delete(kv.Key)
		} else {
			b.Set(kv.Key, kv.Value)
		}
	}
	if err := b.Write(); err != nil && !hasDel {
		// memdb's batch reports not-found for deleting an absent key
		simrt.Must(err, "batch write")
	}
}

func c09Clone(db dbm.DB) dbm.DB {
	c := dbm.NewDB("clone", "memdb", "", 16)
	it := db.Iterator(nil, types.EmptyValue, false)
	for ok := it.Rewind(); ok; ok = it.Next() {
		simrt.Must(c.Set(append([]byte{}, it.Key()...), append([]byte{}, it.Value()...)), "clone set")
	}
	it.Close()
	return c
}

func (c09) Execute(t *testing.T, ctx *simrt.Ctx) *simrt.Violation {
	sc := ctx.Sc
	var db dbm.DB
	if sc.Knob("ldb", 0) == 1 {
		dir, err := os.MkdirTemp(scratchDir(), "c09-")
		simrt.Must(err, "mkdir")
		defer os.RemoveAll(dir)
		simrt.Must(os.MkdirAll(filepath.Join(dir, "ldb"), 0o755), "mkdir")
		db = dbm.NewDB("kv", "goleveldb", filepath.Join(dir, "ldb"), 16)
	} else {
		db = dbm.NewDB("kv", "memdb", "", 16)
	}
	defer db.Close()
	mk := func(d dbm.DB) c09mvcc {
		if sc.Knob("iter", 0) == 1 {
			return dbm.NewMVCCIter(d)
		}
		return dbm.NewMVCC(d)
	}
	mv := mk(db)

	// the key universe: every key that occurs in the scenario
	seen := map[string]bool{}
	var keys []string
	for i := range sc.Ops {
		for j := range sc.Ops[i].Sub {
			k := string(sc.Ops[i].Sub[j].B(0))
			if k != "" && !seen[k] {
				seen[k] = true
				keys = append(keys, k)
			}
		}
	}
	sort.Strings(keys)
	for _, a := range keys {
		for _, b := range keys {
			if a != b && len(b) > len(a) && b[:len(a)] == a {
				ctx.Probe("keyset_has_prefix_pair")
				switch {
				case b[len(a)] == '.':
					ctx.Probe("keyset_pair_separator")
				case b[len(a)] < '.':
					ctx.Probe("keyset_pair_below_separator")
				}
			}
		}
	}

	model := &c09model{top: -1, writes: map[string][]c09write{}, maybe: map[string]map[int64]bool{}, owner: map[string]c09owner{}}
	hashSeq := 0

	// readAll compares every key at every version. cut >= 0 marks a read-back
	// directly after Trash(cut) (for classification only).
	readAll := func(m *c09model, mvc c09mvcc, d dbm.DB, cut int64, where string) *simrt.Violation {
		kvdb := dbm.NewKVDB(d)
		var sdbs []dbm.KV
		for v := int64(0); v <= m.top; v++ {
			s := executor.NewStateDB(nil, m.hashes[v], kvdb, &executor.StateDBOption{EnableMVCC: true, Height: v})
			executor.VerifKvsimEnableMVCC(s, nil)
			sdbs = append(sdbs, s)
		}
		var logb bytes.Buffer
		for _, k := range keys {
			for v := int64(0); v <= m.top+1; v++ {
				got, err := mvc.GetV([]byte(k), v)
				fmt.Fprintf(&logb, "%x@%d=%s/%v;", k, v, got, err != nil)
				want, found := m.latest(k, v)
				via := "GetV"
				check := func(got []byte, err error) *simrt.Violation {
					if err != nil || got == nil {
						if !found {
							return nil
						}
						if m.maybe[k][want.ver] {
							ctx.Probe("read_of_collected_version_not_found")
							return nil
						}
						newest := m.writes[k][len(m.writes[k])-1].ver == want.ver
						if cut >= 0 {
							rel := "no-prefix-relation"
							for _, o := range keys {
								if o != k && len(k) > len(o) && k[:len(o)] == o {
									rel = c09Relation(o, k)
								}
							}
							if newest {
								return ctx.Violate("trash-removed-newest", rel, "after Trash(%d) %s: %s(%q, %d) is not found (err=%v) but version %d holds the newest write to the key (%q); keys %q", cut, where, via, k, v, err, want.ver, want.val, keys)
							}
							if want.ver > cut {
								return ctx.Violate("trash-removed-newer", rel, "after Trash(%d) %s: %s(%q, %d) is not found (err=%v) but the write at version %d > cut (%q) must survive", cut, where, via, k, v, err, want.ver, want.val)
							}
						}
						return ctx.Violate("read-missing", where, "%s(%q, %d) is not found (err=%v); model: %q written at version %d", via, k, v, err, want.val, want.ver)
					}
					if found && bytes.Equal(got, want.val) {
						return nil
					}
					own, known := m.owner[string(got)]
					if found && m.maybe[k][want.ver] && known && own.key == k && own.ver < want.ver {
						// the determining write was legitimately collectable; an older
						// surviving write of the same key is then the most recent one left
						ctx.Probe("read_of_collected_version_older_write")
						return nil
					}
					wantS := "not found"
					if found {
						wantS = fmt.Sprintf("%q written at version %d", want.val, want.ver)
					}
					switch {
					case !known:
						return ctx.Violate("read-unknown-value", where, "%s(%q, %d) = %q which nobody wrote; model: %s", via, k, v, got, wantS)
					case own.key != k:
						return ctx.Violate("read-wrong-key", c09Relation(k, own.key), "%s(%q, %d) = %q, which was written under key %q at version %d; model: %s", via, k, v, got, own.key, own.ver, wantS)
					default:
						kind := "older-write-returned"
						if !found || own.ver > want.ver {
							kind = "newer-or-removed-write-returned"
						}
						return ctx.Violate("read-wrong-version", kind+"/"+where, "%s(%q, %d) = %q, written to this key at version %d; model: %s", via, k, v, got, own.ver, wantS)
					}
				}
				if viol := check(got, err); viol != nil {
					return viol
				}
				if v <= m.top {
					via = "StateDB.Get"
					g2, e2 := sdbs[v].Get([]byte(k))
					if viol := check(g2, e2); viol != nil {
						return viol
					}
					if (err == nil) != (e2 == nil) || !bytes.Equal(got, g2) {
						return ctx.Violate("statedb-differs", where, "StateDB.Get(%q) at version %d = %q,%v but GetV = %q,%v", k, v, g2, e2, got, err)
					}
				}
			}
		}
		ctx.Logf("reads %s %s", where, simrt.DigestOf(logb.String()))
		return nil
	}

	for i := range sc.Ops {
		op := &sc.Ops[i]
		ctx.CurOp = i
		ctx.Step()
		switch op.K {
		case "add":
			ver := model.top + 1
			hashSeq++
			hash := []byte(fmt.Sprintf("statehash-%04d-%04d-................", ver, hashSeq))
			var prev []byte
			if ver > 0 {
				prev = model.hashes[ver-1]
			}
			var kvs []*types.KeyValue
			for j := range op.Sub {
				k, v := op.Sub[j].B(0), op.Sub[j].B(1)
				if len(k) == 0 || len(v) == 0 {
					continue
				}
				kvs = append(kvs, &types.KeyValue{Key: k, Value: v})
			}
			out, err := mv.AddMVCC(kvs, hash, prev, ver)
			if err != nil {
				return ctx.Violate("add-failed", "AddMVCC", "AddMVCC(version %d) on top of version %d returned %v", ver, model.top, err)
			}
			c09Apply(db, out)
			ctx.Probe("version_added")
			if ver < int64(len(model.hashes)) {
				ctx.Probe("version_readded_after_delete")
			}
			model.hashes = append(model.hashes[:ver], hash)
			model.top = ver
			for _, kv := range kvs {
				k := string(kv.Key)
				ws := model.writes[k]
				if n := len(ws); n > 0 && ws[n-1].ver == ver {
					ws[n-1].val = kv.Value // same key twice in one version: the later write wins
					ctx.Probe("key_twice_in_one_version")
				} else {
					ws = append(ws, c09write{ver, kv.Value})
				}
				model.writes[k] = ws
				model.owner[string(kv.Value)] = c09owner{k, ver}
				delete(model.maybe[k], ver)
			}
			if v := readAll(model, mv, db, -1, "after-add"); v != nil {
				return v
			}
		case "del":
			if model.top < 0 {
				continue
			}
			ctx.Fault("reorg_del_top")
			out, err := mv.DelMVCC(model.hashes[model.top], model.top, true)
			if err != nil {
				return ctx.Violate("del-failed", "DelMVCC", "DelMVCC(top version %d, strict) returned %v", model.top, err)
			}
			c09Apply(db, out)
			for k, ws := range model.writes {
				if n := len(ws); n > 0 && ws[n-1].ver == model.top {
					model.writes[k] = ws[:n-1]
					delete(model.maybe[k], model.top)
				}
			}
			model.top--
			if v := readAll(model, mv, db, -1, "after-del-top"); v != nil {
				return v
			}
		case "trash":
			if model.top < 0 {
				continue
			}
			cut := op.Int(0) % (model.top + 2)
			ctx.Probe("trash")
			if err := mv.Trash(cut); err != nil {
				return ctx.Violate("trash-failed", "Trash", "Trash(%d) returned %v", cut, err)
			}
			model.trash(cut)
			if v := readAll(model, mv, db, cut, "live-db"); v != nil {
				return v
			}
		case "trashall":
			for cut := int64(0); cut <= model.top; cut++ {
				ctx.Probe("trash_sweep_cut")
				c := c09Clone(db)
				cm := model.clone()
				cmv := mk(c)
				if err := cmv.Trash(cut); err != nil {
					return ctx.Violate("trash-failed", "Trash", "Trash(%d) returned %v", cut, err)
				}
				cm.trash(cut)
				if v := readAll(cm, cmv, c, cut, "clone"); v != nil {
					return v
				}
			}
		}
		ctx.State(model.digest())
	}
	return nil
}
