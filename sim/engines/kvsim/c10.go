package kvsim

import (
	"bytes"
	"fmt"
	"sort"
	"strings"
	"testing"

	dbm "github.com/33cn/chain33/common/db"
	"github.com/33cn/chain33/common/db/table"
	protodata "github.com/33cn/chain33/common/db/table/proto"
	"github.com/33cn/chain33/types"
	"github.com/golang/protobuf/proto"

	"verifsim/simrt"
)

// C10 — indexed tables. History: Add / Replace / Update / Del / DelRow on a
// small key space (several per key between saves), Save + apply the returned
// KVs, rebuild of the table objects over the same database; on a plain table
// ("gameaddr": primary txhash, indexes gameID and addr) and on a join table
// (left gameaddr, right "game": primary gameID, index status; join indexes
// addr#status and #status).
//
// Model (from the statement): primary key -> row, per table. Add fails exactly
// when the key is present at that moment (buffered operations count). After a
// save, GetData returns the latest row, every index lookup returns exactly the
// present rows whose field matches, and the stored index records contain
// nothing stale and miss nothing.

func init() {
	simrt.Register(&simrt.Info{
		Property: "C10", Engine: &c10{},
		Real:       []string{"common/db/table Table / Query / JoinTable / Count", "common/db KVDBList + ListHelper", "common/db LocalDB (half of the runs: table over a LocalDB, deletes become tombstones)", "common/db GoMemDB", "util.DelDupKey"},
		Stub:       []string{"RowMeta adapters for protodata.Game / GameAddr (the user-supplied part of the table API)", "the caller that applies the KVs returned by Save (nil value = delete)"},
		FaultKinds: []string{"rebuild_table_object"},
		Rule:       "one case = one generated history of Add/Replace/Update/Del/DelRow/Save/rebuild on a plain or a join table over a 5-key space (join runs: 70 % STRICT never generate the join shapes recorded as known defects, 30 % OPEN generate everything and attribute through the signature), checked against a pk->row model at every Add and after every save; distinct = distinct scenario digest; non-trivial = at least one save that flushes >= 2 buffered operations on one primary key",
		Nontrivial: func(sc *simrt.Scenario, r *simrt.Result) bool { return r.Probes["save_with_multi_op_key"] > 0 },
	})
}

type c10 struct{}

func (c10) Name() string { return "kvsim" }

var (
	c10PKs    = []string{"t0", "t1", "t2", "t3", "t4"}
	c10Games  = []string{"g0", "g1", "g2"}
	c10Addrs  = []string{"a0", "a1", "a2"}
	c10Status = []int64{1, 2, 3}
)

func (c10) Generate(prop string, r *simrt.RNG, tier string, run int) *simrt.Scenario {
	sc := &simrt.Scenario{Knobs: map[string]int64{}}
	join := r.Chance(2, 5)
	if join {
		sc.Knobs["join"] = 1
		// OPEN runs (30 %) generate everything, including the join shapes recorded as
		// known defects; STRICT runs never produce those shapes (see knownShape)
		if r.Chance(3, 10) {
			sc.Knobs["open"] = 1
		}
	}
	if r.Chance(1, 2) {
		sc.Knobs["localdb"] = 1
	}
	npk := r.Range(2, len(c10PKs))
	left := func(kind string) simrt.Op {
		return simrt.Op{K: kind, S: []string{"L", c10PKs[r.Intn(npk)], c10Games[r.Intn(len(c10Games))], c10Addrs[r.Intn(len(c10Addrs))]}}
	}
	right := func(kind string) simrt.Op {
		return simrt.Op{K: kind, S: []string{"R", c10Games[r.Intn(len(c10Games))]}, I: []int64{c10Status[r.Intn(len(c10Status))]}}
	}
	if join {
		// start with some right rows so left rows have something to reference
		for i := 0; i < r.Range(1, 3); i++ {
			sc.Ops = append(sc.Ops, right("replace"))
		}
	}
	n := r.Range(4, 36)
	for i := 0; i < n; i++ {
		mk := left
		if join && r.Chance(1, 3) {
			mk = right
		}
		switch r.Weighted(6, 4, 6, 4, 2, 4, 1) {
		case 0:
			sc.Ops = append(sc.Ops, mk("add"))
		case 1:
			sc.Ops = append(sc.Ops, mk("replace"))
		case 2:
			sc.Ops = append(sc.Ops, mk("update"))
		case 3:
			sc.Ops = append(sc.Ops, mk("del"))
		case 4:
			sc.Ops = append(sc.Ops, mk("delrow"))
		case 5:
			sc.Ops = append(sc.Ops, simrt.Op{K: "save"})
		case 6:
			sc.Ops = append(sc.Ops, simrt.Op{K: "rebuild"})
		}
	}
	return sc
}

// ---------------------------------------------------------------------------
// RowMeta adapters (what a user of the table package writes)

type c10LeftMeta struct{ *protodata.GameAddr }

func (m *c10LeftMeta) CreateRow() *table.Row { return &table.Row{Data: &protodata.GameAddr{}} }
func (m *c10LeftMeta) SetPayload(d types.Message) error {
	if x, ok := d.(*protodata.GameAddr); ok {
		m.GameAddr = x
		return nil
	}
	return types.ErrTypeAsset
}
func (m *c10LeftMeta) Get(key string) ([]byte, error) {
	switch key {
	case "txhash":
		return []byte(m.Txhash), nil
	case "gameID":
		return []byte(m.GameID), nil
	case "addr":
		return []byte(m.Addr), nil
	}
	return nil, types.ErrNotFound
}

type c10RightMeta struct{ *protodata.Game }

func (m *c10RightMeta) CreateRow() *table.Row { return &table.Row{Data: &protodata.Game{}} }
func (m *c10RightMeta) SetPayload(d types.Message) error {
	if x, ok := d.(*protodata.Game); ok {
		m.Game = x
		return nil
	}
	return types.ErrTypeAsset
}
func (m *c10RightMeta) Get(key string) ([]byte, error) {
	switch key {
	case "gameID":
		return []byte(m.GameID), nil
	case "status":
		return []byte(fmt.Sprint(m.Status)), nil
	}
	return nil, types.ErrNotFound
}

// ---------------------------------------------------------------------------
// model

type c10row struct {
	f1, f2 string // left: gameID, addr; right: status, ""
}

type c10tab struct {
	cur, saved map[string]c10row
	pending    map[string][]string // per pk: effective op kinds since the last save / rebuild
	nops       map[string]int      // per pk: number of accepted calls since the last save / rebuild
}

func newC10tab() *c10tab {
	return &c10tab{cur: map[string]c10row{}, saved: map[string]c10row{}, pending: map[string][]string{}, nops: map[string]int{}}
}

func (t *c10tab) pendingSig(pk string) string {
	p := "N:"
	if _, ok := t.saved[pk]; ok {
		p = "P:" // the row was persisted when the window started
	}
	// shape, not length: the set of adjacent transitions of the (collapsed)
	// effective-op sequence, e.g. "P:upd>del" or "P:del>add+upd>del"
	seq := t.pending[pk]
	switch len(seq) {
	case 0:
		return p + "-"
	case 1:
		return p + seq[0]
	}
	var tr []string
	for i := 1; i < len(seq); i++ {
		tr = append(tr, seq[i-1]+">"+seq[i])
	}
	sort.Strings(tr)
	return p + strings.Join(uniqStrings(tr), "+")
}

func sortedKeys(m map[string]c10row) []string {
	ks := make([]string, 0, len(m))
	for k := range m {
		ks = append(ks, k)
	}
	sort.Strings(ks)
	return ks
}

type c10env struct {
	ctx     *simrt.Ctx
	join    bool
	localdb bool
	db      dbm.DB
	kvdb    dbm.KVDB
	left    *table.Table
	right   *table.Table
	jt      *table.JoinTable
	L, R    *c10tab
	open    bool
	// the current save window (since the last save / rebuild)
	winL, winR map[string]bool            // left / right primary keys with accepted ops
	winFks     map[string]map[string]bool // left pk -> right pks it referenced inside the window
}

func (e *c10env) resetWindow() {
	e.winL, e.winR, e.winFks = map[string]bool{}, map[string]bool{}, map[string]map[string]bool{}
}

// joinedFks lists every right row the left row pk is or was joined to in the
// current window: the persisted reference, the references it had inside the
// window, the current one, and (optionally) the one an op is about to set.
func (e *c10env) joinedFks(pk, extra string) []string {
	set := map[string]bool{}
	for f := range e.winFks[pk] {
		set[f] = true
	}
	if r, ok := e.L.saved[pk]; ok {
		set[r.f1] = true
	}
	if r, ok := e.L.cur[pk]; ok {
		set[r.f1] = true
	}
	if extra != "" {
		set[extra] = true
	}
	out := make([]string, 0, len(set))
	for f := range set {
		out = append(out, f)
	}
	sort.Strings(out)
	return out
}

// knownShape names the join shapes that are recorded as known defects of the
// join table (known_findings.json): a change of a left row's foreign key inside
// a window, and a persisted left row AND a right row it is joined to both
// changed/deleted inside one window. A left row that did not exist when the
// window started is not part of the second shape (its join records are all
// created by this save). STRICT runs never generate these shapes; OPEN runs
// attribute join violations to them through the signature.
func (e *c10env) knownShape(pk string, fks []string, leftTouched bool) string {
	var shapes []string
	if len(fks) >= 2 {
		shapes = append(shapes, "fkchange")
	}
	if _, persisted := e.L.saved[pk]; persisted && leftTouched {
		for _, f := range fks {
			if e.winR[f] {
				shapes = append(shapes, "both-sides")
				break
			}
		}
	}
	return strings.Join(shapes, "+")
}

// joinSig is the signature part of a join violation about left row pk. Only a
// violation that coincides with a known shape gets the "...left/...;right/..."
// form that known_findings.json matches.
func (e *c10env) joinSig(pk string) string {
	l, ok := e.L.cur[pk]
	if !ok {
		l, ok = e.L.saved[pk]
	}
	rp := "-"
	if ok {
		rp = e.R.pendingSig(l.f1)
	}
	lp := e.L.pendingSig(pk)
	if shape := e.knownShape(pk, e.joinedFks(pk, ""), e.winL[pk]); shape != "" {
		return shape + "/left/" + lp + ";right/" + rp
	}
	return "no-known-shape/L=" + lp + "|R=" + rp
}

// saveSig is the signature of a failed Save.
func (e *c10env) saveSig() string {
	var ls, rs, shapes []string
	for _, pk := range sortedBoolKeys(e.winL) {
		ls = append(ls, e.L.pendingSig(pk))
		if sh := e.knownShape(pk, e.joinedFks(pk, ""), true); sh != "" {
			shapes = append(shapes, sh)
		}
	}
	for _, pk := range sortedBoolKeys(e.winR) {
		rs = append(rs, e.R.pendingSig(pk))
	}
	sort.Strings(ls)
	sort.Strings(rs)
	sort.Strings(shapes)
	l, r := strings.Join(uniqStrings(ls), ","), strings.Join(uniqStrings(rs), ",")
	if l == "" {
		l = "-"
	}
	if r == "" {
		r = "-"
	}
	if len(shapes) > 0 {
		return strings.Join(uniqStrings(shapes), ",") + "/left/" + l + ";right/" + r
	}
	return "no-known-shape/L=" + l + "|R=" + r
}

func sortedBoolKeys(m map[string]bool) []string {
	ks := make([]string, 0, len(m))
	for k := range m {
		ks = append(ks, k)
	}
	sort.Strings(ks)
	return ks
}

const (
	c10Prefix = "LODB"
	c10LName  = "gameaddr"
	c10RName  = "game"
)

func (e *c10env) build() {
	var err error
	e.left, err = table.NewTable(&c10LeftMeta{&protodata.GameAddr{}}, e.kvdb, &table.Option{Prefix: c10Prefix, Name: c10LName, Primary: "txhash", Index: []string{"gameID", "addr"}})
	simrt.Must(err, "NewTable left")
	if e.join {
		e.right, err = table.NewTable(&c10RightMeta{&protodata.Game{}}, e.kvdb, &table.Option{Prefix: c10Prefix, Name: c10RName, Primary: "gameID", Index: []string{"status"}})
		simrt.Must(err, "NewTable right")
		e.jt, err = table.NewJoinTable(e.left, e.right, []string{"addr#status", "#status"})
		simrt.Must(err, "NewJoinTable")
	}
}

func (e *c10env) apply(kvs []*types.KeyValue) {
	if e.localdb {
		// a table over the execution-time LocalDB: every KV is Set, nil = tombstone
		for _, kv := range kvs {
			simrt.Must(e.kvdb.Set(kv.Key, kv.Value), "localdb set")
		}
		return
	}
	b := e.db.NewBatch(true)
	hasDel := false
	for _, kv := range kvs {
		if kv.Value == nil {
			hasDel = true
			b.Delete(kv.Key)
		} else {
			b.Set(kv.Key, kv.Value)
		}
	}
	if err := b.Write(); err != nil && !hasDel {
		simrt.Must(err, "batch write")
	}
}

func leftMsg(pk string, r c10row) *protodata.GameAddr {
	return &protodata.GameAddr{Txhash: pk, GameID: r.f1, Addr: r.f2}
}
func rightMsg(pk string, r c10row) *protodata.Game {
	var st int64
	fmt.Sscan(r.f1, &st)
	return &protodata.Game{GameID: pk, Status: st}
}

func (c10) Execute(t *testing.T, ctx *simrt.Ctx) *simrt.Violation {
	sc := ctx.Sc
	e := &c10env{ctx: ctx, join: sc.Knob("join", 0) == 1, localdb: sc.Knob("localdb", 0) == 1, open: sc.Knob("open", 0) == 1, L: newC10tab(), R: newC10tab()}
	e.resetWindow()
	e.db = dbm.NewDB("kv", "memdb", "", 16)
	defer e.db.Close()
	if e.localdb {
		e.kvdb = dbm.NewLocalDB(e.db, false)
	} else {
		e.kvdb = dbm.NewKVDB(e.db)
	}
	e.build()
	for i := range sc.Ops {
		op := &sc.Ops[i]
		ctx.CurOp = i
		ctx.Step()
		switch op.K {
		case "add", "replace", "update", "del", "delrow":
			if v := e.rowOp(op); v != nil {
				return v
			}
		case "save":
			if v := e.save(); v != nil {
				return v
			}
		case "rebuild":
			ctx.Fault("rebuild_table_object")
			e.build()
			for _, tb := range []*c10tab{e.L, e.R} {
				tb.cur = map[string]c10row{}
				for k, r := range tb.saved {
					tb.cur[k] = r
				}
				tb.pending = map[string][]string{}
				tb.nops = map[string]int{}
			}
			e.resetWindow()
		}
	}
	// every history ends with a save
	ctx.CurOp = len(sc.Ops)
	return e.save()
}

// refOK: in join mode every present left row must reference a present right row
// (the join table has no defined behaviour for dangling references).
func (e *c10env) refOK(L, R map[string]c10row) bool {
	for _, r := range L {
		if _, ok := R[r.f1]; !ok {
			return false
		}
	}
	return true
}

func (e *c10env) rowOp(op *simrt.Op) *simrt.Violation {
	ctx := e.ctx
	isRight := op.Str(0) == "R"
	if isRight && !e.join {
		return nil
	}
	pk := op.Str(1)
	if pk == "" {
		return nil
	}
	var tb *c10tab
	var tbl *table.Table
	var row c10row
	var msg types.Message
	tname := "left"
	if isRight {
		tb, tbl, row, tname = e.R, e.right, c10row{f1: fmt.Sprint(op.Int(0))}, "right"
		msg = rightMsg(pk, row)
	} else {
		tb, tbl, row = e.L, e.left, c10row{f1: op.Str(2), f2: op.Str(3)}
		msg = leftMsg(pk, row)
	}
	_, present := tb.cur[pk]
	if e.join {
		// would the op (if it takes effect as the model says) leave a dangling reference?
		L2, R2 := map[string]c10row{}, map[string]c10row{}
		for k, r := range e.L.cur {
			L2[k] = r
		}
		for k, r := range e.R.cur {
			R2[k] = r
		}
		tgt := L2
		if isRight {
			tgt = R2
		}
		switch op.K {
		case "add":
			if !present {
				tgt[pk] = row
			}
		case "replace", "update":
			tgt[pk] = row // update of an absent key may be accepted (see below)
		case "del", "delrow":
			delete(tgt, pk)
		}
		if !e.refOK(L2, R2) {
			ctx.Probe("op_skipped_dangling_reference")
			return nil
		}
		if !e.open {
			// STRICT: never produce a join shape that is a recorded known defect
			skip := false
			if isRight {
				save := e.winR[pk]
				e.winR[pk] = true
				for _, lp := range sortedBoolKeys(e.winL) {
					if e.knownShape(lp, e.joinedFks(lp, ""), true) != "" {
						skip = true
					}
				}
				if !save {
					delete(e.winR, pk)
				}
			} else {
				newfk := ""
				if op.K == "replace" || op.K == "update" || (op.K == "add" && !present) {
					newfk = row.f1
				}
				skip = e.knownShape(pk, e.joinedFks(pk, newfk), true) != ""
			}
			if skip {
				ctx.Probe("strict_skipped_known_join_shape")
				return nil
			}
		}
	}
	pend := tb.pendingSig(pk)
	var err error
	switch op.K {
	case "add":
		err = tbl.Add(msg)
	case "replace":
		err = tbl.Replace(msg)
	case "update":
		err = tbl.Update([]byte(pk), msg)
	case "del":
		err = tbl.Del([]byte(pk))
	case "delrow":
		err = tbl.DelRow(msg)
	}
	ctx.Logf("%s %s %s %v -> %v", op.K, tname, pk, row, err != nil)
	kind := op.K
	if kind == "delrow" {
		kind = "del"
	}
	switch kind {
	case "add":
		// adding fails exactly when the key is currently present
		if present && err == nil {
			return ctx.Violate("add-accepted-present", tname+"/"+pend, "%s table: Add(%s) succeeded although the key is present (row %v); operations on the key since the last save: %s", tname, pk, tb.cur[pk], pend)
		}
		if !present && err != nil {
			return ctx.Violate("add-rejected-absent", tname+"/"+pend, "%s table: Add(%s) returned %v although the key is not present; operations on the key since the last save: %s", tname, pk, err, pend)
		}
		if err == nil {
			tb.cur[pk] = row
		}
	case "replace":
		if err != nil {
			return ctx.Violate("op-rejected", tname+"/replace/"+pend, "%s table: Replace(%s) returned %v (key present: %v); operations on the key since the last save: %s", tname, pk, err, present, pend)
		}
		tb.cur[pk] = row
	case "update":
		if present && err != nil {
			return ctx.Violate("op-rejected", tname+"/update/"+pend, "%s table: Update(%s) returned %v although the key is present; operations on the key since the last save: %s", tname, pk, err, pend)
		}
		if err == nil {
			if !present {
				// the statement does not say what updating an absent key does; an
				// accepted update is taken as "the row now exists with this content"
				ctx.Probe("update_of_absent_key_accepted")
			}
			tb.cur[pk] = row
		}
	case "del":
		if present && err != nil {
			return ctx.Violate("op-rejected", tname+"/del/"+pend, "%s table: Del(%s) returned %v although the key is present; operations on the key since the last save: %s", tname, pk, err, pend)
		}
		if !present && err == nil {
			ctx.Probe("del_of_absent_key_accepted")
		}
		delete(tb.cur, pk)
	}
	// the signature records what the op did to the map, not which call was used:
	// add (key was absent), upd (key was present), del; repeats are collapsed
	eff := kind
	switch kind {
	case "replace", "update":
		eff = "upd"
		if !present {
			eff = "add"
			if kind == "update" {
				eff = "upd-absent"
			}
		}
	case "del":
		if !present {
			eff = "del-absent"
		}
	}
	if err != nil {
		return nil // rejected (as the model expects): no effect
	}
	if p := tb.pending[pk]; len(p) == 0 || p[len(p)-1] != eff {
		tb.pending[pk] = append(tb.pending[pk], eff)
	}
	tb.nops[pk]++
	if isRight {
		e.winR[pk] = true
	} else {
		if e.winFks[pk] == nil {
			e.winFks[pk] = map[string]bool{}
		}
		for _, f := range e.joinedFks(pk, "") { // includes the reference just written
			e.winFks[pk][f] = true
		}
		if r, ok := e.L.saved[pk]; ok {
			e.winFks[pk][r.f1] = true
		}
		e.winL[pk] = true
	}
	return nil
}

func (e *c10env) save() *simrt.Violation {
	ctx := e.ctx
	multi := false
	for _, tb := range []*c10tab{e.L, e.R} {
		for _, n := range tb.nops {
			if n >= 2 {
				multi = true
			}
		}
	}
	if multi {
		ctx.Probe("save_with_multi_op_key")
	}
	var kvs []*types.KeyValue
	var err error
	if e.join {
		kvs, err = e.jt.Save()
	} else {
		kvs, err = e.left.Save()
	}
	if err != nil {
		return ctx.Violate("save-failed", e.saveSig(), "Save returned %v; pending operations: %s", err, e.pendSummary())
	}
	e.apply(kvs)
	ctx.Logf("save %d kvs", len(kvs))
	if v := e.verifyTable("left", e.left, e.L, []string{"gameID", "addr"}); v != nil {
		return v
	}
	if e.join {
		if v := e.verifyTable("right", e.right, e.R, []string{"status"}); v != nil {
			return v
		}
		if v := e.verifyJoin(); v != nil {
			return v
		}
	}
	for _, tb := range []*c10tab{e.L, e.R} {
		tb.saved = map[string]c10row{}
		for k, r := range tb.cur {
			tb.saved[k] = r
		}
		tb.pending = map[string][]string{}
		tb.nops = map[string]int{}
	}
	e.resetWindow()
	ctx.State(simrt.DigestOf(fmt.Sprint(sortedKeys(e.L.cur), e.L.cur, sortedKeys(e.R.cur), e.R.cur)))
	return nil
}

func (e *c10env) pendSummary() string {
	var parts []string
	for _, x := range []struct {
		n  string
		tb *c10tab
	}{{"left", e.L}, {"right", e.R}} {
		var pks []string
		for pk := range x.tb.pending {
			pks = append(pks, pk)
		}
		sort.Strings(pks)
		for _, pk := range pks {
			parts = append(parts, x.n+"/"+x.tb.pendingSig(pk))
		}
	}
	// the signature keeps the shapes, not the keys
	sort.Strings(parts)
	if len(parts) == 0 {
		return "no-pending-ops"
	}
	return strings.Join(uniqStrings(parts), ";")
}

func uniqStrings(s []string) []string {
	var out []string
	for i, x := range s {
		if i == 0 || x != s[i-1] {
			out = append(out, x)
		}
	}
	return out
}

func (e *c10env) field(tname string, r c10row, index string) string {
	switch index {
	case "gameID", "status":
		return r.f1
	case "addr":
		return r.f2
	}
	return ""
}

func (e *c10env) rowOf(tname string, m types.Message) (pk string, r c10row, ok bool) {
	switch x := m.(type) {
	case *protodata.GameAddr:
		return x.Txhash, c10row{x.GameID, x.Addr}, tname == "left"
	case *protodata.Game:
		return x.GameID, c10row{f1: fmt.Sprint(x.Status)}, tname == "right"
	}
	return "", c10row{}, false
}

// scan lists all stored records under a key prefix (through the same KVDB the
// table uses, so LocalDB tombstones are honoured).
func (e *c10env) scan(prefix string) []kvPair {
	vals, err := e.kvdb.List([]byte(prefix), nil, 0, dbm.ListASC|dbm.ListWithKey)
	if err != nil {
		return nil
	}
	var out []kvPair
	for _, b := range vals {
		var kv types.KeyValue
		simrt.Must(types.Decode(b, &kv), "decode scan entry")
		out = append(out, kvPair{string(kv.Key), kv.Value})
	}
	return out
}

func (e *c10env) domain(index string) []string {
	switch index {
	case "gameID":
		return c10Games
	case "addr":
		return c10Addrs
	case "status":
		return []string{"1", "2", "3"}
	}
	return nil
}

// verifyTable checks one table against its model after a save.
func (e *c10env) verifyTable(tname string, tbl *table.Table, tb *c10tab, indexes []string) *simrt.Violation {
	ctx := e.ctx
	pks := c10PKs
	if tname == "right" {
		pks = c10Games
	}
	// reading returns the latest row
	for _, pk := range pks {
		want, present := tb.cur[pk]
		row, err := tbl.GetData([]byte(pk))
		pend := tb.pendingSig(pk)
		if !present {
			if err == nil {
				return ctx.Violate("row-stale", tname+"/"+pend, "%s table after save: GetData(%s) returns a row (%v) but the key was deleted; operations since the previous save: %s", tname, pk, row.Data, pend)
			}
			continue
		}
		if err != nil {
			return ctx.Violate("row-missing", tname+"/"+pend, "%s table after save: GetData(%s) = %v but the model holds %v; operations since the previous save: %s", tname, pk, err, want, pend)
		}
		gpk, got, ok := e.rowOf(tname, row.Data)
		if !ok || gpk != pk || got != want || string(row.Primary) != pk {
			return ctx.Violate("row-wrong", tname+"/"+pend, "%s table after save: GetData(%s) = %v (primary %q), latest row is %v; operations since the previous save: %s", tname, pk, row.Data, row.Primary, want, pend)
		}
	}
	// stored records: data records == rows; index records == one per row and index, nothing else
	base := c10Prefix + "-" + map[string]string{"left": c10LName, "right": c10RName}[tname] + "-"
	data := e.scan(base + "d-")
	if len(data) != len(tb.cur) {
		return ctx.Violate("data-records", tname+"/count", "%s table after save: %d data records stored, %d rows in the model (%v)", tname, len(data), len(tb.cur), sortedKeys(tb.cur))
	}
	wantIdx := map[string]string{} // "index|value|pk" -> pk
	for pk, r := range tb.cur {
		for _, index := range indexes {
			wantIdx[index+"|"+e.field(tname, r, index)+"|"+pk] = pk
		}
	}
	seen := map[string]bool{}
	for _, rec := range e.scan(base + "m-") {
		rest := strings.TrimPrefix(rec.k, base+"m-")
		parts := strings.SplitN(rest, "-", 3)
		if len(parts) != 3 {
			return ctx.Violate("index-record-malformed", tname, "%s table: index record key %q", tname, rec.k)
		}
		id := parts[0] + "|" + parts[1] + "|" + parts[2]
		pk := parts[2]
		pend := tb.pendingSig(pk)
		if string(rec.v) != pk {
			return ctx.Violate("index-record-malformed", tname+"/value", "%s table: index record %q points at %q", tname, rec.k, rec.v)
		}
		if _, ok := wantIdx[id]; !ok {
			if _, present := tb.cur[pk]; !present {
				return ctx.Violate("index-stale", tname+"/missing-row/"+pend, "%s table after save: stored index record %s=%s -> %s points at a row that does not exist; operations on the key since the previous save: %s", tname, parts[0], parts[1], pk, pend)
			}
			return ctx.Violate("index-stale", tname+"/non-matching-row/"+pend, "%s table after save: stored index record %s=%s -> %s but the row's field is %q; operations on the key since the previous save: %s", tname, parts[0], parts[1], pk, e.field(tname, tb.cur[pk], parts[0]), pend)
		}
		seen[id] = true
	}
	var missing []string
	for id := range wantIdx {
		if !seen[id] {
			missing = append(missing, id)
		}
	}
	if len(missing) > 0 {
		sort.Strings(missing)
		pk := wantIdx[missing[0]]
		return ctx.Violate("index-missing", tname+"/"+tb.pendingSig(pk), "%s table after save: no stored index record for %s (row %v); operations on the key since the previous save: %s", tname, missing[0], tb.cur[pk], tb.pendingSig(pk))
	}
	// every index lookup returns exactly the present rows whose field matches
	q := tbl.GetQuery(e.kvdb)
	for _, index := range indexes {
		for _, val := range e.domain(index) {
			var want []string
			for _, pk := range sortedKeys(tb.cur) {
				if e.field(tname, tb.cur[pk], index) == val {
					want = append(want, pk)
				}
			}
			for _, dir := range []int32{dbm.ListASC, dbm.ListDESC} {
				rows, err := q.ListIndex(index, []byte(val), nil, 0, dir)
				if v := e.cmpIndex(tname, tb, index, val, "all", rows, err, want); v != nil {
					return v
				}
			}
			// paged: one row per request, continuing after the last primary key
			if len(want) >= 2 {
				ctx.Probe("index_value_with_several_rows")
				var got []*table.Row
				var last []byte
				for n := 0; n <= len(want)+1; n++ {
					rows, err := q.ListIndex(index, []byte(val), last, 1, dbm.ListASC)
					if err != nil || len(rows) == 0 {
						break
					}
					got = append(got, rows...)
					last = rows[len(rows)-1].Primary
				}
				if v := e.cmpIndex(tname, tb, index, val, "paged", got, nil, want); v != nil {
					return v
				}
			}
		}
	}
	// primary listing
	{
		rows, err := q.ListIndex("primary", nil, nil, 0, dbm.ListASC)
		if v := e.cmpIndex(tname, tb, "primary", "", "all", rows, err, sortedKeys(tb.cur)); v != nil {
			return v
		}
	}
	return nil
}

// cmpIndex compares the rows an index lookup returned with the model (as a set,
// each row once, each row's content the latest).
func (e *c10env) cmpIndex(tname string, tb *c10tab, index, val, mode string, rows []*table.Row, err error, want []string) *simrt.Violation {
	ctx := e.ctx
	if err != nil && err != types.ErrNotFound {
		return ctx.Violate("index-lookup-failed", tname+"/"+index, "%s table after save: ListIndex(%s=%s) returned %v", tname, index, val, err)
	}
	if err != nil {
		rows = nil
	}
	var got []string
	seen := map[string]bool{}
	for _, r := range rows {
		pk, content, ok := e.rowOf(tname, r.Data)
		if !ok {
			return ctx.Violate("index-lookup-wrong", tname+"/"+index+"/type", "%s table: ListIndex(%s=%s) returned a row of another type: %v", tname, index, val, r.Data)
		}
		pend := tb.pendingSig(pk)
		if seen[pk] {
			return ctx.Violate("index-lookup-wrong", tname+"/"+index+"/duplicate/"+pend, "%s table after save: ListIndex(%s=%s, %s) returned %s twice", tname, index, val, mode, pk)
		}
		seen[pk] = true
		cur, present := tb.cur[pk]
		if !present {
			return ctx.Violate("index-lookup-wrong", tname+"/"+index+"/deleted-row/"+pend, "%s table after save: ListIndex(%s=%s, %s) returned %s which is not present; operations on the key since the previous save: %s", tname, index, val, mode, pk, pend)
		}
		if content != cur {
			return ctx.Violate("index-lookup-wrong", tname+"/"+index+"/old-content/"+pend, "%s table after save: ListIndex(%s=%s, %s) returned %s with content %v, latest is %v", tname, index, val, mode, pk, content, cur)
		}
		if index != "primary" && e.field(tname, cur, index) != val {
			return ctx.Violate("index-lookup-wrong", tname+"/"+index+"/non-matching/"+pend, "%s table after save: ListIndex(%s=%s, %s) returned %s whose field is %q; operations on the key since the previous save: %s", tname, index, val, mode, pk, e.field(tname, cur, index), pend)
		}
		got = append(got, pk)
	}
	sort.Strings(got)
	for _, pk := range want {
		if !seen[pk] {
			pend := tb.pendingSig(pk)
			return ctx.Violate("index-lookup-wrong", tname+"/"+index+"/row-not-returned/"+pend, "%s table after save: ListIndex(%s=%s, %s) returned %v, expected %v: %s is missing; operations on the key since the previous save: %s", tname, index, val, mode, got, want, pk, pend)
		}
	}
	return nil
}

// verifyJoin checks the join view: for every left row with its right row, the
// join lookups by (addr, status) and by status, and the stored join index records.
func (e *c10env) verifyJoin() *simrt.Violation {
	ctx := e.ctx
	type jrow struct{ addr, status string }
	want := map[string]jrow{}
	for pk, l := range e.L.cur {
		r, ok := e.R.cur[l.f1]
		if !ok {
			simrt.Failf("model holds a dangling reference %s -> %s", pk, l.f1)
		}
		want[pk] = jrow{l.f2, r.f1}
	}
	pendOf := e.joinSig
	// stored join index records
	base := c10Prefix + "-" + c10LName + "#" + c10RName + "-m-"
	wantIdx := map[string]string{}
	for pk, j := range want {
		wantIdx["addr#status|"+string(table.JoinKey([]byte(j.addr), []byte(j.status)))+"|"+pk] = pk
		wantIdx["#status|"+string(table.JoinKey(nil, []byte(j.status)))+"|"+pk] = pk
	}
	seen := map[string]bool{}
	for _, rec := range e.scan(base) {
		rest := strings.TrimPrefix(rec.k, base)
		i := strings.Index(rest, "-")
		jx := strings.LastIndex(rest, "-")
		if i < 0 || jx <= i {
			return ctx.Violate("index-record-malformed", "join", "join index record key %q", rec.k)
		}
		index, val, pk := rest[:i], rest[i+1:jx], rest[jx+1:]
		id := index + "|" + val + "|" + pk
		if _, ok := wantIdx[id]; !ok {
			var kv types.KeyValue
			_ = types.Decode([]byte(val), &kv)
			kind := "non-matching-row"
			if _, present := want[pk]; !present {
				kind = "missing-row"
			}
			return ctx.Violate("join-index-stale", kind+"/"+pendOf(pk), "stored join index record %s = (%q, %q) -> %s but the model's joined row is %v; pending: %s", index, kv.Key, kv.Value, pk, want[pk], pendOf(pk))
		}
		if !bytes.Equal(rec.v, []byte(pk)) {
			return ctx.Violate("index-record-malformed", "join/value", "join index record %q points at %q", rec.k, rec.v)
		}
		seen[id] = true
	}
	var missing []string
	for id := range wantIdx {
		if !seen[id] {
			missing = append(missing, id)
		}
	}
	if len(missing) > 0 {
		sort.Strings(missing)
		pk := wantIdx[missing[0]]
		return ctx.Violate("join-index-missing", pendOf(pk), "no stored join index record %q for row %s %v; pending: %s", missing[0], pk, want[pk], pendOf(pk))
	}
	for _, pk := range c10PKs {
		l, present := e.L.cur[pk]
		row, err := e.jt.GetData([]byte(pk))
		if !present {
			if err == nil {
				return ctx.Violate("join-row-stale", pendOf(pk), "join GetData(%s) returns a row but the left row was deleted", pk)
			}
			continue
		}
		if err != nil {
			return ctx.Violate("join-row-missing", pendOf(pk), "join GetData(%s) = %v, model: left %v right %v", pk, err, l, e.R.cur[l.f1])
		}
		jd, ok := row.Data.(*table.JoinData)
		if !ok || !proto.Equal(jd.Left, leftMsg(pk, l)) || !proto.Equal(jd.Right, rightMsg(l.f1, e.R.cur[l.f1])) {
			return ctx.Violate("join-row-wrong", pendOf(pk), "join GetData(%s) = %v, model: left %v right %v", pk, row.Data, l, e.R.cur[l.f1])
		}
	}
	lookups := []struct {
		index string
		key   func(j jrow) string
	}{
		{"addr#status", func(j jrow) string { return j.addr + "#" + j.status }},
		{"#status", func(j jrow) string { return "#" + j.status }},
	}
	for _, lk := range lookups {
		var vals [][2]string
		for _, st := range []string{"1", "2", "3"} {
			if lk.index == "#status" {
				vals = append(vals, [2]string{"", st})
				continue
			}
			for _, a := range c10Addrs {
				vals = append(vals, [2]string{a, st})
			}
		}
		for _, v := range vals {
			var wantPks []string
			for _, pk := range sortedKeys(e.L.cur) {
				if lk.key(want[pk]) == v[0]+"#"+v[1] {
					wantPks = append(wantPks, pk)
				}
			}
			var lv []byte
			if v[0] != "" {
				lv = []byte(v[0])
			}
			rows, err := e.jt.ListIndex(lk.index, table.JoinKey(lv, []byte(v[1])), nil, 0, dbm.ListASC)
			if err != nil && err != types.ErrNotFound {
				return ctx.Violate("join-lookup-failed", lk.index, "join ListIndex(%s = %s/%s) returned %v", lk.index, v[0], v[1], err)
			}
			if err != nil {
				rows = nil
			}
			seen := map[string]bool{}
			for _, r := range rows {
				pk := string(r.Primary)
				j, present := want[pk]
				switch {
				case seen[pk]:
					return ctx.Violate("join-lookup-wrong", lk.index+"/duplicate/"+pendOf(pk), "join ListIndex(%s = %s/%s) returned %s twice", lk.index, v[0], v[1], pk)
				case !present:
					return ctx.Violate("join-lookup-wrong", lk.index+"/deleted-row/"+pendOf(pk), "join ListIndex(%s = %s/%s) returned %s which is not present", lk.index, v[0], v[1], pk)
				case lk.key(j) != v[0]+"#"+v[1]:
					return ctx.Violate("join-lookup-wrong", lk.index+"/non-matching/"+pendOf(pk), "join ListIndex(%s = %s/%s) returned %s whose (addr, status) is (%s, %s); pending: %s", lk.index, v[0], v[1], pk, j.addr, j.status, pendOf(pk))
				}
				seen[pk] = true
				jd, ok := r.Data.(*table.JoinData)
				l := e.L.cur[pk]
				if !ok || !proto.Equal(jd.Left, leftMsg(pk, l)) || !proto.Equal(jd.Right, rightMsg(l.f1, e.R.cur[l.f1])) {
					return ctx.Violate("join-lookup-wrong", lk.index+"/old-content/"+pendOf(pk), "join ListIndex(%s = %s/%s) returned %s as %v, model: left %v right %v", lk.index, v[0], v[1], pk, r.Data, l, e.R.cur[l.f1])
				}
			}
			for _, pk := range wantPks {
				if !seen[pk] {
					return ctx.Violate("join-lookup-wrong", lk.index+"/row-not-returned/"+pendOf(pk), "join ListIndex(%s = %s/%s) did not return %s (addr %s, status %s); pending: %s", lk.index, v[0], v[1], pk, want[pk].addr, want[pk].status, pendOf(pk))
				}
			}
		}
	}
	return nil
}
