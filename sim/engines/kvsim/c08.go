package kvsim

import (
	"bytes"
	"fmt"
	"os"
	"path/filepath"
	"testing"

	"github.com/33cn/chain33/blockchain"
	"github.com/33cn/chain33/client"
	dbm "github.com/33cn/chain33/common/db"
	"github.com/33cn/chain33/queue"
	"github.com/33cn/chain33/types"

	"verifsim/simrt"
)

// C08 — LocalDB nested-transaction semantics. One generated history of
// Begin/Set/Set-empty/Get/List/PrefixCount/Commit/Rollback over a pre-populated
// base is applied to (1) a LocalDB used directly, (2) a LocalDB that lives
// inside the blockchain module and is driven through the EventLocal* messages
// on a real queue via the client API, (3) in a quarter of the runs a LocalDB
// over goleveldb. After every op the complete merged view (List + PrefixCount)
// is compared with the layered-map model; point reads happen where the history
// says so (they change LocalDB's read-through cache) and for all keys at the end.

func init() {
	simrt.Register(&simrt.Info{
		Property: "C08", Engine: &c08{},
		Real:       []string{"common/db LocalDB", "common/db mergedIterator + ListHelper", "common/db GoMemDB", "common/db GoLevelDB (real files, 1/4 of runs)", "blockchain local* message handlers + ProcRecvMsg dispatch", "queue", "client.QueueProtocol Local* calls"},
		Stub:       []string{"BlockChain object reduced to {client, blockStore.db} (hook constructor); no chain state behind it"},
		FaultKinds: []string{},
		Rule:       "one case = one generated history over a pre-populated base, applied to every target and the layered-map model with the full merged view compared after every op; distinct = distinct scenario digest; non-trivial = at least 6 ops and at least one commit or rollback of a transaction that contains writes",
		Nontrivial: func(sc *simrt.Scenario, r *simrt.Result) bool {
			return len(sc.Ops) >= 6 && r.Probes["commit_keeps_writes"]+r.Probes["rollback_discards_writes"] > 0
		},
	})
}

type c08 struct{}

func (c08) Name() string { return "kvsim" }

func (c08) Generate(prop string, r *simrt.RNG, tier string, run int) *simrt.Scenario {
	sc := &simrt.Scenario{Knobs: map[string]int64{}}
	if r.Chance(1, 4) {
		sc.Knobs["ldb"] = 1
	}
	pool := keyPool(r, r.Range(3, 8))
	uniq := 0
	nb := r.Range(2, 12)
	for i := 0; i < nb; i++ {
		v := uniqVal(&uniq)
		if r.Chance(1, 8) {
			v = []byte{} // a tombstone already in the base
		}
		sc.Ops = append(sc.Ops, simrt.Op{K: "base", S: []string{simrt.H(pickKey(r, pool)), simrt.H(v)}})
	}
	n := r.Range(4, 36)
	intx := false
	for i := 0; i < n; i++ {
		wb, wc, wr := 6, 1, 1
		if intx {
			wb, wc, wr = 1, 4, 4
		}
		switch r.Weighted(wb, wc, wr, 10, 4, 8, 1, 4, 2, 1, 3) {
		case 0:
			intx = true
			sc.Ops = append(sc.Ops, simrt.Op{K: "begin"})
		case 1:
			intx = false
			sc.Ops = append(sc.Ops, simrt.Op{K: "commit"})
		case 2:
			intx = false
			sc.Ops = append(sc.Ops, simrt.Op{K: "rollback"})
		case 3:
			sc.Ops = append(sc.Ops, simrt.Op{K: "set", S: []string{simrt.H(pickKey(r, pool)), simrt.H(uniqVal(&uniq))}})
		case 4:
			sc.Ops = append(sc.Ops, simrt.Op{K: "set", S: []string{simrt.H(pickKey(r, pool)), ""}})
		case 5:
			sc.Ops = append(sc.Ops, simrt.Op{K: "get", S: []string{simrt.H(pickKey(r, pool))}})
		case 6:
			sc.Ops = append(sc.Ops, simrt.Op{K: "getall"})
		case 7:
			sc.Ops = append(sc.Ops, simrt.Op{K: "list", S: []string{simrt.H(pickPrefix(r, pool))}, I: []int64{int64(r.Range(0, 4)), int64(r.Intn(2)), int64(r.Intn(3))}})
		case 8:
			sc.Ops = append(sc.Ops, simrt.Op{K: "count", S: []string{simrt.H(pickPrefix(r, pool))}})
		case 9:
			intx = false
			sc.Ops = append(sc.Ops, simrt.Op{K: "renew"})
		case 10:
			// read, then write the same key (the read leaves a copy in the overlay)
			k := simrt.H(pickKey(r, pool))
			v := simrt.H(uniqVal(&uniq))
			if r.Chance(1, 3) {
				v = ""
			}
			sc.Ops = append(sc.Ops, simrt.Op{K: "get", S: []string{k}}, simrt.Op{K: "set", S: []string{k, v}})
			if r.Chance(1, 2) {
				sc.Ops = append(sc.Ops, simrt.Op{K: "get", S: []string{k}})
			}
		}
	}
	return sc
}

// c08target is one way of reaching a LocalDB.
type c08target interface {
	name() string
	begin()
	commit()
	rollback()
	set(k, v []byte)
	get(k []byte) []byte // nil: not found
	list(prefix, key []byte, count, dir int32) [][]byte
	count(prefix []byte) (n int64, baseOnly bool)
	renew()
	close()
}

type c08direct struct {
	nm   string
	base dbm.DB
	l    dbm.KVDB
}

func (d *c08direct) name() string { return d.nm }
func (d *c08direct) begin()       { d.l.Begin() }
func (d *c08direct) commit()      { simrt.Must(d.l.Commit(), "commit") }
func (d *c08direct) rollback()    { d.l.Rollback() }
func (d *c08direct) set(k, v []byte) {
	simrt.Must(d.l.Set(k, v), "set")
}
func (d *c08direct) get(k []byte) []byte {
	v, err := d.l.Get(k)
	if err != nil || len(v) == 0 {
		return nil
	}
	return v
}
func (d *c08direct) list(prefix, key []byte, count, dir int32) [][]byte {
	vals, err := d.l.List(prefix, key, count, dir)
	if err != nil {
		return nil
	}
	return vals
}
func (d *c08direct) count(prefix []byte) (int64, bool) { return d.l.PrefixCount(prefix), false }
func (d *c08direct) renew()                            { d.l = dbm.NewLocalDB(d.base, false) }
func (d *c08direct) close()                            {}

// c08msg drives the LocalDB that the blockchain module creates for EventLocalNew.
type c08msg struct {
	q     queue.Queue
	chain *blockchain.BlockChain
	api   client.QueueProtocolAPI
	raw   queue.Client
	id    *types.Int64
}

func newC08msg(base dbm.DB) *c08msg {
	q := queue.New("channel")
	m := &c08msg{q: q}
	m.chain = blockchain.VerifKvsimLocalDBChain(q.Client(), base)
	m.chain.VerifKvsimServe()
	api, err := client.New(q.Client(), nil)
	simrt.Must(err, "client.New")
	m.api = api
	m.raw = q.Client()
	m.renew()
	return m
}
func (m *c08msg) name() string { return "msg" }
func (m *c08msg) begin()       { simrt.Must(m.api.LocalBegin(m.id), "LocalBegin") }
func (m *c08msg) commit()      { simrt.Must(m.api.LocalCommit(m.id), "LocalCommit") }
func (m *c08msg) rollback()    { simrt.Must(m.api.LocalRollback(m.id), "LocalRollback") }
func (m *c08msg) set(k, v []byte) {
	simrt.Must(m.api.LocalSet(&types.LocalDBSet{Txid: m.id.Data, KV: []*types.KeyValue{{Key: k, Value: v}}}), "LocalSet")
}
func (m *c08msg) get(k []byte) []byte {
	r, err := m.api.LocalGet(&types.LocalDBGet{Txid: m.id.Data, Keys: [][]byte{k}})
	simrt.Must(err, "LocalGet")
	if len(r.Values) != 1 {
		simrt.Failf("LocalGet returned %d values for one key", len(r.Values))
	}
	if len(r.Values[0]) == 0 {
		return nil
	}
	return r.Values[0]
}
func (m *c08msg) list(prefix, key []byte, count, dir int32) [][]byte {
	r, err := m.api.LocalList(&types.LocalDBList{Txid: m.id.Data, Prefix: prefix, Key: key, Count: count, Direction: dir})
	if err != nil {
		if err == types.ErrNotFound {
			return nil
		}
		simrt.Must(err, "LocalList")
	}
	return r.Values
}

// count: EventLocalPrefixCount carries no transaction id; the handler counts the
// block store's database, i.e. the base.
func (m *c08msg) count(prefix []byte) (int64, bool) {
	msg := m.raw.NewMessage("blockchain", types.EventLocalPrefixCount, &types.ReqKey{Key: prefix})
	simrt.Must(m.raw.Send(msg, true), "send prefixcount")
	resp, err := m.raw.Wait(msg)
	simrt.Must(err, "wait prefixcount")
	return resp.GetData().(*types.Int64).Data, true
}
func (m *c08msg) renew() {
	if m.id != nil {
		simrt.Must(m.api.LocalClose(m.id), "LocalClose")
	}
	id, err := m.api.LocalNew(false)
	simrt.Must(err, "LocalNew")
	m.id = id
}
func (m *c08msg) close() {
	if m.id != nil {
		_ = m.api.LocalClose(m.id)
	}
	m.chain.VerifKvsimStop()
	m.q.Close()
}

// baseGet / baseList: the Txid == 0 forms of the handlers read the base directly.
func (m *c08msg) baseGet(k []byte) []byte {
	r, err := m.api.LocalGet(&types.LocalDBGet{Keys: [][]byte{k}})
	simrt.Must(err, "LocalGet txid 0")
	if len(r.Values) != 1 || len(r.Values[0]) == 0 {
		return nil
	}
	return r.Values[0]
}

func (c08) Execute(t *testing.T, ctx *simrt.Ctx) *simrt.Violation {
	sc := ctx.Sc
	model := newLayered()
	memA := dbm.NewDB("kv", "memdb", "", 16)
	memB := dbm.NewDB("kv", "memdb", "", 16)
	bases := []dbm.DB{memA, memB}
	var ldb dbm.DB
	if sc.Knob("ldb", 0) == 1 {
		dir, err := os.MkdirTemp(scratchDir(), "c08-")
		simrt.Must(err, "mkdir")
		defer os.RemoveAll(dir)
		simrt.Must(os.MkdirAll(filepath.Join(dir, "ldb"), 0o755), "mkdir")
		ldb = dbm.NewDB("kv", "goleveldb", filepath.Join(dir, "ldb"), 16)
		defer ldb.Close()
		bases = append(bases, ldb)
	}
	var targets []c08target
	var msg *c08msg
	defer func() {
		for _, tg := range targets {
			tg.close()
		}
	}()
	start := func() {
		if targets != nil {
			return
		}
		targets = append(targets, &c08direct{nm: "direct-memdb", base: memA, l: dbm.NewLocalDB(memA, false)})
		msg = newC08msg(memB)
		targets = append(targets, msg)
		if ldb != nil {
			targets = append(targets, &c08direct{nm: "direct-goleveldb", base: ldb, l: dbm.NewLocalDB(ldb, false)})
		}
	}
	lastGet := "" // key of the immediately preceding get op
	written := map[string]bool{}
	txWrites := 0
	state := func() string {
		if model.intx {
			return "intx"
		}
		return "notx"
	}
	checkGet := func(tg c08target, k []byte) *simrt.Violation {
		want, src := model.lookup(string(k))
		got := tg.get(k)
		ctx.Logf("get %s %x = %x", tg.name(), k, got)
		if !bytes.Equal(got, want) {
			return ctx.Violate("get-mismatch", tg.name()+"/"+state()+"/"+src, "%s Get(%x) = %q; model: %q from %s (open tx: %v)", tg.name(), k, got, want, src, model.intx)
		}
		return nil
	}
	dummy := &c07target{layered: true}
	checkView := func(tg c08target) *simrt.Violation {
		want := model.live(nil, false)
		raw := tg.list(nil, nil, 0, dbm.ListASC|dbm.ListWithKey)
		got, v := c08Decode(ctx, tg, raw, 1, nil)
		if v != nil {
			return v
		}
		if kind, detail := c07Compare(model, dummy, nil, 1, got, want); kind != "" {
			return ctx.Violate("list-mismatch", tg.name()+"/"+state()+"/full-view/"+kind+c08Src(model, got, want), "%s full listing disagrees with point-read model (open tx: %v): %s\n got  %s\n want %s", tg.name(), model.intx, detail, fmtPairs(got), fmtPairs(want))
		}
		n, baseOnly := tg.count(nil)
		wantN := int64(len(want))
		if baseOnly {
			wantN = int64(len(model.live(nil, true)))
		}
		if n != wantN {
			return ctx.Violate("count-mismatch", tg.name()+"/"+state(), "%s PrefixCount(all) = %d, model has %d live entries (open tx: %v, base only: %v)", tg.name(), n, wantN, model.intx, baseOnly)
		}
		ctx.Logf("view %s %s", tg.name(), simrt.DigestOf(fmtPairs(got)))
		return nil
	}
	for i := range sc.Ops {
		op := &sc.Ops[i]
		ctx.CurOp = i
		ctx.Step()
		if op.K == "base" {
			if targets != nil {
				ctx.Probe("base_write_after_start_skipped")
				continue
			}
			k := op.B(0)
			if len(k) == 0 {
				continue
			}
			for _, b := range bases {
				simrt.Must(b.Set(k, op.B(1)), "base set")
			}
			model.base[string(k)] = append([]byte{}, op.B(1)...)
			continue
		}
		start()
		prevGet := lastGet
		lastGet = ""
		switch op.K {
		case "begin":
			if model.intx {
				ctx.Probe("begin_while_open_skipped") // call order the interface leaves open
				continue
			}
			model.begin()
			txWrites = 0
			for _, tg := range targets {
				tg.begin()
			}
		case "commit":
			if !model.intx {
				ctx.Probe("commit_without_tx")
			} else if txWrites > 0 {
				ctx.Probe("commit_keeps_writes")
			}
			model.commit()
			txWrites = 0
			for _, tg := range targets {
				tg.commit()
			}
		case "rollback":
			if !model.intx {
				ctx.Probe("rollback_without_tx")
			} else if txWrites > 0 {
				ctx.Probe("rollback_discards_writes")
			}
			model.rollback()
			txWrites = 0
			for _, tg := range targets {
				tg.rollback()
			}
		case "set":
			k, v := op.B(0), op.B(1)
			if len(k) == 0 {
				continue
			}
			_, src := model.lookup(string(k))
			if prevGet == string(k) {
				ctx.Probe("read_then_write_same_key")
			}
			if len(v) == 0 && (src == "base" || src == "overlay") {
				ctx.Probe("tombstone_hides_" + src)
			}
			if model.intx {
				txWrites++
				if _, ok := model.over[string(k)]; ok {
					ctx.Probe("tx_write_over_overlay_entry")
				}
			} else {
				ctx.Probe("write_outside_tx")
			}
			written[string(k)] = true
			model.set(k, v)
			for _, tg := range targets {
				tg.set(k, v)
			}
		case "get":
			k := op.B(0)
			if written[string(k)] {
				ctx.Probe("read_after_write_same_key")
			}
			lastGet = string(k)
			for _, tg := range targets {
				if v := checkGet(tg, k); v != nil {
					return v
				}
			}
		case "getall":
			for _, k := range model.allKeys(false) {
				for _, tg := range targets {
					if v := checkGet(tg, []byte(k)); v != nil {
						return v
					}
				}
				// the Txid == 0 form of the handler reads the base
				want := model.base[k]
				if got := msg.baseGet([]byte(k)); !bytes.Equal(got, want) && !(len(got) == 0 && len(want) == 0) {
					return ctx.Violate("get-mismatch", "msg/txid0", "LocalGet(txid 0, %x) = %q, base holds %q", k, got, want)
				}
			}
		case "list":
			prefix := op.B(0)
			count, dirI, enc := int32(op.Int(0)), op.Int(1)&1, op.Int(2)%3
			flags := int32(dirI)
			if enc == 1 {
				flags |= dbm.ListWithKey
			} else if enc == 2 {
				flags |= dbm.ListKeyOnly
			}
			want := model.live(prefix, false)
			if dirI == 0 {
				want = reversePairs(want)
			}
			owner := map[string]string{}
			for _, p := range want {
				owner[string(p.v)] = p.k
			}
			for _, tg := range targets {
				// first page, then one continuation after the last returned key
				var got []kvPair
				var last []byte
				for page := 0; page < 2; page++ {
					raw := tg.list(prefix, last, count, flags)
					ps, v := c08Decode(ctx, tg, raw, enc, owner)
					if v != nil {
						return v
					}
					if count > 0 && len(ps) > int(count) {
						return ctx.Violate("list-mismatch", tg.name()+"/"+state()+"/page-overfull", "%s List(%x, %x, %d, %d) returned %d entries", tg.name(), prefix, last, count, flags, len(ps))
					}
					got = append(got, ps...)
					if len(ps) == 0 || count == 0 {
						break
					}
					last = []byte(ps[len(ps)-1].k)
				}
				w := want
				if count > 0 && len(w) > 2*int(count) {
					w = w[:2*int(count)]
				}
				if kind, detail := c07Compare(model, dummy, prefix, enc, got, w); kind != "" {
					return ctx.Violate("list-mismatch", tg.name()+"/"+state()+"/"+c07DirName[dirI]+"/"+c07EncName[enc]+"/"+kind+c08Src(model, got, w), "%s List(prefix=%x, count=%d, flags=%d) + one continuation (open tx: %v): %s\n got  %s\n want %s", tg.name(), prefix, count, flags, model.intx, detail, fmtPairs(got), fmtPairs(w))
				}
				ctx.Logf("list %s %x %d %d %s", tg.name(), prefix, count, flags, simrt.DigestOf(fmtPairs(got)))
			}
		case "count":
			prefix := op.B(0)
			for _, tg := range targets {
				n, baseOnly := tg.count(prefix)
				want := int64(len(model.live(prefix, baseOnly)))
				if n != want {
					return ctx.Violate("count-mismatch", tg.name()+"/"+state(), "%s PrefixCount(%x) = %d, model has %d live entries under the prefix (open tx: %v, base only: %v)", tg.name(), prefix, n, want, model.intx, baseOnly)
				}
			}
		case "renew":
			ctx.Probe("renew")
			model.renew()
			txWrites = 0
			written = map[string]bool{}
			for _, tg := range targets {
				tg.renew()
			}
		default:
			continue
		}
		for _, tg := range targets {
			if v := checkView(tg); v != nil {
				return v
			}
		}
		ctx.State(model.digest())
	}
	// final: every key by point read
	ctx.CurOp = len(sc.Ops)
	start()
	for _, k := range model.allKeys(false) {
		for _, tg := range targets {
			if v := checkGet(tg, []byte(k)); v != nil {
				return v
			}
		}
	}
	for _, tg := range targets {
		if v := checkView(tg); v != nil {
			return v
		}
	}
	return nil
}

// c08Src names the model layer of the first entry on which got and want differ.
func c08Src(model *layered, got, want []kvPair) string {
	k := ""
	for i := 0; i < len(got) || i < len(want); i++ {
		switch {
		case i >= len(got):
			k = want[i].k
		case i >= len(want):
			k = got[i].k
		case got[i].k != want[i].k || !bytes.Equal(got[i].v, want[i].v):
			if got[i].k < want[i].k {
				k = got[i].k
			} else {
				k = want[i].k
			}
		default:
			continue
		}
		break
	}
	if k == "" {
		return ""
	}
	_, src := model.lookup(k)
	return "/" + src
}

func c08Decode(ctx *simrt.Ctx, tg c08target, raw [][]byte, enc int64, owner map[string]string) ([]kvPair, *simrt.Violation) {
	var out []kvPair
	for _, b := range raw {
		switch enc {
		case 0:
			k, ok := owner[string(b)]
			if !ok {
				return nil, ctx.Violate("list-mismatch", tg.name()+"/unknown-value", "%s List returned value %q which no live entry under the prefix holds", tg.name(), b)
			}
			out = append(out, kvPair{k, b})
		case 1:
			var kv types.KeyValue
			if err := types.Decode(b, &kv); err != nil {
				return nil, ctx.Violate("list-mismatch", tg.name()+"/undecodable", "%s ListWithKey entry %x does not decode: %v", tg.name(), b, err)
			}
			out = append(out, kvPair{string(kv.Key), kv.Value})
		case 2:
			out = append(out, kvPair{k: string(b)})
		}
	}
	return out, nil
}

var _ = fmt.Sprintf
