package kvsim

import (
	"bytes"
	"fmt"
	"sort"

	"verifsim/simrt"
)

// layered is the reference model shared by C07 and C08: a base map, a committed
// overlay and an optional open transaction. Its rules are the ones the property
// statements give: a read returns the newest write visible from the open
// transaction, then the committed overlay, then the base; an empty value hides
// older values (the entry is "deleted"); rollback discards exactly the open
// transaction's writes, commit keeps them.
type layered struct {
	base map[string][]byte
	over map[string][]byte
	tx   map[string][]byte
	intx bool
}

func newLayered() *layered {
	return &layered{base: map[string][]byte{}, over: map[string][]byte{}, tx: map[string][]byte{}}
}

func (m *layered) set(k, v []byte) {
	c := append([]byte{}, v...)
	if m.intx {
		m.tx[string(k)] = c
	} else {
		m.over[string(k)] = c
	}
}

func (m *layered) begin()    { m.intx = true; m.tx = map[string][]byte{} }
func (m *layered) rollback() { m.intx = false; m.tx = map[string][]byte{} }
func (m *layered) commit() {
	for k, v := range m.tx {
		m.over[k] = v
	}
	m.intx = false
	m.tx = map[string][]byte{}
}
func (m *layered) renew() {
	m.over = map[string][]byte{}
	m.tx = map[string][]byte{}
	m.intx = false
}

// lookup returns the visible value and the layer it came from.
func (m *layered) lookup(k string) (v []byte, src string) {
	if m.intx {
		if v, ok := m.tx[k]; ok {
			if len(v) == 0 {
				return nil, "tx-tombstone"
			}
			return v, "tx"
		}
	}
	if v, ok := m.over[k]; ok {
		if len(v) == 0 {
			return nil, "overlay-tombstone"
		}
		return v, "overlay"
	}
	if v, ok := m.base[k]; ok {
		if len(v) == 0 {
			return nil, "base-tombstone"
		}
		return v, "base"
	}
	return nil, "absent"
}

type kvPair struct {
	k string
	v []byte
}

// allKeys lists every key that occurs in any layer, ascending.
func (m *layered) allKeys(baseOnly bool) []string {
	seen := map[string]struct{}{}
	for k := range m.base {
		seen[k] = struct{}{}
	}
	if !baseOnly {
		for k := range m.over {
			seen[k] = struct{}{}
		}
		if m.intx {
			for k := range m.tx {
				seen[k] = struct{}{}
			}
		}
	}
	ks := make([]string, 0, len(seen))
	for k := range seen {
		ks = append(ks, k)
	}
	sort.Strings(ks)
	return ks
}

// live lists the live (non-empty value) entries under prefix, ascending by key.
// baseOnly restricts the view to the base map (a plain database).
func (m *layered) live(prefix []byte, baseOnly bool) []kvPair {
	var out []kvPair
	for _, k := range m.allKeys(baseOnly) {
		if !bytes.HasPrefix([]byte(k), prefix) {
			continue
		}
		var v []byte
		if baseOnly {
			v = m.base[k]
		} else {
			v, _ = m.lookup(k)
		}
		if len(v) == 0 {
			continue
		}
		out = append(out, kvPair{k, v})
	}
	return out
}

func (m *layered) digest() string {
	var b bytes.Buffer
	for _, k := range m.allKeys(false) {
		v, src := m.lookup(k)
		fmt.Fprintf(&b, "%x=%x/%s;", k, v, src)
	}
	fmt.Fprintf(&b, "intx=%v", m.intx)
	return simrt.DigestOf(b.String())
}

func reversePairs(p []kvPair) []kvPair {
	out := make([]kvPair, len(p))
	for i := range p {
		out[len(p)-1-i] = p[i]
	}
	return out
}

// keyPool generates a pool of keys with shared prefixes and 0xff bytes.
func keyPool(r *simrt.RNG, n int) [][]byte {
	var pool [][]byte
	for len(pool) < n {
		var k []byte
		switch {
		case len(pool) > 0 && r.Chance(2, 5):
			// extend an existing key by one byte: shared prefix / key == prefix of another
			b := pool[r.Intn(len(pool))]
			k = append(append([]byte{}, b...), alphabet[r.Intn(len(alphabet))])
		case r.Chance(1, 5):
			k = append(genKey(r, false, 0), 0xff)
		default:
			k = genKey(r, false, 1)
		}
		if len(k) > 5 {
			k = k[:5]
		}
		pool = append(pool, k)
	}
	return pool
}

func pickKey(r *simrt.RNG, pool [][]byte) []byte {
	if len(pool) > 0 && r.Chance(5, 6) {
		return pool[r.Intn(len(pool))]
	}
	return genKey(r, false, 1)
}

// pickPrefix chooses a listing prefix: empty, a truncated pool key (often ending
// in 0xff) or a whole key.
func pickPrefix(r *simrt.RNG, pool [][]byte) []byte {
	if r.Chance(1, 6) || len(pool) == 0 {
		return []byte{}
	}
	var ff [][]byte
	for _, k := range pool {
		if i := bytes.IndexByte(k, 0xff); i >= 0 {
			ff = append(ff, k[:i+1])
		}
	}
	if len(ff) > 0 && r.Chance(1, 3) {
		return ff[r.Intn(len(ff))]
	}
	k := pool[r.Intn(len(pool))]
	n := r.Range(1, 2)
	if r.Chance(1, 6) {
		n = len(k)
	}
	if n > len(k) {
		n = len(k)
	}
	return append([]byte{}, k[:n]...)
}

func uniqVal(uniq *int) []byte {
	*uniq++
	return []byte(fmt.Sprintf("v%d", *uniq))
}
