package chainsim

import (
	"bytes"
	"fmt"
	"strings"

	"verifsim/simdb"
	"verifsim/simnode"
)

// byHashFamilies are the key families of the block store that are keyed by block
// hash or sequence number: they legitimately keep side-branch blocks and the
// add/del history, so they are not local indexes and are not compared. (The
// per-title table "CHAIN-paratx" is keyed by height, written for best-chain
// blocks only and deleted on disconnect: it IS compared.)
var byHashFamilies = []string{
	"Body:", "Header:", "Hash:", "TD:", "Seq:", "HashToSeq:", "LastSequence",
	"CHAIN-body", "CHAIN-header", "CHAIN-receipt",
	// temporary storage of the fast-download path (blocks waiting to be executed)
	"TB:", "LTB:",
}

func family(k []byte) string {
	s := string(k)
	// cut at the first ':' (address / hash / height follow it)
	if i := strings.Index(s, ":"); i > 0 && i < 40 {
		return s[:i+1]
	}
	if strings.HasPrefix(s, "LODB-") || strings.HasPrefix(s, ".-mvcc-.") {
		parts := strings.SplitN(s, "-", 4)
		if len(parts) >= 3 {
			return strings.Join(parts[:3], "-")
		}
	}
	if len(s) > 16 {
		return s[:16]
	}
	return s
}

func localKeys(n *simnode.Node) map[string][]byte {
	out := map[string][]byte{}
	for _, kv := range n.Disk.Dump("blockchain") {
		skip := false
		for _, f := range byHashFamilies {
			if bytes.HasPrefix(kv.K, []byte(f)) {
				skip = true
				break
			}
		}
		// In the local database an empty value IS the delete marker (list and
		// count helpers skip it, and a zero counter encodes to zero bytes), so a
		// key holding an empty value answers every query like an absent key.
		if !skip && len(kv.V) > 0 {
			out[string(kv.K)] = kv.V
		}
	}
	return out
}

// diffLocalDump compares every key outside the by-hash block storage.
func diffLocalDump(a, b *simnode.Node) (fam, detail string) {
	ka, kb := localKeys(a), localKeys(b)
	return diffKeyMaps(ka, kb)
}

func diffKeyMaps(ka, kb map[string][]byte) (fam, detail string) {
	var firstK string
	n := 0
	for k, v := range ka {
		if w, ok := kb[k]; !ok || !bytes.Equal(v, w) {
			n++
			if firstK == "" || k < firstK {
				firstK = k
			}
		}
	}
	for k := range kb {
		if _, ok := ka[k]; !ok {
			n++
			if firstK == "" || k < firstK {
				firstK = k
			}
		}
	}
	if n == 0 {
		return "", ""
	}
	va, oka := ka[firstK]
	vb, okb := kb[firstK]
	return family([]byte(firstK)), fmt.Sprintf("%d keys differ; first: %q = %x (present %v) vs %x (present %v)", n, firstK, va, oka, vb, okb)
}

var _ = simdb.Backend
