package chainsim

import (
	"fmt"
	"testing"
	"time"

	"github.com/33cn/chain33/types"

	"verifsim/simnode"
	"verifsim/simrt"
)

func init() {
	simrt.Register(&simrt.Info{Property: "C14", Engine: &undoEngine{}, Nontrivial: func(sc *simrt.Scenario, r *simrt.Result) bool {
		return r.Probes["apply_undo"] > 0 && r.Probes["reorg_disconnect"] > 0
	}})
}

// undoEngine is C14: (a) apply a block's local-index updates and then its
// removal directly at the executor seam and compare full database dumps;
// (b) connect the block for real, reorganise it away and compare with a twin
// node that never saw it.
type undoEngine struct{}

func (undoEngine) Name() string { return "chainsim" }

// richTxs generates the transaction mix C14 names: self-transfers, repeated
// addresses, failing transactions, groups, executor deposits/withdrawals.
func richTxs(r *simrt.RNG, nonce *int64) []simrt.Op {
	n := r.Range(1, 5)
	var ops []simrt.Op
	one := func() simrt.Op {
		*nonce++
		from, to := r.Intn(NAccounts), r.Intn(NAccounts)
		amt := int64(r.Range(1, 5000))
		switch r.Weighted(6, 2, 2, 2, 2, 1) {
		case 0:
			return simrt.Op{K: "xfer", I: []int64{int64(from), int64(to), amt, *nonce}}
		case 1: // self transfer (fails in execution, fee still charged)
			return simrt.Op{K: "xfer", I: []int64{int64(from), int64(from), amt, *nonce}}
		case 2: // more than the balance: fails
			return simrt.Op{K: "xfer", I: []int64{int64(from), int64(to), 5000000000000, *nonce}}
		case 3:
			return simrt.Op{K: "toexec", I: []int64{int64(from), 0, amt, *nonce}}
		case 4:
			return simrt.Op{K: "withdraw", I: []int64{int64(from), 0, amt, *nonce}}
		default:
			return simrt.Op{K: "none", I: []int64{int64(from), *nonce}}
		}
	}
	for i := 0; i < n; i++ {
		if r.Chance(1, 5) {
			g := simrt.Op{K: "group"}
			for j, m := 0, r.Range(2, 4); j < m; j++ {
				g.Sub = append(g.Sub, one())
			}
			ops = append(ops, g)
		} else {
			ops = append(ops, one())
		}
	}
	return ops
}

func (undoEngine) Generate(prop string, r *simrt.RNG, tier string, run int) *simrt.Scenario {
	sc := &simrt.Scenario{Knobs: map[string]int64{}}
	if r.Chance(1, 2) {
		sc.Knobs["recordseq"] = 1
	}
	var nonce int64 = 20000
	trunk := r.Range(12, 14)
	sc.Ops = append(sc.Ops, fundBlock(0))
	next := 1
	for ; next < trunk; next++ {
		sc.Ops = append(sc.Ops, simrt.Op{K: "blk", I: []int64{int64(next), int64(next - 1), 0, int64(r.Range(0, 3))}, Sub: richTxs(r, &nonce)})
	}
	tip := next - 1
	// branch B (1..3 blocks, least work) and a heavier sibling branch S
	nb := r.Range(1, 3)
	var bids, sids []int
	p := tip
	for i := 0; i < nb; i++ {
		sc.Ops = append(sc.Ops, simrt.Op{K: "blk", I: []int64{int64(next), int64(p), 0, int64(r.Range(0, 3))}, Sub: richTxs(r, &nonce)})
		bids = append(bids, next)
		p = next
		next++
	}
	p = tip
	for i, ns := 0, r.Range(1, 2); i < ns; i++ {
		sc.Ops = append(sc.Ops, simrt.Op{K: "blk", I: []int64{int64(next), int64(p), 3, int64(r.Range(0, 3))}, Sub: richTxs(r, &nonce)})
		sids = append(sids, next)
		p = next
		next++
	}
	for id := 0; id <= tip; id++ {
		sc.Ops = append(sc.Ops, simrt.Op{K: "dlv", I: []int64{int64(id), int64(r.Intn(2)), 0}})
	}
	for _, id := range bids {
		sc.Ops = append(sc.Ops, simrt.Op{K: "undo", I: []int64{int64(id)}})
		sc.Ops = append(sc.Ops, simrt.Op{K: "dlv", I: []int64{int64(id), int64(r.Intn(2)), 1}})
	}
	for _, id := range sids {
		sc.Ops = append(sc.Ops, simrt.Op{K: "dlv", I: []int64{int64(id), int64(r.Intn(2)), 2}})
	}
	return sc
}

func (e undoEngine) Execute(t *testing.T, ctx *simrt.Ctx) *simrt.Violation {
	var viol *simrt.Violation
	simrt.InBubble(t, func() { viol = e.run(ctx) })
	return viol
}

// applyLocal writes a LocalDBSet the way the block store does.
func applyLocal(n *simnode.Node, set *types.LocalDBSet) {
	db := n.Chain.GetDB()
	b := db.NewBatch(false)
	for _, kv := range set.KV {
		if kv.GetValue() == nil {
			b.Delete(kv.Key)
		} else {
			b.Set(kv.Key, kv.Value)
		}
	}
	simrt.Must(b.Write(), "apply local kvs")
}

func execLocal(n *simnode.Node, ty int64, d *types.BlockDetail) (*types.LocalDBSet, error) {
	msg := n.Client.NewMessage("execs", ty, types.Clone(d).(*types.BlockDetail))
	if err := n.Client.Send(msg, true); err != nil {
		return nil, err
	}
	resp, err := n.Client.Wait(msg)
	if err != nil {
		return nil, err
	}
	switch v := resp.GetData().(type) {
	case *types.LocalDBSet:
		return v, nil
	case error:
		return nil, v
	}
	return nil, fmt.Errorf("unexpected reply %T", resp.GetData())
}

func (undoEngine) run(ctx *simrt.Ctx) *simrt.Violation {
	sc := ctx.Sc
	uid := fmt.Sprintf("%s-%d-%d", sc.Property, sc.Run, ctx.Seq())
	recseq := sc.Knob("recordseq", 0) == 1
	w := NewWorld(ctx, "fac-"+uid, simnode.Opts{})
	defer w.Fac.Close()
	defer w.Fac.Disk.Remove()
	sut := simnode.New(simnode.Opts{ID: "sut-" + uid, StubMempool: true, EditToml: seqToml(recseq)})
	defer sut.Close()
	defer sut.Disk.Remove()
	simrt.Settle()
	time.Sleep(2 * time.Second)
	delivered := map[int]bool{}
	var maxH int64
	for i := range sc.Ops {
		op := &sc.Ops[i]
		ctx.CurOp = i
		ctx.Step()
		switch op.K {
		case "blk":
			if b := w.BuildOp(op); b != nil && b.Height > maxH {
				maxH = b.Height
			}
		case "dlv":
			b := w.Blocks[int(op.Int(0))]
			if b == nil {
				continue
			}
			before := lastHash(sut)
			ok, msg := Deliver(sut, b.Block, int(op.Int(1)), "peerA")
			ctx.Logf("dlv id=%d h=%d ok=%v %s -> height %d", b.ID, b.Height, ok, msg, sut.Chain.GetBlockHeight())
			delivered[b.ID] = true
			if h := sut.Chain.GetBlockHeight(); h >= 0 && !isAncestorHash(sut, before, h-1) && string(lastHash(sut)) != string(before) && op.Int(2) == 2 {
				ctx.Probe("reorg_disconnect")
			}
			if v := ChainInvariant(sut); v != nil {
				return v
			}
		case "undo":
			b := w.Blocks[int(op.Int(0))]
			if b == nil || string(lastHash(sut)) != string(b.Block.ParentHash) {
				continue // only meaningful on top of the current tip
			}
			before := localKeys(sut)
			add, err := execLocal(sut, types.EventAddBlock, b.Detail)
			if err != nil {
				return ctx.Violate("exec-local-failed", "add", "EventAddBlock for block id %d: %v", b.ID, err)
			}
			applyLocal(sut, add)
			mid := localKeys(sut)
			del, err := execLocal(sut, types.EventDelBlock, b.Detail)
			if err != nil {
				return ctx.Violate("exec-local-failed", "del", "EventDelBlock for block id %d: %v", b.ID, err)
			}
			applyLocal(sut, del)
			after := localKeys(sut)
			ctx.Probe("apply_undo")
			if f, _ := diffKeyMaps(before, mid); f != "" {
				ctx.Probe("apply_changed_something")
			}
			if fam, detail := diffKeyMaps(before, after); fam != "" {
				return ctx.Violate("local-index-not-undone", "direct/"+fam, "applying then removing the local-index updates of block id %d (height %d) did not restore the database: %s", b.ID, b.Height, detail)
			}
		}
	}
	ctx.CurOp = len(sc.Ops)
	time.Sleep(3 * time.Second)
	simrt.Settle()
	best, unique := w.Heaviest(delivered)
	if best == nil || !unique || best.Height < 12 {
		ctx.Probe("no_claim")
		return nil
	}
	if string(lastHash(sut)) != string(best.Hash) {
		return nil // convergence itself is C25's business
	}
	return twinCompare(ctx, w, sut, best, delivered, recseq, maxH, uid, true)
}
