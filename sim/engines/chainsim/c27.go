package chainsim

import (
	"bytes"
	"fmt"
	"strings"
	"testing"
	"time"

	"github.com/33cn/chain33/common/merkle"
	"github.com/33cn/chain33/types"

	"verifsim/simnode"
	"verifsim/simrt"
)

func init() {
	simrt.Register(&simrt.Info{Property: "C27", Engine: &tamperEngine{}, Nontrivial: func(sc *simrt.Scenario, r *simrt.Result) bool {
		return r.Faults["tampered_block"] > 0
	}})
}

// tamperEngine is C27: blocks can be delivered in a corrupted form (the
// simulator owns message corruption), before, after or instead of the genuine
// block.
type tamperEngine struct{}

func (tamperEngine) Name() string { return "chainsim" }

// Corruption kinds. The first group changes the header (hence the hash); the
// second keeps the header of the valid block and changes only the body.
const (
	mutTxHash = iota + 1
	mutStateHash
	mutHeight
	mutParent
	// same header, different body
	mutDropTx
	mutAddTx
	mutSwapTx
	mutDupTail
	mutAlterTx
	mutAlterSig
	mutBlockSig // the block-level signature (not covered by the block hash) does not verify
	// invalid only because of a duplicate, otherwise consistently executed (own
	// header, own hash): a transaction of the block twice, or one of an ancestor
	mutDupFirstConsistent
	mutDupLastConsistent
	mutReplayAncestorConsistent
	mutBadSigConsistent // a transaction signature does not verify; the header commits to exactly these transactions
	mutLast
)

var mutNames = map[int]string{mutTxHash: "txhash", mutStateHash: "statehash", mutHeight: "height", mutParent: "parent",
	mutDupFirstConsistent: "consistent-dup-first", mutDupLastConsistent: "consistent-dup-last", mutReplayAncestorConsistent: "consistent-replay-ancestor",
	mutBlockSig: "block-sig", mutBadSigConsistent: "consistent-bad-tx-sig",
	mutDropTx: "drop-tx", mutAddTx: "add-tx", mutSwapTx: "swap-tx", mutDupTail: "dup-tail", mutAlterTx: "alter-tx", mutAlterSig: "alter-sig"}

// tamper returns a corrupted copy of blk, or nil when the corruption does not
// apply to this block (e.g. swapping needs two transactions).
func tamper(w *World, blk *types.Block, kind int, salt int64) *types.Block {
	c := types.Clone(blk).(*types.Block)
	switch kind {
	case mutTxHash:
		c.TxHash = append([]byte(nil), c.TxHash...)
		c.TxHash[int(salt)%len(c.TxHash)] ^= 0x40
	case mutStateHash:
		c.StateHash = append([]byte(nil), c.StateHash...)
		c.StateHash[int(salt)%len(c.StateHash)] ^= 0x40
	case mutHeight:
		c.Height += 1 + salt%2
	case mutParent:
		c.ParentHash = append([]byte(nil), c.ParentHash...)
		c.ParentHash[int(salt)%len(c.ParentHash)] ^= 0x40
	case mutDropTx:
		if len(c.Txs) < 2 {
			return nil
		}
		i := int(salt) % len(c.Txs)
		c.Txs = append(c.Txs[:i:i], c.Txs[i+1:]...)
	case mutAddTx:
		op := simrt.Op{K: "xfer", I: []int64{salt % NAccounts, (salt + 1) % NAccounts, 7, 900000 + salt}}
		c.Txs = append(c.Txs, w.MakeTx(&op))
	case mutSwapTx:
		if len(c.Txs) < 2 {
			return nil
		}
		i := int(salt) % (len(c.Txs) - 1)
		if bytes.Equal(c.Txs[i].Hash(), c.Txs[i+1].Hash()) {
			return nil
		}
		c.Txs[i], c.Txs[i+1] = c.Txs[i+1], c.Txs[i]
	case mutDupTail:
		// the duplicated-tail pattern only keeps the root for odd counts
		if len(c.Txs)%2 == 0 {
			return nil
		}
		c.Txs = append(c.Txs, types.Clone(c.Txs[len(c.Txs)-1]).(*types.Transaction))
	case mutAlterTx:
		i := int(salt) % len(c.Txs)
		c.Txs[i].Nonce += 1000000007
	case mutAlterSig:
		i := int(salt) % len(c.Txs)
		if c.Txs[i].Signature == nil || len(c.Txs[i].Signature.Signature) == 0 {
			return nil
		}
		s := append([]byte(nil), c.Txs[i].Signature.Signature...)
		s[len(s)-1-int(salt)%8] ^= 0x01
		c.Txs[i].Signature.Signature = s
	case mutBlockSig:
		k := simnode.AccountKey(int(salt) % NAccounts)
		sig := k.Priv.Sign([]byte(fmt.Sprintf("not this block %d", salt)))
		c.Signature = &types.Signature{Ty: types.SECP256K1, Pubkey: k.Priv.PubKey().Bytes(), Signature: sig.Bytes()}
	default:
		return nil
	}
	return c
}

func (tamperEngine) Generate(prop string, r *simrt.RNG, tier string, run int) *simrt.Scenario {
	sc := &simrt.Scenario{Knobs: map[string]int64{}}
	trunk := r.Range(12, 14)
	ids := genTree(r, sc, trunk, r.Range(1, 3), 3)
	order := append([]int(nil), ids[:trunk]...)
	rest := ids[trunk:]
	if r.Chance(1, 3) {
		order = nil
		rest = ids
	}
	for _, i := range r.Perm(len(rest)) {
		order = append(order, rest[i])
	}
	// Three delivery shapes hit genuine defects recorded in known_findings.json
	// (see DESIGN.md): K1 a copy with the valid header but another body arriving
	// before the genuine block; K2 a header-corrupted copy arriving as an orphan;
	// K3 a header-corrupted copy that claims more work than the tip without
	// extending it (failed reorganisation). In "strict" runs (knob open=0) the
	// executor skips exactly those deliveries, so every oracle stays active and any
	// violation is new; "open" runs deliver everything and attribute violations to
	// the shape that was present.
	if r.Chance(2, 5) {
		sc.Knobs["open"] = 1
	}
	// the node's pool already holds (hence has verified) the transactions of the valid blocks
	if r.Chance(1, 2) {
		sc.Knobs["poolknows"] = 1
	}
	var late []simrt.Op
	for _, id := range order {
		genuine := simrt.Op{K: "dlv", I: []int64{int64(id), int64(r.Intn(3)), int64(r.Intn(3)), 0, 0}}
		if r.Chance(2, 5) {
			kind := r.Range(1, mutLast-1)
			bad := simrt.Op{K: "dlv", I: []int64{int64(id), int64(r.Intn(3)), int64(r.Intn(3)), int64(kind), int64(r.Intn(1000))}}
			switch r.Intn(4) {
			case 0, 1: // corrupted copy first, genuine right after
				sc.Ops = append(sc.Ops, bad, genuine)
			case 2: // genuine first
				sc.Ops = append(sc.Ops, genuine, bad)
			case 3: // genuine arrives only at the very end
				sc.Ops = append(sc.Ops, bad)
				late = append(late, genuine)
			}
		} else {
			sc.Ops = append(sc.Ops, genuine)
		}
	}
	sc.Ops = append(sc.Ops, late...)
	return sc
}

func (e tamperEngine) Execute(t *testing.T, ctx *simrt.Ctx) *simrt.Violation {
	var viol *simrt.Violation
	simrt.InBubble(t, func() { viol = e.run(ctx) })
	return viol
}

// snapshot is the cheap "did anything observable change" digest used around
// the delivery of an invalid block.
func snapshot(n *simnode.Node) (string, map[string][]byte) {
	h, _ := n.API.GetLastHeader()
	return fmt.Sprintf("%d/%x/%x", h.GetHeight(), h.GetHash(), h.GetStateHash()), localKeys(n)
}

func (tamperEngine) run(ctx *simrt.Ctx) *simrt.Violation {
	sc := ctx.Sc
	uid := fmt.Sprintf("%s-%d-%d", sc.Property, sc.Run, ctx.Seq())
	w := NewWorld(ctx, "fac-"+uid, simnode.Opts{})
	defer w.Fac.Close()
	defer w.Fac.Disk.Remove()
	pooled := map[string]*types.Transaction{}
	var knows func([]byte) *types.Transaction
	if sc.Knob("poolknows", 0) == 1 {
		knows = func(h []byte) *types.Transaction { return pooled[string(h)] }
	}
	sut := simnode.New(simnode.Opts{ID: "sut-" + uid, StubMempool: true, MempoolTx: knows})
	defer sut.Close()
	defer sut.Disk.Remove()
	simrt.Settle()
	time.Sleep(2 * time.Second)
	delivered := map[int]bool{}
	var maxH int64
	pids := []string{"peerA", "peerB", "peerC"}
	// copyFirst[id] = how a same-header/different-body copy of block id reached the
	// node before the genuine block did ("orphan", "side" or "tip" + corruption kind)
	copyFirst := map[int]string{}
	rawID := 500000
	saw := map[string]bool{}
	open := sc.Knob("open", 0) == 1
	byHash := map[string]*Built{}
	served := func(b *Built, when string) *simrt.Violation {
		// the node must never serve a body other than the genuine one under this hash
		ds, err := sut.API.GetBlockByHashes(&types.ReqHashes{Hashes: [][]byte{b.Hash}})
		if err != nil || ds == nil {
			return nil
		}
		for _, d := range ds.Items {
			if d == nil || d.Block == nil || !bytes.Equal(d.Block.Hash(w.Cfg), b.Hash) {
				continue
			}
			if !bytes.Equal(normBlock(d.Block, b.Hash), normBlock(b.Block, b.Hash)) {
				sig := "no-tampered-copy/" + when
				if cf := copyFirst[b.ID]; strings.HasPrefix(cf, "accepted-noncanonical-order/") {
					sig = cf
				} else if cf != "" {
					sig = "stored-unvalidated/" + cf
				}
				return ctx.Violate("serves-rejected-body", sig, "GetBlockByHashes(%x) (block id %d, height %d) returns a body that differs from the valid block with that hash: %d txs vs %d", b.Hash, b.ID, b.Height, len(d.Block.Txs), len(b.Block.Txs))
			}
		}
		return nil
	}
	for i := range sc.Ops {
		op := &sc.Ops[i]
		ctx.CurOp = i
		ctx.Step()
		switch op.K {
		case "blk":
			if b := w.BuildOp(op); b != nil {
				byHash[string(b.Hash)] = b
				for _, tx := range b.Block.Txs {
					pooled[string(tx.Hash())] = tx
				}
				if b.Height > maxH {
					maxH = b.Height
				}
			}
		case "dlv":
			b := w.Blocks[int(op.Int(0))]
			if b == nil {
				continue
			}
			kind := int(op.Int(3))
			pid := pids[int(op.Int(2))%len(pids)]
			if kind == 0 {
				ok, msg := Deliver(sut, b.Block, int(op.Int(1)), pid)
				ctx.Logf("dlv genuine id=%d h=%d ok=%v %s -> height %d", b.ID, b.Height, ok, msg, sut.Chain.GetBlockHeight())
				delivered[b.ID] = true
			} else {
				var bad *types.Block
				if kind >= mutDupFirstConsistent {
					// only meaningful as an extension of the current tip: it is then
					// executed at once and must be refused for the duplicate alone
					if !bytes.Equal(lastHash(sut), b.Block.ParentHash) {
						continue
					}
					if kind == mutBadSigConsistent {
						bad = types.Clone(b.Block).(*types.Block)
						i := int(op.Int(4)) % len(bad.Txs)
						if bad.Txs[i].Signature == nil || len(bad.Txs[i].Signature.Signature) == 0 {
							continue
						}
						sg := append([]byte(nil), bad.Txs[i].Signature.Signature...)
						sg[len(sg)-1-int(op.Int(4))%8] ^= 0x01
						bad.Txs[i].Signature.Signature = sg
						bad.TxHash = merkle.CalcMerkleRoot(w.Cfg, bad.Height, bad.Txs)
						if bytes.Equal(bad.TxHash, b.Block.TxHash) {
							continue // the header does not commit to signatures at this height
						}
					}
					if bad == nil {
						txs := append([]*types.Transaction(nil), b.Block.Txs...)
						switch kind {
						case mutDupFirstConsistent:
							txs = append(txs, txs[0])
						case mutDupLastConsistent:
							txs = append(txs, txs[len(txs)-1])
						default:
							if b.Up == nil {
								continue
							}
							anc := b.Up.Chain()
							a := anc[int(op.Int(4))%len(anc)]
							txs = append(txs, a.Block.Txs[int(op.Int(4))%len(a.Block.Txs)])
						}
						rawID++
						rb := w.BuildRaw(rawID, b.Parent, 0, b.Block.BlockTime-parentTime(w, b), txs)
						if rb == nil {
							continue
						}
						if len(rb.Block.Txs) != len(txs) {
							// the block producer's own duplicate filter removed the copy: what
							// was built is an ordinary valid block, not a corrupted one
							delete(w.Blocks, rawID)
							w.Order = w.Order[:len(w.Order)-1]
							ctx.Probe("consistent_dup_removed_by_producer")
							continue
						}
						delete(w.Blocks, rawID) // not a block of the valid tree
						w.Order = w.Order[:len(w.Order)-1]
						bad = rb.Block
					}
				} else {
					bad = tamper(w, b.Block, kind, op.Int(4))
				}
				if bad == nil {
					continue
				}
				mname := mutNames[kind]
				crossGroup := false
				if kind == mutSwapTx && sameOrder(types.TransactionSort(bad.Txs), types.TransactionSort(b.Block.Txs)) {
					// the swap only moved transactions between the main-chain group and a
					// parallel chain's group: the transaction root is computed over the
					// canonical (grouped) order, so this body has the valid root
					mname = "reorder-across-chain-groups"
					crossGroup = true
				}
				ctx.Fault("tampered_block")
				ctx.Probe("mut_" + mname)
				if delivered[b.ID] {
					ctx.Probe("tampered_after_genuine")
				} else {
					ctx.Probe("tampered_before_genuine")
				}
				sameHeader := kind >= mutDropTx && kind < mutDupFirstConsistent
				parentConnected := b.Up == nil || isConnected(sut, b.Up)
				extendsTip := bytes.Equal(lastHash(sut), b.Block.ParentHash)
				heavier := false
				if tb := byHash[string(lastHash(sut))]; tb != nil {
					heavier = b.TD.Cmp(tb.TD) > 0
				} else {
					heavier = true // tip is genesis
				}
				shape := ""
				switch {
				case crossGroup:
					shape = "K4"
				case sameHeader && !delivered[b.ID]:
					shape = "K1"
				case !sameHeader && kind != mutParent && !parentConnected:
					shape = "K2"
				case (kind == mutTxHash || kind == mutStateHash) && parentConnected && !extendsTip && heavier:
					shape = "K3"
				}
				if shape == "K1" && !open && int(op.Int(1)) == 2 && extendsTip && parentConnected {
					// The fast-download path deletes a block that failed execution from
					// the index again, so a same-header copy arriving that way at the
					// tip must not stop the genuine block that follows immediately
					// (later arrival is the recorded K1 shape: the stored body stays).
					ctx.Probe("strict_download_copy_then_genuine")
					beforeTip, beforeKeys := snapshot(sut)
					Deliver(sut, bad, 2, "download")
					afterTip, afterKeys := snapshot(sut)
					if beforeTip != afterTip {
						return ctx.Violate("invalid-block-changed-chain", "download/"+mname, "a %s-corrupted copy of block id %d delivered through the fast-download path changed the best chain from %s to %s", mname, b.ID, beforeTip, afterTip)
					}
					if fam, detail := diffKeyMaps(beforeKeys, afterKeys); fam != "" {
						return ctx.Violate("invalid-block-changed-indexes", "download/"+mname+"/"+fam, "a %s-corrupted copy of block id %d delivered through the fast-download path changed the database: %s", mname, b.ID, detail)
					}
					ok, msg := Deliver(sut, b.Block, 1, pid)
					delivered[b.ID] = true
					// (waiting orphans may have been connected on top of it)
					if !isAncestorHash(sut, b.Hash, b.Height) {
						return ctx.Violate("valid-block-not-accepted", "after-download-copy/"+mname, "block id %d (height %d) extends the tip; a %s-corrupted copy with the same header came through the fast-download path and was rejected, then the genuine block arrived and was refused: ok=%v %q", b.ID, b.Height, mname, ok, msg)
					}
					if v := served(b, "after-download-copy"); v != nil {
						return v
					}
					continue
				}
				if shape != "" && !open {
					ctx.Probe("strict_skipped_" + shape)
					continue
				}
				if shape != "" {
					ctx.Probe("open_delivered_" + shape)
					saw[shape] = true
				}
				if shape == "K4" && copyFirst[b.ID] == "" && !delivered[b.ID] {
					copyFirst[b.ID] = "accepted-noncanonical-order/" + mname
				}
				if shape == "K1" && copyFirst[b.ID] == "" {
					path := "side"
					switch {
					case !parentConnected:
						path = "orphan"
					case extendsTip:
						path = "tip"
					}
					copyFirst[b.ID] = path + "/" + mname
				}
				// (for a same-header copy on a side branch the extra weight may come from
				// valid descendants already waiting in the orphan pool)
				failedReorgShape := shape == "K3" || (shape == "K1" && parentConnected && !extendsTip)
				beforeTip, beforeKeys := snapshot(sut)
				ok, msg := Deliver(sut, bad, int(op.Int(1)), pid)
				ctx.Logf("dlv TAMPERED(%s) id=%d h=%d ok=%v %s -> height %d", mname, b.ID, b.Height, ok, msg, sut.Chain.GetBlockHeight())
				afterTip, afterKeys := snapshot(sut)
				if beforeTip != afterTip {
					sig := mname
					if failedReorgShape {
						sig = "failed-reorg/" + mname
					}
					return ctx.Violate("invalid-block-changed-chain", sig, "delivering a %s-corrupted copy of block id %d changed the best chain from %s to %s", mname, b.ID, beforeTip, afterTip)
				}
				if fam, detail := diffKeyMaps(beforeKeys, afterKeys); fam != "" {
					return ctx.Violate("invalid-block-changed-indexes", mname+"/"+fam, "delivering a %s-corrupted copy of block id %d changed the database outside by-hash block storage: %s", mname, b.ID, detail)
				}
			}
			if v := ChainInvariant(sut); v != nil {
				return v
			}
			if v := served(b, "after-delivery"); v != nil {
				return v
			}
		}
	}
	ctx.CurOp = len(sc.Ops)
	time.Sleep(3 * time.Second)
	simrt.Settle()
	for _, id := range w.Order {
		if delivered[id] {
			if v := served(w.Blocks[id], "at-end"); v != nil {
				return v
			}
		}
	}
	best, unique := w.Heaviest(delivered)
	if best == nil || !unique || best.Height < 12 {
		ctx.Probe("no_claim")
		return ChainInvariant(sut)
	}
	ctx.Probe("converge_checked")
	if last := lastHash(sut); string(last) != string(best.Hash) {
		// which valid block was refused?
		detail := ""
		sig := "unattributed"
		for _, b := range best.Chain() {
			if cf := copyFirst[b.ID]; cf != "" && sig == "unattributed" {
				sig = "after-same-hash-copy/" + cf
			}
		}
		if sig == "unattributed" && saw["K3"] {
			sig = "after-failed-reorg"
		}
		if sig == "unattributed" && saw["K2"] {
			sig = "after-invalid-orphan"
		}
		if sig == "unattributed" {
			// a same-header copy that waited in the orphan pool is as invalid an orphan
			// as a header-corrupted one: its failure drops the valid siblings waiting
			// under the same parent (same recorded finding)
			for _, cf := range copyFirst {
				if strings.HasPrefix(cf, "orphan/") {
					sig = "after-invalid-orphan"
				}
			}
		}
		for _, b := range best.Chain() {
			if h, err := sut.API.GetBlockHash(&types.ReqInt{Height: b.Height}); err != nil || !bytes.Equal(h.Hash, b.Hash) {
				ok, msg := Deliver(sut, b.Block, 0, "peerA")
				detail = fmt.Sprintf("first missing block: id %d height %d; delivering the valid block once more answers ok=%v %q", b.ID, b.Height, ok, msg)
				break
			}
		}
		return ctx.Violate("valid-block-not-accepted", sig, "all valid blocks were delivered (some after corrupted copies) but the best chain tip is %x (height %d), not the heaviest valid branch tip id %d (height %d). %s",
			last, sut.Chain.GetBlockHeight(), best.ID, best.Height, detail)
	}
	v := twinCompare(ctx, w, sut, best, delivered, true, maxH, uid, true)
	if v != nil && saw["K4"] {
		v.Sig = "after-noncanonical-order/" + v.Sig
	}
	return v
}

func sameOrder(a, b []*types.Transaction) bool {
	if len(a) != len(b) {
		return false
	}
	for i := range a {
		if !bytes.Equal(a[i].FullHash(), b[i].FullHash()) {
			return false
		}
	}
	return true
}

// isConnected reports whether the node knows block b (best chain or side chain),
// judged through its public block-by-hash query.
func isConnected(n *simnode.Node, b *Built) bool {
	ds, err := n.API.GetBlockByHashes(&types.ReqHashes{Hashes: [][]byte{b.Hash}})
	if err != nil || ds == nil {
		return false
	}
	for _, d := range ds.Items {
		if d != nil && d.Block != nil {
			return true
		}
	}
	return false
}

func parentTime(w *World, b *Built) int64 {
	if b.Up != nil {
		return b.Up.Block.BlockTime
	}
	return w.Genesis.BlockTime
}
