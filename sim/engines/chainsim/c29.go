package chainsim

import (
	"fmt"
	"testing"
	"time"

	"github.com/33cn/chain33/types"

	"verifsim/simnode"
	"verifsim/simrt"
)

func init() {
	simrt.Register(&simrt.Info{Property: "C29", Engine: &crashEngine{}, Nontrivial: func(sc *simrt.Scenario, r *simrt.Result) bool {
		return r.Faults["crash_restart"] > 10 && r.Probes["reorg_history"] > 0
	}})
}

// crashEngine is C29: for one generated history every durable-write boundary of
// the node's databases is a crash point; the state "as of that write" is booted
// as a restarted node and checked.
type crashEngine struct{}

func (crashEngine) Name() string { return "chainsim" }

func (crashEngine) Generate(prop string, r *simrt.RNG, tier string, run int) *simrt.Scenario {
	sc := &simrt.Scenario{Knobs: map[string]int64{}}
	if r.Chance(1, 2) {
		sc.Knobs["recordseq"] = 1
	}
	// every k-th boundary is re-booted (1 = all of them)
	sc.Knobs["stride"] = 1
	trunk := r.Range(12, 13)
	ids := genTree(r, sc, trunk, r.Range(1, 2), 3)
	// mostly in-order delivery of the trunk, then the fork blocks in PRNG order,
	// so that side branches, orphans and reorganisations of depth 1..3 occur
	order := append([]int(nil), ids[:trunk]...)
	if r.Chance(1, 3) && trunk > 3 { // one trunk block late: its successors wait as orphans
		i := r.Range(trunk-3, trunk-1)
		late := order[i]
		order = append(order[:i], order[i+1:]...)
		order = append(order, late)
	}
	rest := ids[trunk:]
	for _, i := range r.Perm(len(rest)) {
		order = append(order, rest[i])
	}
	for _, id := range order {
		sc.Ops = append(sc.Ops, simrt.Op{K: "dlv", I: []int64{int64(id), int64(r.Intn(3)), int64(r.Intn(3))}})
	}
	if r.Chance(1, 6) {
		sc.Knobs["bigblock"] = int64(ids[r.Range(trunk-2, len(ids)-1)])
	}
	return sc
}

func (e crashEngine) Execute(t *testing.T, ctx *simrt.Ctx) *simrt.Violation {
	var viol *simrt.Violation
	simrt.InBubble(t, func() { viol = e.run(ctx) })
	return viol
}

func (crashEngine) run(ctx *simrt.Ctx) *simrt.Violation {
	sc := ctx.Sc
	uid := fmt.Sprintf("%s-%d-%d", sc.Property, sc.Run, ctx.Seq())
	recseq := sc.Knob("recordseq", 0) == 1
	w := NewWorld(ctx, "fac-"+uid, simnode.Opts{})
	if big := int(sc.Knob("bigblock", 0)); big > 0 {
		// one block whose transaction index alone is larger than a megabyte: any
		// size-triggered intermediate flush of the connect batch becomes a crash point
		w.Ballast, w.BallastCount, w.BallastIDs = 95000, 13, map[int]bool{big: true}
	}
	defer w.Fac.Close()
	defer w.Fac.Disk.Remove()
	sut := simnode.New(simnode.Opts{ID: "sut-" + uid, StubMempool: true, EditToml: seqToml(recseq)})
	defer sut.Close()
	defer sut.Disk.Remove()
	simrt.Settle()
	time.Sleep(2 * time.Second)
	simrt.Settle()
	sut.Disk.StartJournal()

	type step struct {
		id       int
		seqAfter int    // journal length after this delivery completed
		tip      []byte // best-chain tip after it
	}
	var steps []step
	delivered := map[int]bool{}
	var maxH int64
	hashToBlock := map[string]*Built{}
	for i := range sc.Ops {
		op := &sc.Ops[i]
		ctx.CurOp = i
		ctx.Step()
		switch op.K {
		case "blk":
			if b := w.BuildOp(op); b != nil {
				hashToBlock[string(b.Hash)] = b
				if b.Height > maxH {
					maxH = b.Height
				}
			}
		case "dlv":
			b := w.Blocks[int(op.Int(0))]
			if b == nil {
				continue
			}
			before := lastHash(sut)
			if b.Block.Size() > 1<<20 {
				ctx.Probe("block_over_1MiB_delivered")
			}
			Deliver(sut, b.Block, int(op.Int(1)), "peerA")
			delivered[b.ID] = true
			tip := lastHash(sut)
			if string(tip) != string(before) && !isAncestorHash(sut, before, sut.Chain.GetBlockHeight()-1) && len(before) > 0 {
				if bb := hashToBlock[string(before)]; bb != nil && int64(len(bb.Chain())) >= 1 {
					// tip changed and the old tip is not the parent: a reorganisation
					if nb := hashToBlock[string(tip)]; nb != nil && (nb.Up == nil || string(nb.Up.Hash) != string(before)) {
						ctx.Probe("reorg_history")
					}
				}
			}
			steps = append(steps, step{id: b.ID, seqAfter: sut.Disk.Seq0(), tip: tip})
			if v := ChainInvariant(sut); v != nil {
				return v
			}
		}
	}
	ctx.CurOp = len(sc.Ops)
	time.Sleep(2 * time.Second)
	simrt.Settle()
	nwrites := sut.Disk.Seq0()
	var txs [][]byte
	seen := map[string]bool{}
	var allIDs []int
	for _, id := range w.Order {
		if !delivered[id] {
			continue
		}
		allIDs = append(allIDs, id)
		for _, tx := range w.Blocks[id].Block.Txs {
			if h := tx.Hash(); !seen[string(h)] {
				seen[string(h)] = true
				txs = append(txs, h)
			}
		}
	}
	addrs := []string{w.Addr(-1)}
	for a := 0; a < NAccounts; a++ {
		addrs = append(addrs, w.Addr(a))
	}
	final, v := Observe(sut, txs, addrs, maxH+1)
	if v != nil {
		return v
	}
	best, unique := w.Heaviest(delivered)
	claimFinal := best != nil && unique && best.Height >= 12 && string(final.Last.Hash) == string(best.Hash)

	stride := int(sc.Knob("stride", 1))
	if stride < 1 {
		stride = 1
	}
	genesisHash := w.Genesis.Hash(w.Cfg)
	for k := 0; k <= nwrites; k += stride {
		ctx.Fault("crash_restart")
		// which deliveries had started by write k
		allowed := map[string]bool{string(genesisHash): true}
		for si, st := range steps {
			startSeq := 0
			if si > 0 {
				startSeq = steps[si-1].seqAfter
			}
			if startSeq <= k { // delivery si was in progress or complete at crash point k
				for x := hashToBlock[string(st.tip)]; x != nil; x = x.Up {
					allowed[string(x.Hash)] = true
				}
				// One delivery can connect a whole cascade of waiting orphans and
				// reorganise among them, so every already delivered descendant of the
				// delivered block may have been the tip for a moment.
				for _, sj := range steps[:si+1] {
					d := w.Blocks[sj.id]
					for x := d; x != nil; x = x.Up {
						if x.ID == st.id {
							for y := d; y != nil; y = y.Up {
								allowed[string(y.Hash)] = true
							}
							break
						}
					}
				}
			}
		}
		disk := sut.Disk.CloneAt(k, fmt.Sprintf("crash-%s-%d", uid, k))
		viol := func() (rv *simrt.Violation) {
			// a restarted node that panics while loading its databases did not survive the crash
			defer func() {
				if r := recover(); r != nil {
					if he, ok := r.(simrt.HarnessError); ok {
						panic(he)
					}
					rv = ctx.Violate("restart-panic", "after-restart/boot-or-query-panicked", "crash after durable write %d of %d: the restarted node panicked: %v", k, nwrites, r)
				}
			}()
			rn := simnode.New(simnode.Opts{Disk: disk, StubMempool: true, EditToml: seqToml(recseq)})
			defer rn.Close()
			simrt.Settle()
			time.Sleep(2 * time.Second)
			simrt.Settle()
			sig := func(s string) string { return "after-restart/" + s }
			view, v := Observe(rn, txs, addrs, maxH+1)
			if v != nil {
				v.Sig = sig(v.Sig)
				v.Detail = fmt.Sprintf("crash after durable write %d of %d: %s", k, nwrites, v.Detail)
				return v
			}
			if !allowed[string(view.Last.Hash)] {
				return ctx.Violate("restart-wrong-chain", sig("tip-never-reached"), "crash after write %d/%d: restarted tip %x (height %d) is neither a chain the node had reached nor a prefix of one it was building", k, nwrites, view.Last.Hash, view.Height)
			}
			// indexes agree with the tree: tx index of every best-chain transaction, total difficulty, tip state
			for h := int64(1); h <= view.Height; h++ {
				b := hashToBlock[string(view.Hashes[h])]
				if b == nil {
					return ctx.Violate("restart-wrong-chain", sig("unknown-block"), "crash after write %d: block at height %d is not a block of the tree", k, h)
				}
				if view.TDs[h] != b.TD.String() {
					return ctx.Violate("restart-inconsistent", sig("total-difficulty"), "crash after write %d: td at height %d is %s, model %s", k, h, view.TDs[h], b.TD)
				}
				for idx, tx := range b.Block.Txs {
					got := view.Tx[string(tx.Hash())]
					want := fmt.Sprintf("%d/%d/", h, idx)
					if len(got) < len(want) || got[:len(want)] != want {
						return ctx.Violate("restart-inconsistent", sig("tx-index"), "crash after write %d: tx %x of best-chain block height %d index %d is indexed as %q", k, tx.Hash(), h, idx, got)
					}
				}
			}
			onChain := map[string]bool{}
			for h := int64(0); h <= view.Height; h++ {
				for _, tx := range view.Details[h].Block.Txs {
					onChain[string(tx.Hash())] = true
				}
			}
			for th, got := range view.Tx {
				if !onChain[th] && got != "absent" {
					return ctx.Violate("restart-inconsistent", sig("tx-index-stale"), "crash after write %d: tx %x is not on the best chain but is indexed as %q", k, th, got)
				}
			}
			// the tip's state equals the state the factory computed for that block
			if tipb := hashToBlock[string(view.Last.Hash)]; tipb != nil {
				for _, a := range addrs {
					r, err := w.Fac.API.StoreGet(&types.StoreGet{StateHash: tipb.Block.StateHash, Keys: [][]byte{accountKey(w.Cfg, a)}})
					if err != nil {
						simrt.Failf("factory state read: %v", err)
					}
					if want := fmt.Sprintf("%x", r.Values); view.State[a] != want {
						return ctx.Violate("restart-inconsistent", sig("tip-state"), "crash after write %d: state of %s at the tip is %s, expected %s", k, a, view.State[a], want)
					}
				}
			}
			if recseq {
				if v := checkSequenceLog(rn); v != nil {
					v.Sig = sig(v.Sig)
					v.Detail = fmt.Sprintf("crash after write %d: %s", k, v.Detail)
					return v
				}
			}
			// continued processing: every block again, in a PRNG order
			perm := make([]int, len(allIDs))
			copy(perm, allIDs)
			for i := len(perm) - 1; i > 0; i-- {
				j := ctx.Choice(i + 1)
				perm[i], perm[j] = perm[j], perm[i]
			}
			for _, id := range perm {
				Deliver(rn, w.Blocks[id].Block, ctx.Choice(2), "peerB")
			}
			time.Sleep(time.Second)
			simrt.Settle()
			if v := ChainInvariant(rn); v != nil {
				v.Sig = sig("redelivery/" + v.Sig)
				return v
			}
			if claimFinal {
				again, v := Observe(rn, txs, addrs, maxH+1)
				if v != nil {
					v.Sig = sig("redelivery/" + v.Sig)
					return v
				}
				if s, d := final.Diff(again); s != "" {
					return ctx.Violate("restart-diverges", sig(s), "crash after write %d/%d, then all blocks re-delivered: differs from the uninterrupted run: %s", k, nwrites, d)
				}
				ctx.Probe("final_compared")
			}
			return nil
		}()
		disk.Remove()
		if viol != nil {
			return viol
		}
	}
	ctx.Probe("histories")
	ctx.Probes["write_boundaries"] += nwrites + 1
	return nil
}
