package chainsim

import (
	"bytes"
	"errors"
	"fmt"
	"sync"
	"testing"
	"time"

	"github.com/33cn/chain33/blockchain"
	"github.com/33cn/chain33/common"
	"github.com/33cn/chain33/types"

	"verifsim/simnode"
	"verifsim/simrt"
)

func init() {
	simrt.Register(&simrt.Info{Property: "C32", Engine: &pushEngine{}, Nontrivial: func(sc *simrt.Scenario, r *simrt.Result) bool {
		return r.Faults["post_error"]+r.Faults["post_timeout"] > 0 && r.Probes["acked_payloads"] > 0
	}})
}

// pushEngine is C32: the subscriber endpoint is the simulator. Each subscriber
// has an outcome script (ack / error / timeout) for its successive deliveries;
// the chain grows and reorganises while subscribers fall behind, are deactivated
// after three failures and re-register.
type pushEngine struct{}

func (pushEngine) Name() string { return "chainsim" }

const nSubs = 3

func (pushEngine) Generate(prop string, r *simrt.RNG, tier string, run int) *simrt.Scenario {
	sc := &simrt.Scenario{Knobs: map[string]int64{}}
	trunk := r.Range(12, 14)
	ids := genTree(r, sc, trunk, r.Range(1, 2), 3)
	if r.Chance(1, 5) {
		sc.Knobs["big"] = 1
	}
	// outcome scripts: 0 ack, 1 error, 2 timeout; bursts of failures reach the
	// three-in-a-row deactivation
	for s := 0; s < nSubs; s++ {
		op := simrt.Op{K: "script", I: []int64{int64(s)}}
		n := r.Range(6, 24)
		for len(op.I) < n+1 {
			switch r.Weighted(6, 2, 1, 1) {
			case 0:
				op.I = append(op.I, 0)
			case 1:
				op.I = append(op.I, 1)
			case 2:
				op.I = append(op.I, 2)
			case 3: // burst
				for k, m := 0, r.Range(3, 4); k < m; k++ {
					op.I = append(op.I, int64(1+r.Intn(2)))
				}
			}
		}
		sc.Ops = append(sc.Ops, op)
	}
	// history: deliveries in mostly tree order with subscription events in between
	order := append([]int(nil), ids[:trunk]...)
	rest := ids[trunk:]
	for _, i := range r.Perm(len(rest)) {
		order = append(order, rest[i])
	}
	// three more blocks on the heaviest... on the last trunk block are reserved
	// for the phase after faults stop: push only acts on new-block notifications
	var nonce int64 = 70000
	var pool []simrt.Op
	healParent := ids[trunk-1]
	next := 1000
	for j := 0; j < 3; j++ {
		sc.Ops = append(sc.Ops, simrt.Op{K: "blk", I: []int64{int64(next), int64(healParent), 4, 1}, Sub: genTxs(r, &nonce, &pool)})
		healParent = next
		next++
	}
	subbed := 0
	restarts := r.Chance(1, 3)
	for k, id := range order {
		sc.Ops = append(sc.Ops, simrt.Op{K: "dlv", I: []int64{int64(id), int64(r.Intn(2)), 0}})
		if k >= 1 && (subbed < nSubs && r.Chance(1, 3)) {
			// I=[subscriber, push type (0 block,1 header,2 receipts,3 results), resume back-off (0 = none)]
			sc.Ops = append(sc.Ops, simrt.Op{K: "sub", I: []int64{int64(subbed), int64(r.Intn(4)), int64(r.Weighted(2, 1, 1) * r.Range(1, 3))}})
			subbed++
		}
		if r.Chance(1, 5) {
			sc.Ops = append(sc.Ops, simrt.Op{K: "sub", I: []int64{int64(r.Intn(nSubs)), 0, 0}}) // re-registration
		}
		if r.Chance(1, 3) {
			sc.Ops = append(sc.Ops, simrt.Op{K: "sleep", I: []int64{int64(r.Range(100, 70000))}})
		}
		if restarts && k >= 2 && r.Chance(1, 8) {
			sc.Ops = append(sc.Ops, simrt.Op{K: "restart"})
		}
	}
	return sc
}

func (e pushEngine) Execute(t *testing.T, ctx *simrt.Ctx) *simrt.Violation {
	var viol *simrt.Violation
	simrt.InBubble(t, func() { viol = e.run(ctx) })
	return viol
}

// subscriber is the simulated endpoint of one push subscription.
type subscriber struct {
	name       string
	ty         int32
	script     []int64
	calls      int
	healed     bool  // outcome script exhausted / faults stopped: always ack
	known      bool  // lastAcked is defined
	lastAcked  int64 // highest sequence the subscriber acknowledged
	realAck    bool  // at least one delivery was acknowledged (before that lastAcked is the start position)
	registered bool
}

type endpoint struct {
	mu   sync.Mutex
	ctx  *simrt.Ctx
	subs map[string]*subscriber
	viol *simrt.Violation
	sut  *simnode.Node
}

func (ep *endpoint) fail(v *simrt.Violation) {
	if ep.viol == nil {
		ep.viol = v
	}
}

// PostData implements blockchain.PostService.
func (ep *endpoint) PostData(req *types.PushSubscribeReq, data []byte, updateSeq int64) error {
	ep.mu.Lock()
	s := ep.subs[req.Name]
	if s == nil {
		ep.mu.Unlock()
		return errors.New("unknown subscriber")
	}
	if ep.viol != nil {
		// the verdict is in; do not let a misbehaving push task spin at one virtual instant
		ep.mu.Unlock()
		time.Sleep(time.Second)
		return errors.New("endpoint stopped after a violation")
	}
	// decode the sequence numbers carried by the payload
	var nums []int64
	exact := true // block / header payloads carry every sequence
	switch s.ty {
	case 0:
		var p types.BlockSeqs
		if err := types.Decode(data, &p); err != nil {
			ep.fail(ep.ctx.Violate("push-bad-payload", "block/decode", "%s: %v", s.name, err))
		}
		for _, q := range p.Seqs {
			nums = append(nums, q.Num)
			ep.checkRecord(s, q.Num, q.Seq, q.Detail.GetBlock())
		}
	case 1:
		var p types.HeaderSeqs
		if err := types.Decode(data, &p); err != nil {
			ep.fail(ep.ctx.Violate("push-bad-payload", "header/decode", "%s: %v", s.name, err))
		}
		for _, q := range p.Seqs {
			nums = append(nums, q.Num)
			ep.checkRecord(s, q.Num, q.Seq, nil)
		}
	case 2:
		exact = false
		var p types.TxReceipts4Subscribe
		if err := types.Decode(data, &p); err != nil {
			ep.fail(ep.ctx.Violate("push-bad-payload", "receipts/decode", "%s: %v", s.name, err))
		}
		for _, q := range p.TxReceipts {
			nums = append(nums, q.SeqNum)
		}
	case 3:
		var p types.TxResultSeqs
		if err := types.Decode(data, &p); err != nil {
			ep.fail(ep.ctx.Violate("push-bad-payload", "results/decode", "%s: %v", s.name, err))
		}
		for _, q := range p.Items {
			nums = append(nums, q.SeqNum)
		}
	}
	if len(data) > 600000 {
		ep.ctx.Probe("payload_near_size_cap")
		if len(nums) < 10 {
			ep.ctx.Probe("batch_cut_by_size_cap")
		}
	}
	// ordering within the payload and against what was acknowledged
	for i := 1; i < len(nums); i++ {
		if nums[i] <= nums[i-1] || (exact && nums[i] != nums[i-1]+1) {
			ep.fail(ep.ctx.Violate("push-order", "within-payload", "%s: payload sequences %v are not strictly increasing / gap-free", s.name, nums))
		}
	}
	if len(nums) > 0 {
		first := nums[0]
		if !s.known {
			s.known, s.lastAcked = true, first-1
			if !exact {
				s.lastAcked = -1 << 40 // receipts: the first carried sequence may skip blocks
			}
		}
		if s.lastAcked > -1<<39 {
			if first <= s.lastAcked {
				ep.fail(ep.ctx.Violate("push-order", "resent-acknowledged", "%s: delivery starts at sequence %d but %d was already acknowledged", s.name, first, s.lastAcked))
			}
			if exact && first != s.lastAcked+1 {
				ep.fail(ep.ctx.Violate("push-order", "gap", "%s: delivery starts at sequence %d, last acknowledged is %d", s.name, first, s.lastAcked))
			}
		}
		if last := nums[len(nums)-1]; last > updateSeq || (exact && last != updateSeq) {
			ep.fail(ep.ctx.Violate("push-order", "update-seq", "%s: payload ends at %d but the call says it covers up to %d", s.name, last, updateSeq))
		}
	}
	outcome := int64(0)
	if !s.healed && s.calls < len(s.script) {
		outcome = s.script[s.calls]
	}
	s.calls++
	if ep.ctx.Verbose {
		fmt.Printf("  | [%v] post %s nums=%v updateSeq=%d lastAcked=%d outcome=%d\n", time.Now().Format("15:04:05"), s.name, nums, updateSeq, s.lastAcked, outcome)
	}
	switch outcome {
	case 0:
		s.known = true
		s.realAck = true
		s.lastAcked = updateSeq
		ep.ctx.Probes["acked_payloads"]++
		ep.mu.Unlock()
		return nil
	case 1:
		ep.ctx.Faults["post_error"]++
		ep.mu.Unlock()
		return errors.New("simulated endpoint error")
	default:
		ep.ctx.Faults["post_timeout"]++
		ep.mu.Unlock()
		time.Sleep(10 * time.Second)
		return errors.New("simulated endpoint timeout")
	}
}

// checkRecord compares a pushed sequence record with the node's own log.
func (ep *endpoint) checkRecord(s *subscriber, num int64, rec *types.BlockSequence, blk *types.Block) {
	if rec == nil {
		ep.fail(ep.ctx.Violate("push-bad-payload", "nil-record", "%s: sequence %d has no record", s.name, num))
		return
	}
	want, err := ep.sut.Chain.GetStore().GetBlockSequence(num)
	if err != nil || !bytes.Equal(want.Hash, rec.Hash) || want.Type != rec.Type {
		ep.fail(ep.ctx.Violate("push-bad-payload", "record-mismatch", "%s: pushed record for sequence %d is %x/%d, the log says %x/%d (%v)", s.name, num, rec.Hash, rec.Type, want.GetHash(), want.GetType(), err))
	}
	if blk != nil && !bytes.Equal(blk.Hash(ep.sut.Cfg), rec.Hash) {
		ep.fail(ep.ctx.Violate("push-bad-payload", "block-mismatch", "%s: sequence %d carries block %x but its record says %x", s.name, num, blk.Hash(ep.sut.Cfg), rec.Hash))
	}
}

func (pushEngine) run(ctx *simrt.Ctx) *simrt.Violation {
	sc := ctx.Sc
	uid := fmt.Sprintf("%s-%d-%d", sc.Property, sc.Run, ctx.Seq())
	w := NewWorld(ctx, "fac-"+uid, simnode.Opts{})
	if sc.Knob("big", 0) == 1 {
		// ~190 KB per block: a catch-up batch of ten sequences exceeds the push size cap
		w.Ballast = 95000
	}
	defer w.Fac.Close()
	defer w.Fac.Disk.Remove()
	sut := simnode.New(simnode.Opts{ID: "sut-" + uid, StubMempool: true})
	defer func() { sut.Close() }()
	defer sut.Disk.Remove()
	nrestart := 0
	simrt.Settle()
	time.Sleep(2 * time.Second)
	ep := &endpoint{ctx: ctx, subs: map[string]*subscriber{}, sut: sut}
	if !sut.Chain.VerifSetPostService(ep) {
		simrt.Failf("push is not enabled on the node")
	}
	for s := 0; s < nSubs; s++ {
		ep.subs[fmt.Sprintf("sub%d", s)] = &subscriber{name: fmt.Sprintf("sub%d", s)}
	}
	t0 := time.Now()
	check := func(quiescent bool) *simrt.Violation {
		ep.mu.Lock()
		defer ep.mu.Unlock()
		if ep.viol != nil {
			return ep.viol
		}
		for s := 0; s < nSubs; s++ {
			sub := ep.subs[fmt.Sprintf("sub%d", s)]
			if !sub.registered {
				continue
			}
			n, err := sut.Chain.ProcGetLastPushSeq(sub.name)
			if err != nil {
				continue
			}
			if sub.known && sub.lastAcked > -1<<39 && n > sub.lastAcked {
				return ctx.Violate("push-recorded-before-ack", "last-push-seq", "%s: node records sequence %d as delivered but the subscriber acknowledged only up to %d", sub.name, n, sub.lastAcked)
			}
		}
		return nil
	}
	register := func(sub *subscriber, ty int32, back int64) {
		req := &types.PushSubscribeReq{Name: sub.name, URL: "http://sim/" + sub.name, Encode: "proto", Type: ty}
		if ty == 2 {
			req.Contract = map[string]bool{"coins": true}
		}
		if !sub.registered && back > 0 {
			// resume point: `back` sequences behind the node's last one
			last, err := sut.Chain.GetStore().LoadBlockLastSequence()
			if err == nil && last-back >= 1 {
				rec, err := sut.Chain.GetStore().GetBlockSequence(last - back)
				if err == nil {
					hdr, herr := sut.Chain.GetStore().GetBlockHeaderByHash(rec.Hash)
					if herr == nil && hdr.Height > 0 {
						req.LastSequence, req.LastHeight, req.LastBlockHash = last-back, hdr.Height, common.ToHex(rec.Hash)
					}
				}
			}
		}
		ep.mu.Lock()
		first := !sub.registered
		if first {
			sub.ty = ty
			if req.LastSequence > 0 {
				sub.known, sub.lastAcked = true, req.LastSequence
				ctx.Probe("resume_point_given")
			}
		} else {
			req.Type = sub.ty
			if sub.ty == 2 {
				req.Contract = map[string]bool{"coins": true}
			}
			ctx.Probe("reregistered")
		}
		ep.mu.Unlock()
		_, err := sut.API.AddPushSubscribe(req)
		ctx.Logf("subscribe %s type=%d resume=%d first=%v -> %v", sub.name, req.Type, req.LastSequence, first, err)
		if err == nil {
			ep.mu.Lock()
			sub.registered = true
			ep.mu.Unlock()
		} else if first {
			ep.mu.Lock()
			sub.known = false
			ep.mu.Unlock()
		}
		simrt.Settle()
	}
	for i := range sc.Ops {
		op := &sc.Ops[i]
		ctx.CurOp = i
		ctx.Step()
		switch op.K {
		case "blk":
			w.BuildOp(op)
		case "script":
			if sub := ep.subs[fmt.Sprintf("sub%d", op.Int(0)%nSubs)]; sub != nil && len(op.I) > 1 {
				sub.script = append([]int64(nil), op.I[1:]...)
			}
		case "dlv":
			if b := w.Blocks[int(op.Int(0))]; b != nil {
				Deliver(sut, b.Block, int(op.Int(1)), "peerA")
			}
		case "sleep":
			time.Sleep(time.Duration(op.Int(0)) * time.Millisecond)
			simrt.Settle()
		case "restart":
			// a clean stop and restart: subscriptions, their status and their
			// progress are what the database says
			time.Sleep(time.Second)
			simrt.Settle()
			disk := sut.Disk
			sut.Close()
			simrt.Settle()
			nrestart++
			blockchain.VerifDefaultPostService = ep
			nn := simnode.New(simnode.Opts{ID: fmt.Sprintf("sut-%s-r%d", uid, nrestart), Disk: disk, StubMempool: true})
			blockchain.VerifDefaultPostService = nil
			ep.mu.Lock()
			ep.sut = nn
			ep.mu.Unlock()
			sut = nn
			if !sut.Chain.VerifSetPostService(ep) {
				simrt.Failf("push is not enabled on the restarted node")
			}
			simrt.Settle()
			time.Sleep(2 * time.Second)
			simrt.Settle()
			ctx.Fault("restart")
		case "sub":
			register(ep.subs[fmt.Sprintf("sub%d", op.Int(0)%nSubs)], int32(op.Int(1)%4), op.Int(2))
		}
		if v := check(false); v != nil {
			return v
		}
	}
	// faults stop: every endpoint acknowledges from now on; subscribers are
	// re-registered (reactivation) and must catch up within a bound of virtual time
	ctx.CurOp = len(sc.Ops)
	ep.mu.Lock()
	for _, s := range ep.subs {
		s.healed = true
	}
	ep.mu.Unlock()
	time.Sleep(90 * time.Second) // let running back-offs (60 x 1 s) expire
	for s := 0; s < nSubs; s++ {
		if sub := ep.subs[fmt.Sprintf("sub%d", s)]; sub.registered {
			register(sub, sub.ty, 0)
		}
	}
	// the chain keeps growing after the faults stopped (a push task only acts on
	// new-sequence notifications)
	healBlocks := 0
	for id := 1000; id < 1003; id++ {
		if b := w.Blocks[id]; b != nil {
			before := sut.Chain.GetBlockHeight()
			Deliver(sut, b.Block, 0, "peerA")
			if sut.Chain.GetBlockHeight() > before {
				healBlocks++
			}
			ctx.Probe("heal_phase_block")
		}
		time.Sleep(20 * time.Second)
	}
	time.Sleep(180 * time.Second)
	simrt.Settle()
	ctx.AddSimTime(time.Since(t0))
	if v := check(true); v != nil {
		return v
	}
	last, err := sut.Chain.GetStore().LoadBlockLastSequence()
	if err != nil {
		simrt.Failf("LoadBlockLastSequence: %v", err)
	}
	ep.mu.Lock()
	defer ep.mu.Unlock()
	for s := 0; s < nSubs; s++ {
		sub := ep.subs[fmt.Sprintf("sub%d", s)]
		if !sub.registered {
			continue
		}
		ctx.Probe("liveness_checked")
		n, _ := sut.Chain.ProcGetLastPushSeq(sub.name)
		if sub.known && sub.lastAcked > -1<<39 {
			// progress is only owed when the chain grew after the faults stopped: a
			// push task acts on new-sequence notifications
			// (receipt subscriptions are only sent blocks that contain a matching
			// transaction, so "acknowledged == end of the log" is not owed for them)
			if sub.lastAcked != last && healBlocks >= 2 && sub.ty != 2 {
				return ctx.Violate("push-not-caught-up", "after-heal", "%s (type %d): %d virtual seconds after the endpoint stopped failing and the subscriber re-registered it has acknowledged up to %d, the log ends at %d (node records %d)", sub.name, sub.ty, 330, sub.lastAcked, last, n)
			}
			// (before the first acknowledgement the node has nothing to record; it
			// must not record anything beyond the start position either)
			if (sub.realAck && n != sub.lastAcked || !sub.realAck && n > sub.lastAcked) && sub.ty != 2 {
				return ctx.Violate("push-recorded-before-ack", "quiescent-mismatch", "%s: at quiescence the node records %d, the subscriber acknowledged %d", sub.name, n, sub.lastAcked)
			}
		}
	}
	return nil
}
