// Package chainsim drives complete chain33 nodes (real queue, blockchain,
// store/mavl, executor, mempool, solo consensus on simulated disks, inside a
// synctest bubble) through generated block trees: C25 (convergence for any
// delivery order), C26 (sequence log), C14 (local indexes undone), C27 (invalid
// blocks), C28 (no replayed/expired txs), C29 (crash consistency), C32 (push).
package chainsim

import (
	"bytes"
	"fmt"
	"math/big"
	"sort"

	"github.com/33cn/chain33/common"
	cty "github.com/33cn/chain33/system/dapp/coins/types"
	"github.com/33cn/chain33/types"
	"github.com/33cn/chain33/util"

	"verifsim/simnode"
	"verifsim/simrt"
)

// NAccounts is the number of funded accounts the generators use.
const NAccounts = 6

// diffBits are the difficulty encodings the generator chooses from (index 0 is
// the configured pow limit, i.e. the least work).
var diffBits = []uint32{0x1f2fffff, 0x1f00ffff, 0x1e7fffff, 0x1e00ffff, 0x1d00ffff}

// work is the model's own total-difficulty arithmetic: 2^256 / (target+1).
func work(bits uint32) *big.Int {
	mant := int64(bits & 0x007fffff)
	exp := uint(bits >> 24)
	t := big.NewInt(mant)
	if exp <= 3 {
		t.Rsh(t, 8*(3-exp))
	} else {
		t.Lsh(t, 8*(exp-3))
	}
	if bits&0x00800000 != 0 || t.Sign() <= 0 {
		return big.NewInt(0)
	}
	one := big.NewInt(1)
	return new(big.Int).Div(new(big.Int).Lsh(one, 256), new(big.Int).Add(t, one))
}

// Built is a block of the generated tree, built by real execution.
type Built struct {
	ID, Parent int
	Block      *types.Block
	Detail     *types.BlockDetail // with receipts, state KVs and previous state root
	Hash       []byte
	Height     int64
	TD         *big.Int // model's total difficulty
	Up         *Built   // nil: parent is genesis
}

// World holds the block factory and the generated tree.
type World struct {
	Ctx     *simrt.Ctx
	Fac     *simnode.Node
	Cfg     *types.Chain33Config
	Genesis *types.Block
	GenTD   *big.Int
	Blocks  map[int]*Built
	Order   []int // build order
	keys    []*simnode.Key
	gkey    *simnode.Key
	seq     int
	// Ballast > 0 adds two "none" transactions with a payload of that many bytes,
	// paid by the genesis account, to every block built from ops.
	Ballast int
	// BallastCount (default 2) of them; BallastIDs restricts them to those block ids.
	BallastCount int
	BallastIDs   map[int]bool
}

// NewWorld starts the factory node (its blockchain only ever holds genesis; its
// executor and store execute every block of the tree on the parent's state).
func NewWorld(ctx *simrt.Ctx, id string, opts simnode.Opts) *World {
	opts.ID = id
	opts.StubMempool = true
	w := &World{Ctx: ctx, Blocks: map[int]*Built{}}
	w.Fac = simnode.New(opts)
	w.Cfg = w.Fac.Cfg
	simrt.Settle()
	g, err := w.Fac.Chain.GetBlock(0)
	simrt.Must(err, "factory genesis")
	w.Genesis = g.Block
	w.GenTD = work(g.Block.Difficulty)
	w.gkey = simnode.GenesisKey()
	for i := 0; i < NAccounts; i++ {
		w.keys = append(w.keys, simnode.AccountKey(i))
	}
	return w
}

// Addr returns the address of account i (-1: genesis account).
func (w *World) Addr(i int) string {
	if i < 0 {
		return w.gkey.Addr
	}
	return w.keys[i%NAccounts].Addr
}

func (w *World) key(i int) *simnode.Key {
	if i < 0 {
		return w.gkey
	}
	return w.keys[i%NAccounts]
}

// MakeTx builds a transaction from a generated op:
//
//	xfer I=[from,to,amount,nonce]   coins transfer (from=-1: genesis account)
//	none I=[from,nonce,para]        "none" executor transaction (para=1: of a parallel chain)
func (w *World) MakeTx(op *simrt.Op) *types.Transaction {
	var tx *types.Transaction
	switch op.K {
	case "xfer":
		to := w.Addr(int(op.Int(1)))
		v := &cty.CoinsAction_Transfer{Transfer: &types.AssetsTransfer{Amount: op.Int(2), To: to}}
		tx = &types.Transaction{Execer: []byte(w.Cfg.GetCoinExec()), Payload: types.Encode(&cty.CoinsAction{Value: v, Ty: cty.CoinsActionTransfer}), To: to}
		tx.Nonce = op.Int(3)
	case "none":
		// I[2]=1: addressed to a parallel chain's executor (recorded on the main
		// chain, indexed there by title, executed as a no-op)
		exec := "none"
		if op.Int(2) == 1 {
			exec = "user.p.simpara.none"
		}
		tx = &types.Transaction{Execer: []byte(exec), Payload: []byte(fmt.Sprintf("none-%d", op.Int(1)))}
		tx.To = addrOfExec(w.Cfg, exec)
		tx.Nonce = op.Int(1)
	case "toexec": // I=[from,_,amount,nonce]: coins transfer into the "none" executor
		to := execAddr("none")
		v := &cty.CoinsAction_TransferToExec{TransferToExec: &types.AssetsTransferToExec{Amount: op.Int(2), ExecName: "none", To: to}}
		tx = &types.Transaction{Execer: []byte(w.Cfg.GetCoinExec()), Payload: types.Encode(&cty.CoinsAction{Value: v, Ty: cty.CoinsActionTransferToExec}), To: to}
		tx.Nonce = op.Int(3)
	case "withdraw": // I=[from,_,amount,nonce]: withdraw from the "none" executor
		to := execAddr("none")
		v := &cty.CoinsAction_Withdraw{Withdraw: &types.AssetsWithdraw{Amount: op.Int(2), ExecName: "none", To: to}}
		tx = &types.Transaction{Execer: []byte(w.Cfg.GetCoinExec()), Payload: types.Encode(&cty.CoinsAction{Value: v, Ty: cty.CoinsActionWithdraw}), To: to}
		tx.Nonce = op.Int(3)
	default:
		return nil
	}
	tx.Fee = 1000000
	tx.ChainID = w.Cfg.GetChainID()
	if len(op.I) > 4 {
		tx.Expire = op.Int(4)
	}
	tx.Sign(types.SECP256K1, w.key(int(op.Int(0))).Priv)
	return tx
}

// MakeTxs expands a generated op into transactions: a single transaction, or
// for K="group" a signed transaction group built by the client library.
func (w *World) MakeTxs(op *simrt.Op) []*types.Transaction {
	if op.K != "group" {
		if tx := w.MakeTx(op); tx != nil {
			return []*types.Transaction{tx}
		}
		return nil
	}
	var txs []*types.Transaction
	for i := range op.Sub {
		if tx := w.MakeTx(&op.Sub[i]); tx != nil {
			txs = append(txs, tx)
		}
	}
	if len(txs) < 2 {
		return txs
	}
	g, err := types.CreateTxGroup(txs, w.Cfg.GetMinTxFeeRate())
	if err != nil {
		simrt.Failf("CreateTxGroup: %v", err)
	}
	for i := range g.Txs {
		g.Txs[i].Signature = nil
		if err := g.SignN(i, types.SECP256K1, w.key(int(op.Sub[i].Int(0))).Priv); err != nil {
			simrt.Failf("SignN: %v", err)
		}
	}
	return g.Txs
}

// Build executes one block spec on its parent and records it. It returns nil
// when the parent is unknown or no transaction survived execution.
func (w *World) Build(id, parent int, diffIdx int, dt int64, txops []simrt.Op) *Built {
	return w.build(id, parent, diffIdx, dt, txops, nil, false)
}

// BuildRaw is Build without the producer's duplicate filter and with
// ready-made transactions: the block is executed for real, so its tx root and
// state root are consistent even when it contains a replayed transaction.
func (w *World) BuildRaw(id, parent int, diffIdx int, dt int64, txs []*types.Transaction) *Built {
	return w.build(id, parent, diffIdx, dt, nil, txs, true)
}

// Adopt records a block produced elsewhere (the node under test's own
// producer) so that later blocks can be built on it: it is re-executed on the
// factory to obtain its state there.
func (w *World) Adopt(id int, blk *types.Block) *Built {
	var parent = -1
	for pid, b := range w.Blocks {
		if string(b.Hash) == string(blk.ParentHash) {
			parent = pid
		}
	}
	if parent < 0 && string(blk.ParentHash) != string(w.Genesis.Hash(w.Cfg)) {
		return nil
	}
	idx := 0
	for i, bits := range diffBits {
		if bits == blk.Difficulty {
			idx = i
		}
	}
	pt := w.Genesis.BlockTime
	if parent >= 0 {
		pt = w.Blocks[parent].Block.BlockTime
	}
	b := w.build(id, parent, idx, blk.BlockTime-pt, nil, blk.Txs, true)
	if b != nil && string(b.Hash) != string(blk.Hash(w.Cfg)) {
		simrt.Failf("adopted block re-executed on the factory has hash %x, original %x\n fac: %v\n org: %v", b.Hash, blk.Hash(w.Cfg), b.Block.GetHeader(w.Cfg), blk.GetHeader(w.Cfg))
	}
	return b
}

func (w *World) build(id, parent int, diffIdx int, dt int64, txops []simrt.Op, rawTxs []*types.Transaction, raw bool) *Built {
	if _, dup := w.Blocks[id]; dup {
		return nil
	}
	var up *Built
	pblock := w.Genesis
	ptd := w.GenTD
	if parent >= 0 {
		up = w.Blocks[parent]
		if up == nil {
			return nil
		}
		pblock, ptd = up.Block, up.TD
	}
	bits := diffBits[((diffIdx%len(diffBits))+len(diffBits))%len(diffBits)]
	if dt < 0 {
		dt = 0
	}
	blk := &types.Block{
		ParentHash: pblock.Hash(w.Cfg), Height: pblock.Height + 1,
		BlockTime: pblock.BlockTime + dt, Difficulty: bits,
	}
	// a transaction already on this branch (or twice in this block) would make
	// the block invalid; the producer's duplicate check drops it
	onBranch := map[string]bool{}
	for x := up; x != nil; x = x.Up {
		for _, tx := range x.Block.Txs {
			onBranch[string(tx.Hash())] = true
		}
	}
	for i := range txops {
		txs := w.MakeTxs(&txops[i])
		dup := len(txs) == 0
		for _, tx := range txs {
			if onBranch[string(tx.Hash())] {
				dup = true
			}
		}
		if dup {
			continue
		}
		for _, tx := range txs {
			onBranch[string(tx.Hash())] = true
			blk.Txs = append(blk.Txs, tx)
		}
	}
	if w.Ballast > 0 && !raw && len(blk.Txs) > 0 && (w.BallastIDs == nil || w.BallastIDs[id]) {
		nb := w.BallastCount
		if nb <= 0 {
			nb = 2
		}
		for k := 0; k < nb; k++ {
			pay := make([]byte, w.Ballast)
			copy(pay, fmt.Sprintf("ballast-%d-%d-", id, k))
			for i := 24; i < len(pay); i++ {
				pay[i] = byte(id*31 + k*7 + i)
			}
			tx := &types.Transaction{Execer: []byte("none"), Payload: pay, To: addrOfExec(w.Cfg, "none"), Nonce: int64(id)*100 + int64(k) + 880000, ChainID: w.Cfg.GetChainID()}
			tx.Fee = 1000000
			tx.Sign(types.SECP256K1, w.gkey.Priv)
			if fee, err := tx.GetRealFee(w.Cfg.GetMinTxFeeRate()); err == nil && fee > tx.Fee {
				tx.Fee = fee
				tx.Sign(types.SECP256K1, w.gkey.Priv)
			}
			blk.Txs = append(blk.Txs, tx)
		}
	}
	if raw {
		blk.Txs = nil
		for _, tx := range rawTxs {
			blk.Txs = append(blk.Txs, types.Clone(tx).(*types.Transaction))
		}
	}
	if len(blk.Txs) == 0 {
		return nil
	}
	detail, _, err := util.ExecBlock(w.Fac.Client, pblock.StateHash, blk, false, true, false)
	if err != nil {
		simrt.Failf("factory could not execute block id %d on parent %d: %v", id, parent, err)
	}
	if len(detail.Block.Txs) == 0 {
		return nil // every transaction was dropped (e.g. unfunded sender)
	}
	b := &Built{ID: id, Parent: parent, Block: types.Clone(detail.Block).(*types.Block), Up: up}
	b.Detail = types.Clone(detail).(*types.BlockDetail)
	b.Hash = b.Block.Hash(w.Cfg)
	b.Height = b.Block.Height
	b.TD = new(big.Int).Add(ptd, work(bits))
	w.Blocks[id] = b
	w.Order = append(w.Order, id)
	return b
}

// BuildOp builds a "blk" op: I=[id,parent,diffIdx,dt], Sub=transactions.
func (w *World) BuildOp(op *simrt.Op) *Built {
	return w.Build(int(op.Int(0)), int(op.Int(1)), int(op.Int(2)), op.Int(3), op.Sub)
}

// Chain returns the blocks from height 1 to b.
func (b *Built) Chain() []*Built {
	var c []*Built
	for x := b; x != nil; x = x.Up {
		c = append(c, x)
	}
	for i, j := 0, len(c)-1; i < j; i, j = i+1, j-1 {
		c[i], c[j] = c[j], c[i]
	}
	return c
}

// Deliver hands a block to a node the way p2p does and returns the node's reply.
// mode 0: broadcast (EventBroadcastAddBlock), 1: sync (EventSyncBlock).
//
// mode 2: the fast-download path (the block is written to temporary storage and
// then executed from there with peer id "download"); that path only handles a
// block that extends the current tip, otherwise the sync path is used.
func Deliver(n *simnode.Node, blk *types.Block, mode int, pid string) (ok bool, errText string) {
	if mode == 2 {
		if h, err := n.API.GetLastHeader(); err == nil && bytes.Equal(h.Hash, blk.ParentHash) {
			before := n.Chain.GetBlockHeight()
			if err := n.Chain.WriteBlockToDbTemp(types.Clone(blk).(*types.Block), true); err != nil {
				simrt.Failf("WriteBlockToDbTemp: %v", err)
			}
			n.Chain.ReadBlockToExec(blk.Height, false)
			simrt.Settle()
			if n.Chain.GetBlockHeight() > before {
				return true, ""
			}
			return false, "download path did not connect the block"
		}
		mode = 1
	}
	ty := int64(types.EventBroadcastAddBlock)
	if mode == 1 {
		ty = types.EventSyncBlock
	}
	msg := n.Client.NewMessage("blockchain", ty, &types.BlockPid{Pid: pid, Block: types.Clone(blk).(*types.Block)})
	if err := n.Client.Send(msg, true); err != nil {
		simrt.Failf("deliver send: %v", err)
	}
	resp, err := n.Client.Wait(msg)
	if err != nil {
		simrt.Failf("deliver wait: %v", err)
	}
	simrt.Settle()
	r, isReply := resp.GetData().(*types.Reply)
	if !isReply {
		simrt.Failf("deliver: unexpected reply %T", resp.GetData())
	}
	return r.IsOk, string(r.Msg)
}

// connected reports the delivered blocks whose whole ancestry was delivered.
func (w *World) connected(delivered map[int]bool) []*Built {
	var out []*Built
	ids := make([]int, 0, len(delivered))
	for id := range delivered {
		ids = append(ids, id)
	}
	sort.Ints(ids)
	for _, id := range ids {
		b := w.Blocks[id]
		ok := b != nil
		for x := b; x != nil && ok; x = x.Up {
			if !delivered[x.ID] {
				ok = false
			}
		}
		if ok {
			out = append(out, b)
		}
	}
	return out
}

// Heaviest returns the connected block with the greatest total difficulty and
// whether it is unique.
func (w *World) Heaviest(delivered map[int]bool) (best *Built, unique bool) {
	unique = true
	for _, b := range w.connected(delivered) {
		switch {
		case best == nil || b.TD.Cmp(best.TD) > 0:
			best, unique = b, true
		case b.TD.Cmp(best.TD) == 0:
			unique = false
		}
	}
	return best, unique
}

func addrOfExec(cfg *types.Chain33Config, name string) string {
	return execAddr(name)
}

// ---------------------------------------------------------------------------
// observation of a node through its public interfaces

// View is what the properties call "the persisted chain": everything read back
// through the node's query interfaces.
type View struct {
	Height  int64
	Last    *types.Header
	Hashes  [][]byte             // height -> hash
	Details []*types.BlockDetail // height -> block + receipts
	TDs     []string
	Tx      map[string]string // tx hash -> "height/index/receipt-ty" or "absent"
	State   map[string]string // state key -> value hex at the tip
	Addr    map[string]string // address -> overview + tx list digest
	Beyond  string            // what the height index answers above the tip
}

// Observe reads the node's chain through its API. txs lists the transaction
// hashes to look up; addrs the addresses whose state and indexes are read.
func Observe(n *simnode.Node, txs [][]byte, addrs []string, maxHeight int64) (*View, *simrt.Violation) {
	v := &View{Tx: map[string]string{}, State: map[string]string{}, Addr: map[string]string{}}
	last, err := n.API.GetLastHeader()
	if err != nil {
		return nil, &simrt.Violation{Class: "query-failed", Sig: "GetLastHeader", Detail: err.Error()}
	}
	v.Last, v.Height = last, last.Height
	if h := n.Chain.GetBlockHeight(); h != last.Height {
		return nil, &simrt.Violation{Class: "inconsistent-chain", Sig: "height-vs-lastheader", Detail: fmt.Sprintf("GetBlockHeight=%d last header height=%d", h, last.Height)}
	}
	store := n.Chain.GetStore()
	var prev []byte
	for h := int64(0); h <= last.Height; h++ {
		rh, err := n.API.GetBlockHash(&types.ReqInt{Height: h})
		if err != nil {
			return nil, &simrt.Violation{Class: "inconsistent-chain", Sig: "height-index-missing", Detail: fmt.Sprintf("GetBlockHash(%d): %v (tip %d)", h, err, last.Height)}
		}
		v.Hashes = append(v.Hashes, rh.Hash)
		ds, err := n.API.GetBlocks(&types.ReqBlocks{Start: h, End: h, IsDetail: true})
		if err != nil || len(ds.Items) != 1 {
			return nil, &simrt.Violation{Class: "inconsistent-chain", Sig: "block-missing", Detail: fmt.Sprintf("GetBlocks(%d): %v", h, err)}
		}
		d := ds.Items[0]
		if !bytes.Equal(d.Block.Hash(n.Cfg), rh.Hash) {
			return nil, &simrt.Violation{Class: "inconsistent-chain", Sig: "block-vs-height-index", Detail: fmt.Sprintf("height %d: block hash %x, index says %x", h, d.Block.Hash(n.Cfg), rh.Hash)}
		}
		if h > 0 && !bytes.Equal(d.Block.ParentHash, prev) {
			return nil, &simrt.Violation{Class: "inconsistent-chain", Sig: "parent-link", Detail: fmt.Sprintf("height %d parent %x but hash at %d is %x", h, d.Block.ParentHash, h-1, prev)}
		}
		prev = rh.Hash
		v.Details = append(v.Details, d)
		hd, err := n.API.GetHeaders(&types.ReqBlocks{Start: h, End: h})
		if err != nil || len(hd.Items) != 1 || !bytes.Equal(hd.Items[0].Hash, rh.Hash) {
			return nil, &simrt.Violation{Class: "inconsistent-chain", Sig: "header-vs-height-index", Detail: fmt.Sprintf("height %d header %v err %v", h, hd, err)}
		}
		td, err := store.GetTdByBlockHash(rh.Hash)
		if err != nil || td == nil {
			return nil, &simrt.Violation{Class: "inconsistent-chain", Sig: "td-missing", Detail: fmt.Sprintf("no total difficulty for best-chain block %x at %d: %v", rh.Hash, h, err)}
		}
		v.TDs = append(v.TDs, td.String())
	}
	if !bytes.Equal(last.Hash, prev) {
		return nil, &simrt.Violation{Class: "inconsistent-chain", Sig: "lastheader-vs-height-index", Detail: fmt.Sprintf("last header %x, hash at tip height %x", last.Hash, prev)}
	}
	for h := last.Height + 1; h <= maxHeight; h++ {
		rh, err := n.API.GetBlockHash(&types.ReqInt{Height: h})
		if err == nil && rh != nil && len(rh.Hash) > 0 {
			v.Beyond += fmt.Sprintf("%d:%x;", h, rh.Hash)
		}
	}
	for _, th := range txs {
		d, err := n.API.QueryTx(&types.ReqHash{Hash: th})
		if err != nil || d == nil || d.Tx == nil {
			v.Tx[string(th)] = "absent"
			continue
		}
		v.Tx[string(th)] = fmt.Sprintf("%d/%d/%d/%x", d.Height, d.Index, d.Receipt.GetTy(), types.Encode(d.Receipt))
		if !bytes.Equal(d.Tx.Hash(), th) {
			return nil, &simrt.Violation{Class: "inconsistent-chain", Sig: "tx-lookup-wrong-tx", Detail: fmt.Sprintf("QueryTx(%x) returned tx %x", th, d.Tx.Hash())}
		}
	}
	tip := v.Details[last.Height].Block
	for _, a := range addrs {
		key := []byte("mavl-" + n.Cfg.GetCoinExec() + "-" + n.Cfg.GetCoinSymbol() + "-" + a)
		_ = key
		accs, err := n.API.StoreGet(&types.StoreGet{StateHash: tip.StateHash, Keys: [][]byte{accountKey(n.Cfg, a)}})
		if err != nil {
			return nil, &simrt.Violation{Class: "state-unreadable", Sig: "StoreGet", Detail: fmt.Sprintf("StoreGet at tip root %x: %v", tip.StateHash, err)}
		}
		v.State[a] = fmt.Sprintf("%x", accs.Values)
		ov, err := n.API.GetAddrOverview(&types.ReqAddr{Addr: a})
		s := ""
		if err == nil {
			s = fmt.Sprintf("reciver=%d txcount=%d", ov.Reciver, ov.TxCount)
		} else {
			s = "err"
		}
		tl, err := n.API.GetTransactionByAddr(&types.ReqAddr{Addr: a, Flag: 0, Count: 1000, Direction: 0, Height: -1, Index: 0})
		if err == nil {
			for _, ti := range tl.TxInfos {
				s += fmt.Sprintf("|%x@%d/%d", ti.Hash, ti.Height, ti.Index)
			}
		} else {
			s += "|none"
		}
		v.Addr[a] = s
	}
	return v, nil
}

// Diff compares two views; "" when equal.
func (v *View) Diff(o *View) (sig, detail string) {
	if v.Height != o.Height {
		return "height", fmt.Sprintf("height %d vs %d", v.Height, o.Height)
	}
	if !bytes.Equal(types.Encode(v.Last), types.Encode(o.Last)) {
		return "last-header", fmt.Sprintf("last header %v vs %v", v.Last, o.Last)
	}
	for h := range v.Hashes {
		if !bytes.Equal(v.Hashes[h], o.Hashes[h]) {
			return "height-index", fmt.Sprintf("hash at height %d: %x vs %x", h, v.Hashes[h], o.Hashes[h])
		}
		if !bytes.Equal(normBlock(v.Details[h].Block, v.Hashes[h]), normBlock(o.Details[h].Block, o.Hashes[h])) {
			return "block-body", fmt.Sprintf("block at height %d differs:\n  A=%v\n  B=%v", h, v.Details[h].Block, o.Details[h].Block)
		}
		if fmt.Sprint(v.Details[h].Receipts) != fmt.Sprint(o.Details[h].Receipts) {
			return "receipts", fmt.Sprintf("receipts at height %d: %v vs %v", h, v.Details[h].Receipts, o.Details[h].Receipts)
		}
		if v.TDs[h] != o.TDs[h] {
			return "total-difficulty", fmt.Sprintf("td at height %d: %s vs %s", h, v.TDs[h], o.TDs[h])
		}
	}
	if v.Beyond != o.Beyond {
		return "height-index-beyond-tip", fmt.Sprintf("height index above the tip: %q vs %q", v.Beyond, o.Beyond)
	}
	if s, d := diffMap("tx-index", v.Tx, o.Tx, true); s != "" {
		return s, d
	}
	if s, d := diffMap("tip-state", v.State, o.State, false); s != "" {
		return s, d
	}
	if s, d := diffMap("addr-index", v.Addr, o.Addr, false); s != "" {
		return s, d
	}
	return "", ""
}

// normBlock encodes a block for comparison. A block read back from the database
// carries mainHash/mainHeight equal to its own hash and height (main-chain
// bookkeeping filled in by the block store), one served from the in-memory cache
// of recently connected blocks does not; that is a property of which cache
// answered, not of the persisted chain, so exactly that self-reference is
// normalised away (any other value would still be reported).
func normBlock(b *types.Block, hash []byte) []byte {
	c := types.Clone(b).(*types.Block)
	if bytes.Equal(c.MainHash, hash) && c.MainHeight == c.Height {
		c.MainHash, c.MainHeight = nil, 0
	}
	return types.Encode(c)
}

func diffMap(what string, a, b map[string]string, hexKey bool) (string, string) {
	keys := make([]string, 0, len(a))
	for k := range a {
		keys = append(keys, k)
	}
	sort.Strings(keys)
	for _, k := range keys {
		if a[k] != b[k] {
			ks := k
			if hexKey {
				ks = common.ToHex([]byte(k))
			}
			return what, fmt.Sprintf("%s[%s]: %q vs %q", what, ks, a[k], b[k])
		}
	}
	return "", ""
}

// ChainInvariant checks that a node's height, last block, height index and
// parent links agree with each other (cheap form used after every delivery).
func ChainInvariant(n *simnode.Node) *simrt.Violation {
	_, v := Observe(n, nil, nil, 0)
	return v
}
