package chainsim

import (
	"bytes"
	"fmt"
	"testing"
	"time"

	cty "github.com/33cn/chain33/system/dapp/coins/types"
	"github.com/33cn/chain33/types"

	"verifsim/simnode"
	"verifsim/simrt"
)

func init() {
	simrt.Register(&simrt.Info{Property: "C28", Engine: &txEngine{}, Nontrivial: func(sc *simrt.Scenario, r *simrt.Result) bool {
		return r.Probes["offered_bad"] > 0 && r.Probes["blocks_scanned"] > 2
	}})
}

// txEngine is C28: a full node with the real mempool and the real solo producer
// on the virtual clock, plus peer blocks and reorganisations from the factory.
// Transactions that must never be on the chain (replays, expired, mis-signed,
// low fee, wrong chain id) are offered to the pool and inside peer blocks.
type txEngine struct{}

func (txEngine) Name() string { return "chainsim" }

// transaction flavours
const (
	txGood       = iota
	txDupEarlier // resubmit an earlier transaction
	txExpHeight  // expired by height at creation
	txExpTime    // expired by time at creation
	txSoonHeight // expires a few heights ahead
	txSoonTime   // expires a few seconds ahead
	txHeightOK   // height-bound, inside its window
	txHeightOut  // height-bound, outside its window
	txBadSig
	txLowFee
	txWrongChain
	txKinds
)

func (txEngine) Generate(prop string, r *simrt.RNG, tier string, run int) *simrt.Scenario {
	sc := &simrt.Scenario{Knobs: map[string]int64{"low": int64(r.Range(2, 4)), "high": int64(r.Range(3, 6))}}
	n := r.Range(12, 30)
	var nonce int64 = 50000
	for i := 0; i < n; i++ {
		switch r.Weighted(10, 3, 3, 2) {
		case 0:
			nonce++
			kind := r.Weighted(8, 3, 2, 2, 2, 2, 2, 2, 2, 2, 2)
			sc.Ops = append(sc.Ops, simrt.Op{K: "tx", I: []int64{int64(kind), int64(r.Intn(NAccounts)), int64(r.Intn(NAccounts)), int64(r.Range(1, 900)), nonce, int64(r.Intn(1000))}})
		case 1:
			sc.Ops = append(sc.Ops, simrt.Op{K: "wait", I: []int64{int64(r.Range(200, 4000))}})
		case 2:
			// peer block on the current tip: I=[poison kind (0 none,1 replay,2 bad-set), salt, ntx]
			nonce += 10
			sc.Ops = append(sc.Ops, simrt.Op{K: "peerblk", I: []int64{int64(r.Weighted(3, 2, 2, 2, 2)), int64(r.Intn(1000)), int64(r.Range(1, 3)), nonce}})
		case 3:
			// heavier sibling branch from depth d below the tip: I=[depth, len, poison, salt, nonce]
			nonce += 20
			sc.Ops = append(sc.Ops, simrt.Op{K: "fork", I: []int64{int64(r.Range(1, 3)), int64(r.Range(1, 3)), int64(r.Weighted(3, 2, 2, 2)), int64(r.Intn(1000)), nonce}})
		}
	}
	// The block cache is a tuning knob; the replay protection must not depend on
	// it being larger than the height-bound window.
	sc.Knobs["cache"] = []int64{1, 2, 3, 128, 128}[r.Intn(5)]
	sc.Knobs["qi"] = int64(r.Intn(3))
	// clean restarts: replay protection that lives in memory is rebuilt from disk
	if r.Chance(1, 3) || sc.Knobs["qi"] == 2 {
		for k, m := 0, r.Range(1, 2); k < m; k++ {
			at := r.Range(len(sc.Ops)/3, len(sc.Ops))
			sc.Ops = append(sc.Ops[:at:at], append([]simrt.Op{{K: "restart"}}, sc.Ops[at:]...)...)
		}
	}
	if r.Chance(1, 3) {
		// directed: a height-bound transaction gets on the chain, the chain grows by a
		// few blocks (still inside the window), the node restarts, the transaction comes again
		nonce += 50
		sc.Ops = append(sc.Ops, simrt.Op{K: "tx", I: []int64{txHeightOK, int64(r.Intn(NAccounts)), int64(r.Intn(NAccounts)), 11, nonce, 0}},
			simrt.Op{K: "wait", I: []int64{3000}})
		for k, m := 0, r.Range(1, 3); k < m; k++ {
			nonce += 10
			sc.Ops = append(sc.Ops, simrt.Op{K: "peerblk", I: []int64{0, 3 * int64(r.Intn(300)), 1, nonce}})
		}
		sc.Ops = append(sc.Ops, simrt.Op{K: "restart"}, simrt.Op{K: "replaylast", I: []int64{int64(r.Intn(4))}}, simrt.Op{K: "wait", I: []int64{3000}})
	}
	if r.Chance(1, 3) {
		// directed: a height-bound transaction is packed at the earliest height of
		// its window, the chain grows until that block is the oldest one the
		// duplicate window still covers, then a reorganisation of the tip offers
		// the transaction again in the replacing block
		nonce += 70
		sc.Ops = append(sc.Ops, simrt.Op{K: "edgereplay", I: []int64{int64(r.Intn(NAccounts)), int64(r.Intn(NAccounts)), nonce, int64(r.Range(-1, 1))}})
	}
	sc.Ops = append(sc.Ops, simrt.Op{K: "wait", I: []int64{5000}})
	return sc
}

func (e txEngine) Execute(t *testing.T, ctx *simrt.Ctx) *simrt.Violation {
	var viol *simrt.Violation
	simrt.InBubble(t, func() { viol = e.run(ctx) })
	return viol
}

// expired is the model's own reading of the expiry field (documented semantics):
// 0 never; <= 1e9 a height (expired once height reaches it); above the
// height-bound flag a reference height with an allowed window; else a unix time.
func expired(exp, height, blocktime, low, high int64) bool {
	const flag = int64(1) << 62
	switch {
	case exp == 0:
		return false
	case exp <= 1000000000:
		return exp <= height
	case exp > flag:
		h := exp - flag
		return !(h-low <= height && height <= h+high)
	default:
		return exp <= blocktime
	}
}

func (txEngine) run(ctx *simrt.Ctx) *simrt.Violation {
	sc := ctx.Sc
	uid := fmt.Sprintf("%s-%d-%d", sc.Property, sc.Run, ctx.Seq())
	low, high := sc.Knob("low", 3), sc.Knob("high", 5)
	// move the virtual clock past 2001-09 so that time-based expiry values
	// (> 1e9) can lie in the past; nothing is running yet, so this is free
	time.Sleep(3 * 365 * 24 * time.Hour)
	gtime := time.Now().Unix() - 3600
	// qi: 0 the transaction quick index stays off, 1 on from the start, 2 switched
	// on at the first restart (the one-off index migration runs then)
	quick := sc.Knob("qi", 0) == 1
	edit := func(s string) string {
		if !quick {
			s = replaceOnce(s, "enableTxQuickIndex=true", "enableTxQuickIndex=false")
		}
		s = replaceOnce(s, "defCacheSize=128", fmt.Sprintf("defCacheSize=%d", sc.Knob("cache", 128)))
		return replaceOnce(s, "[blockchain]", fmt.Sprintf("[blockchain]\nhighAllowPackHeight=%d\nlowAllowPackHeight=%d", high, low))
	}
	w := NewWorld(ctx, "fac-"+uid, simnode.Opts{GenesisTime: gtime, EditToml: edit})
	defer w.Fac.Close()
	defer w.Fac.Disk.Remove()
	sut := simnode.New(simnode.Opts{ID: "sut-" + uid, GenesisTime: gtime, EditToml: edit})
	defer func() { sut.Close() }()
	defer sut.Disk.Remove()
	nrestart := 0
	var lastHeightBound *types.Transaction
	simrt.Settle()
	time.Sleep(2 * time.Second)
	cfg := sut.Cfg
	minFee := cfg.GetMinTxFeeRate()

	// fund the accounts through the node's own producer
	var fund []*types.Transaction
	for a := 0; a < NAccounts; a++ {
		op := simrt.Op{K: "xfer", I: []int64{-1, int64(a), 1000000000000, int64(1000 + a)}}
		fund = append(fund, w.MakeTx(&op))
	}
	for _, tx := range fund {
		if _, err := sut.API.SendTx(tx); err != nil {
			simrt.Failf("funding tx refused: %v", err)
		}
	}
	time.Sleep(3 * time.Second)
	simrt.Settle()

	bad := map[string]string{}    // tx hash -> why it must never be on the chain
	var sent []*types.Transaction // everything ever created, for replays
	nextID := 1000
	adopted := map[string]bool{}
	adopt := func() {
		// make the factory know every block of the node's best chain
		h := sut.Chain.GetBlockHeight()
		for i := int64(1); i <= h; i++ {
			d, err := sut.Chain.GetBlock(i)
			if err != nil {
				simrt.Failf("GetBlock(%d): %v", i, err)
			}
			hs := string(d.Block.Hash(cfg))
			if adopted[hs] {
				continue
			}
			known := false
			for _, b := range w.Blocks {
				if string(b.Hash) == hs {
					known = true
				}
			}
			if !known {
				nextID++
				if w.Adopt(nextID, d.Block) == nil {
					simrt.Failf("cannot adopt block at height %d", i)
				}
			}
			adopted[hs] = true
		}
	}
	tipBuilt := func() *Built {
		lh := lastHash(sut)
		for _, b := range w.Blocks {
			if string(b.Hash) == string(lh) {
				return b
			}
		}
		return nil
	}
	mkTx := func(kind int, from, to int, amount, nonce, salt int64) *types.Transaction {
		hgt := sut.Chain.GetBlockHeight()
		now := time.Now().Unix()
		v := &cty.CoinsAction_Transfer{Transfer: &types.AssetsTransfer{Amount: amount, To: w.Addr(to)}}
		tx := &types.Transaction{Execer: []byte(cfg.GetCoinExec()), Payload: types.Encode(&cty.CoinsAction{Value: v, Ty: cty.CoinsActionTransfer}), To: w.Addr(to), Nonce: nonce, Fee: 1000000, ChainID: cfg.GetChainID()}
		why := ""
		switch kind {
		case txExpHeight:
			// expired at the current height; whether it is expired in the block that
			// finally carries it is judged by the scan with that block's own height
			tx.Expire = maxI64(1, hgt-salt%3)
		case txExpTime:
			tx.Expire = now - 1 - salt%100
		case txSoonHeight:
			tx.Expire = hgt + 2 + salt%3
		case txSoonTime:
			tx.Expire = now + 2 + salt%5
		case txHeightOK:
			tx.Expire = types.TxHeightFlag + hgt + 1
		case txHeightOut:
			tx.Expire = types.TxHeightFlag + hgt + high + low + 5 + salt%50
		case txLowFee:
			tx.Fee = 1
			why = "fee below the minimum"
		case txWrongChain:
			tx.ChainID = cfg.GetChainID() + 7
			why = "wrong chain id"
		}
		tx.Sign(types.SECP256K1, w.key(from).Priv)
		if kind == txBadSig {
			s := append([]byte(nil), tx.Signature.Signature...)
			s[len(s)-2] ^= 0x20
			tx.Signature.Signature = s
			why = "signature altered"
		}
		if why != "" {
			bad[string(tx.Hash())] = why
		}
		return tx
	}

	scan := func() *simrt.Violation {
		seen := map[string]int64{}
		h := sut.Chain.GetBlockHeight()
		for i := int64(1); i <= h; i++ {
			d, err := sut.Chain.GetBlock(i)
			if err != nil {
				return ctx.Violate("inconsistent-chain", "GetBlock", "GetBlock(%d): %v", i, err)
			}
			ctx.Probe("blocks_scanned")
			for idx, tx := range d.Block.Txs {
				th := string(tx.Hash())
				where := fmt.Sprintf("tx %x at height %d index %d (block time %d)", tx.Hash(), i, idx, d.Block.BlockTime)
				if prev, dup := seen[th]; dup {
					return ctx.Violate("bad-tx-on-chain", "replayed", "%s is also on the chain at height %d", where, prev)
				}
				seen[th] = i
				if why, isBad := bad[th]; isBad {
					return ctx.Violate("bad-tx-on-chain", "offered-invalid/"+why, "%s must never be accepted: %s", where, why)
				}
				if expired(tx.Expire, i, d.Block.BlockTime, low, high) {
					return ctx.Violate("bad-tx-on-chain", "expired", "%s has expire=%d: expired at its block's height/time", where, tx.Expire)
				}
				if !tx.CheckSign(i) {
					return ctx.Violate("bad-tx-on-chain", "signature", "%s does not verify", where)
				}
				if tx.ChainID != cfg.GetChainID() {
					return ctx.Violate("bad-tx-on-chain", "chain-id", "%s has chain id %d", where, tx.ChainID)
				}
				if tx.GroupCount == 0 {
					if need, err := tx.GetRealFee(minFee); err != nil || tx.Fee < need {
						return ctx.Violate("bad-tx-on-chain", "fee", "%s pays %d, needs %d (%v)", where, tx.Fee, need, err)
					}
				}
				det, err := sut.API.QueryTx(&types.ReqHash{Hash: tx.Hash()})
				if err != nil || det.Height != i || det.Index != int64(idx) {
					return ctx.Violate("inconsistent-chain", "tx-lookup", "%s: lookup by hash gives %v err %v", where, det, err)
				}
			}
		}
		return ChainInvariant(sut)
	}

	// grow the chain past the finalisation margin with peer blocks, so that the
	// generated forks can actually reorganise the node
	for j := 0; j < 12; j++ {
		adopt()
		tip := tipBuilt()
		if tip == nil {
			simrt.Failf("no tip after funding")
		}
		nextID++
		tx := mkTx(txGood, j%NAccounts, (j+1)%NAccounts, 1, int64(40000+j), 0)
		sent = append(sent, tx)
		b := w.BuildRaw(nextID, tip.ID, 0, 1, []*types.Transaction{tx})
		if ok, msg := Deliver(sut, b.Block, 0, "peerA"); !ok {
			simrt.Failf("warm-up block refused: %s", msg)
		}
	}
	for i := range sc.Ops {
		op := &sc.Ops[i]
		ctx.CurOp = i
		ctx.Step()
		switch op.K {
		case "wait":
			time.Sleep(time.Duration(op.Int(0)) * time.Millisecond)
			simrt.Settle()
			ctx.AddSimTime(time.Duration(op.Int(0)) * time.Millisecond)
		case "tx":
			kind := int(op.Int(0))
			var tx *types.Transaction
			if kind == txDupEarlier {
				if len(sent) == 0 {
					continue
				}
				tx = types.Clone(sent[int(op.Int(5))%len(sent)]).(*types.Transaction)
				ctx.Probe("offered_replay")
			} else {
				tx = mkTx(kind, int(op.Int(1)), int(op.Int(2)), op.Int(3), op.Int(4), op.Int(5))
				sent = append(sent, tx)
				if kind == txHeightOK {
					lastHeightBound = tx
				}
			}
			if _, isBad := bad[string(tx.Hash())]; isBad || kind == txDupEarlier || kind == txExpHeight || kind == txExpTime || kind == txHeightOut {
				ctx.Probe("offered_bad")
			}
			_, err := sut.API.SendTx(tx)
			ctx.Logf("tx kind=%d hash=%x -> %v", kind, tx.Hash()[:4], err)
			simrt.Settle()
		case "restart":
			time.Sleep(time.Second)
			simrt.Settle()
			tipBefore := lastHash(sut)
			var tipTxs []*types.Transaction
			if d, err := sut.Chain.GetBlock(sut.Chain.GetBlockHeight()); err == nil {
				tipTxs = d.Block.Txs
			}
			disk := sut.Disk
			sut.Close()
			simrt.Settle()
			nrestart++
			upgraded := false
			if sc.Knob("qi", 0) == 2 && !quick {
				quick, upgraded = true, true
				ctx.Fault("quick_index_enabled_at_restart")
			}
			sut = simnode.New(simnode.Opts{ID: fmt.Sprintf("sut-%s-r%d", uid, nrestart), Disk: disk, GenesisTime: gtime, EditToml: edit})
			simrt.Settle()
			time.Sleep(2 * time.Second)
			simrt.Settle()
			ctx.Fault("restart")
			if string(lastHash(sut)) != string(tipBefore) {
				// the producer may have added a block of pooled transactions meanwhile; the scan judges it
				ctx.Probe("tip_moved_across_restart")
			}
			if upgraded && len(tipTxs) > 0 {
				// right after the index migration: the transactions of the block that was
				// the tip come again (to the pool, then inside a peer block)
				for _, tx := range tipTxs {
					_, err := sut.API.SendTx(types.Clone(tx).(*types.Transaction))
					ctx.Logf("replay of a tip-block tx %x after the index upgrade -> %v", tx.Hash()[:4], err)
				}
				simrt.Settle()
				adopt()
				if tip := tipBuilt(); tip != nil {
					nextID++
					if b := w.BuildRaw(nextID, tip.ID, 0, maxI64(1, time.Now().Unix()-tip.Block.BlockTime), []*types.Transaction{types.Clone(tipTxs[0]).(*types.Transaction)}); b != nil {
						Deliver(sut, b.Block, 0, "peerA")
					}
				}
				ctx.Probe("offered_bad")
				ctx.Probe("replay_after_index_upgrade")
				time.Sleep(3 * time.Second)
				simrt.Settle()
			}
		case "edgereplay":
			adopt()
			tip := tipBuilt()
			if tip == nil {
				continue
			}
			hgt := sut.Chain.GetBlockHeight()
			v := &cty.CoinsAction_Transfer{Transfer: &types.AssetsTransfer{Amount: 13, To: w.Addr(int(op.Int(1)))}}
			T := &types.Transaction{Execer: []byte(cfg.GetCoinExec()), Payload: types.Encode(&cty.CoinsAction{Value: v, Ty: cty.CoinsActionTransfer}), To: w.Addr(int(op.Int(1))), Nonce: op.Int(2), Fee: 1000000, ChainID: cfg.GetChainID()}
			T.Expire = types.TxHeightFlag + hgt + 1 + low // packed at hgt+1: the earliest height of its window
			T.Sign(types.SECP256K1, w.key(int(op.Int(0))).Priv)
			sent = append(sent, T)
			nextID++
			first := w.BuildRaw(nextID, tip.ID, 0, maxI64(1, time.Now().Unix()-tip.Block.BlockTime), []*types.Transaction{T})
			if first == nil {
				continue
			}
			if ok, _ := Deliver(sut, first.Block, 0, "peerA"); !ok || string(lastHash(sut)) != string(first.Hash) {
				continue
			}
			parent := first
			grow := low + high + op.Int(3) // the block of T is then exactly at (or next to) the edge of the window
			okGrow := true
			for k := int64(0); k < grow; k++ {
				nextID++
				b := w.BuildRaw(nextID, parent.ID, 0, 1, []*types.Transaction{mkTx(txGood, int(k)%NAccounts, int(k+1)%NAccounts, 2, op.Int(2)+1+k, 0)})
				if b == nil {
					okGrow = false
					break
				}
				Deliver(sut, b.Block, 0, "peerA")
				if string(lastHash(sut)) != string(b.Hash) {
					okGrow = false
					break
				}
				parent = b
			}
			if !okGrow || parent.Up == nil {
				continue
			}
			// a heavier sibling of the tip that carries T again
			nextID++
			repl := w.BuildRaw(nextID, parent.Up.ID, 3, 1, []*types.Transaction{mkTx(txGood, 1, 2, 3, op.Int(2)+40, 0), types.Clone(T).(*types.Transaction)})
			if repl != nil {
				ok, msg := Deliver(sut, repl.Block, 0, "peerB")
				ctx.Probe("offered_bad")
				ctx.Probe("replay_at_window_edge_after_reorg")
				ctx.Logf("edge replay: T packed at %d, tip %d, replacing block h=%d ok=%v %s -> height %d", first.Height, parent.Height, repl.Height, ok, msg, sut.Chain.GetBlockHeight())
			}
		case "replaylast":
			// the last height-bound transaction again: to the pool and/or inside a peer block
			if lastHeightBound == nil {
				continue
			}
			tx := types.Clone(lastHeightBound).(*types.Transaction)
			ctx.Probe("offered_bad")
			ctx.Probe("offered_height_bound_replay")
			if op.Int(0)%2 == 0 {
				_, err := sut.API.SendTx(tx)
				ctx.Logf("replay of height-bound tx %x to the pool -> %v", tx.Hash()[:4], err)
				simrt.Settle()
			}
			if op.Int(0) >= 1 {
				adopt()
				if tip := tipBuilt(); tip != nil {
					nextID++
					if b := w.BuildRaw(nextID, tip.ID, 0, maxI64(1, time.Now().Unix()-tip.Block.BlockTime), []*types.Transaction{tx}); b != nil {
						ok, msg := Deliver(sut, b.Block, 0, "peerA")
						ctx.Logf("peer block with the height-bound replay h=%d ok=%v %s", b.Height, ok, msg)
					}
				}
			}
		case "peerblk":
			adopt()
			tip := tipBuilt()
			if tip == nil {
				continue
			}
			var txs []*types.Transaction
			for j := int64(0); j < op.Int(2); j++ {
				txs = append(txs, mkTx(txGood, int(op.Int(1)+j)%NAccounts, int(op.Int(1)+j+1)%NAccounts, 5+j, op.Int(3)+j, 0))
			}
			sent = append(sent, txs...)
			// a peer's block usually also carries transactions this node already
			// has in its own pool (the node then skips re-verifying those)
			poison := op.Int(0)
			if mp, err := sut.API.GetMempool(&types.ReqGetMempool{}); err == nil && len(mp.Txs) > 0 && (op.Int(1)%3 != 0 || poison == 4) {
				for j, t := range mp.Txs {
					if j < 2 {
						if poison == 4 && j == 0 && t.Signature != nil && len(t.Signature.Signature) > 2 && t.GroupCount == 0 {
							// the pooled transaction, but with a signature that does not verify
							t = types.Clone(t).(*types.Transaction)
							sg := append([]byte(nil), t.Signature.Signature...)
							sg[len(sg)-2] ^= 0x04
							t.Signature.Signature = sg
							ctx.Probe("offered_bad")
							ctx.Probe("peer_block_with_pooled_tx_resigned")
						}
						txs = append(txs, t)
						ctx.Probe("peer_block_shares_pool_tx")
					}
				}
			}
			if poison == 1 && len(tip.Chain()) > 0 { // replay a transaction that is on this branch
				c := tip.Chain()
				b := c[int(op.Int(1))%len(c)]
				txs = append(txs, b.Block.Txs[int(op.Int(1))%len(b.Block.Txs)])
				ctx.Probe("offered_bad")
				ctx.Probe("peer_block_with_replay")
			} else if poison == 3 && len(txs) > 0 { // the same transaction twice inside this block
				src := int(op.Int(1)) % len(txs)
				dup := types.Clone(txs[src]).(*types.Transaction)
				at := int(op.Int(1)/7) % (len(txs) + 1)
				txs = append(txs[:at:at], append([]*types.Transaction{dup}, txs[at:]...)...)
				ctx.Probe("offered_bad")
				ctx.Probe("peer_block_with_inner_duplicate")
			} else if poison == 2 {
				k := []int{txExpHeight, txExpTime, txBadSig, txWrongChain, txHeightOut}[int(op.Int(1))%5]
				txs = append(txs, mkTx(k, int(op.Int(1))%NAccounts, int(op.Int(1)+1)%NAccounts, 3, op.Int(3)+9, op.Int(1)))
				ctx.Probe("offered_bad")
				ctx.Probe("peer_block_with_invalid")
			}
			nextID++
			dt := time.Now().Unix() - tip.Block.BlockTime
			b := w.BuildRaw(nextID, tip.ID, 0, dt, txs)
			if b == nil {
				continue
			}
			ok, msg := Deliver(sut, b.Block, int(op.Int(1))%2, "peerA")
			ctx.Logf("peerblk poison=%d h=%d ok=%v %s -> height %d", poison, b.Height, ok, msg, sut.Chain.GetBlockHeight())
		case "fork":
			adopt()
			tip := tipBuilt()
			if tip == nil {
				continue
			}
			c := tip.Chain()
			depth := int(op.Int(0))
			if depth >= len(c) {
				continue
			}
			base := c[len(c)-1-depth]
			detached := c[len(c)-depth:]
			parent := base
			poison := op.Int(2)
			for j := int64(0); j < op.Int(1)+int64(depth); j++ {
				var txs []*types.Transaction
				txs = append(txs, mkTx(txGood, int(op.Int(3)+j)%NAccounts, int(op.Int(3)+j+2)%NAccounts, 9+j, op.Int(4)+j, 0))
				if j == 0 && poison == 1 && len(detached) > 0 { // re-include a tx of the detached branch: legitimate
					d := detached[int(op.Int(3))%len(detached)]
					txs = append(txs, d.Block.Txs[0])
					ctx.Probe("fork_reincludes_detached_tx")
				}
				if j == 0 && poison == 2 { // replay a tx of the common trunk: invalid
					bc := base.Chain()
					tb := bc[int(op.Int(3))%len(bc)]
					txs = append(txs, tb.Block.Txs[0])
					ctx.Probe("offered_bad")
					ctx.Probe("fork_with_trunk_replay")
				}
				if j == 0 && poison == 3 {
					txs = append(txs, mkTx(txExpHeight, 1, 2, 3, op.Int(4)+15, op.Int(3)))
					ctx.Probe("offered_bad")
				}
				sent = append(sent, txs[0])
				nextID++
				dt := int64(1)
				b := w.BuildRaw(nextID, parent.ID, 3, dt, txs)
				if b == nil {
					break
				}
				before := lastHash(sut)
				ok, msg := Deliver(sut, b.Block, int(j)%2, "peerB")
				if string(lastHash(sut)) == string(b.Hash) && string(before) != string(b.Block.ParentHash) {
					ctx.Probe("reorg")
					ctx.Fault("reorg")
				}
				ctx.Logf("fork depth=%d blk h=%d poison=%d ok=%v %s -> height %d", depth, b.Height, poison, ok, msg, sut.Chain.GetBlockHeight())
				parent = b
			}
		}
		if v := scan(); v != nil {
			return v
		}
	}
	_ = bytes.Equal
	return nil
}

func maxI64(a, b int64) int64 {
	if a > b {
		return a
	}
	return b
}
