package chainsim

import (
	"fmt"
	"testing"
	"time"

	"github.com/33cn/chain33/account"
	"github.com/33cn/chain33/common/address"
	"github.com/33cn/chain33/types"

	"verifsim/simnode"
	"verifsim/simrt"
)

func execAddr(name string) string { return address.ExecAddress(name) }

func accountKey(cfg *types.Chain33Config, addr string) []byte {
	return account.NewCoinsAccount(cfg).AccountKey(addr)
}

func init() {
	nontrivial := func(sc *simrt.Scenario, r *simrt.Result) bool {
		return r.Probes["reorg"] > 0 || r.Probes["orphan"] > 0
	}
	simrt.Register(&simrt.Info{Property: "C25", Engine: &treeEngine{prop: "C25"}, Nontrivial: nontrivial})
	simrt.Register(&simrt.Info{Property: "C26", Engine: &treeEngine{prop: "C26"}, Nontrivial: nontrivial})
}

// treeEngine delivers a generated block tree in a generated order to a real
// node and compares the result with a twin node that saw only the winning
// branch (C25); with sequence recording on it also replays the sequence log (C26).
type treeEngine struct{ prop string }

func (e *treeEngine) Name() string { return "chainsim" }

// genTxs makes 1..3 transactions; nonce values are unique per scenario.
func genTxs(r *simrt.RNG, nonce *int64, pool *[]simrt.Op) []simrt.Op {
	n := r.Range(1, 3)
	var ops []simrt.Op
	for i := 0; i < n; i++ {
		if i > 0 && len(*pool) > 0 && r.Chance(1, 4) {
			// the same transaction also appears in another block (sibling branches)
			ops = append(ops, (*pool)[r.Intn(len(*pool))])
			continue
		}
		*nonce++
		var op simrt.Op
		if r.Chance(1, 6) {
			op = simrt.Op{K: "none", I: []int64{int64(r.Intn(NAccounts)), *nonce, int64(r.Intn(2))}}
		} else {
			from := r.Intn(NAccounts)
			to := r.Intn(NAccounts) // self transfers included
			op = simrt.Op{K: "xfer", I: []int64{int64(from), int64(to), int64(r.Range(1, 5000)), *nonce}}
		}
		ops = append(ops, op)
		*pool = append(*pool, op)
	}
	return ops
}

func fundBlock(id int) simrt.Op {
	b := simrt.Op{K: "blk", I: []int64{int64(id), -1, 0, 1}}
	for a := 0; a < NAccounts; a++ {
		b.Sub = append(b.Sub, simrt.Op{K: "xfer", I: []int64{-1, int64(a), 1000000000000, int64(1000 + a)}})
	}
	return b
}

// genTree appends blk ops: a trunk and forks. Returns ids of all blocks.
func genTree(r *simrt.RNG, sc *simrt.Scenario, trunk, forks, maxBranch int) []int {
	var nonce int64 = 10000
	var pool []simrt.Op
	sc.Ops = append(sc.Ops, fundBlock(0))
	ids := []int{0}
	heights := map[int]int{0: 1}
	next := 1
	for i := 1; i < trunk; i++ {
		sc.Ops = append(sc.Ops, simrt.Op{K: "blk", I: []int64{int64(next), int64(next - 1), int64(r.Intn(2)), int64(r.Range(0, 3))}, Sub: genTxs(r, &nonce, &pool)})
		heights[next] = heights[next-1] + 1
		ids = append(ids, next)
		next++
	}
	for f := 0; f < forks; f++ {
		// fork from any existing block that is not too low (so tips can qualify)
		// mostly fork at or above the finalisation margin (height 12 with no
		// finaliser), so that the heaviest tip usually qualifies; sometimes lower
		parent := ids[r.Intn(len(ids))]
		if r.Chance(6, 7) {
			var high []int
			for _, id := range ids {
				if heights[id] >= 11 {
					high = append(high, id)
				}
			}
			if len(high) > 0 {
				parent = high[r.Intn(len(high))]
			}
		}
		n := r.Range(1, maxBranch)
		for j := 0; j < n; j++ {
			sc.Ops = append(sc.Ops, simrt.Op{K: "blk", I: []int64{int64(next), int64(parent), int64(r.Intn(len(diffBits))), int64(r.Range(0, 3))}, Sub: genTxs(r, &nonce, &pool)})
			heights[next] = heights[parent] + 1
			ids = append(ids, next)
			parent = next
			next++
		}
	}
	return ids
}

func minInt(a, b int) int {
	if a < b {
		return a
	}
	return b
}

func (e *treeEngine) Generate(prop string, r *simrt.RNG, tier string, run int) *simrt.Scenario {
	sc := &simrt.Scenario{Knobs: map[string]int64{}}
	if prop == "C26" || r.Chance(1, 2) {
		sc.Knobs["recordseq"] = 1
	}
	if prop == "C25" && r.Chance(1, 8) {
		// exhaustive sub-tier: a small tree, trunk delivered first, then EVERY
		// order of the remaining blocks (k! orders), each on a fresh node
		k := 4
		if tier == "thorough" {
			k = r.Range(4, 6)
		}
		sc.Knobs["exhaust"] = 1
		ids := genTree(r, sc, 12, 2, k/2)
		if len(ids) > 12+k {
			ids = ids[:12+k]
		}
		for _, id := range ids[:12] {
			sc.Ops = append(sc.Ops, simrt.Op{K: "dlv", I: []int64{int64(id), 0, 0}})
		}
		pa := simrt.Op{K: "permall"}
		for _, id := range ids[12:] {
			pa.I = append(pa.I, int64(id))
		}
		sc.Ops = append(sc.Ops, pa)
		return sc
	}
	if prop == "C26" && r.Chance(1, 4) {
		// the add/delete-on-request mode of the blockchain module (parallel chains)
		sc.Knobs["para"] = 1
	}
	trunk := r.Range(12, 16)
	forks := r.Range(1, 4)
	maxBranch := 6
	if tier == "quick" {
		forks = r.Range(1, 3)
		maxBranch = 4
	}
	ids := genTree(r, sc, trunk, forks, maxBranch)
	// delivery order
	var order []int
	trunkFirst := r.Chance(1, 2)
	rest := ids
	if trunkFirst {
		order = append(order, ids[:trunk]...)
		rest = ids[trunk:]
	}
	for _, i := range r.Perm(len(rest)) {
		order = append(order, rest[i])
	}
	// a clean stop and restart on the same databases somewhere in the history:
	// what was only in memory (orphans, the index of side branches) is gone, so
	// every block is delivered again afterwards
	restarts := 0
	if r.Chance(1, 3) {
		restarts = r.Range(1, 2)
	}
	restartAt := map[int]bool{}
	for i := 0; i < restarts; i++ {
		restartAt[r.Range(len(order)/2, len(order)-1)] = true
	}
	for oi, id := range order {
		if restartAt[oi] {
			sc.Ops = append(sc.Ops, simrt.Op{K: "restart"})
		}
		sc.Ops = append(sc.Ops, simrt.Op{K: "dlv", I: []int64{int64(id), int64(r.Intn(3)), int64(r.Intn(3))}})
		if r.Chance(1, 6) { // duplicate delivery, possibly later
			sc.Ops = append(sc.Ops, simrt.Op{K: "dlv", I: []int64{int64(ids[r.Intn(len(ids))]), int64(r.Intn(2)), int64(r.Intn(3))}})
		}
		if r.Chance(1, 8) {
			sc.Ops = append(sc.Ops, simrt.Op{K: "sleep", I: []int64{int64(r.Range(1, 20000))}})
		}
	}
	if restarts > 0 {
		for _, i := range r.Perm(len(ids)) {
			sc.Ops = append(sc.Ops, simrt.Op{K: "dlv", I: []int64{int64(ids[i]), int64(r.Intn(2)), int64(r.Intn(3))}})
		}
	}
	return sc
}

func seqToml(on bool) func(string) string {
	return func(s string) string {
		if on {
			return s
		}
		return replaceOnce(s, "isRecordBlockSequence=true", "isRecordBlockSequence=false")
	}
}

func (e *treeEngine) Execute(t *testing.T, ctx *simrt.Ctx) *simrt.Violation {
	var viol *simrt.Violation
	simrt.InBubble(t, func() { viol = e.run(ctx) })
	return viol
}

// runPara drives the blockchain module the way a parallel-chain consensus does
// (blockchain.isParaChain): blocks are added AND deleted on request. The blocks
// of the generated tree are visited in the scenario's delivery order; a block
// whose parent is the tip is added, a block whose parent is lower on the current
// chain is added after the blocks above its parent were deleted, anything else
// is skipped. The sequence log must replay to the chain after every step.
func (e *treeEngine) runPara(ctx *simrt.Ctx) *simrt.Violation {
	sc := ctx.Sc
	uid := fmt.Sprintf("%s-%d-%d", sc.Property, sc.Run, ctx.Seq())
	w := NewWorld(ctx, "fac-"+uid, simnode.Opts{})
	defer w.Fac.Close()
	defer w.Fac.Disk.Remove()
	edit := func(s string) string { return replaceOnce(s, "isParaChain=false", "isParaChain=true") }
	sut := simnode.New(simnode.Opts{ID: "sut-" + uid, StubMempool: true, EditToml: edit})
	defer func() { sut.Close() }()
	defer sut.Disk.Remove()
	simrt.Settle()
	time.Sleep(2 * time.Second)
	mainSeq := int64(0)
	byHash := map[string]*Built{}
	onChain := func(hash []byte) (int64, bool) {
		h := sut.Chain.GetBlockHeight()
		for i := int64(0); i <= h; i++ {
			if rh, err := sut.API.GetBlockHash(&types.ReqInt{Height: i}); err == nil && string(rh.Hash) == string(hash) {
				return i, true
			}
		}
		return 0, false
	}
	for i := range sc.Ops {
		op := &sc.Ops[i]
		ctx.CurOp = i
		ctx.Step()
		switch op.K {
		case "blk":
			if b := w.BuildOp(op); b != nil {
				byHash[string(b.Hash)] = b
			}
		case "restart":
			disk := sut.Disk
			sut.Close()
			simrt.Settle()
			sut = simnode.New(simnode.Opts{ID: fmt.Sprintf("sut-%s-r%d", uid, i), Disk: disk, StubMempool: true, EditToml: edit})
			simrt.Settle()
			time.Sleep(2 * time.Second)
			ctx.Fault("restart")
		case "dlv":
			b := w.Blocks[int(op.Int(0))]
			if b == nil {
				continue
			}
			if _, on := onChain(b.Hash); on {
				continue
			}
			ph, ok := onChain(b.Block.ParentHash)
			if !ok {
				ctx.Probe("para_skipped_parent_not_on_chain")
				if b.Height == 1 {
					g0, _ := sut.API.GetBlockHash(&types.ReqInt{Height: 0})
					simrt.Failf("para mode: the node's genesis %x is not the factory's %x", g0.GetHash(), b.Block.ParentHash)
				}
				continue
			}
			for sut.Chain.GetBlockHeight() > ph {
				tip, err := sut.Chain.GetBlock(sut.Chain.GetBlockHeight())
				if err != nil {
					simrt.Failf("GetBlock(tip): %v", err)
				}
				mainSeq++
				if err := sut.Chain.ProcDelParaChainBlockMsg(false, &types.ParaChainBlockDetail{Blockdetail: tip, Sequence: mainSeq}, "self"); err != nil {
					return ctx.Violate("seqlog", "para/delete-tip-refused", "deleting the tip (height %d) on request was refused: %v", tip.Block.Height, err)
				}
				ctx.Fault("tip_deleted_on_request")
				ctx.Probe("reorg") // blocks taken off and another branch put on
				if v := checkSequenceLog(sut); v != nil {
					v.OpIndex = i
					v.Sig = "para/after-delete/" + v.Sig
					return v
				}
			}
			mainSeq++
			_, err := sut.Chain.ProcAddParaChainBlockMsg(false, &types.ParaChainBlockDetail{Blockdetail: &types.BlockDetail{Block: types.Clone(b.Block).(*types.Block)}, Sequence: mainSeq}, "self")
			if err != nil {
				return ctx.Violate("seqlog", "para/add-refused", "adding valid block id %d (height %d) on top of its parent, the tip, was refused: %v", b.ID, b.Height, err)
			}
			ctx.Probe("para_block_added")
			if v := ChainInvariant(sut); v != nil {
				v.OpIndex = i
				return v
			}
			if v := checkSequenceLog(sut); v != nil {
				v.OpIndex = i
				v.Sig = "para/after-add/" + v.Sig
				return v
			}
		}
	}
	ctx.CurOp = len(sc.Ops)
	ctx.Probe("para_history")
	return nil
}

func (e *treeEngine) run(ctx *simrt.Ctx) *simrt.Violation {
	if ctx.Sc.Knob("exhaust", 0) == 1 {
		return e.runExhaustive(ctx)
	}
	if ctx.Sc.Knob("para", 0) == 1 {
		return e.runPara(ctx)
	}
	sc := ctx.Sc
	uid := fmt.Sprintf("%s-%d-%d", sc.Property, sc.Run, ctx.Seq())
	recseq := sc.Knob("recordseq", 0) == 1
	w := NewWorld(ctx, "fac-"+uid, simnode.Opts{})
	defer w.Fac.Close()
	defer w.Fac.Disk.Remove()
	sut := simnode.New(simnode.Opts{ID: "sut-" + uid, StubMempool: true, EditToml: seqToml(recseq)})
	defer func() { sut.Close() }()
	defer sut.Disk.Remove()
	simrt.Settle()
	time.Sleep(2 * time.Second) // past the start-up download-mode decision
	t0 := time.Now()
	nrestart := 0

	delivered := map[int]bool{}
	var maxH int64
	pids := []string{"peerA", "peerB", "peerC"}
	for i := range sc.Ops {
		op := &sc.Ops[i]
		ctx.CurOp = i
		ctx.Step()
		switch op.K {
		case "blk":
			if b := w.BuildOp(op); b != nil && b.Height > maxH {
				maxH = b.Height
			}
		case "sleep":
			time.Sleep(time.Duration(op.Int(0)) * time.Millisecond)
		case "restart":
			tipBefore := lastHash(sut)
			time.Sleep(time.Second)
			simrt.Settle()
			disk := sut.Disk
			sut.Close()
			simrt.Settle()
			nrestart++
			sut = simnode.New(simnode.Opts{ID: fmt.Sprintf("sut-%s-r%d", uid, nrestart), Disk: disk, StubMempool: true, EditToml: seqToml(recseq)})
			simrt.Settle()
			time.Sleep(2 * time.Second)
			simrt.Settle()
			ctx.Fault("restart")
			// what was delivered before is only known to the node as far as it is on disk
			delivered = map[int]bool{}
			for _, b := range w.Blocks {
				if b != nil && string(b.Hash) == string(tipBefore) {
					for x := b; x != nil; x = x.Up {
						delivered[x.ID] = true
					}
				}
			}
			if string(lastHash(sut)) != string(tipBefore) {
				return ctx.Violate("restart-wrong-chain", "clean-restart/tip-changed", "a clean stop and restart moved the best chain tip from %x to %x (height %d)", tipBefore, lastHash(sut), sut.Chain.GetBlockHeight())
			}
			if v := ChainInvariant(sut); v != nil {
				v.OpIndex = i
				v.Sig = "after-clean-restart/" + v.Sig
				return v
			}
			if recseq {
				if v := checkSequenceLog(sut); v != nil {
					v.OpIndex = i
					v.Sig = "after-clean-restart/" + v.Sig
					return v
				}
			}
		case "dlv":
			b := w.Blocks[int(op.Int(0))]
			if b == nil {
				continue
			}
			before := sut.Chain.GetBlockHeight()
			beforeHash := lastHash(sut)
			ok, msg := Deliver(sut, b.Block, int(op.Int(1)), pids[int(op.Int(2))%len(pids)])
			ctx.Logf("dlv id=%d h=%d ok=%v %s -> height %d", b.ID, b.Height, ok, msg, sut.Chain.GetBlockHeight())
			if ctx.Verbose {
				for a := 0; a < NAccounts; a++ {
					ov, err := sut.API.GetAddrOverview(&types.ReqAddr{Addr: w.Addr(a)})
					ctx.Logf("    acct %d reciver=%d txcount=%d err=%v", a, ov.GetReciver(), ov.GetTxCount(), err)
				}
			}
			if delivered[b.ID] {
				ctx.Fault("duplicate_delivery")
			}
			delivered[b.ID] = true
			if b.Up != nil && !delivered[b.Up.ID] {
				ctx.Probe("orphan")
				ctx.Fault("child_before_parent")
			}
			after := sut.Chain.GetBlockHeight()
			if after < before || (after == before && string(lastHash(sut)) != string(beforeHash)) || after > before+1 && string(beforeHash) != "" && !isAncestorHash(sut, beforeHash, before) {
				ctx.Probe("reorg")
			}
			if v := ChainInvariant(sut); v != nil {
				v.OpIndex = i
				return v
			}
			if recseq {
				if v := checkSequenceLog(sut); v != nil {
					v.OpIndex = i
					return v
				}
			}
		}
	}
	ctx.CurOp = len(sc.Ops)
	time.Sleep(3 * time.Second)
	simrt.Settle()
	ctx.AddSimTime(time.Since(t0))
	if recseq {
		if v := checkSequenceLog(sut); v != nil {
			return v
		}
	}
	if e.prop == "C26" {
		return nil
	}

	// C25 oracle
	best, unique := w.Heaviest(delivered)
	if best == nil {
		return nil
	}
	if !unique {
		ctx.Probe("tie_no_claim")
		return ChainInvariant(sut)
	}
	if best.Height < 12 {
		// the tip does not qualify (finalisation margin above finalised height 0)
		ctx.Probe("tip_below_margin_no_claim")
		return ChainInvariant(sut)
	}
	ctx.Probe("converge_checked")
	last := lastHash(sut)
	if string(last) != string(best.Hash) {
		return ctx.Violate("not-heaviest", "best-chain-tip", "after all deliveries the best chain tip is %x (height %d) but the unique heaviest branch tip is block id %d %x (height %d, td %s)",
			last, sut.Chain.GetBlockHeight(), best.ID, best.Hash, best.Height, best.TD)
	}
	return twinCompare(ctx, w, sut, best, delivered, recseq, maxH, uid, e.prop == "C14")
}

// twinCompare boots a fresh node, gives it only the chain ending at best, in
// order, and compares everything observable (and, with dumps, every key of the
// blockchain database outside the by-hash block storage) with the node under test.
func twinCompare(ctx *simrt.Ctx, w *World, sut *simnode.Node, best *Built, delivered map[int]bool, recseq bool, maxH int64, uid string, dumps bool) *simrt.Violation {
	twin := simnode.New(simnode.Opts{ID: "twin-" + uid, StubMempool: true, EditToml: seqToml(recseq)})
	defer twin.Close()
	defer twin.Disk.Remove()
	simrt.Settle()
	time.Sleep(2 * time.Second)
	for _, b := range best.Chain() {
		if ok, msg := Deliver(twin, b.Block, 0, "peerA"); !ok {
			return ctx.Violate("valid-block-rejected", "twin-in-order", "a fresh node rejected block id %d (height %d) delivered in order: %s", b.ID, b.Height, msg)
		}
	}
	var txs [][]byte
	seen := map[string]bool{}
	for _, id := range w.Order {
		if !delivered[id] {
			continue
		}
		for _, tx := range w.Blocks[id].Block.Txs {
			h := tx.Hash()
			if !seen[string(h)] {
				seen[string(h)] = true
				txs = append(txs, h)
			}
		}
	}
	addrs := []string{w.Addr(-1), execAddr("none"), execAddr(w.Cfg.GetCoinExec())}
	for a := 0; a < NAccounts; a++ {
		addrs = append(addrs, w.Addr(a))
	}
	vs, v := Observe(sut, txs, addrs, maxH+1)
	if v != nil {
		return v
	}
	vt, v := Observe(twin, txs, addrs, maxH+1)
	if v != nil {
		v.Sig = "twin/" + v.Sig
		return v
	}
	if sig, detail := vs.Diff(vt); sig != "" {
		return ctx.Violate("differs-from-twin", sig, "node that saw the whole tree vs fresh node that saw only the winning branch: %s", detail)
	}
	// the model's total difficulty agrees with the node's for the tip
	if vs.TDs[len(vs.TDs)-1] != best.TD.String() {
		return ctx.Violate("td-mismatch", "tip", "tip total difficulty %s, model %s", vs.TDs[len(vs.TDs)-1], best.TD)
	}
	if dumps {
		if fam, detail := diffLocalDump(sut, twin); fam != "" {
			return ctx.Violate("local-index-not-undone", fam, "blockchain database of the node that connected and disconnected blocks vs a node that never saw them: %s", detail)
		}
	}
	return nil
}

func lastHash(n *simnode.Node) []byte {
	h, err := n.API.GetLastHeader()
	if err != nil {
		return nil
	}
	return h.Hash
}

func isAncestorHash(n *simnode.Node, hash []byte, height int64) bool {
	rh, err := n.API.GetBlockHash(&types.ReqInt{Height: height})
	return err == nil && string(rh.Hash) == string(hash)
}

func replaceOnce(s, old, new string) string {
	for i := 0; i+len(old) <= len(s); i++ {
		if s[i:i+len(old)] == old {
			return s[:i] + new + s[i+len(old):]
		}
	}
	simrt.Failf("config text %q not found", old)
	return s
}

// checkSequenceLog is the C26 oracle: sequence numbers are consecutive from 0,
// and replaying add/del records reproduces the hash at every height.
func checkSequenceLog(n *simnode.Node) *simrt.Violation {
	last, err := n.API.GetLastBlockSequence()
	if err != nil {
		return &simrt.Violation{Class: "seqlog", Sig: "GetLastBlockSequence", Detail: err.Error()}
	}
	var stack [][]byte
	if last.Data >= 0 {
		seqs, err := n.API.GetBlockSequences(&types.ReqBlocks{Start: 0, End: last.Data})
		if err != nil {
			return &simrt.Violation{Class: "seqlog", Sig: "gap", Detail: fmt.Sprintf("GetBlockSequences(0..%d): %v", last.Data, err)}
		}
		if int64(len(seqs.Items)) != last.Data+1 {
			return &simrt.Violation{Class: "seqlog", Sig: "gap", Detail: fmt.Sprintf("last sequence %d but %d records returned", last.Data, len(seqs.Items))}
		}
		for i, it := range seqs.Items {
			if it == nil || len(it.Hash) == 0 {
				return &simrt.Violation{Class: "seqlog", Sig: "gap", Detail: fmt.Sprintf("sequence %d has no record", i)}
			}
			switch it.Type {
			case types.AddBlock:
				stack = append(stack, it.Hash)
			case types.DelBlock:
				if len(stack) == 0 || string(stack[len(stack)-1]) != string(it.Hash) {
					return &simrt.Violation{Class: "seqlog", Sig: "del-not-top", Detail: fmt.Sprintf("sequence %d deletes %x which is not the top of the replayed chain", i, it.Hash)}
				}
				stack = stack[:len(stack)-1]
			default:
				return &simrt.Violation{Class: "seqlog", Sig: "bad-type", Detail: fmt.Sprintf("sequence %d has type %d", i, it.Type)}
			}
		}
	}
	height := n.Chain.GetBlockHeight()
	if int64(len(stack)) != height+1 {
		return &simrt.Violation{Class: "seqlog", Sig: "replay-height", Detail: fmt.Sprintf("replaying the log gives %d blocks, chain height is %d", len(stack), height)}
	}
	for h := int64(0); h <= height; h++ {
		rh, err := n.API.GetBlockHash(&types.ReqInt{Height: h})
		if err != nil || string(rh.Hash) != string(stack[h]) {
			return &simrt.Violation{Class: "seqlog", Sig: "replay-hash", Detail: fmt.Sprintf("height %d: replay %x, chain %x", h, stack[h], rh.GetHash())}
		}
	}
	if ls, err := n.Chain.GetStore().LoadBlockLastSequence(); err != nil || ls != last.Data {
		return &simrt.Violation{Class: "seqlog", Sig: "last-seq", Detail: fmt.Sprintf("LoadBlockLastSequence=%d,%v API=%d", ls, err, last.Data)}
	}
	return nil
}

// runExhaustive delivers the trunk and then every permutation of the remaining
// blocks, each to a fresh node, and compares every final state with the twin.
func (e *treeEngine) runExhaustive(ctx *simrt.Ctx) *simrt.Violation {
	sc := ctx.Sc
	uid := fmt.Sprintf("%s-%d-%d", sc.Property, sc.Run, ctx.Seq())
	recseq := sc.Knob("recordseq", 0) == 1
	w := NewWorld(ctx, "fac-"+uid, simnode.Opts{})
	defer w.Fac.Close()
	defer w.Fac.Disk.Remove()
	var trunk, rest []int
	var maxH int64
	for i := range sc.Ops {
		op := &sc.Ops[i]
		switch op.K {
		case "blk":
			if b := w.BuildOp(op); b != nil && b.Height > maxH {
				maxH = b.Height
			}
		case "dlv":
			if w.Blocks[int(op.Int(0))] != nil {
				trunk = append(trunk, int(op.Int(0)))
			}
		case "permall":
			for _, id := range op.I {
				if w.Blocks[int(id)] != nil {
					rest = append(rest, int(id))
				}
			}
		}
	}
	if len(rest) > 6 {
		rest = rest[:6]
	}
	delivered := map[int]bool{}
	for _, id := range append(append([]int(nil), trunk...), rest...) {
		delivered[id] = true
	}
	best, unique := w.Heaviest(delivered)
	claim := best != nil && unique && best.Height >= 12
	var txs [][]byte
	seen := map[string]bool{}
	for _, id := range w.Order {
		if delivered[id] {
			for _, tx := range w.Blocks[id].Block.Txs {
				if h := tx.Hash(); !seen[string(h)] {
					seen[string(h)] = true
					txs = append(txs, h)
				}
			}
		}
	}
	addrs := []string{w.Addr(-1)}
	for a := 0; a < NAccounts; a++ {
		addrs = append(addrs, w.Addr(a))
	}
	var want *View
	if claim {
		twin := simnode.New(simnode.Opts{ID: "twin-" + uid, StubMempool: true, EditToml: seqToml(recseq)})
		simrt.Settle()
		time.Sleep(2 * time.Second)
		for _, b := range best.Chain() {
			if ok, msg := Deliver(twin, b.Block, 0, "peerA"); !ok {
				twin.Close()
				return ctx.Violate("valid-block-rejected", "twin-in-order", "a fresh node rejected block id %d delivered in order: %s", b.ID, msg)
			}
		}
		var v *simrt.Violation
		want, v = Observe(twin, txs, addrs, maxH+1)
		twin.Close()
		twin.Disk.Remove()
		if v != nil {
			return v
		}
	}
	perm := append([]int(nil), rest...)
	n := len(perm)
	count := 0
	var visit func(k int) *simrt.Violation
	visit = func(k int) *simrt.Violation {
		if k == n {
			count++
			sut := simnode.New(simnode.Opts{ID: fmt.Sprintf("sut-%s-%d", uid, count), StubMempool: true, EditToml: seqToml(recseq)})
			defer sut.Close()
			defer sut.Disk.Remove()
			simrt.Settle()
			time.Sleep(2 * time.Second)
			for _, id := range trunk {
				Deliver(sut, w.Blocks[id].Block, 0, "peerA")
			}
			for _, id := range perm {
				Deliver(sut, w.Blocks[id].Block, count%2, "peerB")
				if b := w.Blocks[id]; b.Up != nil {
					ctx.Probe("orphan")
				}
			}
			time.Sleep(time.Second)
			simrt.Settle()
			if recseq {
				if v := checkSequenceLog(sut); v != nil {
					return v
				}
			}
			if !claim {
				return ChainInvariant(sut)
			}
			got, v := Observe(sut, txs, addrs, maxH+1)
			if v != nil {
				return v
			}
			if string(got.Last.Hash) != string(best.Hash) {
				return ctx.Violate("not-heaviest", "best-chain-tip/exhaustive", "delivery order %v after the trunk: best chain tip is %x (height %d), the unique heaviest tip is block id %d (height %d)", perm, got.Last.Hash, got.Height, best.ID, best.Height)
			}
			if sig, detail := got.Diff(want); sig != "" {
				return ctx.Violate("differs-from-twin", sig+"/exhaustive", "delivery order %v after the trunk: %s", perm, detail)
			}
			return nil
		}
		for i := k; i < n; i++ {
			perm[k], perm[i] = perm[i], perm[k]
			if v := visit(k + 1); v != nil {
				return v
			}
			perm[k], perm[i] = perm[i], perm[k]
		}
		return nil
	}
	if v := visit(0); v != nil {
		return v
	}
	ctx.Probes["exhaustive_trees"]++
	ctx.Probes["exhaustive_orders"] += count
	ctx.Probe("reorg")
	if claim {
		ctx.Probe("converge_checked")
	}
	return nil
}
