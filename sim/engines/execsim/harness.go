package execsim

import (
	"bytes"
	"encoding/json"
	"fmt"
	"sort"
	"strings"
	"time"

	"github.com/33cn/chain33/account"
	"github.com/33cn/chain33/common/address"
	drivers "github.com/33cn/chain33/system/dapp"
	cty "github.com/33cn/chain33/system/dapp/coins/types"
	mty "github.com/33cn/chain33/system/dapp/manage/types"
	"github.com/33cn/chain33/types"
	"github.com/33cn/chain33/util"

	"verifsim/simnode"
	"verifsim/simrt"
)

// NAcc funded accounts; account index NAcc is never funded.
const NAcc = 5

// execNames are the executor names a "vm" op can carry (index = I[2]).
var execNames = []string{
	NameVM,                  // 0
	NameVN,                  // 1
	NameFR,                  // 2
	"user.p.x." + NameVM,    // 3 parachain name, executed by simvm on the main chain
	"user." + NameVM + ".q", // 4 user.<name>.<x> spelling
	"user.p.x." + NameVN,    // 5 parachain name whose driver does not allow it: runs as "none"
}

const powBits = 0x1f00ffff

type txMeta struct {
	kind     string // vm, xfer, none
	execer   string
	sender   string
	to       string
	amount   int64
	prog     *Prog
	sameTime bool // local phase runs together with Exec
	asNone   bool // the named driver does not accept the name: executed by "none"
}

type unit struct {
	txs   []*types.Transaction
	metas []*txMeta
}

type env struct {
	ctx  *simrt.Ctx
	n    *simnode.Node
	cfg  *types.Chain33Config
	acc  *account.DB
	keys []*simnode.Key
	gkey *simnode.Key
	tip  *types.Block
	m    *view // committed model state
	// key universes of the scenario (what is read back after every block)
	stateKeys, localKeys, localPrefixes []string
}

func execAddr(name string) string { return address.ExecAddress(name) }

func newEnv(ctx *simrt.Ctx, id string, opts simnode.Opts) *env {
	opts.ID = id
	opts.StubMempool = true
	e := &env{ctx: ctx}
	e.n = simnode.New(opts)
	e.cfg = e.n.Cfg
	registerDrivers(e.cfg)
	simrt.Settle()
	time.Sleep(2 * time.Second) // past the start-up download-mode decision
	g, err := e.n.Chain.GetBlock(0)
	simrt.Must(err, "genesis block")
	e.tip = g.Block
	e.acc = account.NewCoinsAccount(e.cfg)
	e.gkey = simnode.GenesisKey()
	for i := 0; i <= NAcc; i++ {
		e.keys = append(e.keys, simnode.AccountKey(i))
	}
	e.m = newView()
	e.m.setBalance(e.gkey.Addr, 1e8*e.cfg.GetCoinPrecision())
	return e
}

func (e *env) close() {
	e.n.Close()
	e.n.Disk.Remove()
}

func (e *env) key(i int64) *simnode.Key {
	if i < 0 {
		return e.gkey
	}
	return e.keys[int(i)%len(e.keys)]
}

func insFromOp(op *simrt.Op) (phase string, in Ins) {
	parts := strings.SplitN(op.K, ":", 2)
	if len(parts) != 2 {
		return "", in
	}
	in.Op = parts[1]
	in.K = op.B(0)
	in.V = op.B(1)
	in.N = op.Int(0)
	return parts[0], in
}

// makeTx builds an unsigned-group-ready transaction from a generated op:
//
//	vm   I=[sender,nonce,nameIdx] Sub=instructions ("x:<op>" / "l:<op>", S=[hex k, hex v], I=[n])
//	xfer I=[from,to,amount,nonce] coins transfer (from=-1: genesis account); S[0] overrides the recipient
//	none I=[from,nonce]
func (e *env) makeTx(op *simrt.Op) (*types.Transaction, *txMeta) {
	var tx *types.Transaction
	m := &txMeta{kind: op.K}
	switch op.K {
	case "vm":
		name := execNames[int(op.Int(2))%len(execNames)]
		p := &Prog{T: op.Int(1)}
		for i := range op.Sub {
			ph, in := insFromOp(&op.Sub[i])
			if in.Op == "cxfer" {
				in.K = []byte(e.key(in.N % 16).Addr)
				in.N = in.N / 16
			}
			switch ph {
			case "x":
				p.X = append(p.X, in)
			case "l":
				p.L = append(p.L, in)
			}
		}
		payload, _ := json.Marshal(p)
		m.execer, m.prog = name, p
		real := realExecOf(name)
		m.sameTime = real == NameVM
		m.asNone = name == execNames[5]
		m.sender = e.key(op.Int(0)).Addr
		tx = &types.Transaction{Execer: []byte(name), Payload: payload, To: execAddr(name), Nonce: op.Int(1)}
	case "xfer":
		to := e.key(op.Int(1)).Addr
		if s := op.Str(0); s != "" {
			to = s
		}
		v := &cty.CoinsAction_Transfer{Transfer: &types.AssetsTransfer{Amount: op.Int(2), To: to}}
		tx = &types.Transaction{Execer: []byte(e.cfg.GetCoinExec()), Payload: types.Encode(&cty.CoinsAction{Value: v, Ty: cty.CoinsActionTransfer}), To: to, Nonce: op.Int(3)}
		m.execer, m.sender, m.to, m.amount = e.cfg.GetCoinExec(), e.key(op.Int(0)).Addr, to, op.Int(2)
	case "none":
		tx = &types.Transaction{Execer: []byte("none"), Payload: []byte(fmt.Sprintf("none-%d", op.Int(1))), To: execAddr("none"), Nonce: op.Int(1)}
		m.execer, m.sender = "none", e.key(op.Int(0)).Addr
	case "mng": // I=[from,nonce,keyIdx,opIdx]: manage executor configuration change (not modelled; C13 only)
		mod := &types.ModifyConfig{Key: []string{"token-blacklist", "execsim-list"}[int(op.Int(2))%2], Op: []string{"add", "delete"}[int(op.Int(3))%2], Value: fmt.Sprintf("v%d", op.Int(1)%3)}
		act := &mty.ManageAction{Value: &mty.ManageAction_Modify{Modify: mod}, Ty: mty.ManageActionModifyConfig}
		tx = &types.Transaction{Execer: []byte("manage"), Payload: types.Encode(act), To: execAddr("manage"), Nonce: op.Int(1)}
		m.execer, m.sender = "manage", e.key(op.Int(0)).Addr
	default:
		return nil, nil
	}
	tx.Fee = 1000000
	tx.ChainID = e.cfg.GetChainID()
	tx.Sign(types.SECP256K1, e.key(op.Int(0)).Priv)
	return tx, m
}

// makeUnit expands an op into a single transaction or (K="group") a signed group.
func (e *env) makeUnit(op *simrt.Op) *unit {
	if op.K != "group" {
		tx, m := e.makeTx(op)
		if tx == nil {
			return nil
		}
		return &unit{txs: []*types.Transaction{tx}, metas: []*txMeta{m}}
	}
	u := &unit{}
	var signers []int64
	for i := range op.Sub {
		tx, m := e.makeTx(&op.Sub[i])
		if tx != nil {
			u.txs = append(u.txs, tx)
			u.metas = append(u.metas, m)
			signers = append(signers, op.Sub[i].Int(0))
		}
	}
	if len(u.txs) == 0 {
		return nil
	}
	if len(u.txs) < 2 {
		return u
	}
	g, err := types.CreateTxGroup(u.txs, e.cfg.GetMinTxFeeRate())
	if err != nil {
		simrt.Failf("CreateTxGroup: %v", err)
	}
	for i := range g.Txs {
		g.Txs[i].Signature = nil
		if err := g.SignN(i, types.SECP256K1, e.key(signers[i]).Priv); err != nil {
			simrt.Failf("SignN: %v", err)
		}
	}
	u.txs = g.Txs
	return u
}

// newBlock builds the next block on the tip.
func (e *env) newBlock(txs []*types.Transaction) *types.Block {
	return &types.Block{
		ParentHash: e.tip.Hash(e.cfg), Height: e.tip.Height + 1,
		BlockTime: e.tip.BlockTime + 1, Difficulty: powBits, Txs: txs,
	}
}

// execTxList sends EventExecTxList and returns the raw receipts or the error reply.
func execTxList(n *simnode.Node, prevState []byte, b *types.Block) (*types.Receipts, error) {
	list := &types.ExecTxList{
		StateHash: prevState, ParentHash: b.ParentHash, MainHash: b.MainHash, MainHeight: b.MainHeight,
		Txs: b.Txs, BlockTime: b.BlockTime, Height: b.Height, Difficulty: uint64(b.Difficulty),
	}
	msg := n.Client.NewMessage("execs", types.EventExecTxList, list)
	if err := n.Client.Send(msg, true); err != nil {
		simrt.Failf("send EventExecTxList: %v", err)
	}
	// (WaitTimeout: client.Wait panics when the ANSWER is the queue-timeout error,
	// which the executor returns for an execution abandoned on an environment fault)
	resp, err := n.Client.WaitTimeout(msg, 24*time.Hour)
	if err != nil {
		return nil, err // an error reply of the executor arrives here
	}
	switch v := resp.GetData().(type) {
	case *types.Receipts:
		return v, nil
	case error:
		return nil, v
	}
	simrt.Failf("EventExecTxList: unexpected reply %T", resp.GetData())
	return nil, nil
}

// execLocal sends EventAddBlock / EventDelBlock to the executor and returns its reply.
func execLocal(n *simnode.Node, ty int64, d *types.BlockDetail) (*types.LocalDBSet, error) {
	msg := n.Client.NewMessage("execs", ty, types.Clone(d).(*types.BlockDetail))
	if err := n.Client.Send(msg, true); err != nil {
		simrt.Failf("send exec local: %v", err)
	}
	resp, err := n.Client.Wait(msg)
	if err != nil {
		return nil, err // an error reply of the executor arrives here
	}
	switch v := resp.GetData().(type) {
	case *types.LocalDBSet:
		return v, nil
	case error:
		return nil, v
	}
	simrt.Failf("exec local: unexpected reply %T", resp.GetData())
	return nil, nil
}

// deliver hands a block to the blockchain module the way p2p does.
func deliver(n *simnode.Node, blk *types.Block) (bool, string) {
	msg := n.Client.NewMessage("blockchain", types.EventBroadcastAddBlock, &types.BlockPid{Pid: "peerA", Block: types.Clone(blk).(*types.Block)})
	if err := n.Client.Send(msg, true); err != nil {
		simrt.Failf("deliver send: %v", err)
	}
	resp, err := n.Client.Wait(msg)
	if err != nil {
		simrt.Failf("deliver wait: %v", err)
	}
	simrt.Settle()
	r, ok := resp.GetData().(*types.Reply)
	if !ok {
		simrt.Failf("deliver: unexpected reply %T", resp.GetData())
	}
	return r.IsOk, string(r.Msg)
}

// ---------------------------------------------------------------------------
// model of a block

// tyEither: ExecOk or ExecPack are both acceptable (executed by "none").
const tyEither = int32(-1)

type expRcpt struct {
	ty                           int32 // expected type or tyEither
	kvs                          []expKV
	reads                        []ReadRec
	hasLog                       bool
	why                          string // failure kind of the unit ("" = success)
	ghostS                       []string
	ghostL                       []string
	ghostReads, outside, deposit int
}

type blockModel struct {
	rc       []*expRcpt
	after    *view // view after the block's EventExecTxList semantics
	badLocal bool  // some otherwise-successful transaction reports a local key without its prefix
	// ghost writes: keys written by transactions that then failed (key -> failure kind)
	ghostState, ghostLocal map[string]string
}

func (e *env) acctKV(v *view, addr string) expKV {
	return expKV{key: e.acc.AccountKey(addr), isAcct: true, addr: addr, bal: v.balance(addr)}
}

// modelBlock runs the reference interpreter over the block's units on top of e.m.
func (e *env) modelBlock(units []*unit) *blockModel {
	bm := &blockModel{after: e.m.child(), ghostState: map[string]string{}, ghostLocal: map[string]string{}}
	blk := bm.after
	for _, u := range units {
		head := u.metas[0]
		fee := u.txs[0].Fee
		if blk.balance(head.sender) < fee {
			for range u.txs {
				bm.rc = append(bm.rc, &expRcpt{ty: types.ExecErr, why: "no-fee"})
			}
			continue
		}
		blk.setBalance(head.sender, blk.balance(head.sender)-fee)
		feeKV := e.acctKV(blk, head.sender)
		txv := blk.child()
		rcs := make([]*expRcpt, len(u.txs))
		why := ""
		var gs, gl []string
		for i, m := range u.metas {
			rc := &expRcpt{ty: types.ExecOk}
			rcs[i] = rc
			switch {
			case m.kind == "none" || m.asNone:
				rc.ty = tyEither
			case m.kind == "xfer":
				switch {
				case m.amount <= 0:
					why = "coins-amount"
				case m.to == m.sender:
					why = "coins-self"
				case txv.balance(m.sender) < m.amount:
					why = "coins-balance"
				default:
					txv.setBalance(m.sender, txv.balance(m.sender)-m.amount)
					rc.kvs = append(rc.kvs, e.acctKV(txv, m.sender))
					txv.setBalance(m.to, txv.balance(m.to)+m.amount)
					rc.kvs = append(rc.kvs, e.acctKV(txv, m.to))
				}
			case m.kind == "vm":
				r := runProg(txv, m.prog, m.execer, m.sender, m.sameTime, execAddr)
				if i > 0 {
					for _, k := range r.wrote {
						for _, k0 := range gs {
							if k == k0 {
								if !r.ok && r.why == "unreported-key" {
									e.ctx.Probe("group_member_rewrote_earlier_key_unreported")
								} else if r.ok {
									e.ctx.Probe("group_member_rewrote_earlier_key")
								}
							}
						}
					}
				}
				gs = append(gs, r.wrote...)
				gl = append(gl, r.lwrote...)
				if !r.ok {
					why = r.why
					if r.badLocal {
						bm.badLocal = true
					}
				} else {
					rc.kvs, rc.reads, rc.hasLog = r.kvs, r.reads, true
					for _, rd := range r.reads {
						if strings.Contains(bm.readSig(rd), "-after/") {
							rc.ghostReads++
						}
					}
					for _, kv := range r.kvs {
						if ns, _ := keyNamespace(kv.key); ns != m.execer {
							rc.outside++
							if _, dep := depositArea(kv.key); dep {
								rc.deposit++
							}
						}
					}
				}
			}
			if why != "" {
				break
			}
		}
		if why == "" {
			txv.commit()
			for _, rc := range rcs {
				if rc.ghostReads > 0 {
					e.ctx.Probe("read_after_failed_write")
				}
				if rc.outside > 0 {
					e.ctx.Probe("allowed_outside_own_namespace")
				}
				if rc.deposit > 0 {
					e.ctx.Probe("allowed_own_deposit_area")
				}
				if rc.outside > rc.deposit {
					e.ctx.Probe("allowed_friend_area")
				}
			}
			if len(rcs) > 1 {
				e.ctx.Probe("group_committed")
			}
			rcs[0].kvs = append([]expKV{feeKV}, rcs[0].kvs...)
		} else {
			for i := range rcs {
				rcs[i] = &expRcpt{ty: types.ExecPack, why: why}
			}
			rcs[0].kvs = []expKV{feeKV}
			for _, k := range gs {
				bm.ghostState[k] = why
			}
			for _, k := range gl {
				bm.ghostLocal[k] = why
			}
			rcs[0].ghostS, rcs[0].ghostL = gs, gl
		}
		bm.rc = append(bm.rc, rcs...)
	}
	return bm
}

// ---------------------------------------------------------------------------
// comparison of receipts

func decodeReads(r *types.Receipt) ([]ReadRec, bool) {
	for _, l := range r.Logs {
		if l.Ty == TyLogRead {
			var rr []ReadRec
			if json.Unmarshal(l.Log, &rr) != nil {
				return nil, false
			}
			return rr, true
		}
	}
	return nil, false
}

func readEq(a, b ReadRec) bool {
	if a.Op != b.Op || !bytes.Equal(a.K, b.K) || a.E != b.E {
		return false
	}
	if a.E != "" {
		return true
	}
	switch a.Op {
	case "llist":
		if len(a.Vs) != len(b.Vs) {
			return false
		}
		for i := range a.Vs {
			if !bytes.Equal(a.Vs[i], b.Vs[i]) {
				return false
			}
		}
		return true
	}
	return a.F == b.F && bytes.Equal(a.V, b.V)
}

func fmtRead(r ReadRec) string {
	if r.E != "" {
		return fmt.Sprintf("%s(%q)=%s", r.Op, r.K, r.E)
	}
	if r.Op == "llist" {
		return fmt.Sprintf("llist(%q)=%q", r.K, r.Vs)
	}
	if !r.F {
		return fmt.Sprintf("%s(%q)=<absent>", r.Op, r.K)
	}
	return fmt.Sprintf("%s(%q)=%q", r.Op, r.K, r.V)
}

func tyName(t int32) string {
	switch t {
	case types.ExecErr:
		return "ExecErr"
	case types.ExecPack:
		return "ExecPack"
	case types.ExecOk:
		return "ExecOk"
	case tyEither:
		return "ExecOk|ExecPack"
	}
	return fmt.Sprint(t)
}

// kvMismatch compares a receipt's KV list with the expectation.
func kvMismatch(got []*types.KeyValue, exp []expKV) string {
	if len(got) != len(exp) {
		return fmt.Sprintf("receipt has %d KV, expected %d (got keys %q)", len(got), len(exp), kvKeys(got))
	}
	for i, x := range exp {
		if !bytes.Equal(got[i].Key, x.key) {
			return fmt.Sprintf("KV[%d] key %q, expected %q", i, got[i].Key, x.key)
		}
		if x.isAcct {
			var a types.Account
			if err := types.Decode(got[i].Value, &a); err != nil {
				return fmt.Sprintf("KV[%d] %q is not an account: %v", i, x.key, err)
			}
			if a.Balance != x.bal || a.Frozen != 0 {
				return fmt.Sprintf("KV[%d] account %s balance %d frozen %d, expected balance %d", i, x.addr, a.Balance, a.Frozen, x.bal)
			}
		} else if !bytes.Equal(got[i].Value, x.val) {
			return fmt.Sprintf("KV[%d] %q = %q, expected %q", i, x.key, got[i].Value, x.val)
		}
	}
	return ""
}

func kvKeys(kvs []*types.KeyValue) []string {
	var s []string
	for _, kv := range kvs {
		s = append(s, string(kv.Key))
	}
	return s
}

// readSig names what kind of stale data a read returned, for signatures: which
// ghost write (a write of a transaction that failed) it corresponds to, if any.
func (bm *blockModel) readSig(r ReadRec) string {
	switch r.Op {
	case "sget":
		if why, ok := bm.ghostState[string(r.K)]; ok {
			return "state-read-after/" + why
		}
		return "state-read"
	case "lget":
		if why, ok := bm.ghostLocal[string(r.K)]; ok {
			return "local-get-after/" + why
		}
		return "local-get"
	case "llist":
		whys := map[string]bool{}
		for k, why := range bm.ghostLocal {
			if strings.HasPrefix(k, string(r.K)) {
				whys[why] = true
			}
		}
		if len(whys) > 0 {
			var l []string
			for w := range whys {
				l = append(l, w)
			}
			sort.Strings(l)
			return "local-list-after/" + strings.Join(l, "+")
		}
		return "local-list"
	}
	return r.Op
}

// compareReceipts is the C11/C12 receipt oracle. classes:
//
//	receipt-type        a transaction's receipt type differs from the reference
//	receipt-kv          the reported KV set differs (e.g. a failed transaction reports more than its fee)
//	later-read-differs  a later transaction read something else than "failed ones only paid their fee"
func (e *env) compareReceipts(units []*unit, bm *blockModel, got *types.Receipts) *simrt.Violation {
	var metas []*txMeta
	for _, u := range units {
		metas = append(metas, u.metas...)
	}
	if len(got.Receipts) != len(bm.rc) {
		return e.ctx.Violate("receipt-count", "count", "%d receipts for %d transactions", len(got.Receipts), len(bm.rc))
	}
	for i, x := range bm.rc {
		g := got.Receipts[i]
		m := metas[i]
		what := fmt.Sprintf("tx %d (%s %s)", i, m.kind, m.execer)
		okTy := g.Ty == x.ty || (x.ty == tyEither && (g.Ty == types.ExecOk || g.Ty == types.ExecPack))
		if !okTy {
			sig := fmt.Sprintf("%s-instead-of-%s/%s", tyName(g.Ty), tyName(x.ty), x.why)
			return e.ctx.Violate("receipt-type", sig, "%s: receipt type %s, reference says %s (%s); logs: %s", what, tyName(g.Ty), tyName(x.ty), orOK(x.why), fmtLogs(g))
		}
		if g.Ty == types.ExecErr {
			if len(g.KV) != 0 {
				return e.ctx.Violate("receipt-kv", "execerr-with-kv", "%s: ExecErr receipt carries KV %q", what, kvKeys(g.KV))
			}
			continue
		}
		if d := kvMismatch(g.KV, x.kvs); d != "" {
			sig := "ok/" + m.kind
			if x.why != "" {
				sig = "failed/" + x.why
			}
			return e.ctx.Violate("receipt-kv", sig, "%s (%s): %s", what, orOK(x.why), d)
		}
		if x.hasLog {
			rr, ok := decodeReads(g)
			if !ok {
				return e.ctx.Violate("receipt-kv", "no-read-log", "%s: successful program receipt has no read log", what)
			}
			if len(rr) != len(x.reads) {
				return e.ctx.Violate("later-read-differs", "read-count", "%s: %d reads logged, expected %d", what, len(rr), len(x.reads))
			}
			for j := range rr {
				if !readEq(rr[j], x.reads[j]) {
					return e.ctx.Violate("later-read-differs", bm.readSig(x.reads[j]), "%s read #%d: executor saw %s, reference (failed transactions only paid their fee) says %s", what, j, fmtRead(rr[j]), fmtRead(x.reads[j]))
				}
			}
		}
	}
	return nil
}

func orOK(s string) string {
	if s == "" {
		return "success"
	}
	return "fails: " + s
}

func fmtLogs(r *types.Receipt) string {
	var s []string
	for _, l := range r.Logs {
		if l.Ty == types.TyLogErr {
			s = append(s, "err:"+string(l.Log))
		} else {
			s = append(s, fmt.Sprintf("ty%d", l.Ty))
		}
	}
	return strings.Join(s, ",")
}

// ---------------------------------------------------------------------------
// committed state / local data

func (e *env) noteKeys(units []*unit) {
	addS := func(k string) {
		for _, x := range e.stateKeys {
			if x == k {
				return
			}
		}
		e.stateKeys = append(e.stateKeys, k)
	}
	addL := func(k string) {
		for _, x := range e.localKeys {
			if x == k {
				return
			}
		}
		e.localKeys = append(e.localKeys, k)
	}
	addP := func(k string) {
		for _, x := range e.localPrefixes {
			if x == k {
				return
			}
		}
		e.localPrefixes = append(e.localPrefixes, k)
	}
	for _, u := range units {
		for _, m := range u.metas {
			if m.prog == nil {
				continue
			}
			for _, in := range m.prog.X {
				switch in.Op {
				case "sset", "sget", "emit":
					if len(in.K) > 0 {
						addS(string(in.K))
					}
				case "lget":
					addL(string(in.K))
				case "llist":
					addP(string(in.K))
				}
			}
			for _, in := range m.prog.L {
				switch in.Op {
				case "lset", "lsetq", "lemit":
					addL(string(in.K))
				case "lcopy":
					addL(string(in.K))
					addL(string(in.V))
				case "llist":
					addP(string(in.K))
					addL(string(in.V))
				}
			}
		}
	}
}

// checkState reads every key of the universe and every account at the given
// state root and compares with the model.
func (e *env) checkState(root []byte, v *view, bm *blockModel) *simrt.Violation {
	var keys [][]byte
	for _, k := range e.stateKeys {
		keys = append(keys, []byte(k))
	}
	if len(keys) > 0 {
		vals, err := e.n.API.StoreGet(&types.StoreGet{StateHash: root, Keys: keys})
		if err != nil {
			return e.ctx.Violate("state-unreadable", "StoreGet", "StoreGet at %x: %v", root, err)
		}
		for i, k := range e.stateKeys {
			want, ok := v.state.get(k)
			var got []byte
			if i < len(vals.Values) {
				got = vals.Values[i]
			}
			if (got != nil) != ok || !bytes.Equal(got, want) {
				sig := "key"
				if why, g := bm.ghostState[k]; g {
					sig = "written-by-failed/" + why
				}
				return e.ctx.Violate("committed-state-differs", sig, "state key %q after the block: %q, reference %q (present=%v)", k, got, want, ok)
			}
		}
	}
	addrs := []string{e.gkey.Addr}
	for _, k := range e.keys {
		addrs = append(addrs, k.Addr)
	}
	for _, a := range addrs {
		vals, err := e.n.API.StoreGet(&types.StoreGet{StateHash: root, Keys: [][]byte{e.acc.AccountKey(a)}})
		if err != nil {
			return e.ctx.Violate("state-unreadable", "StoreGet", "StoreGet at %x: %v", root, err)
		}
		var acc types.Account
		if len(vals.Values) > 0 && vals.Values[0] != nil {
			_ = types.Decode(vals.Values[0], &acc)
		}
		if acc.Balance != v.balance(a) {
			return e.ctx.Violate("committed-state-differs", "balance", "account %s balance %d after the block, reference %d", a, acc.Balance, v.balance(a))
		}
	}
	return nil
}

// checkLocal reads the local-data universe from the blockchain database.
func (e *env) checkLocal(v *view, bm *blockModel) *simrt.Violation {
	for _, k := range e.localKeys {
		r, err := e.n.API.LocalGet(&types.LocalDBGet{Keys: [][]byte{[]byte(k)}})
		if err != nil {
			return e.ctx.Violate("local-unreadable", "LocalGet", "LocalGet(%q): %v", k, err)
		}
		var got []byte
		if len(r.Values) > 0 {
			got = r.Values[0]
		}
		want, ok := v.local.get(k)
		if (got != nil) != ok || !bytes.Equal(got, want) {
			sig := "key"
			if why, g := bm.ghostLocal[k]; g {
				sig = "written-by-failed/" + why
			}
			return e.ctx.Violate("committed-local-differs", sig, "local key %q after the block was connected: %q, reference %q (present=%v)", k, got, want, ok)
		}
	}
	for _, p := range e.localPrefixes {
		r, err := e.n.API.LocalList(&types.LocalDBList{Prefix: []byte(p), Direction: 1})
		if err != nil {
			return e.ctx.Violate("local-unreadable", "LocalList", "LocalList(%q): %v", p, err)
		}
		want := v.local.list(p)
		ok := len(r.Values) == len(want)
		for i := 0; ok && i < len(want); i++ {
			ok = bytes.Equal(r.Values[i], want[i])
		}
		if !ok {
			return e.ctx.Violate("committed-local-differs", "list", "local list %q after the block was connected: %q, reference %q", p, r.Values, want)
		}
	}
	return nil
}

// ---------------------------------------------------------------------------
// one block through the real executor, compared with the model

type blockOutcome struct {
	detail  *types.BlockDetail
	skipped string // why nothing was committed
}

// runBlock executes the block op against the node and the model.
func (e *env) runBlock(op *simrt.Op) (*blockOutcome, *simrt.Violation) {
	ctx := e.ctx
	var units []*unit
	var txs []*types.Transaction
	seen := map[string]bool{}
	for i := range op.Sub {
		u := e.makeUnit(&op.Sub[i])
		if u == nil {
			continue
		}
		dup := false
		for _, tx := range u.txs {
			if seen[string(tx.Hash())] {
				dup = true
			}
		}
		if dup {
			continue
		}
		for _, tx := range u.txs {
			seen[string(tx.Hash())] = true
		}
		units = append(units, u)
		txs = append(txs, u.txs...)
	}
	if len(txs) == 0 {
		return &blockOutcome{skipped: "empty"}, nil
	}
	e.noteKeys(units)
	bm := e.modelBlock(units)
	blk := e.newBlock(txs)
	prev := e.tip.StateHash

	raw, err := execTxList(e.n, prev, blk)
	if err != nil {
		if bm.badLocal {
			// a local key without the executor's prefix: the executor refuses the
			// whole list; nothing of it may become visible (checked by later blocks)
			ctx.Probe("local_prefix_refused_list")
			return &blockOutcome{skipped: "bad-local-prefix"}, nil
		}
		return nil, ctx.Violate("exec-reply-error", "EventExecTxList", "EventExecTxList of a block of well-formed transactions answered an error: %v", err)
	}
	if bm.badLocal {
		return nil, ctx.Violate("local-prefix", "same-time-accepted", "a transaction reporting a local key without its executor's prefix went through EventExecTxList: %s", describeReceipts(raw))
	}
	if v := e.compareReceipts(units, bm, raw); v != nil {
		return nil, v
	}
	for i, x := range bm.rc {
		if x.why != "" && x.ty == types.ExecPack {
			ctx.Fault("tx_failed/" + x.why)
			if i < len(bm.rc) && (len(x.ghostS) > 0 || len(x.ghostL) > 0) {
				ctx.Probe("failed_after_writes")
			}
		}
		if x.ty == types.ExecErr {
			ctx.Fault("tx_dropped")
		}
	}

	// build the block for real (drops ExecErr transactions, commits the state)
	detail, _, err := util.ExecBlock(e.n.Client, prev, types.Clone(blk).(*types.Block), false, true, false)
	if err != nil {
		return nil, ctx.Violate("exec-reply-error", "ExecBlock", "ExecBlock failed: %v", err)
	}
	var wantTxs [][]byte
	var wantTy []int32
	for i, x := range bm.rc {
		if x.ty != types.ExecErr {
			wantTxs = append(wantTxs, txs[i].Hash())
			wantTy = append(wantTy, raw.Receipts[i].Ty)
		}
	}
	if len(detail.Block.Txs) != len(wantTxs) {
		return nil, ctx.Violate("block-content", "tx-count", "built block keeps %d transactions, reference %d", len(detail.Block.Txs), len(wantTxs))
	}
	for i, tx := range detail.Block.Txs {
		if !bytes.Equal(tx.Hash(), wantTxs[i]) || detail.Receipts[i].Ty != wantTy[i] {
			return nil, ctx.Violate("block-content", "tx-order-or-type", "built block transaction %d differs from the executed list", i)
		}
	}
	if len(detail.Block.Txs) == 0 {
		return &blockOutcome{skipped: "all-dropped"}, nil
	}
	if v := e.checkState(detail.Block.StateHash, bm.after, bm); v != nil {
		return nil, v
	}

	// local data: the executor's answer to EventAddBlock, then the real connection
	addLocal, expLocal, lfail := e.modelAddBlock(units, bm)
	add, err := execLocal(e.n, types.EventAddBlock, detail)
	if err != nil {
		if lfail != "" {
			ctx.Probe("local_prefix_refused_addblock")
			return &blockOutcome{skipped: lfail}, nil
		}
		return nil, ctx.Violate("exec-reply-error", "EventAddBlock", "EventAddBlock answered an error: %v", err)
	}
	if lfail != "" {
		return nil, ctx.Violate("local-prefix", "addblock-accepted", "EventAddBlock accepted a block in which a transaction's local phase must be refused (%s)", lfail)
	}
	if v := e.compareLocalKV(add, expLocal, units); v != nil {
		return nil, v
	}
	ok, msg := deliver(e.n, detail.Block)
	if !ok {
		return nil, ctx.Violate("block-rejected", "deliver", "the block built by the executor was rejected by the blockchain: %s", msg)
	}
	if h := e.n.Chain.GetBlockHeight(); h != detail.Block.Height {
		return nil, ctx.Violate("block-rejected", "height", "after delivering height %d the chain height is %d (%s)", detail.Block.Height, h, msg)
	}
	addLocal.commit() // local writes of the connected block
	bm.after.state.commit()
	bm.after.bal.commit()
	e.tip = detail.Block
	if v := e.checkLocal(e.m, bm); v != nil {
		return nil, v
	}
	ctx.State(simrt.DigestOf(detail.Block.StateHash))
	return &blockOutcome{detail: detail}, nil
}

func describeReceipts(r *types.Receipts) string {
	var s []string
	for _, x := range r.Receipts {
		s = append(s, tyName(x.Ty))
	}
	return strings.Join(s, ",")
}

// modelAddBlock: reference for what connecting the block does to local data: the
// local phase of every successful program, in block order, replayed from the
// pre-block local data. Returns the resulting local layer, the expected reported
// KV sequence of the synthetic executors, or a refusal reason.
func (e *env) modelAddBlock(units []*unit, bm *blockModel) (*layer, []localKV, string) {
	local := newLayer(e.m.local)
	var out []localKV
	i := 0
	for _, u := range units {
		for _, m := range u.metas {
			rc := bm.rc[i]
			i++
			if rc.ty != types.ExecOk || m.kind != "vm" || m.asNone {
				continue
			}
			r := &progResult{}
			tv := &view{state: bm.after.state, bal: bm.after.bal, local: newLayer(local)}
			why, _ := runLocal(tv, m.prog, m.execer, r)
			if why != "" {
				return nil, nil, why
			}
			out = append(out, r.lseq...)
			tv.local.commit()
		}
	}
	return local, out, ""
}

// compareLocalKV: the EventAddBlock reply restricted to the scenario's local keys
// must be exactly the successful programs' reported local writes, and no key of
// a synthetic executor may lack its prefix (C12).
func (e *env) compareLocalKV(add *types.LocalDBSet, exp []localKV, units []*unit) *simrt.Violation {
	uni := map[string]bool{}
	for _, k := range e.localKeys {
		uni[k] = true
	}
	var names []string
	for _, u := range units {
		for _, m := range u.metas {
			if m.kind == "vm" {
				names = append(names, m.execer)
			}
		}
	}
	var got []localKV
	for _, kv := range add.KV {
		if uni[string(kv.Key)] {
			got = append(got, localKV{kv.Key, kv.Value})
			ok := false
			for _, n := range names {
				ok = ok || localKeyAllowed(kv.Key, n)
			}
			if !ok {
				return e.ctx.Violate("local-prefix", "addblock-reply-bad-key", "EventAddBlock reply carries local key %q which has the local prefix of none of the block's executors %q", kv.Key, names)
			}
		}
	}
	if len(got) != len(exp) {
		return e.ctx.Violate("addblock-local-differs", "count", "EventAddBlock reports %d local writes of the synthetic executors, reference %d: got %s want %s", len(got), len(exp), fmtLKV(got), fmtLKV(exp))
	}
	for i := range exp {
		if !bytes.Equal(got[i].k, exp[i].k) {
			return e.ctx.Violate("addblock-local-differs", "key", "EventAddBlock local write %d is %q, reference %q", i, got[i].k, exp[i].k)
		}
		if !bytes.Equal(got[i].v, exp[i].v) {
			return e.ctx.Violate("addblock-local-differs", "value", "EventAddBlock local write %d %q = %q, reference %q", i, got[i].k, got[i].v, exp[i].v)
		}
	}
	return nil
}

func fmtLKV(l []localKV) string {
	var s []string
	for _, x := range l {
		s = append(s, fmt.Sprintf("%q=%q", x.k, x.v))
	}
	return "[" + strings.Join(s, " ") + "]"
}

var _ = drivers.ExecAddress
