package execsim

import (
	"fmt"
	"testing"

	"verifsim/simnode"
	"verifsim/simrt"
)

func init() {
	simrt.Register(&simrt.Info{Property: "C11", Engine: &blockEngine{prop: "C11"},
		Rule: "one case = a chain of generated blocks of simvm programs, coins transfers, none transactions and groups with injected failures; non-trivial = a transaction failed after it had written and a later successful transaction read one of those keys",
		Nontrivial: func(sc *simrt.Scenario, r *simrt.Result) bool {
			return r.Probes["failed_after_writes"] > 0 && r.Probes["read_after_failed_write"] > 0
		}})
	simrt.Register(&simrt.Info{Property: "C12", Engine: &blockEngine{prop: "C12"},
		Rule: "one case = a chain of generated blocks of programs reporting generated state/local keys of every ownership class; non-trivial = at least one program was refused for a key and one succeeded with a key outside its own namespace",
		Nontrivial: func(sc *simrt.Scenario, r *simrt.Result) bool {
			return (r.Faults["tx_failed/disallowed-key"] > 0 || r.Faults["tx_failed/unreported-key"] > 0) && r.Probes["allowed_outside_own_namespace"] > 0
		}})
}

// blockEngine serves C11 and C12: the same harness, different generators.
type blockEngine struct{ prop string }

func (e *blockEngine) Name() string { return "execsim" }

// ---------------------------------------------------------------------------
// generator

type gen struct {
	r     *simrt.RNG
	nonce int64
	prop  string
	oddTo bool // some transfers go to malformed recipients (C13)
}

func hx(s string) string { return simrt.H([]byte(s)) }

func (g *gen) next() int64 { g.nonce++; return g.nonce }

func (g *gen) val(n int64, i int) string { return hx(fmt.Sprintf("v%d.%d", n, i)) }

func fundBlock() simrt.Op {
	b := simrt.Op{K: "blk"}
	for a := 0; a < NAcc; a++ {
		b.Sub = append(b.Sub, simrt.Op{K: "xfer", I: []int64{-1, int64(a), 1000000000000, int64(100 + a)}})
	}
	return b
}

// stateKey / localKey name the small key universe of an executor name.
func stateKey(name string, i int) string { return hx(fmt.Sprintf("mavl-%s-k%d", name, i)) }
func localKey(name string, i int) string { return hx(fmt.Sprintf("LODB-%s-a%d", realExecOf(name), i)) }
func localDst(name string, i int) string { return hx(fmt.Sprintf("LODB-%s-d%d", realExecOf(name), i)) }
func localPfx(name string) string        { return hx(fmt.Sprintf("LODB-%s-a", realExecOf(name))) }

const nKeys = 4

// c11Prog generates a program with an optional injected failure.
func (g *gen) c11Prog(sender int, nameIdx int, forceFail bool) simrt.Op {
	r := g.r
	n := g.next()
	name := execNames[nameIdx]
	same := realExecOf(name) == NameVM
	op := simrt.Op{K: "vm", I: []int64{int64(sender), n, int64(nameIdx)}}
	var x, l []simrt.Op
	wrote := []string{}
	for i, m := 0, r.Range(1, 5); i < m; i++ {
		switch r.Weighted(5, 4, 3, 2, 1) {
		case 0:
			k := stateKey(name, r.Intn(nKeys))
			x = append(x, simrt.Op{K: "x:sset", S: []string{k, g.val(n, i)}})
			wrote = append(wrote, k)
		case 1:
			x = append(x, simrt.Op{K: "x:sget", S: []string{stateKey(name, r.Intn(nKeys))}})
		case 2:
			x = append(x, simrt.Op{K: "x:lget", S: []string{localKey(name, r.Intn(nKeys))}})
		case 3:
			x = append(x, simrt.Op{K: "x:llist", S: []string{localPfx(name)}, I: []int64{int64(r.Intn(2))}})
		case 4:
			x = append(x, simrt.Op{K: "x:emit", S: []string{stateKey(name, r.Intn(nKeys)), g.val(n, 50+i)}})
		}
	}
	for i, m := 0, r.Range(0, 3); i < m; i++ {
		switch r.Weighted(5, 2, 2, 1) {
		case 0:
			l = append(l, simrt.Op{K: "l:lset", S: []string{localKey(name, r.Intn(nKeys)), g.val(n, 100+i)}})
		case 1:
			l = append(l, simrt.Op{K: "l:lcopy", S: []string{localKey(name, r.Intn(nKeys)), localDst(name, r.Intn(2))}})
		case 2:
			l = append(l, simrt.Op{K: "l:llist", S: []string{localPfx(name), localDst(name, 2+r.Intn(2))}, I: []int64{int64(r.Intn(2))}})
		case 3:
			l = append(l, simrt.Op{K: "l:lemit", S: []string{localKey(name, r.Intn(nKeys)), g.val(n, 150+i)}})
		}
	}
	insertAt := func(list []simrt.Op, o simrt.Op) []simrt.Op {
		p := r.Intn(len(list) + 1)
		out := append([]simrt.Op{}, list[:p]...)
		out = append(out, o)
		return append(out, list[p:]...)
	}
	if forceFail || r.Chance(2, 5) {
		mode := r.Weighted(4, 2, 3, 2, 2, 4, 2)
		if !same && mode >= 5 {
			mode = r.Intn(5)
		}
		switch mode {
		case 0: // error before/after state writes
			x = insertAt(x, simrt.Op{K: "x:fail"})
		case 1:
			x = insertAt(x, simrt.Op{K: "x:panic"})
		case 2: // a written key is not reported
			if len(wrote) == 0 {
				k := stateKey(name, r.Intn(nKeys))
				x = append(x, simrt.Op{K: "x:sset", S: []string{k, g.val(n, 30)}})
				wrote = append(wrote, k)
			}
			x = append(x, simrt.Op{K: "x:omit", S: []string{wrote[r.Intn(len(wrote))]}})
		case 3: // writes a key of another executor's namespace
			k := hx(r.Pick("mavl-coins-zz", "mavl-none-k0", "mavl-"+NameFR+"-closed-k", "notmavl-k", "mavl-"+name+"x-k0"))
			if r.Chance(1, 2) {
				x = append(x, simrt.Op{K: "x:sset", S: []string{k, g.val(n, 31)}})
			} else {
				x = append(x, simrt.Op{K: "x:emit", S: []string{k, g.val(n, 31)}})
			}
		case 4: // moves the sender's coins, which only the coins executor may do
			to := r.Intn(NAcc)
			x = insertAt(x, simrt.Op{K: "x:cxfer", I: []int64{int64(r.Range(1, 9000))*16 + int64(to)}})
		case 5: // error in the local phase, after state and local writes
			if len(l) == 0 {
				l = append(l, simrt.Op{K: "l:lset", S: []string{localKey(name, r.Intn(nKeys)), g.val(n, 130)}})
			}
			l = insertAt(l, simrt.Op{K: "l:fail"})
		case 6: // a local write that is not reported
			l = insertAt(l, simrt.Op{K: "l:lsetq", S: []string{localKey(name, r.Intn(nKeys)), g.val(n, 131)}})
		}
	}
	op.Sub = append(x, l...)
	return op
}

func (g *gen) xfer() simrt.Op {
	r := g.r
	from, to := r.Intn(NAcc), r.Intn(NAcc)
	amt := int64(r.Range(1, 5000))
	switch r.Weighted(6, 1, 2) {
	case 1:
		to = from // refused by the coins executor
	case 2:
		amt = 5000000000000 // more than the balance
	}
	return simrt.Op{K: "xfer", I: []int64{int64(from), int64(to), amt, g.next()}}
}

func (g *gen) pickName() int {
	switch g.r.Weighted(12, 4, 1, 1) {
	case 0:
		return 0
	case 1:
		return 1
	case 2:
		return 3
	}
	return 4
}

func (g *gen) sender() int {
	if g.r.Chance(1, 14) {
		return NAcc // never funded: cannot even pay the fee
	}
	return g.r.Intn(NAcc)
}

// member generates a group member. A group may not mix parachain-named and
// main-chain transactions (a validity rule of groups, not the subject here), so
// para selects between "all members carry the parachain name" and "none does".
func (g *gen) member(fail, para bool) simrt.Op {
	if para {
		return g.c11Prog(g.r.Intn(NAcc), 3, fail)
	}
	switch g.r.Weighted(6, 2, 1) {
	case 0:
		return g.c11Prog(g.r.Intn(NAcc), []int{0, 0, 0, 1, 4}[g.r.Intn(5)], fail)
	case 1:
		if fail {
			from := g.r.Intn(NAcc)
			return simrt.Op{K: "xfer", I: []int64{int64(from), int64(from), 5, g.next()}}
		}
		from := g.r.Intn(NAcc)
		return simrt.Op{K: "xfer", I: []int64{int64(from), int64((from + 1 + g.r.Intn(NAcc-1)) % NAcc), int64(g.r.Range(1, 5000)), g.next()}}
	}
	return simrt.Op{K: "none", I: []int64{int64(g.r.Intn(NAcc)), g.next()}}
}

// sharedGroup: members of one executor name working on ONE state key: the first
// writes and reports it; later members overwrite it and report it, only read it,
// report it without writing, or overwrite it WITHOUT reporting it (which must fail
// the whole group although an earlier member of the group did report that key).
func (g *gen) sharedGroup(nameIdx int) simrt.Op {
	r := g.r
	name := execNames[nameIdx]
	k := stateKey(name, r.Intn(nKeys))
	n := r.Range(2, 5)
	grp := simrt.Op{K: "group"}
	bad := -1
	if r.Chance(2, 3) {
		bad = r.Range(1, n-1)
	}
	for i := 0; i < n; i++ {
		nn := g.next()
		m := simrt.Op{K: "vm", I: []int64{int64(r.Intn(NAcc)), nn, int64(nameIdx)}}
		if r.Chance(1, 3) {
			m.Sub = append(m.Sub, simrt.Op{K: "x:sget", S: []string{k}})
		}
		switch {
		case i == 0:
			m.Sub = append(m.Sub, simrt.Op{K: "x:sset", S: []string{k, g.val(nn, 0)}})
		case i == bad:
			m.Sub = append(m.Sub, simrt.Op{K: "x:sset", S: []string{k, g.val(nn, 1)}})
			if r.Chance(1, 2) { // some other key is reported instead
				m.Sub = append(m.Sub, simrt.Op{K: "x:sset", S: []string{stateKey(name, nKeys), g.val(nn, 2)}})
			}
			m.Sub = append(m.Sub, simrt.Op{K: "x:omit", S: []string{k}})
		default:
			switch r.Intn(4) {
			case 0:
				m.Sub = append(m.Sub, simrt.Op{K: "x:sset", S: []string{k, g.val(nn, 3)}})
			case 1:
				m.Sub = append(m.Sub, simrt.Op{K: "x:emit", S: []string{k, g.val(nn, 4)}})
			case 2:
				m.Sub = append(m.Sub, simrt.Op{K: "x:sset", S: []string{stateKey(name, r.Intn(nKeys)), g.val(nn, 5)}})
			}
		}
		if r.Chance(1, 3) {
			m.Sub = append(m.Sub, simrt.Op{K: "x:sget", S: []string{k}})
		}
		grp.Sub = append(grp.Sub, m)
	}
	return grp
}

func (g *gen) group() simrt.Op {
	r := g.r
	if r.Chance(1, 4) {
		return g.sharedGroup([]int{0, 0, 1, 3, 4}[r.Intn(5)])
	}
	n := 2 + r.Weighted(5, 4, 3, 2, 1, 1, 1)
	grp := simrt.Op{K: "group"}
	failAt := -1
	if r.Chance(3, 5) {
		failAt = r.Intn(n)
	}
	para := r.Chance(1, 10)
	for i := 0; i < n; i++ {
		m := g.member(i == failAt, para)
		if i == 0 && r.Chance(1, 20) {
			m.I[0] = NAcc // header cannot pay the group fee
		}
		grp.Sub = append(grp.Sub, m)
	}
	return grp
}

func (g *gen) c11Block() simrt.Op {
	r := g.r
	b := simrt.Op{K: "blk"}
	for i, n := 0, r.Range(2, 7); i < n; i++ {
		switch r.Weighted(7, 2, 1, 3) {
		case 0:
			b.Sub = append(b.Sub, g.c11Prog(g.sender(), g.pickName(), false))
		case 1:
			b.Sub = append(b.Sub, g.xfer())
		case 2:
			b.Sub = append(b.Sub, simrt.Op{K: "none", I: []int64{int64(g.sender()), g.next()}})
		case 3:
			b.Sub = append(b.Sub, g.group())
		}
	}
	return b
}

func (e *blockEngine) Generate(prop string, r *simrt.RNG, tier string, run int) *simrt.Scenario {
	sc := &simrt.Scenario{Knobs: map[string]int64{}}
	g := &gen{r: r, nonce: 1000, prop: prop}
	sc.Ops = append(sc.Ops, fundBlock())
	nb := r.Range(3, 5)
	if tier != "quick" {
		nb = r.Range(4, 9)
	}
	for i := 0; i < nb; i++ {
		if prop == "C12" {
			sc.Ops = append(sc.Ops, g.c12Block())
		} else {
			sc.Ops = append(sc.Ops, g.c11Block())
		}
	}
	return sc
}

// ---------------------------------------------------------------------------

func (e *blockEngine) Execute(t *testing.T, ctx *simrt.Ctx) *simrt.Violation {
	var viol *simrt.Violation
	simrt.InBubble(t, func() { viol = e.run(ctx) })
	return viol
}

func (e *blockEngine) run(ctx *simrt.Ctx) *simrt.Violation {
	sc := ctx.Sc
	uid := fmt.Sprintf("%s-%d-%d", sc.Property, sc.Run, ctx.Seq())
	env := newEnv(ctx, "exec-"+uid, simnode.Opts{})
	defer env.close()
	for i := range sc.Ops {
		op := &sc.Ops[i]
		ctx.CurOp = i
		ctx.Step()
		if op.K != "blk" {
			continue
		}
		out, v := env.runBlock(op)
		if v != nil {
			v.OpIndex = i
			return v
		}
		if out.detail != nil {
			ctx.Logf("op %d: height %d txs %d state %x", i, out.detail.Block.Height, len(out.detail.Block.Txs), out.detail.Block.StateHash)
		} else {
			ctx.Logf("op %d: skipped (%s)", i, out.skipped)
		}
	}
	ctx.CurOp = len(sc.Ops)
	return nil
}

// Simplify shrinks inside transactions (instructions, group members), which the
// generic minimiser does not reach.
func (e *blockEngine) Simplify(sc *simrt.Scenario) []*simrt.Scenario {
	return simplifyNested(sc)
}

func simplifyNested(sc *simrt.Scenario) []*simrt.Scenario {
	var out []*simrt.Scenario
	for bi := range sc.Ops {
		for ti := range sc.Ops[bi].Sub {
			tx := &sc.Ops[bi].Sub[ti]
			for k := range tx.Sub {
				c := sc.Clone()
				s := c.Ops[bi].Sub[ti].Sub
				c.Ops[bi].Sub[ti].Sub = append(s[:k:k], s[k+1:]...)
				out = append(out, c)
			}
			if tx.K == "group" {
				for mi := range tx.Sub {
					for k := range tx.Sub[mi].Sub {
						c := sc.Clone()
						s := c.Ops[bi].Sub[ti].Sub[mi].Sub
						c.Ops[bi].Sub[ti].Sub[mi].Sub = append(s[:k:k], s[k+1:]...)
						out = append(out, c)
					}
				}
			}
		}
	}
	return out
}
