package execsim

import (
	"bytes"
	"encoding/hex"
	"fmt"
	"strings"
	"testing"

	"github.com/33cn/chain33/common/address"
	"github.com/33cn/chain33/common/crypto"
	"github.com/33cn/chain33/system/crypto/secp256k1eth"
	cty "github.com/33cn/chain33/system/dapp/coins/types"
	"github.com/33cn/chain33/types"
	"github.com/decred/base58"

	"verifsim/simnode"
	"verifsim/simrt"
)

func init() {
	simrt.Register(&simrt.Info{Property: "C31", Engine: &blEngine{},
		Rule: "one case = a configured blacklist + activation height and a chain of generated blocks around that height with blacklisted accounts as sender, recipient, EVM target, group member and in proxied transactions, in every address spelling; non-trivial = at least one such transaction was executed at or above the activation height and the same shapes succeeded below it",
		Nontrivial: func(sc *simrt.Scenario, r *simrt.Result) bool {
			return r.Probes["touching_at_or_above_activation"] > 0 && r.Probes["touching_succeeds_below_activation"] > 0
		}})
}

// blEngine is the execution side of C31.
type blEngine struct{}

func (blEngine) Name() string { return "execsim" }

var impostor *simnode.Key

// impostorKey is a key that owns nothing and is on no list.
func impostorKey() *simnode.Key {
	if impostor == nil {
		impostor = simnode.AccountKey(9999)
	}
	return impostor
}

// ---------------------------------------------------------------------------
// addresses (the harness's own parsing: base58check / hex, no chain33 helpers)

// rawAddr returns the 20 bytes an address string denotes, or nil.
func rawAddr(s string) []byte {
	h := s
	if strings.HasPrefix(h, "0x") || strings.HasPrefix(h, "0X") {
		h = h[2:]
	}
	if len(h) == 40 {
		if b, err := hex.DecodeString(h); err == nil {
			return b
		}
	}
	dec := base58.Decode(s)
	if len(dec) == 25 {
		return dec[1:21]
	}
	return nil
}

func ethAddrOf(k *simnode.Key) string {
	return address.PubKeyToAddr(2, k.Priv.PubKey().Bytes())
}

// spell writes a canonical 0x-lowercase eth address in another accepted spelling.
func spell(canon string, how int) string {
	h := strings.ToLower(strings.TrimPrefix(canon, "0x"))
	up := strings.ToUpper(h)
	mixed := []byte(h)
	for i := range mixed {
		if (i*7+how)%3 == 0 {
			mixed[i] = up[i]
		}
	}
	switch how % 8 {
	case 0:
		return "0x" + h
	case 1:
		return "0x" + up
	case 2:
		return "0x" + string(mixed)
	case 3:
		return h
	case 4:
		return up
	case 5:
		return "0X" + h
	case 6:
		return "0X" + up
	}
	return string(mixed)
}

// actors of a C31 scenario: account 1 (base58) and the eth-format address of
// key 2 are blacklisted, so is a plain eth address nobody holds a key for.
const blHexNobody = "0x5a17e4c4b3f1d2e0918273645546372819aabbcc"

func blacklist() []string {
	return []string{simnode.AccountKey(1).Addr, ethAddrOf(simnode.AccountKey(2)), blHexNobody}
}

// recipient table for generated ops: index -> address; [0..4] funded base58
// accounts, 5 eth address of key 2 (blacklisted), 6 eth address of key 3, 7 nobody (blacklisted)
func recipient(i int) string {
	switch {
	case i < NAcc:
		return simnode.AccountKey(i).Addr
	case i == 5:
		return ethAddrOf(simnode.AccountKey(2))
	case i == 6:
		return ethAddrOf(simnode.AccountKey(3))
	}
	return blHexNobody
}

func isEthIdx(i int) bool { return i >= NAcc }

// ---------------------------------------------------------------------------
// generator

func (g *gen) c31To() (idx int, sp int) {
	r := g.r
	idx = []int{0, 2, 3, 4, 1, 1, 5, 5, 6, 7, 7}[r.Intn(11)]
	if isEthIdx(idx) {
		sp = r.Intn(8)
	}
	return
}

func (g *gen) c31Tx() simrt.Op {
	r := g.r
	switch r.Weighted(6, 3, 2, 4, 2) {
	case 0: // coins transfer, base58 sender
		from := []int{0, 0, 2, 3, 4, 1, 1}[r.Intn(7)]
		to, sp := g.c31To()
		return simrt.Op{K: "xfer", I: []int64{int64(from), int64(to), int64(r.Range(1, 5000)), g.next(), int64(sp)}}
	case 1: // coins transfer signed under the eth-format identity of key 2 (blacklisted) or 3
		from := 2 + r.Intn(2)
		to, sp := g.c31To()
		return simrt.Op{K: "xferE", I: []int64{int64(from), int64(to), int64(r.Range(1, 5000)), g.next(), int64(sp)}}
	case 2: // a program of the synthetic executor from a blacklisted or clean sender
		p := g.c11Prog([]int{0, 1, 1, 3}[r.Intn(4)], 0, false)
		var keep []simrt.Op
		for _, in := range p.Sub {
			if in.K == "x:sset" || in.K == "x:sget" {
				keep = append(keep, in)
			}
		}
		p.Sub = keep
		return p
	case 3: // EVM call: target in ContractAddr, in Para (20 raw bytes) or as recipient
		to, sp := g.c31To()
		return simrt.Op{K: "evm", I: []int64{int64([]int{0, 0, 3, 1}[r.Intn(4)]), g.next(), int64(r.Intn(3)), int64(r.Intn(3)), int64(to), int64(sp)}}
	}
	// proxied EVM transaction: outer to the proxy address, inner names the real target
	to, sp := g.c31To()
	return simrt.Op{K: "proxy", I: []int64{int64(2 + r.Intn(2)), g.next(), int64(r.Intn(3)), int64(to), int64(sp)}}
}

func (blEngine) Generate(prop string, r *simrt.RNG, tier string, run int) *simrt.Scenario {
	sc := &simrt.Scenario{Knobs: map[string]int64{}}
	g := &gen{r: r, nonce: 1000, prop: prop}
	H := int64(r.Range(2, 4))
	sc.Knobs["H"] = H
	if r.Chance(5, 6) {
		sc.Knobs["eth"] = 1
	}
	sc.Knobs["cfgspell"] = int64(r.Intn(8))
	if r.Chance(1, 2) {
		sc.Knobs["impostor"] = 1
	}
	fund := fundBlock()
	fund.Sub = append(fund.Sub,
		simrt.Op{K: "xfer", I: []int64{-1, 5, 1000000000000, 110, 0}},
		simrt.Op{K: "xfer", I: []int64{-1, 6, 1000000000000, 111, 0}})
	sc.Ops = append(sc.Ops, fund)
	nb := int(H) + r.Range(0, 2)
	if tier != "quick" {
		nb += r.Range(0, 3)
	}
	for i := 0; i < nb; i++ {
		b := simrt.Op{K: "blk"}
		for j, n := 0, r.Range(3, 7); j < n; j++ {
			if r.Chance(1, 5) {
				grp := simrt.Op{K: "group"}
				for k, m := 0, r.Range(2, 5); k < m; k++ {
					t := g.c31Tx()
					for t.K == "proxy" {
						t = g.c31Tx()
					}
					grp.Sub = append(grp.Sub, t)
				}
				b.Sub = append(b.Sub, grp)
			} else {
				b.Sub = append(b.Sub, g.c31Tx())
			}
		}
		sc.Ops = append(sc.Ops, b)
	}
	return sc
}

// ---------------------------------------------------------------------------

type blTx struct {
	tx      *types.Transaction
	touches string // "" or the position(s) at which a blacklisted account is involved
	shape   string
}

type blEnv struct {
	*env
	bl      [][]byte
	ethPriv map[int]crypto.PrivKey
}

func (b *blEnv) isBL(addr string) bool {
	raw := rawAddr(addr)
	if raw == nil {
		return false
	}
	for _, x := range b.bl {
		if bytes.Equal(x, raw) {
			return true
		}
	}
	return false
}

var evmNames = []string{NameEVM, "user." + NameEVM + ".tok", "user.p.x." + NameEVM}

func (b *blEnv) ethKey(i int) crypto.PrivKey {
	if p, ok := b.ethPriv[i]; ok {
		return p
	}
	c, err := crypto.Load("secp256k1eth", -1)
	simrt.Must(err, "load secp256k1eth")
	p, err := c.PrivKeyFromBytes(b.keys[i].Priv.Bytes())
	simrt.Must(err, "eth priv key")
	b.ethPriv[i] = p
	return p
}

func (b *blEnv) evmPayload(mode int, target string) []byte {
	act := &types.EVMContractAction4Chain33{GasLimit: 100000, GasPrice: 1}
	switch mode % 3 {
	case 0:
		act.ContractAddr = target
	case 1:
		if raw := rawAddr(target); raw != nil {
			act.Para = raw
		}
	}
	return types.Encode(act)
}

// makeBL builds one transaction of a C31 op and classifies it.
func (b *blEnv) makeBL(op *simrt.Op) *blTx {
	cfg := b.cfg
	out := &blTx{shape: op.K}
	var tx *types.Transaction
	var pos []string
	mark := func(cond bool, where string) {
		if cond {
			pos = append(pos, where)
		}
	}
	switch op.K {
	case "xfer", "xferE":
		toIdx := int(op.Int(1))
		to := recipient(toIdx % 8)
		if isEthIdx(toIdx % 8) {
			to = spell(to, int(op.Int(4)))
			out.shape += fmt.Sprintf("/to-eth-spelling-%d", op.Int(4)%8)
		}
		v := &cty.CoinsAction_Transfer{Transfer: &types.AssetsTransfer{Amount: op.Int(2), To: to}}
		tx = &types.Transaction{Execer: []byte(cfg.GetCoinExec()), Payload: types.Encode(&cty.CoinsAction{Value: v, Ty: cty.CoinsActionTransfer}), To: to, Nonce: op.Int(3), Fee: 1000000, ChainID: cfg.GetChainID()}
		k := b.key(op.Int(0))
		if op.K == "xferE" {
			tx.Sign(types.EncodeSignID(types.SECP256K1, 2), k.Priv)
		} else {
			tx.Sign(types.SECP256K1, k.Priv)
		}
		mark(b.isBL(to), "to")
	case "vm":
		t, _ := b.makeTx(op)
		tx = t
	case "evm":
		name := evmNames[int(op.Int(2))%len(evmNames)]
		toIdx := int(op.Int(4)) % 8
		target := recipient(toIdx)
		if isEthIdx(toIdx) {
			target = spell(target, int(op.Int(5)))
		}
		mode := int(op.Int(3)) % 3
		to := execAddr(name)
		if mode == 2 {
			to = target // plain recipient
		}
		tx = &types.Transaction{Execer: []byte(name), Payload: b.evmPayload(mode, target), To: to, Nonce: op.Int(1), Fee: 1000000, ChainID: cfg.GetChainID()}
		tx.Sign(types.SECP256K1, b.key(op.Int(0)).Priv)
		out.shape += fmt.Sprintf("/%s/mode%d/spelling-%d", name, mode, op.Int(5)%8)
		switch mode {
		case 0:
			mark(b.isBL(target), "evm-contract")
		case 1:
			mark(b.isBL(target) && rawAddr(target) != nil, "evm-para")
		case 2:
			mark(b.isBL(target), "to")
		}
	case "proxy":
		ki := int(op.Int(0)) % len(b.keys)
		toIdx := int(op.Int(3)) % 8
		target := recipient(toIdx)
		if isEthIdx(toIdx) {
			target = spell(target, int(op.Int(4)))
		}
		mode := int(op.Int(2)) % 3
		innerTo := execAddr(NameEVM)
		if mode == 2 {
			innerTo = target
		}
		inner := &types.Transaction{Execer: []byte(NameEVM), Payload: b.evmPayload(mode, target), To: innerTo, Nonce: op.Int(1), Fee: 1000000, ChainID: cfg.GetChainID()}
		outer := &types.Transaction{Execer: []byte(NameEVM), Payload: types.Encode(&types.EVMContractAction4Chain33{Para: types.Encode(inner), Note: ""}), To: cfg.GetModuleConfig().Exec.ProxyExecAddress, Nonce: 0, Fee: 1000000 + op.Int(1)%1000, ChainID: cfg.GetChainID()}
		outer.Sign(types.EncodeSignID(secp256k1eth.ID, 2), b.ethKey(ki))
		tx = outer
		out.shape += fmt.Sprintf("/mode%d", mode)
		switch mode {
		case 0:
			mark(b.isBL(target), "proxied-evm-contract")
		case 1:
			mark(b.isBL(target) && rawAddr(target) != nil, "proxied-evm-para")
		case 2:
			mark(b.isBL(target), "proxied-to")
		}
	default:
		return nil
	}
	if tx == nil {
		return nil
	}
	mark(b.isBL(tx.From()), "from")
	out.tx = tx
	out.touches = strings.Join(pos, "+")
	return out
}

func (e blEngine) Execute(t *testing.T, ctx *simrt.Ctx) *simrt.Violation {
	var viol *simrt.Violation
	simrt.InBubble(t, func() { viol = e.run(ctx) })
	return viol
}

func (e blEngine) run(ctx *simrt.Ctx) *simrt.Violation {
	sc := ctx.Sc
	uid := fmt.Sprintf("%s-%d-%d", sc.Property, sc.Run, ctx.Seq())
	H := sc.Knob("H", 2)
	ethOn := sc.Knob("eth", 1) == 1
	cs := int(sc.Knob("cfgspell", 0))
	address.VerifResetCaches() // the address validity cache is process-global and ignores configuration changes
	list := blacklist()
	var quoted []string
	for i, a := range list {
		if i > 0 {
			a = spell(a, cs+i) // the configuration may spell hex addresses any accepted way
		}
		quoted = append(quoted, `"`+a+`"`)
	}
	opts := simnode.Opts{
		EditToml: func(s string) string {
			if ethOn {
				s = strings.Replace(s, "eth=-2", "eth=0", 1)
			}
			return s + "\n[blacklist]\naccountBlacklist=[" + strings.Join(quoted, ",") + "]\n"
		},
		EditCfg: func(cfg *types.Chain33Config) { cfg.SetFork(types.ForkAccountBlacklist, H) },
	}
	b := &blEnv{env: newEnv(ctx, "bl-"+uid, opts), ethPriv: map[int]crypto.PrivKey{}}
	defer b.close()
	for _, a := range list {
		b.bl = append(b.bl, rawAddr(a))
	}
	var frozen map[string]int64 // balances of blacklisted accounts at activation
	for i := range sc.Ops {
		op := &sc.Ops[i]
		ctx.CurOp = i
		ctx.Step()
		if op.K != "blk" {
			continue
		}
		var txs []*types.Transaction
		var info []*blTx
		seen := map[string]bool{}
		for j := range op.Sub {
			u := &op.Sub[j]
			if u.K != "group" {
				t := b.makeBL(u)
				if t == nil || seen[string(t.tx.Hash())] {
					continue
				}
				seen[string(t.tx.Hash())] = true
				txs = append(txs, t.tx)
				info = append(info, t)
				continue
			}
			var members []*blTx
			var gtx []*types.Transaction
			var signers []*simrt.Op
			for k := range u.Sub {
				if u.Sub[k].K == "proxy" {
					continue
				}
				t := b.makeBL(&u.Sub[k])
				if t != nil {
					members = append(members, t)
					gtx = append(gtx, t.tx)
					signers = append(signers, &u.Sub[k])
				}
			}
			if len(gtx) < 2 {
				continue
			}
			grp, err := types.CreateTxGroup(gtx, b.cfg.GetMinTxFeeRate())
			if err != nil {
				simrt.Failf("CreateTxGroup: %v", err)
			}
			touch := ""
			for k := range grp.Txs {
				ty := int32(types.SECP256K1)
				if signers[k].K == "xferE" {
					ty = types.EncodeSignID(types.SECP256K1, 2)
				}
				grp.Txs[k].Signature = nil
				simrt.Must(grp.SignN(k, ty, b.key(signers[k].Int(0)).Priv), "SignN")
				if members[k].touches != "" && touch == "" {
					touch = fmt.Sprintf("group-member/%s", members[k].touches)
				}
			}
			if seen[string(grp.Txs[0].Hash())] {
				continue
			}
			seen[string(grp.Txs[0].Hash())] = true
			for k := range grp.Txs {
				members[k].tx = grp.Txs[k]
				members[k].touches = touch
				members[k].shape = "group/" + members[k].shape
				txs = append(txs, grp.Txs[k])
				info = append(info, members[k])
			}
		}
		if len(txs) == 0 {
			continue
		}
		blk := b.newBlock(txs)
		prev := b.tip.StateHash
		// The transaction hash does not cover the signature: the same body signed by
		// an uninvolved key has the same hash. Such a copy passing through the node
		// first (checked like a pool submission, executed in a discarded block; it has
		// no funds) must not change the verdict on the real one.
		if sc.Knob("impostor", 0) == 1 {
			var copies []*types.Transaction
			for k, t := range info {
				if strings.HasPrefix(t.shape, "group/") || !strings.Contains(t.touches, "from") {
					continue
				}
				c := types.Clone(txs[k]).(*types.Transaction)
				c.Signature = nil
				c.Sign(types.SECP256K1, impostorKey().Priv)
				if !bytes.Equal(c.Hash(), txs[k].Hash()) {
					simrt.Failf("the copy signed by another key has another hash")
				}
				copies = append(copies, c)
			}
			if len(copies) > 0 {
				ctx.Fault("same_body_signed_by_uninvolved_key_first")
				msg := b.n.Client.NewMessage("execs", types.EventCheckTx, &types.ExecTxList{StateHash: prev, Txs: copies, BlockTime: blk.BlockTime, Height: blk.Height, Difficulty: uint64(blk.Difficulty), IsMempool: true, ParentHash: blk.ParentHash})
				if err := b.n.Client.Send(msg, true); err == nil {
					_, _ = b.n.Client.Wait(msg)
				}
				cb := types.Clone(blk).(*types.Block)
				cb.Txs = copies
				_, _ = execTxList(b.n, prev, cb)
				for _, c := range copies {
					_ = types.CheckTxBlockedAccount(b.cfg, blk.Height, c)
					_ = types.CheckTxBlockedAccountImmediate(c)
				}
			}
		}
		raw, err := execTxList(b.n, prev, blk)
		if err != nil {
			return ctx.Violate("exec-reply-error", "EventExecTxList", "EventExecTxList answered an error: %v", err)
		}
		active := blk.Height >= H
		var dig []string
		for k, r := range raw.Receipts {
			t := info[k]
			dig = append(dig, fmt.Sprintf("%s:%s:%d", t.shape, t.touches, r.Ty))
			if t.touches == "" {
				if r.Ty == types.ExecOk {
					ctx.Probe("clean_tx_succeeds")
				}
				continue
			}
			if !active {
				if r.Ty == types.ExecOk {
					ctx.Probe("touching_succeeds_below_activation")
					ctx.Probe("below/" + strings.SplitN(t.touches, "+", 2)[0])
				}
				continue
			}
			ctx.Probe("touching_at_or_above_activation")
			ctx.Fault("blacklisted/" + strings.SplitN(t.touches, "+", 2)[0])
			if r.Ty == types.ExecOk {
				return ctx.Violate("blacklisted-tx-succeeded", t.touches, "height %d (activation %d): transaction %d (%s) involving a blacklisted account as %s was executed successfully; to=%q from=%q", blk.Height, H, k, t.shape, t.touches, t.tx.To, t.tx.From())
			}
		}
		ctx.Logf("op %d height %d active=%v: %s", i, blk.Height, active, strings.Join(dig, " "))
		detail, v := connect(ctx, b.n, prev, blk)
		if v != nil {
			return v
		}
		if detail == nil {
			continue
		}
		// the built block itself must not contain such a transaction either
		if active {
			for k, tx := range detail.Block.Txs {
				for _, t := range info {
					if t.touches != "" && bytes.Equal(t.tx.Hash(), tx.Hash()) && detail.Receipts[k].Ty == types.ExecOk {
						return ctx.Violate("blacklisted-tx-succeeded", "in-block/"+t.touches, "block at height %d contains successfully executed transaction (%s) involving a blacklisted account as %s", blk.Height, t.shape, t.touches)
					}
				}
			}
		}
		b.tip = detail.Block
		// balances of blacklisted accounts do not move once the rule is active
		bal := map[string]int64{}
		for _, a := range list {
			vals, err := b.n.API.StoreGet(&types.StoreGet{StateHash: detail.Block.StateHash, Keys: [][]byte{b.acc.AccountKey(a)}})
			simrt.Must(err, "StoreGet")
			var acc types.Account
			if len(vals.Values) > 0 && vals.Values[0] != nil {
				_ = types.Decode(vals.Values[0], &acc)
			}
			bal[a] = acc.Balance
		}
		if blk.Height == H-1 || (frozen == nil && blk.Height < H) {
			frozen = bal
		}
		if active && frozen != nil {
			for _, a := range list {
				if bal[a] != frozen[a] {
					return ctx.Violate("blacklisted-balance-moved", "balance", "balance of blacklisted account %s changed from %d to %d in the block at height %d (activation %d)", a, frozen[a], bal[a], blk.Height, H)
				}
			}
		}
		if !active {
			frozen = bal
		}
	}
	ctx.CurOp = len(sc.Ops)
	return nil
}
