package execsim

import (
	"fmt"

	"verifsim/simnode"
	"verifsim/simrt"
)

// keyClass generates a state key of one ownership class for a transaction of
// executor name `name` (see the reference rule keyAllowed).
func (g *gen) keyClass(name string) (key string, class string) {
	r := g.r
	acct := simnode.AccountKey(r.Intn(NAcc)).Addr
	real := realExecOf(name)
	switch r.Weighted(8, 5, 3, 5, 3, 5, 5, 3) {
	case 0:
		return fmt.Sprintf("mavl-%s-k%d", name, r.Intn(nKeys)), "own"
	case 1: // own deposit area inside another executor
		host := r.Pick("coins-bty", NameFR+"-tok", "none-x", "foo-bar")
		return fmt.Sprintf("mavl-%s-exec-%s:%s", host, execAddr(name), acct), "own-deposit"
	case 2: // somebody else's deposit area
		other := r.Pick("none", NameFR, "coins", real+"x")
		if real != name && r.Chance(1, 2) {
			other = real // the real executor's area, not this name's
		}
		return fmt.Sprintf("mavl-coins-bty-exec-%s:%s", execAddr(other), acct), "other-deposit"
	case 3: // areas an owner opens to some executors
		if r.Chance(2, 3) {
			return fmt.Sprintf("mavl-%s-open-k%d", NameFR, r.Intn(2)), "friend-area"
		}
		return fmt.Sprintf("mavl-%s-shared-k%d", NameVM, r.Intn(2)), "friend-area"
	case 4:
		return fmt.Sprintf("mavl-%s-closed-k%d", NameFR, r.Intn(2)), "friend-closed"
	case 5:
		return r.Pick("mavl-coins-zz", "mavl-none-k", "mavl-foo-k", "mavl-manage-k", "mavl-"+real+"-k0", "mavl-user.p.x."+NameVM+"-k0", "mavl-user.p.y."+real+"-k0", "mavl-coins-bty-1FakeAcctNobodyOwns"), "foreign"
	case 6:
		return r.Pick("", "m", "mavl-", "mavl-"+name, "mavl"+name+"-k", "MAVL-"+name+"-k", "mavl--k", "-mavl-"+name+"-k", "mavl_"+name+"-k", "LODB-"+name+"-k", "mavl-"+name+":k"), "malformed"
	}
	// near misses of the own name
	return r.Pick("mavl-"+name+"x-k0", "mavl-"+name[:len(name)-1]+"-k0", "mavl-x"+name+"-k0", "mavl-"+name+".-k0", "mavl-"+name+" -k0"), "near-own"
}

func (g *gen) c12Prog(sender int, nameIdx int) simrt.Op {
	r := g.r
	n := g.next()
	name := execNames[nameIdx]
	op := simrt.Op{K: "vm", I: []int64{int64(sender), n, int64(nameIdx)}}
	var x, l []simrt.Op
	var wrote []string
	for i, m := 0, r.Range(1, 4); i < m; i++ {
		k, _ := g.keyClass(name)
		if i == 0 && r.Chance(1, 2) {
			k = fmt.Sprintf("mavl-%s-k%d", name, r.Intn(nKeys))
		}
		switch r.Weighted(5, 3, 3) {
		case 0:
			x = append(x, simrt.Op{K: "x:sset", S: []string{hx(k), g.val(n, i)}})
			wrote = append(wrote, k)
		case 1:
			x = append(x, simrt.Op{K: "x:emit", S: []string{hx(k), g.val(n, 40+i)}})
		case 2:
			x = append(x, simrt.Op{K: "x:sget", S: []string{hx(k)}})
		}
	}
	if len(wrote) > 0 && r.Chance(1, 6) {
		x = append(x, simrt.Op{K: "x:omit", S: []string{hx(wrote[r.Intn(len(wrote))])}})
	}
	if r.Chance(1, 10) {
		x = append(x, simrt.Op{K: "x:cxfer", I: []int64{int64(r.Range(1, 9000))*16 + int64(r.Intn(NAcc))}})
	}
	real := realExecOf(name)
	for i, m := 0, r.Range(0, 2); i < m; i++ {
		k := fmt.Sprintf("LODB-%s-a%d", real, r.Intn(nKeys))
		switch r.Weighted(20, 3, 1) {
		case 1: // other accepted spellings of the local prefix
			k = r.Pick("LODB-"+name+"-a0", "LODB-"+real+"-z", "LODB-"+real+"--")
		case 2: // keys without the executor's local prefix
			k = r.Pick("LODB-"+real+"x-a0", "LODB-"+NameFR+"-a0", "LODB-"+real+"-", "LODB-"+real, "LODX-"+real+"-a0", "LODB_"+real+"-a0", "lodb-"+real+"-a0", "TX:"+real, "LODB-"+real[:len(real)-1]+"-a0", "")
		}
		switch {
		case r.Chance(1, 4):
			l = append(l, simrt.Op{K: "l:lemit", S: []string{hx(k), g.val(n, 100+i)}})
		case real == NameVM && r.Chance(1, 6): // written through the local-data handle, not reported (only checked for executors whose local phase runs with the transaction)
			l = append(l, simrt.Op{K: "l:lsetq", S: []string{hx(k), g.val(n, 100+i)}})
		default:
			l = append(l, simrt.Op{K: "l:lset", S: []string{hx(k), g.val(n, 100+i)}})
		}
	}
	if len(l) == 0 && real == NameVM && r.Chance(1, 5) {
		// the only thing the local phase does: an unreported write (own or foreign area)
		k := r.Pick("LODB-"+real+"-a0", "LODB-"+NameFR+"-a0", "LODB-coins-x", "TX:"+real)
		l = append(l, simrt.Op{K: "l:lsetq", S: []string{hx(k), g.val(n, 190)}})
	}
	op.Sub = append(x, l...)
	return op
}

func (g *gen) c12Block() simrt.Op {
	r := g.r
	b := simrt.Op{K: "blk"}
	for i, n := 0, r.Range(2, 7); i < n; i++ {
		nameIdx := []int{0, 0, 0, 1, 1, 2, 3, 3, 4, 5}[r.Intn(10)]
		switch r.Weighted(10, 1, 2) {
		case 0:
			b.Sub = append(b.Sub, g.c12Prog(g.r.Intn(NAcc), nameIdx))
		case 1:
			b.Sub = append(b.Sub, g.xfer())
		case 2:
			if r.Chance(1, 3) {
				b.Sub = append(b.Sub, g.sharedGroup([]int{0, 0, 1, 2, 3, 4}[r.Intn(6)]))
				continue
			}
			grp := simrt.Op{K: "group"}
			names := []int{0, 0, 1, 2, 4}
			if r.Chance(1, 5) {
				names = []int{3, 5} // a group is all-parachain or all-main-chain
			}
			for j, m := 0, r.Range(2, 4); j < m; j++ {
				grp.Sub = append(grp.Sub, g.c12Prog(g.r.Intn(NAcc), names[r.Intn(len(names))]))
			}
			b.Sub = append(b.Sub, grp)
		}
	}
	return b
}
