// Package execsim drives the real executor module (real queue, store/mavl,
// blockchain local-DB handlers on a simulated disk, inside a synctest bubble)
// with blocks of generated transactions for SYNTHETIC executors registered
// through the public dapp API: C11 (failed transactions leave only their fee),
// C12 (write permissions), C13 (deterministic block execution) and the
// execution side of C31 (account blacklist).
package execsim

import (
	"bytes"
	"encoding/json"
	"errors"
	"sync"
	"sync/atomic"

	"github.com/33cn/chain33/queue"
	drivers "github.com/33cn/chain33/system/dapp"
	"github.com/33cn/chain33/types"
)

// ---------------------------------------------------------------------------
// The synthetic contract "simvm": a transaction's payload is a tiny program.

// Ins is one instruction of a program.
type Ins struct {
	Op string `json:"o"`
	K  []byte `json:"k,omitempty"`
	V  []byte `json:"v,omitempty"`
	N  int64  `json:"n,omitempty"`
}

// Prog is the payload of a simvm transaction: X runs in Exec, L in ExecLocal.
//
// Exec-phase instructions:
//
//	sset k v   write state (and, by default, report k=v in the receipt)
//	sget k     read state, record the result in the receipt's read log
//	lget k     read local data, record the result
//	llist p n  list local values under prefix p (n: 1 ascending, 0 descending), record
//	emit k v   report k=v in the receipt WITHOUT writing it
//	omit k     drop k from the reported set (a written key goes unreported)
//	cxfer a n  coins transfer of n from the sender to address a through the shared
//	           coins account object (writes the coins executor's namespace)
//	fail       return an error at this point
//	panic      panic at this point
//
// ExecLocal-phase instructions (run only for a successful receipt):
//
//	lset k v   write local data and report it
//	lcopy k d  read local k, write what was read to d and report it
//	llist p d  list values under p (n: direction), write the joined result to d, report
//	lsetq k v  write local data WITHOUT reporting it
//	lemit k v  report k=v without writing it
//	fail       return an error at this point
type Prog struct {
	X []Ins `json:"x,omitempty"`
	L []Ins `json:"l,omitempty"`
	T int64 `json:"t,omitempty"` // filler making payloads distinct
}

// ReadRec is one entry of the read log a successful program leaves in its receipt.
type ReadRec struct {
	Op string   `json:"o"`
	K  []byte   `json:"k"`
	F  bool     `json:"f"`           // found
	V  []byte   `json:"v,omitempty"` // value read
	Vs [][]byte `json:"vs,omitempty"`
	E  string   `json:"e,omitempty"` // "disabled" when the executor forbids the read
}

// TyLogRead is the receipt log type carrying the read log.
const TyLogRead = 9911

var (
	nilMark  = []byte("<nil>")
	noneMark = []byte("<none>")
	errFail  = errors.New("simvm: program failed")
)

// Names of the registered synthetic drivers.
const (
	NameVM = "simvm" // ExecLocal runs together with Exec (ExecLocalSameTime)
	NameVN = "simvn" // ExecLocal runs only when the block is connected
	NameFR = "simfr" // friend executor: owns areas it lets simvm write
)

// Friend rules of the synthetic contracts (the "explicit allowance" C12 speaks of):
//
//	simfr lets transactions of the real executor simvm write keys mavl-simfr-open-*
//	simvm lets transactions of the real executor simvn write keys mavl-simvm-shared-*
var (
	frOpenPrefix   = []byte("mavl-simfr-open-")
	vmSharedPrefix = []byte("mavl-simvm-shared-")
)

type vm struct {
	drivers.DriverBase
	name     string
	order    int64
	paraName bool // Allow also accepts user.p.<title>.<name> and user.<name>.<x>
}

var regOnce sync.Once

// registerDrivers registers the synthetic executors through the public
// registration API (once per process; the registry is process-global).
func registerDrivers(cfg *types.Chain33Config) {
	regOnce.Do(func() {
		drivers.Register(cfg, NameVM, func() drivers.Driver { return newVM(NameVM, drivers.ExecLocalSameTime, true) }, 0)
		drivers.Register(cfg, NameVN, func() drivers.Driver { return newVM(NameVN, 0, false) }, 0)
		drivers.Register(cfg, NameFR, func() drivers.Driver { return newVM(NameFR, 0, false) }, 0)
		drivers.Register(cfg, NameEVM, newEVMStub, 0)
	})
}

func init() {
	// the executor names a transaction may carry (the list the node's
	// configuration otherwise fills from its [fork.sub] sections)
	types.AllowUserExec = append(types.AllowUserExec, []byte(NameVM), []byte(NameVN), []byte(NameFR), []byte(NameEVM))
}

func newVM(name string, order int64, para bool) drivers.Driver {
	v := &vm{name: name, order: order, paraName: para}
	v.SetChild(v)
	return v
}

func (v *vm) GetDriverName() string    { return v.name }
func (v *vm) ExecutorOrder() int64     { return v.order }
func (v *vm) CheckReceiptExecOk() bool { return true }

// Allow: the exact name; for simvm also parachain and user.<name>.<x> spellings.
func (v *vm) Allow(tx *types.Transaction, index int) error {
	if v.AllowIsSame(tx.Execer) {
		return nil
	}
	if v.paraName && string(types.GetRealExecName(tx.Execer)) == v.name {
		return nil
	}
	return types.ErrNotAllow
}

// IsFriend implements the friend rules above.
func (v *vm) IsFriend(myexec, key []byte, other *types.Transaction) bool {
	real := string(types.GetRealExecName(other.Execer))
	switch v.name {
	case NameFR:
		return bytes.HasPrefix(key, frOpenPrefix) && real == NameVM
	case NameVM:
		return bytes.HasPrefix(key, vmSharedPrefix) && real == NameVN
	}
	return false
}

func decodeProg(tx *types.Transaction) (*Prog, error) {
	var p Prog
	if err := json.Unmarshal(tx.Payload, &p); err != nil {
		return nil, err
	}
	return &p, nil
}

func upsert(kvs []*types.KeyValue, k, v []byte) []*types.KeyValue {
	for _, kv := range kvs {
		if bytes.Equal(kv.Key, k) {
			kv.Value = v
			return kvs
		}
	}
	return append(kvs, &types.KeyValue{Key: k, Value: v})
}

// EnvFaultArmed > 0 makes "envfail" instructions return a queue timeout;
// EnvFaultHits counts how often that happened.
var EnvFaultArmed, EnvFaultHits int32

// Exec interprets the exec-phase program.
func (v *vm) Exec(tx *types.Transaction, index int) (*types.Receipt, error) {
	p, err := decodeProg(tx)
	if err != nil {
		return nil, err
	}
	var kvs []*types.KeyValue
	var logs []*types.ReceiptLog
	reads := []ReadRec{}
	sdb, ldb := v.GetStateDB(), v.GetLocalDB()
	for _, in := range p.X {
		switch in.Op {
		case "sset":
			if err := sdb.Set(in.K, in.V); err != nil {
				return nil, err
			}
			kvs = upsert(kvs, in.K, in.V)
		case "sget":
			val, err := sdb.Get(in.K)
			reads = append(reads, ReadRec{Op: "sget", K: in.K, F: err == nil, V: val})
		case "lget":
			val, err := ldb.Get(in.K)
			r := ReadRec{Op: "lget", K: in.K, F: err == nil, V: val}
			if err == types.ErrDisableRead {
				r.E = "disabled"
			}
			reads = append(reads, r)
		case "llist":
			vals, err := ldb.List(in.K, nil, 0, int32(in.N))
			r := ReadRec{Op: "llist", K: in.K, F: err == nil, Vs: vals}
			if err == types.ErrDisableRead {
				r.E = "disabled"
			}
			reads = append(reads, r)
		case "emit":
			kvs = upsert(kvs, in.K, in.V)
		case "omit":
			for i, kv := range kvs {
				if bytes.Equal(kv.Key, in.K) {
					kvs = append(kvs[:i:i], kvs[i+1:]...)
					break
				}
			}
		case "cxfer":
			r, err := v.GetCoinsAccount().Transfer(tx.From(), string(in.K), in.N)
			if err != nil {
				return nil, err
			}
			kvs = append(kvs, r.KV...)
			logs = append(logs, r.Logs...)
		case "fail":
			return nil, errFail
		case "envfail":
			// a transient fault of the executor's environment (what a contract gets
			// from the node API when the bus times out): only while the harness has
			// armed it, otherwise the instruction does nothing
			if atomic.LoadInt32(&EnvFaultArmed) > 0 {
				atomic.AddInt32(&EnvFaultHits, 1)
				return nil, queue.ErrQueueTimeout
			}
		case "panic":
			panic("simvm: program panics")
		}
	}
	rl, _ := json.Marshal(reads)
	logs = append(logs, &types.ReceiptLog{Ty: TyLogRead, Log: rl})
	return &types.Receipt{Ty: types.ExecOk, KV: kvs, Logs: logs}, nil
}

func joinVals(vals [][]byte) []byte {
	if len(vals) == 0 {
		return noneMark
	}
	return bytes.Join(vals, []byte("|"))
}

// ExecLocal interprets the local-phase program (successful receipts only).
func (v *vm) ExecLocal(tx *types.Transaction, receipt *types.ReceiptData, index int) (*types.LocalDBSet, error) {
	set := &types.LocalDBSet{}
	if receipt.GetTy() != types.ExecOk {
		return set, nil
	}
	p, err := decodeProg(tx)
	if err != nil {
		return set, nil
	}
	ldb := v.GetLocalDB()
	for _, in := range p.L {
		switch in.Op {
		case "lset":
			if err := ldb.Set(in.K, in.V); err != nil {
				return nil, err
			}
			set.KV = append(set.KV, &types.KeyValue{Key: in.K, Value: in.V})
		case "lcopy":
			val, err := ldb.Get(in.K)
			if err != nil {
				val = nilMark
			}
			if err := ldb.Set(in.V, val); err != nil {
				return nil, err
			}
			set.KV = append(set.KV, &types.KeyValue{Key: in.V, Value: val})
		case "llist":
			vals, _ := ldb.List(in.K, nil, 0, int32(in.N))
			val := joinVals(vals)
			if err := ldb.Set(in.V, val); err != nil {
				return nil, err
			}
			set.KV = append(set.KV, &types.KeyValue{Key: in.V, Value: val})
		case "lsetq":
			if err := ldb.Set(in.K, in.V); err != nil {
				return nil, err
			}
		case "lemit":
			set.KV = append(set.KV, &types.KeyValue{Key: in.K, Value: in.V})
		case "fail":
			return nil, errFail
		}
	}
	return set, nil
}

// ExecDelLocal removes what ExecLocal reports (a pure function of the program).
func (v *vm) ExecDelLocal(tx *types.Transaction, receipt *types.ReceiptData, index int) (*types.LocalDBSet, error) {
	set := &types.LocalDBSet{}
	if receipt.GetTy() != types.ExecOk {
		return set, nil
	}
	p, err := decodeProg(tx)
	if err != nil {
		return set, nil
	}
	for _, in := range p.L {
		switch in.Op {
		case "lset", "lemit":
			set.KV = append(set.KV, &types.KeyValue{Key: in.K})
		case "lcopy", "llist":
			set.KV = append(set.KV, &types.KeyValue{Key: in.V})
		}
	}
	return set, nil
}

// ---------------------------------------------------------------------------
// "evm" stand-in (C31): chain33 ships no EVM executor, but the blacklist rule
// names EVM targets, so a minimal executor of that name is registered: every
// transaction succeeds and writes one key of its own namespace. Its payload is
// the real types.EVMContractAction4Chain33 message the blacklist check parses.

// NameEVM is the executor name the blacklist rule treats specially.
const NameEVM = "evm"

type evmStub struct {
	drivers.DriverBase
}

func newEVMStub() drivers.Driver {
	v := &evmStub{}
	v.SetChild(v)
	return v
}

func (v *evmStub) GetDriverName() string { return NameEVM }

// Allow: evm, user.evm.<x> and parachain spellings.
func (v *evmStub) Allow(tx *types.Transaction, index int) error {
	if string(types.GetRealExecName(tx.Execer)) == NameEVM {
		return nil
	}
	return types.ErrNotAllow
}

// CheckTx: like a real EVM, the recipient may be any address.
func (v *evmStub) CheckTx(tx *types.Transaction, index int) error { return nil }

func (v *evmStub) Exec(tx *types.Transaction, index int) (*types.Receipt, error) {
	k := []byte("mavl-" + string(tx.Execer) + "-done")
	val := tx.Hash()
	if err := v.GetStateDB().Set(k, val); err != nil {
		return nil, err
	}
	return &types.Receipt{Ty: types.ExecOk, KV: []*types.KeyValue{{Key: k, Value: val}}}, nil
}

func (v *evmStub) ExecLocal(tx *types.Transaction, receipt *types.ReceiptData, index int) (*types.LocalDBSet, error) {
	return &types.LocalDBSet{}, nil
}

func (v *evmStub) ExecDelLocal(tx *types.Transaction, receipt *types.ReceiptData, index int) (*types.LocalDBSet, error) {
	return &types.LocalDBSet{}, nil
}
