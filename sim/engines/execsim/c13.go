package execsim

import (
	"bytes"
	"encoding/hex"
	"encoding/json"
	"fmt"
	"io"
	"os"
	"os/exec"
	"runtime"
	"strings"
	"sync"
	"sync/atomic"
	"testing"

	"github.com/33cn/chain33/common"
	"github.com/33cn/chain33/types"
	"github.com/33cn/chain33/util"
	"github.com/decred/base58"

	"verifsim/simnode"
	"verifsim/simrt"
)

func init() {
	simrt.Register(&simrt.Info{Property: "C13", Engine: &detEngine{},
		Rule: "one case = a chain of generated blocks in which every test block is executed >= 8 times on the same prior state under different GOMAXPROCS, prior process activity and node instances; non-trivial = a compared block contained a failing transaction or a group and at least 8 executions were compared",
		Nontrivial: func(sc *simrt.Scenario, r *simrt.Result) bool {
			return r.Probes["compared_8plus"] > 0 && r.Probes["test_block_with_failure_or_group"] > 0
		}})
}

// detEngine is C13.
type detEngine struct{}

func (detEngine) Name() string { return "execsim" }

var gmpValues = []int{1, 2, 4, 16}

// condition code = gmpIdx*8 + activity
const (
	actNone    = iota // nothing in between
	actOther          // execute another transaction list first (the block reversed / halved)
	actQueries        // state, local and header queries first
	actCheckTx        // mempool-style EventCheckTx of the block's transactions first
	actTwin           // execute on the twin node (same chain, different prior activity)
	actFresh          // execute on a node booted now and fed the chain
	actRecheck        // re-execute as a received block (signature check, state hash check)
	actRepeat         // twice in a row
	nActs
)

func (g *gen) c13Block() simrt.Op {
	r := g.r
	b := simrt.Op{K: "blk"}
	for i, n := 0, r.Range(3, 9); i < n; i++ {
		switch r.Weighted(6, 3, 1, 3, 2) {
		case 0:
			pr := g.c11Prog(g.sender(), g.pickName(), false)
			if r.Chance(1, 8) {
				pr.Sub = append([]simrt.Op{{K: "x:envfail"}}, pr.Sub...)
			}
			b.Sub = append(b.Sub, pr)
		case 1:
			x := g.xfer()
			if g.oddTo && r.Chance(1, 2) {
				x.S = []string{oddRecipient(r)}
			}
			b.Sub = append(b.Sub, x)
		case 2:
			b.Sub = append(b.Sub, simrt.Op{K: "none", I: []int64{int64(g.sender()), g.next()}})
		case 3:
			grp := g.group()
			// the contract of a later member may hit a transient environment fault
			if r.Chance(1, 2) && len(grp.Sub) > 1 {
				m := &grp.Sub[r.Range(1, len(grp.Sub)-1)]
				if m.K == "vm" {
					m.Sub = append([]simrt.Op{{K: "x:envfail"}}, m.Sub...)
				}
			}
			b.Sub = append(b.Sub, grp)
		case 4:
			b.Sub = append(b.Sub, simrt.Op{K: "mng", I: []int64{int64(r.Intn(2)), g.next(), int64(r.Intn(2)), int64(r.Intn(2))}})
		}
	}
	return b
}

// oddRecipient spells a recipient that is well-formed text but not a valid
// address of any (or of only one) address format.
func oddRecipient(r *simrt.RNG) string {
	base := simnode.AccountKey(r.Intn(NAcc)).Addr
	raw := base58.Decode(base)
	switch r.Intn(6) {
	case 0: // damaged checksum
		raw[len(raw)-1] ^= 0x5a
		return base58.Encode(raw)
	case 1: // another version byte, checksum recomputed
		raw[0] = byte(r.Range(1, 200))
		sum := common.Sha2Sum(raw[:21])
		copy(raw[21:], sum[:4])
		return base58.Encode(raw)
	case 2: // another version byte, checksum of the original
		raw[0] = byte(r.Range(1, 200))
		return base58.Encode(raw)
	case 3: // too short
		return base58.Encode(raw[:r.Range(5, 24)])
	case 4: // hex spelling with a damaged digit count
		return "0x" + hex.EncodeToString(raw[1:21])[:r.Range(30, 39)]
	}
	// one character replaced
	b := []byte(base)
	b[r.Range(1, len(b)-1)] = "123456789ABCDEFGHJKLMNPQRSTUVWXYZabcdefghijkmnopqrstuvwxyz"[r.Intn(58)]
	return string(b)
}

func (detEngine) Generate(prop string, r *simrt.RNG, tier string, run int) *simrt.Scenario {
	sc := &simrt.Scenario{Knobs: map[string]int64{}}
	g := &gen{r: r, nonce: 1000, prop: prop}
	sc.Ops = append(sc.Ops, fundBlock())
	if r.Chance(1, 2) {
		sc.Knobs["twin"] = 1
	}
	// Flag-guarded local plugins keep their flag in a process-wide cache, so the
	// local write set of GENESIS is compared between the node booted first and
	// nodes booted later (always two nodes then), with the first such node of the
	// worker process, and in a share of the cases with a fresh OS process. The
	// first runs of every worker process (cold cache) always do this.
	if run < 64 || r.Chance(1, 3) {
		sc.Knobs["stat"] = 1 // statistics plugin on
		sc.Knobs["twin"] = 1
		if r.Chance(1, 8) {
			sc.Knobs["child"] = 1
		}
	}
	// Address rules that only start at a later height (as on the main net): below
	// it some malformed recipients are forgiven, depending on WHICH error the
	// address check returns. Such chains are always executed in a fresh OS process
	// as well, block by block, because the verdict is cached per process.
	if r.Chance(1, 3) {
		sc.Knobs["addrforks"] = 1
		sc.Knobs["chainchild"] = 1
		g.oddTo = true
	} else if r.Chance(1, 10) {
		sc.Knobs["chainchild"] = 1
	}
	// The whole chain is wrapped into one op (see wrapChain): a determinism
	// violation is probabilistic and may depend on what the process did before,
	// so "this smaller scenario failed once in this worker" (what in-process
	// delta debugging would conclude) does not mean it fails in a fresh process.
	defer func() { sc.Ops = wrapChain(sc.Ops) }()
	nb := r.Range(2, 4)
	if tier != "quick" {
		nb = r.Range(3, 7)
	}
	for i := 0; i < nb; i++ {
		b := g.c13Block()
		if i == nb-1 || r.Chance(1, 2) {
			b.K = "test"
			// every GOMAXPROCS value at least twice, then random extra conditions
			var conds []int64
			for gi := range gmpValues {
				conds = append(conds, int64(gi*8+r.Intn(nActs)), int64(gi*8+r.Intn(nActs)))
			}
			for j, m := 0, r.Range(0, 4); j < m; j++ {
				conds = append(conds, int64(r.Intn(len(gmpValues))*8+r.Intn(nActs)))
			}
			p := r.Perm(len(conds))
			for _, k := range p {
				b.I = append(b.I, conds[k])
			}
		}
		sc.Ops = append(sc.Ops, b)
	}
	return sc
}

// wrapChain nests the block list two levels deep so that the generic minimiser
// leaves it alone; unwrapChain is its inverse (and accepts a flat list).
func wrapChain(blocks []simrt.Op) []simrt.Op {
	return []simrt.Op{{K: "chain", Sub: []simrt.Op{{K: "blocks", Sub: blocks}}}}
}

func unwrapChain(ops []simrt.Op) []simrt.Op {
	if len(ops) == 1 && ops[0].K == "chain" {
		if len(ops[0].Sub) == 1 && ops[0].Sub[0].K == "blocks" {
			return ops[0].Sub[0].Sub
		}
		return nil
	}
	return ops
}

func (e detEngine) Execute(t *testing.T, ctx *simrt.Ctx) *simrt.Violation {
	old := runtime.GOMAXPROCS(0)
	defer runtime.GOMAXPROCS(old)
	var viol *simrt.Violation
	simrt.InBubble(t, func() { viol = e.run(ctx) })
	return viol
}

func manageToml(s string) string {
	// account 0 becomes a manager so that manage transactions can succeed
	return strings.Replace(s, `"1Bsg9j6gW83sShoee1fZAt9TkUjcrCgA9S", `, `"1Bsg9j6gW83sShoee1fZAt9TkUjcrCgA9S", "`+simnode.AccountKey(0).Addr+`", `, 1)
}

func c13Toml(stat, mvcc bool) func(string) string {
	return func(s string) string {
		s = manageToml(s)
		old := "[exec]\nenableStat=false\nenableMVCC=false"
		if !strings.Contains(s, old) {
			simrt.Failf("exec section of the default configuration changed")
		}
		return strings.Replace(s, old, fmt.Sprintf("[exec]\nenableStat=%v\nenableMVCC=%v", stat, mvcc), 1)
	}
}

// outputs of one execution of a block on a prior state
type execOut struct {
	receipts, detail, stateKV, root, add, del []byte
	errs                                      string
}

func encKVs(kvs []*types.KeyValue) []byte {
	var b bytes.Buffer
	for _, kv := range kvs {
		fmt.Fprintf(&b, "%d:%x=%d:%x;", len(kv.Key), kv.Key, len(kv.Value), kv.Value)
	}
	return b.Bytes()
}

// execAll executes the block on the node's state `prev` without keeping anything.
func execAll(n *simnode.Node, prev []byte, blk *types.Block) *execOut {
	o := &execOut{}
	raw, err := execTxList(n, prev, types.Clone(blk).(*types.Block))
	if err != nil {
		o.errs += "exectxlist:" + err.Error() + ";"
		return o
	}
	o.receipts = types.Encode(raw)
	detail, _, err := util.PreExecBlock(n.Client, prev, types.Clone(blk).(*types.Block), false, true, false)
	if err != nil {
		o.errs += "preexec:" + err.Error() + ";"
		return o
	}
	o.detail = types.Encode(detail)
	o.stateKV = encKVs(detail.KV)
	o.root = detail.Block.StateHash
	if err := util.ExecKVSetRollback(n.Client, detail.Block.StateHash); err != nil {
		o.errs += "rollback:" + err.Error() + ";"
	}
	if len(detail.Block.Txs) == 0 {
		return o
	}
	add, err := execLocal(n, types.EventAddBlock, detail)
	if err != nil {
		o.errs += "addblock:" + err.Error() + ";"
	} else {
		o.add = types.Encode(add)
	}
	del, err := execLocal(n, types.EventDelBlock, detail)
	if err != nil {
		o.errs += "delblock:" + err.Error() + ";"
	} else {
		o.del = types.Encode(del)
	}
	return o
}

func (a *execOut) diff(b *execOut) (string, string) {
	switch {
	case a.errs != b.errs:
		return "errors", fmt.Sprintf("%q vs %q", a.errs, b.errs)
	case !bytes.Equal(a.receipts, b.receipts):
		return "receipts", firstDiff(a.receipts, b.receipts)
	case !bytes.Equal(a.stateKV, b.stateKV):
		return "state-write-set", firstDiff(a.stateKV, b.stateKV)
	case !bytes.Equal(a.root, b.root):
		return "state-root", fmt.Sprintf("%x vs %x", a.root, b.root)
	case !bytes.Equal(a.detail, b.detail):
		return "block-detail", firstDiff(a.detail, b.detail)
	case !bytes.Equal(a.add, b.add):
		return "addblock-local", firstDiff(a.add, b.add)
	case !bytes.Equal(a.del, b.del):
		return "delblock-local", firstDiff(a.del, b.del)
	}
	return "", ""
}

func firstDiff(a, b []byte) string {
	i := 0
	for i < len(a) && i < len(b) && a[i] == b[i] {
		i++
	}
	lo, hiA, hiB := i-24, i+40, i+40
	if lo < 0 {
		lo = 0
	}
	if hiA > len(a) {
		hiA = len(a)
	}
	if hiB > len(b) {
		hiB = len(b)
	}
	return fmt.Sprintf("lengths %d/%d, first difference at byte %d: ...%q vs ...%q", len(a), len(b), i, a[lo:hiA], b[lo:hiB])
}

// connect builds the block for real on node n (dropping invalid transactions),
// commits it and hands it to the blockchain; returns the connected block detail.
func connect(ctx *simrt.Ctx, n *simnode.Node, prev []byte, blk *types.Block) (*types.BlockDetail, *simrt.Violation) {
	detail, _, err := util.ExecBlock(n.Client, prev, types.Clone(blk).(*types.Block), false, true, false)
	if err != nil {
		return nil, ctx.Violate(connectClass(ctx, "exec-reply-error"), "ExecBlock", "ExecBlock failed: %v", err)
	}
	if len(detail.Block.Txs) == 0 {
		return nil, nil
	}
	if ok, msg := deliver(n, detail.Block); !ok {
		// the blockchain re-executes the block the executor has just built on the same state
		return nil, ctx.Violate(connectClass(ctx, "block-rejected"), "built-block-rejected", "the block built by the executor was rejected when the blockchain re-executed it: %s", msg)
	}
	return detail, nil
}

// connectClass: for C13 every anomaly while re-executing is the violation itself.
func connectClass(ctx *simrt.Ctx, other string) string {
	if ctx.Sc.Property == "C13" {
		return "nondeterministic-exec"
	}
	return other
}

func (e detEngine) run(ctx *simrt.Ctx) *simrt.Violation {
	sc := ctx.Sc
	uid := fmt.Sprintf("%s-%d-%d", sc.Property, sc.Run, ctx.Seq())
	opts := c13Opts(sc)
	en := newEnv(ctx, "a-"+uid, opts)
	defer en.close()
	observeOnly := ctx.Sc.Knob("observe_only", 0) == 1 // the body of a fresh process (ChainChildMain)
	chainChild := sc.Knob("chainchild", 0) == 1 && !observeOnly
	var mine []*BlockObs
	var twin *env
	if observeOnly {
		sc.Knobs["twin"], sc.Knobs["stat"] = 0, 0
	}
	if sc.Knob("twin", 0) == 1 {
		twin = newEnv(ctx, "b-"+uid, opts)
		defer twin.close()
	}
	if stat := sc.Knob("stat", 0) == 1; stat {
		if v := e.compareGenesis(ctx, en, twin, stat, sc.Knob("child", 0) == 1); v != nil {
			return v
		}
	}
	var chain []*types.Block // connected blocks in order
	ops := unwrapChain(sc.Ops)
	for i := range ops {
		op := &ops[i]
		ctx.CurOp = 0
		ctx.Step()
		if op.K != "blk" && op.K != "test" {
			continue
		}
		var txs []*types.Transaction
		special := false
		seen := map[string]bool{}
		var unitsTx [][]*types.Transaction
		for j := range op.Sub {
			u := en.makeUnit(&op.Sub[j])
			if u == nil || seen[string(u.txs[0].Hash())] {
				continue
			}
			seen[string(u.txs[0].Hash())] = true
			txs = append(txs, u.txs...)
			unitsTx = append(unitsTx, u.txs)
			if len(u.txs) > 1 {
				special = true
			}
		}
		if len(txs) == 0 {
			continue
		}
		blk := en.newBlock(txs)
		prev := en.tip.StateHash
		if chainChild || observeOnly {
			mine = append(mine, obsOf(blk.Height, execAll(en.n, prev, blk)))
		}
		if op.K == "test" && !observeOnly {
			if v := e.compare(ctx, opts, en, twin, chain, prev, blk, unitsTx, op.I, uid, special); v != nil {
				return v
			}
		}
		runtime.GOMAXPROCS(gmpValues[i%len(gmpValues)])
		detail, v := connect(ctx, en.n, prev, blk)
		if v != nil {
			return v
		}
		if detail == nil {
			continue
		}
		en.tip = detail.Block
		chain = append(chain, detail.Block)
		if twin != nil {
			if ok, msg := deliver(twin.n, detail.Block); !ok {
				return ctx.Violate("nondeterministic-exec", "twin-rejects-block", "a second node with the same chain rejected the block built by the first: %s", msg)
			}
			twin.tip = detail.Block
		}
		ctx.Logf("op %d: height %d txs %d state %x", i, detail.Block.Height, len(detail.Block.Txs), detail.Block.StateHash)
	}
	ctx.CurOp = len(sc.Ops)
	if observeOnly {
		childObs = mine
		return nil
	}
	if chainChild && len(mine) > 0 {
		ctx.Fault("fresh_os_process_chain")
		theirs := childChain(sc)
		if len(theirs) != len(mine) {
			return ctx.Violate("nondeterministic-exec", "fresh-process/chain-length", "the same generated chain gave %d executed blocks in this process and %d in a fresh OS process", len(mine), len(theirs))
		}
		for i := range mine {
			if sig, d := mine[i].out().diff(theirs[i].out()); sig != "" {
				return ctx.Violate("nondeterministic-exec", "fresh-process/"+sig, "block height %d of the same chain executed in this long-running process and in a fresh OS process gave different %s: %s", mine[i].Height, sig, d)
			}
		}
		ctx.Probe("chain_compared_with_fresh_process")
	}
	return nil
}

// c13Opts is the node configuration of a scenario (the same in a fresh process).
func c13Opts(sc *simrt.Scenario) simnode.Opts {
	opts := simnode.Opts{EditToml: c13Toml(sc.Knob("stat", 0) == 1, false)}
	if sc.Knob("addrforks", 0) == 1 {
		opts.EditCfg = func(cfg *types.Chain33Config) {
			cfg.SetFork("ForkMultiSignAddress", 1298600)
			cfg.SetFork("ForkBase58AddressCheck", 1800000)
		}
	}
	return opts
}

// BlockObs is everything one execution of a block shows, in a form that
// travels between processes.
type BlockObs struct {
	Height                                    int64
	Receipts, Detail, StateKV, Root, Add, Del []byte
	Errs                                      string
}

func obsOf(h int64, o *execOut) *BlockObs {
	return &BlockObs{Height: h, Receipts: o.receipts, Detail: o.detail, StateKV: o.stateKV, Root: o.root, Add: o.add, Del: o.del, Errs: o.errs}
}

func (b *BlockObs) out() *execOut {
	return &execOut{receipts: b.Receipts, detail: b.Detail, stateKV: b.StateKV, root: b.Root, add: b.Add, del: b.Del, errs: b.Errs}
}

var childObs []*BlockObs

// compare executes blk on prev under every condition and compares all outputs
// with the first execution byte for byte.
func (e detEngine) compare(ctx *simrt.Ctx, opts simnode.Opts, en, twin *env, chain []*types.Block, prev []byte, blk *types.Block, units [][]*types.Transaction, conds []int64, uid string, special bool) *simrt.Violation {
	runtime.GOMAXPROCS(1)
	ref := execAll(en.n, prev, blk)
	ctx.Logf("test block height %d: receipts %s kv %s root %x add %s del %s errs %q", blk.Height, simrt.DigestOf(ref.receipts), simrt.DigestOf(ref.stateKV), ref.root, simrt.DigestOf(ref.add), simrt.DigestOf(ref.del), ref.errs)
	if bytes.Contains(ref.receipts, []byte("simvm: program")) || special {
		ctx.Probe("test_block_with_failure_or_group")
	}
	var refDetail *types.BlockDetail
	if ref.detail != nil {
		refDetail = &types.BlockDetail{}
		simrt.Must(types.Decode(ref.detail, refDetail), "decode detail")
	}
	n := 1
	check := func(what string, o *execOut) *simrt.Violation {
		n++
		if sig, d := ref.diff(o); sig != "" {
			return ctx.Violate("nondeterministic-exec", sig, "executing the same block on the same prior state gave different %s (%s vs first execution): %s", sig, what, d)
		}
		return nil
	}
	var fresh *env
	defer func() {
		if fresh != nil {
			fresh.close()
		}
	}()
	for ci, c := range conds {
		gmp := gmpValues[int(c/8)%len(gmpValues)]
		act := int(c % 8)
		runtime.GOMAXPROCS(gmp)
		ctx.Fault(fmt.Sprintf("gomaxprocs_%d", gmp))
		what := fmt.Sprintf("condition %d: GOMAXPROCS=%d activity=%d", ci, gmp, act)
		node := en.n
		switch act {
		case actOther:
			ctx.Fault("prior_other_block")
			var rev []*types.Transaction
			for k := len(units) - 1; k >= 0; k-- {
				if ci%2 == 0 || k%2 == 0 {
					rev = append(rev, units[k]...)
				}
			}
			ob := types.Clone(blk).(*types.Block)
			ob.Txs = rev
			_ = execAll(en.n, prev, ob)
		case actQueries:
			ctx.Fault("prior_queries")
			_, _ = en.n.API.GetLastHeader()
			_, _ = en.n.API.StoreGet(&types.StoreGet{StateHash: prev, Keys: [][]byte{en.acc.AccountKey(en.keys[0].Addr), []byte("mavl-simvm-k0")}})
			_, _ = en.n.API.LocalList(&types.LocalDBList{Prefix: []byte("LODB-simvm-a"), Direction: 1})
			_, _ = en.n.API.GetBlocks(&types.ReqBlocks{Start: 0, End: en.tip.Height, IsDetail: true})
		case actCheckTx:
			ctx.Fault("prior_checktx")
			msg := en.n.Client.NewMessage("execs", types.EventCheckTx, &types.ExecTxList{StateHash: prev, Txs: blk.Txs, BlockTime: blk.BlockTime, Height: blk.Height, Difficulty: uint64(blk.Difficulty), IsMempool: true, ParentHash: blk.ParentHash})
			if err := en.n.Client.Send(msg, true); err == nil {
				_, _ = en.n.Client.Wait(msg)
			}
		case actTwin:
			if twin != nil {
				ctx.Fault("other_node_instance")
				node = twin.n
			}
		case actFresh:
			if fresh == nil {
				fresh = newEnv(ctx, fmt.Sprintf("c-%s-%d", uid, blk.Height), opts)
				for _, b := range chain {
					if ok, msg := deliver(fresh.n, b); !ok {
						return ctx.Violate("nondeterministic-exec", "fresh-node-rejects-chain", "a freshly booted node rejected block height %d of the chain built by the first node: %s", b.Height, msg)
					}
				}
			}
			ctx.Fault("fresh_node_instance")
			node = fresh.n
		case actRecheck:
			if refDetail != nil && len(refDetail.Block.Txs) > 0 {
				ctx.Fault("recheck_as_received_block")
				d2, _, err := util.PreExecBlock(en.n.Client, prev, types.Clone(refDetail.Block).(*types.Block), true, true, false)
				n++
				if err != nil {
					return ctx.Violate("nondeterministic-exec", "recheck-failed", "re-executing the built block as a received block (%s) failed: %v", what, err)
				}
				_ = util.ExecKVSetRollback(en.n.Client, d2.Block.StateHash)
				if !bytes.Equal(encKVs(d2.KV), ref.stateKV) {
					return ctx.Violate("nondeterministic-exec", "state-write-set", "re-executing the built block as a received block (%s) gave a different state write set: %s", what, firstDiff(ref.stateKV, encKVs(d2.KV)))
				}
			}
		case actRepeat:
			ctx.Fault("repeat")
			if v := check(what+" (first of two)", execAll(node, prev, blk)); v != nil {
				return v
			}
		}
		if v := check(what, execAll(node, prev, blk)); v != nil {
			return v
		}
	}
	// Many goroutines derive the identities of the block's transactions at once
	// (the signature-check pool, the duplicate checks and the index all do): every
	// one of them must get the bytes a lone goroutine gets.
	{
		want := make([][2][]byte, len(blk.Txs))
		for i, tx := range blk.Txs {
			want[i] = [2][]byte{tx.Hash(), tx.FullHash()}
		}
		runtime.GOMAXPROCS(4)
		var wg sync.WaitGroup
		var bad atomic.Value
		for g := 0; g < 24; g++ {
			wg.Add(1)
			go func(g int) {
				defer wg.Done()
				for round := 0; round < 40 && bad.Load() == nil; round++ {
					for i := range blk.Txs {
						tx := blk.Txs[(i+g)%len(blk.Txs)]
						w := want[(i+g)%len(blk.Txs)]
						if h := tx.Hash(); !bytes.Equal(h, w[0]) {
							bad.Store(fmt.Sprintf("Transaction.Hash of transaction %d: %x alone, %x with 24 goroutines hashing", (i+g)%len(blk.Txs), w[0], h))
							return
						}
						if h := tx.FullHash(); !bytes.Equal(h, w[1]) {
							bad.Store(fmt.Sprintf("Transaction.FullHash of transaction %d: %x alone, %x with 24 goroutines hashing", (i+g)%len(blk.Txs), w[1], h))
							return
						}
					}
				}
			}(g)
		}
		wg.Wait()
		ctx.Fault("concurrent_hashing")
		if b := bad.Load(); b != nil {
			return ctx.Violate("nondeterministic-exec", "transaction-identity-under-concurrency", "%s", b.(string))
		}
	}
	// A transient fault of the execution environment while the block executes
	// (the bus times out under a contract's API call): that execution must be
	// abandoned with an error, never turned into receipts that another execution
	// of the same block on the same state would not produce.
	hasEnv := false
	for _, tx := range blk.Txs {
		if bytes.Contains(tx.Payload, []byte(`"o":"envfail"`)) {
			hasEnv = true
		}
	}
	if hasEnv {
		runtime.GOMAXPROCS(1)
		hits0 := atomic.LoadInt32(&EnvFaultHits)
		atomic.StoreInt32(&EnvFaultArmed, 1)
		o := execAll(en.n, prev, blk)
		atomic.StoreInt32(&EnvFaultArmed, 0)
		ctx.Fault("transient_env_fault_during_exec")
		if atomic.LoadInt32(&EnvFaultHits) > hits0 {
			if strings.HasPrefix(o.errs, "exectxlist:") {
				ctx.Probe("env_fault_abandons_execution")
			} else if sig, d := ref.diff(o); sig != "" {
				return ctx.Violate("nondeterministic-exec", "env-fault-became-"+sig, "a transient environment fault (queue timeout returned to a contract) during one execution of the block did not abandon that execution: it produced %s that differ from every other execution of the same block on the same state: %s", sig, d)
			}
		}
		if v := check("after an execution that hit an environment fault", execAll(en.n, prev, blk)); v != nil {
			return v
		}
	}
	if n >= 8 {
		ctx.Probe("compared_8plus")
	}
	return nil
}

// ---------------------------------------------------------------------------
// genesis: the one block every node executes by itself at boot

// GenesisObs is what a node shows of the local write set of its genesis block.
type GenesisObs struct {
	Stored map[string]string `json:"stored"` // plugin flag key -> stored value (hex) or "absent"
	Replay string            `json:"replay"` // executor's EventAddBlock answer for the genesis block, hex
	Err    string            `json:"err,omitempty"`
}

var flagKeys = [][]byte{types.StatisticFlag(), types.FlagKeyMVCC, types.FlagTxQuickIndex}

func observeGenesis(n *simnode.Node) *GenesisObs {
	o := &GenesisObs{Stored: map[string]string{}}
	for _, k := range flagKeys {
		r, err := n.API.LocalGet(&types.LocalDBGet{Keys: [][]byte{k}})
		switch {
		case err != nil:
			o.Stored[string(k)] = "error:" + err.Error()
		case len(r.Values) == 0 || r.Values[0] == nil:
			o.Stored[string(k)] = "absent"
		default:
			o.Stored[string(k)] = fmt.Sprintf("%x", r.Values[0])
		}
	}
	d, err := n.Chain.GetBlock(0)
	if err != nil {
		o.Err = "getblock:" + err.Error()
		return o
	}
	set, err := execLocal(n, types.EventAddBlock, d)
	if err != nil {
		o.Err = "addblock:" + err.Error()
		return o
	}
	o.Replay = fmt.Sprintf("%x", types.Encode(set))
	return o
}

func (a *GenesisObs) diff(b *GenesisObs) (string, string) {
	if a.Err != b.Err {
		return "genesis/errors", fmt.Sprintf("%q vs %q", a.Err, b.Err)
	}
	for _, k := range flagKeys {
		if a.Stored[string(k)] != b.Stored[string(k)] {
			return "genesis/stored-plugin-flag", fmt.Sprintf("local key %q stored by genesis: %s vs %s", k, a.Stored[string(k)], b.Stored[string(k)])
		}
	}
	if a.Replay != b.Replay {
		return "genesis/addblock-local", firstDiff([]byte(a.Replay), []byte(b.Replay))
	}
	return "", ""
}

// first genesis observation of this worker process per configuration
var (
	genesisMu    sync.Mutex
	genesisFirst = map[string]*GenesisObs{}
)

func (e detEngine) compareGenesis(ctx *simrt.Ctx, en, twin *env, stat, child bool) *simrt.Violation {
	cfgKey := fmt.Sprintf("stat=%v", stat)
	a := observeGenesis(en.n)
	ctx.Probe("genesis_compared")
	ctx.Logf("genesis %s: stored %v replay %s err %q", cfgKey, a.Stored, simrt.DigestOf(a.Replay), a.Err)
	genesisMu.Lock()
	first := genesisFirst[cfgKey]
	if first == nil {
		genesisFirst[cfgKey] = a
		ctx.Probe("genesis_first_of_process")
	}
	genesisMu.Unlock()
	if twin != nil {
		b := observeGenesis(twin.n)
		if sig, d := a.diff(b); sig != "" {
			return ctx.Violate("nondeterministic-exec", sig, "the genesis block executed by the node booted first vs a node booted later in the same process (%s): %s", cfgKey, d)
		}
	}
	if first != nil {
		if sig, d := first.diff(a); sig != "" {
			return ctx.Violate("nondeterministic-exec", sig, "the genesis block executed by the first node of this process vs a node booted later (%s): %s", cfgKey, d)
		}
	}
	if child {
		ctx.Fault("fresh_os_process")
		c := childGenesis(stat)
		if sig, d := c.diff(a); sig != "" {
			return ctx.Violate("nondeterministic-exec", sig+"/fresh-process", "the genesis block executed in a fresh OS process vs in this long-running process (%s): %s", cfgKey, d)
		}
	}
	return nil
}

// ChildMain is the body of a one-shot fresh process (TestExecsimChild): boot a
// node with the requested configuration and report its genesis observation.
func ChildMain(t *testing.T, in io.Reader, out io.Writer) {
	var req struct {
		Stat  bool            `json:"stat"`
		Chain *simrt.Scenario `json:"chain,omitempty"`
	}
	data, err := io.ReadAll(in)
	simrt.Must(err, "read request")
	simrt.Must(json.Unmarshal(data, &req), "decode request")
	if req.Chain != nil {
		// the whole chain of a scenario, first execution of every block only
		sc := req.Chain
		if sc.Knobs == nil {
			sc.Knobs = map[string]int64{}
		}
		sc.Knobs["observe_only"] = 1
		var viol *simrt.Violation
		simrt.InBubble(t, func() {
			ctx := simrt.NewCtx(sc)
			viol = detEngine{}.run(ctx)
		})
		res := struct {
			Blocks []*BlockObs `json:"blocks"`
			Viol   string      `json:"viol,omitempty"`
		}{Blocks: childObs}
		if viol != nil {
			res.Viol = viol.Class + " " + viol.Sig + ": " + viol.Detail
		}
		b, _ := json.Marshal(res)
		out.Write(append(b, '\n'))
		return
	}
	var obs *GenesisObs
	simrt.InBubble(t, func() {
		ctx := simrt.NewCtx(&simrt.Scenario{Property: "C13"})
		en := newEnv(ctx, "child", simnode.Opts{EditToml: c13Toml(req.Stat, false)})
		defer en.close()
		obs = observeGenesis(en.n)
	})
	b, _ := json.Marshal(obs)
	out.Write(append(b, '\n'))
}

// childChain runs the scenario's chain in a fresh OS process and returns what
// the first execution of every block showed there.
func childChain(sc *simrt.Scenario) []*BlockObs {
	req, _ := json.Marshal(map[string]interface{}{"chain": sc})
	data, diag := runChild(req)
	var res struct {
		Blocks []*BlockObs `json:"blocks"`
		Viol   string      `json:"viol,omitempty"`
	}
	if json.Unmarshal(bytes.TrimSpace(data), &res) != nil || (res.Blocks == nil && res.Viol == "") {
		simrt.Failf("C13 fresh process gave no chain observation: %s", diag)
	}
	if res.Viol != "" {
		// the chain connected here; a fresh process that cannot connect it reports
		// a shorter list and the comparison shows where
		return res.Blocks
	}
	return res.Blocks
}

func childGenesis(stat bool) *GenesisObs {
	req, _ := json.Marshal(map[string]interface{}{"stat": stat})
	data, diag := runChild(req)
	var obs GenesisObs
	if json.Unmarshal(bytes.TrimSpace(data), &obs) != nil || obs.Stored == nil {
		simrt.Failf("C13 fresh process gave no observation: %s", diag)
	}
	return &obs
}

func runChild(req []byte) ([]byte, string) {
	self, err := os.Executable()
	simrt.Must(err, "os.Executable")
	cmd := exec.Command(self, "-test.run", "^TestExecsimChild$", "-test.timeout", "0", "-test.count", "1")
	var env []string
	for _, kv := range os.Environ() {
		if strings.HasPrefix(kv, "VERIF_") {
			continue
		}
		env = append(env, kv)
	}
	cmd.Env = append(env, "VERIF_EXECSIM_CHILD=1")
	cmd.Stdin = bytes.NewReader(req)
	pr, pw, err := os.Pipe()
	simrt.Must(err, "pipe")
	cmd.ExtraFiles = []*os.File{pw}
	var errb bytes.Buffer
	cmd.Stdout, cmd.Stderr = &errb, &errb
	simrt.Must(cmd.Start(), "start fresh process")
	pw.Close()
	data, _ := io.ReadAll(pr)
	werr := cmd.Wait()
	pr.Close()
	diag := errb.String()
	if len(diag) > 2000 {
		diag = diag[len(diag)-2000:]
	}
	return data, fmt.Sprintf("(%v) %s", werr, diag)
}
