package execsim

import (
	"bytes"
	"sort"
	"strings"
)

// ---------------------------------------------------------------------------
// Reference model. Its rules come from the property statements:
//
//	C11  a transaction (or a whole group) that fails leaves nothing but its fee;
//	     later transactions observe state and local data as if it had only paid.
//	C12  a transaction succeeds only if every state key it wrote is reported and
//	     every reported key is in its own namespace, in its own deposit area
//	     inside another executor, or in an area the owning executor allows;
//	     local keys must carry the executor's local prefix.

// layer is a copy-on-write key-value view; nil pointer value = absent.
type layer struct {
	up *layer
	m  map[string][]byte
}

func newLayer(up *layer) *layer { return &layer{up: up, m: map[string][]byte{}} }

func (l *layer) get(k string) ([]byte, bool) {
	for x := l; x != nil; x = x.up {
		if v, ok := x.m[k]; ok {
			return v, true
		}
	}
	return nil, false
}

func (l *layer) set(k string, v []byte) { l.m[k] = append([]byte{}, v...) }

// commit merges this layer into its parent.
func (l *layer) commit() {
	for k, v := range l.m {
		l.up.m[k] = v
	}
}

// list returns the values of keys with the prefix, ascending by key.
func (l *layer) list(prefix string) [][]byte {
	seen := map[string][]byte{}
	for x := l; x != nil; x = x.up {
		for k, v := range x.m {
			if strings.HasPrefix(k, prefix) {
				if _, dup := seen[k]; !dup {
					seen[k] = v
				}
			}
		}
	}
	keys := make([]string, 0, len(seen))
	for k := range seen {
		keys = append(keys, k)
	}
	sort.Strings(keys)
	out := make([][]byte, 0, len(keys))
	for _, k := range keys {
		out = append(out, seen[k])
	}
	return out
}

// view is the model's world: state, local data and coin balances.
type view struct {
	state, local, bal *layer
}

func newView() *view {
	return &view{state: newLayer(nil), local: newLayer(nil), bal: newLayer(nil)}
}

func (v *view) child() *view {
	return &view{state: newLayer(v.state), local: newLayer(v.local), bal: newLayer(v.bal)}
}

func (v *view) commit() { v.state.commit(); v.local.commit(); v.bal.commit() }

func (v *view) balance(addr string) int64 {
	b, ok := v.bal.get(addr)
	if !ok {
		return 0
	}
	var x int64
	for _, c := range b {
		x = x<<8 | int64(c)
	}
	return x
}

func (v *view) setBalance(addr string, x int64) {
	b := make([]byte, 8)
	for i := 7; i >= 0; i-- {
		b[i] = byte(x)
		x >>= 8
	}
	v.bal.set(addr, b)
}

// ---------------------------------------------------------------------------
// C12 reference rule

// friendRule describes what a synthetic owner lets other executors write.
type friendRule struct {
	prefix   string // keys the owner opens
	realExec string // to transactions of this real executor
}

// friendRules: owner driver name -> rule (the harness-defined contracts' allowances).
var friendRules = map[string]friendRule{
	NameFR: {prefix: string(frOpenPrefix), realExec: NameVM},
	NameVM: {prefix: string(vmSharedPrefix), realExec: NameVN},
}

// keyNamespace parses "mavl-<executor>-rest": the executor segment, or ok=false
// for a key that has no such segment.
func keyNamespace(key []byte) (string, bool) {
	if !bytes.HasPrefix(key, []byte("mavl-")) {
		return "", false
	}
	rest := key[5:]
	i := bytes.IndexByte(rest, '-')
	if i < 0 {
		return "", false
	}
	return string(rest[:i]), true
}

// depositArea parses "mavl-<executor>-<symbol>-exec-<address>:rest": the address
// whose deposit area inside <executor> the key belongs to.
func depositArea(key []byte) (string, bool) {
	if !bytes.HasPrefix(key, []byte("mavl-")) {
		return "", false
	}
	parts := bytes.SplitN(key[5:], []byte("-"), 4)
	if len(parts) < 4 || string(parts[2]) != "exec" {
		return "", false
	}
	i := bytes.IndexByte(parts[3], ':')
	if i < 0 {
		return "", false
	}
	return string(parts[3][:i]), true
}

// realExecOf strips "user.p.<title>." and maps "user.<name>.<x>" to <name>.
func realExecOf(execer string) string {
	e := execer
	if strings.HasPrefix(e, "user.p.") {
		parts := strings.SplitN(e, ".", 4)
		if len(parts) == 4 && parts[3] != "" {
			e = parts[3]
		}
	}
	if strings.HasPrefix(e, "user.") && !strings.HasPrefix(e, "user.p.") {
		rest := e[5:]
		if i := strings.IndexByte(rest, '.'); i > 0 {
			return rest[:i]
		}
		if rest != "" {
			return rest
		}
	}
	return e
}

// keyAllowed is the reference write-permission rule for a transaction whose
// executor name is execer (running on the main chain), with execAddr the
// address function for executor names.
func keyAllowed(key []byte, execer string, execAddr func(string) string) bool {
	ns, ok := keyNamespace(key)
	if !ok {
		return false // malformed: no owner at all
	}
	if ns == execer {
		return true // own namespace
	}
	owner := ns
	if addr, ok := depositArea(key); ok {
		if addr == execAddr(execer) {
			return true // own deposit area inside another executor
		}
		if real := realExecOf(execer); addr == execAddr(real) {
			owner = real // the deposit area of the real executor is owned by it
		}
	}
	// an area the owning executor explicitly allows
	rule, ok := friendRules[realExecOf(owner)]
	if !ok {
		return false
	}
	return strings.HasPrefix(string(key), rule.prefix) && realExecOf(execer) == rule.realExec
}

// localKeyAllowed is the reference local-prefix rule: "LODB-<executor>-x..."
// for the transaction's executor name or its real name.
func localKeyAllowed(key []byte, execer string) bool {
	for _, e := range []string{execer, realExecOf(execer)} {
		p := "LODB-" + e + "-"
		if strings.HasPrefix(string(key), p) && len(key) > len(p) {
			return true
		}
	}
	return false
}

// ---------------------------------------------------------------------------
// reference interpreter for one program

// expKV is an expected receipt key-value: exact bytes, or a coins account whose
// balance is compared after decoding.
type expKV struct {
	key    []byte
	val    []byte
	isAcct bool
	addr   string
	bal    int64
}

type progResult struct {
	ok       bool
	why      string    // failure kind (stable, used in signatures)
	kvs      []expKV   // reported state KV in order (success only)
	reads    []ReadRec // expected read log (success only)
	wrote    []string  // state keys written before the end (also on failure)
	lwrote   []string  // local keys written before the end (also on failure)
	lseq     []localKV // local writes the program reports, in order
	badLocal bool      // a reported local key lacks the executor prefix
}

type localKV struct{ k, v []byte }

// runProg interprets p for a transaction of executor name execer on view v
// (which is the transaction's own layer; the caller commits or drops it).
// sameTime: the local phase runs together with Exec; localReadable: Exec may read local data.
func runProg(v *view, p *Prog, execer, sender string, sameTime bool, execAddr func(string) string) *progResult {
	r := &progResult{ok: true}
	type okv struct{ k, v []byte }
	var kvs []okv
	up := func(k, val []byte) {
		for i := range kvs {
			if bytes.Equal(kvs[i].k, k) {
				kvs[i].v = val
				return
			}
		}
		kvs = append(kvs, okv{k, val})
	}
	written := map[string]bool{}
	fail := func(why string) *progResult {
		r.ok, r.why, r.kvs, r.reads = false, why, nil, nil
		return r
	}
	for _, in := range p.X {
		switch in.Op {
		case "sset":
			v.state.set(string(in.K), in.V)
			written[string(in.K)] = true
			r.wrote = append(r.wrote, string(in.K))
			up(in.K, in.V)
		case "sget":
			val, ok := v.state.get(string(in.K))
			r.reads = append(r.reads, ReadRec{Op: "sget", K: in.K, F: ok, V: val})
		case "lget":
			if !sameTime {
				r.reads = append(r.reads, ReadRec{Op: "lget", K: in.K, E: "disabled"})
				continue
			}
			val, ok := v.local.get(string(in.K))
			r.reads = append(r.reads, ReadRec{Op: "lget", K: in.K, F: ok, V: val})
		case "llist":
			if !sameTime {
				r.reads = append(r.reads, ReadRec{Op: "llist", K: in.K, E: "disabled"})
				continue
			}
			vals := v.local.list(string(in.K))
			if in.N == 0 {
				for i, j := 0, len(vals)-1; i < j; i, j = i+1, j-1 {
					vals[i], vals[j] = vals[j], vals[i]
				}
			}
			r.reads = append(r.reads, ReadRec{Op: "llist", K: in.K, F: len(vals) > 0, Vs: vals})
		case "emit":
			up(in.K, in.V)
		case "omit":
			for i := range kvs {
				if bytes.Equal(kvs[i].k, in.K) {
					kvs = append(kvs[:i:i], kvs[i+1:]...)
					break
				}
			}
		case "cxfer":
			// moves coins of the sender inside the coins executor's namespace: a
			// program of another executor may not write there, whatever the amounts
			to := string(in.K)
			if in.N <= 0 || to == sender || v.balance(sender) < in.N {
				return fail("cxfer-refused")
			}
			v.setBalance(sender, v.balance(sender)-in.N)
			v.setBalance(to, v.balance(to)+in.N)
			r.wrote = append(r.wrote, "coins:"+sender, "coins:"+to)
			return fail("foreign-coins-write")
		case "fail":
			return fail("exec-fail")
		case "panic":
			return fail("exec-panic")
		}
	}
	// every written key must be reported
	reported := map[string]bool{}
	for _, kv := range kvs {
		reported[string(kv.k)] = true
	}
	for k := range written {
		if !reported[k] {
			return fail("unreported-key")
		}
	}
	// every reported key must be allowed
	for _, kv := range kvs {
		if !keyAllowed(kv.k, execer, execAddr) {
			return fail("disallowed-key")
		}
	}
	if sameTime {
		if why, bad := runLocal(v, p, execer, r); why != "" {
			r.badLocal = bad
			return fail(why)
		}
	}
	for _, kv := range kvs {
		// the receipt is the authoritative write set
		v.state.set(string(kv.k), kv.v)
		r.kvs = append(r.kvs, expKV{key: kv.k, val: kv.v})
	}
	return r
}

// runLocal interprets the local phase on v.local; returns a failure kind or "".
func runLocal(v *view, p *Prog, execer string, r *progResult) (why string, badPrefix bool) {
	lwritten := map[string]bool{}
	lreported := map[string][]byte{}
	var order []string
	set := func(k, val []byte, write, report bool) {
		if write {
			v.local.set(string(k), val)
			lwritten[string(k)] = true
			r.lwrote = append(r.lwrote, string(k))
		}
		if report {
			if _, dup := lreported[string(k)]; !dup {
				order = append(order, string(k))
			}
			lreported[string(k)] = val
			r.lseq = append(r.lseq, localKV{append([]byte{}, k...), append([]byte{}, val...)})
		}
	}
	for _, in := range p.L {
		switch in.Op {
		case "lset":
			set(in.K, in.V, true, true)
		case "lcopy":
			val, ok := v.local.get(string(in.K))
			if !ok {
				val = nilMark
			}
			set(in.V, val, true, true)
		case "llist":
			vals := v.local.list(string(in.K))
			if in.N == 0 {
				for i, j := 0, len(vals)-1; i < j; i, j = i+1, j-1 {
					vals[i], vals[j] = vals[j], vals[i]
				}
			}
			set(in.V, joinVals(vals), true, true)
		case "lsetq":
			set(in.K, in.V, true, false)
		case "lemit":
			set(in.K, in.V, false, true)
		case "fail":
			return "local-fail", false
		}
	}
	for k := range lwritten {
		if _, ok := lreported[k]; !ok {
			return "unreported-local-key", false
		}
	}
	for _, k := range order {
		if !localKeyAllowed([]byte(k), execer) {
			return "bad-local-prefix", true
		}
	}
	for _, kv := range r.lseq {
		v.local.set(string(kv.k), kv.v) // the reported set is what is stored
	}
	return "", false
}
