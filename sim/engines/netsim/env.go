// Package netsim drives chain33's DHT p2p protocol code above libp2p (broadcast:
// full/light blocks, transactions, batches, peer messages, validator bookkeeping
// and the pending-light-block / block-request loops; download: task handler and
// stream handlers; peer: version/peer-info exchange) with scripted peers on the
// in-memory fakes of package simnet, inside a synctest bubble. Behind the
// protocols are the real queue, the real mempool of a simnode (C33, C34) and a
// scripted "blockchain" subscriber that records what is posted to it.
// C33 (peer input cannot crash the node), C34 (light blocks rebuilt exactly or
// fall back), C35 (download delivers every servable height).
package netsim

import (
	"bytes"
	"context"
	"fmt"
	"runtime/debug"
	"sort"
	"strings"
	"sync"
	"time"

	"github.com/33cn/chain33/client"
	"github.com/33cn/chain33/common"
	"github.com/33cn/chain33/common/address"
	"github.com/33cn/chain33/common/merkle"
	"github.com/33cn/chain33/p2p"
	"github.com/33cn/chain33/queue"
	cty "github.com/33cn/chain33/system/dapp/coins/types"
	"github.com/33cn/chain33/system/p2p/dht/extension"
	"github.com/33cn/chain33/system/p2p/dht/protocol"
	"github.com/33cn/chain33/system/p2p/dht/protocol/broadcast"
	p2pty "github.com/33cn/chain33/system/p2p/dht/types"
	"github.com/33cn/chain33/types"
	kbt "github.com/libp2p/go-libp2p-kbucket"

	"verifsim/simnet"
	"verifsim/simnode"
	"verifsim/simrt"
)

const (
	selfIdx   = 0 // identity index of the node under test
	maxPeers  = 8 // remote peer identities 1..maxPeers
	bcTopic   = "netsim-blockchain"
	realChain = "blockchain"
)

// fatal is a panic that reached the top of a goroutine of the system under test
// (or escaped into the harness from an entry point that the shipped program
// calls from an unprotected goroutine): the shipped node would have died.
type fatal struct {
	where string // goroutine / entry point
	frame string // innermost chain33 frame
	text  string
}

// redirClient sends everything addressed to the "blockchain" topic to the
// scripted subscriber instead (the real queue still carries the message).
type redirClient struct {
	queue.Client
	redirect bool
}

func (c *redirClient) fix(topic string) string {
	if c.redirect && topic == realChain {
		return bcTopic
	}
	return topic
}
func (c *redirClient) NewMessage(topic string, ty int64, data interface{}) *queue.Message {
	return c.Client.NewMessage(c.fix(topic), ty, data)
}
func (c *redirClient) Send(msg *queue.Message, wait bool) error {
	msg.Topic = c.fix(msg.Topic)
	return c.Client.Send(msg, wait)
}
func (c *redirClient) SendTimeout(msg *queue.Message, wait bool, d time.Duration) error {
	msg.Topic = c.fix(msg.Topic)
	return c.Client.SendTimeout(msg, wait, d)
}

// posted is one block handed to the blockchain topic.
type posted struct {
	at    time.Duration // virtual time since the bubble epoch
	ty    int64         // EventBroadcastAddBlock / EventSyncBlock
	pid   string
	block *types.Block
}

// bcStub is the scripted blockchain subscriber.
type bcStub struct {
	mu     sync.Mutex
	cli    queue.Client
	posts  []posted
	blocks map[int64]*types.Block // what EventGetBlocks serves
	tip    int64
	// replyErr: error text answered to the next broadcast blocks ("" = ok)
	replyErr string
	other    map[int64]int
}

func (b *bcStub) setBlock(blk *types.Block) {
	b.mu.Lock()
	b.blocks[blk.Height] = blk
	if blk.Height > b.tip {
		b.tip = blk.Height
	}
	b.mu.Unlock()
}

func (b *bcStub) take() []posted {
	b.mu.Lock()
	defer b.mu.Unlock()
	p := b.posts
	b.posts = nil
	return p
}

func (b *bcStub) serve(msg *queue.Message) {
	now := time.Since(simnode.BubbleEpoch)
	b.mu.Lock()
	defer b.mu.Unlock()
	reply := func(ty int64, data interface{}) { msg.Reply(b.cli.NewMessage("", ty, data)) }
	switch msg.Ty {
	case types.EventBroadcastAddBlock, types.EventSyncBlock:
		bp, _ := msg.Data.(*types.BlockPid)
		if bp != nil {
			b.posts = append(b.posts, posted{at: now, ty: msg.Ty, pid: bp.Pid, block: bp.Block})
		}
		if msg.Ty == types.EventBroadcastAddBlock {
			if b.replyErr != "" {
				reply(types.EventReply, &types.Reply{IsOk: false, Msg: []byte(b.replyErr)})
			} else {
				reply(types.EventReply, &types.Reply{IsOk: true})
			}
		}
	case types.EventGetBlocks:
		req, _ := msg.Data.(*types.ReqBlocks)
		var out types.BlockDetails
		for h := req.GetStart(); h <= req.GetEnd() && h-req.GetStart() < 300; h++ {
			blk, ok := b.blocks[h]
			if !ok {
				reply(types.EventBlocks, types.ErrNotFound) // what blockchain answers for a missing height
				return
			}
			out.Items = append(out.Items, &types.BlockDetail{Block: blk})
		}
		reply(types.EventBlocks, &out)
	case types.EventGetLastHeader:
		h := &types.Header{Height: b.tip}
		if blk, ok := b.blocks[b.tip]; ok {
			h.Hash = blk.ParentHash
			h.BlockTime = blk.BlockTime
		}
		reply(types.EventHeader, h)
	case types.EventIsSync:
		reply(types.EventReplyIsSync, &types.IsCaughtUp{Iscaughtup: true})
	case types.EventSnowmanLastChoice:
		reply(types.EventSnowmanLastChoice, &types.SnowChoice{Height: 0})
	default:
		b.other[msg.Ty]++
		msg.ReplyErr("netsim blockchain stub", types.ErrNotSupport)
	}
}

// node is the p2p side of one node under test.
type node struct {
	ctx    *simrt.Ctx
	sn     *simnode.Node // real queue/mempool/... (nil: bare queue)
	q      queue.Queue
	cfg    *types.Chain33Config
	cli    *redirClient
	api    client.QueueProtocolAPI
	env    *protocol.P2PEnv
	host   *simnet.Host
	pinfo  *simnet.PeerInfo
	cmgr   *simnet.ConnMgr
	black  *simnet.BlackList
	bc     *bcStub
	cancel context.CancelFunc
	mu     sync.Mutex
	fatals []fatal
	herr   *simrt.HarnessError
	bsim   *broadcast.Sim
	gkey   *simnode.Key
}

type nodeOpts struct {
	uid       string
	mempool   bool  // boot a simnode (real mempool etc.) behind the queue
	ltTimeout int64 // LtBlockPendTimeout in ms (0: chain33's default)
	noValid   bool  // broadcast.disableValidation=true (consortium/private chain setting)
	baseCtx   func(context.Context) context.Context
}

func newNode(ctx *simrt.Ctx, o nodeOpts) *node {
	n := &node{ctx: ctx}
	protocol.ClearEventHandler()
	if o.mempool {
		// the node never mines: what is in the pool is decided by the scenario alone
		n.sn = simnode.New(simnode.Opts{ID: "net-" + o.uid, EditToml: func(s string) string {
			return strings.Replace(s, "minerstart=true", "minerstart=false", 1)
		}})
		n.q, n.cfg = n.sn.Q, n.sn.Cfg
	} else {
		cfg := types.NewChain33Config(simnode.BaseToml("net-" + o.uid))
		q := queue.New("channel")
		q.SetConfig(cfg)
		n.q, n.cfg = q, cfg
	}
	n.cli = &redirClient{Client: n.q.Client(), redirect: o.mempool}
	api, err := client.New(n.cli, nil)
	simrt.Must(err, "client.New")
	n.api = api
	// scripted blockchain
	n.bc = &bcStub{blocks: map[int64]*types.Block{}, other: map[int64]int{}}
	sub := n.q.Client()
	n.bc.cli = sub
	if o.mempool {
		sub.Sub(bcTopic)
	} else {
		sub.Sub(realChain)
	}
	go func() {
		for msg := range sub.Recv() {
			n.bc.serve(msg)
		}
	}()
	if !o.mempool {
		// a sink for the mempool topic (peer-info asks for the pool size)
		mc := n.q.Client()
		mc.Sub("mempool")
		go func() {
			for msg := range mc.Recv() {
				switch msg.Ty {
				case types.EventGetMempoolSize:
					msg.Reply(mc.NewMessage("", 0, &types.MempoolSize{}))
				default:
					msg.ReplyErr("netsim mempool sink", types.ErrNotSupport)
				}
			}
		}()
	}

	if mc := n.cfg.GetModuleConfig().P2P; len(mc.Types) == 0 {
		mc.Types = []string{p2pty.DHTTypeName}
	}
	mgr := p2p.NewP2PMgr(n.cfg)
	mgr.Client = n.cli
	mgr.SysAPI = api
	subCfg := &p2pty.P2PSubConfig{}
	if raw := n.cfg.GetSubConfig().P2P[p2pty.DHTTypeName]; len(raw) > 0 {
		types.MustDecode(raw, subCfg)
	}
	subCfg.Broadcast.LtBlockPendTimeout = o.ltTimeout
	subCfg.Broadcast.DisableValidation = o.noValid
	n.host = simnet.NewHost(selfIdx)
	n.pinfo = simnet.NewPeerInfo()
	n.cmgr = &simnet.ConnMgr{}
	n.black = simnet.NewBlackList()
	base, cancel := context.WithCancel(context.Background())
	n.cancel = cancel
	var c context.Context = base
	if o.baseCtx != nil {
		c = o.baseCtx(base)
	}
	rt, err := kbt.NewRoutingTable(20, kbt.ConvertPeerID(n.host.ID()), time.Minute, n.host.Peerstore(), time.Hour, nil)
	simrt.Must(err, "routing table")
	topics := []string{}
	for i := 0; i <= maxPeers; i++ {
		topics = append(topics, broadcast.SimPeerPrefix+simnet.PeerID(i).String())
	}
	n.env = &protocol.P2PEnv{
		Ctx: c, ChainCfg: n.cfg, SubConfig: subCfg, API: api, QueueClient: n.cli, Host: n.host,
		P2PManager: mgr, PeerInfoManager: n.pinfo, ConnManager: n.cmgr, ConnBlackList: n.black,
		Pubsub: extension.NewSimPubSub(base, topics...), RoutingTable: rt,
	}
	n.gkey = simnode.GenesisKey()
	return n
}

func (n *node) close() {
	n.cancel()
	simrt.Settle()
	if n.sn != nil {
		n.sn.Close()
		n.sn.Disk.Remove()
	}
	protocol.ClearEventHandler()
}

// run starts a goroutine of the system under test; a panic reaching its top is
// recorded as fatal (the shipped process would have terminated).
func (n *node) run(name string, body func()) {
	go func() {
		defer n.catch(name)
		body()
	}()
}

// call runs an entry point in the harness goroutine with the same bookkeeping.
func (n *node) call(name string, body func()) {
	defer n.catch(name)
	body()
}

func (n *node) catch(name string) {
	r := recover()
	if r == nil {
		return
	}
	n.mu.Lock()
	defer n.mu.Unlock()
	if he, ok := r.(simrt.HarnessError); ok {
		n.herr = &he
		return
	}
	st := string(debug.Stack())
	n.fatals = append(n.fatals, fatal{where: name, frame: sutFrame(st), text: fmt.Sprintf("panic: %v\n%s", r, trim(st, 2500))})
}

// check turns recorded fatals into a violation (and re-raises harness errors).
func (n *node) check() *simrt.Violation {
	n.mu.Lock()
	defer n.mu.Unlock()
	if n.herr != nil {
		panic(*n.herr)
	}
	if len(n.fatals) == 0 {
		return nil
	}
	f := n.fatals[0]
	return n.ctx.Violate("peer-input-panic", f.where+"/"+f.frame, "unrecovered panic in %s (the node process terminates):\n%s", f.where, f.text)
}

// sutFrame extracts the innermost chain33 function of a panic stack.
func sutFrame(st string) string {
	lines := strings.Split(st, "\n")
	seenPanic := false
	for _, l := range lines {
		if strings.HasPrefix(l, "panic(") {
			seenPanic = true
			continue
		}
		if !seenPanic || strings.HasPrefix(l, "\t") {
			continue
		}
		if i := strings.Index(l, "github.com/33cn/chain33/"); i >= 0 {
			f := l[i+len("github.com/33cn/chain33/"):]
			if j := strings.LastIndex(f, "("); j > 0 {
				f = f[:j]
			}
			return f
		}
	}
	return "unknown"
}

// crashExit makes an unrecovered panic in a goroutine the harness does not
// guard (mempool, per-height download goroutines, ...) end the worker with
// SIGABRT instead of Go's exit status 2, which the supervisor reserves for
// harness errors: only then is the death attributed to the run in progress as a
// candidate violation (crash_is_violation). The returned func restores the
// default.
func crashExit() func() {
	debug.SetTraceback("crash")
	return func() { debug.SetTraceback("single") }
}

func trim(s string, n int) string {
	if len(s) > n {
		return s[:n]
	}
	return s
}

func now() time.Duration { return time.Since(simnode.BubbleEpoch) }

// event delivers a queue event to the handler the protocols registered, the way
// the dht p2p module dispatches messages from the p2p topic.
func (n *node) event(ty int64, data interface{}) bool {
	h := protocol.GetEventHandler(ty)
	if h == nil {
		return false
	}
	msg := n.cli.NewMessage("p2p", ty, data)
	h.CallBack(msg)
	return true
}

// ---------------------------------------------------------------------------
// transactions and blocks

// txUnit is a single transaction or a transaction group, as it sits in a block
// (members) and as it is submitted to a pool (pack).
type txUnit struct {
	members []*types.Transaction
	pack    *types.Transaction
}

// makeTx: op "tx" I=[to, amount, nonce] (coins transfer from the genesis account)
// or op "none" I=[nonce].
func (n *node) makeTx(op *simrt.Op) *types.Transaction {
	var tx *types.Transaction
	switch op.K {
	case "tx":
		to := simnode.AccountKey(int(op.Int(0) % 8)).Addr
		amt := op.Int(1)%1000 + 1
		v := &cty.CoinsAction_Transfer{Transfer: &types.AssetsTransfer{Amount: amt, To: to}}
		tx = &types.Transaction{Execer: []byte(n.cfg.GetCoinExec()), Payload: types.Encode(&cty.CoinsAction{Value: v, Ty: cty.CoinsActionTransfer}), To: to}
		tx.Nonce = op.Int(2)
	case "none":
		tx = &types.Transaction{Execer: []byte("none"), Payload: []byte(fmt.Sprintf("none-%d", op.Int(0)))}
		tx.To = address.ExecAddress("none")
		tx.Nonce = op.Int(0)
	default:
		return nil
	}
	tx.Fee = 1000000
	tx.ChainID = n.cfg.GetChainID()
	tx.Sign(types.SECP256K1, n.gkey.Priv)
	return tx
}

// makeUnit expands a "tx"/"none"/"group" op.
func (n *node) makeUnit(op *simrt.Op) *txUnit {
	if op.K != "group" {
		tx := n.makeTx(op)
		if tx == nil {
			return nil
		}
		return &txUnit{members: []*types.Transaction{tx}, pack: tx}
	}
	var txs []*types.Transaction
	seen := map[string]bool{}
	for i := range op.Sub {
		if tx := n.makeTx(&op.Sub[i]); tx != nil && !seen[string(tx.Hash())] {
			seen[string(tx.Hash())] = true
			tx.Signature = nil
			txs = append(txs, tx)
		}
	}
	if len(txs) < 2 {
		if len(txs) == 1 {
			txs[0].Sign(types.SECP256K1, n.gkey.Priv)
			return &txUnit{members: txs, pack: txs[0]}
		}
		return nil
	}
	g, err := types.CreateTxGroup(txs, n.cfg.GetMinTxFeeRate())
	if err != nil {
		simrt.Failf("CreateTxGroup: %v", err)
	}
	for i := range g.Txs {
		if err := g.SignN(i, types.SECP256K1, n.gkey.Priv); err != nil {
			simrt.Failf("SignN: %v", err)
		}
	}
	return &txUnit{members: g.Txs, pack: g.Tx()}
}

// makeBlock assembles a block around the units (header fields are consistent
// with the body; the state hash is arbitrary: nothing here executes the block).
func (n *node) makeBlock(height int64, salt int64, units []*txUnit) *types.Block {
	blk := &types.Block{Height: height, BlockTime: simnode.GenesisTime + 10 + height, Difficulty: 0x1f00ffff}
	blk.ParentHash = common.Sha256([]byte(fmt.Sprintf("parent-%d-%d", height, salt)))
	blk.StateHash = common.Sha256([]byte(fmt.Sprintf("state-%d-%d", height, salt)))
	for _, u := range units {
		for _, tx := range u.members {
			blk.Txs = append(blk.Txs, types.CloneTx(tx))
		}
	}
	blk.TxHash = merkle.CalcMerkleRoot(n.cfg, height, blk.Txs)
	return blk
}

// submit puts a unit into the real pool through the local API; it returns
// whether the pool accepted it.
func (n *node) submit(u *txUnit) (bool, string) {
	_, err := n.api.SendTx(types.CloneTx(u.pack))
	simrt.Settle()
	if err != nil {
		return false, err.Error()
	}
	return true, ""
}

func sameBlock(a, b *types.Block) bool { return bytes.Equal(types.Encode(a), types.Encode(b)) }

func sortedKeys(m map[int64]int) []int64 {
	ks := make([]int64, 0, len(m))
	for k := range m {
		ks = append(ks, k)
	}
	sort.Slice(ks, func(i, j int) bool { return ks[i] < ks[j] })
	return ks
}
