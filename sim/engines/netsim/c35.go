package netsim

import (
	"bytes"
	"context"
	"encoding/binary"
	"fmt"
	"runtime"
	"sort"
	"strconv"
	"strings"
	"sync"
	"testing"
	"testing/synctest"
	"time"

	"github.com/33cn/chain33/common"
	"github.com/33cn/chain33/system/p2p/dht/protocol"
	"github.com/33cn/chain33/system/p2p/dht/protocol/download"
	"github.com/33cn/chain33/types"
	"github.com/libp2p/go-libp2p/core/network"
	"github.com/libp2p/go-libp2p/core/peer"
	lproto "github.com/libp2p/go-libp2p/core/protocol"

	"verifsim/simnet"
	"verifsim/simrt"
)

func init() {
	simrt.Register(&simrt.Info{Property: "C35", Engine: &dlEngine{},
		Rule: "one case = 1..6 scripted peers (announced height, latency, default behaviour) with per-(peer,height,attempt) exceptions out of serve / refuse / slow refuse / finite stall / garbage (4 shapes) / empty reply / wrong oneof / nil block / wrong-height block / serve after a short (<=5 s) or long (>=20 s) delay / EOF / stall forever, one or two download tasks over 1..120 heights, and a seeded interleaving of the per-height download goroutines at their seams (peer pick, dial, result); distinct = scenario digest + schedule digest; non-trivial = at least one request failed and at least two heights were in flight",
		Nontrivial: func(sc *simrt.Scenario, r *simrt.Result) bool {
			return r.Probes["dl-failed-ask"] > 0 && r.Probes["dl-multi-height"] > 0
		}})
}

// dlEngine is C35.
type dlEngine struct{}

func (dlEngine) Name() string { return "netsim" }

// peer behaviours
const (
	bServe = iota
	bRefuse
	bStall // finite: param seconds, then reset
	bGarbage
	bEmpty
	bWrongHeight
	bDelay // serve after param seconds
	bEOF
	bWrongOneof
	bNilBlock
	bSlowRefuse // NewStream blocks until the dial context expires
	bStallForever
	bLast
)

var behNames = []string{"serve", "refuse", "stall", "garbage", "empty", "wrong-height", "delay", "eof", "wrong-oneof", "nil-block", "slow-refuse", "stall-forever"}

const (
	dlOld        = "/chain33/downloadBlockReq/1.0.0"
	c35Patience  = 150 * time.Second // virtual time without any goroutine reaching a seam
	c35Quantum   = 100 * time.Millisecond
	c35MaxSteps  = 60000
	c35MaxHeight = 100000
	// a peer that answers within this many seconds counts as serving the height
	c35ShortDelay = 5
)

func (dlEngine) Generate(prop string, r *simrt.RNG, tier string, run int) *simrt.Scenario {
	sc := &simrt.Scenario{Knobs: map[string]int64{}}
	open := true // (peers that never answer are generated in every run)
	if r.Chance(1, 12) {
		// saturation: one peer that holds every request for as long as the node
		// lets it, except for a few heights it serves; more heights than the peer
		// may have in flight, so some heights cannot get a slot in the first pass
		count := r.Range(112, 120)
		start := int64(r.Range(1, 500))
		slow := []int{bStallForever, bSlowRefuse, bStall}[r.Intn(3)]
		sc.Ops = append(sc.Ops, simrt.Op{K: "peer", I: []int64{start + int64(count), 0, int64(slow), 30}})
		for i, k := 0, r.Range(3, 10); i < k; i++ {
			sc.Ops = append(sc.Ops, simrt.Op{K: "beh", I: []int64{0, int64(r.Intn(count)), bServe, 0, 0}})
		}
		sc.Ops = append(sc.Ops, simrt.Op{K: "task", I: []int64{start, int64(count), int64(r.Intn(1 << 16))}})
		return sc
	}
	np := r.Range(1, 6)
	var count int
	switch r.Intn(6) {
	case 0:
		count = r.Range(1, 3)
	case 1, 2:
		count = r.Range(2, 12)
	case 3, 4:
		count = r.Range(8, 40)
	default:
		count = r.Range(30, 120)
	}
	start := int64(r.Range(1, 500))
	failing := []int{bRefuse, bStall, bGarbage, bEmpty, bWrongHeight, bDelay, bEOF, bWrongOneof, bNilBlock, bSlowRefuse}
	pick := func() (int, int) {
		b := failing[r.Intn(len(failing))]
		if open && r.Chance(1, 6) {
			b = bStallForever
		}
		p := r.Intn(1000)
		switch b {
		case bStall:
			p = r.Range(1, 60)
		case bDelay:
			// a short delay is a peer that serves; a long one is a peer the node
			// may give up on (what lies between is left open and not generated)
			p = r.Range(1, 5)
			if r.Chance(1, 3) {
				p = r.Range(20, 40)
			}
		}
		return b, p
	}
	for i := 0; i < np; i++ {
		ann := start + int64(count) + int64(r.Range(0, 5))
		switch r.Intn(6) {
		case 0:
			ann = start + int64(r.Intn(count+1)) - 1 // only part of the range
		case 1:
			ann = start - 1 - int64(r.Intn(2)) // nothing of it
		}
		def, dp := bServe, 0
		if r.Chance(1, 3) {
			def, dp = pick()
		}
		lat := int64(0)
		if r.Chance(1, 2) {
			lat = int64(r.Range(1, 900))
		}
		sc.Ops = append(sc.Ops, simrt.Op{K: "peer", I: []int64{ann, lat, int64(def), int64(dp)}})
	}
	// exceptions
	nex := r.Range(0, 3+count/2)
	if r.Chance(1, 5) {
		nex = r.Range(count, 3*count)
	}
	for i := 0; i < nex; i++ {
		b, p := pick()
		if r.Chance(1, 4) {
			b, p = bServe, 0
		}
		sc.Ops = append(sc.Ops, simrt.Op{K: "beh", I: []int64{int64(r.Intn(np)), int64(r.Intn(count)), int64(b), int64(p), int64(r.Intn(3))}})
	}
	sc.Ops = append(sc.Ops, simrt.Op{K: "task", I: []int64{start, int64(count), int64(r.Intn(1 << 16))}})
	if r.Chance(1, 6) {
		c2 := r.Range(1, 10)
		sc.Ops = append(sc.Ops, simrt.Op{K: "task", I: []int64{start + int64(r.Intn(count)), int64(c2), int64(r.Intn(1 << 16))}})
	}
	return sc
}

// skipKnown was a development aid (hide the shapes the unchanged tree produced
// before they were fixed); it is permanently off: nothing is ever suppressed
// inside an engine.
const skipKnown = false

func (e dlEngine) Execute(t *testing.T, ctx *simrt.Ctx) *simrt.Violation {
	defer crashExit()()
	// Goroutine identity of the per-height download goroutines is derived from
	// their creation order (goroutine ids); that order is only guaranteed to be
	// monotonic with a single P.
	old := runtime.GOMAXPROCS(1)
	defer runtime.GOMAXPROCS(old)
	var viol *simrt.Violation
	simrt.InBubble(t, func() { viol = e.run(ctx) })
	if viol != nil && skipKnown {
		switch viol.Class + "/" + viol.Sig {
		case "download-never-terminates/peer-stalls-forever", "height-not-delivered/wrong-height-accepted", "peer-asked-again/first-pass":
			return nil
		}
	}
	return viol
}

func canonBlock(h int64) *types.Block {
	return &types.Block{Height: h, ParentHash: common.Sha256([]byte(fmt.Sprintf("c35-%d", h-1))), TxHash: common.Sha256([]byte(fmt.Sprintf("c35-tx-%d", h))),
		StateHash: common.Sha256([]byte(fmt.Sprintf("c35-st-%d", h))), BlockTime: 946681200 + h, Difficulty: 0x1f00ffff}
}

// ---------------------------------------------------------------------------
// goroutine scheduler keyed by goroutine id

func curGoid() int64 {
	var buf [64]byte
	n := runtime.Stack(buf[:], false)
	// "goroutine 123 [running...
	f := strings.Fields(string(buf[:n]))
	if len(f) < 2 {
		simrt.Failf("cannot parse goroutine id from %q", buf[:n])
	}
	id, err := strconv.ParseInt(f[1], 10, 64)
	simrt.Must(err, "goroutine id")
	return id
}

type gtask struct {
	goid  int64
	label string
	grant chan struct{}
}

type gsched struct {
	ctx      *simrt.Ctx
	mu       sync.Mutex
	parked   []*gtask
	height   map[int64]int64 // goid -> height it works on (pass 0)
	retry    int64           // goid of the handler goroutine (sequential re-download)
	start    int64
	count    int64
	steps    int
	livelock bool // the step bound of a terminating task was exceeded
	off      bool
	// retrySteps counts the seams passed by the sequential re-download pass
	retrySteps map[string]int
}

func (s *gsched) park(label string) {
	s.mu.Lock()
	if s.off {
		s.mu.Unlock()
		return
	}
	t := &gtask{goid: curGoid(), label: label, grant: make(chan struct{})}
	s.parked = append(s.parked, t)
	s.mu.Unlock()
	<-t.grant
}

// heightOf returns the height a pass-0 goroutine works on (0: unknown/handler).
func (s *gsched) heightOf(goid int64) int64 {
	s.mu.Lock()
	defer s.mu.Unlock()
	return s.height[goid]
}

// drive runs the task to completion; it returns true when no goroutine reached
// a seam and the handler did not return for `patience` of virtual time.
func (s *gsched) drive(done chan struct{}) (stuck bool) {
	idle := time.Duration(0)
	s.mu.Lock()
	base := s.steps // steps are counted over all tasks of a run
	s.mu.Unlock()
	for {
		synctest.Wait()
		select {
		case <-done:
			return false
		default:
		}
		s.mu.Lock()
		if len(s.parked) == 0 {
			s.mu.Unlock()
			if idle >= c35Patience {
				return true
			}
			time.Sleep(c35Quantum)
			idle += c35Quantum
			s.ctx.AddSimTime(c35Quantum)
			continue
		}
		idle = 0
		// Every height makes at most 50 attempts in each of the two passes and an
		// attempt crosses at most four seams: a task still scheduling far beyond
		// that never terminates (each further round costs virtual time only).
		if int64(s.steps-base) > s.count*2*52*4+2000 {
			s.livelock = true
			s.mu.Unlock()
			return true
		}
		// the per-height goroutines are created in height order before any of
		// them is released: rank by goroutine id = offset in the range
		if len(s.height) == 0 {
			var ids []int64
			for _, t := range s.parked {
				if t.goid != s.retry {
					ids = append(ids, t.goid)
				}
			}
			sort.Slice(ids, func(i, j int) bool { return ids[i] < ids[j] })
			if int64(len(ids)) == s.count {
				for i, id := range ids {
					s.height[id] = s.start + int64(i)
				}
			} else if len(ids) > 0 {
				s.mu.Unlock()
				simrt.Failf("expected %d download goroutines at their first seam, found %d", s.count, len(ids))
			}
		}
		sort.Slice(s.parked, func(i, j int) bool { return s.parked[i].goid < s.parked[j].goid })
		var k int
		if s.steps >= c35MaxSteps {
			k = 0
		} else {
			k = s.ctx.Choice(len(s.parked))
		}
		t := s.parked[k]
		s.parked = append(s.parked[:k:k], s.parked[k+1:]...)
		s.steps++
		h := s.height[t.goid]
		s.mu.Unlock()
		s.ctx.Step()
		if t.goid == s.retry {
			// the re-download pass walks a Go map: its steps are counted, not logged
			// in order
			s.retrySteps[t.label]++
		} else {
			s.ctx.Logf("step h%d %s", h, t.label)
		}
		close(t.grant)
	}
}

// release lets every parked goroutine go and disables further parking.
func (s *gsched) release() {
	s.mu.Lock()
	s.off = true
	all := s.parked
	s.parked = nil
	s.mu.Unlock()
	for _, t := range all {
		close(t.grant)
	}
}

// seamCtx is the context handed to the download protocol: its Done method is
// called by downloadBlock right before it picks a peer, with no lock held.
type seamCtx struct {
	context.Context
	seam func()
}

func (c *seamCtx) Done() <-chan struct{} {
	var pcs [6]uintptr
	n := runtime.Callers(2, pcs[:])
	fr := runtime.CallersFrames(pcs[:n])
	if f, ok := fr.Next(); ok || f.Function != "" {
		if strings.HasSuffix(f.Function, "download.(*Protocol).downloadBlock") {
			c.seam()
		}
	}
	return c.Context.Done()
}

// ---------------------------------------------------------------------------

type dlPeer struct {
	idx      int // identity index
	id       peer.ID
	ann      int64
	def, dp  int
	exOps    [][4]int64          // generated exceptions in op order: offset, attempt, behaviour, param
	ex       map[[2]int64][2]int // (height, attempt) -> behaviour, param (resolved per task)
	asks     map[int64]int       // height -> number of requests so far (this task)
	sent     map[string]bool     // encodings of blocks this peer sent
	wrongFor map[int64]bool      // heights it answered with another height's block
}

func (p *dlPeer) behaviour(h int64, attempt int) (int, int) {
	if b, ok := p.ex[[2]int64{h, int64(attempt)}]; ok {
		return b[0], b[1]
	}
	return p.def, p.dp
}

type dlAsk struct {
	peer, pass, attempt, beh int
	height                   int64
}

func (dlEngine) run(ctx *simrt.Ctx) *simrt.Violation {
	sc := ctx.Sc
	uid := fmt.Sprintf("%s-%d-%d", sc.Property, sc.Run, ctx.Seq())
	open := true
	sched := &gsched{ctx: ctx, height: map[int64]int64{}, retrySteps: map[string]int{}}
	n := newNode(ctx, nodeOpts{uid: uid, baseCtx: func(c context.Context) context.Context {
		return &seamCtx{Context: c, seam: func() { sched.park("pick") }}
	}})
	defer n.close()
	download.InitProtocol(n.env)

	var mu sync.Mutex
	var peers []*dlPeer
	byID := map[peer.ID]*dlPeer{}
	var asks []dlAsk
	latCalls := 0
	stalledForever := 0
	pass := func() int {
		if len(peers) == 0 {
			return 0
		}
		return (latCalls - 1) / len(peers)
	}
	n.host.Store().OnLatency = func(peer.ID) {
		mu.Lock()
		latCalls++
		mu.Unlock()
	}
	// one request on an accepted stream
	servePeer := func(p *dlPeer, far *simnet.Stream, assumed int64) {
		var req types.MessageGetBlocksReq
		if err := protocol.ReadStream(&req, far); err != nil {
			far.Reset()
			return
		}
		h := req.GetMessage().GetStartHeight()
		if req.GetMessage().GetEndHeight() != h {
			simrt.Failf("download request for a range %d..%d", h, req.GetMessage().GetEndHeight())
		}
		if assumed != 0 && assumed != h {
			simrt.Failf("goroutine identity: assumed height %d, request says %d", assumed, h)
		}
		mu.Lock()
		p.asks[h]++
		attempt := p.asks[h] - 1
		beh, param := p.behaviour(h, attempt)
		if !open && beh == bStallForever {
			beh, param = bStall, 20
		}
		asks = append(asks, dlAsk{peer: p.idx, pass: pass(), attempt: attempt, beh: beh, height: h})
		mu.Unlock()
		send := func(b *types.Block) {
			resp := &types.MessageGetBlocksResp{Message: &types.InvDatas{Items: []*types.InvData{{Ty: 2, Value: &types.InvData_Block{Block: b}}}}}
			mu.Lock()
			p.sent[string(types.Encode(b))] = true
			mu.Unlock()
			_ = protocol.WriteStream(resp, far)
			far.Close()
		}
		switch beh {
		case bServe:
			send(canonBlock(h))
		case bDelay:
			time.Sleep(time.Duration(param) * time.Second)
			send(canonBlock(h))
		case bRefuse, bSlowRefuse, bEOF:
			far.Close() // (a refusal in the re-download pass: the request is dropped)
		case bStall:
			time.Sleep(time.Duration(param) * time.Second)
			far.Reset()
		case bStallForever:
			mu.Lock()
			stalledForever++
			mu.Unlock()
			<-make(chan struct{}) // never answers, never closes
		case bGarbage:
			hdr := append([]byte{16}, []byte("/protobuf/msgio\n")...)
			rb := simrt.NewRNG(uint64(param)*7919 + uint64(h)).Bytes(40)
			var lp [4]byte
			switch param % 4 {
			case 0: // not even the stream header
				far.Write(rb)
			case 1: // header, then a frame of noise
				binary.BigEndian.PutUint32(lp[:], uint32(len(rb)))
				far.Write(hdr)
				far.Write(append(lp[:], rb...))
			case 2: // header, then a frame shorter than announced
				binary.BigEndian.PutUint32(lp[:], 4096)
				far.Write(hdr)
				far.Write(append(lp[:], rb...))
			case 3: // header, then a frame length beyond any block size
				binary.BigEndian.PutUint32(lp[:], 0xfffffff0)
				far.Write(hdr)
				far.Write(lp[:])
			}
			far.Close()
		case bEmpty:
			_ = protocol.WriteStream(&types.MessageGetBlocksResp{Message: &types.InvDatas{}}, far)
			far.Close()
		case bWrongOneof:
			_ = protocol.WriteStream(&types.MessageGetBlocksResp{Message: &types.InvDatas{Items: []*types.InvData{{Ty: 1, Value: &types.InvData_Tx{Tx: &types.Transaction{Payload: []byte("x")}}}}}}, far)
			far.Close()
		case bNilBlock:
			_ = protocol.WriteStream(&types.MessageGetBlocksResp{Message: &types.InvDatas{Items: []*types.InvData{{Ty: 2}}}}, far)
			far.Close()
		case bWrongHeight:
			other := h + 1 + int64(param%7)
			if param%2 == 1 && h-1-int64(param%5) >= 1 {
				other = h - 1 - int64(param%5)
			}
			mu.Lock()
			p.wrongFor[h] = true
			mu.Unlock()
			send(canonBlock(other))
		default:
			far.Close()
		}
	}

	n.host.Dial = func(dctx context.Context, hst *simnet.Host, pid peer.ID, proto lproto.ID) (network.Stream, error) {
		if string(proto) != dlOld {
			return nil, fmt.Errorf("protocol %s not supported", proto)
		}
		sched.park("dial")
		mu.Lock()
		p := byID[pid]
		mu.Unlock()
		if p == nil {
			return nil, fmt.Errorf("no route to %s", pid)
		}
		assumed := sched.heightOf(curGoid())
		if assumed != 0 {
			// the per-height goroutine's height is known: a refusal happens at dial
			mu.Lock()
			beh, _ := p.behaviour(assumed, p.asks[assumed])
			if beh == bRefuse || beh == bSlowRefuse {
				p.asks[assumed]++
				asks = append(asks, dlAsk{peer: p.idx, pass: pass(), attempt: p.asks[assumed] - 1, beh: beh, height: assumed})
				mu.Unlock()
				if beh == bSlowRefuse {
					<-dctx.Done()
					return nil, dctx.Err()
				}
				return nil, fmt.Errorf("stream refused")
			}
			mu.Unlock()
		}
		local, far := hst.Pipe(pid, p.idx, proto, network.DirOutbound)
		local.OnClose = func() { sched.park("result") }
		n.run("peer-script", func() { servePeer(p, far, assumed) })
		return local, nil
	}

	for i := range sc.Ops {
		ctx.CurOp = i
		op := &sc.Ops[i]
		switch op.K {
		case "peer":
			if len(peers) >= 6 {
				continue
			}
			idx := len(peers) + 1
			p := &dlPeer{idx: idx, id: simnet.PeerID(idx), ann: op.Int(0), def: int(op.Int(2)) % bLast, dp: int(op.Int(3)), ex: map[[2]int64][2]int{}}
			if p.def < 0 {
				p.def = 0
			}
			peers = append(peers, p)
			byID[p.id] = p
			n.pinfo.SetHeight(p.id, p.ann)
			n.host.Store().Latency[p.id] = time.Duration(op.Int(1)) * time.Millisecond
		case "beh":
			if len(peers) == 0 {
				continue
			}
			p := peers[int(op.Int(0))%len(peers)]
			b := int(op.Int(2)) % bLast
			if b < 0 {
				b = 0
			}
			// the height is an offset into whatever task runs next: resolved at task time
			p.exOps = append(p.exOps, [4]int64{op.Int(1), op.Int(4), int64(b), op.Int(3)})
		case "task":
			if len(peers) == 0 {
				continue
			}
			start, count := op.Int(0), op.Int(1)
			if start < 1 {
				start = 1
			}
			if count < 1 {
				count = 1
			}
			if count > 120 {
				count = 120
			}
			if v := runTask(ctx, n, sched, &mu, peers, &asks, &latCalls, &stalledForever, start, count, open); v != nil {
				return v
			}
		}
	}
	return nil
}

// runTask executes one EventFetchBlocks task and evaluates the oracles.
func runTask(ctx *simrt.Ctx, n *node, sched *gsched, mu *sync.Mutex, peers []*dlPeer, asks *[]dlAsk, latCalls *int, stalledForever *int,
	start, count int64, open bool) *simrt.Violation {
	// reset per-task state
	mu.Lock()
	*asks = nil
	*latCalls = 0
	for _, p := range peers {
		p.asks = map[int64]int{}
		p.sent = map[string]bool{}
		p.wrongFor = map[int64]bool{}
		// resolve offset-keyed exceptions against this task's range
		p.ex = map[[2]int64][2]int{}
		for _, e := range p.exOps { // later ops override earlier ones
			off := e[0] % count
			if off < 0 {
				off = -off
			}
			p.ex[[2]int64{start + off, e[1]}] = [2]int{int(e[2]), int(e[3])}
		}
	}
	mu.Unlock()
	sched.mu.Lock()
	sched.height = map[int64]int64{}
	sched.start, sched.count = start, count
	sched.off = false
	sched.mu.Unlock()
	n.bc.take()
	if count > 1 {
		ctx.Probe("dl-multi-height")
	}

	var pids []string
	for _, p := range peers {
		pids = append(pids, p.id.Pretty())
	}
	h := protocol.GetEventHandler(types.EventFetchBlocks)
	if h == nil {
		simrt.Failf("download protocol did not register EventFetchBlocks")
	}
	msg := n.cli.NewMessage("p2p", types.EventFetchBlocks, &types.ReqBlocks{Start: start, End: start + count - 1, Pid: pids})
	done := make(chan struct{})
	t0 := now()
	n.run("handleEventDownloadBlock", func() {
		defer close(done)
		sched.mu.Lock()
		sched.retry = curGoid()
		sched.mu.Unlock()
		h.CallBack(msg)
	})
	stuck := sched.drive(done)
	simrt.Settle()
	elapsed := now() - t0
	ctx.Logf("task %d..%d: stuck=%v steps=%d retry-pass pick=%d dial=%d result=%d", start, start+count-1, stuck, sched.steps, sched.retrySteps["pick"], sched.retrySteps["dial"], sched.retrySteps["result"])
	if v := n.check(); v != nil {
		v.Class = "download-panic"
		return v
	}

	mu.Lock()
	defer mu.Unlock()
	// summary (order-insensitive: the re-download pass walks a Go map)
	perPass := map[[3]int64]int{} // (pass, peer, height) -> asks
	failedAsk := 0
	var lines []string
	for _, a := range *asks {
		perPass[[3]int64{int64(a.pass), int64(a.peer), a.height}]++
		if a.beh != bServe && a.beh != bDelay {
			failedAsk++
			ctx.Fault("peer_" + behNames[a.beh])
		}
		ps := "retry"
		if a.pass == 0 {
			ps = "first"
		}
		lines = append(lines, fmt.Sprintf("ask h%d peer%d #%d %s %s", a.height, a.peer, a.attempt, behNames[a.beh], ps))
	}
	if failedAsk > 0 {
		ctx.Probe("dl-failed-ask")
	}
	sort.Strings(lines)
	for _, l := range lines {
		ctx.Logf("%s", l)
	}
	posts := n.bc.take()
	delivered := map[int64]bool{}
	var dl []string
	for _, p := range posts {
		if p.ty != types.EventSyncBlock || p.block == nil {
			return ctx.Violate("unexpected-post", "event-type", "download posted event %d to blockchain", p.ty)
		}
		dl = append(dl, fmt.Sprintf("delivered height %d from %s", p.block.Height, p.pid))
		// integrity: exactly what the named peer sent
		var from *dlPeer
		for _, q := range peers {
			if q.id.Pretty() == p.pid {
				from = q
			}
		}
		if from == nil || !from.sent[string(types.Encode(p.block))] {
			return ctx.Violate("delivered-unsent-block", "integrity", "blockchain received a block of height %d attributed to %s which that peer never sent", p.block.Height, p.pid)
		}
		if bytes.Equal(types.Encode(p.block), types.Encode(canonBlock(p.block.Height))) {
			delivered[p.block.Height] = true
		}
	}
	sort.Strings(dl)
	for _, l := range dl {
		ctx.Logf("%s", l)
	}
	ctx.State(simrt.DigestOf("c35", len(peers), count, failedAsk, len(delivered)))

	// 1. termination
	if stuck {
		sched.release()
		if sched.livelock {
			return ctx.Violate("download-never-terminates", "retry-budget-exceeded", "task %d..%d: the handler has not returned after %d scheduling steps of the run (%v of virtual time); every height may make at most 50 attempts per pass, so the task is looping without consuming its retry budget", start, start+count-1, sched.steps, elapsed)
		}
		if *stalledForever > 0 {
			return ctx.Violate("download-never-terminates", "peer-stalls-forever", "task %d..%d: handler did not return; no download goroutine made progress for %v of virtual time (%v after the task started) while %d stream(s) are held open by a peer that never answers: the read has no deadline", start, start+count-1, c35Patience, elapsed, *stalledForever)
		}
		return ctx.Violate("download-never-terminates", "all-faults-finite", "task %d..%d: handler did not return although every injected fault ended; no goroutine reached a seam for %v (%v after the task started)", start, start+count-1, c35Patience, elapsed)
	}
	ctx.Probe("dl-terminated")
	if sched.steps >= c35MaxSteps {
		simrt.Failf("scheduler step bound hit")
	}

	// 2. every servable height is delivered
	var missing, missingWrong []int64
	for hgt := start; hgt < start+count; hgt++ {
		servable := false
		wrong := false
		for _, p := range peers {
			if p.ann < hgt {
				continue
			}
			b, bp := p.behaviour(hgt, 0)
			if b == bServe || (b == bDelay && bp <= c35ShortDelay) {
				servable = true
			}
			if p.wrongFor[hgt] {
				wrong = true
			}
		}
		if servable {
			ctx.Probe("dl-servable")
		} else {
			ctx.Probe("dl-unservable")
		}
		if servable && !delivered[hgt] {
			if wrong {
				missingWrong = append(missingWrong, hgt)
			} else {
				missing = append(missing, hgt)
			}
		}
	}
	if len(missing) > 0 {
		return ctx.Violate("height-not-delivered", "servable-height-missing", "task %d..%d returned after %v but height(s) %v were not delivered to blockchain although a peer with that height serves them on the first request; requests: %s", start, start+count-1, elapsed, missing, asksFor(lines, missing[0]))
	}
	if len(missingWrong) > 0 {
		return ctx.Violate("height-not-delivered", "wrong-height-accepted", "task %d..%d returned after %v but height(s) %v were not delivered although another peer serves them: a peer answered the request with a block of a different height, which was accepted as the answer; requests: %s", start, start+count-1, elapsed, missingWrong, asksFor(lines, missingWrong[0]))
	}
	// 3. a peer that failed a height is not asked for it again in the same pass
	var again []string
	for k, c := range perPass {
		if c > 1 {
			ps := "first pass"
			if k[0] > 0 {
				ps = "re-download pass"
			}
			again = append(again, fmt.Sprintf("height %d peer%d asked %d times in the %s", k[2], k[1], c, ps))
		}
	}
	if len(again) > 0 {
		sort.Strings(again)
		sig := "first-pass"
		if !strings.Contains(strings.Join(again, ";"), "first pass") {
			sig = "re-download-pass"
		}
		return ctx.Violate("peer-asked-again", sig, "task %d..%d: %s; requests: %s", start, start+count-1, strings.Join(again[:min(len(again), 4)], "; "), strings.Join(lines[:min(len(lines), 40)], " | "))
	}
	return nil
}

func asksFor(lines []string, h int64) string {
	var out []string
	pre := fmt.Sprintf("ask h%d ", h)
	for _, l := range lines {
		if strings.HasPrefix(l, pre) {
			out = append(out, l)
		}
	}
	if len(out) == 0 {
		return fmt.Sprintf("none for height %d", h)
	}
	return strings.Join(out, " | ")
}
