package netsim

import (
	"bytes"
	"fmt"
	"sort"
	"testing"
	"time"

	"github.com/33cn/chain33/system/p2p/dht/protocol/broadcast"
	"github.com/33cn/chain33/types"

	"verifsim/simnet"
	"verifsim/simrt"
)

func init() {
	simrt.Register(&simrt.Info{Property: "C34", Engine: &ltEngine{},
		Rule: "one case = 1..3 generated blocks (2..9 transaction units, groups at generated positions incl. first and last), a generated subset of each block's units in the real mempool when its light form arrives, and arrival times of the missing units before / at both sides of / after the pending timeout on the virtual clock; distinct = scenario digest; non-trivial = a light block was delivered that contains a group or had a unit missing at receipt",
		Nontrivial: func(sc *simrt.Scenario, r *simrt.Result) bool {
			return r.Probes["lt-delivered"] > 0 && (r.Probes["lt-missing-at-receipt"] > 0 || r.Probes["lt-with-group"] > 0)
		}})
}

// ltEngine is C34.
type ltEngine struct{}

func (ltEngine) Name() string { return "netsim" }

// tolerances of the oracle (virtual time). They are not the implementation's
// constants: `slack` is how long after the deciding moment an outcome may take,
// `guard` is how far from the timeout an arrival must be to count as clearly
// before / clearly after it.
const (
	c34Slack = 1000 * time.Millisecond
	c34Guard = 300 * time.Millisecond
	c34Step  = 50 * time.Millisecond // observation granularity
)

func genUnit(r *simrt.RNG, nonce *int64, group bool) simrt.Op {
	mk := func() simrt.Op {
		*nonce++
		if r.Chance(1, 4) {
			return simrt.Op{K: "none", I: []int64{*nonce}}
		}
		return simrt.Op{K: "tx", I: []int64{int64(r.Intn(8)), int64(r.Intn(1000)), *nonce}}
	}
	if !group {
		return mk()
	}
	g := simrt.Op{K: "group"}
	for i, k := 0, r.Range(2, 4); i < k; i++ {
		g.Sub = append(g.Sub, mk())
	}
	return g
}

type c34Event struct {
	at int64 // ms on the scenario's nominal timeline
	op simrt.Op
}

func (ltEngine) Generate(prop string, r *simrt.RNG, tier string, run int) *simrt.Scenario {
	sc := &simrt.Scenario{Knobs: map[string]int64{}}
	timeout := []int64{0, 400, 600, 1000, 1500}[r.Intn(5)]
	sc.Knobs["timeout_ms"] = timeout
	// the node's clock correction (what the NTP check sets): every deadline of the
	// node must be taken and compared on the same clock, whatever the correction
	// the transport refuses the node's first publish (a transient failure): what
	// the node publishes afterwards must still go out
	if r.Chance(1, 3) {
		sc.Knobs["fail_first_publish"] = 1
	}
	if r.Chance(1, 3) {
		sc.Knobs["clock_correction_ms"] = []int64{3000, -3000, 250, 20000, -20000}[r.Intn(5)]
	}
	eff := timeout
	if eff == 0 {
		eff = 1000
	}
	nonce := int64(run)*1000 + 1
	nblk := r.Range(1, 3)
	var evs []c34Event
	var blkOps []simrt.Op
	start := int64(0)
	for b := 0; b < nblk; b++ {
		nunits := r.Range(2, 9)
		blk := simrt.Op{K: "blk", I: []int64{int64(r.Range(1, 50)), int64(r.Range(1, maxPeers)), int64(r.Intn(1 << 30)), int64(r.Range(1, maxPeers))}}
		// (I = height, author, salt, neighbour the light block is received from)
		// group placement: every position is hit over the runs, first and last often
		gpos := map[int]bool{}
		switch r.Intn(6) {
		case 0:
		case 1:
			gpos[0] = true
		case 2:
			gpos[nunits-1] = true
		case 3:
			gpos[1%nunits] = true
		default:
			for i := 0; i < nunits; i++ {
				if r.Chance(1, 3) {
					gpos[i] = true
				}
			}
		}
		for i := 0; i < nunits; i++ {
			blk.Sub = append(blk.Sub, genUnit(r, &nonce, gpos[i]))
		}
		blkOps = append(blkOps, blk)
		recv := start + int64(r.Range(50, 400))
		evs = append(evs, c34Event{recv, simrt.Op{K: "lt", I: []int64{int64(b)}}})
		// which units are in the pool at receipt
		mode := r.Intn(5) // 0 all present, 1 none, else random subset
		for u := 0; u < nunits; u++ {
			present := mode == 0 || (mode >= 2 && r.Chance(2, 3))
			if present {
				evs = append(evs, c34Event{recv - int64(r.Range(1, 40)), simrt.Op{K: "pool", I: []int64{int64(b), int64(u), int64(r.Intn(2))}}})
				continue
			}
			var off int64
			switch r.Intn(7) {
			case 0, 1: // clearly before the timeout
				off = int64(r.Range(10, int(eff)-350))
			case 2: // around the timeout, both sides of a tick
				off = eff + []int64{-250, -201, -199, -1, 0, 1, 199, 201, 250}[r.Intn(9)]
			case 3: // just after receipt
				off = int64(r.Range(1, 60))
			case 4: // clearly after
				off = eff + int64(r.Range(350, 1500))
			default: // never
				continue
			}
			if off < 1 {
				off = 1
			}
			evs = append(evs, c34Event{recv + off, simrt.Op{K: "pool", I: []int64{int64(b), int64(u), int64(r.Intn(2))}}})
		}
		if r.Chance(1, 8) { // the same light block again from another peer
			evs = append(evs, c34Event{recv + int64(r.Range(1, 800)), simrt.Op{K: "lt", I: []int64{int64(b)}}})
		}
		if r.Chance(1, 10) { // local chain height moves
			evs = append(evs, c34Event{recv + int64(r.Range(-40, 900)), simrt.Op{K: "height", I: []int64{int64(r.Range(1, 50))}}})
		}
		if r.Chance(1, 2) {
			start = recv + int64(r.Range(0, 600)) // overlapping blocks
		} else {
			start = recv + eff + int64(r.Range(600, 2500))
		}
	}
	sort.SliceStable(evs, func(i, j int) bool { return evs[i].at < evs[j].at })
	sc.Ops = append(sc.Ops, blkOps...)
	t := int64(0)
	for _, e := range evs {
		if e.at > t {
			sc.Ops = append(sc.Ops, simrt.Op{K: "wait", I: []int64{e.at - t}})
			t = e.at
		}
		sc.Ops = append(sc.Ops, e.op)
	}
	sc.Ops = append(sc.Ops, simrt.Op{K: "wait", I: []int64{eff + 2500}})
	return sc
}

func (e ltEngine) Execute(t *testing.T, ctx *simrt.Ctx) *simrt.Violation {
	var viol *simrt.Violation
	simrt.InBubble(t, func() { viol = e.run(ctx) })
	return viol
}

// ltBlock is the model of one generated block.
type ltBlock struct {
	idx      int
	blk      *types.Block
	hash     []byte
	enc      []byte
	sender   int // author (publisher) of the block
	via      int // neighbour that forwarded the light block: the one to ask for the full block
	units    []*txUnit
	inPool   []bool
	group0   bool // the first unit is a group (the light form ships only its first member)
	hasGroup bool
	recv     bool
	recvAt   time.Duration
	complete bool // every unit is in the pool
	compAt   time.Duration
	// completeAtRecv: complete when the light block arrived
	completeAtRecv bool
	posted         int
	postedAt       time.Duration
	requested      int
	requestedAt    time.Duration
	localAbove     bool // local height reached the block's height before the fallback was due
	decided        bool
}

func (ltEngine) run(ctx *simrt.Ctx) *simrt.Violation {
	sc := ctx.Sc
	uid := fmt.Sprintf("%s-%d-%d", sc.Property, sc.Run, ctx.Seq())
	timeoutMs := sc.Knob("timeout_ms", 0)
	if cc := sc.Knob("clock_correction_ms", 0); cc != 0 {
		types.SetTimeDelta(cc * int64(time.Millisecond))
		defer types.SetTimeDelta(0)
		ctx.Fault("clock_correction")
	}
	n := newNode(ctx, nodeOpts{uid: uid, mempool: true, ltTimeout: timeoutMs})
	defer n.close()
	n.bsim = broadcast.NewSim(n.env, n.run)
	if sc.Knob("fail_first_publish", 0) == 1 {
		n.bsim.FailNextPublishes(1)
		ctx.Fault("publish_refused_by_transport")
	}
	simrt.Settle()
	time.Sleep(3 * time.Second) // mempool learns the chain is synced
	simrt.Settle()
	timeout := time.Duration(timeoutMs) * time.Millisecond
	if timeout == 0 {
		timeout = time.Second // documented default of ltBlockPendTimeout
	}
	var blocks []*ltBlock
	byHash := map[string]*ltBlock{}
	localHeight := int64(0)

	// observe drains what reached the blockchain topic and what was published,
	// and evaluates the time-independent rules.
	observe := func() *simrt.Violation {
		simrt.Settle()
		if v := n.check(); v != nil {
			return v
		}
		t := now()
		for _, p := range n.bc.take() {
			if p.ty != types.EventBroadcastAddBlock || p.block == nil {
				return ctx.Violate("unexpected-post", "event-type", "blockchain topic received event %d from the broadcast protocol", p.ty)
			}
			h := p.block.Hash(n.cfg)
			b := byHash[string(h)]
			if b == nil || !b.recv {
				return ctx.Violate("wrong-block-posted", "unknown-hash", "a block with hash %x (height %d, %d txs) was posted to blockchain but no such light block was delivered", h, p.block.Height, len(p.block.Txs))
			}
			ctx.Logf("t=%v posted block %d (height %d) pid=%s", t, b.idx, b.blk.Height, p.pid)
			if !bytes.Equal(types.Encode(p.block), b.enc) {
				return ctx.Violate("rebuilt-block-differs", diffSig(p.block, b.blk), "block %d rebuilt from its light form differs from the original (hash %x): %s", b.idx, b.hash, diffDetail(p.block, b.blk))
			}
			if !b.complete {
				return ctx.Violate("posted-while-missing", "identical-without-pool", "block %d was posted although a unit of it never entered the pool", b.idx)
			}
			// (which peer id accompanies the block is not part of the property: not compared)
			b.posted++
			if b.posted == 1 {
				b.postedAt = t
			} else {
				ctx.Probe("posted-again")
			}
		}
		for _, pm := range n.bsim.TakePublished() {
			m, ok := pm.Msg.(*types.PeerPubSubMsg)
			if !ok {
				continue // re-broadcasts are not this property's business
			}
			if m.GetMsgID() != broadcast.SimBlockReqID {
				continue
			}
			var req types.ReqInt
			if err := types.Decode(m.GetProtoMsg(), &req); err != nil {
				return ctx.Violate("bad-block-request", "undecodable", "published block request does not decode: %v", err)
			}
			// which block is it for: the pending one of that height sent by that peer
			var hit *ltBlock
			// (several generated blocks may share height and sender: the request
			// carries nothing else, so it is attributed to the oldest one that is
			// still waiting, and only if none is waiting to one already posted)
			for _, b := range blocks {
				if b.recv && b.blk.Height == req.Height && pm.Topic == n.bsim.PeerTopic(simnet.PeerID(b.via)) && b.requested == 0 {
					if hit == nil || (hit.posted > 0 && b.posted == 0) || (b.posted == 0 && b.recvAt < hit.recvAt) {
						hit = b
					}
				}
			}
			if hit == nil {
				// right height but wrong peer, or no such block at all
				for _, b := range blocks {
					if b.recv && b.blk.Height == req.Height {
						return ctx.Violate("bad-block-request", "wrong-peer-or-duplicate", "full-block request for height %d published on %s; block %d of that height was received from %s (requests so far %d)", req.Height, pm.Topic, b.idx, n.bsim.PeerTopic(simnet.PeerID(b.via)), b.requested)
					}
				}
				return ctx.Violate("bad-block-request", "wrong-height", "full-block request for height %d published on %s but no delivered light block has that height", req.Height, pm.Topic)
			}
			hit.requested++
			hit.requestedAt = t
			ctx.Logf("t=%v full-block request for block %d (height %d) to its sender", t, hit.idx, req.Height)
			if t < hit.recvAt+timeout {
				return ctx.Violate("early-fallback", "request-before-timeout", "block %d received at %v, timeout %v, full block requested already at %v", hit.idx, hit.recvAt, timeout, t)
			}
			if hit.posted > 0 {
				return ctx.Violate("posted-and-requested", "request-after-post", "block %d was rebuilt and posted at %v and still requested in full at %v", hit.idx, hit.postedAt, t)
			}
		}
		// deadlines
		for _, b := range blocks {
			if !b.recv || b.decided {
				continue
			}
			if b.posted > 0 || b.requested > 0 {
				b.decided = true
				if b.posted > 0 && b.requested > 0 {
					return ctx.Violate("posted-and-requested", "both", "block %d both posted (%v) and requested (%v)", b.idx, b.postedAt, b.requestedAt)
				}
				if b.requested > 0 && b.complete && !b.group0 && b.compAt <= b.recvAt+timeout-c34Guard {
					return ctx.Violate("complete-block-not-rebuilt", "requested-instead", "every transaction of block %d was in the pool at %v (received %v, timeout %v) but the node fell back to a full-block request at %v", b.idx, b.compAt, b.recvAt, timeout, b.requestedAt)
				}
				if b.posted > 0 {
					ctx.Probe("rebuilt")
					if !b.completeAtRecv {
						ctx.Probe("rebuilt-after-late-arrival")
					}
				} else {
					ctx.Probe("fallback-request")
					if b.group0 && b.complete && b.compAt <= b.recvAt {
						// every transaction was available, but the members of a group in
						// the first slot are not carried by the light form and are not
						// indexed one by one in the pool: the node falls back (allowed)
						ctx.Probe("group-at-0-complete-fallback")
					}
				}
				continue
			}
			if localHeight >= b.blk.Height {
				b.localAbove = true
			}
			// clearly complete before the timeout: must be posted within the slack
			if b.complete && !b.group0 && b.compAt <= b.recvAt+timeout-c34Guard {
				due := b.compAt
				if b.recvAt > due {
					due = b.recvAt
				}
				if t > due+c34Slack {
					return ctx.Violate("complete-block-not-rebuilt", "nothing-posted", "every transaction of block %d was in the pool at %v (light block received %v, timeout %v) but nothing was posted by %v", b.idx, b.compAt, b.recvAt, timeout, t)
				}
				continue
			}
			// otherwise: by timeout+slack something must have happened (rebuilt if it
			// completed around the boundary, else the fallback request)
			if t > b.recvAt+timeout+c34Slack {
				if b.localAbove {
					b.decided = true // the request is only due for heights above the local chain
					ctx.Probe("fallback-not-due-local-height")
					continue
				}
				return ctx.Violate("no-fallback", "neither-posted-nor-requested", "block %d (height %d) received at %v with units missing, timeout %v: by %v it was neither posted nor requested in full from its sender (complete=%v at %v)", b.idx, b.blk.Height, b.recvAt, timeout, t, b.complete, b.compAt)
			}
		}
		return nil
	}

	for i := range sc.Ops {
		ctx.CurOp = i
		op := &sc.Ops[i]
		ctx.Step()
		switch op.K {
		case "blk":
			var units []*txUnit
			for j := range op.Sub {
				if u := n.makeUnit(&op.Sub[j]); u != nil {
					units = append(units, u)
				}
			}
			if len(units) == 0 {
				continue
			}
			b := &ltBlock{idx: len(blocks), units: units, inPool: make([]bool, len(units)), sender: int(op.Int(1))}
			if b.sender < 1 || b.sender > maxPeers {
				b.sender = 1
			}
			b.via = int(op.Int(3))
			if b.via < 1 || b.via > maxPeers {
				b.via = b.sender
			}
			b.blk = n.makeBlock(op.Int(0), op.Int(2), units)
			b.hash = b.blk.Hash(n.cfg)
			b.enc = types.Encode(b.blk)
			b.group0 = len(units[0].members) > 1
			// the light form carries the first transaction itself
			b.inPool[0] = !b.group0
			for _, u := range units {
				if len(u.members) > 1 {
					b.hasGroup = true
				}
			}
			if byHash[string(b.hash)] != nil {
				continue
			}
			if len(units) == 1 && !b.group0 {
				b.complete = true
			}
			byHash[string(b.hash)] = b
			blocks = append(blocks, b)
		case "pool":
			if len(blocks) == 0 {
				continue
			}
			b := blocks[int(op.Int(0))%len(blocks)]
			u := int(op.Int(1)) % len(b.units)
			if b.inPool[u] {
				continue
			}
			var ok bool
			var why string
			if op.Int(2) == 1 && len(b.units[u].members) == 1 {
				// arrives as a transaction broadcast by a peer
				res := -1
				n.call("validateTx", func() {
					res = n.bsim.Deliver(broadcast.SimTopicTx, n.bsim.Encode(b.units[u].pack), simnet.PeerID(2), simnet.PeerID(3))
				})
				simrt.Settle()
				ok, why = res == broadcast.SimAccept, fmt.Sprintf("validation result %d", res)
			} else {
				ok, why = n.submit(b.units[u])
			}
			if !ok {
				simrt.Failf("pool refused a generated transaction unit: %s", why)
			}
			b.inPool[u] = true
			if b.recv {
				ctx.Fault("tx_arrives_late")
			}
			all := true
			for _, x := range b.inPool {
				all = all && x
			}
			ctx.Logf("t=%v unit %d of block %d in pool (complete=%v)", now(), u, b.idx, all)
			if all && !b.complete {
				b.complete, b.compAt = true, now()
			}
		case "lt":
			if len(blocks) == 0 {
				continue
			}
			b := blocks[int(op.Int(0))%len(blocks)]
			from := b.via
			if b.recv {
				from = b.via%maxPeers + 1 // duplicate via another neighbour: ignored by the node
				ctx.Probe("lt-duplicate")
			}
			lb := n.bsim.LightBlock(types.Clone(b.blk).(*types.Block))
			wire := n.bsim.Encode(lb)
			res := -1
			n.call("deliver-ltblock", func() {
				res = n.bsim.Deliver(broadcast.SimTopicLtBlock, wire, simnet.PeerID(b.sender), simnet.PeerID(from))
			})
			if res != broadcast.SimAccept {
				simrt.Failf("light block not accepted by the topic validator: %d", res)
			}
			if !b.recv {
				b.recv, b.recvAt = true, now()
				b.completeAtRecv = b.complete
				ctx.Probe("lt-delivered")
				if !b.complete {
					ctx.Probe("lt-missing-at-receipt")
					ctx.Fault("tx_missing_at_receipt")
				}
				if b.hasGroup {
					ctx.Probe("lt-with-group")
				}
				if b.group0 {
					ctx.Probe("lt-group-at-0")
				}
				if len(b.units[len(b.units)-1].members) > 1 {
					ctx.Probe("lt-group-at-end")
				}
				ctx.Logf("t=%v light block %d delivered (height %d, %d txs, complete=%v)", b.recvAt, b.idx, b.blk.Height, len(b.blk.Txs), b.complete)
				ctx.State(simrt.DigestOf("c34", len(b.blk.Txs), b.inPool, b.group0))
			}
		case "height":
			localHeight = op.Int(0)
			n.event(types.EventAddBlock, &types.Block{Height: localHeight})
		case "wait":
			left := time.Duration(op.Int(0)) * time.Millisecond
			for left > 0 {
				d := c34Step
				if left < d {
					d = left
				}
				time.Sleep(d)
				ctx.AddSimTime(d)
				left -= d
				if v := observe(); v != nil {
					return v
				}
			}
			continue
		}
		if v := observe(); v != nil {
			return v
		}
	}
	return nil
}

// diffSig names the first way in which the rebuilt block differs.
func diffSig(got, want *types.Block) string {
	if len(got.Txs) != len(want.Txs) {
		return "tx-count"
	}
	for i := range want.Txs {
		if got.Txs[i] == nil {
			return "nil-tx"
		}
		if !bytes.Equal(types.Encode(got.Txs[i]), types.Encode(want.Txs[i])) {
			for j := range want.Txs {
				if j != i && bytes.Equal(types.Encode(got.Txs[i]), types.Encode(want.Txs[j])) {
					return "tx-position"
				}
			}
			if bytes.Equal(got.Txs[i].Hash(), want.Txs[i].Hash()) {
				return "tx-form"
			}
			return "tx-content"
		}
	}
	return "header"
}

func diffDetail(got, want *types.Block) string {
	s := fmt.Sprintf("%d txs vs %d;", len(got.Txs), len(want.Txs))
	for i := range want.Txs {
		if i >= len(got.Txs) {
			break
		}
		if got.Txs[i] == nil {
			s += fmt.Sprintf(" position %d is nil;", i)
			continue
		}
		if !bytes.Equal(types.Encode(got.Txs[i]), types.Encode(want.Txs[i])) {
			s += fmt.Sprintf(" position %d holds tx %x (group count %d, header %d bytes), original %x (group count %d, header %d bytes);", i, got.Txs[i].Hash()[:6], got.Txs[i].GroupCount, len(got.Txs[i].Header), want.Txs[i].Hash()[:6], want.Txs[i].GroupCount, len(want.Txs[i].Header))
		}
	}
	return s
}
