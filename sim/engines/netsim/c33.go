package netsim

import (
	"bytes"
	"context"
	"encoding/binary"
	"fmt"
	"io"
	"os"
	"sort"
	"strings"
	"sync"
	"testing"
	"time"

	dbm "github.com/33cn/chain33/common/db"
	"github.com/33cn/chain33/system/p2p/dht/manage"
	"github.com/33cn/chain33/system/p2p/dht/protocol"
	"github.com/33cn/chain33/system/p2p/dht/protocol/broadcast"
	"github.com/33cn/chain33/system/p2p/dht/protocol/download"
	peerproto "github.com/33cn/chain33/system/p2p/dht/protocol/peer"
	mavl "github.com/33cn/chain33/system/store/mavl/db"
	"github.com/33cn/chain33/types"
	"github.com/golang/snappy"
	"github.com/libp2p/go-libp2p/core/network"
	"github.com/libp2p/go-libp2p/core/peer"
	lproto "github.com/libp2p/go-libp2p/core/protocol"

	"verifsim/simnet"
	"verifsim/simrt"
)

func init() {
	simrt.Register(&simrt.Info{Property: "C33", Engine: &crashEngine{}, PanicClass: "peer-input-panic",
		Rule: "one case = a burst of 12..45 peer inputs in generated arrival order over every receive path (light blocks with count/hash-list/group-expansion mutations, full blocks, transactions and batches with field mutations, peer block request/response messages, raw and bit-damaged wire bytes through snappy+protobuf, download replies, inbound download/version/peer-info streams, peer-info and version replies, mavl proofs), interleaved with later pool updates, local height changes and virtual-time ticks, followed by liveness probes on every background loop; distinct = scenario digest; non-trivial = at least 8 inputs reached chain33 code on at least 3 different receive paths",
		Nontrivial: func(sc *simrt.Scenario, r *simrt.Result) bool {
			paths := 0
			for k := range r.Probes {
				if strings.HasPrefix(k, "path-") {
					paths++
				}
			}
			return r.Probes["inputs"] >= 8 && paths >= 3
		}})
}

// crashEngine is C33.
type crashEngine struct{}

func (crashEngine) Name() string { return "netsim" }

const (
	c33ProbeWait = 10 * time.Second // virtual time a liveness probe may take
	// burst peers are 1..6, liveness probes use identities the burst never
	// names as author, so that legitimate shielding of a misbehaving peer cannot
	// be mistaken for a dead loop
	probePeerA = 7
	probePeerB = 8
)

// light-block mutations
const (
	lmNone = iota
	lmCountLess
	lmCountMore
	lmCountZero
	lmCountNeg
	lmCountHuge
	lmCountLarge
	lmDropHashes
	lmExtraHashes
	lmNilHeader
	lmNilMiner
	lmGroupOverrun
	lmDupHashes
	lmGarbageHashes
	lmSwapHashes
	lmNoHashes
	lmBadHeaderHash
	lmLast
)

var lmNames = []string{"none", "count-less", "count-more", "count-zero", "count-neg", "count-huge", "count-large", "drop-hashes", "extra-hashes", "nil-header", "nil-miner", "group-overrun", "dup-hashes", "garbage-hashes", "swap-hashes", "no-hashes", "bad-header-hash"}

var streamProtos = []string{peerproto.SimPeerInfo, peerproto.SimPeerVersion, dlOld, "/chain33/download-block/1.0.0", peerproto.SimPeerInfoOld, peerproto.SimPeerVersionOld, peerproto.SimStatistical}

func (crashEngine) Generate(prop string, r *simrt.RNG, tier string, run int) *simrt.Scenario {
	sc := &simrt.Scenario{Knobs: map[string]int64{}}
	sc.Knobs["timeout_ms"] = []int64{0, 400, 800}[r.Intn(3)]
	if r.Chance(1, 6) && os.Getenv("VERIF_RACE") != "1" {
		sc.Knobs["second_offence"] = 1
	}
	if r.Chance(1, 12) {
		// broadcast.disableValidation=true (documented for consortium / private
		// chains): no topic validators, no validator bookkeeping
		sc.Knobs["no_validation"] = 1
	}
	nonce := int64(run)*1000 + 1
	// material: 2..4 base blocks
	nblk := r.Range(2, 4)
	for b := 0; b < nblk; b++ {
		blk := simrt.Op{K: "blk", I: []int64{int64(r.Range(1, 40)), int64(r.Range(1, 6)), int64(r.Intn(1 << 30))}}
		nunits := r.Range(2, 6)
		for i := 0; i < nunits; i++ {
			blk.Sub = append(blk.Sub, genUnit(r, &nonce, r.Chance(2, 5)))
		}
		sc.Ops = append(sc.Ops, blk)
	}
	for p := 1; p <= 3; p++ {
		if r.Chance(2, 3) {
			sc.Ops = append(sc.Ops, simrt.Op{K: "rt", I: []int64{int64(p), int64(r.Range(0, 60))}})
		}
	}
	rawBytes := func() string {
		switch r.Intn(4) {
		case 0:
			return simrt.H(r.Bytes(r.Range(0, 12)))
		case 1:
			return simrt.H(r.Bytes(r.Range(12, 300)))
		case 2: // varint / length-delimited looking prefixes
			b := []byte{byte(r.Intn(8)<<3 | 2), 0xff, 0xff, 0xff, 0xff, 0x0f}
			return simrt.H(append(b, r.Bytes(r.Range(0, 20))...))
		default:
			b := []byte{0x0a, byte(r.Intn(200)), 0x12, byte(r.Intn(200)), 0x08, 0xff, 0xff, 0xff, 0xff, 0xff, 0xff, 0xff, 0xff, 0xff, 0x01}
			return simrt.H(append(b, r.Bytes(r.Range(0, 40))...))
		}
	}
	nops := r.Range(12, 45)
	// "open" runs may send a full block with an absurd height, which is known to
	// make the topic validator reject every later well-formed full block
	// (known_findings: C33 loop-dead/fullblock-receive); strict runs never do, so
	// every liveness probe stays meaningful there.
	open := r.Chance(1, 5)
	if open {
		sc.Knobs["open"] = 1
	}
	for i := 0; i < nops; i++ {
		from := int64(r.Range(1, 6))
		switch r.Weighted(16, 6, 8, 8, 8, 5, 4, 6, 5, 6, 4, 3, 8) {
		case 0: // light block
			mut := r.Intn(lmLast)
			if r.Chance(1, 4) {
				mut = lmGroupOverrun
			}
			sc.Ops = append(sc.Ops, simrt.Op{K: "lt", I: []int64{int64(r.Intn(nblk)), int64(mut), int64(r.Intn(1000)), from}})
		case 1: // full block
			mut := r.Intn(8)
			if mut == 2 && !open {
				mut = 1
			}
			sc.Ops = append(sc.Ops, simrt.Op{K: "full", I: []int64{int64(r.Intn(nblk)), int64(mut), int64(r.Intn(1000)), from}})
		case 2: // mutated transaction(s)
			nonce++
			sc.Ops = append(sc.Ops, simrt.Op{K: "txm", I: []int64{int64(r.Intn(14)), nonce, from, int64(r.Intn(2)), int64(r.Intn(1000))}})
		case 3: // raw bytes on a topic
			sc.Ops = append(sc.Ops, simrt.Op{K: "raw", I: []int64{int64(r.Intn(5)), from, int64(r.Intn(3))}, S: []string{rawBytes()}})
		case 4: // peer message
			sc.Ops = append(sc.Ops, simrt.Op{K: "pmsg", I: []int64{int64(r.Intn(7)), from, int64(r.Range(-2, 60)), int64(r.Intn(nblk))}, S: []string{rawBytes()}})
		case 5: // scripted reply for the next query to a peer
			sc.Ops = append(sc.Ops, simrt.Op{K: "reply", I: []int64{int64(r.Range(1, 3)), int64(r.Intn(3)), int64(r.Intn(14)), int64(r.Intn(1000))}, S: []string{rawBytes()}})
		case 6: // inbound stream
			sc.Ops = append(sc.Ops, simrt.Op{K: "in", I: []int64{from, int64(r.Intn(len(streamProtos))), int64(r.Intn(12)), int64(r.Intn(1000))}, S: []string{rawBytes()}})
		case 7: // download task whose replies are whatever was scripted (or honest)
			sc.Ops = append(sc.Ops, simrt.Op{K: "dl", I: []int64{int64(r.Range(1, 50)), int64(r.Range(1, 3)), int64(r.Range(1, 3))}})
		case 8: // later pool update
			sc.Ops = append(sc.Ops, simrt.Op{K: "pool", I: []int64{int64(r.Intn(nblk)), int64(r.Intn(6)), int64(r.Intn(3))}})
		case 9:
			sc.Ops = append(sc.Ops, simrt.Op{K: "tick", I: []int64{int64([]int{50, 200, 250, 450, 1000, 2100, 3500, 11000}[r.Intn(8)])}})
		case 10:
			sc.Ops = append(sc.Ops, simrt.Op{K: "addblock", I: []int64{int64(r.Range(1, 60)), int64(r.Intn(3))}})
		case 11:
			sc.Ops = append(sc.Ops, simrt.Op{K: "bcreply", I: []int64{int64(r.Intn(3))}})
		case 12:
			sc.Ops = append(sc.Ops, simrt.Op{K: "proof", I: []int64{int64(r.Range(1, 12)), int64(r.Intn(12)), int64(r.Intn(9)), int64(r.Intn(1000))}, S: []string{rawBytes()}})
		}
		if r.Chance(1, 8) {
			// the later pool update that completes a pending light block
			sc.Ops = append(sc.Ops, simrt.Op{K: "pool", I: []int64{int64(r.Intn(nblk)), int64(r.Intn(6)), int64(r.Intn(3))}}, simrt.Op{K: "tick", I: []int64{450}})
		}
	}
	// gossipsub runs the inline topic validators on one goroutine per message:
	// bursts of messages from several peers are validated at the same time
	// (always in the race-detector tier)
	if r.Chance(1, 4) || os.Getenv("VERIF_RACE") == "1" {
		for k, m := 0, r.Range(1, 3); k < m; k++ {
			at := r.Range(nblk, len(sc.Ops))
			burst := simrt.Op{K: "burst", I: []int64{int64(r.Range(3, 8)), int64(r.Intn(1000)), int64(r.Intn(nblk))}}
			sc.Ops = append(sc.Ops[:at:at], append([]simrt.Op{burst}, sc.Ops[at:]...)...)
		}
	}
	// stored items are re-processed by the background loops
	for b := 0; b < nblk; b++ {
		for u := 0; u < 6; u++ {
			if r.Chance(1, 2) {
				sc.Ops = append(sc.Ops, simrt.Op{K: "pool", I: []int64{int64(b), int64(u), int64(r.Intn(3))}})
			}
		}
	}
	sc.Ops = append(sc.Ops, simrt.Op{K: "tick", I: []int64{2500}})
	return sc
}

func (e crashEngine) Execute(t *testing.T, ctx *simrt.Ctx) *simrt.Violation {
	defer crashExit()()
	var viol *simrt.Violation
	simrt.InBubble(t, func() { viol = e.run(ctx) })
	if viol != nil && skipKnown {
		switch viol.Class + "/" + viol.Sig {
		case "peer-input-panic/pendBlockLoop/system/p2p/dht/protocol/broadcast.(*ltBroadcast).buildPendBlock", "loop-dead/fullblock-receive",
			"peer-input-panic/pendBlockLoop/system/p2p/dht/protocol/broadcast.(*validator).addBroadcastMsg":
			return nil
		}
	}
	return viol
}

// scripted is one reply a remote peer gives to the node's next query.
type scripted struct {
	kind, param int
	raw         []byte
}

type c33World struct {
	ctx     *simrt.Ctx
	n       *node
	psim    *peerproto.Sim
	pim     *manage.PeerInfoManager
	mu      sync.Mutex
	replies map[string][]scripted // "<peer>/<proto>" -> queue
	ann     map[int]int64         // announced height of routed peers
	blocks  []*ltBlock
	local   int64
	used    map[string]int // scripted replies consumed, by protocol and kind
	// observation state
	published []broadcast.SimPublished
	lastRes   int
	noValid   bool
	open      bool
	lockDead  bool // the pending lists' locks are held for ever
}

func frame(payload []byte) []byte {
	hdr := append([]byte{16}, []byte("/protobuf/msgio\n")...)
	var lp [4]byte
	binary.BigEndian.PutUint32(lp[:], uint32(len(payload)))
	return append(append(hdr, lp[:]...), payload...)
}

func (crashEngine) run(ctx *simrt.Ctx) *simrt.Violation {
	sc := ctx.Sc
	uid := fmt.Sprintf("%s-%d-%d", sc.Property, sc.Run, ctx.Seq())
	noValid := sc.Knob("no_validation", 0) == 1
	n := newNode(ctx, nodeOpts{uid: uid, mempool: true, ltTimeout: sc.Knob("timeout_ms", 0), noValid: noValid})
	defer n.close()
	w := &c33World{noValid: noValid, open: sc.Knob("open", 0) == 1, ctx: ctx, n: n, replies: map[string][]scripted{}, ann: map[int]int64{}, used: map[string]int{}}
	defer func() {
		w.mu.Lock()
		for k, c := range w.used {
			ctx.Probes[k] += c
		}
		w.mu.Unlock()
	}()
	w.pim = manage.NewPeerInfoManager(n.env.Ctx, n.host, n.cli)
	n.env.PeerInfoManager = w.pim
	n.bsim = broadcast.NewSim(n.env, n.run)
	download.InitProtocol(n.env)
	w.psim = peerproto.NewSim(n.env, n.run)
	n.host.Dial = w.dial
	n.bc.setBlock(&types.Block{Height: 0, BlockTime: 946681200})
	simrt.Settle()
	time.Sleep(3 * time.Second)
	simrt.Settle()

	for i := range sc.Ops {
		ctx.CurOp = i
		ctx.Step()
		w.exec(&sc.Ops[i])
		simrt.Settle()
		w.observe(sc.Ops[i].K)
		if v := n.check(); v != nil {
			return v
		}
		if w.lockDead {
			return w.dead("pending-list-lock", "after %q the locks of the pending light-block / block-request lists could not be taken for 10 virtual seconds: a holder never released them, every later light block and the pending loop wait for ever", sc.Ops[i].K)
		}
	}
	ctx.CurOp = len(sc.Ops)
	return w.probes()
}

// observe logs (for the determinism self-test and replays) what the node did in
// response to the last op: blocks handed to blockchain, messages published,
// lengths of the pending lists. Concurrent producers are sorted.
func (w *c33World) observe(what string) {
	n := w.n
	var ev []string
	for _, p := range n.bc.take() {
		ev = append(ev, fmt.Sprintf("post ty=%d h=%d txs=%d pid=%.12s", p.ty, p.block.GetHeight(), len(p.block.GetTxs()), p.pid))
	}
	for _, pm := range n.bsim.TakePublished() {
		w.published = append(w.published, pm)
		id := int32(-1)
		if m, ok := pm.Msg.(*types.PeerPubSubMsg); ok {
			id = m.GetMsgID()
		}
		ev = append(ev, fmt.Sprintf("publish %s id=%d size=%d", topicName(pm.Topic), id, types.Size(pm.Msg)))
	}
	sort.Strings(ev)
	pb, pr := n.bsim.Pending()
	if pb < 0 {
		w.lockDead = true
	}
	w.ctx.Logf("%s t=%v pend=%d/%d res=%d %s", what, now(), pb, pr, w.lastRes, strings.Join(ev, "; "))
}

func (w *c33World) input(path string) {
	w.ctx.Probe("inputs")
	w.ctx.Probe("path-" + path)
}

func pidOf(i int64) peer.ID {
	if i < 1 || i > maxPeers {
		i = 1
	}
	return simnet.PeerID(int(i))
}

// deliver hands wire bytes of a topic to the node (validator, then subscription).
func (w *c33World) deliver(topic string, wire []byte, from, via peer.ID) int {
	res := -1
	w.n.call("pubsub:"+topicName(topic), func() { res = w.n.bsim.Deliver(topic, wire, from, via) })
	simrt.Settle()
	w.lastRes = res
	return res
}

func topicName(t string) string {
	if strings.HasPrefix(t, broadcast.SimPeerPrefix) {
		return "peermsg"
	}
	return t
}

func (w *c33World) exec(op *simrt.Op) {
	n, ctx := w.n, w.ctx
	switch op.K {
	case "blk":
		var units []*txUnit
		for j := range op.Sub {
			if u := n.makeUnit(&op.Sub[j]); u != nil {
				units = append(units, u)
			}
		}
		if len(units) == 0 {
			return
		}
		b := &ltBlock{idx: len(w.blocks), units: units, inPool: make([]bool, len(units)), sender: int(op.Int(1))}
		b.blk = n.makeBlock(op.Int(0), op.Int(2), units)
		w.blocks = append(w.blocks, b)
	case "rt":
		p := int(op.Int(0))
		if p < 1 || p > 3 {
			return
		}
		w.mu.Lock()
		w.ann[p] = op.Int(1)
		w.mu.Unlock()
		_, _ = n.env.RoutingTable.TryAddPeer(simnet.PeerID(p), true, false)
	case "pool":
		if len(w.blocks) == 0 {
			return
		}
		b := w.blocks[int(op.Int(0))%len(w.blocks)]
		u := int(op.Int(1)) % len(b.units)
		if b.inPool[u] {
			return
		}
		b.inPool[u] = true
		via := op.Int(2)
		if w.noValid {
			// without topic validators a transaction received from a peer is never
			// handed to the pool (handleSubMsg skips the tx topics): the pool update
			// comes through the local API
			via = 0
		}
		switch via {
		case 1:
			w.input("tx")
			w.deliver(broadcast.SimTopicTx, n.bsim.Encode(b.units[u].pack), pidOf(2), pidOf(3))
		case 2:
			w.input("batchtx")
			w.deliver(broadcast.SimTopicBatchTx, n.bsim.Encode(&types.Transactions{Txs: []*types.Transaction{b.units[u].pack}}), pidOf(2), pidOf(3))
		default:
			n.submit(b.units[u])
		}
		ctx.Probe("pool-update")
	case "lt":
		if len(w.blocks) == 0 {
			return
		}
		b := w.blocks[int(op.Int(0))%len(w.blocks)]
		lb := w.mutLight(b, int(op.Int(1)), int(op.Int(2)))
		w.input("ltblock")
		ctx.Probe("lt-" + lmNames[int(op.Int(1))%lmLast])
		w.deliver(broadcast.SimTopicLtBlock, n.bsim.Encode(lb), pidOf(op.Int(3)), pidOf(op.Int(3)))
		if pb, _ := n.bsim.Pending(); pb > 0 {
			ctx.Probe("lt-pending")
		}
	case "full":
		if len(w.blocks) == 0 {
			return
		}
		b := w.blocks[int(op.Int(0))%len(w.blocks)]
		blk := types.Clone(b.blk).(*types.Block)
		p := op.Int(2)
		mut := op.Int(1)
		if mut == 2 && !w.open {
			mut = 1 // strict run: no absurd height before the liveness probes
		}
		if mut == 2 {
			ctx.Fault("absurd_block_height")
		}
		switch mut {
		case 1:
			blk.Height = -1 - p
		case 2:
			blk.Height = 1<<62 + p
		case 3:
			blk.Txs = nil
		case 4:
			blk.ParentHash, blk.TxHash, blk.StateHash = nil, nil, nil
		case 5:
			blk.Txs = append(blk.Txs, &types.Transaction{})
		case 6:
			blk.Signature = &types.Signature{Ty: int32(p), Pubkey: []byte{1}, Signature: nil}
		case 7:
			blk = &types.Block{}
		}
		w.input("block")
		w.deliver(broadcast.SimTopicBlock, n.bsim.Encode(blk), pidOf(op.Int(3)), pidOf(op.Int(3)))
	case "burst":
		if len(w.blocks) == 0 {
			return
		}
		// competing full blocks (same height and parent, different hash), light
		// blocks and transactions from several peers, validated concurrently
		k, salt := int(op.Int(0)), op.Int(1)
		type item struct {
			topic string
			wire  []byte
			from  peer.ID
		}
		var items []item
		for g := 0; g < k; g++ {
			b := w.blocks[(int(op.Int(2))+g/3)%len(w.blocks)]
			from := pidOf(int64(1 + g%6)) // 7 and 8 are reserved for the liveness probes
			for j := 0; j < 4; j++ {
				blk := types.Clone(b.blk).(*types.Block)
				blk.BlockTime += int64(g*4+j) + salt%5
				if j == 3 {
					blk.Height += int64(1 + g%2)
				}
				items = append(items, item{broadcast.SimTopicBlock, n.bsim.Encode(blk), from})
			}
			items = append(items, item{broadcast.SimTopicLtBlock, n.bsim.Encode(w.mutLight(b, 0, int(salt)+g)), from})
			tx := n.makeTx(&simrt.Op{K: "tx", I: []int64{salt + int64(g), salt, 7700000 + salt*16 + int64(g)}})
			items = append(items, item{broadcast.SimTopicTx, n.bsim.Encode(tx), from})
		}
		var wg sync.WaitGroup
		start := make(chan struct{})
		for g := 0; g < k; g++ {
			wg.Add(1)
			go func(g int) {
				defer wg.Done()
				<-start
				for i := g; i < len(items); i += k {
					it := items[i]
					w.n.call("pubsub:"+topicName(it.topic), func() { n.bsim.Deliver(it.topic, it.wire, it.from, it.from) })
				}
			}(g)
		}
		close(start)
		wg.Wait()
		simrt.Settle()
		ctx.Fault("concurrent_validation_burst")
		w.input("burst")
	case "txm":
		tx := n.makeTx(&simrt.Op{K: "tx", I: []int64{op.Int(4), op.Int(4), op.Int(1)}})
		mutTx(tx, int(op.Int(0)), int(op.Int(4)))
		if op.Int(3) == 1 {
			txs := &types.Transactions{Txs: []*types.Transaction{tx, {}, tx}}
			w.input("batchtx")
			w.deliver(broadcast.SimTopicBatchTx, n.bsim.Encode(txs), pidOf(op.Int(2)), pidOf(op.Int(2)))
		} else {
			w.input("tx")
			w.deliver(broadcast.SimTopicTx, n.bsim.Encode(tx), pidOf(op.Int(2)), pidOf(op.Int(2)))
		}
	case "raw":
		topics := []string{broadcast.SimTopicTx, broadcast.SimTopicBatchTx, broadcast.SimTopicBlock, broadcast.SimTopicLtBlock, n.bsim.PeerTopic(n.host.ID())}
		topic := topics[int(op.Int(0))%len(topics)]
		data := op.B(0)
		switch op.Int(2) {
		case 1: // well-formed compression around arbitrary bytes: exercises protobuf decoding
			data = snappy.Encode(nil, data)
		case 2: // a valid message of that topic, damaged
			data = w.damaged(topic, data)
		}
		w.input("raw-" + topicName(topic))
		w.deliver(topic, data, pidOf(op.Int(1)), pidOf(op.Int(1)))
	case "pmsg":
		var m *types.PeerPubSubMsg
		h := op.Int(2)
		switch op.Int(0) {
		case 0:
			m = &types.PeerPubSubMsg{MsgID: broadcast.SimBlockReqID, ProtoMsg: types.Encode(&types.ReqInt{Height: h})}
		case 1:
			m = &types.PeerPubSubMsg{MsgID: broadcast.SimBlockReqID, ProtoMsg: types.Encode(&types.ReqInt{Height: w.local + 1 + h%3})}
		case 2:
			if len(w.blocks) == 0 {
				return
			}
			m = &types.PeerPubSubMsg{MsgID: broadcast.SimBlockRespID, ProtoMsg: types.Encode(w.blocks[int(op.Int(3))%len(w.blocks)].blk)}
		case 3:
			m = &types.PeerPubSubMsg{MsgID: broadcast.SimBlockRespID, ProtoMsg: op.B(0)}
		case 4:
			m = &types.PeerPubSubMsg{MsgID: int32(h) + 3, ProtoMsg: op.B(0)}
		case 5:
			m = &types.PeerPubSubMsg{MsgID: broadcast.SimBlockRespID}
		default:
			m = &types.PeerPubSubMsg{MsgID: broadcast.SimBlockReqID, ProtoMsg: op.B(0)}
		}
		w.input("peermsg")
		w.deliver(n.bsim.PeerTopic(n.host.ID()), n.bsim.Encode(m), pidOf(op.Int(1)), pidOf(op.Int(1)))
	case "reply":
		p := int(op.Int(0))
		if p < 1 || p > 3 {
			p = 1
		}
		proto := streamProtos[int(op.Int(1))%3]
		w.mu.Lock()
		k := fmt.Sprintf("%d/%s", p, proto)
		if len(w.replies[k]) < 4 {
			w.replies[k] = append(w.replies[k], scripted{kind: int(op.Int(2)), param: int(op.Int(3)), raw: op.B(0)})
		}
		w.mu.Unlock()
	case "in":
		w.inbound(int(op.Int(0)), streamProtos[int(op.Int(1))%len(streamProtos)], int(op.Int(2)), int(op.Int(3)), op.B(0))
	case "dl":
		w.downloadTask(op.Int(0), []int{int(op.Int(1)), int(op.Int(2))}, false)
	case "tick":
		d := time.Duration(op.Int(0)) * time.Millisecond
		time.Sleep(d)
		ctx.AddSimTime(d)
	case "addblock":
		h := op.Int(0)
		if h > w.local {
			w.local = h
		}
		if op.Int(1) != 0 {
			n.bc.setBlock(canonBlock(h))
		} else {
			n.bc.mu.Lock()
			if h > n.bc.tip {
				n.bc.tip = h
			}
			n.bc.mu.Unlock()
		}
		n.event(types.EventAddBlock, &types.Block{Height: h})
	case "bcreply":
		n.bc.mu.Lock()
		n.bc.replyErr = []string{"", types.ErrBlockExist.Error(), "ErrBlockHashNoMatch"}[int(op.Int(0))%3]
		n.bc.mu.Unlock()
	case "proof":
		w.proof(op)
	}
}

// mutLight derives a (mutated) light block from a base block.
func (w *c33World) mutLight(b *ltBlock, mut, p int) *types.LightBlock {
	mut %= lmLast
	lb := w.n.bsim.LightBlock(types.Clone(b.blk).(*types.Block))
	nh := len(lb.STxHashes)
	switch mut {
	case lmCountLess:
		lb.Header.TxCount = int64(nh - 1 - p%nh)
	case lmCountMore:
		lb.Header.TxCount = int64(nh + 1 + p%4)
	case lmCountZero:
		lb.Header.TxCount = 0
	case lmCountNeg:
		lb.Header.TxCount = -1 - int64(p)
	case lmCountHuge:
		lb.Header.TxCount = 1<<50 + int64(p)
	case lmCountLarge:
		lb.Header.TxCount = 1<<18 + int64(p)
	case lmDropHashes:
		lb.STxHashes = lb.STxHashes[:nh-1-p%nh]
	case lmExtraHashes:
		for i := 0; i <= p%3; i++ {
			lb.STxHashes = append(lb.STxHashes, fmt.Sprintf("%010x", p+i))
		}
	case lmNilHeader:
		lb.Header = nil
	case lmNilMiner:
		lb.MinerTx = nil
	case lmGroupOverrun:
		// cut the block so that the head of a group sits in one of its last
		// positions: expanding the group needs more slots than the block has
		pos := 0
		cut := -1
		for _, u := range b.units {
			if len(u.members) > 1 && pos > 0 {
				cut = pos + 1 + p%(len(u.members)-1) // keep the head and not all members
			}
			pos += len(u.members)
		}
		if cut > 0 && cut < nh {
			lb.STxHashes = lb.STxHashes[:cut]
			lb.Header.TxCount = int64(cut)
			w.ctx.Probe("lt-overrun-shape")
		}
	case lmDupHashes:
		for i := range lb.STxHashes {
			lb.STxHashes[i] = lb.STxHashes[p%nh]
		}
	case lmGarbageHashes:
		g := []string{"", "zz", strings.Repeat("f", 300), "0000000000", "\x00\x01"}
		for i := range lb.STxHashes {
			if (i+p)%2 == 0 {
				lb.STxHashes[i] = g[(i+p)%len(g)]
			}
		}
	case lmSwapHashes:
		if nh > 2 {
			lb.STxHashes[1], lb.STxHashes[nh-1] = lb.STxHashes[nh-1], lb.STxHashes[1]
		}
	case lmNoHashes:
		lb.STxHashes = nil
	case lmBadHeaderHash:
		lb.Header.Hash = nil
	}
	// a fresh header hash per mutation so that the duplicate filter does not hide it
	if lb.Header != nil && mut != lmBadHeaderHash && mut != lmNone {
		lb.Header.Hash = append(append([]byte(nil), lb.Header.Hash...), byte(mut), byte(p))
	}
	return lb
}

func mutTx(tx *types.Transaction, mut, p int) {
	switch mut {
	case 1:
		tx.Signature = nil
	case 2:
		tx.Signature.Signature = []byte{1, 2, 3}
	case 3:
		tx.Signature.Ty = int32(p) + 100
	case 4:
		tx.Payload = nil
	case 5:
		tx.Execer = []byte(strings.Repeat("x", 200))
	case 6:
		tx.Fee = -int64(p)
	case 7:
		tx.Expire = -int64(p) - 1
	case 8:
		tx.GroupCount = int32(p%25) + 2
		tx.Header = []byte{0x0a, 0xff, 0x01}
	case 9:
		tx.GroupCount = 3
		tx.Header = types.Encode(&types.Transactions{Txs: []*types.Transaction{{}, {}, {}}})
	case 10:
		tx.Next = []byte{1}
		tx.Header = []byte{2}
	case 11:
		tx.To = strings.Repeat("1", p%90)
	case 12:
		tx.Payload = bytes.Repeat([]byte{7}, 120000)
	case 13:
		*tx = types.Transaction{}
	}
}

// damaged returns a valid wire message of the topic with bytes flipped, cut or
// spliced (salt decides how).
func (w *c33World) damaged(topic string, salt []byte) []byte {
	if len(w.blocks) == 0 || len(salt) == 0 {
		return salt
	}
	b := w.blocks[int(salt[0])%len(w.blocks)]
	var m types.Message
	switch topic {
	case broadcast.SimTopicTx:
		m = b.units[0].pack
	case broadcast.SimTopicBatchTx:
		m = &types.Transactions{Txs: b.blk.Txs}
	case broadcast.SimTopicBlock:
		m = b.blk
	case broadcast.SimTopicLtBlock:
		m = w.n.bsim.LightBlock(types.Clone(b.blk).(*types.Block))
	default:
		m = &types.PeerPubSubMsg{MsgID: broadcast.SimBlockRespID, ProtoMsg: types.Encode(b.blk)}
	}
	raw := types.Encode(m)
	r := simrt.NewRNG(uint64(len(salt))*131 + uint64(salt[len(salt)-1]))
	switch r.Intn(4) {
	case 0:
		raw = raw[:r.Intn(len(raw))]
	case 1:
		for i := 0; i < 1+r.Intn(4); i++ {
			raw[r.Intn(len(raw))] ^= byte(1 << uint(r.Intn(8)))
		}
	case 2:
		i := r.Intn(len(raw))
		raw = append(append(append([]byte(nil), raw[:i]...), salt...), raw[i:]...)
	case 3: // damage after compression
		c := snappy.Encode(nil, raw)
		c[r.Intn(len(c))] ^= 0x55
		return c
	}
	return snappy.Encode(nil, raw)
}

// ---------------------------------------------------------------------------
// remote side of streams the node opens

func (w *c33World) dial(dctx context.Context, h *simnet.Host, pid peer.ID, proto lproto.ID) (network.Stream, error) {
	idx := 0
	for i := 1; i <= maxPeers; i++ {
		if simnet.PeerID(i) == pid {
			idx = i
		}
	}
	if idx == 0 {
		return nil, fmt.Errorf("no route to %s", pid)
	}
	w.mu.Lock()
	k := fmt.Sprintf("%d/%s", idx, proto)
	var s *scripted
	if q := w.replies[k]; len(q) > 0 {
		s = &q[0]
		w.replies[k] = q[1:]
	}
	ann := w.ann[idx]
	w.mu.Unlock()
	w.mu.Lock()
	if s != nil {
		w.used[fmt.Sprintf("reply-%s-%d", proto, s.kind)]++
	} else {
		w.used["honest-"+string(proto)]++
	}
	w.mu.Unlock()
	if s != nil && s.kind == 11 {
		return nil, fmt.Errorf("stream refused")
	}
	local, far := h.Pipe(pid, idx, proto, network.DirOutbound)
	w.n.run("peer-script", func() { w.remote(idx, string(proto), far, s, ann) })
	return local, nil
}

// readFrame consumes one request the node wrote (header + msgio frame).
func readFrame(s *simnet.Stream) ([]byte, bool) {
	_ = s.SetReadDeadline(time.Now().Add(5 * time.Second))
	var hdr [17 + 4]byte
	if _, err := io.ReadFull(s, hdr[:]); err != nil {
		return nil, false
	}
	l := binary.BigEndian.Uint32(hdr[17:])
	if l > 1<<24 {
		return nil, false
	}
	buf := make([]byte, l)
	if _, err := io.ReadFull(s, buf); err != nil {
		return nil, false
	}
	return buf, true
}

func (w *c33World) remote(idx int, proto string, far *simnet.Stream, s *scripted, ann int64) {
	defer far.Close()
	var reqHeight int64
	switch proto {
	case peerproto.SimPeerVersion:
		if _, ok := readFrame(far); !ok {
			return
		}
	case dlOld:
		raw, ok := readFrame(far)
		if !ok {
			return
		}
		var req types.MessageGetBlocksReq
		if types.Decode(raw, &req) == nil {
			reqHeight = req.GetMessage().GetStartHeight()
		}
	}
	if s == nil { // honest peer
		switch proto {
		case peerproto.SimPeerInfo:
			_ = protocol.WriteStream(&types.Peer{Addr: "10.0.0.1", Port: 13802, Name: simnet.PeerID(idx).Pretty(), Header: &types.Header{Height: ann}, Version: "6.9.0@1.68.0"}, far)
		case peerproto.SimPeerVersion:
			_ = protocol.WriteStream(&types.P2PVersion{AddrFrom: simnet.Addr(idx).String(), AddrRecv: "/ip4/10.0.0.0/tcp/13802", Timestamp: 1}, far)
		case dlOld:
			_ = protocol.WriteStream(&types.MessageGetBlocksResp{Message: &types.InvDatas{Items: []*types.InvData{{Ty: 2, Value: &types.InvData_Block{Block: canonBlock(reqHeight)}}}}}, far)
		}
		return
	}
	p := s.param
	var payload []byte
	switch s.kind {
	case 0: // raw bytes, no framing
		far.Write(s.raw)
		return
	case 1: // framed noise
		payload = s.raw
	case 2: // nothing
		return
	case 3: // silence, then reset
		time.Sleep(20 * time.Second)
		far.Reset()
		return
	case 4: // frame shorter than announced
		f := frame(s.raw)
		binary.BigEndian.PutUint32(f[17:], uint32(len(s.raw)+100))
		far.Write(f)
		return
	case 5: // frame length beyond any block
		f := frame(nil)
		binary.BigEndian.PutUint32(f[17:], 0xfffffff0)
		far.Write(f)
		return
	default: // structurally mutated reply of the right type
		switch proto {
		case peerproto.SimPeerInfo:
			info := &types.Peer{Addr: "10.0.0.1", Port: 13802, Name: simnet.PeerID(idx).Pretty(), Header: &types.Header{Height: ann}, Version: "6.9.0@1.68.0"}
			switch s.kind {
			case 6:
				info.Header = nil
			case 7:
				info.Header.Height = -int64(p) - 1
			case 8:
				info.Header.Height = 1<<62 + int64(p)
			case 9:
				info.Name = []string{"", "not-a-peer-id", strings.Repeat("Q", 5000), w.n.host.ID().Pretty(), simnet.PeerID(idx%3 + 1).Pretty()}[p%5]
			case 10:
				info.Version = []string{"", "@", "a@b.c.d", "1.0@99999999999999999999.1", "1@2@3", "x@1"}[p%6]
			case 12:
				info.Port = -int32(p)
				info.Addr = strings.Repeat("/", p%40)
				info.Finalized = &types.SnowChoice{Height: -1}
			default:
				info = &types.Peer{}
			}
			payload = types.Encode(info)
		case peerproto.SimPeerVersion:
			addrs := []string{"", "/", "////", "/ip4/8.8.8.8/tcp/99999999", "/ip4/8.8.8.8/tcp/x", "/ip4/999.1.1.1/tcp/1", "/ip4/8.8.8.8", "/ip4/8.8.8.8/tcp/13802", "/ip6/::1/tcp/1", "8.8.8.8", strings.Repeat("/ip4", 300), "/ip4/8.8.8.8/tcp/-1/x"}
			v := &types.P2PVersion{AddrFrom: addrs[p%len(addrs)], AddrRecv: addrs[(p/len(addrs))%len(addrs)], Timestamp: -int64(p), Version: int32(p)}
			if s.kind == 13 {
				v = &types.P2PVersion{}
			}
			payload = types.Encode(v)
		default:
			var resp *types.MessageGetBlocksResp
			switch s.kind {
			case 6:
				resp = &types.MessageGetBlocksResp{}
			case 7:
				resp = &types.MessageGetBlocksResp{Message: &types.InvDatas{}}
			case 8:
				resp = &types.MessageGetBlocksResp{Message: &types.InvDatas{Items: []*types.InvData{{Ty: 1, Value: &types.InvData_Tx{Tx: &types.Transaction{}}}}}}
			case 9:
				resp = &types.MessageGetBlocksResp{Message: &types.InvDatas{Items: []*types.InvData{{Ty: 2}}}}
			case 10:
				resp = &types.MessageGetBlocksResp{Message: &types.InvDatas{Items: []*types.InvData{{Ty: 2, Value: &types.InvData_Block{Block: &types.Block{Height: -int64(p)}}}}}}
			default:
				resp = &types.MessageGetBlocksResp{Message: &types.InvDatas{Items: []*types.InvData{{Ty: 2, Value: &types.InvData_Block{Block: canonBlock(reqHeight + int64(p%5))}}}}}
			}
			payload = types.Encode(resp)
		}
	}
	far.Write(frame(payload))
}

// inbound opens a stream towards the node and writes a (mutated) request.
func (w *c33World) inbound(from int, proto string, kind, p int, raw []byte) {
	if from < 1 || from > maxPeers {
		from = 1
	}
	far, done, ok := w.n.host.Inbound(from, lproto.ID(proto), w.n.run)
	if !ok {
		return
	}
	w.input("stream-" + proto)
	ch := w.n.env.SubConfig.Channel
	var payload []byte
	framed := true
	switch kind {
	case 0:
		payload, framed = raw, false
	case 1:
		payload = raw
	case 2:
		payload = nil
	default:
		switch proto {
		case peerproto.SimPeerVersion:
			addrs := []string{"", "/", "/ip4/8.8.8.8/tcp/99999999", "/ip4/8.8.8.8/tcp/13802", "/ip4/8.8.8.8", "8.8.8.8", "/ip4/1.2.3.4/tcp/x/y"}
			v := &types.P2PVersion{Version: ch, AddrFrom: addrs[p%len(addrs)], AddrRecv: addrs[(p/7)%len(addrs)]}
			if kind == 3 {
				v.Version = ch + 1 + int32(p) // another chain: the node shields the peer
			}
			payload = types.Encode(v)
		case peerproto.SimPeerVersionOld:
			v := &types.MessageP2PVersionReq{Message: &types.P2PVersion{Version: ch, AddrFrom: "/ip4/8.8.8.8/tcp/99999999", AddrRecv: "/"}}
			if kind%2 == 1 {
				v.Message = nil
			}
			payload = types.Encode(v)
		case dlOld:
			req := &types.MessageGetBlocksReq{Message: &types.P2PGetBlocks{StartHeight: int64(p % 40), EndHeight: int64(p % 40)}}
			switch kind {
			case 3:
				req.Message = nil
			case 4:
				req.Message.StartHeight = -int64(p)
			case 5:
				req.Message.EndHeight = req.Message.StartHeight + 257 + int64(p)
			case 6:
				req.Message.EndHeight = req.Message.StartHeight - 1
			case 7:
				req.Message.StartHeight, req.Message.EndHeight = 1<<62, 1<<62
			case 8:
				req.Message.StartHeight, req.Message.EndHeight = -1<<63, 1<<63-1
			}
			payload = types.Encode(req)
		case "/chain33/download-block/1.0.0":
			req := &types.ReqBlocks{Start: int64(p % 40), End: int64(p % 40)}
			switch kind {
			case 4:
				req.Start = -int64(p)
			case 5:
				req.End = req.Start + 300
			case 6:
				req.End = req.Start - 1
			case 7:
				req.Start, req.End = 1<<62, 1<<62
			case 8:
				req.Start, req.End = -1<<63, 1<<63-1
			}
			payload = types.Encode(req)
		default:
			payload = types.Encode(&types.MessagePeerInfoReq{})
		}
	}
	_ = far.SetDeadline(time.Now().Add(8 * time.Second))
	if framed {
		_, _ = far.Write(frame(payload))
	} else {
		_, _ = far.Write(payload)
	}
	// read whatever comes back, then hang up
	buf := make([]byte, 4096)
	total := 0
	for total < 1<<22 {
		k, err := far.Read(buf)
		total += k
		if err != nil {
			break
		}
	}
	far.Close()
	select {
	case <-done:
	case <-time.After(15 * time.Second):
		w.ctx.Probe("inbound-handler-slow")
	}
}

// downloadTask runs an EventFetchBlocks task for one height against the given
// peers; it returns whether the handler returned and what reached blockchain.
func (w *c33World) downloadTask(h int64, peers []int, probe bool) (returned bool, got []posted) {
	n := w.n
	var pids []string
	for _, p := range peers {
		if p < 1 || p > maxPeers {
			p = 1
		}
		id := simnet.PeerID(p)
		pids = append(pids, id.Pretty())
		w.pim.Refresh(&types.Peer{Name: id.Pretty(), Header: &types.Header{Height: h + 5}})
	}
	hd := protocol.GetEventHandler(types.EventFetchBlocks)
	if hd == nil {
		simrt.Failf("no EventFetchBlocks handler")
	}
	n.bc.take()
	w.input("download-reply")
	msg := n.cli.NewMessage("p2p", types.EventFetchBlocks, &types.ReqBlocks{Start: h, End: h, Pid: pids})
	done := make(chan struct{})
	n.run("handleEventDownloadBlock", func() {
		defer close(done)
		hd.CallBack(msg)
	})
	for i := 0; i < 150 && !returned; i++ {
		simrt.Settle()
		select {
		case <-done:
			returned = true
		default:
			time.Sleep(time.Second)
			w.ctx.AddSimTime(time.Second)
		}
	}
	simrt.Settle()
	got = n.bc.take()
	for _, p := range got {
		w.ctx.Logf("download h=%d returned=%v delivered h=%d pid=%.12s", h, returned, p.block.GetHeight(), p.pid)
	}
	if len(got) == 0 {
		w.ctx.Logf("download h=%d returned=%v nothing delivered", h, returned)
	}
	return returned, got
}

func (w *c33World) proof(op *simrt.Op) {
	w.input("mavl-proof")
	db, err0 := dbm.NewGoMemDB("c33proof", "", 16)
	simrt.Must(err0, "memdb")
	defer db.Close()
	cfg := &mavl.TreeConfig{}
	nk := int(op.Int(0))
	if nk < 1 {
		nk = 1
	}
	var kvs []*types.KeyValue
	for i := 0; i < nk; i++ {
		kvs = append(kvs, &types.KeyValue{Key: []byte(fmt.Sprintf("key-%03d", i)), Value: []byte(fmt.Sprintf("value-%d", i))})
	}
	root, err := mavl.SetKVPair(db, &types.StoreSet{KV: kvs}, true, cfg)
	simrt.Must(err, "mavl.SetKVPair")
	kv := kvs[int(op.Int(1))%nk]
	good, err := mavl.GetKVPairProof(db, root, kv.Key, cfg)
	simrt.Must(err, "mavl.GetKVPairProof")
	var mp types.MAVLProof
	simrt.Must(types.Decode(good, &mp), "decode own proof")
	pr := append([]byte(nil), good...)
	p := int(op.Int(3))
	switch op.Int(2) {
	case 1:
		if len(pr) > 0 {
			pr = pr[:p%len(pr)]
		}
	case 2:
		if len(pr) > 0 {
			pr[p%len(pr)] ^= byte(1 << uint(p%8))
		}
	case 3:
		pr = op.B(0)
	case 4:
		if len(mp.InnerNodes) > 0 {
			k := p % len(mp.InnerNodes)
			mp.InnerNodes = append(mp.InnerNodes[:k:k], mp.InnerNodes[k+1:]...)
		}
		pr = types.Encode(&mp)
	case 5:
		mp.InnerNodes = append(mp.InnerNodes, mp.InnerNodes...)
		pr = types.Encode(&mp)
	case 6:
		mp.InnerNodes = append(mp.InnerNodes, &types.InnerNode{}, &types.InnerNode{Height: -1, Size: -1})
		pr = types.Encode(&mp)
	case 7:
		for _, in := range mp.InnerNodes {
			in.Height, in.Size = 1<<31-1, -1<<31
			in.LeftHash = bytes.Repeat([]byte{1}, p%70)
		}
		pr = types.Encode(&mp)
	case 8:
		pr = nil
	}
	var okGood, okBad, okMut bool
	w.n.call("mavl.VerifyKVPairProof", func() {
		okGood = mavl.VerifyKVPairProof(db, root, kv, good)
		okMut = mavl.VerifyKVPairProof(db, root, kv, pr)
		okBad = mavl.VerifyKVPairProof(db, root, &types.KeyValue{Key: kv.Key, Value: append([]byte("x"), kv.Value...)}, pr)
		_ = mavl.VerifyKVPairProof(db, op.B(0), kv, pr)
		_ = mavl.VerifyKVPairProof(db, nil, &types.KeyValue{}, pr)
	})
	_ = okMut
	if !okGood {
		w.n.mu.Lock()
		w.n.fatals = append(w.n.fatals, fatal{where: "mavl-proof", frame: "valid-proof-rejected", text: fmt.Sprintf("the proof produced by GetKVPairProof for key %q does not verify", kv.Key)})
		w.n.mu.Unlock()
	}
	if okBad {
		w.n.mu.Lock()
		w.n.fatals = append(w.n.fatals, fatal{where: "mavl-proof", frame: "wrong-value-accepted", text: fmt.Sprintf("a proof verified for key %q with a value that is not in the tree", kv.Key)})
		w.n.mu.Unlock()
	}
}

// ---------------------------------------------------------------------------
// liveness probes: after the burst every loop still does its job

func (w *c33World) dead(sig, format string, a ...interface{}) *simrt.Violation {
	return w.ctx.Violate("loop-dead", sig, "after the burst of peer input a well-formed request is no longer served: "+format, a...)
}

// waitFor advances virtual time in small steps until cond holds.
func (w *c33World) waitFor(max time.Duration, cond func() bool) bool {
	for el := time.Duration(0); ; el += 100 * time.Millisecond {
		simrt.Settle()
		if cond() {
			return true
		}
		if el >= max {
			return false
		}
		time.Sleep(100 * time.Millisecond)
		w.ctx.AddSimTime(100 * time.Millisecond)
	}
}

func (w *c33World) probes() *simrt.Violation {
	n, ctx := w.n, w.ctx
	check := func() *simrt.Violation { simrt.Settle(); return n.check() }
	base := int64(7000000) + int64(ctx.Sc.Run)*100
	unit := func(k int64) *txUnit { return n.makeUnit(&simrt.Op{K: "tx", I: []int64{k % 8, k, base + k}}) }
	n.bc.mu.Lock()
	n.bc.replyErr = ""
	n.bc.mu.Unlock()
	n.bc.take()
	n.bsim.TakePublished()
	postedHas := func(b *types.Block) func() bool {
		var seen bool
		return func() bool {
			for _, p := range n.bc.take() {
				if p.block != nil && bytes.Equal(types.Encode(p.block), types.Encode(b)) {
					seen = true
				}
			}
			return seen
		}
	}
	author := pidOf(probePeerA)

	// P1: a complete light block is rebuilt at once (subscription loop + receive path)
	u1, u2 := unit(1), unit(2)
	for _, u := range []*txUnit{u1, u2} {
		if ok, why := n.submit(u); !ok {
			return w.dead("tx-path", "a well-formed transaction is refused by the pool: %s", why)
		}
	}
	b1 := n.makeBlock(w.local+1000, base, []*txUnit{u1, u2})
	if res := w.deliver(broadcast.SimTopicLtBlock, n.bsim.Encode(n.bsim.LightBlock(types.Clone(b1).(*types.Block))), author, author); res != broadcast.SimAccept {
		return w.dead("ltblock-validator", "light block from an unshielded peer rejected by the topic validator (%d)", res)
	}
	if !w.waitFor(c33ProbeWait, postedHas(b1)) {
		if v := check(); v != nil {
			return v
		}
		return w.dead("ltblock-receive", "a light block whose transactions are all in the pool was not posted to blockchain within %v", c33ProbeWait)
	}
	ctx.Probe("probe-ltblock")

	// P2: a light block with a missing transaction is completed by the pending loop
	u3, u4 := unit(3), unit(4)
	b2 := n.makeBlock(w.local+1001, base+1, []*txUnit{u3, u4})
	has2 := postedHas(b2)
	w.deliver(broadcast.SimTopicLtBlock, n.bsim.Encode(n.bsim.LightBlock(types.Clone(b2).(*types.Block))), author, author)
	if has2() {
		return ctx.Violate("wrong-block-posted", "probe-incomplete-posted", "a light block was posted although one of its transactions is not in the pool")
	}
	if w.noValid {
		if ok, why := n.submit(u4); !ok {
			return w.dead("tx-path", "a well-formed transaction is refused by the pool: %s", why)
		}
	} else if res := w.deliver(broadcast.SimTopicTx, n.bsim.Encode(u4.pack), author, author); res != broadcast.SimAccept {
		return w.dead("tx-path", "a well-formed transaction broadcast by a peer was not accepted (%d)", res)
	}
	if !w.waitFor(c33ProbeWait, has2) {
		if v := check(); v != nil {
			return v
		}
		pb, _ := n.bsim.Pending()
		return w.dead("pendBlockLoop", "a pending light block whose missing transaction arrived was not posted within %v (pending list length %d)", c33ProbeWait, pb)
	}
	ctx.Probe("probe-pendloop")

	// P3: a block request for a height the node reaches later is answered by the request loop
	reqPeer := pidOf(probePeerB)
	hreq := w.local + 1
	m := &types.PeerPubSubMsg{MsgID: broadcast.SimBlockReqID, ProtoMsg: types.Encode(&types.ReqInt{Height: hreq})}
	n.bsim.TakePublished()
	w.deliver(n.bsim.PeerTopic(n.host.ID()), n.bsim.Encode(m), reqPeer, reqPeer)
	n.bc.setBlock(canonBlock(hreq))
	n.event(types.EventAddBlock, &types.Block{Height: hreq})
	w.local = hreq
	answered := false
	if !w.waitFor(c33ProbeWait, func() bool {
		for _, pm := range n.bsim.TakePublished() {
			if r, ok := pm.Msg.(*types.PeerPubSubMsg); ok && pm.Topic == n.bsim.PeerTopic(reqPeer) && r.GetMsgID() == broadcast.SimBlockRespID {
				var blk types.Block
				if types.Decode(r.GetProtoMsg(), &blk) == nil && blk.Height == hreq {
					answered = true
				}
			}
		}
		return answered
	}) {
		if v := check(); v != nil {
			return v
		}
		_, pr := n.bsim.Pending()
		return w.dead("blockRequestLoop", "a peer's request for block %d was not answered within %v after the node reached that height (request list length %d)", hreq, c33ProbeWait, pr)
	}
	ctx.Probe("probe-reqloop")

	// P4: a download task against a healthy peer
	hd := w.local + 7
	ret, got := w.downloadTask(hd, []int{probePeerA}, true)
	okd := false
	for _, p := range got {
		if p.ty == types.EventSyncBlock && p.block != nil && sameBlock(p.block, canonBlock(hd)) {
			okd = true
		}
	}
	if v := check(); v != nil {
		return v
	}
	if !ret || !okd {
		return w.dead("download-task", "download of height %d from a healthy peer: handler returned=%v delivered=%v", hd, ret, okd)
	}
	ctx.Probe("probe-download")

	// P5: inbound stream handlers
	n.bc.setBlock(canonBlock(hd))
	if far, done, ok := n.host.Inbound(probePeerA, dlOld, n.run); ok {
		_ = far.SetDeadline(time.Now().Add(10 * time.Second))
		_ = protocol.WriteStream(&types.MessageGetBlocksReq{Message: &types.P2PGetBlocks{StartHeight: hd, EndHeight: hd}}, far)
		var resp types.MessageGetBlocksResp
		err := protocol.ReadStream(&resp, far)
		far.Close()
		<-done
		good := err == nil && len(resp.GetMessage().GetItems()) == 1 && sameBlock(resp.Message.Items[0].GetBlock(), canonBlock(hd))
		if v := check(); v != nil {
			return v
		}
		if !good {
			return w.dead("download-stream-handler", "a peer's request for block %d (which the node has) got no valid answer: %v", hd, err)
		}
	} else {
		simrt.Failf("download stream handler not registered")
	}
	if far, done, ok := n.host.Inbound(probePeerA, peerproto.SimPeerVersion, n.run); ok {
		_ = far.SetDeadline(time.Now().Add(10 * time.Second))
		_ = protocol.WriteStream(&types.P2PVersion{Version: n.env.SubConfig.Channel, AddrFrom: "/ip4/10.1.1.1/tcp/13802", AddrRecv: "/ip4/10.0.0.0/tcp/13802"}, far)
		var resp types.P2PVersion
		err := protocol.ReadStream(&resp, far)
		far.Close()
		<-done
		if v := check(); v != nil {
			return v
		}
		if err != nil {
			return w.dead("version-stream-handler", "a well-formed version request got no answer: %v", err)
		}
	}
	ctx.Probe("probe-streams")

	// P6: peer-info loops
	w.mu.Lock()
	w.ann[probePeerA] = 77
	w.mu.Unlock()
	_, _ = n.env.RoutingTable.TryAddPeer(pidOf(probePeerA), true, false)
	if !w.waitFor(25*time.Second, func() bool { return w.pim.PeerHeight(pidOf(probePeerA)) == 77 }) {
		if v := check(); v != nil {
			return v
		}
		return w.dead("peer-info-refresh", "the height announced by a healthy routed peer was not picked up within 25s")
	}
	if !w.waitFor(10*time.Second, func() bool { return w.pim.Fetch(n.host.ID()) != nil }) {
		return w.dead("refresh-self", "the node's own peer info was not refreshed within 10s")
	}
	ctx.Probe("probe-peerinfo")

	if w.noValid {
		return check()
	}
	// P7: validator bookkeeping loop
	n.bc.mu.Lock()
	n.bc.replyErr = "ErrBlockHashNoMatch"
	n.bc.mu.Unlock()
	bad := pidOf(probePeerB)
	b3 := n.makeBlock(w.local+1002, base+2, []*txUnit{unit(5)})
	has3 := postedHas(b3)
	res3 := w.deliver(broadcast.SimTopicBlock, n.bsim.Encode(b3), bad, bad)
	if !w.waitFor(c33ProbeWait, has3) {
		if v := check(); v != nil {
			return v
		}
		return w.dead("fullblock-receive", "a well-formed full block (height %d) broadcast by an unshielded peer was not handed to blockchain within %v (topic validator result %d: 0 accept, 1 reject, 2 ignore)", b3.Height, c33ProbeWait, res3)
	}
	if !w.waitFor(c33ProbeWait, func() bool { return n.bsim.Denied(bad) }) {
		if v := check(); v != nil {
			return v
		}
		return w.dead("manageDeniedPeer", "a peer whose block was rejected by blockchain is not shielded after %v", c33ProbeWait)
	}
	ctx.Probe("probe-validator")
	// P8: the same publisher after its shielding has run out: several accepted
	// blocks, then a rejected one again (the bookkeeping counts both ways). Two
	// virtual hours of ticker events are costly: one run in six.
	if ctx.Sc.Knob("second_offence", 0) != 1 {
		return check()
	}
	wait := 2*time.Hour + time.Minute
	time.Sleep(wait)
	ctx.AddSimTime(wait)
	simrt.Settle()
	if n.bsim.Denied(bad) {
		ctx.Probe("probe-still-shielded-after-2h")
		return check()
	}
	n.bc.mu.Lock()
	n.bc.replyErr = ""
	n.bc.mu.Unlock()
	for k := int64(0); k < 4; k++ {
		if k == 3 {
			n.bc.mu.Lock()
			n.bc.replyErr = "ErrBlockHashNoMatch"
			n.bc.mu.Unlock()
		}
		bk := n.makeBlock(w.local+1003+k, base+3+k, []*txUnit{unit(6 + k)})
		hask := postedHas(bk)
		resk := w.deliver(broadcast.SimTopicBlock, n.bsim.Encode(bk), bad, bad)
		if !w.waitFor(c33ProbeWait, hask) {
			if v := check(); v != nil {
				return v
			}
			return w.dead("fullblock-receive-after-shielding", "a well-formed full block (height %d) from a peer whose shielding has run out was not handed to blockchain within %v (topic validator result %d)", bk.Height, c33ProbeWait, resk)
		}
		time.Sleep(2500 * time.Millisecond) // the reply is collected by the 2 s bookkeeping tick
		ctx.AddSimTime(2500 * time.Millisecond)
		simrt.Settle()
		if v := check(); v != nil {
			return v
		}
	}
	if !w.waitFor(c33ProbeWait, func() bool { return n.bsim.Denied(bad) }) {
		if v := check(); v != nil {
			return v
		}
		return w.dead("manageDeniedPeer-second-offence", "a peer whose block was rejected again (after three accepted ones) is not shielded after %v", c33ProbeWait)
	}
	ctx.Probe("probe-validator-second-offence")
	return check()
}

var _ = sort.Strings
