// Package histsim is the engine for C19: validity answers must not depend on
// process history. The simulator owns the process history (which queries were
// asked before, at which heights, in which order), the configuration (non-zero
// address / crypto driver enable heights and fork heights) and — by asking every
// query many times in a re-created pristine state — the map iteration order.
package histsim

import (
	"bytes"
	"crypto/sha256"
	"encoding/json"
	"fmt"
	"io"
	"os"
	"os/exec"
	"sort"
	"strings"
	"sync"
	"testing"

	"github.com/33cn/chain33/client"
	"github.com/33cn/chain33/common"
	"github.com/33cn/chain33/common/address"
	"github.com/33cn/chain33/common/crypto"
	cclient "github.com/33cn/chain33/common/crypto/client"
	_ "github.com/33cn/chain33/system/address" // btc / eth drivers
	"github.com/33cn/chain33/system/address/btc"
	"github.com/33cn/chain33/system/address/eth"
	_ "github.com/33cn/chain33/system/crypto/init"
	"github.com/33cn/chain33/system/dapp"
	"github.com/33cn/chain33/types"
	"github.com/decred/base58"

	"verifsim/simrt"
)

func init() {
	simrt.Register(&simrt.Info{
		Property: "C19", Engine: &c19{},
		Real: []string{"common/address CheckAddress / PubKeyToAddr / ExecAddress / GetExecAddress / GetAddressType / LoadDriver / FormatAddrKey with their caches", "system/address btc, btcMultiSign and eth drivers with their caches", "system/dapp CheckAddress / IsDriverAddress", "common/crypto Init / Load with enable heights, system/crypto secp256k1, ed25519, sm2", "types.Transaction.From / CheckSign", "common/crypto/client crypto context (current block height)"},
		Stub: []string{"QueueProtocolAPI: only GetConfig (the crypto context's config source)", "one harness executor registered at height 150 (dapp.Register) so that IsDriverAddress has a height-gated entry"},
		Rule: "one case = one configuration (address driver enable heights, crypto enable heights, fork heights, default driver) plus one query history (same inputs at heights on both sides of every configured height, shuffled and repeated); every query is first answered in a re-created pristine state (caches re-created; 128 repetitions for address validity, 8 otherwise) and then inside the history; distinct = distinct (configuration, history) digest; non-trivial = at least 8 queries with at least one input asked at two different heights and at least one non-zero enable or fork height",
		Nontrivial: func(sc *simrt.Scenario, r *simrt.Result) bool {
			return len(sc.Ops) >= 8 && r.Probes["same_input_two_heights"] > 0 && r.Probes["nonzero_config_height"] > 0
		},
	})
}

type c19 struct{}

func (c19) Name() string { return "histsim" }

// ---------------------------------------------------------------------------
// fixed inputs (built once per process; all deterministic)

type addrInput struct {
	name string
	addr string
}

type txInput struct {
	name string
	tx   *types.Transaction
}

const execDriverHeight = 150

var (
	once      sync.Once
	cfg       *types.Chain33Config
	addrs     []addrInput
	pubkeys   [][]byte
	txs       []txInput
	execNames = []string{"coins", "histsimexec", "user.p.x.token", "none"}
	cryptos   = []string{"secp256k1", "ed25519", "sm2", "secp256k1eth", "none", "nosuchdriver"}
	errNames  map[error]string
)

type stubAPI struct {
	client.QueueProtocolAPI
	cfg *types.Chain33Config
}

func (s *stubAPI) GetConfig() *types.Chain33Config { return s.cfg }

func b58(ver byte, n int, goodSum bool) string {
	raw := make([]byte, n)
	raw[0] = ver
	for i := 1; i < n-4; i++ {
		raw[i] = byte(i*7 + n)
	}
	sum := common.Sha2Sum(raw[:n-4])
	copy(raw[n-4:], sum[:4])
	if !goodSum {
		raw[n-1] ^= 0x5a
	}
	return base58.Encode(raw)
}

func setup() {
	once.Do(func() {
		cfg = types.NewChain33Config(types.GetDefaultCfgstring())
		dapp.Register(cfg, "histsimexec", func() dapp.Driver { return nil }, execDriverHeight)
		errNames = map[error]string{
			address.ErrCheckVersion: "address.ErrCheckVersion", address.ErrCheckChecksum: "address.ErrCheckChecksum",
			address.ErrAddressChecksum: "address.ErrAddressChecksum", address.ErrDecodeBase58: "address.ErrDecodeBase58",
			address.ErrAddressLength: "address.ErrAddressLength", address.ErrUnknownAddressDriver: "address.ErrUnknownAddressDriver",
			address.ErrUnknownAddressType: "address.ErrUnknownAddressType", address.ErrAddressDriverNotEnable: "address.ErrAddressDriverNotEnable",
			eth.ErrInvalidEthAddr: "eth.ErrInvalidEthAddr", btc.ErrInvalidAddrFormat: "btc.ErrInvalidAddrFormat",
			crypto.ErrUnknownDriver: "crypto.ErrUnknownDriver", crypto.ErrDriverNotEnable: "crypto.ErrDriverNotEnable", crypto.ErrSign: "crypto.ErrSign",
		}
		for i := 0; i < 3; i++ {
			h := sha256.Sum256([]byte{byte(i), 'p', 'k'})
			priv, err := mustCrypto("secp256k1").PrivKeyFromBytes(h[:])
			simrt.Must(err, "privkey")
			pubkeys = append(pubkeys, priv.PubKey().Bytes())
		}
		ethLower := "0x52908400098527886e0f7030069857d2e4169ee7"
		addrs = []addrInput{
			{"btc-valid", b58(0, 25, true)},
			{"multisig-valid", b58(5, 25, true)},
			{"eth-lower", ethLower},
			{"eth-checksum", "0x8617E340B3D01FA5F11F306F4090FD50E238070D"},
			{"exec-driver-address", dapp.ExecAddress("histsimexec")},
			{"exec-address-unregistered", address.ExecAddress("nosuchexec")},
			{"btc-bad-checksum", b58(0, 25, false)},
			{"multisig-bad-checksum", b58(5, 25, false)},
			{"btc-long-bad-checksum", b58(0, 30, false)},
			{"btc-long-good-checksum", b58(0, 30, true)},
			{"unknown-version", b58(9, 25, true)},
			{"too-short", base58.Encode([]byte{0, 1, 2, 3, 4, 5, 6, 7})},
			{"not-base58-not-hex", "l0O-not+an/address"},
			{"hex-39-digits", ethLower[:41]},
			{"hex-no-prefix", ethLower[2:]},
			{"empty", ""},
		}
		mk := func(name, cr string, key byte, signTy int32, mangle bool) {
			h := sha256.Sum256([]byte{key, 't', 'x'})
			priv, err := mustCrypto(cr).PrivKeyFromBytes(h[:])
			simrt.Must(err, "tx privkey "+cr)
			tx := &types.Transaction{Execer: []byte("none"), Payload: []byte("c19-" + name), Fee: 100000, Nonce: int64(key), To: addrs[0].addr}
			tx.Sign(signTy, priv)
			if mangle {
				tx.Signature.Signature[len(tx.Signature.Signature)/2] ^= 1
			}
			txs = append(txs, txInput{name, tx})
		}
		mk("secp256k1/btc-address", "secp256k1", 1, types.SECP256K1, false)
		mk("secp256k1/eth-address", "secp256k1", 2, types.EncodeSignID(types.SECP256K1, 2), false)
		mk("secp256k1/multisig-address-id", "secp256k1", 3, types.EncodeSignID(types.SECP256K1, 1), false)
		mk("ed25519/btc-address", "ed25519", 4, types.ED25519, false)
		mk("sm2/btc-address", "sm2", 5, types.SM2, false)
		mk("secp256k1/bad-signature", "secp256k1", 6, types.SECP256K1, true)
		mk("secp256k1/unknown-sign-type", "secp256k1", 7, 0x0ff0, false)
		// transactions that carry no signature at all / an empty one (their own
		// answer is "invalid"; what matters is that checking them leaves nothing behind)
		mk("no-signature", "secp256k1", 8, types.SECP256K1, false)
		txs[len(txs)-1].tx.Signature = nil
		mk("empty-signature-bytes", "secp256k1", 9, types.SECP256K1, false)
		txs[len(txs)-1].tx.Signature.Signature = nil
	})
}

func mustCrypto(name string) crypto.Crypto {
	c, err := crypto.Load(name, -1)
	simrt.Must(err, "load crypto "+name)
	return c
}

func errID(err error) string {
	if err == nil {
		return "nil"
	}
	if n, ok := errNames[err]; ok {
		return n
	}
	return "other:" + err.Error()
}

// ---------------------------------------------------------------------------
// configuration knobs

type config struct {
	hMS, hETH, hUTXO   int64 // address driver enable heights (btc is the default driver: 0)
	fMS, fB58, fFMT    int64 // ForkMultiSignAddress, ForkBase58AddressCheck, ForkFormatAddressKey
	cED, cSM2, cETHSig int64 // crypto enable heights
	defEth             bool
}

func cfgOf(sc *simrt.Scenario) config {
	c := config{hMS: sc.Knob("h_ms", 0), hETH: sc.Knob("h_eth", 0), hUTXO: sc.Knob("h_utxo", 0), fMS: sc.Knob("f_ms", 0), fB58: sc.Knob("f_b58", 0), fFMT: sc.Knob("f_fmt", 0),
		cED: sc.Knob("c_ed", 0), cSM2: sc.Knob("c_sm2", 0), cETHSig: sc.Knob("c_ethsig", 0), defEth: sc.Knob("def_eth", 0) == 1}
	if c.hETH != 0 {
		c.defEth = false // a default driver must be enabled from height 0
	}
	return c
}

func (c config) heights() []int64 {
	set := map[int64]bool{-1: true, 0: true, 1: true, 1000: true, execDriverHeight - 1: true, execDriverHeight: true}
	for _, h := range []int64{c.hMS, c.hETH, c.hUTXO, c.fMS, c.fB58, c.fFMT, c.cED, c.cSM2, c.cETHSig} {
		if h > 0 {
			set[h-1], set[h], set[h+1] = true, true, true
		}
	}
	var out []int64
	for h := range set {
		out = append(out, h)
	}
	sort.Slice(out, func(i, j int) bool { return out[i] < out[j] })
	return out
}

func apply(c config) {
	def := "btc"
	if c.defEth {
		def = "eth"
	}
	address.Init(&address.Config{DefaultDriver: def, EnableHeight: map[string]int64{"btc": 0, "btcMultiSign": c.hMS, "eth": c.hETH, "utxo": c.hUTXO}})
	crypto.Init(&crypto.Config{
		EnableTypes:  []string{"secp256k1", "ed25519", "sm2", "secp256k1eth", "secp256r1", "btcscript"},
		EnableHeight: map[string]int64{"secp256k1": 0, "ed25519": c.cED, "sm2": c.cSM2, "secp256k1eth": c.cETHSig, "secp256r1": 0, "btcscript": 0},
	}, map[string][]byte{"secp256k1eth": []byte(`{"evmChainID":3999}`)})
	cfg.SetFork("ForkMultiSignAddress", c.fMS)
	cfg.SetFork("ForkBase58AddressCheck", c.fB58)
	cfg.SetFork(address.ForkFormatAddressKey, c.fFMT)
	cclient.SetQueueAPI(&stubAPI{cfg: cfg})
	cclient.SetCurrentBlock(0, 0)
}

// pristine re-creates every cache the queried functions keep.
func pristine() {
	address.VerifResetCaches()
	eth.VerifResetCaches()
	btc.VerifResetCaches()
}

// ---------------------------------------------------------------------------
// generation

// families of queries; a scenario uses a subset so that one known defect does
// not hide the rest of the space
const (
	famValidity = 1 << iota // address.CheckAddress / dapp.CheckAddress / GetAddressType / LoadDriver
	famInvalid              // ... including inputs that every driver rejects
	famPubkey               // PubKeyToAddr / From / ExecAddress / GetExecAddress / FormatAddrKey
	famCrypto               // crypto.Load / CheckSign
)

const c19RegionDen = 3

// one scenario in c19FreshDen is also executed in two fresh processes
const c19FreshDen = 8

var nValid = 6 // the first nValid entries of addrs are valid for exactly one driver

func (c19) Generate(prop string, r *simrt.RNG, tier string, run int) *simrt.Scenario {
	sc := &simrt.Scenario{Knobs: map[string]int64{}}
	pick := func(name string, vals ...int64) {
		if v := vals[r.Intn(len(vals))]; v != 0 {
			sc.Knobs[name] = v
		}
	}
	// Three regions of the space were findings of their own before the fixes
	// "address.CheckAddress no longer depends on map order or on earlier heights"
	// and "eth address driver caches the unformatted address": non-zero ADDRESS
	// driver enable heights, inputs that no enabled driver accepts, and a non-zero
	// ForkFormatAddressKey. Each is entered by one scenario in c19RegionDen.
	if r.Chance(1, c19RegionDen) {
		for sc.Knobs["h_ms"] == 0 && sc.Knobs["h_eth"] == 0 && sc.Knobs["h_utxo"] == 0 {
			pick("h_ms", 0, 50, -1)
			pick("h_eth", 0, 120, -1)
			pick("h_utxo", 0, 0, 70, -1, -1)
		}
	}
	if r.Chance(1, c19RegionDen) {
		sc.Knobs["f_fmt"] = 200
	}
	allowInvalid := r.Chance(1, c19RegionDen)
	if !r.Chance(1, 6) { // one scenario in six keeps every other height at zero
		pick("f_ms", 0, 80, 80)
		pick("f_b58", 0, 160, 160)
		pick("c_ed", 0, 90, 90, -1)
		pick("c_sm2", 0, 140)
		pick("c_ethsig", 0, 110)
	}
	pick("def_eth", 0, 0, 1)
	fam := 0
	for fam == 0 {
		if r.Chance(1, 2) {
			fam |= famValidity
		}
		if r.Chance(1, 2) {
			fam |= famPubkey
		}
		if r.Chance(1, 2) {
			fam |= famCrypto
		}
	}
	if allowInvalid {
		fam |= famValidity | famInvalid
	}
	sc.Knobs["fam"] = int64(fam)
	// fresh: additionally replay the history, forwards and backwards, in two
	// literally fresh OS processes and compare the answers query by query
	if r.Chance(1, c19FreshDen) {
		sc.Knobs["fresh"] = 1
	}
	// conc: the queries are also asked by several goroutines at once, from cold
	// caches (always in the race-detector tier)
	if r.Chance(1, 4) || os.Getenv("VERIF_RACE") == "1" {
		sc.Knobs["conc"] = int64(r.Range(3, 8))
	}
	hs := cfgOf(sc).heights()
	h := func() int64 { return hs[r.Intn(len(hs))] }
	var kinds []string
	if fam&famValidity != 0 {
		kinds = append(kinds, "chk", "chk", "chk", "dchk", "dchk", "atyp", "ldrv", "isdrv")
	}
	if fam&famPubkey != 0 {
		kinds = append(kinds, "pk2a", "pk2a", "from", "exad", "gexa", "fmtk")
	}
	if fam&famCrypto != 0 {
		kinds = append(kinds, "load", "load", "sign", "sign")
	}
	naddr := nValid
	if fam&famInvalid != 0 {
		naddr = 16
	}
	nq := r.Range(6, 60)
	var distinct []simrt.Op
	for len(sc.Ops) < nq {
		var op simrt.Op
		if len(distinct) > 0 && r.Chance(1, 2) {
			// the same input again, usually at another height
			op = distinct[r.Intn(len(distinct))]
			op.I = append([]int64(nil), op.I...)
			if r.Chance(3, 4) {
				op.I[1] = h()
			}
		} else {
			k := kinds[r.Intn(len(kinds))]
			var idx int
			switch k {
			case "chk", "dchk", "atyp", "fmtk", "isdrv":
				idx = r.Intn(naddr)
			case "pk2a":
				idx = r.Intn(3)*3 + r.Intn(3) // pubkey x address id
			case "from":
				idx = r.Intn(7)
			case "sign":
				idx = r.Intn(9)
			case "exad", "gexa":
				idx = r.Intn(len(execNames))*3 + r.Intn(3)
			case "load":
				idx = r.Intn(len(cryptos))
			case "ldrv":
				idx = r.Intn(4)
			}
			op = simrt.Op{K: k, I: []int64{int64(idx), h()}}
			distinct = append(distinct, op)
		}
		sc.Ops = append(sc.Ops, op)
	}
	return sc
}

// ---------------------------------------------------------------------------
// queries

// ask evaluates one query in the current process state. The answer is a
// printable string that identifies error VALUES (not only their text). site names
// the function and the input category (stable, used in signatures).
func ask(op *simrt.Op) (answer, site string) {
	defer func() {
		// a panic is an answer too (and must be as history-independent as any other)
		if p := recover(); p != nil {
			answer = fmt.Sprintf("panic: %v", p)
			if site == "" {
				site = "query/" + op.K
			}
		}
	}()
	return ask1(op)
}

func ask1(op *simrt.Op) (answer, site string) {
	idx, h := int(op.Int(0)), op.Int(1)
	if idx < 0 {
		idx = -idx
	}
	switch op.K {
	case "chk":
		a := addrs[idx%len(addrs)]
		return errID(address.CheckAddress(a.addr, h)), "address.CheckAddress/" + a.name
	case "dchk":
		a := addrs[idx%len(addrs)]
		return errID(dapp.CheckAddress(cfg, a.addr, h)), "dapp.CheckAddress/" + a.name
	case "isdrv":
		a := addrs[idx%len(addrs)]
		return fmt.Sprint(dapp.IsDriverAddress(a.addr, h)), "dapp.IsDriverAddress/" + a.name
	case "atyp":
		a := addrs[idx%len(addrs)]
		ty, err := address.GetAddressType(a.addr)
		return fmt.Sprintf("%d,%s", ty, errID(err)), "address.GetAddressType/" + a.name
	case "fmtk":
		a := addrs[idx%len(addrs)]
		cclient.SetCurrentBlock(h, 0)
		return string(address.FormatAddrKey(a.addr)), "address.FormatAddrKey/" + a.name
	case "ldrv":
		id := int32(idx % 4)
		d, err := address.LoadDriver(id, h)
		n := ""
		if d != nil {
			n = d.GetName()
		}
		return n + "," + errID(err), fmt.Sprintf("address.LoadDriver/id%d", id)
	case "pk2a":
		pk, id := pubkeys[(idx/3)%3], int32(idx%3)
		cclient.SetCurrentBlock(h, 0)
		return address.PubKeyToAddr(id, pk), fmt.Sprintf("address.PubKeyToAddr/id%d", id)
	case "from":
		t := txs[idx%len(txs)]
		cclient.SetCurrentBlock(h, 0)
		return t.tx.From(), "Transaction.From/" + t.name
	case "sign":
		t := txs[idx%len(txs)]
		return fmt.Sprint(t.tx.CheckSign(h)), "Transaction.CheckSign/" + t.name
	case "exad":
		n := execNames[(idx/3)%len(execNames)]
		cclient.SetCurrentBlock(h, 0)
		return address.ExecAddress(n), "address.ExecAddress"
	case "gexa":
		n, id := execNames[(idx/3)%len(execNames)], int32(idx%3)
		cclient.SetCurrentBlock(h, 0)
		a, err := address.GetExecAddress(n, id)
		return a + "," + errID(err), fmt.Sprintf("address.GetExecAddress/id%d", id)
	case "load":
		n := cryptos[idx%len(cryptos)]
		c, err := crypto.Load(n, h)
		return fmt.Sprintf("%v,%s", c != nil, errID(err)), "crypto.Load/" + n
	}
	return "", ""
}

func reps(kind string) int {
	switch kind {
	case "chk", "dchk", "atyp":
		return 128 // several drivers are visited in map order
	case "sign":
		return 4
	}
	return 8
}

func (c19) Execute(t *testing.T, ctx *simrt.Ctx) *simrt.Violation {
	setup()
	sc := ctx.Sc
	c := cfgOf(sc)
	apply(c)
	defer func() { apply(config{}); pristine() }()
	for _, h := range []int64{c.hMS, c.hETH, c.hUTXO, c.fMS, c.fB58, c.fFMT, c.cED, c.cSM2, c.cETHSig} {
		if h != 0 {
			ctx.Probe("nonzero_config_height")
			break
		}
	}
	// which inputs are asked at more than one height
	seen := map[string]map[int64]bool{}
	for i := range sc.Ops {
		op := &sc.Ops[i]
		key := fmt.Sprintf("%s/%d", op.K, op.Int(0))
		if seen[key] == nil {
			seen[key] = map[int64]bool{}
		}
		seen[key][op.Int(1)] = true
	}
	for _, hs := range seen {
		if len(hs) > 1 {
			ctx.Probe("same_input_two_heights")
			break
		}
	}

	// phase 1: the answer in a pristine process state, and its stability
	want := make([]string, len(sc.Ops))
	for i := range sc.Ops {
		op := &sc.Ops[i]
		ctx.CurOp = i
		ctx.Step()
		n := reps(op.K)
		counts := map[string]int{}
		var site string
		for k := 0; k < n; k++ {
			pristine()
			var a string
			a, site = ask(op)
			counts[a]++
			if k == 0 {
				want[i] = a
			}
		}
		if site == "" {
			continue
		}
		if len(counts) > 1 {
			var alts []string
			for a := range counts {
				alts = append(alts, a)
			}
			sort.Strings(alts)
			return ctx.Violate("answer-unstable", site, "%s at height %d under %s: %d identical queries, each in a pristine state (caches re-created), gave %d different answers: %v", site, op.Int(1), c, n, len(alts), alts)
		}
		if want[i] != "nil" && want[i] != "true" {
			ctx.Probe("rejecting_or_nontrivial_answer")
		}
	}
	// phase 2: the same queries as one process history
	pristine()
	var hist bytes.Buffer
	for i := range sc.Ops {
		op := &sc.Ops[i]
		ctx.CurOp = i
		ctx.Step()
		got, site := ask(op)
		if site == "" {
			continue
		}
		if got != want[i] {
			prev := ""
			for j := 0; j < i; j++ {
				if sc.Ops[j].K == op.K && sc.Ops[j].Int(0) == op.Int(0) {
					prev = fmt.Sprintf(" (earlier in this history the same input was asked at height %d and answered %s)", sc.Ops[j].Int(1), want[j])
				}
			}
			return ctx.Violate("history-dependent", site, "%s at height %d under %s: answered %q after %d earlier queries, but %q in a pristine state%s", site, op.Int(1), c, got, i, want[i], prev)
		}
		fmt.Fprintf(&hist, "%s/%d@%d=%s;", op.K, op.Int(0), op.Int(1), got)
	}
	ctx.State(simrt.DigestOf(hist.String()))
	// phase 2b: the queries asked by several goroutines at the same time, each
	// round starting from cold caches. All queries of a round use one height (the
	// node's current height is one process-wide value); many more executor names
	// than the generated ones are resolved for the first time concurrently.
	if nG := int(sc.Knob("conc", 0)); nG > 0 && len(sc.Ops) > 0 {
		type q struct {
			op   simrt.Op
			want string
		}
		for round := 0; round < 6; round++ {
			H := sc.Ops[round%len(sc.Ops)].Int(1)
			var qs []q
			for i := range sc.Ops {
				op := sc.Ops[i]
				op.I = append([]int64(nil), op.I...)
				op.I[1] = H
				if op.K == "fmtk" || op.K == "load" {
					continue
				}
				pristine()
				a, site := ask(&op)
				if site != "" {
					qs = append(qs, q{op, a})
				}
			}
			extra := make([]string, 40)
			wantExtra := make([]string, len(extra))
			cclient.SetCurrentBlock(H, 0)
			for k := range extra {
				extra[k] = fmt.Sprintf("user.p.conc%d.r%d.x%d", sc.Run%7, round, k)
				pristine()
				wantExtra[k] = address.ExecAddress(extra[k])
			}
			pristine()
			cclient.SetCurrentBlock(H, 0)
			var wg sync.WaitGroup
			var mu sync.Mutex
			var bad string
			start := make(chan struct{})
			for g := 0; g < nG; g++ {
				wg.Add(1)
				go func(g int) {
					defer wg.Done()
					<-start
					for k := range extra {
						j := (k*7 + g*13) % len(extra)
						if got := address.ExecAddress(extra[j]); got != wantExtra[j] {
							mu.Lock()
							if bad == "" {
								bad = fmt.Sprintf("address.ExecAddress|address.ExecAddress(%q) answered %q while %d goroutines resolved executor names for the first time, %q alone", extra[j], got, nG, wantExtra[j])
							}
							mu.Unlock()
						}
					}
					for k := range qs {
						x := &qs[(k+g*5)%len(qs)]
						op := x.op
						got, site := ask(&op)
						if got != x.want {
							mu.Lock()
							if bad == "" {
								bad = fmt.Sprintf("%s|%s at height %d under %s: answered %q while %d goroutines asked concurrently, %q when asked alone", site, site, H, c, got, nG, x.want)
							}
							mu.Unlock()
						}
					}
				}(g)
			}
			close(start)
			wg.Wait()
			ctx.Fault("concurrent_first_use")
			if bad != "" {
				parts := strings.SplitN(bad, "|", 2)
				return ctx.Violate("interleaving-dependent", parts[0]+"/concurrent", "%s", parts[1])
			}
		}
		ctx.Probe("concurrent_rounds")
		pristine()
	}
	// phase 3: two literally fresh processes answer the history forwards and
	// backwards without any cache reset. Whatever a process remembers — including
	// state no reset hook knows about — then shows as a difference between the
	// two orders. (Only the two fresh processes are compared with each other:
	// this worker process has a history of thousands of earlier runs.)
	if sc.Knob("fresh", 0) == 1 && os.Getenv("VERIF_HISTSIM_CHILD") == "" {
		fwd := freshAnswers(sc, false)
		rev := freshAnswers(sc, true)
		ctx.Probe("fresh_process_pairs")
		for i := range sc.Ops {
			ctx.CurOp = i
			if fwd[i] != rev[i] {
				_, site := ask(&sc.Ops[i])
				return ctx.Violate("history-dependent", site+"/fresh-process", "%s at height %d under %s: a fresh process answering the history in order says %q, a fresh process answering it in reverse order says %q (in-process pristine answer: %q)", site, sc.Ops[i].Int(1), c, fwd[i], rev[i], want[i])
			}
		}
	}
	return nil
}

// ChildMain is the body of a one-shot fresh process (TestHistsimChild): read one
// scenario, answer its queries in the requested order, print the answers.
func ChildMain(in io.Reader, out io.Writer) {
	var req struct {
		Sc      *simrt.Scenario `json:"sc"`
		Reverse bool            `json:"reverse"`
	}
	data, err := io.ReadAll(in)
	simrt.Must(err, "read request")
	simrt.Must(json.Unmarshal(data, &req), "decode request")
	setup()
	apply(cfgOf(req.Sc))
	n := len(req.Sc.Ops)
	ans := make([]string, n)
	for k := 0; k < n; k++ {
		i := k
		if req.Reverse {
			i = n - 1 - k
		}
		ans[i], _ = ask(&req.Sc.Ops[i])
	}
	b, _ := json.Marshal(ans)
	out.Write(append(b, '\n'))
}

func freshAnswers(sc *simrt.Scenario, reverse bool) []string {
	self, err := os.Executable()
	simrt.Must(err, "os.Executable")
	cmd := exec.Command(self, "-test.run", "^TestHistsimChild$", "-test.timeout", "0", "-test.count", "1")
	env := []string{}
	for _, kv := range os.Environ() {
		if strings.HasPrefix(kv, "VERIF_") {
			continue
		}
		env = append(env, kv)
	}
	cmd.Env = append(env, "VERIF_HISTSIM_CHILD=1")
	req, _ := json.Marshal(map[string]interface{}{"sc": sc, "reverse": reverse})
	cmd.Stdin = bytes.NewReader(req)
	pr, pw, err := os.Pipe()
	simrt.Must(err, "pipe")
	cmd.ExtraFiles = []*os.File{pw}
	var errb bytes.Buffer
	cmd.Stdout, cmd.Stderr = &errb, &errb
	simrt.Must(cmd.Start(), "start fresh process")
	pw.Close()
	data, _ := io.ReadAll(pr)
	werr := cmd.Wait()
	pr.Close()
	var ans []string
	if json.Unmarshal(bytes.TrimSpace(data), &ans) != nil || len(ans) != len(sc.Ops) {
		s := errb.String()
		if len(s) > 2000 {
			s = s[len(s)-2000:]
		}
		simrt.Failf("C19 fresh process gave no answers (%v): %s", werr, s)
	}
	return ans
}

func (c config) String() string {
	return fmt.Sprintf("config{addr enable: btcMultiSign=%d eth=%d utxo=%d default-eth=%v; forks: MultiSignAddress=%d Base58AddressCheck=%d FormatAddressKey=%d; crypto enable: ed25519=%d sm2=%d secp256k1eth=%d; exec driver height=%d}",
		c.hMS, c.hETH, c.hUTXO, c.defEth, c.fMS, c.fB58, c.fFMT, c.cED, c.cSM2, c.cETHSig, execDriverHeight)
}
