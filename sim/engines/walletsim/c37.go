package walletsim

import (
	"bytes"
	"fmt"
	"testing"
	"time"

	"github.com/33cn/chain33/common"
	"github.com/33cn/chain33/common/crypto"
	"github.com/33cn/chain33/types"
	"github.com/33cn/chain33/wallet"
	wcom "github.com/33cn/chain33/wallet/common"

	"verifsim/simdb"
	"verifsim/simrt"
)

func init() {
	simrt.Register(&simrt.Info{
		Property: "C37", Engine: &c37{},
		Rule: "one case = one wallet history (seed saved through the API or planted as a pre-upgrade database with legacy-format blobs, accounts created/imported, password changes with right/wrong/stale old password and new passwords of 1..40 bytes, with an injected batch write error or a crash at the write boundary, lock/unlock, restarts) followed step by step by a decrypt-everything oracle; non-trivial = at least one password change took effect while >= 1 account was stored and at least one other change failed, was faulted, or re-encrypted a legacy blob",
		Nontrivial: func(sc *simrt.Scenario, r *simrt.Result) bool {
			return r.Probes["pw_change_ok_with_accounts"] > 0 &&
				(r.Probes["pw_change_rejected"] > 0 || r.Faults["write_error"] > 0 || r.Faults["crash_restart"] > 0 || r.Probes["legacy_reencrypted"] > 0)
		},
	})
}

type c37 struct{}

func (c37) Name() string { return "walletsim" }

// ---------------------------------------------------------------------------
// generation

func (c37) Generate(prop string, r *simrt.RNG, tier string, run int) *simrt.Scenario {
	sc := &simrt.Scenario{Knobs: map[string]int64{}}
	sign := int64(types.SECP256K1)
	if r.Chance(2, 5) {
		sign = types.ED25519
	}
	sc.Knobs["sign"] = sign
	genKey := func() simrt.Op {
		// S[0] = 32 random bytes; I[0] = 1: expand to the 64-byte form (ed25519 only)
		k := simrt.Op{K: "key", S: []string{simrt.H(r.Bytes(32))}, I: []int64{0, 0}}
		if sign == types.ED25519 && r.Chance(1, 2) {
			k.I[0] = 1
		}
		return k
	}
	var ops []simrt.Op
	locked := true
	if r.Chance(1, 2) {
		// a database written by the pre-upgrade wallet
		p := simrt.Op{K: "plant", S: []string{hx(anyPassword(r)), simrt.H(r.Bytes([]int{16, 20, 24, 32}[r.Intn(4)]))},
			I: []int64{1, int64(r.Intn(2))}}
		if r.Chance(1, 5) {
			p.I[0] = 0 // seed already in the new format
		}
		for i, n := 0, r.Range(1, 4); i < n; i++ {
			k := genKey()
			k.I[1] = 1 // legacy blob
			if r.Chance(1, 5) {
				k.I[1] = 0
			}
			p.Sub = append(p.Sub, k)
		}
		ops = append(ops, p)
	} else {
		ops = append(ops, simrt.Op{K: "saveseed", S: []string{hx(validPassword(r)), simrt.H(r.Bytes([]int{16, 20, 24, 32}[r.Intn(4)]))}})
	}
	n := r.Range(10, 24)
	label := int64(0)
	for i := 0; i < n; i++ {
		switch r.Weighted(3, 2, 3, 4, 7, 2, 2, 2, 1, 1, 1) {
		case 0:
			mode := int64(r.Weighted(7, 2, 1))
			ops = append(ops, simrt.Op{K: "unlock", S: []string{hx(anyPassword(r))}, I: []int64{mode}})
			if mode == 0 {
				locked = false
			}
		case 1:
			ops = append(ops, simrt.Op{K: "lock"})
			locked = true
		case 2:
			if locked && r.Chance(4, 5) {
				ops = append(ops, simrt.Op{K: "unlock", S: []string{""}, I: []int64{0}})
				locked = false
			}
			label++
			ops = append(ops, simrt.Op{K: "newacct", I: []int64{label}})
		case 3:
			if locked && r.Chance(4, 5) {
				ops = append(ops, simrt.Op{K: "unlock", S: []string{""}, I: []int64{0}})
				locked = false
			}
			label++
			k := genKey()
			ops = append(ops, simrt.Op{K: "import", S: k.S, I: []int64{label, k.I[0], int64(r.Weighted(9, 1))}})
		case 4:
			np := validPassword(r)
			if r.Chance(2, 5) {
				np = anyPassword(r)
			}
			old := int64(r.Weighted(13, 4, 3))
			fault := int64(r.Weighted(11, 4, 2, 3))
			ops = append(ops, simrt.Op{K: "setpass", S: []string{hx(np), hx(anyPassword(r))}, I: []int64{old, fault, int64(r.Weighted(6, 3, 1))}})
			if fault >= 2 {
				locked = true
			}
		case 5:
			ops = append(ops, simrt.Op{K: "restart"})
			locked = true
		case 6:
			ops = append(ops, simrt.Op{K: "verify"})
		case 7:
			kind := int64(r.Intn(2))
			var data []byte
			if kind == 0 {
				data = r.Bytes([]int{32, 64}[r.Intn(2)])
			} else {
				data = []byte(mnemonic(r.Bytes([]int{16, 20, 32}[r.Intn(3)])))
			}
			ops = append(ops, simrt.Op{K: "rt", S: []string{hx(anyPassword(r)), simrt.H(data)}, I: []int64{kind}})
		case 8:
			ops = append(ops, simrt.Op{K: "sleep", I: []int64{int64(r.Range(1, 5000))}})
		case 9:
			ops = append(ops, simrt.Op{K: "crash"})
			locked = true
		case 10:
			// a second saveseed must be refused and must not disturb anything
			ops = append(ops, simrt.Op{K: "saveseed", S: []string{hx(validPassword(r)), simrt.H(r.Bytes(16))}})
		}
	}
	ops = append(ops, simrt.Op{K: "verify"})
	sc.Ops = ops
	return sc
}

// ---------------------------------------------------------------------------
// model

type acct struct {
	addr   string
	key    []byte
	legacy bool // still stored as a legacy-format blob
}

type model37 struct {
	hasSeed    bool
	seed       string
	seedLegacy bool
	pw         string // the password currently in effect (durable)
	prevPw     string
	rejected   string // last new password that did NOT take effect
	accts      []acct
	locked     bool
	pws        []string // every password the history mentioned
	changes    int
}

func (m *model37) notePw(p string) {
	for _, x := range m.pws {
		if x == p {
			return
		}
	}
	if len(m.pws) < 24 {
		m.pws = append(m.pws, p)
	}
}

type world37 struct {
	ctx     *simrt.Ctx
	sign    int
	cfg     *types.Chain33Config
	cfgChk  *types.Chain33Config
	id      string
	chkID   string
	disk    *simdb.Disk
	live    *inst
	m       model37
	arm     bool
	armSkip int // writes to let through before the injected failure
	fired   bool
	planted bool
}

var cfgCache = map[string]*types.Chain33Config{}

func cachedCfg(id string, sign int) *types.Chain33Config {
	k := fmt.Sprintf("%s/%d", id, sign)
	if c := cfgCache[k]; c != nil {
		return c
	}
	c := newCfg(id, sign)
	cfgCache[k] = c
	return c
}

func (w *world37) hook(d *simdb.Disk) {
	d.Hooks.WriteFault = func(db string, seq int, batch bool, n int) error {
		if w.arm && db == walletDB {
			if w.armSkip > 0 {
				w.armSkip--
				return nil
			}
			w.arm = false
			w.fired = true
			return simdb.ErrInjected
		}
		return nil
	}
}

func (c37) Execute(t *testing.T, ctx *simrt.Ctx) *simrt.Violation {
	restore := swapRand(simrt.NewRNG(ctx.Sc.Seed).Sub("crand").SubN(uint64(ctx.Sc.Run)))
	defer restore()
	var v *simrt.Violation
	simrt.InBubble(t, func() { v = run37(ctx) })
	return v
}

func run37(ctx *simrt.Ctx) *simrt.Violation {
	sc := ctx.Sc
	w := &world37{ctx: ctx, sign: int(sc.Knob("sign", types.SECP256K1))}
	w.id = fmt.Sprintf("w37-live-%d", w.sign)
	w.chkID = fmt.Sprintf("w37-chk-%d", w.sign)
	w.cfg = cachedCfg(w.id, w.sign)
	w.cfgChk = cachedCfg(w.chkID, w.sign)
	w.disk = simdb.NewDisk(w.id)
	w.hook(w.disk)
	w.disk.StartJournal()
	w.live = startInst(w.cfg)
	w.m.locked = true
	defer func() {
		w.live.stop()
		w.disk.Remove()
	}()
	for i := range sc.Ops {
		op := &sc.Ops[i]
		ctx.CurOp = i
		ctx.Step()
		label, v := w.exec(op)
		if v != nil {
			return v
		}
		simrt.Settle()
		if label == "" {
			continue
		}
		if v := w.snapshotCheck(label); v != nil {
			return v
		}
		ctx.State(simrt.DigestOf(len(w.m.accts), w.m.hasSeed, w.m.locked, len(w.m.pw), w.m.changes%3, w.m.seedLegacy))
	}
	ctx.CurOp = len(sc.Ops)
	// encrypt -> decrypt round trips for every value the history produced
	for _, p := range w.m.pws {
		for _, a := range w.m.accts {
			if v := w.roundtrip([]byte(p), a.key, 0); v != nil {
				return v
			}
		}
		if w.m.hasSeed {
			if v := w.roundtrip([]byte(p), []byte(w.m.seed), 1); v != nil {
				return v
			}
		}
	}
	return nil
}

func pwClass(p []byte) string {
	switch {
	case len(p) > 32:
		return "pw>32"
	case len(p) == 32:
		return "pw=32"
	default:
		return "pw<32"
	}
}

func (w *world37) roundtrip(pw, data []byte, kind int64) *simrt.Violation {
	ctx := w.ctx
	if len(pw) == 0 || len(data) == 0 {
		return nil
	}
	if len(pw) > 32 {
		ctx.Probe("roundtrip_pw_over_32")
	}
	if kind == 0 {
		if len(data)%16 != 0 {
			return nil
		}
		enc := wcom.CBCEncrypterPrivkey(append([]byte(nil), pw...), append([]byte(nil), data...))
		dec := wcom.CBCDecrypterPrivkey(append([]byte(nil), pw...), enc)
		if !bytes.Equal(dec, data) {
			return ctx.Violate("roundtrip", fmt.Sprintf("cbc/new/len%d/%s", len(data), pwClass(pw)),
				"CBCDecrypterPrivkey(CBCEncrypterPrivkey(k)) != k for a %d-byte key and a %d-byte password: got %x want %x", len(data), len(pw), dec, data)
		}
		leg := legacyCBC(pw, data)
		dec = wcom.CBCDecrypterPrivkey(append([]byte(nil), pw...), leg)
		if !bytes.Equal(dec, data) {
			return ctx.Violate("roundtrip", fmt.Sprintf("cbc/legacy/len%d/%s", len(data), pwClass(pw)),
				"a legacy fixed-IV blob of a %d-byte key (password of %d bytes) decrypts to %x, want %x", len(data), len(pw), dec, data)
		}
		return nil
	}
	enc, err := wallet.AesgcmEncrypter(append([]byte(nil), pw...), append([]byte(nil), data...))
	if err != nil {
		return ctx.Violate("roundtrip", "gcm/new/encrypt-error/"+pwClass(pw), "AesgcmEncrypter failed: %v", err)
	}
	dec, err := wallet.AesgcmDecrypter(append([]byte(nil), pw...), enc)
	if err != nil || !bytes.Equal(dec, data) {
		return ctx.Violate("roundtrip", "gcm/new/"+pwClass(pw), "AesgcmDecrypter(AesgcmEncrypter(seed)) = %q, %v; want %q (password of %d bytes)", dec, err, data, len(pw))
	}
	dec, err = wallet.AesgcmDecrypter(append([]byte(nil), pw...), legacyGCM(pw, data))
	if err != nil || !bytes.Equal(dec, data) {
		return ctx.Violate("roundtrip", "gcm/legacy/"+pwClass(pw), "a legacy fixed-nonce seed blob decrypts to %q, %v; want %q (password of %d bytes)", dec, err, data, len(pw))
	}
	return nil
}

// keyBytes materialises a generated key: 32 bytes, or its 64-byte ed25519 form.
func (w *world37) keyBytes(raw []byte, expand bool) []byte {
	if len(raw) != 32 {
		return nil
	}
	if !expand || w.sign != types.ED25519 {
		return raw
	}
	cr, err := crypto.Load(types.GetSignName("", w.sign), -1)
	simrt.Must(err, "crypto.Load")
	p, err := cr.PrivKeyFromBytes(raw)
	simrt.Must(err, "PrivKeyFromBytes")
	return p.Bytes()
}

func (w *world37) hasAddr(addr string) bool {
	for _, a := range w.m.accts {
		if a.addr == addr {
			return true
		}
	}
	return false
}

// restartOn boots a new incarnation over disk d (nil: same disk).
func (w *world37) restartOn(d *simdb.Disk) {
	w.live.stop()
	if d != nil {
		w.disk = d
		w.hook(d)
		d.StartJournal()
	}
	w.live = startInst(w.cfg)
	w.m.locked = true
}

// exec runs one op; the returned label names the step for violation signatures
// ("" = nothing happened, skip the oracle).
func (w *world37) exec(op *simrt.Op) (string, *simrt.Violation) {
	ctx := w.ctx
	m := &w.m
	lw := w.live.w
	switch op.K {
	case "plant":
		if m.hasSeed || w.planted || len(m.accts) > 0 {
			return "", nil
		}
		pw := string(op.B(0))
		if pw == "" {
			return "", nil
		}
		w.live.stop()
		db := w.disk.Open(walletDB)
		seed := mnemonic(op.B(1))
		if op.Int(0) == 1 {
			simrt.Must(db.Set(wcom.CalcWalletSeed(), legacyGCM([]byte(pw), []byte(seed))), "plant seed")
			m.seedLegacy = true
		} else {
			b, err := wallet.AesgcmEncrypter([]byte(pw), []byte(seed))
			simrt.Must(err, "AesgcmEncrypter")
			simrt.Must(db.Set(wcom.CalcWalletSeed(), b), "plant seed")
		}
		simrt.Must(db.Set(wcom.CalcPasswordHash(), pwHashRecord(pw, "fuzamei:$@0123456789abcdef")), "plant hash")
		fk := wcom.CalcEncryptionFlag()
		if op.Int(1) == 1 {
			fk = wcom.CalckeyEncryptionCompFlag()
		}
		simrt.Must(db.Set(fk, []byte("1")), "plant flag")
		ts := fmt.Sprintf("%018d", types.Now().Unix())
		for i := range op.Sub {
			k := &op.Sub[i]
			key := w.keyBytes(k.B(0), k.Int(0) == 1)
			if key == nil {
				continue
			}
			addr, _, err := addrOf(w.sign, key)
			if err != nil || w.hasAddr(addr) {
				continue
			}
			var blob []byte
			if k.Int(1) == 1 {
				blob = legacyCBC([]byte(pw), key)
			} else {
				blob = wcom.CBCEncrypterPrivkey([]byte(pw), key)
			}
			rec := &types.WalletAccountStore{Privkey: common.ToHex(blob), Label: fmt.Sprintf("legacy%d", i), Addr: addr, TimeStamp: ts}
			b := types.Encode(rec)
			simrt.Must(db.Set(wcom.CalcAccountKey(ts, addr), b), "plant acct")
			simrt.Must(db.Set(wcom.CalcAddrKey(addr), b), "plant acct")
			simrt.Must(db.Set(wcom.CalcLabelKey(rec.Label), b), "plant acct")
			m.accts = append(m.accts, acct{addr: addr, key: key, legacy: k.Int(1) == 1})
			if len(key) == 64 {
				ctx.Probe("key64")
			}
		}
		m.hasSeed, m.seed, m.pw = true, seed, pw
		m.notePw(pw)
		w.planted = true
		ctx.Probe("legacy_plant")
		if len(pw) > 32 {
			ctx.Probe("legacy_pw_over_32")
		}
		w.live = startInst(w.cfg)
		m.locked = true
		return "plant", nil

	case "saveseed":
		pw := string(op.B(0))
		seed := mnemonic(op.B(1))
		m.notePw(pw)
		ok, err := lw.SaveSeed(pw, seed)
		if ok && err == nil {
			if m.hasSeed {
				return "", ctx.Violate("secret-lost", "saveseed-overwrote-seed", "SaveSeed succeeded although a seed was already stored")
			}
			m.hasSeed, m.seed, m.pw = true, seed, pw
			ctx.Probe("saveseed_ok")
			return "saveseed", nil
		}
		return "saveseed-refused", nil

	case "unlock":
		pw := m.pw
		switch op.Int(0) {
		case 1:
			pw = string(op.B(0))
		case 2:
			pw = m.rejected
			if pw == "" {
				pw = m.prevPw
			}
		}
		if pw == "" {
			pw = "nopassword1"
		}
		m.notePw(pw)
		err := lw.ProcWalletUnLock(&types.WalletUnLock{Passwd: pw})
		if !m.hasSeed {
			return "", nil
		}
		if pw == m.pw {
			if err != nil {
				return "", ctx.Violate("secret-lost", "live/unlock-current-password", "unlock with the password in effect (%d bytes) failed: %v", len(pw), err)
			}
			m.locked = false
			return "unlock", nil
		}
		if err == nil {
			return "", ctx.Violate("wrong-password-accepted", "live/unlock", "unlock with a password that is not in effect (%q, current %q) succeeded", pw, m.pw)
		}
		ctx.Probe("unlock_wrong")
		return "unlock-wrong", nil

	case "lock":
		if err := lw.ProcWalletLock(); err == nil {
			m.locked = true
		}
		return "lock", nil

	case "newacct":
		acc, err := lw.ProcCreateNewAccount(&types.ReqNewAccount{Label: fmt.Sprintf("acct%d", op.Int(0))})
		if err != nil {
			return "newacct-refused", nil
		}
		addr := acc.GetAcc().GetAddr()
		s, err := lw.ProcDumpPrivkey(addr)
		if err != nil {
			return "", ctx.Violate("secret-lost", "live/new-account-key", "key of the account just created cannot be dumped: %v", err)
		}
		key, _ := common.FromHex(s)
		if a2, _, err := addrOf(w.sign, key); err != nil || a2 != addr {
			return "", ctx.Violate("secret-lost", "live/new-account-key", "key dumped for new account %s derives address %s (%v)", addr, a2, err)
		}
		if !w.hasAddr(addr) {
			m.accts = append(m.accts, acct{addr: addr, key: key})
		}
		if len(key) == 64 {
			ctx.Probe("key64")
		}
		ctx.Probe("newacct_ok")
		return "newacct", nil

	case "import":
		key := w.keyBytes(op.B(0), op.Int(1) == 1)
		if key == nil {
			return "", nil
		}
		if op.Int(2) == 1 {
			w.arm, w.fired, w.armSkip = true, false, 0
		}
		acc, err := lw.ProcImportPrivKey(&types.ReqWalletImportPrivkey{Privkey: common.ToHex(key), Label: fmt.Sprintf("imp%d", op.Int(0))})
		w.arm = false
		if w.fired {
			w.fired = false
			ctx.Fault("write_error")
			if err == nil {
				return "", ctx.Violate("secret-lost", "import-reported-ok-after-write-error", "ProcImportPrivKey returned success although its batch write failed")
			}
		}
		if err != nil {
			return "import-refused", nil
		}
		addr := acc.GetAcc().GetAddr()
		if !w.hasAddr(addr) {
			m.accts = append(m.accts, acct{addr: addr, key: key})
		}
		if len(key) == 64 {
			ctx.Probe("key64")
		}
		ctx.Probe("import_ok")
		return "import", nil

	case "setpass":
		return w.setpass(op)

	case "restart":
		w.restartOn(nil)
		ctx.Fault("close_reopen")
		return "restart", nil

	case "crash":
		d := w.disk.CloneAt(w.disk.Seq0(), w.id)
		w.restartOn(d)
		ctx.Fault("crash_restart")
		return "crash", nil

	case "verify":
		return "verify", w.liveCheck()

	case "rt":
		m.notePw(string(op.B(0)))
		return "", w.roundtrip(op.B(0), op.B(1), op.Int(0))

	case "sleep":
		d := time.Duration(op.Int(0)) * time.Millisecond
		time.Sleep(d)
		ctx.AddSimTime(d)
		return "", nil
	}
	return "", nil
}

func (w *world37) setpass(op *simrt.Op) (string, *simrt.Violation) {
	ctx := w.ctx
	m := &w.m
	lw := w.live.w
	newp := string(op.B(0))
	old := m.pw
	switch op.Int(0) {
	case 1:
		old = string(op.B(1))
	case 2:
		old = m.prevPw
		if old == "" {
			old = string(op.B(1))
		}
	}
	if newp == "" {
		return "", nil
	}
	m.notePw(newp)
	fault := op.Int(1)
	sel := int(op.Int(2))
	if fault == 1 {
		w.arm, w.fired, w.armSkip = true, false, sel
	}
	before := w.disk.Seq0()
	err := lw.ProcWalletSetPasswd(&types.ReqWalletSetPasswd{OldPass: old, NewPass: newp})
	w.arm = false
	simrt.Settle()
	after := w.disk.Seq0()
	label := "setpass"
	took := err == nil
	if err == nil && (!m.hasSeed || old != m.pw) {
		return "", ctx.Violate("wrong-old-password-accepted", "setpasswd", "ProcWalletSetPasswd succeeded with an old password that is not in effect (hasSeed=%v)", m.hasSeed)
	}
	if w.fired {
		w.fired = false
		ctx.Fault("write_error")
		label = "setpass-writefault"
		if err == nil {
			return "", ctx.Violate("secret-lost", "setpasswd-reported-ok-after-write-error", "ProcWalletSetPasswd returned success although its batch write failed")
		}
	}
	// crash points: the process stops at a write boundary of this request.
	// fault 2: after the first `sel` of its writes (0 = before any of them);
	// fault 3: after all of them. A boundary strictly inside the request's writes
	// leaves it to the oracle below to find out which password took effect: the
	// statement allows either, but only one of them for everything.
	nw := after - before
	crashAt := -1
	ambiguous := false
	switch fault {
	case 2:
		k := sel
		if k > nw-1 {
			k = nw - 1
		}
		if k < 0 {
			k = 0
		}
		crashAt = before + k
		switch {
		case nw == 0:
			label = "setpass-refused-then-crash"
		case k == 0:
			took = false
			label = "setpass-crash-before-write"
			ctx.Probe("crash_before_batch")
		default:
			ambiguous = true
			label = "setpass-crash-between-writes"
			ctx.Probe("crash_between_writes")
		}
	case 3:
		crashAt = after
		if nw > 0 {
			label = "setpass-crash-after-write"
			ctx.Probe("crash_after_batch")
		} else {
			label = "setpass-refused-then-crash"
		}
	}
	if ambiguous {
		d := w.disk.CloneAt(crashAt, w.id)
		w.restartOn(d)
		ctx.Fault("crash_restart")
		return label, w.resolve(old, newp, label)
	}
	if took {
		if len(m.accts) > 0 {
			ctx.Probe("pw_change_ok_with_accounts")
		}
		if len(m.accts) > 1 {
			ctx.Probe("pw_change_ok_multi")
		}
		for i := range m.accts {
			if m.accts[i].legacy {
				ctx.Probe("legacy_reencrypted")
				m.accts[i].legacy = false
			}
		}
		if m.seedLegacy {
			ctx.Probe("legacy_seed_reencrypted")
			m.seedLegacy = false
		}
		ctx.Probe("pw_change_ok")
		m.prevPw, m.pw = m.pw, newp
		m.changes++
		if m.rejected == newp {
			m.rejected = ""
		}
	} else {
		if m.hasSeed && newp != m.pw {
			m.rejected = newp
		}
		if err != nil {
			ctx.Probe("pw_change_rejected")
			if old != m.pw {
				ctx.Probe("pw_change_wrong_old")
				label = "setpass-wrong-old"
			} else if label == "setpass" {
				ctx.Probe("pw_change_bad_new")
				label = "setpass-bad-new"
			}
		}
	}
	if crashAt >= 0 {
		d := w.disk.CloneAt(crashAt, w.id)
		w.restartOn(d)
		ctx.Fault("crash_restart")
	}
	return label, nil
}

// resolve is used after a crash between two writes of one password change: the
// durable state must be entirely under the old or entirely under the new
// password; whichever opens everything becomes the password in effect.
func (w *world37) resolve(oldp, newp, label string) *simrt.Violation {
	m := &w.m
	if !m.hasSeed {
		return nil
	}
	var first *simrt.Violation
	for _, cand := range []string{oldp, newp} {
		save := *m
		m.pw = cand
		m.rejected = ""
		snap := w.disk.Clone(w.chkID)
		v := w.decryptAll(checker(w.cfgChk, w.live.w), "snapshot", label)
		snap.Remove()
		if v == nil {
			if cand == newp && cand != oldp {
				m.prevPw = oldp
				m.rejected = oldp
				m.changes++
			} else if newp != oldp {
				m.rejected = newp
			}
			return nil
		}
		if first == nil {
			first = v
		}
		*m = save
	}
	first.Detail = "after a crash between two writes of one password change neither the old nor the new password opens everything; under the old password: " + first.Detail
	return first
}

// snapshotCheck opens a second wallet over a copy of the durable state and
// demands that, under the password the model says is in effect, the seed and
// every account key decrypt to the original bytes; and that the last password
// that did not take effect opens nothing.
func (w *world37) snapshotCheck(label string) *simrt.Violation {
	ctx := w.ctx
	m := &w.m
	if !m.hasSeed {
		return nil
	}
	snap := w.disk.Clone(w.chkID)
	defer snap.Remove()
	if m.rejected != "" && m.rejected != m.pw {
		cw := checker(w.cfgChk, w.live.w)
		if err := cw.ProcWalletUnLock(&types.WalletUnLock{Passwd: m.rejected}); err == nil {
			return ctx.Violate("rejected-password-accepted", "snapshot/after-"+label,
				"a restarted wallet accepts password %q, which never took effect (password in effect: %q)", m.rejected, m.pw)
		}
	}
	return w.decryptAll(checker(w.cfgChk, w.live.w), "snapshot", label)
}

func (w *world37) decryptAll(cw *wallet.Wallet, where, label string) *simrt.Violation {
	ctx := w.ctx
	m := &w.m
	if err := cw.ProcWalletUnLock(&types.WalletUnLock{Passwd: m.pw}); err != nil {
		return ctx.Violate("secret-lost", where+"/unlock-current-password/after-"+label,
			"the password in effect (%d bytes) is refused: %v", len(m.pw), err)
	}
	seed, err := cw.GetSeed(m.pw)
	if err != nil || seed != m.seed {
		return ctx.Violate("secret-lost", where+"/seed/after-"+label,
			"GetSeed under the password in effect = %q, %v; want %q", seed, err, m.seed)
	}
	for _, a := range m.accts {
		s, err := cw.ProcDumpPrivkey(a.addr)
		var got []byte
		if err == nil {
			got, _ = common.FromHex(s)
		}
		if err != nil || !bytes.Equal(got, a.key) {
			return ctx.Violate("secret-lost", fmt.Sprintf("%s/key%d/after-%s", where, len(a.key), label),
				"ProcDumpPrivkey(%s) under the password in effect = %x, %v; want %x (%d accounts stored)", a.addr, got, err, a.key, len(m.accts))
		}
	}
	return nil
}

// liveCheck does the same on the running instance (its in-memory password and
// lock flag take part), then restores the lock state.
func (w *world37) liveCheck() *simrt.Violation {
	m := &w.m
	if !m.hasSeed {
		return nil
	}
	was := m.locked
	if v := w.decryptAll(w.live.w, "live", "verify"); v != nil {
		return v
	}
	m.locked = false
	if was {
		if err := w.live.w.ProcWalletLock(); err == nil {
			m.locked = true
		}
	}
	w.ctx.Probe("live_verify")
	return nil
}
